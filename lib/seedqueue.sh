#!/bin/sh
# process seed output directories as they appear:  lib/seedqueue.sh <dir> <suffix> <ids...>
# (one at a time: each run applies the patch to /repo and reverts it)
dir=$1; suf=$2; shift 2
export GOFLAGS=-mod=mod GOPROXY=off
pending="$*"
while [ -n "$pending" ]; do
  next=""
  for id in $pending; do
    # done = the agent's last file (meta.json) exists and has not been touched for a minute, or a .done marker was set
    if [ -f $dir/${id}_out/meta.json ] && [ -f $dir/${id}_out/patch.diff ] && { [ -f $dir/${id}.done ] || [ -n "$(find $dir/${id}_out/meta.json -mmin +1 2>/dev/null)" ]; }; then
      echo "=== $id $(date +%H:%M:%S)"
      python3 /verif/lib/seedtest.py $dir/${id}_out ${id}-$suf $id 2>&1 | tail -25
    else
      next="$next $id"
    fi
  done
  pending="$next"
  [ -n "$pending" ] && sleep 20
done
echo "=== queue empty $(date +%H:%M:%S)"
