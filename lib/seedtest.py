#!/usr/bin/env python3
"""Validate a seeded change and run the checks against it.

  lib/seedtest.py <out_dir> <seed_name> <property> [<more properties> ...]

<out_dir> holds patch.diff, meta.json, the demonstration (a _test.go + demo_path.txt, or demo/ with its
own go.mod).  Steps: (1) in a scratch worktree of /repo: apply the patch, build, run the existing test
suite (must pass), run the demonstration (must fail), revert the patch, run it again (must pass);
(2) apply the patch to /repo, run ./check for each property (quick tier), undo it; (3) store everything
under /verif/seeded/<seed_name>/ with meta.json extended by what was run and what the checks said.
"""
import json, os, re, shutil, subprocess, sys, time

ROOT = os.path.dirname(os.path.dirname(os.path.abspath(__file__)))
ENV = dict(os.environ, GOFLAGS="-mod=mod", GOPROXY="off")
ENV.pop("GOTOOLCHAIN", None)


def sh(cmd, cwd=None, timeout=1800):
    p = subprocess.run(cmd, shell=True, cwd=cwd, env=ENV, stdout=subprocess.PIPE, stderr=subprocess.STDOUT, text=True, timeout=timeout)
    return p.returncode, p.stdout


def main():
    out_dir, name, props = sys.argv[1], sys.argv[2], sys.argv[3:]
    meta = json.load(open(os.path.join(out_dir, "meta.json")))
    patch = os.path.join(out_dir, "patch.diff")
    wt = "/tmp/seedcheck_" + name
    sh("git -C /repo worktree remove --force %s" % wt)
    rc, o = sh("git -C /repo worktree add -q --detach %s HEAD" % wt)
    assert rc == 0, o
    result = dict(validated=False)
    try:
        rc, o = sh("git apply %s" % patch, cwd=wt)
        assert rc == 0, "patch does not apply: " + o
        rc, o = sh("go build ./...", cwd=wt)
        assert rc == 0, "does not build: " + o[-800:]
        rc, o = sh("go test -vet=off -count=1 ./... 2>&1 | grep -v 'no test files'", cwd=wt)
        failed = [l for l in o.splitlines() if l.startswith("FAIL") or l.startswith("--- FAIL")]
        flaky_only = all(("generic" in l or l.strip() == "FAIL" or "TestSyncMap_Range" in l) for l in failed)
        if failed and flaky_only:   # the pre-existing flaky test (fails about one run in four on the pinned tree too): retry
            for _ in range(6):
                rc2, o2 = sh("go test -vet=off -count=1 ./generic/ 2>&1", cwd=wt)
                if rc2 == 0:
                    failed = []
                    break
        result["existing_tests_with_change"] = "pass" if not failed else "FAIL: " + "; ".join(failed[:5])
        # place the demonstration
        demo_cmd = meta.get("demo_cmd", "")
        dp = os.path.join(out_dir, "demo_path.txt")
        demo_files = []
        if os.path.exists(dp):
            rel = open(dp).read().strip().splitlines()
            for r in rel:
                r = r.strip()
                src = os.path.join(out_dir, os.path.basename(r))
                os.makedirs(os.path.dirname(os.path.join(wt, r)), exist_ok=True)
                shutil.copy(src, os.path.join(wt, r))
                demo_files.append(r)
        if os.path.isdir(os.path.join(out_dir, "demo")):
            shutil.copytree(os.path.join(out_dir, "demo"), os.path.join(wt, "_seed_demo"), dirs_exist_ok=True)
            gm = os.path.join(wt, "_seed_demo", "go.mod")
            if os.path.exists(gm):
                txt = re.sub(r"=> \S+", "=> " + wt, open(gm).read())
                open(gm, "w").write(txt)
                shutil.copy(os.path.join(wt, "go.sum"), os.path.join(wt, "_seed_demo", "go.sum"))
        cmd = demo_cmd.replace("/tmp/seed/%s" % os.path.basename(out_dir).replace("_out", ""), wt)
        if "_seed_demo" not in cmd and os.path.isdir(os.path.join(wt, "_seed_demo")) and "demo" in cmd:
            cmd = re.sub(r"\S*_out/demo", os.path.join(wt, "_seed_demo"), cmd)
        result["demo_cmd_used"] = cmd
        rc1, o1 = sh(cmd, cwd=wt, timeout=600)
        result["demo_with_change"] = "fails" if rc1 != 0 else "PASSES (unexpected)"
        result["demo_with_change_tail"] = o1[-600:]
        # revert the source change only
        sh("git apply -R %s" % patch, cwd=wt)
        rc2, o2 = sh(cmd, cwd=wt, timeout=600)
        result["demo_without_change"] = "passes" if rc2 == 0 else "FAILS (unexpected): " + o2[-400:]
        result["validated"] = (not failed) and rc1 != 0 and rc2 == 0
    except AssertionError as e:
        result["error"] = str(e)
    finally:
        sh("git -C /repo worktree remove --force %s" % wt)
    # run the checks against the change
    checks = {}
    if result.get("validated"):
        rc, o = sh("git -C /repo status --porcelain")
        assert o.strip() == "", "/repo is dirty: " + o
        rc, o = sh("git -C /repo apply %s" % patch)
        try:
            for p in props:
                t0 = time.time()
                rc, o = sh("./check %s --tier quick" % p, cwd=ROOT, timeout=3600)
                viol = [l for l in o.splitlines() if l.startswith("VIOLATION")]
                reps = []
                for v in viol[:3]:
                    m = re.search(r"replay=(\S+)", v)
                    if m and os.path.exists(m.group(1)):
                        r = json.load(open(m.group(1)))
                        reps.append(dict(kind=r.get("kind"), clause=r.get("clause"), script=(r.get("script") or "")[:600],
                                         what=(r.get("what_no_longer_checks") or [])[:3]))
                checks[p] = dict(exit=rc, violations=viol[:6], replays=reps, wall_s=round(time.time() - t0, 1))
        finally:
            sh("git -C /repo checkout -- .")
            # the shape facts regenerated from the changed tree must not linger
            sh("git -C %s checkout lean/TV/Generated/Shape.lean" % ROOT)
            rc, o = sh("git -C /repo status --porcelain")
            assert o.strip() == "", "/repo still dirty: " + o
    result["checks"] = checks
    dst = os.path.join(ROOT, "seeded", name)
    os.makedirs(dst, exist_ok=True)
    for f in os.listdir(out_dir):
        src = os.path.join(out_dir, f)
        if os.path.isfile(src):
            shutil.copy(src, os.path.join(dst, f))
        elif f == "demo":
            shutil.copytree(src, os.path.join(dst, "demo"), dirs_exist_ok=True)
    meta["verified_by_me"] = result
    json.dump(meta, open(os.path.join(dst, "meta.json"), "w"), indent=1)
    print(json.dumps(dict(name=name, validated=result.get("validated"), error=result.get("error"),
                          tests=result.get("existing_tests_with_change"), demo_with=result.get("demo_with_change"),
                          demo_without=result.get("demo_without_change"),
                          checks={p: (c["exit"], c["violations"][:2]) for p, c in checks.items()}), indent=1))


if __name__ == "__main__":
    main()
