import sys
base = sys.argv[1] if len(sys.argv) > 1 else "/verif/lean/TV"
emit_spec = len(sys.argv) > 2 and sys.argv[2] == "spec"
T = []
def add(prop, name, doc, stmt, binders=""): T.append((prop, name, doc, stmt, binders))

G = "{σ Op Ret Loc : Type} [DecidableEq Ret]"
add("C07","C07_linearizable_of_sound","the generic theorem: if every section that falls through is silent and every completing section is the specification (`Sound`), then every history of the concurrent system — any number of threads, any programs, every interleaving of sections — is linearizable, with the completing section as linearization point; and the shared state is the specification's state after the ledger.",
 "∀ (I : Impl σ Op Ret Loc) (apply : σ → Op → σ × Ret) (s0 : σ), Sound I apply → ∀ c, CReach I s0 c →\n    Linearizable apply s0 c.hist ∧ seqFinal apply s0 (c.lin.map (fun e => (e.op, e.r))) = c.shared ∧\n    seqOK apply s0 (c.lin.map (fun e => (e.op, e.r))) = true", G)
add("C07","C07_real_time_order","real-time order is respected: an operation that returned before another one was called precedes it in the linearization ledger.",
 "∀ (I : Impl σ Op Ret Loc) (s0 : σ) (c : CSt σ Op Ret Loc), CReach I s0 c →\n    ∀ q ∈ c.retOf, ∀ j e, c.lin[j]? = some e → q.1 < e.cpos → q.2 < j", G)
add("C07","C07_single_section_sound","an object whose every method is one critical section that computes the specification is `Sound`.",
 "∀ (apply : σ → Op → σ × Ret), Sound (single apply : Impl σ Op Ret Unit) apply", "{σ Op Ret : Type}")
M = "{K V : Type} [DecidableEq K] [DecidableEq V] [Inhabited V]"
add("C07","C07_safemap_sound","SafeMap's section table (one section per method; GetOrAdd = read-locked lookup that completes on a hit, then write-locked re-check-and-insert) is `Sound` for the ordinary-map specification.",
 "Sound (SafeMap.impl : Impl (AL K V) (SafeMap.Op K V) (SafeMap.Ret K V) Unit) SafeMap.apply", M)
add("C07","C07_safemap_linearizable","hence SafeMap is linearizable: under any concurrent mix of its operations each one takes effect atomically at one instant between its call and its return on an ordinary map.",
 "∀ (c : CSt (AL K V) (SafeMap.Op K V) (SafeMap.Ret K V) Unit), CReach SafeMap.impl ([] : AL K V) c →\n    Linearizable SafeMap.apply ([] : AL K V) c.hist", M)
add("C07","C07_getOrAdd_one_winner","GetOrAdd / LoadOrStore choose exactly one winner per key and every caller sees it: on the specification a present key returns the stored value and changes nothing, an absent key stores the given value and returns it (so by linearizability all calls between two deletions of the key return the same, stored, value).",
 "∀ (m : AL K V) (k : K) (v : V),\n    (∀ x, alGet? m k = some x → SafeMap.apply m (.getOrAdd k v) = (m, .val x) ∧ SafeMap.apply m (.loadOrStore k v) = (m, .valOk x true)) ∧\n    (alGet? m k = none → SafeMap.apply m (.getOrAdd k v) = (alSet m k v, .val v) ∧ SafeMap.apply m (.loadOrStore k v) = (alSet m k v, .valOk v false) ∧\n        alGet? (alSet m k v) k = some v)", M)
add("C07","C07_miss_is_zero","a miss yields the zero value (and ok = false where reported), for every value type.",
 "∀ (m : AL K V) (k : K), alGet? m k = none →\n    SafeMap.apply m (.get k) = (m, .val default) ∧ SafeMap.apply m (.load k) = (m, .valOk default false) ∧\n    (SafeMap.apply m (.loadAndDelete k)).2 = .valOk default false ∧ (∀ v, (SafeMap.apply m (.swap k v)).2 = .valOk default false) ∧\n    SafeMap.apply m (.contains k) = (m, .bool false)", M)
add("C07","C07_atomic_read_modify_write","Swap, LoadAndDelete, CompareAndSwap and CompareAndDelete act atomically on the specification: the returned previous value / success flag and the new content are computed from one and the same state.",
 "∀ (m : AL K V) (k : K) (old new : V),\n    (SafeMap.apply m (.compareAndSwap k old new) = if alGet? m k = some old then (alSet m k new, .bool true) else (m, .bool false)) ∧\n    (SafeMap.apply m (.compareAndDelete k old) = if alGet? m k = some old then (alErase m k, .bool true) else (m, .bool false)) ∧\n    (SafeMap.apply m (.swap k new)).1 = alSet m k new ∧ (SafeMap.apply m (.loadAndDelete k)).1 = alErase m k", M)
add("C07","C07_syncmap_type_faithful","SyncMap is type-faithful: converting what sync.Map hands back gives exactly the value that was stored, for every value including the nil interface value.",
 "∀ (x : SafeMap.IVal W), SafeMap.unbox (SafeMap.box x) = some x", "{W : Type}")
add("C08","C08_linearizable_to_C01_model","with every public method one section of the cache-wide lock (the repaired shape, regenerated from the source), the concurrent cache is linearizable to the sequential cache model of C01-C03/C13: any concurrent mix of operations from any number of goroutines behaves like some sequential history of `FifoCache.step`.",
 "∀ (n pc : Nat) (c : CSt (Cache K V) (FifoCache.Op K V) (FifoCache.Out K V) Unit),\n    CReach (single FifoCache.step) (FifoCache.init n pc) c →\n    Linearizable FifoCache.step (FifoCache.init n pc : Cache K V) c.hist ∧\n    c.shared = FifoCache.run (FifoCache.init n pc) (c.lin.map (·.op))", M)
add("C08","C08_get_was_set","every value returned by Get was actually Set for that key: a completed Get(k) that returns a non-zero value is preceded in the linearization by a Set(k, that value) (for ledgers whose Resize arguments are legal).",
 "∀ (n pc : Nat) (_ : 1 ≤ n) (_ : 1 ≤ pc) (c : CSt (Cache K V) (FifoCache.Op K V) (FifoCache.Out K V) Unit),\n    CReach (single FifoCache.step) (FifoCache.init n pc) c → OpsOK (FifoCache.init n pc) (c.lin.map (·.op)) →\n    ∀ (l1 l2 : List (LinEntry (FifoCache.Op K V) (FifoCache.Out K V))) (e : LinEntry (FifoCache.Op K V) (FifoCache.Out K V)) (k : K) (v : V),\n      c.lin = l1 ++ e :: l2 → e.op = .get k → e.r = .val v → v ≠ default → ∃ e' ∈ l1, e'.op = .set k v", M)
add("C08","C08_views_consistent","once all calls have returned the state is a reachable state of the sequential model, so its views are mutually consistent (C01_views_agree) and after a Sweep it holds at most Capacity() entries.",
 "∀ (n pc : Nat) (_ : 1 ≤ n) (_ : 1 ≤ pc) (c : CSt (Cache K V) (FifoCache.Op K V) (FifoCache.Out K V) Unit),\n    CReach (single FifoCache.step) (FifoCache.init n pc) c → OpsOK (FifoCache.init n pc) (c.lin.map (·.op)) →\n    WF c.shared ∧ (keys c.shared).Nodup ∧ (∀ k, contains c.shared k = true ↔ k ∈ keys c.shared) ∧\n    len (sweep c.shared) ≤ capacity (sweep c.shared)", M)
add("C11","C11_concurrent_conservation","under concurrent Push/Pop/Peek/Len/Values no value is lost, duplicated or invented: in every reachable state the values on the stack together with the values popped so far are exactly the values pushed so far (as multisets), and the ids handed out are pairwise distinct.",
 "∀ (c : CSt (Stack Nat) StackConc.Op StackConc.Ret Nat), CReach StackConc.impl (GenericStack.new : Stack Nat) c →\n    ((c.shared.entries.map (·.2)) ++ StackConc.poppedVals c.lin).Perm (StackConc.pushedVals c.lin) ∧\n    (StackConc.pushedIds c.lin).Nodup ∧ (c.shared.entries.map (·.1)).Nodup")
add("C11","C11_concurrent_heap_order","the heap order on ids survives every interleaving: in every reachable state of the concurrent stack the entries form a heap for the id order, and whatever a Pop removes carries the smallest id present — so Pops that run after concurrent Pushes have completed return the values in the order of the ids Push returned.",
 "∀ (c : CSt (Stack Nat) StackConc.Op StackConc.Ret Nat), CReach StackConc.impl (GenericStack.new : Stack Nat) c →\n    TV.GoHeap.IsHeap lessId c.shared.entries ∧\n    ∀ e rest, TV.GoHeap.pop lessId c.shared.entries = some (e, rest) → ∀ x ∈ c.shared.entries, e.1 ≤ x.1")

if emit_spec:
    with open(f"{base}/Proofs/LockedObject.lean", "w") as f:
        f.write("import TV.Model.LockedObject\nimport TV.Model.SafeMap\nimport TV.Model.StackConc\nimport TV.Proofs.FifoCache\nimport TV.Proofs.GoHeap\n/-! Lock-protected objects — proof obligations, re-exported verbatim by TV/Properties/C07, C08, C11c. -/\nnamespace TV.LockedObject\nnamespace Proofs\nopen TV.FifoCache TV.GenericStack\n\n")
        for prop, name, doc, stmt, binders in T:
            f.write(f"theorem {name} {binders} :\n    {stmt} := sorry\n\n")
        f.write("end Proofs\nend TV.LockedObject\n")
titles = {"C07":"SafeMap and SyncMap are linearizable, type-faithful maps","C08":"FifoMapCache is safe under concurrent use","C11c":"GenericStack under concurrency (the concurrent clause of C11)"}
extra = {
"C07": '''/-! ### witnesses for the pinned tree -/

/-- pinned: `v.(V)` panics on a stored nil interface value. -/
theorem pinned_C07_nil_interface_panics : SafeMap.unboxPinned (SafeMap.box (SafeMap.IVal.nil : SafeMap.IVal Nat)) = none := rfl

/-- pinned `GetOrAdd` (Has; Get; ...) is not `Sound`: its second section answers with whatever is there later. -/
theorem pinned_C07_getOrAdd_not_sound :
    ¬ Sound (SafeMap.implPinned : Impl (AL Nat Nat) (SafeMap.Op Nat Nat) (SafeMap.Ret Nat Nat) Unit) SafeMap.apply := by
  intro h
  have := h.complete ([] : AL Nat Nat) (.getOrAdd 1 5) 1 () [] (.val 0) rfl
  revert this; decide

/-- the schedule of the property text: {k ↦ 7}; T1 GetOrAdd(k,5) sees the key, T2 Delete(k) runs, T1's Get returns 0.
    The recorded history is rejected by the linearizability decision procedure (a test of the procedure on the witness). -/
theorem pinned_C07_history_rejected :
    TV.LinCheck.linCheck (SafeMap.apply (K := Nat) (V := Nat)) [(1, 7)]
      [⟨1, .getOrAdd 1 5, .val 0, 1, 4⟩, ⟨2, .delete 1, .unit, 2, 3⟩] = false := by decide

example : TV.LinCheck.linCheck (SafeMap.apply (K := Nat) (V := Nat)) [(1, 7)]
      [⟨1, .getOrAdd 1 5, .val 5, 1, 4⟩, ⟨2, .delete 1, .unit, 2, 3⟩] = true := by decide

/-! ### the decision procedure the driver runs on recorded histories is sound and complete

`linCheck` answers `true` exactly when a linearization exists: a permutation of the recorded operations that is legal for
the sequential specification and respects real time.  (Completeness needs well-stamped records, `c ≤ e`, which the
recorder's single atomic counter guarantees; without it `linCheck_complete_needs_wellStamped` is a counterexample.) -/
theorem C07_lincheck_sound {σ Op Ret : Type} [DecidableEq Ret] (apply : σ → Op → σ × Ret) (s0 : σ) (h : List (TV.LinCheck.Rec Op Ret)) :
    TV.LinCheck.linCheck apply s0 h = true → ∃ l, TV.LinCheck.IsLinearization apply s0 h l :=
  TV.LinCheck.linCheck_sound apply s0 h

theorem C07_lincheck_iff {σ Op Ret : Type} [DecidableEq Ret] (apply : σ → Op → σ × Ret) (s0 : σ) (h : List (TV.LinCheck.Rec Op Ret))
    (hws : ∀ o ∈ h, ¬ (o.e < o.c)) :
    TV.LinCheck.linCheck apply s0 h = true ↔ ∃ l, TV.LinCheck.IsLinearization apply s0 h l :=
  TV.LinCheck.linCheck_iff apply s0 h hws
''',
"C11c": '''/-! witness: the pinned Pop (emptiness test outside the lock) lets two Pops on a one-element stack both pass the test; the second
    one indexes an empty slice. -/
theorem pinned_C11_two_pops_panic :
    let s0 : Stack Nat × Bool := (({ entries := [(1, 7)], next := 1 } : Stack Nat), false)
    let a := StackConc.implPinned.sect s0 .pop 0 0          -- T1: test passes
    let b := StackConc.implPinned.sect a.1 .pop 0 0         -- T2: test passes
    let c := StackConc.implPinned.sect b.1 .pop 1 0         -- T1 pops
    let d := StackConc.implPinned.sect c.1 .pop 1 0         -- T2 pops an empty heap
    d.1.2 = true := by decide
''',
}
imports = {"C07":"import TV.Proofs.LockedObject\nimport TV.Model.LinCheck\nimport TV.Proofs.LinCheck\n","C08":"import TV.Proofs.LockedObject\n","C11c":"import TV.Proofs.LockedObject\n"}
for prop in titles:
    with open(f"{base}/Properties/{prop}.lean","w") as f:
        f.write(imports[prop])
        f.write(f"/-!\n# {prop} — {titles[prop]}\n\nThe concurrent systems are the labelled transition systems of TV/Model/LockedObject.lean: any number of\nthreads, any programs, every interleaving of the objects' critical sections (`CReach`).  Which code runs in\nwhich section is tied to the source by the regenerated shape facts (TV/Generated/Shape.lean, TV/ShapeOK.lean).\n-/\nnamespace TV.{prop}\nopen TV.LockedObject TV.FifoCache TV.GenericStack\n\n")
        for p2, name, doc, stmt, binders in T:
            if (p2 == "C11" and prop == "C11c") or p2 == prop:
                f.write(f"/-- {doc} -/\ntheorem {name} {binders} :\n    {stmt} := Proofs.{name}\n\n")
        f.write(extra.get(prop,""))
        f.write(f"\nend TV.{prop}\n")
print(len(T))
