import os, sys
base = sys.argv[1] if len(sys.argv) > 1 else "/verif/lean/TV"
emit_spec = len(sys.argv) > 2 and sys.argv[2] == "spec"
R = "(s : St) (_ : Reach s)"
T = []
def add(prop, name, doc, stmt): T.append((prop, name, doc, stmt))

add("C06","C06_at_most_once","for every (Publish call, subscriber) pair there is at most one outcome, and a pair still pending has none: a message reaches a subscriber at most once.",
 f"∀ {R}, ((s.outcomes.map (fun o => (o.1, o.2.1))) ++ (s.pending.map (fun d => (d.uid, d.sub)))).Nodup")
add("C06","C06_only_published_and_accepted","a subscriber only receives values that were published and that its filter accepts, through a delivery addressed to it (no cross-delivery, nothing invented).",
 f"∀ {R}, (∀ o ∈ s.outcomes, o.2.2 = .sent → ∃ m x, (o.1, m) ∈ s.published ∧ getSub s o.2.1 = some x ∧ x.filter.accepts m = true) ∧\n    (∀ d ∈ s.pending, (d.uid, d.msg) ∈ s.published ∧ ∃ x, getSub s d.sub = some x ∧ x.filter.accepts d.msg = true) ∧\n    (∀ r ∈ s.received, ∃ uid, (uid, r.2) ∈ s.published ∧ (uid, r.1, Outcome.sent) ∈ s.outcomes)")
add("C06","C06_buffer_holds_sent","what is in a subscriber's buffer was sent to that subscriber.",
 f"∀ {R}, ∀ x ∈ s.subs, ∀ m ∈ x.buf, ∃ uid, (uid, m) ∈ s.published ∧ (uid, x.id, Outcome.sent) ∈ s.outcomes")
add("C06","C06_delivered_if_room","exactly once if the subscriber keeps receiving: a delivery that holds the lock while the buffer has room can be sent at once (the scheduling/timer race with its deadline is a runtime truth the model cannot exhibit; see C15_timeout_own_and_not_early for the converse).",
 "∀ (s : St) (d : Delivery) (x : Sub), findDel s d.uid d.sub = some d → getSub s d.sub = some x → d.stage = .holding →\n    x.chClosed = false → x.buf.length < x.cap → (step? s (.deliver d.uid d.sub)).isSome = true")
add("C06","C06_publish_reaches_every_subscriber","a Publish visits every registered subscriber: each gets a delivery goroutine or (filter rejects) a filtered outcome.",
 "∀ (s s' : St) (m : Nat), step? s (.publish m) = some s' → ∀ x ∈ s.subs, x.registered = true →\n    (x.filter.accepts m = true ∧ ∃ d ∈ s'.pending, d.uid = s.nextUid ∧ d.sub = x.id ∧ d.msg = m) ∨\n    (x.filter.accepts m = false ∧ (s.nextUid, x.id, Outcome.filtered) ∈ s'.outcomes)")
add("C10","C10_no_panic","closing at any moment never panics: no send on a closed channel, no double close — in every reachable state, closes injected at every position by any number of goroutines.",
 f"∀ {R}, s.panicked = false")
add("C10","C10_closed_once","the subscriber's channel is closed exactly once per close request, never twice.",
 f"∀ {R}, s.chCloses.Nodup ∧ ∀ x ∈ s.subs, (x.id ∈ s.chCloses ↔ x.chClosed = true)")
add("C10","C10_close_completes","no deadlock: a close that has begun can always complete — either no delivery holds the lock (the channel can be closed now) or every holder has its exit enabled.",
 f"∀ {R}, ∀ x ∈ s.subs, x.onceStarted = true → x.chClosed = false →\n    (step? s (.closeFinish x.id)).isSome = true ∨ ∀ d ∈ holders s x.id, (step? s (.cancel d.uid d.sub)).isSome = true")
add("C10","C10_buffered_stay_readable","messages already buffered remain readable after the close: receiving from a non-empty buffer is always enabled, and closing does not touch the buffer.",
 "(∀ (s : St) (x : Sub) (m : Nat) (rest : List Nat), getSub s x.id = some x → x.buf = m :: rest → (step? s (.receive x.id)).isSome = true) ∧\n    (∀ (s s' : St) (k : Nat), step? s (.closeFinish k) = some s' → ∀ x ∈ s.subs, ∃ y ∈ s'.subs, y.id = x.id ∧ y.buf = x.buf) ∧\n    (∀ (s s' : St) (k : Nat), step? s (.closeSub k) = some s' → ∀ x ∈ s.subs, ∃ y ∈ s'.subs, y.id = x.id ∧ y.buf = x.buf)")
add("C10","C10_nothing_after_close","nothing is delivered after the close: once the channel is closed no delivery to that subscriber holds the lock, so none can send.",
 f"∀ {R}, ∀ x ∈ s.subs, x.chClosed = true → (holders s x.id = [] ∧ x.doneClosed = true ∧ x.onceStarted = true)")
add("C10","C10_others_unaffected","other subscribers are unaffected by a close: their record and their pending deliveries are unchanged by every step of somebody else's close.",
 "∀ (s s' : St) (k : Nat) (a : Act), (a = .closeSub k ∨ a = .closeFinish k) → step? s a = some s' →\n    (∀ j, j ≠ k → getSub s' j = getSub s j) ∧ s'.pending = s.pending ∧ s'.outcomes = s.outcomes ∧ s'.received = s.received")
add("C15","C15_publish_never_blocks","Publish is enabled in every state and is one step containing no wait: it only spawns deliveries / records filtered outcomes.",
 "∀ (s : St) (m : Nat), (step? s (.publish m)).isSome = true")
add("C15","C15_buffer_absorbs","a subscriber's buffer never exceeds its capacity, and absorbs messages up to it with no receiver present (C06_delivered_if_room); buffered messages are received in order.",
 f"∀ {R}, ∀ x ∈ s.subs, x.buf.length ≤ x.cap")
add("C15","C15_one_outcome_each","each (message, subscriber) pair ends in exactly one way: every internal step on a delivery removes it and records exactly one outcome for it. (Stated over reachable states: the unrestricted statement is false on unreachable states with a duplicated pending delivery — `dropDel` would remove both copies — as found by the proof attempt.)",
 "∀ (s : St) (_ : Reach s) (s' : St) (a : Act), isInternal a = true → step? s a = some s' →\n    (s'.pending = s.pending ∧ s'.outcomes = s.outcomes) ∨ (s'.pending.length = s.pending.length ∧ s'.outcomes = s.outcomes) ∨\n    (s'.pending.length + 1 = s.pending.length ∧ s'.outcomes.length = s.outcomes.length + 1) ∨ s'.panicked = true")
add("C15","C15_timeout_own_and_not_early","a delivery is dropped only once its own subscriber's timeout has expired: the timer is armed with that subscriber's timeout when the delivery enters its select, and `timeout` is enabled only at or after the deadline.",
 "(∀ (s s' : St) (uid sub : Nat) (x : Sub), step? s (.acquireR uid sub) = some s' → getSub s sub = some x →\n      ∀ d, findDel s' uid sub = some d → d.stage = .holding → d.deadline = s.now + x.timeout) ∧\n    (∀ (s s' : St) (uid sub : Nat), step? s (.timeout uid sub) = some s' → ∃ d, findDel s uid sub = some d ∧ d.deadline ≤ s.now)")
add("C15","C15_callbacks_exactly_once","OnFiltered / OnTimeout are invoked exactly once per filtered / timed-out outcome of a subscriber that set them, with that message, and never otherwise.",
 f"∀ {R}, (s.callbacks.map (fun c => (c.1, c.2.1, c.2.2.1))).Nodup ∧\n    (∀ c ∈ s.callbacks, (c.2.2.1, c.2.2.2) ∈ s.published ∧ (c.2.2.1, c.2.1, if c.1 then Outcome.timedOut else Outcome.filtered) ∈ s.outcomes ∧\n        ∃ x, getSub s c.2.1 = some x ∧ (if c.1 then x.cbTimeout else x.cbFiltered) = true) ∧\n    (∀ o ∈ s.outcomes, ∀ x m, getSub s o.2.1 = some x → (o.1, m) ∈ s.published →\n        (o.2.2 = .timedOut → x.cbTimeout = true → (true, o.2.1, o.1, m) ∈ s.callbacks) ∧\n        (o.2.2 = .filtered → x.cbFiltered = true → (false, o.2.1, o.1, m) ∈ s.callbacks))")
add("C15","C15_no_goroutine_left","afterwards no delivery goroutine remains: at a quiescent point every delivery still pending is legitimately waiting — it holds the lock, its own deadline has not passed, the buffer is full and the subscriber is not closing.",
 f"∀ {R}, quiescent s → ∀ d ∈ s.pending, ∃ x, getSub s d.sub = some x ∧ d.stage = .holding ∧ s.now < d.deadline ∧\n    x.cap ≤ x.buf.length ∧ x.doneClosed = false")

titles = {"C06":"Publication delivers each accepted message exactly once per subscriber","C10":"Closing a subscriber or publication is safe at any moment","C15":"Publish never blocks and every undelivered message is accounted for"}
extra = {
"C10": '''/-! witness: the pinned close (close(receiveCh) at once, no hand-shake) lets a pending delivery send on a closed channel -/
theorem pinned_C10_send_on_closed :
    ∃ s1 s2, runActs init [.subscribe 0 .none 1000 false false, .publish 1, .acquireR 0 1] = some s1 ∧
      step? (closeSubPinned s1 1) (.deliver 0 1) = some s2 ∧ s2.panicked = true := by
  refine ⟨_, _, rfl, rfl, ?_⟩; decide

/-! non-vacuity: Subscribe(0); Publish; Close with the delivery pending; Close again — repaired protocol -/
example : ∃ s, runActs init [.subscribe 0 .none 1000 false false, .publish 1, .acquireR 0 1, .closeSub 1, .cancel 0 1,
    .closeFinish 1, .closeSub 1, .closePub] = some s ∧ s.panicked = false ∧ s.chCloses = [1] ∧ s.pending = [] := by
  refine ⟨_, rfl, ?_⟩; decide
''',
"C15": '''/-! non-vacuity: buffer 1, two messages, nobody receives, the second one times out after a tick and the callback fires once -/
example : ∃ s, runActs init [.subscribe 1 .none 1 false true, .publish 7, .publish 8, .acquireR 0 1, .deliver 0 1, .acquireR 1 1,
    .tick, .timeout 1 1] = some s ∧ s.callbacks = [(true, 1, 1, 8)] ∧ s.pending = [] ∧ (s.subs.map (·.buf)) = [[7]] := by
  refine ⟨_, rfl, ?_⟩; decide
''',
}
MONSOUND = {"C06": "\n/-! ### the model passes the monitors the driver applies to the implementation\n\n`mstOf s` is the bookkeeping the driver has recorded from the script (`subAt` / `closedAt` are ghost fields of the model),\n`obsOf s` the model's own observation.  Side conditions = what the harness guarantees: published values are pairwise\ndistinct (the clauses compare values), and only the short timeout (1 tick) can have fired. -/\ntheorem C06_model_passes_monitor_deliveries (s : St) (h : Reach s) (hd : MonSound.distinctPubs s) :\n    Mon.deliveriesOK (MonSound.mstOf s) (Driver.Pub.obsOf s) = [] := MonSound.deliveriesOK_sound h hd\n\ntheorem C06_model_passes_monitor_ledger (s : St) (h : Reach s) (ht : MonSound.timeoutsOK s) :\n    Mon.ledgerOK (MonSound.mstOf s) (Driver.Pub.obsOf s) = [] := MonSound.ledgerOK_sound h ht\n", "C15": "\n/-! ### the model passes the monitors the driver applies to the implementation\n\n`ReachG`: Publish is issued only when no close is in progress, which holds at every quiescent point\n(`quiescent_closesDone`): between `close(done)` and `close(receiveCh)` the subscriber is still registered and a racing\nPublish still calls OnFiltered — the monitor's bookkeeping does not count that (witness in TV/Proofs/MonitorPub.lean). -/\ntheorem C15_model_passes_monitor_buffers (s : St) (h : Reach s) :\n    Mon.buffersOK (MonSound.mstOf s) (Driver.Pub.obsOf s) = [] := MonSound.buffersOK_sound h\n\ntheorem C15_model_passes_monitor_callbacks (s : St) (h : ReachG s) (hd : MonSound.distinctPubs s) (ht : MonSound.timeoutsOK s) :\n    Mon.callbacksOK (MonSound.mstOf s) (Driver.Pub.obsOf s) = [] := MonSound.callbacksOK_sound h hd ht\n"}
if emit_spec:
    with open(f"{base}/Proofs/Publisher.lean", "w") as f:
        f.write("import TV.Model.Publisher\n/-! Publication LTS — proof obligations. Each `theorem` below is re-exported verbatim by TV/Properties/C06, C10, C15. -/\nnamespace TV.Publisher\nnamespace Proofs\n\n")
        for prop, name, doc, stmt in T:
            f.write(f"theorem {name} :\n    {stmt} := sorry\n\n")
        f.write("end Proofs\nend TV.Publisher\n")
for prop in titles:
    with open(f"{base}/Properties/{prop}.lean","w") as f:
        f.write("import TV.Proofs.Publisher\n")
        if prop in MONSOUND:
            f.write("import TV.Proofs.MonitorPub\n")
        f.write(f"/-!\n# {prop} — {titles[prop]}\n\nStatements are over the labelled transition system of TV/Model/Publisher.lean: any number of\npublishers, subscribers (any buffer size, filter, timeout, callbacks), messages and closers, every\ninterleaving (`Reach`); closes are injected at every position because `Reach` quantifies over all\nreachable states.\n-/\nnamespace TV.{prop}\nopen TV.Publisher\n\n")
        for p2, name, doc, stmt in T:
            if p2 != prop: continue
            f.write(f"/-- {doc} -/\ntheorem {name} :\n    {stmt} := Proofs.{name}\n\n")
        f.write(extra.get(prop,""))
        f.write(MONSOUND.get(prop,""))
        f.write(f"\nend TV.{prop}\n")
print(len(T))
