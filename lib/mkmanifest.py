#!/usr/bin/env python3
"""Regenerate MANIFEST.json from lib/props.py (the single source of per-property configuration)."""
import json, os, sys
sys.path.insert(0, os.path.dirname(os.path.abspath(__file__)))
from props import PROPS, NOT_APPLICABLE, HOOK_COMMITS

checks = []
for pid in sorted(PROPS):
    c = PROPS[pid]
    checks.append(dict(
        property_id=pid,
        quick_cmd="./check %s --tier quick" % pid,
        thorough_cmd="./check %s --tier thorough" % pid,
        evidence_file="/verif/evidence/%s.json" % pid,
        replay_cmd_template="./check --replay {path}",
        engine="lean4-proof+correspondence",
        level_claimed=dict(category=c.get("level", "proof"), text=c["level_text"], design_ref=c.get("design_ref", "DESIGN.md §6 " + pid)),
        level_note=c["level_note"],
        technique=c.get("technique", "Lean 4 theorems about a hand-written executable model (kernel-checked, axioms audited) + differential correspondence check model vs. real Go code"),
    ))
m = dict(
    version=1,
    setup_cmd="./setup.sh",
    hooks=dict(guard="verif", enable="go build -tags verif (the checks try the tagged build first and fall back to the untagged one)",
               baseline_off_cmd="cd /repo && GOFLAGS=-mod=mod go test -json -vet=off -count=1 -timeout 25m ./...",
               source_commits=HOOK_COMMITS, add_only=True),
    engines=[dict(name="lean4-proof+correspondence", path="/verif/check", serves_properties=sorted(PROPS),
                  kind_free_text="Lean 4 models + theorems (lean/TV), kernel-checked and axiom-audited on every run; tied to /repo by tvharness (Go, in-process real code) vs tvdriver (Lean executable model) on the same op lines, with the property's decidable monitor evaluated on the implementation's observations")],
    checks=checks,
    notes="See DESIGN.md. known_findings.json lists recorded findings and fixed defects.",
    not_applicable=NOT_APPLICABLE,
)
json.dump(m, open(os.path.join(os.path.dirname(os.path.abspath(__file__)), "..", "MANIFEST.json"), "w"), indent=1)
print("MANIFEST.json: %d checks, %d not applicable" % (len(checks), len(NOT_APPLICABLE)))
