"""Per-property configuration for ./check (what to build, what to run, what is trusted)."""

TB_COMMON = [
    "Lean 4.33.0 kernel (leanchecker re-check in the thorough tier); axioms allowed: propext, Classical.choice, Quot.sound (audited by #print axioms on every run)",
    "hand-written Lean model tied to /repo by the differential correspondence check (tvharness runs the real Go code in-process, tvdriver runs the model on the same op lines)",
    "Lean compiler/runtime for the executable model (tvdriver); Go toolchain 1.23.7",
]

PROPS = {
    "C12": dict(
        components=[dict(name="sliceops", independent_lines=True, shrink_lists=True)],
        rule=("exhaustive stratum: every equality pattern (restricted-growth string, with and without the zero value) of total length "
              "<= 5 (quick) / 7 (thorough) x every split into 0..3 argument slices x every (i<=j<=len) x every predicate subset; plus seeded random "
              "longer inputs over alphabets <= 6 and an edge stream. distinct_nontrivial = distinct op lines (hashed) whose model run took a "
              "non-default branch (duplicates present / non-empty range / predicate drops and keeps something)."),
        exhaustive=True,
        level_text=("Proof: full functional correctness of Remove/Cut/Insert/FilterInPlace/Push/Pop (result list, zeroed tail, untouched spare capacity) and of "
                    "Distinct/Union/Intersection/Difference/Disjoin (duplicate-free, set-equal to the mathematical operation) as Lean theorems over all lists, "
                    "all element types with ==, all lengths; the model is tied to sliceOps.go by an exhaustive-up-to-a-length differential run."),
        level_note=("Trusted: Lean kernel; the hand model of sliceOps.go (copy = memmove, zero loop, reslice; map = association list); the correspondence run "
                    "(exhaustive over equality patterns up to the length bound, random beyond). Purity w.r.t. caller arrays is carried by the tie only."),
        trusted_base=TB_COMMON + ["Go append/copy semantics as transcribed (copy = memmove; append's result value independent of reallocation)"],
        assumptions=["element type int stands for every comparable type: the functions only use ==, so equality patterns cover all inputs of a length",
                     "purity of the set functions is a tie-only clause (argument backing arrays with sentinel spare capacity compared before/after, results scribbled on)"],
    ),
}

PROPS["C20"] = dict(
    components=[dict(name="ve", shrink_lists=False)],
    rule=("seeded random trees (depth <= 3 quick / 5 thorough, fan-out <= 3, 0-3 fields per map, 0-2 messages, nil vs empty maps, all three "
          "constructors, field/child names from a tiny alphabet with dotted names so that flat keys collide across routes) x 1-6 reads each; "
          "pairs for AddErrorToValidation over nil / typed-nil / pointer error / value error / ValidationError / wrapped ValidationError incl. a "
          "biased stream with colliding child names. distinct_nontrivial = distinct cases (hashed) with children and >= 2 reads, or an add pair."),
    level_text=("Proof: flat map = supplied messages (multiset of (dotted key, message), errors and warnings apart), Error() renders each once, reads leave "
                "the receiver unchanged for every read sequence, AddErrorToValidation contains every message of both arguments — Lean theorems over all "
                "trees (nested inductive, any depth/fan-out, nil or non-nil maps); tied to validationError.go by differential runs on random trees."),
    level_note=("Trusted: Lean kernel; the hand model of validationError.go (Go map = association list with unique keys; nil map = none; iteration order "
                "abstracted by comparing canonical forms); the correspondence run (random trees; coverage printed)."),
    trusted_base=TB_COMMON + ["errors.As / fmt.Errorf(%w) unwrapping and reflect nil-ness as modelled by the Err sum (nil | plain | ve | wrapped)"],
    assumptions=["children maps hold non-nil *ValidationError values", "map iteration order is abstracted: results are compared as sorted canonical forms / multisets"],
)


def _fields(l):
    import re
    m = re.search(r" fields=(\S+)", l)
    return set(m.group(1).split(",")) if m else set()


def _after(l):
    import re
    m = re.search(r" after=(\S+)", l)
    return m.group(1) if m else "none"


_CACHE_TB = TB_COMMON + [
    "float sqrt/pow of the partition calculators are not modelled: the partition count n is a validated input (harness-side replica of the documented formula; the model checks 1 <= n <= capacity, pc = capacity / n, and Capacity() = n * pc; for the default option also n = Nat.sqrt capacity)",
    "GenericStack = list of partitions in ascending id order (C11 proves the heap-backed stack refines it); SafeMap = association list (C07)",
    "one atomic step per public method (C08: cache-wide lock); background sweeps = explicit sweep ops, the harness calls Sweep() after every Set so that observed states are swept",
]
_CACHE_ASSUME = ["keys/values are ints (the code only uses == on keys)", "map iteration order is free: keys/values are compared as sorted segments whose sizes come from the model; Resize's replay order is reconstructed from the observed survivors and validated",
                 "sweep frequency 1 h in the harness (mode A): un-swept intermediate states are covered by the theorems (all op lists), not observed"]

PROPS["C01"] = dict(
    components=[dict(name="cache", gen_args={"C01": ["profile=C01"]}, shrink_lists=False)],
    clause_prefixes=["C01."],
    diff_filter=lambda l: bool(_fields(l) - {"cap", "freshcap"}),
    rule=("seeded histories of 1-80 (quick) / 1-140 (thorough) Set/Get/Contains/Delete/Sweep/Clear/Resize/view ops over key alphabets 3-40, values 0-9 (0 = zero value), "
          "capacities 1-60 (all of 1-30), default and WithBalancedPartitions(nRoot in {1.5,2,3,4}, min in 1..capacity); three streams (uniform, delete/re-set biased, fill-then-churn). "
          "After every mutating op the full view (Keys, Values, Len, Capacity, Get/Contains of the whole alphabet) is compared with the model. "
          "distinct_nontrivial = distinct histories (hashed) with >=1 eviction and >=1 update or delete, or a Resize that evicts."),
    level_text=("Proof: structural invariant WF for every reachable state (all n, pc >= 1, all histories incl. Clear/Resize), get-after-set, set/delete frame conditions, "
                "sweep/clear/resize only forget, present => last write was a Set of that value (history theorem), views agree — kernel-checked; model tied by full-view differential runs."),
    level_note="Trusted: Lean kernel, the hand model of fifoMapCache.go, the correspondence run; float calculators validated not modelled.",
    trusted_base=_CACHE_TB, assumptions=_CACHE_ASSUME,
)
PROPS["C02"] = dict(
    components=[dict(name="cache", gen_args={"C02": ["profile=C02"]}, shrink_lists=False)],
    clause_prefixes=["C02."],
    diff_filter=lambda l: bool(_fields(l) & {"len", "cap", "hint", "freshcap", "panic", "protocol"}),
    rule=("as C01 with the delete/re-set biased stream, plus Capacity() of a fresh cache for every requested capacity 1..2000 (quick) / 1..100000 (thorough) with the default "
          "option and sampled WithBalancedPartitions options. distinct_nontrivial counts distinct capacity checks and non-trivial histories."),
    level_text=("Proof: Len(sweep s) <= Capacity for every reachable s (corollary of WF: each partition <= pc keys, sweep leaves <= n partitions), n*(c/n) rounding arithmetic "
                "for the partition count of any calculator; the float calculators are tied by the capacity sweep."),
    level_note="Trusted as C01; additionally the float sqrt/pow calculators are only validated against Nat.sqrt / the bounds on the swept range.",
    trusted_base=_CACHE_TB, assumptions=_CACHE_ASSUME,
)
PROPS["C03"] = dict(
    components=[dict(name="cache", gen_args={"C03": ["profile=C03"]}, shrink_lists=False)],
    clause_prefixes=["C03."],
    diff_filter=lambda l: bool(_fields(l) & {"keys", "has", "len", "panic", "protocol"}),
    rule=("Set/Delete/Sweep/Clear histories (no Resize) biased to overflow by a few keys, updates of old keys and delete-then-re-set; the monitor keeps its own insertion "
          "stamps from the implementation's answers and checks every ordered pair after every op. distinct_nontrivial as C01."),
    level_text=("Proof: ghost-stamped cache; FIFO theorem over all histories (stamps monotone along partitions, sweep removes a prefix), update does not renew / re-insert renews, "
                "no eviction while insertions <= Capacity, one overflow evicts at most one partition (<= pc entries)."),
    level_note="Trusted as C01. 'documented number of partitions' is read as what the documented formula evaluates to in Go (see DESIGN §10).",
    trusted_base=_CACHE_TB, assumptions=_CACHE_ASSUME,
)
PROPS["C13"] = dict(
    components=[dict(name="cache", gen_args={"C13": ["profile=C13"]}, shrink_lists=False)],
    clause_prefixes=["C13."],
    diff_filter=lambda l: _after(l) in ("resize", "clear") or bool(_fields(l) & {"freshcap", "panic", "protocol"}),
    rule=("histories with traffic before and after Resize/Clear; new capacities grow, shrink, keep the partition count but change the partition size, or change nothing; "
          "Capacity() compared with a freshly built cache of the same option. distinct_nontrivial = distinct histories with a Resize (plus eviction) or evicting Resize."),
    level_text=("Proof: for all valid replay orders — capacity, survivors keep values, nothing new, all survive if they fit, survivors are a suffix of the replay order, "
                "WF preserved (so C01-C03 continue), Clear is observationally a new cache (bisimulation)."),
    level_note="Trusted as C01; the calculator's (n', pc') is an input; replay order reconstructed from observed survivors and validated as a valid order.",
    trusted_base=_CACHE_TB, assumptions=_CACHE_ASSUME,
)

PROPS["C11"] = dict(
    components=[dict(name="stack", shrink_lists=False),
                dict(name="stackconc", race=True, shrink=False, independent_lines=False)],
    clause_prefixes=["C11."],
    rule=("sequential: seeded Push/Pop/Peek/Len/Values histories of 1-120 (quick) / 1-250 (thorough) ops on stacks of initial size 0/1/2/8/64, three streams "
          "(balanced, push-then-drain, pop-heavy/often empty), compared op by op with the heap-array model and with the FIFO-by-id specification; "
          "concurrent (race-detector build): two-popper trials on a one-element stack and G in {2,4,8} goroutines x 20-400 mixed ops with unique values, checked for "
          "conservation, distinct ids, panics and data-race reports. distinct_nontrivial = distinct sequential histories with >=3 pushes and >=2 non-empty pops + distinct stress configurations."),
    level_text=("Proof: the container/heap algorithms (up/down/Push/Pop/Remove/Fix/Init, transcribed) keep the heap property and the multiset and Pop returns a minimum, for every strict weak "
                "order and every size (termination included); GenericStack over that array refines the FIFO-by-id queue for every history. The concurrent clause is partial: the model "
                "assumes each method is one critical section (regenerated shape facts, C07) and the race detector + stress runs search for violations."),
    level_note=("Trusted: Lean kernel; transcription of Go's container/heap (checked only differentially); Go memory-model races are outside the sequentially consistent model — "
                "delegated to lock-shape facts and -race stress."),
    trusted_base=TB_COMMON + ["Go's container/heap = the transcription in TV/Model/GoHeap.lean (differential check only)", "race detector for memory-model races"],
    assumptions=["values are tagged unique ints so that duplication/loss is visible", "stress schedules are not seeded (Go scheduler); their inputs are"],
)

HOOK_COMMITS = []

_ALL = ["C%02d" % i for i in range(1, 21)]
NOT_APPLICABLE = [dict(property_id=p, reason="not yet built in this framework (work in progress; see DESIGN.md §11 build order)")
                  for p in _ALL if p not in PROPS]
