"""Per-property configuration for ./check (what to build, what to run, what is trusted)."""

TB_COMMON = [
    "Lean 4.33.0 kernel (leanchecker re-check in the thorough tier); axioms allowed: propext, Classical.choice, Quot.sound (audited by #print axioms on every run)",
    "hand-written Lean model tied to /repo by the differential correspondence check (tvharness runs the real Go code in-process, tvdriver runs the model on the same op lines)",
    "Lean compiler/runtime for the executable model (tvdriver); Go toolchain 1.23.7",
]

PROPS = {
    "C12": dict(
        components=[dict(name="sliceops", independent_lines=True, shrink_lists=True)],
        rule=("exhaustive stratum: every equality pattern (restricted-growth string, with and without the zero value) of total length "
              "<= 5 (quick) / 7 (thorough) x every split into 0..3 argument slices x every (i<=j<=len) x every predicate subset; plus seeded random "
              "longer inputs over alphabets <= 6 and an edge stream. distinct_nontrivial = distinct op lines (hashed) whose model run took a "
              "non-default branch (duplicates present / non-empty range / predicate drops and keeps something)."),
        exhaustive=True,
        level_text=("Proof: full functional correctness of Remove/Cut/Insert/FilterInPlace/Push/Pop (result list, zeroed tail, untouched spare capacity) and of "
                    "Distinct/Union/Intersection/Difference/Disjoin (duplicate-free, set-equal to the mathematical operation) as Lean theorems over all lists, "
                    "all element types with ==, all lengths; the model is tied to sliceOps.go by an exhaustive-up-to-a-length differential run."),
        level_note=("Trusted: Lean kernel; the hand model of sliceOps.go (copy = memmove, zero loop, reslice; map = association list); the correspondence run "
                    "(exhaustive over equality patterns up to the length bound, random beyond). Purity w.r.t. caller arrays is carried by the tie only."),
        trusted_base=TB_COMMON + ["Go append/copy semantics as transcribed (copy = memmove; append's result value independent of reallocation)"],
        assumptions=["element type int stands for every comparable type: the functions only use ==, so equality patterns cover all inputs of a length",
                     "purity of the set functions is a tie-only clause (argument backing arrays with sentinel spare capacity compared before/after, results scribbled on)"],
    ),
}

PROPS["C20"] = dict(
    components=[dict(name="ve", shrink_lists=False)],
    rule=("seeded random trees (depth <= 3 quick / 5 thorough, fan-out <= 3, 0-3 fields per map, 0-2 messages, nil vs empty maps, all three "
          "constructors, field/child names from a tiny alphabet with dotted names so that flat keys collide across routes) x 1-6 reads each; "
          "pairs for AddErrorToValidation over nil / typed-nil / pointer error / value error / ValidationError / wrapped ValidationError incl. a "
          "biased stream with colliding child names. distinct_nontrivial = distinct cases (hashed) with children and >= 2 reads, or an add pair."),
    level_text=("Proof: flat map = supplied messages (multiset of (dotted key, message), errors and warnings apart), Error() renders each once, reads leave "
                "the receiver unchanged for every read sequence, AddErrorToValidation contains every message of both arguments — Lean theorems over all "
                "trees (nested inductive, any depth/fan-out, nil or non-nil maps); tied to validationError.go by differential runs on random trees."),
    level_note=("Trusted: Lean kernel; the hand model of validationError.go (Go map = association list with unique keys; nil map = none; iteration order "
                "abstracted by comparing canonical forms); the correspondence run (random trees; coverage printed)."),
    trusted_base=TB_COMMON + ["errors.As / fmt.Errorf(%w) unwrapping and reflect nil-ness as modelled by the Err sum (nil | plain | ve | wrapped)"],
    assumptions=["children maps hold non-nil *ValidationError values", "map iteration order is abstracted: results are compared as sorted canonical forms / multisets"],
)

HOOK_COMMITS = []

_ALL = ["C%02d" % i for i in range(1, 21)]
NOT_APPLICABLE = [dict(property_id=p, reason="not yet built in this framework (work in progress; see DESIGN.md §11 build order)")
                  for p in _ALL if p not in PROPS]
