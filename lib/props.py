"""Per-property configuration for ./check (what to build, what to run, what is trusted)."""

TB_COMMON = [
    "Lean 4.33.0 kernel (leanchecker re-check in the thorough tier); axioms allowed: propext, Classical.choice, Quot.sound (audited by #print axioms on every run)",
    "hand-written Lean model tied to /repo by the differential correspondence check (tvharness runs the real Go code in-process, tvdriver runs the model on the same op lines)",
    "Lean compiler/runtime for the executable model (tvdriver); Go toolchain 1.23.7",
]

PROPS = {
    "C12": dict(
        components=[dict(name="sliceops", independent_lines=True, shrink_lists=True)],
        rule=("exhaustive stratum: every equality pattern (restricted-growth string, with and without the zero value) of total length "
              "<= 5 (quick) / 7 (thorough) x every split into 0..3 argument slices x every (i<=j<=len) x every predicate subset; plus seeded random "
              "longer inputs over alphabets <= 6 and an edge stream. distinct_nontrivial = distinct op lines (hashed) whose model run took a "
              "non-default branch (duplicates present / non-empty range / predicate drops and keeps something)."),
        exhaustive=True,
        level_text=("Proof: full functional correctness of Remove/Cut/Insert/FilterInPlace/Push/Pop (result list, zeroed tail, untouched spare capacity) and of "
                    "Distinct/Union/Intersection/Difference/Disjoin (duplicate-free, set-equal to the mathematical operation) as Lean theorems over all lists, "
                    "all element types with ==, all lengths; the model is tied to sliceOps.go by an exhaustive-up-to-a-length differential run."),
        level_note=("Trusted: Lean kernel; the hand model of sliceOps.go (copy = memmove, zero loop, reslice; map = association list); the correspondence run "
                    "(exhaustive over equality patterns up to the length bound, random beyond). Purity w.r.t. caller arrays is carried by the tie only."),
        trusted_base=TB_COMMON + ["Go append/copy semantics as transcribed (copy = memmove; append's result value independent of reallocation)"],
        assumptions=["element type int stands for every comparable type: the functions only use ==, so equality patterns cover all inputs of a length",
                     "purity of the set functions is a tie-only clause (argument backing arrays with sentinel spare capacity compared before/after, results scribbled on)"],
    ),
}

PROPS["C20"] = dict(
    components=[dict(name="ve", shrink_lists=False)],
    rule=("seeded random trees (depth <= 3 quick / 5 thorough, fan-out <= 3, 0-3 fields per map, 0-2 messages, nil vs empty maps, all three "
          "constructors, field/child names from a tiny alphabet with dotted names so that flat keys collide across routes) x 1-6 reads each; "
          "pairs for AddErrorToValidation over nil / typed-nil / pointer error / value error / ValidationError / wrapped ValidationError incl. a "
          "biased stream with colliding child names; one tree in five is a chain of 3-8 child names ending in a node with 2-4 message-carrying children; 40 (quick) / 2000 (thorough) fan-outs: an error whose list for one field grew message by message (1-9) is merged into 2-4 others, each of which then gets a message of its own for that field — every result must hold all of them and the common error stays as it was. distinct_nontrivial = distinct cases (hashed) with children and >= 2 reads, or an add pair."),
    level_text=("Proof: flat map = supplied messages (multiset of (dotted key, message), errors and warnings apart), Error() renders each once, reads leave "
                "the receiver unchanged for every read sequence, AddErrorToValidation contains every message of both arguments — Lean theorems over all "
                "trees (nested inductive, any depth/fan-out, nil or non-nil maps); tied to validationError.go by differential runs on random trees."),
    level_note=("Trusted: Lean kernel; the hand model of validationError.go (Go map = association list with unique keys; nil map = none; iteration order "
                "abstracted by comparing canonical forms); the correspondence run (random trees; coverage printed)."),
    trusted_base=TB_COMMON + ["errors.As / fmt.Errorf(%w) unwrapping and reflect nil-ness as modelled by the Err sum (nil | plain | ve | wrapped)"],
    assumptions=["children maps hold non-nil *ValidationError values", "map iteration order is abstracted: results are compared as sorted canonical forms / multisets"],
)


def _fields(l):
    import re
    m = re.search(r" fields=(\S+)", l)
    return set(m.group(1).split(",")) if m else set()


def _after(l):
    import re
    m = re.search(r" after=(\S+)", l)
    return m.group(1) if m else "none"


_CACHE_TB = TB_COMMON + [
    "float sqrt/pow of the partition calculators are not modelled: the partition count n is a validated input (harness-side replica of the documented formula; the model checks 1 <= n <= capacity, pc = capacity / n, and Capacity() = n * pc; for the default option also n = Nat.sqrt capacity)",
    "GenericStack = list of partitions in ascending id order (C11 proves the heap-backed stack refines it); SafeMap = association list (C07)",
    "one atomic step per public method (C08: cache-wide lock); background sweeps = explicit sweep ops, the harness calls Sweep() after every Set so that observed states are swept",
]
_CACHE_ASSUME = ["keys/values are ints (the code only uses == on keys)", "map iteration order is free: keys/values are compared as sorted segments whose sizes come from the model; Resize's replay order is reconstructed from the observed survivors and validated",
                 "sweep frequency 1 h in the harness (mode A): un-swept intermediate states are covered by the theorems (all op lists), not observed"]

PROPS["C01"] = dict(
    components=[dict(name="cache", gen_args={"C01": ["profile=C01"]}, shrink_lists=False)],
    clause_prefixes=["C01."],
    diff_filter=lambda l: bool(_fields(l) - {"cap", "freshcap"}),
    rule=("seeded histories of 1-80 (quick) / 1-140 (thorough) Set/Get/Contains/Delete/Sweep/Clear/Resize/view ops over key alphabets 3-40, values 0-9 (0 = zero value), "
          "capacities 1-60 (all of 1-30), default and WithBalancedPartitions(nRoot in {1.5,2,3,4}, min in 1..capacity); three streams (uniform, delete/re-set biased, fill-then-churn). "
          "After every mutating op the full view (Keys, Values, Len, Capacity, Get/Contains of the whole alphabet) is compared with the model. "
          "distinct_nontrivial = distinct histories (hashed) with >=1 eviction and >=1 update or delete, or a Resize that evicts."),
    level_text=("Proof: structural invariant WF for every reachable state (all n, pc >= 1, all histories incl. Clear/Resize), get-after-set, set/delete frame conditions, "
                "sweep/clear/resize only forget, present => last write was a Set of that value (history theorem), views agree — kernel-checked; model tied by full-view differential runs."),
    level_note="Trusted: Lean kernel, the hand model of fifoMapCache.go, the correspondence run; float calculators validated not modelled.",
    trusted_base=_CACHE_TB, assumptions=_CACHE_ASSUME,
)
PROPS["C02"] = dict(
    components=[dict(name="cache", gen_args={"C02": ["profile=C02"]}, shrink_lists=False)],
    clause_prefixes=["C02."],
    diff_filter=lambda l: bool(_fields(l) & {"len", "cap", "hint", "freshcap", "panic", "protocol"}),
    rule=("as C01 with the delete/re-set biased stream, plus Capacity() of a fresh cache for every requested capacity 1..2000 (quick) / 1..100000 (thorough) with the default "
          "option and sampled WithBalancedPartitions options. distinct_nontrivial counts distinct capacity checks and non-trivial histories."),
    level_text=("Proof: Len(sweep s) <= Capacity for every reachable s (corollary of WF: each partition <= pc keys, sweep leaves <= n partitions), n*(c/n) rounding arithmetic "
                "for the partition count of any calculator; the float calculators are tied by the capacity sweep."),
    level_note="Trusted as C01; additionally the float sqrt/pow calculators are only validated against Nat.sqrt / the bounds on the swept range.",
    trusted_base=_CACHE_TB, assumptions=_CACHE_ASSUME,
)
PROPS["C03"] = dict(
    components=[dict(name="cache", gen_args={"C03": ["profile=C03"]}, shrink_lists=False),
                dict(name="cacheconc", gen_args={"C03": ["profile=C03"]}, shrink=False, independent_lines=True)],
    clause_prefixes=["C03."],
    diff_filter=lambda l: bool(_fields(l) & {"keys", "has", "len", "panic", "protocol"}),
    rule=("Set/Delete/Sweep/Clear histories (no Resize) biased to overflow by a few keys, updates of old keys and delete-then-re-set; the monitor keeps its own insertion "
          "stamps from the implementation's answers and checks every ordered pair after every op. Plus 4 (quick) / 32 (thorough) renew rounds on caches of 20000-90000 entries with large partitions: an overflowing Set lets the "
          "cache's own background sweep evict the oldest partition, the evicted keys are re-inserted the moment the eviction is visible, and at rest all of them must be present. distinct_nontrivial as C01."),
    level_text=("Proof: ghost-stamped cache; FIFO theorem over all histories (stamps monotone along partitions, sweep removes a prefix), update does not renew / re-insert renews, "
                "no eviction while insertions <= Capacity, one overflow evicts at most one partition (<= pc entries)."),
    level_note="Trusted as C01. 'documented number of partitions' is read as what the documented formula evaluates to in Go (see DESIGN §10).",
    trusted_base=_CACHE_TB, assumptions=_CACHE_ASSUME,
)
PROPS["C13"] = dict(
    components=[dict(name="cache", gen_args={"C13": ["profile=C13"]}, shrink_lists=False)],
    clause_prefixes=["C13."],
    diff_filter=lambda l: _after(l) in ("resize", "clear") or bool(_fields(l) & {"freshcap", "panic", "protocol"}),
    rule=("histories with traffic before and after Resize/Clear; new capacities grow, shrink, keep the partition count but change the partition size, or change nothing; "
          "Capacity() compared with a freshly built cache of the same option. distinct_nontrivial = distinct histories with a Resize (plus eviction) or evicting Resize."),
    level_text=("Proof: for all valid replay orders — capacity, survivors keep values, nothing new, all survive if they fit, survivors are a suffix of the replay order, "
                "WF preserved (so C01-C03 continue), Clear is observationally a new cache (bisimulation)."),
    level_note="Trusted as C01; the calculator's (n', pc') is an input; replay order reconstructed from observed survivors and validated as a valid order.",
    trusted_base=_CACHE_TB, assumptions=_CACHE_ASSUME,
)

PROPS["C11"] = dict(
    components=[dict(name="stack", shrink_lists=False),
                dict(name="stackconc", race=True, shrink=False, independent_lines=False)],
    clause_prefixes=["C11."],
    rule=("sequential: seeded Push/Pop/Peek/Len/Values histories of 1-120 (quick) / 1-250 (thorough) ops on stacks of initial size 0/1/2/8/64, three streams "
          "(balanced, push-then-drain, pop-heavy/often empty), compared op by op with the heap-array model and with the FIFO-by-id specification; "
          "concurrent (race-detector build): two-popper trials on a one-element stack and G in {2,4,8} goroutines x 20-400 mixed ops with unique values, checked for "
          "conservation, distinct ids, panics and data-race reports; `pushorder` (concurrent pushes, then a sequential drain must follow the ids) and `peeklive` (pushers "
          "and peekers, nothing popped: every id whose Push has returned must be found). distinct_nontrivial = distinct sequential histories with >=3 pushes and >=2 non-empty pops + distinct stress configurations."),
    level_text=("Proof: the container/heap algorithms (up/down/Push/Pop/Remove/Fix/Init, transcribed) keep the heap property and the multiset and Pop returns a minimum, for every strict weak "
                "order and every size (termination included); GenericStack over that array refines the FIFO-by-id queue for every history. The concurrent clause is partial: the model "
                "assumes each method is one critical section (regenerated shape facts, C07) and the race detector + stress runs search for violations."),
    level_note=("Trusted: Lean kernel; transcription of Go's container/heap (checked only differentially); Go memory-model races are outside the sequentially consistent model — "
                "delegated to lock-shape facts and -race stress."),
    trusted_base=TB_COMMON + ["Go's container/heap = the transcription in TV/Model/GoHeap.lean (differential check only)", "race detector for memory-model races"],
    assumptions=["values are tagged unique ints so that duplication/loss is visible", "stress schedules are not seeded (Go scheduler); their inputs are"],
)

_WQ_TB = TB_COMMON + [
    "the LTS's atomic steps = channel operations + straight-line code between blocking points of queue.go (hand transcription); Go channels/select/context/sync.Map/atomic as documented",
    "container/heap = the transcription in TV/Model/GoHeap.lean (differential check only, C11)",
    "quiescence detected black-box from runtime.Stack wait states; the dispatcher's idle select is recognised by reading the source line it is blocked at (the select that receives from workChan)",
    "uuid.New returns fresh ids (ordinals stand for uuids)", "Go scheduler fairness and termination of work functions (hypotheses of the liveness theorems)",
]
_WQ_ASSUME = ["gated scripts: one external stimulus at a time, observed at quiescent points; non-quiescent interleavings are covered by the theorems (all interleavings of the LTS), not by the runs",
              "Dequeue/SetPriority are only issued while the dispatcher is idle (C16's side condition); queue lengths >= 1",
              "work functions are gates controlled by the harness; error values are unique objects compared by identity"]


def _wq(pid, title_rule, level_text, extra_tb=()):
    return dict(
        components=[dict(name="wq", gen_args={pid: ["profile=" + pid]}, shrink_lists=False, shrink=True)] +
                   ([dict(name="wqstress", race=True, shrink=False, independent_lines=True)] if pid in ("C04", "C09", "C14") else []),
        clause_prefixes=[pid + "."],
        rule=("gated scripts of 4-26 (quick) / 4-40 (thorough) stimuli (enqueue with priority/adjust function, release with nil/error, set adjust value, subscribe, receive error, resize, "
              "dequeue, set priority, stop, break — also after one another) on queues with W in 1..3 (4), L in 1..4 (5), options in both orders, priorities from the whole int range in one case "
              "of seven, adjust functions that differ from the Enqueue priority from the start; adjust storms, SetPriority storms, Dequeue storms (a deep element of a lopsided heap removed, then one token) and Stop/Break storms over a backlog; each case in its own process; after every stimulus the observation (start order, returned "
              "Enqueue calls, WorkItems(), errors per subscriber, goroutine wait-state histogram) must equal that of one of the model's quiescent successors (all interleavings of internal "
              "steps explored). " + title_rule + " distinct_nontrivial = distinct scripts (hashed) that reached the full-queue branch, a fan-out, a Dequeue/SetPriority or a Stop/Break."),
        level_text=level_text,
        level_note=("Trusted: Lean kernel; the hand-written LTS of queue.go/workHeap.go; the correspondence at quiescent granularity (the runs cannot see non-quiescent interleavings — the theorems cover them); "
                    "data races are outside the sequentially consistent LTS (errorSubscribers access is checked by the -race stress of C14)."),
        trusted_base=_WQ_TB + list(extra_tb), assumptions=_WQ_ASSUME,
    )


PROPS["C04"] = _wq("C04", "Profile C04: mixed traffic, about a third of the cases with subscribers.",
    "Proof over the LTS (all W, L >= 1, any number of producers/items, every interleaving): started is duplicate-free, ids distinct, every accepted item is started/dequeued/on its way (LOC ledger), "
    "WorkItems exact; liveness as deadlock-freedom + a strictly decreasing potential for internal steps (fair runs with terminating work start everything). Partial for scheduler fairness.")
PROPS["C05"] = _wq("C05", "Profile C05: a third of the items carry adjust functions whose values change between dispatches; priority ranges 1, 3 and 6 (1 = all equal: FIFO).",
    "Proof: Less is the lexicographic (priority, arrival) strict weak order; the array-level heap invariant holds in every reachable state; every token decision pops a minimum of the adjusted heap "
    "(container/heap algorithms proved in C11); adjust-all consults every function; direct hand-offs only with an empty queue.")
PROPS["C09"] = _wq("C09", "Profile C09: fill-first streams that reach W+L+2 outstanding items and blocked producers; one script in nine ends with Stop or Break in that state; besides the worker goroutines, the work functions started and not yet released are counted (never more than W, whichever goroutine runs them).",
    "Proof: CAP/PIPE/ROOM invariants for every reachable state; running <= W always; at quiescent points running = min(k, W - reporting); back-pressure bounds; full-branch threshold. "
    "'At no instant' is the model's notion of instant (between atomic steps).")
PROPS["C14"] = _wq("C14", "Profile C14: 0-3 subscribers before traffic, more during it, 40% of results are errors.",
    "Proof: delivery ledger invariants — at most once per (subscriber, item), only failed items, every fan-out complete when the monitor is quiet, every failure fanned out exactly once, subscriber "
    "count monotone, subscribe always enabled. Partial: the data race on the subscriber slice is outside the LTS (race-detector stress + shape).")
PROPS["C16"] = _wq("C16", "Profile C16: Dequeue/SetPriority on every known ordinal and on unknown ids, items executing, waiting, handed off.",
    "Proof: dequeued items never start; Dequeue removes exactly the identified heap element (container/heap Remove), error returns change nothing, unknown ids are no-ops, SetPriority re-heapifies (Fix).")
PROPS["C19"] = _wq("C19", "Profile C19: Stop or Break injected at a random position of every script, then everything runnable is released.",
    "Proof with fault injection = quantification over all reachable states: no panic, callers never block, rejected/limbo items never start, accepted work survives Stop, Break skips the waiting work, "
    "the shutdown hand-shake never deadlocks.")

_LOCK_TB = TB_COMMON + [
    "sync.Mutex / sync.RWMutex / sync.Map / sync/atomic provide their documented atomicity (a critical section is one atomic step of the LTS)",
    "shape facts: harness/cmd/shapegen (go/ast, ~400 lines) extracts which fields are accessed under which lock mode; TV/ShapeOK/*.lean proves by `decide` that the extracted shape is the one the model assumes",
    "Go memory-model data races are outside a sequentially consistent LTS: delegated to the shape facts + the race detector",
]
PROPS["C07"] = dict(
    shape=True, extra_modules=["TV.ShapeOK.SafeMap"],
    components=[dict(name="maps", shrink_lists=False), dict(name="mapsconc", race=True, shrink=False, independent_lines=True)],
    clause_prefixes=["C07."],
    rule=("sequential: every method of SafeMap[int,int], SafeMap[int,*int], SafeMap[int,string], SyncMap[int,int], SyncMap[int,error] (stored nils included) on histories of 1-60 (quick) / 1-120 (thorough) ops over 5 keys, "
          "compared op by op with the ordinary-map specification; snapshots are scribbled on and the map re-read. concurrent (race build): GetOrAdd||Delete loop, every SyncMap method on a stored nil interface, and recorded "
          "histories of 2-4 goroutines x 2-5 ops on 1-3 keys (stamped from one atomic counter) judged by the Lean linearizability decision procedure (exhaustive over orders compatible with real time). "
          "distinct_nontrivial = distinct sequential histories + distinct recorded-history configurations."),
    level_text=("Proof: generic theorem — every history of a lock-protected object whose falling-through sections are silent and whose completing section is the specification is linearizable (any threads, programs, "
                "interleavings), real-time order respected; SafeMap's section table is Sound; one-winner, miss-is-zero, atomic read-modify-write on the specification; SyncMap's conversion is the identity incl. the nil "
                "interface. The section table is tied to safeMap.go by regenerated shape facts proved equal by `decide`. Snapshot non-aliasing is carried by the correspondence only."),
    level_note="Trusted: Lean kernel; sync.Map is linearizable with its documented semantics; the shape extractor; Go boxing modelled by IVal/Any.",
    trusted_base=_LOCK_TB, assumptions=["values 0..3 stand for the zero value and three distinct non-zero values of each instantiated type", "recorded histories are small so that the exhaustive linearizability search stays cheap"],
)
PROPS["C08"] = dict(
    shape=True, extra_modules=["TV.ShapeOK.Cache"],
    components=[dict(name="cacheconc", race=True, shrink=False, independent_lines=True),
                dict(name="cache", gen_args={"C08": ["profile=C01"]}, shrink_lists=False, tiers=["thorough"])],
    clause_prefixes=["C08.", "C01.", "C03.reinsert_renews"],
    rule=("race-detector stress, each round in its own process: (a) fill — 16 writers insert exactly Capacity() distinct keys into a capacity-64 cache, nothing may be missing; (b) mix — G in {2,4,8,16} goroutines x 50-400 "
          "Set/Get/Contains/Delete/Len/Keys/Values/Sweep (+ Clear/Resize in half of the rounds) on capacities {1,4,9,64}, sweep frequency 1 ms or 1 h; (c) renew — as in C03: keys evicted by the cache's own background sweep are re-inserted at once and must be present at rest; checked: every Get value was Set for that key, views consistent after "
          "quiescence + Sweep, single-writer keys hold the writer's last value or are absent, no panic, no hang (30 s watchdog), no race report, the sweeper goroutine is gone within 1 s of cancel. "
          "distinct_nontrivial = distinct stress configurations."),
    level_text=("Proof of the lifting theorem: with every exported method one section of the cache-wide RW lock (shape facts regenerated from fifoMapCache.go and proved by `decide`), the concurrent cache is linearizable to the "
                "sequential model of C01-C03/C13 (instance of C07's generic theorem), hence Get values were Set, views are consistent and Len(sweep) <= Capacity. Partial: data races, deadlock on real mutexes and the "
                "sweeper goroutine's lifetime are runtime truths — searched for by the -race stress, not proved."),
    level_note="Trusted as C07 plus the sequential cache model (C01).",
    trusted_base=_LOCK_TB, assumptions=["stress schedules are not seeded (Go scheduler)", "goroutine lifetime (cancel ends the sweeper) is observed via runtime.Stack within 1 s"],
)
PROPS["C11"]["shape"] = True
PROPS["C11"]["extra_modules"] = ["TV.Properties.C11c", "TV.ShapeOK.Stack"]
PROPS["C14"]["shape"] = True
PROPS["C14"]["extra_modules"] = ["TV.ShapeOK.Queue"]

_PUB_TB = TB_COMMON + [
    "the LTS's atomic steps = channel operations / lock operations of publication.go (hand transcription); sync.RWMutex writer preference, sync.Once, sync.Map iteration as documented",
    "real time: a logical clock; the scripts' short timeout is 500 ms, a `sleep` stimulus lasts 1.2 s, a script segment that runs longer than 300 ms without a sleep is discarded as timing-unstable (counted in the evidence)",
    "quiescence detected black-box from runtime.Stack wait states",
]


def _pub(pid, note, level_text):
    return dict(
        components=[dict(name="pub", gen_args={pid: ["profile=" + pid]}, shrink_lists=False),
                    dict(name="pubstress", race=True, shrink=False, independent_lines=True)],
        clause_prefixes=[pid + "."],
        rule=("gated scripts of 3-12 (quick) / 3-16 (thorough) stimuli (subscribe with buffer 0-3, filter none/even/odd/never, timeout short/long, callbacks; publish; receive; close subscriber; close publication, also twice; "
              "sleep past the short timeout) on <= 4 subscribers, each case in its own process; after every stimulus buffer lengths, values received, callbacks and the number of pending delivery goroutines must equal those of "
              "one of the model's quiescent successors. " + note + " Plus ungated race-detector stress: 1-4 publishers x 1-5 subscribers x 10-220 unique messages with subscriber closers and Publication.Close racing, "
              "late subscribers (Subscribe while the publishers run, a marker published right after must arrive), no-wait subscribers (timeout 0), self-closing subscribers (OnTimeout closes them), "
              "300 reject-all padding subscribers in every second round; subscriber churn (Subscribe, publish a marker, receive it, Close x 3000 / 60000 while four goroutines publish); subscribers whose OnFiltered callback closes them; and a slow-callback stimulus (an OnFiltered callback of 60 ms on one subscriber while another, with a short timeout, keeps receiving: no time-out may be recorded); and a zero-timeout stimulus (unbuffered subscribers with WithTimeout(0) and WithTimeout(-1s), in both option orders, nobody receiving: every message is dropped with its OnTimeout call and no delivery goroutine is left, well within 2 s). "
              "distinct_nontrivial = distinct scripts (hashed) with a pending delivery or a close + distinct stress configurations."),
        level_text=level_text,
        level_note="Trusted: Lean kernel; the hand-written LTS of publication.go; correspondence at quiescent granularity; real timers and goroutine exit are observed, not proved.",
        trusted_base=_PUB_TB, assumptions=["messages are unique within a script so that duplicates are visible", "timing-unstable cases are discarded, never counted as failures or as coverage"],
    )


PROPS["C06"] = _pub("C06", "Profile C06: mostly long timeouts, mixed filters.",
    "Proof over the LTS (any number of subscribers, messages, publishers, every interleaving): at most one outcome per (publish, subscriber), only published-and-accepted values through a delivery addressed to that subscriber, "
    "buffers hold sent messages, Publish visits every registered subscriber, a holding delivery with room can be sent. Partial: 'exactly once if the subscriber keeps receiving within its timeout' depends on the scheduler/timer race, "
    "which the model cannot exhibit (the model proves the converse: timed out only at/after the own deadline).")
PROPS["C10"] = _pub("C10", "Profile C10: Subscriber.Close / Publication.Close injected at every kind of position (pending deliveries, full buffers, repeated, both).",
    "Proof with fault injection = quantification over all reachable states: no panic (no send on a closed channel, no double close), closed exactly once, a begun close can always complete, buffered messages stay readable, "
    "no holder after the close, other subscribers untouched.")
PROPS["C15"] = _pub("C15", "Profile C15: half of the subscribers with the short timeout and callbacks; every script sleeps past it once.",
    "Proof: Publish is one non-waiting step; buffers never exceed capacity; every internal step on a delivery records exactly one outcome; the timer is the subscriber's own and fires only at/after the deadline; callbacks ledger in bijection "
    "with filtered/timed-out outcomes; at quiescence whatever is pending is legitimately waiting. Partial for real time (timers, goroutine exit are observed with margins).")

_SRV_TB = TB_COMMON + [
    "net/http.ServeMux matching is modelled only for literal \"METHOD /path\" patterns (exact match, 405 when the path is registered for other methods, 404 otherwise); TLS, HTTP framing, grpc-go are trusted and only exercised",
    "http.Server.Shutdown / ListenAndServe(TLS) and grpc.Server.Serve / GracefulStop / Stop contracts as documented (three-state machines in the lifecycle LTS)",
    "loopback sockets; ports obtained by binding :0 and re-using the number",
]
PROPS["C17"] = dict(
    components=[dict(name="server", shrink_lists=False, shrink=False)],
    clause_prefixes=["C17.", "C18.start_returns_and_reachable", "C18.stop_complete"],
    rule=("30 (quick) / 600 (thorough) generated configurations on real loopback listeners: 0-5 routes per listener (GET/POST/PUT/DELETE, literal paths of 1-3 segments, a third of them subtree patterns ending in '/'), HTTPS with a self-signed certificate, "
          "middleware chains of length 0-4 over recording middlewares and LogRequest/LogResponse (the same list bundled twice in every second case), handlers that answer in four legitimate manners "
          "(plain, 103 Early Hints first, superfluous second WriteHeader, Flush, answer begun before the small request body is read, no Content-Type), gRPC with the repo's example service; every registered route plus a grid of other method/path "
          "combinations with bodies of 0 / 5-7 / 65536 bytes; compared: status, handler identity, what the handler saw (method, path, header, body length and hash), echo of the body, enter/leave order. "
          "In two cases of three the configuration has been used before (one or two servers were built from it and discarded; the last one built is used). Plus 6 / 24 configurations with LogRequest and LogResponse in both orders (also doubled, also around a recording middleware) over five routes, one per manner of handler, three requests each with bodies of 5-65536 bytes. distinct_nontrivial = distinct configurations that served at least one route."),
    level_text=("Proof for the composition/routing/transparency logic: bundle = nested composition for every list length, recording traces enter in order / leave in reverse, LogRequest and LogResponse are the identity on "
                "what the handler sees and the client gets, registered routes dispatch to exactly their handler, everything else is 404/405, each listener installs its own router. Partial: ServeMux beyond literal and subtree "
                "patterns (redirects, wildcards, host patterns), TLS, HTTP framing and grpc-go are exercised by the loopback runs, not modelled."),
    level_note="Trusted: Lean kernel; the small functional model of middleware/routing; real sockets only observed.",
    trusted_base=_SRV_TB, assumptions=["request paths are clean literal paths, never a registered subtree pattern minus its slash (net/http redirects those); HEAD is not exercised", "handler ids map to status 210+id (clear of 204/205)"],
)
PROPS["C18"] = dict(
    components=[dict(name="lifecycle", shrink_lists=False, shrink=False, independent_lines=True)],
    clause_prefixes=["C18."],
    rule=("every non-empty subset of {HTTP, HTTPS, gRPC} x in-flight requests {0,1,4} (HTTP handlers blocked on a gate until Stop is under way, and as many gRPC calls held by a gated service: released under an ample context, to be cut off by Stop under an expired one) x Stop context {ample, already expired} x timing {after reachability, "
          "immediately after Start}, plus a tight context and, per subset with a web listener, a retried Stop (a first Stop with an expired context gives up with 1-3 requests running, the observed second Stop has an ample one and must wait for them; predicted from the model TV.StopRetry) and, per subset, a Stop with an ample context after the running context given to NewServer has been cancelled: 73 scenarios (x10 repetitions in the thorough tier), each in its own process on real loopback listeners (port numbers reserved by file locks), half of the immediate ones with a caller-supplied logger that takes 25 ms over the 'Starting' lines; observed: Start returned promptly, listeners reachable, in-flight "
          "responses completed, Stop did not return early (ample), Stop returned, error flag, WaitGroup released, ports bindable again. For every scenario the driver also explores all interleavings of the "
          "lifecycle LTS and checks that every maximal run ends stopped/closed/released and that the observed error flag is one the model can produce. distinct_nontrivial = distinct scenarios."),
    level_text=("Proof of the hand-shake protocol under the stated stdlib contracts: WaitGroup balance (never negative, = started and not returned), no deadlock of Start/Stop for every provider subset and interleaving "
                "(incl. Stop right after Start, expired context), Stop complete, in-flight requests not cut off with an ample context; for sequences of Stop calls (model TV.StopRetry) every call with an ample context returns nil and only when nothing is running, whatever earlier calls gave up on. Partial: reachability, port release and completion of real requests are "
                "socket/runtime truths only observed by the scenarios — this is the property to which the technique contributes least."),
    level_note="Trusted: Lean kernel; the lifecycle LTS with stdlib servers as three-state machines; real sockets only observed.",
    trusted_base=_SRV_TB, assumptions=["time bounds: Start within 2 s, reachability within 5 s, Stop within 30 s, ports free within 1 s"],
)

PROPS["C10"]["shape"] = True
PROPS["C10"]["extra_modules"] = ["TV.ShapeOK.Publisher"]

HOOK_COMMITS = []

_ALL = ["C%02d" % i for i in range(1, 21)]
NOT_APPLICABLE = [dict(property_id=p, reason="not yet built in this framework (work in progress; see DESIGN.md §11 build order)")
                  for p in _ALL if p not in PROPS]
