import sys
base = sys.argv[1] if len(sys.argv) > 1 else "/verif/lean/TV"
emit_spec = len(sys.argv) > 2 and sys.argv[2] == "spec"
T = []
def add(prop, name, doc, stmt): T.append((prop, name, doc, stmt))

add("C17","C17_bundle_order","BundleMiddleware runs its members in declaration order, first is outermost: bundle [m1,…,mk] h = m1 (m2 (… (mk h))) for every k.",
 "∀ (ms : List Middleware) (h : Handler), bundle ms h = ms.foldr (fun m acc => m acc) h")
add("C17","C17_recording_trace","recording middlewares enter in declaration order and leave in reverse, around whatever the handler logs; the response is the handler's.",
 "∀ (names : List String) (h : Handler) (r : Req),\n    (bundle (names.map recording) h r).1 = names.map (\"enter \" ++ ·) ++ (h r).1 ++ names.reverse.map (\"leave \" ++ ·) ∧\n    (bundle (names.map recording) h r).2 = (h r).2")
add("C17","C17_log_transparent","the supplied logging middleware is transparent: the handler receives the same method, URL, headers and (unread) body, and the client the same status, headers and body, as without it.",
 "∀ (h : Handler) (r : Req), logRequest h r = h r ∧ logResponse h r = h r ∧ logRequest (logResponse h) r = h r")
add("C17","C17_chain_transparent","any chain of recording and logging middlewares hands the handler the request unchanged and the client the handler's response unchanged.",
 "∀ (names : List String) (id : Nat) (r : Req), (bundle (names.map mwOf) (handlerOf id) r).2 = (handlerOf id r).2 ∧\n    (bundle (names.map mwOf) (handlerOf id) r).1 =\n      (names.filter (fun n => n != \"LOGREQ\" && n != \"LOGRESP\")).map (\"enter \" ++ ·) ++ (handlerOf id r).1 ++\n      ((names.filter (fun n => n != \"LOGREQ\" && n != \"LOGRESP\")).reverse).map (\"leave \" ++ ·)")
add("C17","C17_routes_served","each registered route is served by exactly its handler (routes with pairwise different (method, path)).",
 "∀ (routes : List Route) (r : Route), r ∈ routes →\n    (routes.map (fun x => (x.method, x.path))).Nodup → dispatch routes r.method r.path = .handler r.handler")
add("C17","C17_others_rejected","every other method/path combination is rejected by the router: 405 when only patterns of other methods match the path (exactly, or as a subtree pattern ending in \"/\"), 404 otherwise.",
 "∀ (routes : List Route) (m p : String), (∀ r ∈ routes, ¬ (r.method = m ∧ patMatches r.path p = true)) →\n    dispatch routes m p = (if routes.any (fun r => patMatches r.path p) then .methodNotAllowed else .notFound)")
add("C17","C17_subtree_served","a route registered with a trailing slash serves the whole subtree below it: a path that is not itself registered for the method is answered by the handler of the longest registered subtree pattern of that method that contains it.",
 "∀ (routes : List Route) (m p : String), (∀ r ∈ routes, ¬ (r.method = m ∧ r.path = p)) →\n    ∀ q, longest (routes.filter (fun r => r.method == m && r.path.endsWith \"/\" && p.startsWith r.path)) = some q →\n    dispatch routes m p = .handler q.handler ∧ q ∈ routes ∧ q.method = m ∧ p.startsWith q.path = true ∧\n    ∀ r ∈ routes, r.method = m → r.path.endsWith \"/\" = true → p.startsWith r.path = true → r.path.length ≤ q.path.length")
add("C17","C17_each_listener_has_its_router","each configured listener installs the router built from its own routes (HTTP and HTTPS alike), and answers through it.",
 "∀ (cfg : Config) (l : Listener) (m p : String), serve cfg l m p = (match l with | .http => cfg.httpRoutes | .https => cfg.httpsRoutes).map (fun rs => dispatch rs m p)")
add("C18","C18_wg_balanced","the caller's WaitGroup counter equals the number of providers that have been started and whose serve call has not returned; it is never negative.",
 "∀ (n : Nat) (s : St), Reach n s → 0 ≤ s.stopWg ∧\n    s.stopWg = ((s.provs.zipIdx.filter (fun (p, i) => (match s.caller with | .idle => false | .spawning k => decide (i < k) | _ => true) && p.pc != .returned)).length : Int)")
add("C18","C18_no_deadlock","Start returns without blocking and Stop terminates, for every subset of providers and every interleaving (including Stop immediately after Start and an expired context): while a Start or Stop call is in progress some step of the system is enabled.",
 "∀ (n : Nat) (s : St), Reach n s → s.caller ≠ .idle → s.caller ≠ .startReturned → (∀ e, s.caller ≠ .stopReturned e) →\n    ∃ a ∈ allActs s, (step? s a).isSome = true")
add("C18","C18_stop_complete","when Stop returns every listener has shut down (its serve call has returned, the server is closed) and the caller's WaitGroup is released.",
 "∀ (n : Nat) (s : St) (err : Bool), Reach n s → s.caller = .stopReturned err →\n    s.stopWg = 0 ∧ ∀ p ∈ s.provs, p.pc = .returned ∧ p.srv = .closed ∧ p.shutdownCalled = true")
add("C18","C18_waits_for_inflight","with an ample context Stop waits for the requests in flight: none is cut off, and when Stop returns none is left.",
 "∀ (n : Nat) (s : St), Reach n s → s.ctxAmple = true → s.aborted = 0 ∧ ((∃ e, s.caller = .stopReturned e) → ∀ p ∈ s.provs, p.inflight = 0)")
add("C18","C18_start_signals_all","Start returns only after every provider goroutine has signalled that it is about to serve.",
 "∀ (n : Nat) (s : St), Reach n s → (s.caller = .startReturned ∨ (∃ k e, s.caller = .stopping k e) ∨ (∃ e, s.caller = .waitingStopWg e) ∨ (∃ e, s.caller = .stopReturned e)) →\n    s.provs.length = n ∧ ∀ p ∈ s.provs, p.pc ≠ .notStarted")
add("C18","C18_retried_stop_waits","Stop called again (model TV.StopRetry: any number of Stop calls on web providers, any contexts, any requests still running): every call with an ample context — whatever earlier calls gave up on — returns nil, and only when no request is running any more.",
 "∀ (n : Nat) (f : Nat → Nat) (s : StopRetry.St), StopRetry.Reach n f s →\n    ∀ r ∈ s.returned, r.1 = true → r.2.1 = false ∧ r.2.2 = 0")
add("C18","C18_retried_stop_progress","a Stop call in progress is never stuck: it can move on, or it is waiting (ample context) for a running request of the provider it is at, and that request can complete.",
 "∀ (n : Nat) (f : Nat → Nat) (s : StopRetry.St), StopRetry.Reach n f s → ∀ (k : Nat) (a e : Bool), s.stopping = some (k, a, e) →\n    (StopRetry.step? s .provStop).isSome = true ∨\n    (a = true ∧ k < s.n ∧ 0 < s.inflight k ∧ (StopRetry.step? s (.finishReq k)).isSome = true)")
add("C18","C18_expired_stop_cuts_nothing","a Stop call never cuts a web request off, whatever its context: the walk over the providers leaves the running requests as they are (they end by completing).",
 "∀ (s s' : StopRetry.St), StopRetry.step? s .provStop = some s' → s'.inflight = s.inflight")

if emit_spec:
    with open(f"{base}/Proofs/Server.lean", "w") as f:
        f.write("import TV.Model.Middleware\nimport TV.Model.ServerLifecycle\n/-! Server — proof obligations, re-exported verbatim by TV/Properties/C17.lean and C18.lean. -/\nnamespace TV.Server\nnamespace Proofs\n\n")
        for prop, name, doc, stmt in T:
            op = "open TV.Middleware in\n" if prop == "C17" else "open TV.ServerLifecycle in\n"
            f.write(f"{op}theorem {name} :\n    {stmt} := sorry\n\n")
        f.write("end Proofs\nend TV.Server\n")
titles = {"C17":"Server serves every configured route and service through transparent middleware","C18":"Server starts every listener and stops gracefully and completely"}
opens = {"C17":"open TV.Middleware TV.Server","C18":"open TV.ServerLifecycle TV.Server TV"}
extra = {
"C17": '''/-! witnesses for the pinned tree -/

/-- pinned: the HTTPS provider never installs its router: a registered HTTPS route answers 404. -/
theorem pinned_C17_https_routes_404 :
    servePinned { httpRoutes := none, httpsRoutes := some [⟨"GET", "/a", 1⟩], httpMw := none } .https "GET" "/a" = some .notFound := by decide

/-- pinned: `LogRequest` hands the handler a drained body. -/
theorem pinned_C17_logrequest_drains_body :
    (logRequestPinned (handlerOf 1) ⟨"POST", "/a", [], [7, 8, 9]⟩).2.body = [1] ∧
    (logRequest (handlerOf 1) ⟨"POST", "/a", [], [7, 8, 9]⟩).2.body = [1, 7, 8, 9] := by decide

/-! non-vacuity -/
example : (answer { httpRoutes := some [⟨"GET", "/a", 1⟩, ⟨"POST", "/a", 2⟩], httpsRoutes := none, httpMw := some ["A", "LOGREQ", "B"] } .http
    ⟨"POST", "/a", [], [5]⟩).map (fun x => (x.1, x.2.1)) =
    some (.handler 2, ["enter A", "enter B", "handler 2 POST /a body=1", "leave B", "leave A"]) := by decide
''',
"C18": '''/-! non-vacuity: two providers, Stop immediately after Start with one goroutine not yet serving -/
example : ∃ s, runActs (init 2) [.startCall, .spawn, .spawn, .provSignal 0, .provSignal 1, .startWgDone, .provServe 0, .stopCall true,
    .provStop, .provStop, .provStop, .provServe 1, .provReturn 0, .provReturn 1, .stopWgDone] = some s ∧
    s.caller = .stopReturned false ∧ s.stopWg = 0 := by
  refine ⟨_, rfl, ?_⟩; decide

/-! non-vacuity (retried Stop): two providers, two requests running on the first; the expired call gives up with an error and both
    still running; the ample one cannot move before both have completed, and returns nil -/
example : ∃ s, StopRetry.runActs (StopRetry.init 2 (fun i => if i = 0 then 2 else 0))
    [.stopCall false, .provStop, .provStop, .provStop, .stopCall true] = some s ∧
    s.returned = [(false, true, 2)] ∧ (StopRetry.step? s .provStop).isNone = true := ⟨_, rfl, by decide, by decide⟩
example : ∃ s, StopRetry.runActs (StopRetry.init 2 (fun i => if i = 0 then 2 else 0))
    [.stopCall false, .provStop, .provStop, .provStop, .stopCall true, .finishReq 0, .finishReq 0, .provStop, .provStop, .provStop] = some s ∧
    s.returned = [(true, false, 0), (false, true, 2)] := ⟨_, rfl, by decide⟩
''',
}
for prop in titles:
    with open(f"{base}/Properties/{prop}.lean","w") as f:
        f.write("import TV.Proofs.Server\n")
        f.write(f"/-!\n# {prop} — {titles[prop]}\n-/\nnamespace TV.{prop}\n{opens[prop]}\n\n")
        for p2, name, doc, stmt in T:
            if p2 != prop: continue
            f.write(f"/-- {doc} -/\ntheorem {name} :\n    {stmt} := Proofs.{name}\n\n")
        f.write(extra.get(prop,""))
        f.write(f"\nend TV.{prop}\n")
print(len(T))
