import os, re
R = "(W L : Nat) (_ : 1 ≤ W) (_ : 1 ≤ L) (s : St) (_ : Reach W L s)"
T = {}
def add(group, prop, name, doc, stmt):
    T.setdefault(group, []).append((prop, name, doc, stmt))

# ---------------- Safety ----------------
add("Safety","C04","C04_at_most_once","never run twice.",
 f"∀ {R}, s.started.Nodup")
add("Safety","C04","C04_ids_distinct","each Enqueue gets a distinct id (the ordinal stands for the uuid; freshness of uuid.New is trusted).",
 f"∀ {R}, ((stored s).map (·.id)).Nodup ∧ ∀ it ∈ stored s, it.id < s.nextId")
add("Safety","C04","C04_never_dropped","never dropped (safety half): an accepted item that has not started is still on its way — held by the dispatcher, in the priority queue, handed to the worker pool — unless it was dequeued or skipped by Break.",
 f"∀ {R} (id : Nat), id ∈ s.accepted →\n    id ∈ s.started ∨ id ∈ s.dequeued ∨ id ∈ (waiting s).map (·.id) ∨ (s.breaked = true ∧ id ∈ s.limbo.map (·.id))")
add("Safety","C04","C04_started_were_accepted","only accepted work runs; what finished had started; what executes has started.",
 f"∀ {R}, (∀ id ∈ s.started, id ∈ s.accepted) ∧ (∀ id ∈ s.finished, id ∈ s.started) ∧\n    (∀ it ∈ s.running ++ s.errSend, it.id ∈ s.started)")
add("Safety","C04","C04_workitems_exact","WorkItems(): an accepted, unfinished, not dequeued item is listed (with the name and priority it has now), and an item is reported in progress exactly when its work function is executing or its error is being reported.",
 f"∀ {R} (id : Nat), id ∈ s.accepted → id ∉ s.finished → id ∉ s.dequeued →\n    (∃ it ∈ stored s, it.id = id) ∧ (inProgress s id = true ↔ id ∈ (s.running ++ s.errSend).map (·.id))")
add("Safety","C09","C09_running_le_workers","at no instant (= in no reachable state, between any two atomic steps) are more than `W` work functions executing; the channels never exceed their capacities.",
 f"∀ {R}, s.W = W ∧ s.running.length + s.errSend.length + s.tokPend + s.exitedW ≤ W ∧ s.chan.length ≤ W ∧ s.tokens ≤ W")
add("Safety","C09","C09_pipeline_full","the pipeline invariant: whenever something waits in the queue (or the dispatcher holds an item), workers + their channel + the token semaphore account for at least `W` items — the next token is on its way.",
 f"∀ {R}, s.ctxDone = false →\n    (s.heap ≠ [] ∨ (∃ it, s.disp = .fullWait it) ∨ (∃ m it, s.disp = .handOff m (some it))) →\n    W ≤ s.chan.length + s.running.length + s.errSend.length + s.tokPend + s.tokens +\n        (match s.disp with | .handOff _ _ => 1 | _ => 0)")
add("Safety","C09","C09_work_conserving","work conserving: at a quiescent point of a running queue, with k accepted items not yet finished executing, min k (W − workers busy reporting an error) of them are executing.",
 f"∀ {R}, s.ctxDone = false → quiescent s →\n    s.running.length = min ((waiting s).length + s.running.length) (W - s.errSend.length)")
add("Safety","C09","C09_backpressure_upper","back-pressure, upper bound: never more than Lmax + 2W + 1 accepted items are outstanding (queue ≤ Lmax, channel ≤ W, executing ≤ W, one in the dispatcher's hand).",
 f"∀ {R}, s.ctxDone = false →\n    s.heap.length ≤ s.Lmax ∧ (waiting s).length + s.running.length ≤ s.Lmax + 2 * W + 1")
add("Safety","C09","C09_blocked_only_when_busy","back-pressure, lower bound: a producer waits at a quiescent point only while the dispatcher is busy with a full queue or a hand-off — never while the queue has room.",
 f"∀ {R}, s.ctxDone = false → quiescent s → s.blocked ≠ [] →\n    (∃ it, s.disp = .fullWait it) ∨ (∃ m held, s.disp = .handOff m held)")
add("Safety","C09","C09_full_branch_threshold","the dispatcher enters the full-queue branch only when the queue holds at least L items (the L in force at that arrival: ResizeQueueLength moves the threshold for subsequent arrivals).",
 "∀ (s s' : St) (id : Nat) (it : Item), step? s (.recv id) = some s' → s'.disp = .fullWait it → s.ctxDone = false →\n    (∀ x, s.disp ≠ .fullWait x) → s.L ≤ s.heap.length")
add("Safety","C09","C09_resume","blocked producers resume as work completes: in the full-queue state a completion token lets the dispatcher proceed.",
 "∀ (s : St) (it : Item), s.disp = .fullWait it → 0 < s.tokens → (step? s .tok).isSome = true")
add("Safety","C14","C14_at_most_once","at most once per (subscriber, item).",
 f"∀ {R}, s.inbox.Nodup")
add("Safety","C14","C14_only_failed","only non-nil results are delivered (a nil result produces no delivery); the ledger carries the item id, i.e. the value forwarded is the item's own error.",
 f"∀ {R}, (∀ p ∈ s.inbox, ∃ n, (p.2, n) ∈ s.errored ∧ p.1 < n) ∧ (∀ e ∈ s.errored, e.1 ∈ s.failed) ∧\n    (∀ id ∈ s.failed, id ∈ s.finished)")
add("Safety","C14","C14_exactly_once_when_quiet","exactly once: when error reporting is quiet (the monitor is not in a fan-out), every fan-out has reached every subscriber that existed when it began.",
 f"∀ {R}, (s.mon = .idle ∨ s.mon = .exited) → ∀ e ∈ s.errored, ∀ sub, sub < e.2 → (sub, e.1) ∈ s.inbox")
add("Safety","C14","C14_every_error_reported","every failed item is fanned out exactly once: it is either still with its worker or recorded in `errored`, never both, never twice.",
 f"∀ {R} (id : Nat), id ∈ s.failed →\n    (id ∈ s.errSend.map (·.id) ∨ ∃ n, (id, n) ∈ s.errored) ∧ ¬ (id ∈ s.errSend.map (·.id) ∧ ∃ n, (id, n) ∈ s.errored) ∧\n    (s.errored.map (·.1)).Nodup")
add("Safety","C14","C14_subs_monotone","subscribers registered before an item was enqueued are included in its fan-out: the subscriber count only grows.",
 "∀ (s s' : St) (a : Act), step? s a = some s' → s.subs ≤ s'.subs")
add("Safety","C14","C14_subscribe_anytime","obtaining a new channel from Errors() is possible in every state and changes nothing else.",
 "∀ (s : St), step? s .subscribe = some { s with subs := s.subs + 1 }")
add("Safety","C16","C16_dequeued_never_start","if Dequeue(id) returned nil for an item the queue knew, the item has left the queue for good: it never starts.",
 f"∀ {R}, ∀ id ∈ s.dequeued, id ∉ s.started ∧ id ∉ (waiting s).map (·.id) ∧ id ∉ (s.running ++ s.errSend).map (·.id)")
add("Safety","C16","C16_dequeue_error_noop_reach","if Dequeue returns an error (executing, or no longer / not yet in the priority queue) nothing changes. (Stated for reachable states: in an arbitrary state one id could sit in two places at once, where the statement is false — found by the proof attempt.)",
 f"∀ {R} (id : Nat), dequeueRet s id = .error →\n    step? s (.dequeue id) = some s")
add("Safety","C16","C16_unknown_id_noop","an unknown id is a no-op for both calls.",
 "∀ (s : St) (id : Nat), findId (stored s) id = none →\n    dequeueRet s id = .nil ∧ setPrioRet s id = .nil ∧ step? s (.dequeue id) = some s")
add("Safety","C16","C16_in_progress","for an executing item both calls return an error and change nothing.",
 "∀ (s : St) (id : Nat) (p : Int), inProgress s id = true → (findId (stored s) id).isSome = true →\n    dequeueRet s id = .error ∧ setPrioRet s id = .error ∧ step? s (.setPrio id p) = some s")
add("Safety","C19","C19_no_panic","no panic in any reachable state: nobody sends on a closed channel (only the dispatcher closes workerCh, after its last send), heap.Pop never sees an empty heap.",
 f"∀ {R}, s.panicked = false")
add("Safety","C19","C19_callers_return","Stop, Break and Enqueue can be called in every state (they never block the caller), and an Enqueue caught by Stop/Break has a way out.",
 "∀ (s : St), (step? s .stop).isSome = true ∧ (step? s .break_).isSome = true ∧\n    (∀ p n a, (step? s (.enqueue p n a)).isSome = true) ∧\n    (s.ctxDone = true → ∀ it ∈ s.blocked, (step? s (.giveUp it.id)).isSome = true)")
add("Safety","C19","C19_after_stop_never_run","work submitted after Stop/Break is never run: rejected items were never accepted and never start; nothing in limbo (submitted after Stop, or skipped by Break) ever starts.",
 f"∀ {R}, (∀ id ∈ s.rejected, id ∉ s.started ∧ id ∉ s.accepted) ∧ (∀ it ∈ s.limbo, it.id ∉ s.started)")
add("Safety","C19","C19_stop_keeps_accepted","after Stop (without Break) accepted work is not lost: it started, was dequeued, or is still on its way to a worker.",
 f"∀ {R}, s.breaked = false → ∀ id ∈ s.accepted, id ∈ s.started ∨ id ∈ s.dequeued ∨ id ∈ (waiting s).map (·.id)")
add("Safety","C19","C19_break_skips_waiting","after Break the waiting work is skipped: when the dispatcher leaves its loop with Break set, the priority queue is emptied into limbo (never to start).",
 f"∀ {R} (s' : St), s.breaked = true → step? s .ctxExit = some s' →\n    s'.heap = [] ∧ s'.disp = .drain [] ∧ ∀ it ∈ s.heap, it ∈ s'.limbo")
# ---------------- Heap ----------------
add("Heap","C05","C05_less_is_lexicographic","`Less` is the lexicographic order on (priority, arrival): a strict weak order in which two different items are never equivalent.",
 "StrictWeak less ∧ (∀ a b : Item, less a b = false → less b a = false → a.prio = b.prio ∧ a.id = b.id) ∧\n    (∀ a b : Item, less a b = true ↔ (a.prio < b.prio ∨ (a.prio = b.prio ∧ a.id < b.id)))")
add("Heap","C05","C05_heap_invariant","the priority queue is a heap in every reachable state (array level).",
 f"∀ {R}, IsHeap less s.heap")
add("Heap","C05","C05_adjust_consults_all","every waiting item's adjust function is consulted for every decision: after AdjustPriorities each item with an adjust function carries the value the function returns now, every other item keeps its priority, no item is lost or duplicated, and the array is a heap again.",
 "∀ (s : St) (h : List Item),\n    (adjustAll s h).Perm (h.map (fun it => if it.adj then { it with prio := adjVal s it } else it)) ∧\n    (IsHeap less h → IsHeap less (adjustAll s h))")
add("Heap","C05","C05_pop_is_min","whenever a waiting item m is handed to a worker (a token decision, idle or full-queue branch), no item waiting in the queue at that moment — with the priorities the adjust functions returned for this decision — has a smaller priority number, nor the same one and an earlier arrival; and the queue afterwards is exactly the rest.",
 f"∀ {R} (s' : St) (m : Item) (held : Option Item), step? s .tok = some s' → s'.disp = .handOff m held →\n    (∀ m0 h0, s.disp ≠ .handOff m0 h0) →\n    (m :: s'.heap).Perm (adjustAll s s.heap) ∧ ∀ x ∈ adjustAll s s.heap, less x m = false")
add("Heap","C05","C05_direct_only_when_empty","items passed straight to a free worker because nothing was waiting are outside the comparison: a direct hand-off happens only when the priority queue is empty.",
 "∀ (s s' : St) (id : Nat), step? s (.recv id) = some s' → s'.chan.length = s.chan.length + 1 → s.ctxDone = false → s.heap = []")
add("Heap","C16","C16_dequeue_removes_exactly","Dequeue returns nil for a waiting item, and exactly that item is removed: every other waiting item stays, the queue stays a heap, nothing else changes.",
 f"∀ {R} (s' : St) (id : Nat), id ∈ s.heap.map (·.id) → step? s (.dequeue id) = some s' →\n    s'.dequeued = s.dequeued ++ [id] ∧ (id :: s'.heap.map (·.id)).Perm (s.heap.map (·.id)) ∧ IsHeap less s'.heap ∧\n    s'.chan = s.chan ∧ s'.running = s.running ∧ s'.blocked = s.blocked ∧ s'.started = s.started ∧ s'.panicked = s.panicked")
add("Heap","C16","C16_setprio_waiting","SetPriority(id, p) on a waiting item (no adjust functions around): it competes with priority p from then on, every other item keeps its priority, the queue stays a heap.",
 f"∀ {R} (s' : St) (id : Nat) (p : Int), id ∈ s.heap.map (·.id) → (∀ x ∈ s.heap, x.adj = false) → inProgress s id = false →\n    ((s.heap.map (·.id)).Nodup) → step? s (.setPrio id p) = some s' →\n    s'.heap.Perm (s.heap.map (fun x => if x.id = id then {{ x with prio := p }} else x)) ∧ IsHeap less s'.heap")
# ---------------- Live ----------------
add("Live","C04","C04_no_deadlock","never dropped (liveness half, 1): no deadlock — while a running queue has accepted work that has not started, an error to report, or a producer waiting, an internal step is enabled, or a work function is executing (it terminates by assumption), or the monitor is waiting for a subscriber to receive.",
 f"∀ {R}, s.ctxDone = false → (waiting s ≠ [] ∨ s.errSend ≠ [] ∨ s.blocked ≠ []) →\n    internalActs s ≠ [] ∨ s.running ≠ [] ∨ (∃ e r, s.mon = .fanout e r)")
add("Live","C04","C04_internal_steps_terminate","never dropped (liveness half, 2): every internal step strictly decreases the potential `phi`, so internal steps cannot go on for ever without a `finish` / `subRecv` / new `enqueue`; together with C04_no_deadlock every fair maximal run with terminating work functions and receiving subscribers starts every accepted item.",
 "∀ (s s' : St) (a : Act), isInternal a = true → step? s a = some s' → phi s' < phi s")
add("Live","C19","C19_shutdown_no_deadlock","while stopping, the hand-over never deadlocks: until the dispatcher has exited, an internal step is enabled, or a work function is executing, or the monitor waits for a subscriber.",
 f"∀ {R}, s.ctxDone = true → s.disp ≠ .exited →\n    internalActs s ≠ [] ∨ s.running ≠ [] ∨ (∃ e r, s.mon = .fanout e r)")

import sys
base = sys.argv[1] if len(sys.argv) > 1 else "/verif/lean/TV"
hdr = {"Safety": "import TV.Model.WorkQueue\n", "Heap": "import TV.Model.WorkQueue\nimport TV.Proofs.GoHeap\n", "Live": "import TV.Model.WorkQueue\n"}
for g, items in T.items():
    with open(f"/tmp/wqwork/spec_{g}.lean", "w") as f:
        f.write(hdr[g])
        f.write(f"/-! WorkQueue LTS — {g} obligations. Each `theorem` below is re-exported verbatim by TV/Properties/Cxx.lean. -/\n")
        f.write("namespace TV.WorkQueue\nopen TV.GoHeap\n\n")
        if g == "Live":
            f.write("/-- the progress measure (to be defined): every internal step must decrease it. -/\ndef phi (s : St) : Nat := sorry\n\n")
        f.write(f"namespace {g}\n\n")
        for prop, name, doc, stmt in items:
            f.write(f"theorem {name} :\n    {stmt.replace('{{','{').replace('}}','}')} := sorry\n\n")
        f.write(f"end {g}\nend TV.WorkQueue\n")
titles = {"C04":"WorkQueue runs every accepted work item exactly once","C05":"WorkQueue dispatches by priority, first-come-first-served among equals","C09":"WorkQueue honours its worker count and its queue length","C14":"WorkQueue reports every work error to every error subscriber exactly once","C16":"Dequeue and SetPriority act on exactly the identified work item","C19":"WorkQueue Stop and Break never crash, lose or resurrect work"}
extra = {
"C04": '''/-! non-vacuity: a run with a full queue and a blocked producer -/
example : ∃ s, runActs (init 1 1) [.enqueue 1 0 false, .recv 0, .take, .enqueue 1 1 false, .recv 1,
    .enqueue 1 2 false, .recv 2, .enqueue 1 3 false, .recv 3, .enqueue 1 4 false] = some s ∧
    s.disp = .fullWait ⟨3, 1, false, 3⟩ ∧ s.blocked.length = 1 ∧ s.started = [0] := by
  refine ⟨_, rfl, ?_⟩; decide
''',
"C05": '''/-! witness: the pinned comparator (priority only) is not first-come-first-served: `container/heap`
    over it pops three equal-priority items out of arrival order -/
theorem pinned_C05_not_fifo :
    let a : Item := ⟨0, 5, false, 0⟩; let b : Item := ⟨1, 5, false, 1⟩; let c : Item := ⟨2, 5, false, 2⟩
    let h := GoHeap.push lessPinned (GoHeap.push lessPinned (GoHeap.push lessPinned [] a) b) c
    ∃ r1 r2 x, GoHeap.pop lessPinned h = some (a, r1) ∧ GoHeap.pop lessPinned r1 = some (x, r2) ∧ x = c := by
  refine ⟨_, _, _, rfl, rfl, ?_⟩; decide

/-! non-vacuity: priorities 5,5,5,4,3 then 1 with W=1, L=3 (the design's scenario) start in priority order -/
example : ∃ s, runActs (init 1 3) [.enqueue 5 0 false, .recv 0, .take, .enqueue 5 1 false, .recv 1, .enqueue 5 2 false, .recv 2,
    .enqueue 4 3 false, .recv 3, .enqueue 3 4 false, .recv 4, .enqueue 1 5 false, .recv 5, .finish 0 false, .tokSendDone, .tok] = some s ∧
    s.disp = .handOff ⟨4, 3, false, 4⟩ (some ⟨5, 1, false, 5⟩) := by
  refine ⟨_, rfl, ?_⟩; decide
''',
"C19": '''/-! non-vacuity: Stop with an item executing runs the shutdown hand-shake to the end without panic -/
example : ∃ s, runActs (init 1 1) [.enqueue 1 0 false, .recv 0, .take, .stop, .ctxExit, .closeChan, .finish 0 false,
    .tokSendDone, .awaitTok, .workerExit, .allDone, .monExit] = some s ∧ s.disp = .exited ∧ s.panicked = false ∧ s.started = [0] := by
  refine ⟨_, rfl, ?_⟩; decide
''',
}
MONSOUND = {"C04": "\n/-! ### the model passes the monitor the driver applies to the implementation (no false alarm on a conforming implementation) -/\ntheorem C04_model_passes_monitor (W L : Nat) (s : St) (h : Reach W L s) :\n    Mon.atMostOnce (Driver.WQ.obsOf s) = true := MonSound.atMostOnce_sound h\n", "C09": "\n/-! ### the model passes the monitors the driver applies to the implementation\n\n`mstOf s` is the bookkeeping the driver has recorded from the script when the implementation has answered like\nthe model; `obsOf s` is the model's own observation. -/\ntheorem C09_model_passes_monitor_workers (W L : Nat) (s : St) (h : Reach W L s) :\n    Mon.workersOK (MonSound.mstOf s) (Driver.WQ.obsOf s) = true := MonSound.workersOK_sound h\n\n/-- (false for `L = 0`: the dispatcher then pops an empty queue — witness in TV/Proofs/MonitorWQ.lean.) -/\ntheorem C09_model_passes_monitor_work_conserving (W L : Nat) (s : St) (h : Reach W L s) (hL : 1 ≤ L) (hq : quiescent s) :\n    Mon.workConserving (MonSound.mstOf s) (Driver.WQ.obsOf s) = true := MonSound.workConserving_sound hL h hq\n\ntheorem C09_model_passes_monitor_backpressure (W L : Nat) (s : St) (h : Reach W L s) (hs : s.stopped = false) :\n    Mon.outstanding (MonSound.mstOf s) (Driver.WQ.obsOf s) ≤ (MonSound.mstOf s).Lmax + 2 * (MonSound.mstOf s).W + 1 :=\n  MonSound.backPressureUpper_sound h hs\n", "C14": "\n/-! ### the model passes the monitor the driver applies to the implementation -/\ntheorem C14_model_passes_monitor (W L : Nat) (s : St) (h : Reach W L s) :\n    Mon.errorsOK (MonSound.mstOf s) (Driver.WQ.obsOf s) = true := MonSound.errorsOK_sound h\n", "C16": "\n/-! ### the model passes the monitor the driver applies to the implementation -/\ntheorem C16_model_passes_monitor (W L : Nat) (s : St) (h : Reach W L s) :\n    Mon.dequeuedNeverStart (MonSound.mstOf s) (Driver.WQ.obsOf s) [] = true := MonSound.dequeuedNeverStart_sound h\n", "C19": "\n/-! ### the model passes the monitor the driver applies to the implementation: whatever starts after Stop or Break\n    was submitted before it (`s0.nextId` = ordinals issued when Stop/Break was called, as the driver records it) -/\ntheorem C19_model_passes_monitor (W L : Nat) (s0 s1 s : St) (a : Act) (h0 : Reach W L s0) (ha : a = .stop ∨ a = .break_)\n    (h1 : step? s0 a = some s1) (hsteps : MonSound.Steps s1 s) :\n    (Driver.WQ.obsOf s).started.all (· < s0.nextId) = true := MonSound.afterStop_at_stop_sound h0 ha h1 hsteps\n\n/-! ### Break after Stop: the drain loop reads `breaked` before every item -/\n\n/-- once Break has been called while the dispatcher is handing the remaining work to the workers (after an earlier Stop),\n    the item it is blocked on is still handed over, and everything behind it is skipped: it ends in `limbo` and never starts. -/\ntheorem C19_break_after_stop_skips_rest (W L : Nat) (hW : 1 ≤ W) (hL : 1 ≤ L) (s s' t : St) (it : Item) (rest : List Item)\n    (hr : Reach W L s) (hd : s.disp = .drain (it :: rest)) (hb : s.breaked = true)\n    (hs : step? s .drainSend = some s') (hsteps : MonSound.Steps s' t) :\n    s'.chan = s.chan ++ [it] ∧ s'.disp = .drain [] ∧\n    ∀ x ∈ rest, x.id ∈ t.limbo.map (·.id) ∧ x.id ∉ t.started :=\n  breakAfterStop_skips_rest W L hW hL s s' t it rest hr hd hb hs hsteps\n"}
imports = {"C04":["Safety","Live"],"C05":["Heap"],"C09":["Safety"],"C14":["Safety"],"C16":["Safety","Heap"],"C19":["Safety","Live"]}
for prop in titles:
    with open(f"{base}/Properties/{prop}.lean","w") as f:
        for g in imports[prop]:
            f.write(f"import TV.Proofs.WorkQueue{g}\n")
        if prop in MONSOUND:
            f.write("import TV.Proofs.MonitorWQ\n")
        f.write(f"/-!\n# {prop} — {titles[prop]}\n\nStatements are over the labelled transition system of TV/Model/WorkQueue.lean: every worker count\n`W ≥ 1`, queue length `L ≥ 1`, any number of producers, items and subscribers, any priorities,\nevery interleaving (`Reach`); Stop/Break/Dequeue/SetPriority injected at every position.\n-/\nnamespace TV.{prop}\nopen TV.WorkQueue TV.GoHeap\n\n")
        for g, items in T.items():
            for p2, name, doc, stmt in items:
                if p2 != prop: continue
                f.write(f"/-- {doc} -/\ntheorem {name} :\n    {stmt.replace('{{','{').replace('}}','}')} := {g}.{name}\n\n")
        f.write(extra.get(prop,""))
        f.write(MONSOUND.get(prop,""))
        f.write(f"\nend TV.{prop}\n")
print({g: len(v) for g,v in T.items()})
