#!/bin/sh
# Build the framework from files on disk only (offline).
set -e
cd "$(dirname "$0")"
export GOFLAGS=-mod=mod GOPROXY=off
unset GOTOOLCHAIN GOSUMDB || true
mkdir -p .work evidence replays harness/bin
(cd lean && lake build TV tvdriver)
cp /repo/go.sum harness/go.sum
(cd harness && for c in cmd/*; do n=$(basename $c); go build -tags verif -o bin/$n ./$c || go build -o bin/$n ./$c; done)
if [ -d harness/cmd/tvharness ]; then (cd harness && (go build -race -tags verif -o bin/tvharness-race ./cmd/tvharness || go build -race -o bin/tvharness-race ./cmd/tvharness)); fi
echo setup done
