import TV.Properties.C12
import TV.Properties.C20
