import TV.Properties.C01
import TV.Properties.C02
import TV.Properties.C03
import TV.Properties.C11
import TV.Properties.C12
import TV.Properties.C13
import TV.Properties.C20
