import TV.Properties.C12
