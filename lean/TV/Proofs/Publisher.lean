import TV.Model.Publisher
import TV.Proofs.PublisherStep
import TV.Proofs.PublisherReach
/-! Publication LTS — proof obligations. Each `theorem` below is re-exported verbatim by TV/Properties/C06, C10, C15.
Proofs: state-independent step lemmas in `PublisherStep`; the inductive invariant `Inv` in `PublisherInv` (parts in
`PublisherInvB/C/E`), its preservation in `PublisherInvStep`, and its consequences in `PublisherReach`. -/
namespace TV.Publisher
namespace Proofs

theorem C06_at_most_once :
    ∀ (s : St) (_ : Reach s), ((s.outcomes.map (fun o => (o.1, o.2.1))) ++ (s.pending.map (fun d => (d.uid, d.sub)))).Nodup :=
  R_at_most_once

theorem C06_only_published_and_accepted :
    ∀ (s : St) (_ : Reach s), (∀ o ∈ s.outcomes, o.2.2 = .sent → ∃ m x, (o.1, m) ∈ s.published ∧ getSub s o.2.1 = some x ∧ x.filter.accepts m = true) ∧
    (∀ d ∈ s.pending, (d.uid, d.msg) ∈ s.published ∧ ∃ x, getSub s d.sub = some x ∧ x.filter.accepts d.msg = true) ∧
    (∀ r ∈ s.received, ∃ uid, (uid, r.2) ∈ s.published ∧ (uid, r.1, Outcome.sent) ∈ s.outcomes) :=
  R_only_published_and_accepted

theorem C06_buffer_holds_sent :
    ∀ (s : St) (_ : Reach s), ∀ x ∈ s.subs, ∀ m ∈ x.buf, ∃ uid, (uid, m) ∈ s.published ∧ (uid, x.id, Outcome.sent) ∈ s.outcomes :=
  R_buffer_holds_sent

theorem C06_delivered_if_room :
    ∀ (s : St) (d : Delivery) (x : Sub), findDel s d.uid d.sub = some d → getSub s d.sub = some x → d.stage = .holding →
    x.chClosed = false → x.buf.length < x.cap → (step? s (.deliver d.uid d.sub)).isSome = true :=
  C06_delivered_if_room'

theorem C06_publish_reaches_every_subscriber :
    ∀ (s s' : St) (m : Nat), step? s (.publish m) = some s' → ∀ x ∈ s.subs, x.registered = true →
    (x.filter.accepts m = true ∧ ∃ d ∈ s'.pending, d.uid = s.nextUid ∧ d.sub = x.id ∧ d.msg = m) ∨
    (x.filter.accepts m = false ∧ (s.nextUid, x.id, Outcome.filtered) ∈ s'.outcomes) :=
  C06_publish_reaches_every_subscriber'

theorem C10_no_panic :
    ∀ (s : St) (_ : Reach s), s.panicked = false :=
  R_no_panic

theorem C10_closed_once :
    ∀ (s : St) (_ : Reach s), s.chCloses.Nodup ∧ ∀ x ∈ s.subs, (x.id ∈ s.chCloses ↔ x.chClosed = true) :=
  R_closed_once

theorem C10_close_completes :
    ∀ (s : St) (_ : Reach s), ∀ x ∈ s.subs, x.onceStarted = true → x.chClosed = false →
    (step? s (.closeFinish x.id)).isSome = true ∨ ∀ d ∈ holders s x.id, (step? s (.cancel d.uid d.sub)).isSome = true :=
  R_close_completes

theorem C10_buffered_stay_readable :
    (∀ (s : St) (x : Sub) (m : Nat) (rest : List Nat), getSub s x.id = some x → x.buf = m :: rest → (step? s (.receive x.id)).isSome = true) ∧
    (∀ (s s' : St) (k : Nat), step? s (.closeFinish k) = some s' → ∀ x ∈ s.subs, ∃ y ∈ s'.subs, y.id = x.id ∧ y.buf = x.buf) ∧
    (∀ (s s' : St) (k : Nat), step? s (.closeSub k) = some s' → ∀ x ∈ s.subs, ∃ y ∈ s'.subs, y.id = x.id ∧ y.buf = x.buf) :=
  C10_buffered_stay_readable'

theorem C10_nothing_after_close :
    ∀ (s : St) (_ : Reach s), ∀ x ∈ s.subs, x.chClosed = true → (holders s x.id = [] ∧ x.doneClosed = true ∧ x.onceStarted = true) :=
  R_nothing_after_close

theorem C10_others_unaffected :
    ∀ (s s' : St) (k : Nat) (a : Act), (a = .closeSub k ∨ a = .closeFinish k) → step? s a = some s' →
    (∀ j, j ≠ k → getSub s' j = getSub s j) ∧ s'.pending = s.pending ∧ s'.outcomes = s.outcomes ∧ s'.received = s.received :=
  C10_others_unaffected'

theorem C15_publish_never_blocks :
    ∀ (s : St) (m : Nat), (step? s (.publish m)).isSome = true :=
  C15_publish_never_blocks'

theorem C15_buffer_absorbs :
    ∀ (s : St) (_ : Reach s), ∀ x ∈ s.subs, x.buf.length ≤ x.cap :=
  R_buffer_absorbs

/-- stated over reachable states: without `Reach s` it is false (a duplicated pending delivery is dropped twice by `dropDel`);
see the `example` at the end of `PublisherStep`. -/
theorem C15_one_outcome_each :
    ∀ (s : St) (_ : Reach s) (s' : St) (a : Act), isInternal a = true → step? s a = some s' →
    (s'.pending = s.pending ∧ s'.outcomes = s.outcomes) ∨ (s'.pending.length = s.pending.length ∧ s'.outcomes = s.outcomes) ∨
    (s'.pending.length + 1 = s.pending.length ∧ s'.outcomes.length = s.outcomes.length + 1) ∨ s'.panicked = true :=
  R_one_outcome_each

theorem C15_timeout_own_and_not_early :
    (∀ (s s' : St) (uid sub : Nat) (x : Sub), step? s (.acquireR uid sub) = some s' → getSub s sub = some x →
      ∀ d, findDel s' uid sub = some d → d.stage = .holding → d.deadline = s.now + x.timeout) ∧
    (∀ (s s' : St) (uid sub : Nat), step? s (.timeout uid sub) = some s' → ∃ d, findDel s uid sub = some d ∧ d.deadline ≤ s.now) :=
  ⟨C15_timeout_own, C15_timeout_not_early⟩

theorem C15_callbacks_exactly_once :
    ∀ (s : St) (_ : Reach s), (s.callbacks.map (fun c => (c.1, c.2.1, c.2.2.1))).Nodup ∧
    (∀ c ∈ s.callbacks, (c.2.2.1, c.2.2.2) ∈ s.published ∧ (c.2.2.1, c.2.1, if c.1 then Outcome.timedOut else Outcome.filtered) ∈ s.outcomes ∧
        ∃ x, getSub s c.2.1 = some x ∧ (if c.1 then x.cbTimeout else x.cbFiltered) = true) ∧
    (∀ o ∈ s.outcomes, ∀ x m, getSub s o.2.1 = some x → (o.1, m) ∈ s.published →
        (o.2.2 = .timedOut → x.cbTimeout = true → (true, o.2.1, o.1, m) ∈ s.callbacks) ∧
        (o.2.2 = .filtered → x.cbFiltered = true → (false, o.2.1, o.1, m) ∈ s.callbacks)) :=
  R_callbacks_exactly_once

theorem C15_no_goroutine_left :
    ∀ (s : St) (_ : Reach s), quiescent s → ∀ d ∈ s.pending, ∃ x, getSub s d.sub = some x ∧ d.stage = .holding ∧ s.now < d.deadline ∧
    x.cap ≤ x.buf.length ∧ x.doneClosed = false :=
  R_no_goroutine_left

end Proofs
end TV.Publisher
