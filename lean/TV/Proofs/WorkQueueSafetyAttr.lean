import Lean
/-- simp set used to normalise the counting terms of the WorkQueue invariant -/
register_simp_attr wqs
