import TV.Model.FifoCache
/-! Structural invariant `WF` of the FIFO map cache model and helper lemmas. -/
namespace TV.FifoCache
set_option linter.unusedSectionVars false

variable {K V : Type} [DecidableEq K] [Inhabited V]

/-! ### association lists -/
section AL
variable {α β : Type} [DecidableEq α]

@[simp] theorem alKeys_nil : alKeys ([] : AL α β) = [] := rfl
@[simp] theorem alKeys_cons (a : α × β) (m : AL α β) : alKeys (a :: m) = a.1 :: alKeys m := rfl
@[simp] theorem alKeys_append (m m' : AL α β) : alKeys (m ++ m') = alKeys m ++ alKeys m' := by
  simp [alKeys]
@[simp] theorem alVals_nil : alVals ([] : AL α β) = [] := rfl
@[simp] theorem alVals_cons (a : α × β) (m : AL α β) : alVals (a :: m) = a.2 :: alVals m := rfl
@[simp] theorem length_alKeys (m : AL α β) : (alKeys m).length = m.length := by simp [alKeys]

theorem alGet?_eq_none_iff (m : AL α β) (k : α) : alGet? m k = none ↔ k ∉ alKeys m := by
  induction m with
  | nil => simp [alGet?]
  | cons a r ih => simp only [alGet?, alKeys_cons]; split <;> simp_all [eq_comm]

theorem alGet?_isSome_iff (m : AL α β) (k : α) : (alGet? m k).isSome = true ↔ k ∈ alKeys m := by
  have := alGet?_eq_none_iff m k
  cases h : alGet? m k <;> simp_all

theorem alHas_iff (m : AL α β) (k : α) : alHas m k = true ↔ k ∈ alKeys m := alGet?_isSome_iff m k

theorem mem_alKeys_of_alGet? {m : AL α β} {k : α} {v : β} (h : alGet? m k = some v) : k ∈ alKeys m := by
  rw [← alGet?_isSome_iff, h]; rfl

theorem alGet?_alSet_self (m : AL α β) (k : α) (v : β) : alGet? (alSet m k v) k = some v := by
  induction m with
  | nil => simp [alSet, alGet?]
  | cons a r ih => simp only [alSet]; split <;> simp_all [alGet?]

theorem alGet?_alSet_ne (m : AL α β) (k k' : α) (v : β) (h : k' ≠ k) :
    alGet? (alSet m k v) k' = alGet? m k' := by
  induction m with
  | nil => simp [alSet, alGet?, Ne.symm h]
  | cons a r ih => simp only [alSet]; split <;> simp_all [alGet?, Ne.symm h]

theorem alGet?_alErase_ne (m : AL α β) (k k' : α) (h : k' ≠ k) :
    alGet? (alErase m k) k' = alGet? m k' := by
  induction m with
  | nil => simp [alErase]
  | cons a r ih => simp only [alErase]; split <;> simp_all [alGet?, Ne.symm h]

theorem alErase_sublist (m : AL α β) (k : α) : (alErase m k).Sublist m := by
  induction m with
  | nil => simp [alErase]
  | cons a r ih => simp only [alErase]; split <;> simp_all

theorem alKeys_alErase_sublist (m : AL α β) (k : α) : (alKeys (alErase m k)).Sublist (alKeys m) :=
  (alErase_sublist m k).map _

theorem length_alErase_le (m : AL α β) (k : α) : (alErase m k).length ≤ m.length :=
  (alErase_sublist m k).length_le

theorem nodup_alKeys_alErase {m : AL α β} (k : α) (h : (alKeys m).Nodup) :
    (alKeys (alErase m k)).Nodup := h.sublist (alKeys_alErase_sublist m k)

theorem mem_alKeys_alErase {m : AL α β} (k k' : α) (h : (alKeys m).Nodup) :
    k' ∈ alKeys (alErase m k) ↔ k' ∈ alKeys m ∧ k' ≠ k := by
  induction m with
  | nil => simp [alErase]
  | cons a r ih =>
    simp only [alKeys_cons, List.nodup_cons] at h
    simp only [alErase]; split
    · simp only [alKeys_cons, List.mem_cons]; grind
    · simp only [alKeys_cons, List.mem_cons, ih h.2]; grind

theorem alGet?_alErase_self {m : AL α β} (k : α) (h : (alKeys m).Nodup) :
    alGet? (alErase m k) k = none := by
  rw [alGet?_eq_none_iff, mem_alKeys_alErase k k h]; simp

theorem alSet_of_mem_keys {m : AL α β} {k : α} (v : β) (h : k ∈ alKeys m) :
    alKeys (alSet m k v) = alKeys m := by
  induction m with
  | nil => simp at h
  | cons a r ih =>
    simp only [alSet]; split
    · simp_all
    · simp_all [eq_comm]

theorem alSet_of_not_mem {m : AL α β} {k : α} (v : β) (h : k ∉ alKeys m) :
    alSet m k v = m ++ [(k, v)] := by
  induction m with
  | nil => simp [alSet]
  | cons a r ih =>
    simp only [alSet]; split
    · simp_all
    · simp_all

theorem length_alSet_of_mem {m : AL α β} {k : α} (v : β) (h : k ∈ alKeys m) :
    (alSet m k v).length = m.length := by
  rw [← length_alKeys, alSet_of_mem_keys v h, length_alKeys]

theorem mem_alKeys_alSet (m : AL α β) (k k' : α) (v : β) :
    k' ∈ alKeys (alSet m k v) ↔ k' ∈ alKeys m ∨ k' = k := by
  by_cases h : k ∈ alKeys m
  · rw [alSet_of_mem_keys v h]; grind
  · rw [alSet_of_not_mem v h]; simp

theorem nodup_alKeys_alSet {m : AL α β} (k : α) (v : β) (h : (alKeys m).Nodup) :
    (alKeys (alSet m k v)).Nodup := by
  by_cases hk : k ∈ alKeys m
  · rw [alSet_of_mem_keys v hk]; exact h
  · rw [alSet_of_not_mem v hk]; simp only [alKeys_append, alKeys_cons, alKeys_nil]
    rw [List.nodup_append]; simp_all
    rintro a ha rfl; exact hk ha

theorem alVals_eq_map {γ : Type} [Inhabited γ] {m : AL α γ} (h : (alKeys m).Nodup) :
    alVals m = (alKeys m).map (fun k => (alGet? m k).getD default) := by
  induction m with
  | nil => rfl
  | cons a r ih =>
    simp only [alKeys_cons, List.nodup_cons] at h
    simp only [alVals_cons, alKeys_cons, List.map_cons, alGet?, if_true, Option.getD_some, ih h.2]
    congr 1
    apply List.map_congr_left
    intro k hk
    have : a.1 ≠ k := by rintro rfl; exact h.1 hk
    simp [this]

end AL

/-! ### partitions: `peek`, `updPart` -/

theorem peek_some {ps : List (Part K V)} {id : Nat} {p : Part K V} (h : peek ps id = some p) :
    p ∈ ps ∧ p.id = id := by
  induction ps with
  | nil => simp [peek] at h
  | cons q r ih =>
    simp only [peek] at h; split at h
    · simp_all
    · simp_all

theorem peek_eq_none_iff {ps : List (Part K V)} {id : Nat} :
    peek ps id = none ↔ ∀ p ∈ ps, p.id ≠ id := by
  induction ps with
  | nil => simp [peek]
  | cons q r ih => simp only [peek]; split <;> simp_all

theorem peek_of_mem {ps : List (Part K V)} {p : Part K V} (hnd : (ps.map (·.id)).Nodup) (hp : p ∈ ps) :
    peek ps p.id = some p := by
  induction ps with
  | nil => simp at hp
  | cons q r ih =>
    simp only [List.map_cons, List.nodup_cons, List.mem_map, not_exists, not_and] at hnd
    simp only [peek]
    rcases List.mem_cons.1 hp with rfl | hp
    · simp
    · have : q.id ≠ p.id := fun h => hnd.1 p hp h.symm
      simp [this, ih hnd.2 hp]

theorem peek_append_of_none {ps qs : List (Part K V)} {id : Nat} (h : peek ps id = none) :
    peek (ps ++ qs) id = peek qs id := by
  induction ps with
  | nil => rfl
  | cons q r ih => simp only [peek] at h; split at h <;> simp_all [peek]

theorem peek_append_of_some {ps qs : List (Part K V)} {id : Nat} {p : Part K V} (h : peek ps id = some p) :
    peek (ps ++ qs) id = some p := by
  induction ps with
  | nil => simp [peek] at h
  | cons q r ih => simp only [peek] at h; split at h <;> simp_all [peek]

@[simp] theorem ids_updPart (ps : List (Part K V)) (id : Nat) (f : AL K V → AL K V) :
    (updPart ps id f).map (·.id) = ps.map (·.id) := by
  induction ps with
  | nil => rfl
  | cons q r ih => simp only [updPart]; split <;> simp_all

@[simp] theorem length_updPart (ps : List (Part K V)) (id : Nat) (f : AL K V → AL K V) :
    (updPart ps id f).length = ps.length := by
  induction ps with
  | nil => rfl
  | cons q r ih => simp only [updPart]; split <;> simp_all

theorem updPart_eq_map {ps : List (Part K V)} (id : Nat) (f : AL K V → AL K V)
    (hnd : (ps.map (·.id)).Nodup) :
    updPart ps id f = ps.map (fun p => if p.id = id then { p with kv := f p.kv } else p) := by
  induction ps with
  | nil => rfl
  | cons q r ih =>
    simp only [List.map_cons, List.nodup_cons, List.mem_map, not_exists, not_and] at hnd
    simp only [updPart, List.map_cons]; split
    · next h =>
      congr 1
      symm
      rw [List.map_congr_left (g := fun p => p) ?_]
      · simp
      · intro p hp
        have : p.id ≠ id := fun h' => hnd.1 p hp (h'.trans h.symm)
        simp [this]
    · rw [ih hnd.2]

theorem mem_updPart {ps : List (Part K V)} (id : Nat) (f : AL K V → AL K V)
    (hnd : (ps.map (·.id)).Nodup) (p' : Part K V) :
    p' ∈ updPart ps id f ↔
      ∃ p ∈ ps, p'.id = p.id ∧ p'.kv = if p.id = id then f p.kv else p.kv := by
  rw [updPart_eq_map id f hnd, List.mem_map]
  constructor
  · rintro ⟨p, hp, rfl⟩; refine ⟨p, hp, ?_⟩; split <;> simp
  · rintro ⟨p, hp, h1, h2⟩; refine ⟨p, hp, ?_⟩
    cases p'; split <;> simp_all

/-! ### the structural invariant -/

/-- Structural invariant of the cache: the live partitions carry the consecutive ids
    `nextId + 1 - parts.length, …, nextId` (oldest first, so ids are strictly ascending, positive,
    `≤ nextId`, every id issued that is `≥` the oldest live id is live, and the current partition
    is the last one); partitions are duplicate-free and hold at most `pc` keys; the index points
    every stored key to its partition (I1) and a live partition contains every key the index
    sends to it (I2). -/
structure WF (c : Cache K V) : Prop where
  hn : 1 ≤ c.n
  hpc : 1 ≤ c.pc
  hcur : c.cur = c.nextId
  hlen : c.parts.length ≤ c.nextId
  hempty : c.parts = [] → c.nextId = 0
  hids : c.parts.map (·.id) = List.range' (c.nextId + 1 - c.parts.length) c.parts.length
  hnodup : ∀ p ∈ c.parts, (alKeys p.kv).Nodup
  hcap : ∀ p ∈ c.parts, p.kv.length ≤ c.pc
  hI1 : ∀ p ∈ c.parts, ∀ k ∈ alKeys p.kv, alGet? c.index k = some p.id
  hI2 : ∀ p ∈ c.parts, ∀ k, alGet? c.index k = some p.id → k ∈ alKeys p.kv
  hidx : (alKeys c.index).Nodup
  hidxle : ∀ k i, alGet? c.index k = some i → i ≤ c.nextId

namespace WF
variable {c : Cache K V}

theorem ids_nodup (h : WF c) : (c.parts.map (·.id)).Nodup := by
  rw [h.hids]; exact List.nodup_range'

theorem ids_pairwise (h : WF c) : (c.parts.map (·.id)).Pairwise (· < ·) := by
  rw [h.hids]; exact List.pairwise_lt_range'

/-- the live ids are exactly the interval `(nextId - parts.length, nextId]`. -/
theorem live_iff (h : WF c) (i : Nat) :
    (∃ p ∈ c.parts, p.id = i) ↔ c.nextId + 1 - c.parts.length ≤ i ∧ i ≤ c.nextId := by
  have : i ∈ c.parts.map (·.id) ↔ ∃ p ∈ c.parts, p.id = i := by simp
  rw [← this, h.hids, List.mem_range'_1]
  have := h.hlen
  omega

theorem id_bounds (h : WF c) {p : Part K V} (hp : p ∈ c.parts) : 0 < p.id ∧ p.id ≤ c.nextId := by
  have := (h.live_iff p.id).1 ⟨p, hp, rfl⟩
  have := h.hlen
  omega

theorem part_unique (h : WF c) {p q : Part K V} (hp : p ∈ c.parts) (hq : q ∈ c.parts)
    (hid : p.id = q.id) : p = q := by
  have := peek_of_mem h.ids_nodup hp
  have := peek_of_mem h.ids_nodup hq
  simp_all

theorem peek_iff (h : WF c) {id : Nat} {p : Part K V} :
    peek c.parts id = some p ↔ p ∈ c.parts ∧ p.id = id :=
  ⟨peek_some, fun ⟨hp, hid⟩ => hid ▸ peek_of_mem h.ids_nodup hp⟩

/-- the current partition exists as soon as there is any partition. -/
theorem cur_live (h : WF c) (hne : c.parts ≠ []) : ∃ p ∈ c.parts, p.id = c.cur := by
  rw [h.hcur, h.live_iff]
  have : 0 < c.parts.length := List.length_pos_iff.2 hne
  omega

theorem livePart_iff (h : WF c) {k : K} {p : Part K V} :
    livePart c k = some p ↔ p ∈ c.parts ∧ k ∈ alKeys p.kv := by
  unfold livePart
  constructor
  · intro hl
    split at hl
    · next pid hpid =>
      split at hl
      · obtain ⟨hp, rfl⟩ := peek_some hl
        exact ⟨hp, h.hI2 p hp k hpid⟩
      · simp at hl
    · simp at hl
  · rintro ⟨hp, hk⟩
    rw [h.hI1 p hp k hk]
    simp [(h.id_bounds hp).1, peek_of_mem h.ids_nodup hp]

theorem livePart_eq_none_iff (h : WF c) {k : K} :
    livePart c k = none ↔ ∀ p ∈ c.parts, k ∉ alKeys p.kv := by
  constructor
  · intro hl p hp hk
    rw [(h.livePart_iff).2 ⟨hp, hk⟩] at hl; simp at hl
  · intro hall
    cases hl : livePart c k with
    | none => rfl
    | some p => exact absurd (h.livePart_iff.1 hl).2 (hall p (h.livePart_iff.1 hl).1)

end WF

/-- the logical content: `k ↦ x` is stored in some live partition. -/
def Holds (c : Cache K V) (k : K) (x : V) : Prop := ∃ p ∈ c.parts, alGet? p.kv k = some x

theorem WF.contains_iff {c : Cache K V} (h : WF c) (k : K) :
    contains c k = true ↔ ∃ p ∈ c.parts, k ∈ alKeys p.kv := by
  unfold contains
  constructor
  · intro hc
    split at hc
    · next p hl => exact ⟨p, (h.livePart_iff.1 hl).1, (h.livePart_iff.1 hl).2⟩
    · simp at hc
  · rintro ⟨p, hp, hk⟩
    rw [h.livePart_iff.2 ⟨hp, hk⟩]
    exact (alHas_iff _ _).2 hk

theorem WF.contains_iff_holds {c : Cache K V} (h : WF c) (k : K) :
    contains c k = true ↔ ∃ x, Holds c k x := by
  rw [h.contains_iff]
  constructor
  · rintro ⟨p, hp, hk⟩
    cases hg : alGet? p.kv k with
    | none => exact absurd hk ((alGet?_eq_none_iff _ _).1 hg)
    | some x => exact ⟨x, p, hp, hg⟩
  · rintro ⟨x, p, hp, hg⟩
    exact ⟨p, hp, mem_alKeys_of_alGet? hg⟩

theorem WF.get_of_holds {c : Cache K V} (h : WF c) {k : K} {x : V} (hx : Holds c k x) :
    get c k = x := by
  obtain ⟨p, hp, hg⟩ := hx
  unfold get
  rw [h.livePart_iff.2 ⟨hp, mem_alKeys_of_alGet? hg⟩]
  simp [hg]

theorem WF.holds_get {c : Cache K V} (h : WF c) {k : K} (hc : contains c k = true) :
    Holds c k (get c k) := by
  obtain ⟨x, hx⟩ := (h.contains_iff_holds k).1 hc
  rwa [h.get_of_holds hx]

theorem get_absent (c : Cache K V) (k : K) (h : contains c k = false) : get c k = default := by
  unfold contains at h; unfold get
  split
  · next p hl =>
    rw [hl] at h
    simp only [alHas] at h
    cases hg : alGet? p.kv k <;> simp_all
  · rfl

/-- two well-formed caches that hold the same things answer `contains`/`get` alike. -/
theorem WF.same_of_holds {c c' : Cache K V} (h : WF c) (h' : WF c') (k : K)
    (hh : ∀ x, Holds c' k x ↔ Holds c k x) :
    contains c' k = contains c k ∧ get c' k = get c k := by
  by_cases hc : contains c k = true
  · have hx := h.holds_get hc
    have hx' := (hh _).2 hx
    have : contains c' k = true := (h'.contains_iff_holds k).2 ⟨_, hx'⟩
    exact ⟨by rw [this, hc], h'.get_of_holds hx'⟩
  · have hc' : ¬ contains c' k = true := by
      intro hc'
      obtain ⟨x, hx⟩ := (h'.contains_iff_holds k).1 hc'
      exact hc ((h.contains_iff_holds k).2 ⟨x, (hh x).1 hx⟩)
    simp only [Bool.not_eq_true] at hc hc'
    exact ⟨by rw [hc, hc'], by rw [get_absent _ _ hc, get_absent _ _ hc']⟩

/-! ### preservation of `WF` -/

theorem wf_init (n pc : Nat) (hn : 1 ≤ n) (hpc : 1 ≤ pc) : WF (init n pc : Cache K V) := by
  constructor <;> simp_all [init, alGet?]

theorem wf_fresh (n pc : Nat) (hn : 1 ≤ n) (hpc : 1 ≤ pc) : WF (fresh n pc : Cache K V) := by
  constructor <;> simp_all [fresh, alGet?]

theorem wf_sweep {c : Cache K V} (h : WF c) : WF (sweep c) := by
  have hsub : ∀ p, p ∈ (sweep c).parts → p ∈ c.parts := fun p hp => List.mem_of_mem_drop hp
  have hL := h.hlen
  have hn := h.hn
  constructor
  · exact h.hn
  · exact h.hpc
  · exact h.hcur
  · simp only [sweep, List.length_drop]; omega
  · intro he
    simp only [sweep, List.drop_eq_nil_iff] at he
    apply h.hempty
    apply List.eq_nil_of_length_eq_zero
    omega
  · simp only [sweep, List.map_drop, h.hids, List.drop_range', List.length_drop]
    congr 1; omega
  · exact fun p hp => h.hnodup p (hsub p hp)
  · exact fun p hp => h.hcap p (hsub p hp)
  · exact fun p hp => h.hI1 p (hsub p hp)
  · exact fun p hp => h.hI2 p (hsub p hp)
  · exact h.hidx
  · exact h.hidxle

theorem wf_openPart {c : Cache K V} (h : WF c) : WF (openPart c) := by
  have hL := h.hlen
  constructor
  · exact h.hn
  · exact h.hpc
  · rfl
  · simp only [openPart, List.length_append, List.length_cons, List.length_nil]; omega
  · simp [openPart]
  · simp only [openPart, List.map_append, List.map_cons, List.map_nil, List.length_append,
      List.length_cons, List.length_nil, h.hids]
    rw [show c.nextId + 1 + 1 - (c.parts.length + (0 + 1)) = c.nextId + 1 - c.parts.length by omega,
      show c.parts.length + (0 + 1) = c.parts.length + 1 by omega, List.range'_concat]
    congr 2; omega
  · intro p hp
    simp only [openPart, List.mem_append, List.mem_singleton] at hp
    rcases hp with hp | rfl
    · exact h.hnodup p hp
    · simp
  · intro p hp
    simp only [openPart, List.mem_append, List.mem_singleton] at hp
    rcases hp with hp | rfl
    · exact h.hcap p hp
    · simp
  · intro p hp
    simp only [openPart, List.mem_append, List.mem_singleton] at hp
    rcases hp with hp | rfl
    · exact h.hI1 p hp
    · simp
  · intro p hp k hk
    simp only [openPart, List.mem_append, List.mem_singleton] at hp
    rcases hp with hp | rfl
    · exact h.hI2 p hp k hk
    · have := h.hidxle k _ hk
      simp only at this; omega
  · exact h.hidx
  · intro k i hk
    have := h.hidxle k i hk
    simp only [openPart]; omega

/-- updating one partition with a key-set-preserving function. -/
theorem wf_updSame {c : Cache K V} (h : WF c) (id : Nat) (f : AL K V → AL K V)
    (hf : ∀ p ∈ c.parts, p.id = id → alKeys (f p.kv) = alKeys p.kv) :
    WF { c with parts := updPart c.parts id f } := by
  have hkeys : ∀ p' ∈ updPart c.parts id f, ∃ p ∈ c.parts, p'.id = p.id ∧ alKeys p'.kv = alKeys p.kv := by
    intro p' hp'
    obtain ⟨p, hp, h1, h2⟩ := (mem_updPart id f h.ids_nodup p').1 hp'
    refine ⟨p, hp, h1, ?_⟩
    rw [h2]; split
    · next hid => exact hf p hp hid
    · rfl
  constructor
  · exact h.hn
  · exact h.hpc
  · exact h.hcur
  · simpa using h.hlen
  · intro he
    apply h.hempty
    apply List.eq_nil_of_length_eq_zero
    simpa using congrArg List.length he
  · simpa using h.hids
  · intro p' hp'
    obtain ⟨p, hp, _, h2⟩ := hkeys p' hp'
    rw [h2]; exact h.hnodup p hp
  · intro p' hp'
    obtain ⟨p, hp, _, h2⟩ := hkeys p' hp'
    have := h.hcap p hp
    rw [← length_alKeys, h2, length_alKeys]; exact this
  · intro p' hp' k hk
    obtain ⟨p, hp, h1, h2⟩ := hkeys p' hp'
    rw [h1]; exact h.hI1 p hp k (h2 ▸ hk)
  · intro p' hp' k hk
    obtain ⟨p, hp, h1, h2⟩ := hkeys p' hp'
    rw [h2]; exact h.hI2 p hp k (h1 ▸ hk)
  · exact h.hidx
  · exact h.hidxle

/-- the insertion branch of `set`, after `curPart` made room. -/
def insertCur (c : Cache K V) (k : K) (v : V) : Cache K V :=
  { c with parts := updPart c.parts c.cur (fun m => alSet m k v), index := alSet c.index k c.cur }

theorem set_of_live {c : Cache K V} {k : K} {p : Part K V} (hl : livePart c k = some p) (v : V) :
    set c k v = { c with parts := updPart c.parts p.id (fun m => alSet m k v) } := by
  simp [set, hl]

theorem set_of_absent {c : Cache K V} {k : K} (hl : livePart c k = none) (v : V) :
    set c k v = insertCur (curPart c) k v := by
  simp [set, hl, insertCur]

/-- "the current partition exists and has room". -/
def Room (c : Cache K V) : Prop := ∃ p ∈ c.parts, p.id = c.cur ∧ p.kv.length < c.pc

theorem curPart_cases {c : Cache K V} (h : WF c) :
    (curPart c = c ∧ Room c) ∨
    (curPart c = openPart c ∧ (c.parts = [] ∨ ∃ p ∈ c.parts, p.id = c.cur ∧ p.kv.length = c.pc)) := by
  unfold curPart
  split
  · next p hp =>
    obtain ⟨hp, hid⟩ := peek_some hp
    split
    · next hlt => exact .inl ⟨rfl, p, hp, hid, hlt⟩
    · next hlt =>
      have := h.hcap p hp
      exact .inr ⟨rfl, .inr ⟨p, hp, hid, by omega⟩⟩
  · next hp =>
    refine .inr ⟨rfl, .inl ?_⟩
    by_cases hne : c.parts = []
    · exact hne
    · obtain ⟨p, hp', hid⟩ := h.cur_live hne
      exact absurd hid (peek_eq_none_iff.1 hp p hp')

theorem room_openPart {c : Cache K V} (h : WF c) : Room (openPart c) :=
  ⟨⟨c.nextId + 1, []⟩, by simp [openPart], rfl, h.hpc⟩

theorem wf_curPart {c : Cache K V} (h : WF c) : WF (curPart c) := by
  rcases curPart_cases h with ⟨e, _⟩ | ⟨e, _⟩ <;> rw [e]
  · exact h
  · exact wf_openPart h

theorem room_curPart {c : Cache K V} (h : WF c) : Room (curPart c) := by
  rcases curPart_cases h with ⟨e, hr⟩ | ⟨e, _⟩ <;> rw [e]
  · exact hr
  · exact room_openPart h

theorem livePart_openPart {c : Cache K V} (h : WF c) (k : K) : livePart (openPart c) k = livePart c k := by
  unfold livePart
  show (match alGet? c.index k with
    | some pid => if 0 < pid then peek (c.parts ++ [(⟨c.nextId + 1, []⟩ : Part K V)]) pid else none
    | none => none) = _
  cases hi : alGet? c.index k with
  | none => rfl
  | some pid =>
    have hle := h.hidxle k pid hi
    simp only
    split
    · cases hp : peek c.parts pid with
      | some p => exact peek_append_of_some hp
      | none =>
        rw [peek_append_of_none hp]
        have : c.nextId + 1 ≠ pid := by omega
        simp [peek, this]
    · rfl

theorem livePart_curPart {c : Cache K V} (h : WF c) (k : K) : livePart (curPart c) k = livePart c k := by
  rcases curPart_cases h with ⟨e, _⟩ | ⟨e, _⟩ <;> rw [e]
  exact livePart_openPart h k

theorem wf_insertCur {c : Cache K V} (h : WF c) {k : K} (hl : livePart c k = none) (hr : Room c)
    (v : V) : WF (insertCur c k v) := by
  obtain ⟨q, hq, hqid, hqlen⟩ := hr
  have habs := h.livePart_eq_none_iff.1 hl
  have hmem := mem_updPart c.cur (fun m => alSet m k v) h.ids_nodup
  constructor
  · exact h.hn
  · exact h.hpc
  · exact h.hcur
  · simpa [insertCur] using h.hlen
  · intro he
    apply h.hempty
    apply List.eq_nil_of_length_eq_zero
    simpa [insertCur] using congrArg List.length he
  · simpa [insertCur] using h.hids
  · intro p' hp'
    obtain ⟨p, hp, _, h2⟩ := (hmem p').1 hp'
    rw [h2]; split
    · exact nodup_alKeys_alSet k v (h.hnodup p hp)
    · exact h.hnodup p hp
  · intro p' hp'
    obtain ⟨p, hp, _, h2⟩ := (hmem p').1 hp'
    rw [h2]; split
    · next hid =>
      have : p = q := h.part_unique hp hq (hid.trans hqid.symm)
      subst this
      rw [alSet_of_not_mem v (habs p hp)]
      simp only [List.length_append, List.length_cons, List.length_nil]
      show p.kv.length + 1 ≤ c.pc
      omega
    · exact h.hcap p hp
  · intro p' hp' k2 hk2
    obtain ⟨p, hp, h1, h2⟩ := (hmem p').1 hp'
    show alGet? (alSet c.index k c.cur) k2 = some p'.id
    rw [h2] at hk2
    by_cases hkk : k2 = k
    · subst hkk
      split at hk2
      · next hid => rw [alGet?_alSet_self, h1, hid]
      · exact absurd hk2 (habs p hp)
    · rw [alGet?_alSet_ne _ _ _ _ hkk, h1]
      apply h.hI1 p hp
      split at hk2
      · rcases (mem_alKeys_alSet _ _ _ _).1 hk2 with h' | h'
        · exact h'
        · exact absurd h' hkk
      · exact hk2
  · intro p' hp' k2 hk2
    obtain ⟨p, hp, h1, h2⟩ := (hmem p').1 hp'
    change alGet? (alSet c.index k c.cur) k2 = some p'.id at hk2
    rw [h2]
    by_cases hkk : k2 = k
    · subst hkk
      rw [alGet?_alSet_self, h1] at hk2
      have : p.id = c.cur := by simpa using hk2.symm
      simp [this, mem_alKeys_alSet]
    · rw [alGet?_alSet_ne _ _ _ _ hkk, h1] at hk2
      have := h.hI2 p hp k2 hk2
      split
      · exact (mem_alKeys_alSet _ _ _ _).2 (.inl this)
      · exact this
  · exact nodup_alKeys_alSet _ _ h.hidx
  · intro k2 i hk2
    change alGet? (alSet c.index k c.cur) k2 = some i at hk2
    show i ≤ c.nextId
    by_cases hkk : k2 = k
    · subst hkk
      rw [alGet?_alSet_self] at hk2
      have := h.hcur
      simp at hk2; omega
    · rw [alGet?_alSet_ne _ _ _ _ hkk] at hk2
      exact h.hidxle k2 i hk2

theorem wf_set {c : Cache K V} (h : WF c) (k : K) (v : V) : WF (set c k v) := by
  cases hl : livePart c k with
  | some p =>
    rw [set_of_live hl]
    obtain ⟨hp, hk⟩ := h.livePart_iff.1 hl
    apply wf_updSame h
    intro q hq hid
    have : q = p := h.part_unique hq hp hid
    subst this
    exact alSet_of_mem_keys v hk
  | none =>
    rw [set_of_absent hl]
    exact wf_insertCur (wf_curPart h) ((livePart_curPart h k).trans hl) (room_curPart h) v

theorem wf_delete {c : Cache K V} (h : WF c) (k : K) : WF (delete c k) := by
  unfold delete
  split
  · next pid hpid =>
    split
    · have hmem := mem_updPart pid (fun m => alErase m k) h.ids_nodup
      have hk : alGet? (alErase c.index k) k = none := alGet?_alErase_self k h.hidx
      constructor
      · exact h.hn
      · exact h.hpc
      · exact h.hcur
      · simpa using h.hlen
      · intro he
        apply h.hempty
        apply List.eq_nil_of_length_eq_zero
        simpa using congrArg List.length he
      · simpa using h.hids
      · intro p' hp'
        obtain ⟨p, hp, _, h2⟩ := (hmem p').1 hp'
        rw [h2]; split
        · exact nodup_alKeys_alErase k (h.hnodup p hp)
        · exact h.hnodup p hp
      · intro p' hp'
        obtain ⟨p, hp, _, h2⟩ := (hmem p').1 hp'
        have := h.hcap p hp
        have := length_alErase_le p.kv k
        rw [h2]; split
        · show (alErase p.kv k).length ≤ c.pc; omega
        · assumption
      · intro p' hp' k2 hk2
        obtain ⟨p, hp, h1, h2⟩ := (hmem p').1 hp'
        show alGet? (alErase c.index k) k2 = some p'.id
        rw [h2] at hk2
        have hkk : k2 ≠ k ∧ k2 ∈ alKeys p.kv := by
          split at hk2
          · have := (mem_alKeys_alErase k k2 (h.hnodup p hp)).1 hk2
            exact ⟨this.2, this.1⟩
          · next hid =>
            refine ⟨?_, hk2⟩
            rintro rfl
            have := h.hI1 p hp k2 hk2
            rw [hpid] at this
            exact hid (by simpa using this.symm)
        rw [alGet?_alErase_ne _ _ _ hkk.1, h1]
        exact h.hI1 p hp k2 hkk.2
      · intro p' hp' k2 hk2
        obtain ⟨p, hp, h1, h2⟩ := (hmem p').1 hp'
        change alGet? (alErase c.index k) k2 = some p'.id at hk2
        have hkk : k2 ≠ k := by
          rintro rfl; rw [hk] at hk2; simp at hk2
        rw [alGet?_alErase_ne _ _ _ hkk, h1] at hk2
        have := h.hI2 p hp k2 hk2
        rw [h2]; split
        · exact (mem_alKeys_alErase k k2 (h.hnodup p hp)).2 ⟨this, hkk⟩
        · exact this
      · exact nodup_alKeys_alErase k h.hidx
      · intro k2 i hk2
        change alGet? (alErase c.index k) k2 = some i at hk2
        show i ≤ c.nextId
        by_cases hkk : k2 = k
        · subst hkk; rw [hk] at hk2; simp at hk2
        · rw [alGet?_alErase_ne _ _ _ hkk] at hk2
          exact h.hidxle k2 i hk2
    · exact h
  · exact h

theorem wf_clear {c : Cache K V} (h : WF c) : WF (clear c) := wf_fresh _ _ h.hn h.hpc

/-! ### how the operations change the logical content -/

theorem exists_updPart_ne (ps : List (Part K V)) (id : Nat) (f : AL K V → AL K V) (k' : K) (x : V)
    (hf : ∀ m, alGet? (f m) k' = alGet? m k') :
    (∃ p' ∈ updPart ps id f, alGet? p'.kv k' = some x) ↔ (∃ p ∈ ps, alGet? p.kv k' = some x) := by
  induction ps with
  | nil => simp [updPart]
  | cons q r ih =>
    simp only [updPart]; split
    · simp [hf]
    · simp only [List.mem_cons, exists_eq_or_imp, ih]

theorem mem_updPart_self {ps : List (Part K V)} {p : Part K V} (f : AL K V → AL K V)
    (hnd : (ps.map (·.id)).Nodup) (hp : p ∈ ps) : { p with kv := f p.kv } ∈ updPart ps p.id f :=
  (mem_updPart p.id f hnd _).2 ⟨p, hp, rfl, by simp⟩

theorem holds_openPart (c : Cache K V) (k : K) (x : V) : Holds (openPart c) k x ↔ Holds c k x := by
  simp [Holds, openPart, alGet?]

theorem holds_curPart {c : Cache K V} (h : WF c) (k : K) (x : V) : Holds (curPart c) k x ↔ Holds c k x := by
  rcases curPart_cases h with ⟨e, _⟩ | ⟨e, _⟩ <;> rw [e]
  exact holds_openPart c k x

theorem holds_set_self {c : Cache K V} (h : WF c) (k : K) (v : V) : Holds (set c k v) k v := by
  cases hl : livePart c k with
  | some p =>
    rw [set_of_live hl]
    obtain ⟨hp, hk⟩ := h.livePart_iff.1 hl
    exact ⟨_, mem_updPart_self (fun m => alSet m k v) h.ids_nodup hp, alGet?_alSet_self _ _ _⟩
  | none =>
    rw [set_of_absent hl]
    obtain ⟨q, hq, hqid, _⟩ := room_curPart h
    have := mem_updPart_self (fun m => alSet m k v) (wf_curPart h).ids_nodup hq
    rw [hqid] at this
    exact ⟨_, this, alGet?_alSet_self _ _ _⟩

theorem holds_set_ne {c : Cache K V} (h : WF c) (k k' : K) (v x : V) (hne : k' ≠ k) :
    Holds (set c k v) k' x ↔ Holds c k' x := by
  cases hl : livePart c k with
  | some p =>
    rw [set_of_live hl]
    exact exists_updPart_ne _ _ _ _ _ (fun m => alGet?_alSet_ne m k k' v hne)
  | none =>
    rw [set_of_absent hl, ← holds_curPart h]
    exact exists_updPart_ne _ _ _ _ _ (fun m => alGet?_alSet_ne m k k' v hne)

theorem holds_delete_ne (c : Cache K V) (k k' : K) (x : V) (hne : k' ≠ k) :
    Holds (delete c k) k' x ↔ Holds c k' x := by
  unfold delete
  split
  · split
    · exact exists_updPart_ne _ _ _ _ _ (fun m => alGet?_alErase_ne m k k' hne)
    · rfl
  · rfl

theorem contains_delete_self {c : Cache K V} (h : WF c) (k : K) : contains (delete c k) k = false := by
  have hlp : livePart (delete c k) k = none := by
    unfold delete
    split
    · next pid hpid =>
      split
      · simp only [livePart, alGet?_alErase_self k h.hidx]
      · next hpos => simp [livePart, hpid, hpos]
    · next hnone => simp [livePart, hnone]
  simp [contains, hlp]

theorem holds_sweep {c : Cache K V} {k : K} {x : V} (hs : Holds (sweep c) k x) : Holds c k x := by
  obtain ⟨p, hp, hg⟩ := hs
  exact ⟨p, List.mem_of_mem_drop hp, hg⟩

theorem not_holds_fresh (n pc : Nat) (k : K) (x : V) : ¬ Holds (fresh n pc : Cache K V) k x := by
  simp [Holds, fresh, alGet?]

theorem contains_fresh (n pc : Nat) (k : K) : contains (fresh n pc : Cache K V) k = false := by
  simp [contains, livePart, fresh, alGet?]

/-! ### the four views -/

theorem mem_keys_iff (c : Cache K V) (k : K) : k ∈ keys c ↔ ∃ p ∈ c.parts, k ∈ alKeys p.kv := by
  simp [keys, List.mem_flatMap]

theorem WF.contains_iff_mem_keys {c : Cache K V} (h : WF c) (k : K) :
    contains c k = true ↔ k ∈ keys c := by
  rw [h.contains_iff, mem_keys_iff]

theorem nodup_flatMap_keys (ps : List (Part K V)) (h1 : ∀ p ∈ ps, (alKeys p.kv).Nodup)
    (h2 : (ps.map (·.id)).Nodup)
    (h3 : ∀ p ∈ ps, ∀ q ∈ ps, ∀ k, k ∈ alKeys p.kv → k ∈ alKeys q.kv → p.id = q.id) :
    (ps.flatMap (fun p => alKeys p.kv)).Nodup := by
  induction ps with
  | nil => simp
  | cons a r ih =>
    simp only [List.flatMap_cons, List.nodup_append, List.mem_flatMap]
    simp only [List.map_cons, List.nodup_cons, List.mem_map, not_exists, not_and] at h2
    refine ⟨h1 a (by simp), ih (fun p hp => h1 p (by simp [hp])) h2.2
      (fun p hp q hq => h3 p (by simp [hp]) q (by simp [hq])), ?_⟩
    rintro k hk _ ⟨q, hq, hkq⟩ rfl
    exact h2.1 q hq (h3 a (by simp) q (by simp [hq]) k hk hkq).symm

theorem WF.nodup_keys {c : Cache K V} (h : WF c) : (keys c).Nodup := by
  apply nodup_flatMap_keys _ h.hnodup h.ids_nodup
  intro p hp q hq k hkp hkq
  have := h.hI1 p hp k hkp
  have := h.hI1 q hq k hkq
  simp_all

theorem flatMap_congr' {α β : Type} {l : List α} {f g : α → List β} (h : ∀ a ∈ l, f a = g a) :
    l.flatMap f = l.flatMap g := by
  induction l with
  | nil => rfl
  | cons a r ih =>
    simp only [List.flatMap_cons, h a (by simp), ih (fun b hb => h b (by simp [hb]))]

theorem WF.values_eq {c : Cache K V} (h : WF c) : values c = (keys c).map (get c) := by
  unfold values keys
  rw [List.map_flatMap]
  apply flatMap_congr'
  intro p hp
  rw [alVals_eq_map (h.hnodup p hp)]
  apply List.map_congr_left
  intro k hk
  unfold get
  rw [h.livePart_iff.2 ⟨hp, hk⟩]

theorem WF.len_le {c : Cache K V} (h : WF c) (hs : c.parts.length ≤ c.n) : len c ≤ capacity c := by
  unfold len keys capacity
  have : ∀ (ps : List (Part K V)), (∀ p ∈ ps, p.kv.length ≤ c.pc) →
      (ps.flatMap (fun p => alKeys p.kv)).length ≤ ps.length * c.pc := by
    intro ps hps
    induction ps with
    | nil => simp
    | cons a r ih =>
      have h1 := hps a (by simp)
      have h2 := ih (fun p hp => hps p (by simp [hp]))
      simp only [List.flatMap_cons, List.length_append, length_alKeys, List.length_cons,
        Nat.add_mul, Nat.one_mul]
      omega
  calc _ ≤ c.parts.length * c.pc := this _ h.hcap
    _ ≤ c.n * c.pc := Nat.mul_le_mul_right _ hs

theorem length_sweep_le (c : Cache K V) : (sweep c).parts.length ≤ (sweep c).n := by
  simp only [sweep, List.length_drop]; omega

/-! ### `run` preserves `WF` -/

theorem wf_replay_set {old : Cache K V} (ks : List K) {c : Cache K V} (h : WF c) :
    WF (ks.foldl (fun c k => set c k (get old k)) c) := by
  induction ks generalizing c with
  | nil => exact h
  | cons k r ih => exact ih (wf_set h k _)

theorem wf_replayPart {old : Cache K V} (ks : List K) {c : Cache K V} (h : WF c) :
    WF (replayPart old c ks) := wf_sweep (wf_replay_set ks h)

theorem wf_replay {old : Cache K V} (order : List (List K)) {c : Cache K V} (h : WF c) :
    WF (order.foldl (replayPart old) c) := by
  induction order generalizing c with
  | nil => exact h
  | cons ks r ih => exact ih (wf_replayPart ks h)

theorem wf_resize {c : Cache K V} (h : WF c) (n' pc' : Nat) (hn : 1 ≤ n') (hpc : 1 ≤ pc')
    (o : List (List K)) : WF (resize c n' pc' o) := by
  unfold resize; split
  · exact wf_replay o (wf_fresh n' pc' hn hpc)
  · exact h

theorem wf_step {c : Cache K V} (h : WF c) (o : Op K V) (hok : opOK c o) : WF (step c o).1 := by
  cases o with
  | set k v => exact wf_set h k v
  | delete k => exact wf_delete h k
  | sweep => exact wf_sweep h
  | clear => exact wf_clear h
  | resize n' pc' ord => exact wf_resize h n' pc' hok.1 hok.2.1 ord
  | _ => exact h

theorem wf_run {c : Cache K V} (h : WF c) (ops : List (Op K V)) (hok : OpsOK c ops) : WF (run c ops) := by
  induction ops generalizing c with
  | nil => exact h
  | cons o r ih => exact ih (wf_step h o hok.1) hok.2

/-! ### replay (`resize`) -/

theorem validOrderL_perm {ps : List (Part K V)} {order : List (List K)} (h : validOrderL ps order) :
    order.flatten.Perm (ps.flatMap (fun p => alKeys p.kv)) := by
  induction ps generalizing order with
  | nil => cases order <;> simp_all [validOrderL]
  | cons p r ih =>
    cases order with
    | nil => simp [validOrderL] at h
    | cons ks o =>
      simp only [validOrderL] at h
      simp only [List.flatten_cons, List.flatMap_cons]
      exact h.1.append (ih h.2)

theorem validOrder_perm {c : Cache K V} {order : List (List K)} (h : validOrder c order) :
    order.flatten.Perm (keys c) := validOrderL_perm h

/-- induction principle for the replay: `P c d` relates the cache built so far to the list `d` of
    keys replayed so far; `all` is the complete replay sequence. -/
theorem replay_induct (old : Cache K V) (all : List K) (P : Cache K V → List K → Prop)
    (hset : ∀ c d k rest, d ++ k :: rest = all → P c d → P (set c k (get old k)) (d ++ [k]))
    (hsweep : ∀ c d rest, d ++ rest = all → P c d → P (sweep c) d) :
    ∀ (order : List (List K)) (c : Cache K V) (d : List K), d ++ order.flatten = all → P c d →
      P (order.foldl (replayPart old) c) all := by
  have inner : ∀ (ks : List K) (c : Cache K V) (d rest : List K), d ++ (ks ++ rest) = all → P c d →
      P (ks.foldl (fun c k => set c k (get old k)) c) (d ++ ks) := by
    intro ks
    induction ks with
    | nil => intro c d rest _ hp; simpa using hp
    | cons k r ih =>
      intro c d rest hall hp
      have := ih (set c k (get old k)) (d ++ [k]) rest (by simpa using hall)
        (hset c d k (r ++ rest) (by simpa using hall) hp)
      simpa using this
  intro order
  induction order with
  | nil => intro c d hall hp; simp at hall; subst hall; exact hp
  | cons ks r ih =>
    intro c d hall hp
    simp only [List.flatten_cons] at hall
    simp only [List.foldl_cons]
    apply ih _ (d ++ ks) (by simpa using hall)
    exact hsweep _ _ r.flatten (by simpa using hall) (inner ks c d r.flatten hall hp)

theorem holds_functional {c : Cache K V} (h : WF c) {k : K} {x y : V} (hx : Holds c k x)
    (hy : Holds c k y) : x = y := by
  rw [← h.get_of_holds hx, ← h.get_of_holds hy]

theorem resize_holds {c : Cache K V} (h : WF c) (n' pc' : Nat) (hn : 1 ≤ n') (hpc : 1 ≤ pc')
    (o : List (List K)) (ho : validOrder c o) (k : K) (x : V) :
    Holds (resize c n' pc' o) k x → Holds c k x := by
  unfold resize; split
  · have key := replay_induct c o.flatten (fun c' _ => WF c' ∧ ∀ k x, Holds c' k x → Holds c k x)
      (by
        rintro c' d k1 rest hall ⟨hw, hh⟩
        refine ⟨wf_set hw _ _, fun k2 x2 h2 => ?_⟩
        by_cases hkk : k2 = k1
        · subst hkk
          have := holds_functional (wf_set hw k2 (get c k2)) h2 (holds_set_self hw k2 _)
          subst this
          apply h.holds_get
          rw [h.contains_iff_mem_keys, ← (validOrder_perm ho).mem_iff, ← hall]
          simp
        · exact hh _ _ ((holds_set_ne hw k1 k2 _ _ hkk).1 h2))
      (by
        rintro c' d rest _ ⟨hw, hh⟩
        exact ⟨wf_sweep hw, fun k x hx => hh k x (holds_sweep hx)⟩)
      o (fresh n' pc') [] rfl ⟨wf_fresh n' pc' hn hpc, fun k x hx => absurd hx (not_holds_fresh _ _ _ _)⟩
    exact key.2 k x
  · exact id

theorem resize_survivors {c : Cache K V} (h : WF c) (n' pc' : Nat) (hn : 1 ≤ n') (hpc : 1 ≤ pc')
    (o : List (List K)) (ho : validOrder c o) (k : K)
    (hc : contains (resize c n' pc' o) k = true) :
    contains c k = true ∧ get (resize c n' pc' o) k = get c k := by
  have hw := wf_resize h n' pc' hn hpc o
  have := resize_holds h n' pc' hn hpc o ho k _ (hw.holds_get hc)
  exact ⟨(h.contains_iff_holds k).2 ⟨_, this⟩, (h.get_of_holds this).symm⟩

/-! ### derived facts used by the property files -/

theorem sweep_eq_self {c : Cache K V} (h : c.parts.length ≤ c.n) : sweep c = c := by
  simp [sweep, Nat.sub_eq_zero_of_le h]

/-- the current partition survives a sweep. -/
theorem cur_mem_sweep {c : Cache K V} (h : WF c) {p : Part K V} (hp : p ∈ c.parts) (hid : p.id = c.cur) :
    p ∈ (sweep c).parts := by
  have hw := wf_sweep h
  have hne : (sweep c).parts ≠ [] := by
    intro he
    have h0 : c.nextId = 0 := hw.hempty he
    have := h.id_bounds hp
    omega
  obtain ⟨q, hq, hqid⟩ := hw.cur_live hne
  have : q = p := h.part_unique (List.mem_of_mem_drop hq) hp (hqid.trans hid.symm)
  exact this ▸ hq

theorem n_set (c : Cache K V) (k : K) (v : V) : (set c k v).n = c.n ∧ (set c k v).pc = c.pc := by
  unfold set curPart
  split
  · exact ⟨rfl, rfl⟩
  · simp only; split
    · split <;> exact ⟨rfl, rfl⟩
    · exact ⟨rfl, rfl⟩

theorem length_set_le (c : Cache K V) (k : K) (v : V) : (set c k v).parts.length ≤ c.parts.length + 1 := by
  unfold set curPart
  split
  · simp
  · simp only; split
    · split <;> simp [openPart]
    · simp [openPart]

theorem holds_sweep_set {c : Cache K V} (h : WF c) (hs : c.parts.length ≤ c.n) (k : K) (v : V) :
    Holds (sweep (set c k v)) k v := by
  have hw := wf_set h k v
  cases hl : livePart c k with
  | some p =>
    have : sweep (set c k v) = set c k v := by
      apply sweep_eq_self
      rw [(n_set c k v).1, set_of_live hl]
      simpa using hs
    rw [this]; exact holds_set_self h k v
  | none =>
    obtain ⟨p, hp, hg⟩ := holds_set_self h k v
    refine ⟨p, cur_mem_sweep hw hp ?_, hg⟩
    have h1 := hw.hI1 p hp k (mem_alKeys_of_alGet? hg)
    rw [set_of_absent hl] at h1 ⊢
    simp only [insertCur, alGet?_alSet_self] at h1
    simpa [insertCur] using h1.symm

theorem forget_of_holds {c c' : Cache K V} (h : WF c) (h' : WF c') (k : K)
    (hh : ∀ x, Holds c' k x → Holds c k x) (hc : contains c' k = true) :
    contains c k = true ∧ get c' k = get c k := by
  have := hh _ (h'.holds_get hc)
  exact ⟨(h.contains_iff_holds k).2 ⟨_, this⟩, (h.get_of_holds this).symm⟩

theorem forget_only {c : Cache K V} (h : WF c) (o : Op K V) (hok : opOK c o)
    (ho : o = .sweep ∨ o = .clear ∨ ∃ n' pc' ord, o = .resize n' pc' ord) (k : K)
    (hc : contains (step c o).1 k = true) :
    contains c k = true ∧ get (step c o).1 k = get c k := by
  rcases ho with rfl | rfl | ⟨n', pc', ord, rfl⟩
  · exact forget_of_holds h (wf_sweep h) k (fun x => holds_sweep) hc
  · simp only [step, clear, contains_fresh] at hc; simp at hc
  · exact resize_survivors h n' pc' hok.1 hok.2.1 ord hok.2.2 k hc

theorem present_latest_gen (k : K) (ops : List (Op K V)) :
    ∀ (c : Cache K V) (acc : Option (Option V)), WF c → OpsOK c ops →
      (contains c k = true → acc = some (some (get c k))) →
      contains (run c ops) k = true →
      ops.foldl (fun acc o => lastWriteStep acc k o) acc = some (some (get (run c ops) k)) := by
  induction ops with
  | nil => intro c acc _ _ hacc hc; exact hacc hc
  | cons o r ih =>
    intro c acc h hok hacc hc
    refine ih (step c o).1 (lastWriteStep acc k o) (wf_step h o hok.1) hok.2 ?_ hc
    intro hc1
    cases o with
    | set k' v =>
      simp only [lastWriteStep]
      by_cases hkk : k' = k
      · subst hkk
        simp only [step, if_true]
        rw [(wf_set h k' v).get_of_holds (holds_set_self h k' v)]
      · have hne : k ≠ k' := fun e => hkk e.symm
        have := WF.same_of_holds h (wf_set h k' v) k (fun x => holds_set_ne h k' k v x hne)
        simp only [step, if_neg hkk] at hc1 ⊢
        rw [this.2]; exact hacc (this.1 ▸ hc1)
    | delete k' =>
      simp only [lastWriteStep]
      by_cases hkk : k' = k
      · subst hkk
        simp only [step, contains_delete_self h] at hc1; simp at hc1
      · have hne : k ≠ k' := fun e => hkk e.symm
        have := WF.same_of_holds h (wf_delete h k') k (fun x => holds_delete_ne c k' k x hne)
        simp only [step, if_neg hkk] at hc1 ⊢
        rw [this.2]; exact hacc (this.1 ▸ hc1)
    | clear => simp only [step, clear, contains_fresh] at hc1; simp at hc1
    | sweep =>
      have := forget_only h .sweep hok.1 (.inl rfl) k hc1
      simp only [lastWriteStep]; rw [this.2]; exact hacc this.1
    | resize n' pc' ord =>
      have := forget_only h (.resize n' pc' ord) hok.1 (.inr (.inr ⟨_, _, _, rfl⟩)) k hc1
      simp only [lastWriteStep]; rw [this.2]; exact hacc this.1
    | get _ => exact hacc hc1
    | contains _ => exact hacc hc1
    | len => exact hacc hc1
    | keys => exact hacc hc1
    | values => exact hacc hc1
    | capacity => exact hacc hc1

/-! ### fill level: partitions are opened only when the previous one is full -/

/-- `m` insertions (at least) happened since the cache was new: all partitions but the current
    one were filled, and a second partition is opened only by an insertion. -/
def Fill (c : Cache K V) (m : Nat) : Prop :=
  (∀ p ∈ c.parts, p.id = c.cur → (c.nextId - 1) * c.pc + p.kv.length ≤ m) ∧
  (2 ≤ c.nextId → (c.nextId - 1) * c.pc + 1 ≤ m)

theorem fill_init (n pc : Nat) : Fill (init n pc : Cache K V) 0 := by simp [Fill, init]
theorem fill_fresh (n pc : Nat) : Fill (fresh n pc : Cache K V) 0 := by simp [Fill, fresh]

theorem fill_mono {c : Cache K V} {m m' : Nat} (h : Fill c m) (hm : m ≤ m') : Fill c m' :=
  ⟨fun p hp hid => Nat.le_trans (h.1 p hp hid) hm, fun h2 => Nat.le_trans (h.2 h2) hm⟩

theorem fill_sweep {c : Cache K V} {m : Nat} (h : Fill c m) : Fill (sweep c) m :=
  ⟨fun p hp hid => h.1 p (List.mem_of_mem_drop hp) hid, h.2⟩

theorem fill_delete {c : Cache K V} (hw : WF c) {m : Nat} (h : Fill c m) (k : K) : Fill (delete c k) m := by
  unfold delete
  split
  · next pid _ =>
    split
    · refine ⟨fun p' hp' hid => ?_, h.2⟩
      obtain ⟨p, hp, h1, h2⟩ := (mem_updPart pid (fun m => alErase m k) hw.ids_nodup p').1 hp'
      have := h.1 p hp (h1 ▸ hid)
      have := length_alErase_le p.kv k
      show (c.nextId - 1) * c.pc + p'.kv.length ≤ m
      rw [h2]; split <;> omega
    · exact h
  · exact h

theorem fill_set_live {c : Cache K V} (hw : WF c) {m : Nat} (h : Fill c m) {k : K} {p : Part K V}
    (hl : livePart c k = some p) (v : V) : Fill (set c k v) m := by
  rw [set_of_live hl]
  obtain ⟨hp, hk⟩ := hw.livePart_iff.1 hl
  refine ⟨fun p' hp' hid => ?_, h.2⟩
  obtain ⟨q, hq, h1, h2⟩ := (mem_updPart p.id (fun m => alSet m k v) hw.ids_nodup p').1 hp'
  have hq' := h.1 q hq (h1 ▸ hid)
  show (c.nextId - 1) * c.pc + p'.kv.length ≤ m
  rw [h2]; split
  · next hqp =>
    have : q = p := hw.part_unique hq hp hqp
    subst this
    rw [length_alSet_of_mem v hk]; exact hq'
  · exact hq'

theorem fillW_curPart {c : Cache K V} (hw : WF c) {m : Nat} (h : Fill c m) :
    ∀ p ∈ (curPart c).parts, p.id = (curPart c).cur →
      ((curPart c).nextId - 1) * (curPart c).pc + p.kv.length ≤ m := by
  rcases curPart_cases hw with ⟨e, _⟩ | ⟨e, hfull⟩ <;> rw [e]
  · exact h.1
  · intro p hp hid
    simp only [openPart, List.mem_append, List.mem_singleton] at hp hid ⊢
    rcases hp with hp | rfl
    · have := hw.id_bounds hp; omega
    · simp only [List.length_nil, Nat.add_sub_cancel, Nat.add_zero]
      rcases hfull with he | ⟨q, hq, hqid, hqlen⟩
      · rw [hw.hempty he]; simp
      · have h1 := h.1 q hq hqid
        have h2 := hw.id_bounds hq
        have h3 : (c.nextId - 1) * c.pc + c.pc = c.nextId * c.pc := by
          rw [← Nat.succ_mul]; congr 1; rw [hqid, hw.hcur] at h2; omega
        omega

theorem fill_insertCur {c : Cache K V} (hw : WF c) {k : K} (hl : livePart c k = none) (hr : Room c)
    {m : Nat} (h : ∀ p ∈ c.parts, p.id = c.cur → (c.nextId - 1) * c.pc + p.kv.length ≤ m) (v : V) :
    Fill (insertCur c k v) (m + 1) := by
  obtain ⟨q, hq, hqid, _⟩ := hr
  have habs := hw.livePart_eq_none_iff.1 hl
  constructor
  · intro p' hp' hid
    obtain ⟨p, hp, h1, h2⟩ := (mem_updPart c.cur (fun m => alSet m k v) hw.ids_nodup p').1 hp'
    have hpc : p.id = c.cur := h1 ▸ hid
    have := h p hp hpc
    show (c.nextId - 1) * c.pc + p'.kv.length ≤ m + 1
    rw [h2, if_pos hpc, alSet_of_not_mem v (habs p hp)]
    simp only [List.length_append, List.length_cons, List.length_nil]; omega
  · intro _
    have := h q hq hqid
    show (c.nextId - 1) * c.pc + 1 ≤ m + 1
    omega

theorem fill_set_absent {c : Cache K V} (hw : WF c) {m : Nat} (h : Fill c m) {k : K}
    (hl : livePart c k = none) (v : V) : Fill (set c k v) (m + 1) := by
  rw [set_of_absent hl]
  exact fill_insertCur (wf_curPart hw) ((livePart_curPart hw k).trans hl) (room_curPart hw)
    (fillW_curPart hw h) v

theorem fill_set {c : Cache K V} (hw : WF c) {m : Nat} (h : Fill c m) (k : K) (v : V) :
    Fill (set c k v) (m + 1) := by
  cases hl : livePart c k with
  | some p => exact fill_mono (fill_set_live hw h hl v) (Nat.le_succ m)
  | none => exact fill_set_absent hw h hl v

/-- while at most `capacity` insertions happened, there is nothing to sweep. -/
theorem length_le_of_fill {c : Cache K V} (hw : WF c) {m : Nat} (h : Fill c m) (hm : m ≤ c.n * c.pc) :
    c.parts.length ≤ c.n := by
  apply Decidable.byContradiction
  intro hlt
  have hL := hw.hlen
  have hn := hw.hn
  have h2 := h.2 (by omega)
  have : c.n * c.pc ≤ (c.nextId - 1) * c.pc := Nat.mul_le_mul_right _ (by omega)
  omega

/-! ### `keys` after inserting an absent key -/

theorem WF.livePart_none_of_not_contains {c : Cache K V} (h : WF c) {k : K} (hc : contains c k = false) :
    livePart c k = none := by
  rw [h.livePart_eq_none_iff]
  intro p hp hk
  have := (h.contains_iff k).2 ⟨p, hp, hk⟩
  simp [hc] at this

/-- the current partition is the last one. -/
theorem WF.parts_eq_concat {c : Cache K V} (h : WF c) {q : Part K V} (hq : q ∈ c.parts) (hid : q.id = c.cur) :
    ∃ ps, c.parts = ps ++ [q] := by
  have hne : c.parts ≠ [] := List.ne_nil_of_mem hq
  refine ⟨c.parts.dropLast, ?_⟩
  have hdl := (List.dropLast_concat_getLast hne).symm
  suffices c.parts.getLast hne = q by rw [← this]; exact hdl
  apply h.part_unique (List.getLast_mem hne) hq
  have hpw := h.ids_pairwise
  rw [hdl, List.map_append, List.pairwise_append] at hpw
  have hq' : q ∈ c.parts.dropLast ++ [c.parts.getLast hne] := hdl ▸ hq
  rcases List.mem_append.1 hq' with hq' | hq'
  · have := hpw.2.2 q.id (List.mem_map.2 ⟨q, hq', rfl⟩) (c.parts.getLast hne).id (by simp)
    have := h.id_bounds (List.getLast_mem hne)
    have := h.hcur
    omega
  · simp at hq'; rw [hq']

theorem updPart_concat {ps : List (Part K V)} {q : Part K V} (f : AL K V → AL K V)
    (hnd : ((ps ++ [q]).map (·.id)).Nodup) :
    updPart (ps ++ [q]) q.id f = ps ++ [{ q with kv := f q.kv }] := by
  rw [updPart_eq_map _ _ hnd, List.map_append]
  congr 1
  · rw [List.map_congr_left (g := fun p => p) ?_]
    · simp
    · intro p hp
      simp only [List.map_append, List.map_cons, List.map_nil] at hnd
      have := (List.nodup_append.1 hnd).2.2 p.id (List.mem_map.2 ⟨p, hp, rfl⟩) q.id (by simp)
      simp [this]
  · simp

theorem keys_openPart (c : Cache K V) : keys (openPart c) = keys c := by
  simp [keys, openPart]

theorem keys_curPart {c : Cache K V} (h : WF c) : keys (curPart c) = keys c := by
  rcases curPart_cases h with ⟨e, _⟩ | ⟨e, _⟩ <;> rw [e]
  exact keys_openPart c

theorem keys_insertCur {c : Cache K V} (h : WF c) {k : K} (hl : livePart c k = none) (hr : Room c) (v : V) :
    keys (insertCur c k v) = keys c ++ [k] := by
  obtain ⟨q, hq, hqid, _⟩ := hr
  obtain ⟨ps, hps⟩ := h.parts_eq_concat hq hqid
  have hnd := h.ids_nodup
  have hk := h.livePart_eq_none_iff.1 hl q hq
  unfold keys insertCur
  simp only
  rw [← hqid]
  rw [hps] at hnd ⊢
  rw [updPart_concat _ hnd, alSet_of_not_mem v hk]
  simp

theorem keys_set_absent {c : Cache K V} (h : WF c) {k : K} (hc : contains c k = false) (v : V) :
    keys (set c k v) = keys c ++ [k] := by
  have hl := h.livePart_none_of_not_contains hc
  rw [set_of_absent hl, keys_insertCur (wf_curPart h) ((livePart_curPart h k).trans hl) (room_curPart h),
    keys_curPart h]

theorem flatMap_drop_eq_drop {α β : Type} (f : α → List β) (l : List α) (i : Nat) :
    ∃ j, (l.drop i).flatMap f = (l.flatMap f).drop j := by
  induction l generalizing i with
  | nil => exact ⟨0, by simp⟩
  | cons a r ih =>
    cases i with
    | zero => exact ⟨0, by simp⟩
    | succ i =>
      obtain ⟨j, hj⟩ := ih i
      refine ⟨(f a).length + j, ?_⟩
      simp only [List.drop_succ_cons, List.flatMap_cons, hj]
      rw [← List.drop_drop, List.drop_left]

theorem keys_sweep (c : Cache K V) : ∃ j, keys (sweep c) = (keys c).drop j :=
  flatMap_drop_eq_drop _ _ _

/-! ### `resize`: capacity, survivors -/

theorem n_replay_set (old : Cache K V) (ks : List K) (c : Cache K V) :
    (ks.foldl (fun c k => set c k (get old k)) c).n = c.n ∧
    (ks.foldl (fun c k => set c k (get old k)) c).pc = c.pc := by
  induction ks generalizing c with
  | nil => exact ⟨rfl, rfl⟩
  | cons k r ih =>
    have := ih (set c k (get old k))
    simp only [List.foldl_cons]; rw [this.1, this.2]; exact n_set _ _ _

theorem n_replay (old : Cache K V) (order : List (List K)) (c : Cache K V) :
    (order.foldl (replayPart old) c).n = c.n ∧ (order.foldl (replayPart old) c).pc = c.pc := by
  induction order generalizing c with
  | nil => exact ⟨rfl, rfl⟩
  | cons ks r ih =>
    have := ih (replayPart old c ks)
    simp only [List.foldl_cons]; rw [this.1, this.2]
    exact n_replay_set old ks c

theorem n_resize (c : Cache K V) (n' pc' : Nat) (o : List (List K)) :
    (resize c n' pc' o).n = n' ∧ (resize c n' pc' o).pc = pc' := by
  unfold resize; split
  · exact n_replay c o _
  · next h => simp only [ne_eq, not_or, Decidable.not_not] at h; exact ⟨h.1.symm, h.2.symm⟩

theorem length_replay_le (old : Cache K V) (order : List (List K)) (c : Cache K V)
    (h : c.parts.length ≤ c.n) :
    (order.foldl (replayPart old) c).parts.length ≤ (order.foldl (replayPart old) c).n := by
  induction order generalizing c with
  | nil => exact h
  | cons ks r ih => exact ih _ (length_sweep_le _)

theorem contains_set_of_contains {c : Cache K V} (h : WF c) (k k2 : K) (v : V)
    (hc : contains c k2 = true) : contains (set c k v) k2 = true := by
  by_cases hkk : k2 = k
  · subst hkk; exact ((wf_set h k2 v).contains_iff_holds k2).2 ⟨v, holds_set_self h k2 v⟩
  · rw [(WF.same_of_holds h (wf_set h k v) k2 (fun x => holds_set_ne h k k2 v x hkk)).1]; exact hc

theorem resize_all_survive {c : Cache K V} (h : WF c) (n' pc' : Nat) (hn : 1 ≤ n') (hpc : 1 ≤ pc')
    (o : List (List K)) (ho : validOrder c o) (hfit : len c ≤ n' * pc') (k : K)
    (hc : contains c k = true) : contains (resize c n' pc' o) k = true := by
  unfold resize; split
  · have hperm := validOrder_perm ho
    have key := replay_induct c o.flatten
      (fun c' d => WF c' ∧ c'.n = n' ∧ c'.pc = pc' ∧ Fill c' d.length ∧ ∀ k ∈ d, contains c' k = true)
      (by
        rintro c' d k1 rest hall ⟨hw, hn', hpc', hf, hd⟩
        refine ⟨wf_set hw _ _, (n_set _ _ _).1.trans hn', (n_set _ _ _).2.trans hpc', ?_, ?_⟩
        · simpa using fill_set hw hf k1 (get c k1)
        · intro k2 hk2
          rcases List.mem_append.1 hk2 with hk2 | hk2
          · exact contains_set_of_contains hw _ _ _ (hd k2 hk2)
          · simp only [List.mem_singleton] at hk2; subst hk2
            exact ((wf_set hw k2 _).contains_iff_holds k2).2 ⟨_, holds_set_self hw k2 _⟩)
      (by
        rintro c' d rest hall ⟨hw, hn', hpc', hf, hd⟩
        have : sweep c' = c' := by
          apply sweep_eq_self
          apply length_le_of_fill hw hf
          rw [hn', hpc']
          have h1 : d.length ≤ o.flatten.length := by rw [← hall]; simp
          have h2 : o.flatten.length = len c := hperm.length_eq
          omega
        rw [this]; exact ⟨hw, hn', hpc', hf, hd⟩)
      o (fresh n' pc') [] rfl ⟨wf_fresh n' pc' hn hpc, rfl, rfl, fill_fresh _ _, by simp⟩
    apply key.2.2.2.2 k
    rw [hperm.mem_iff, ← h.contains_iff_mem_keys]; exact hc
  · exact hc

theorem resize_keys_suffix {c : Cache K V} (h : WF c) (n' pc' : Nat) (hn : 1 ≤ n') (hpc : 1 ≤ pc')
    (o : List (List K)) (ho : validOrder c o) (hch : n' ≠ c.n ∨ pc' ≠ c.pc) :
    ∃ d, keys (resize c n' pc' o) = o.flatten.drop d := by
  have hperm := validOrder_perm ho
  have hnd : o.flatten.Nodup := hperm.nodup_iff.2 h.nodup_keys
  unfold resize; rw [if_pos hch]
  have key := replay_induct c o.flatten (fun c' d => WF c' ∧ ∃ dd, keys c' = d.drop dd)
    (by
      rintro c' d k1 rest hall ⟨hw, dd, hdd⟩
      refine ⟨wf_set hw _ _, min dd d.length, ?_⟩
      have hk1 : k1 ∉ d := by
        rw [← hall] at hnd
        have := (List.nodup_append.1 hnd).2.2 k1
        intro hmem; exact this hmem k1 (by simp) rfl
      have hc : contains c' k1 = false := by
        rw [← Bool.not_eq_true, hw.contains_iff_mem_keys, hdd]
        exact fun hm => hk1 (List.mem_of_mem_drop hm)
      rw [keys_set_absent hw hc, hdd, List.drop_append_of_le_length (Nat.min_le_right _ _)]
      congr 1
      by_cases hle : dd ≤ d.length
      · rw [Nat.min_eq_left hle]
      · rw [Nat.min_eq_right (by omega), List.drop_length, List.drop_eq_nil_of_le (by omega)])
    (by
      rintro c' d rest _ ⟨hw, dd, hdd⟩
      obtain ⟨j, hj⟩ := keys_sweep c'
      exact ⟨wf_sweep hw, dd + j, by rw [hj, hdd, List.drop_drop]⟩)
    o (fresh n' pc') [] rfl ⟨wf_fresh n' pc' hn hpc, 0, by simp [keys, fresh]⟩
  exact key.2

theorem resize_len_le {c : Cache K V} (h : WF c) (n' pc' : Nat) (hn : 1 ≤ n') (hpc : 1 ≤ pc')
    (o : List (List K)) (hch : n' ≠ c.n ∨ pc' ≠ c.pc) :
    len (resize c n' pc' o) ≤ capacity (resize c n' pc' o) := by
  apply (wf_resize h n' pc' hn hpc o).len_le
  unfold resize; rw [if_pos hch]
  exact length_replay_le c o _ (by simp [fresh]; omega)

end TV.FifoCache
