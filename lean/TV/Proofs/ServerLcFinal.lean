import TV.Proofs.ServerLcStep
/-! Server — the C18 theorems, derived from the invariant. -/
namespace TV.Server
namespace LcProofs
open TV.ServerLifecycle
variable {n : Nat} {s s' : St}

theorem cnt_false (l : List Prov) : cnt (fun _ _ => false) l = 0 := by
  induction l with
  | nil => rfl
  | cons a as ih => simp only [cnt]; simpa using ih

theorem cnt_eq_zero_of (l : List Prov) (f : Nat → Prov → Bool)
    (h : ∀ i p, l[i]? = some p → f i p = false) : cnt f l = 0 := by
  rw [cnt_congr l f (fun _ _ => false) h, cnt_false]

theorem wg_balanced (hr : Reach n s) : 0 ≤ s.stopWg ∧
    s.stopWg = ((s.provs.zipIdx.filter (fun (p, i) => (match s.caller with | .idle => false | .spawning k => decide (i < k) | _ => true) && p.pc != .returned)).length : Int) := by
  have h := inv_reach hr
  have e : (fun (x : Prov × Nat) => match x with | (p, i) => (match s.caller with | .idle => false | .spawning k => decide (i < k) | _ => true) && p.pc != .returned)
      = (fun x => fR s.caller x.2 x.1) := by
    funext ⟨p, i⟩
    generalize s.caller = c
    cases c <;> rfl
  rw [e, cnt_filter_zipIdx s.provs 0 (fR s.caller)]
  have e2 : (fun j => fR s.caller (0 + j)) = fR s.caller := by funext j; rw [Nat.zero_add]
  rw [e2]
  have := h.stopWg
  omega

theorem mem_provSignal {i : Nat} (hi : i < s.provs.length) : Act.provSignal i ∈ allActs s := by
  simp only [allActs, List.mem_append, List.mem_flatMap, List.mem_range]
  exact Or.inr ⟨i, hi, by simp⟩
theorem mem_provServe {i : Nat} (hi : i < s.provs.length) : Act.provServe i ∈ allActs s := by
  simp only [allActs, List.mem_append, List.mem_flatMap, List.mem_range]
  exact Or.inr ⟨i, hi, by simp⟩
theorem mem_provReturn {i : Nat} (hi : i < s.provs.length) : Act.provReturn i ∈ allActs s := by
  simp only [allActs, List.mem_append, List.mem_flatMap, List.mem_range]
  exact Or.inr ⟨i, hi, by simp⟩
theorem mem_finishReq {i : Nat} (hi : i < s.provs.length) : Act.finishReq i ∈ allActs s := by
  simp only [allActs, List.mem_append, List.mem_flatMap, List.mem_range]
  exact Or.inr ⟨i, hi, by simp⟩

theorem no_deadlock (hr : Reach n s) (h1 : s.caller ≠ .idle) (h2 : s.caller ≠ .startReturned)
    (h3 : ∀ e, s.caller ≠ .stopReturned e) : ∃ a ∈ allActs s, (step? s a).isSome = true := by
  have h := inv_reach hr
  have hg := h.glob
  have hlen := h.len
  cases hc : s.caller with
  | idle => exact absurd hc h1
  | startReturned => exact absurd hc h2
  | stopReturned e => exact absurd hc (h3 e)
  | waitingStartWg => simp [Glob, hc] at hg
  | spawning k =>
    simp only [Glob, hc] at hg
    by_cases hk : k < s.provs.length
    · exact ⟨.spawn, by simp [allActs], by simp [step?, hc, hk]⟩
    · have hkn : k = s.provs.length := by omega
      by_cases hw : s.startWg = 0
      · exact ⟨.startWgDone, by simp [allActs], by simp [step?, hc, hkn, hw]⟩
      · have hpos : 0 < cnt (fS s.caller) s.provs := by rw [← h.startWg]; omega
        obtain ⟨i, p, hp, hf⟩ := cnt_pos _ _ hpos
        simp only [fS, hc, spawned, Bool.and_eq_true, decide_eq_true_eq, beq_iff_eq] at hf
        refine ⟨.provSignal i, mem_provSignal (lt_of_get hp), ?_⟩
        simp [step?, hp, hc, hf.1, hf.2]
  | stopping k e =>
    simp only [Glob, hc] at hg
    cases hp : s.provs[k]? with
    | none =>
      have : s.provs.length ≤ k := by simpa using hp
      have hkn : k = s.provs.length := by omega
      refine ⟨.provStop, by simp [allActs], ?_⟩
      simp only [step?, hc, hp]
      simp [hkn]
    | some p =>
      by_cases hinf : p.inflight = 0
      · refine ⟨.provStop, by simp [allActs], ?_⟩
        simp [step?, hc, hp, hinf]
      · cases hctx : s.ctxAmple with
        | false =>
          refine ⟨.provStop, by simp [allActs], ?_⟩
          simp [step?, hc, hp, hinf, hctx]
        | true =>
          refine ⟨.finishReq k, mem_finishReq (lt_of_get hp), ?_⟩
          simp only [step?, hp]
          rw [if_pos (by omega)]; rfl
  | waitingStopWg e =>
    by_cases hw : s.stopWg = 0
    · exact ⟨.stopWgDone, by simp [allActs], by simp [step?, hc, hw]⟩
    · have hpos : 0 < cnt (fR s.caller) s.provs := by have := h.stopWg; omega
      obtain ⟨i, p, hp, hf⟩ := cnt_pos _ _ hpos
      have hph := h.phase i p hp
      have hcoh := h.coh i p hp
      simp only [fR, hc, spawned, Bool.true_and, bne_iff_ne, ne_eq] at hf
      rw [hc] at hph
      simp only [Phase] at hph
      obtain ⟨hns, hsd⟩ := hph
      cases hpc : p.pc with
      | notStarted => exact absurd hpc hns
      | returned => exact absurd hpc hf
      | signalled =>
        refine ⟨.provServe i, mem_provServe (lt_of_get hp), ?_⟩
        simp [step?, hp, hpc, hsd]
      | serving =>
        refine ⟨.provReturn i, mem_provReturn (lt_of_get hp), ?_⟩
        have hsrv : p.srv = .closed := by
          obtain ⟨pc, srv, sd, infl⟩ := p
          simp only [Coh] at hcoh
          cases srv <;> simp_all
        simp [step?, hp, hpc, hsrv]

theorem stop_complete (err : Bool) (hr : Reach n s) (hc : s.caller = .stopReturned err) :
    s.stopWg = 0 ∧ ∀ p ∈ s.provs, p.pc = .returned ∧ p.srv = .closed ∧ p.shutdownCalled = true := by
  have h := inv_reach hr
  have hall : ∀ (i : Nat) (p : Prov), s.provs[i]? = some p → p.pc = .returned := by
    intro i p hp
    have := h.phase i p hp
    rw [hc] at this; exact this
  constructor
  · rw [h.stopWg, cnt_eq_zero_of]; rfl
    intro i p hp
    simp [fR, hall i p hp]
  · intro p hp
    obtain ⟨i, hi⟩ := List.mem_iff_getElem?.mp hp
    have hpc := hall i p hi
    have hcoh := h.coh i p hi
    simp only [Coh] at hcoh
    exact ⟨hpc, hcoh.2.2.2.1 hpc, hcoh.2.2.1 (hcoh.2.2.2.1 hpc)⟩

theorem waits_for_inflight (hr : Reach n s) (hctx : s.ctxAmple = true) :
    s.aborted = 0 ∧ ((∃ e, s.caller = .stopReturned e) → ∀ p ∈ s.provs, p.inflight = 0) := by
  have h := inv_reach hr
  refine ⟨h.glob.2.1 hctx, ?_⟩
  rintro ⟨e, hc⟩ p hp
  obtain ⟨i, hi⟩ := List.mem_iff_getElem?.mp hp
  have hcoh := h.coh i p hi
  simp only [Coh] at hcoh
  exact hcoh.2.2.2.2 ((stop_complete e hr hc).2 p hp).2.2

theorem start_signals_all (hr : Reach n s)
    (hc : s.caller = .startReturned ∨ (∃ k e, s.caller = .stopping k e) ∨ (∃ e, s.caller = .waitingStopWg e) ∨ (∃ e, s.caller = .stopReturned e)) :
    s.provs.length = n ∧ ∀ p ∈ s.provs, p.pc ≠ .notStarted := by
  have h := inv_reach hr
  refine ⟨h.len, ?_⟩
  intro p hp
  obtain ⟨i, hi⟩ := List.mem_iff_getElem?.mp hp
  have hph := h.phase i p hi
  rcases hc with hc | ⟨k, e, hc⟩ | ⟨e, hc⟩ | ⟨e, hc⟩ <;> rw [hc] at hph <;> simp only [Phase] at hph
  · exact hph
  · exact hph.1
  · exact hph.1
  · rw [hph]; decide

end LcProofs
end TV.Server
