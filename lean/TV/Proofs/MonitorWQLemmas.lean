import Driver.WQ
import TV.Proofs.WorkQueueSafety
import TV.Proofs.MonitorWQInv
import Lean
/-!
# Lemmas for TV/Proofs/MonitorWQ.lean

* `Array.qsort` returns a permutation of its input (core has no lemma about `qsort`; its two helper functions are
  private to their module, so they are reached through the `qsPriv%` elaborator below);
* bookkeeping invariants of the WorkQueue model that `Inv`/`GInv` do not record (`Aux`);
* runs after Stop/Break (`Steps`, `Late`).
(Core-only.)
-/
namespace TV.QSortPerm
open Lean Elab Term Meta in
/-- the (module-private) helper `Array.qsort.sort` / `Array.qpartition.loop` or one of their equation lemmas. -/
elab "qsPriv%" s:str : term => do
  let n := mkPrivateNameCore `Init.Data.Array.QSort.Basic
    ((s.getString.splitOn ".").foldl (fun acc x => Name.str acc x) Name.anonymous)
  mkConstWithFreshMVarLevels n

variable {α : Type}

theorem loop_perm {n : Nat} (lt : α → α → Bool) (lo hi : Nat) (hhi : hi < n) (pivot : α) :
    ∀ (d : Nat) (as : Vector α n) (i k : Nat) (ilo : lo ≤ i) (ik : i ≤ k) (w : k ≤ hi), hi - k = d →
    ((qsPriv% "Array.qpartition.loop") lt lo hi hhi pivot as i k ilo ik w).2.Perm as := by
  intro d
  induction d with
  | zero =>
    intro as i k ilo ik w hd
    rw [(qsPriv% "Array.qpartition.loop.eq_def")]
    rw [dif_neg (by omega)]
    exact Vector.swap_perm (by omega) (by omega)
  | succ d ih =>
    intro as i k ilo ik w hd
    rw [(qsPriv% "Array.qpartition.loop.eq_def")]
    rw [dif_pos (by omega)]
    split
    · exact (ih _ _ _ _ _ _ (by omega)).trans (Vector.swap_perm (by omega) (by omega))
    · exact ih _ _ _ _ _ _ (by omega)

theorem qpartition_perm {n : Nat} (as : Vector α n) (lt : α → α → Bool) (lo hi : Nat) (w : lo ≤ hi)
    (hlo : lo < n) (hhi : hi < n) : (Array.qpartition as lt lo hi w hlo hhi).2.Perm as := by
  unfold Array.qpartition
  refine (loop_perm lt lo hi hhi _ _ _ _ _ _ _ _ rfl).trans ?_
  have ite_perm : ∀ (c : Prop) [Decidable c] (a b : Vector α n), a.Perm b → (if c then a else b).Perm b := by
    intro c _ a b h; split; exact h; exact .rfl
  refine (ite_perm _ _ _ (Vector.swap_perm (by omega) (by omega))).trans ?_
  refine (ite_perm _ _ _ (Vector.swap_perm (by omega) (by omega))).trans ?_
  exact ite_perm _ _ _ (Vector.swap_perm (by omega) (by omega))

theorem sort_perm {n : Nat} (lt : α → α → Bool) :
    ∀ (d : Nat) (as : Vector α n) (lo hi : Nat) (w : lo ≤ hi) (hlo : lo < n) (hhi : hi < n), hi - lo ≤ d →
    ((qsPriv% "Array.qsort.sort") lt as lo hi w hlo hhi).Perm as := by
  intro d
  induction d with
  | zero =>
    intro as lo hi w hlo hhi hd
    rw [(qsPriv% "Array.qsort.sort.eq_def")]
    rw [dif_neg (by omega)]
  | succ d ih =>
    intro as lo hi w hlo hhi hd
    rw [(qsPriv% "Array.qsort.sort.eq_def")]
    split
    · have hp := qpartition_perm as lt lo hi w hlo hhi
      split
      next mid hmid as' heq =>
      rw [heq] at hp
      split
      · exact hp
      · exact ((ih _ _ _ _ _ _ (by omega)).trans (ih _ _ _ _ _ _ (by omega))).trans hp
    · exact .rfl

theorem qsort_perm (l : List α) (lt : α → α → Bool) : (l.toArray.qsort lt).toList.Perm l := by
  unfold Array.qsort
  split
  · simp
  · dsimp only
    exact (sort_perm lt _ _ _ _ _ _ _ (Nat.le_refl _)).toList
end TV.QSortPerm

namespace TV.WorkQueue.MonSound
open TV.WorkQueue TV.WorkQueue.Mon Driver.WQ TV.WorkQueue.Safety

theorem sortN_perm (l : List Nat) : (sortN l).Perm l := TV.QSortPerm.qsort_perm l _

theorem nodupB_iff (l : List Nat) : nodupB l = true ↔ l.Nodup := by
  induction l with
  | nil => simp [nodupB]
  | cons x xs ih => simp [nodupB, ih, List.nodup_cons]

/-! ### bookkeeping the ledger does not record: the context is cancelled exactly by Stop/Break, Enqueue calls are
rejected only after Stop/Break, every ordinal is answered at most once -/

structure Aux (s : St) : Prop where
  ctx : s.ctxDone = s.stopped
  brk : s.breaked = true → s.stopped = true
  rej : s.stopped = false → s.rejected = []
  ar : ∀ id, s.accepted.count id + s.rejected.count id + cnt s.blocked id ≤ 1
  fresh : ∀ id, s.nextId ≤ id → s.accepted.count id + s.rejected.count id + cnt s.blocked id = 0

theorem aux_init (W L : Nat) : Aux (init W L) := by
  constructor <;> simp [init]

theorem aux_step {s s' : St} {a : Act} (h : Aux s) (hs : step? s a = some s') : Aux s' := by
  obtain ⟨ctx, brk, rej, ar, fresh⟩ := h
  cases a with
  | enqueue p n adj =>
    simp only [step?] at hs
    split at hs <;> (injection hs with hs; subst hs; try dsimp only at *) <;>
      constructor <;> (try intro id) <;> (try have h1 := ar id) <;> (try have h2 := fresh id) <;>
      (try have h3 := fresh s.nextId) <;> (try simp only [wqs] at *) <;> grind
  | recv id =>
    simp only [step?, toDrain] at hs
    split at hs
    · next _ _ it hf =>
      have hpos := cnt_pos_of_mem (findId_some hf).1
      rw [(findId_some hf).2] at hpos
      (repeat' split at hs) <;> (injection hs with hs; subst hs; try dsimp only at *) <;>
      constructor <;> (try intro id') <;> (try have h1 := ar id') <;> (try have h2 := fresh id') <;>
      (try have h3 := ar id) <;> (try have h4 := fresh id) <;> (try simp only [wqs] at *) <;> grind
    · cases hs
  | giveUp id =>
    simp only [step?] at hs
    split at hs
    · next _ it hf =>
      have hpos := cnt_pos_of_mem (findId_some hf).1
      rw [(findId_some hf).2] at hpos
      (repeat' split at hs) <;> first | (injection hs with hs; subst hs; try dsimp only at *) | cases hs
      all_goals constructor <;> (try intro id') <;> (try have h1 := ar id') <;> (try have h2 := fresh id') <;>
      (try have h3 := ar id) <;> (try have h4 := fresh id) <;> (try simp only [wqs] at *) <;> grind
    · cases hs
  | setPrio id p =>
    simp only [step?] at hs
    (repeat' split at hs) <;> (injection hs with hs; subst hs; try dsimp only at *) <;>
      constructor <;> (try intro id') <;> (try have h1 := ar id') <;> (try have h2 := fresh id') <;>
      (try simp only [wqs] at *) <;> grind
  | stop => injection hs with hs; subst hs; constructor <;> simp_all
  | break_ => injection hs with hs; subst hs; constructor <;> simp_all
  | _ =>
    simp only [step?, toDrain, popOrPanic] at hs
    (repeat' split at hs) <;> first | (injection hs with hs; subst hs; exact ⟨ctx, brk, rej, ar, fresh⟩) | cases hs


theorem aux_reach {W L : Nat} {s : St} (h : Reach W L s) : Aux s := by
  induction h with
  | init => exact aux_init W L
  | step a _ _ hs ih => exact aux_step ih hs

/-! ### after Stop/Break -/

/-- a run of legal actions from `s` to `s'`. -/
inductive Steps : St → St → Prop where
  | refl (s : St) : Steps s s
  | step {s s' s'' : St} (a : Act) : Steps s s' → actOK s' a → step? s' a = some s'' → Steps s s''

theorem reach_steps {W L : Nat} {s s' : St} (h : Reach W L s) (hs : Steps s s') : Reach W L s' := by
  induction hs with
  | refl => exact h
  | step a _ hok hst ih => exact Reach.step a ih hok hst

/-- after Stop/Break was called with `n` ordinals issued: every later ordinal has been rejected. -/
def Late (n : Nat) (s : St) : Prop :=
  s.stopped = true ∧ ∀ id, n ≤ id → id < s.nextId → id ∈ s.rejected

theorem late_step {n : Nat} {s s' : St} {a : Act} (h : Late n s) (hs : step? s a = some s') : Late n s' := by
  obtain ⟨hst, hl⟩ := h
  cases a with
  | enqueue p nm adj =>
    simp only [step?, hst, if_true] at hs
    injection hs with hs; subst hs
    refine ⟨rfl, fun id h1 h2 => ?_⟩
    dsimp only at h2 ⊢
    by_cases he : id = s.nextId
    · subst he; simp
    · exact List.mem_append_left _ (hl id h1 (by omega))
  | giveUp id =>
    simp only [step?] at hs
    (repeat' split at hs) <;> first
      | (injection hs with hs; subst hs; exact ⟨hst, fun id h1 h2 => List.mem_append_left _ (hl id h1 h2)⟩)
      | cases hs
  | stop => injection hs with hs; subst hs; exact ⟨rfl, hl⟩
  | break_ => injection hs with hs; subst hs; exact ⟨rfl, hl⟩
  | _ =>
    simp only [step?, toDrain, popOrPanic] at hs
    (repeat' split at hs) <;> first | (injection hs with hs; subst hs; exact ⟨hst, hl⟩) | cases hs

theorem late_steps {n : Nat} {s s' : St} (h : Late n s) (hs : Steps s s') : Late n s' := by
  induction hs with
  | refl => exact h
  | step a _ _ hst ih => exact late_step ih hst

theorem late_of_stop {s s' : St} {a : Act} (ha : a = .stop ∨ a = .break_) (hs : step? s a = some s') :
    Late s.nextId s' := by
  rcases ha with rfl | rfl <;> (injection hs with hs; subst hs; exact ⟨rfl, fun id h1 h2 => by dsimp only at h2; omega⟩)


end TV.WorkQueue.MonSound
