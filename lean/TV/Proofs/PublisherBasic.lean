import TV.Model.Publisher
/-! Publication LTS — basic lemmas on the helper functions and the two folds. -/
namespace TV.Publisher
namespace Proofs

theorem getSub_some {s : St} {k : Nat} {x : Sub} (h : getSub s k = some x) : x ∈ s.subs ∧ x.id = k := by
  unfold getSub at h
  have h1 := List.mem_of_find?_eq_some h
  have h2 := List.find?_some h
  exact ⟨h1, by simpa using h2⟩

theorem findDel_some {s : St} {u k : Nat} {d : Delivery} (h : findDel s u k = some d) :
    d ∈ s.pending ∧ d.uid = u ∧ d.sub = k := by
  unfold findDel at h
  have h1 := List.mem_of_find?_eq_some h
  have h2 := List.find?_some h
  exact ⟨h1, by simpa using h2⟩

/-- the delivery spawned by `publish`. -/
def mkDel (uid msg : Nat) (x : Sub) : Delivery := { uid := uid, msg := msg, sub := x.id, stage := .spawned, deadline := 0 }

/-- one iteration of the `publish` loop. -/
def pubGo (uid msg : Nat) (acc : St) (x : Sub) : St :=
  if !x.registered then acc
  else if x.filter.accepts msg then
    { acc with pending := acc.pending ++ [{ uid := uid, msg := msg, sub := x.id, stage := .spawned, deadline := 0 }] }
  else
    { acc with outcomes := acc.outcomes ++ [(uid, x.id, .filtered)],
               callbacks := if x.cbFiltered then acc.callbacks ++ [(false, x.id, uid, msg)] else acc.callbacks }

theorem step_publish (s : St) (msg : Nat) :
    step? s (.publish msg) = some (s.subs.foldl (pubGo s.nextUid msg) { s with nextUid := s.nextUid + 1, published := s.published ++ [(s.nextUid, msg)] }) := rfl

theorem pubGo_fold (uid msg : Nat) (l : List Sub) (acc : St) :
    l.foldl (pubGo uid msg) acc =
      { acc with
        pending := acc.pending ++ (l.filter (fun x => x.registered && x.filter.accepts msg)).map (mkDel uid msg),
        outcomes := acc.outcomes ++ (l.filter (fun x => x.registered && !x.filter.accepts msg)).map (fun x => (uid, x.id, Outcome.filtered)),
        callbacks := acc.callbacks ++ (l.filter (fun x => x.registered && !x.filter.accepts msg && x.cbFiltered)).map (fun x => (false, x.id, uid, msg)) } := by
  induction l generalizing acc with
  | nil => simp
  | cons x l ih =>
    rw [List.foldl_cons, ih]
    unfold pubGo
    cases hr : x.registered <;> cases ha : x.filter.accepts msg <;> cases hc : x.cbFiltered <;> simp [hr, ha, hc, mkDel]


theorem getSub_updSub (s : St) (k j : Nat) (f : Sub → Sub) (hf : ∀ x, (f x).id = x.id) :
    getSub (updSub s k f) j = (getSub s j).map (fun x => if x.id == k then f x else x) := by
  unfold getSub updSub
  simp only [List.find?_map]
  congr 2
  funext x
  simp only [Function.comp]
  split <;> simp [hf]

theorem getSub_updSub_ne (s : St) (k j : Nat) (f : Sub → Sub) (hf : ∀ x, (f x).id = x.id) (hj : j ≠ k) :
    getSub (updSub s k f) j = getSub s j := by
  rw [getSub_updSub s k j f hf]
  cases h : getSub s j with
  | none => rfl
  | some x =>
    have := (getSub_some h).2
    have : x.id ≠ k := by omega
    simp [this]

theorem mem_updSub_of_mem {s : St} {k : Nat} {f : Sub → Sub} {x : Sub} (hx : x ∈ s.subs) :
    (if x.id == k then f x else x) ∈ (updSub s k f).subs := by
  unfold updSub
  simp only [List.mem_map]
  exact ⟨x, hx, rfl⟩

theorem findDel_map (s : St) (g : Delivery → Delivery) (u k : Nat) (hg : ∀ e, (g e).uid = e.uid ∧ (g e).sub = e.sub) :
    findDel { s with pending := s.pending.map g } u k = (findDel s u k).map g := by
  unfold findDel
  simp only [List.find?_map]
  congr 2
  funext e
  simp [Function.comp, hg]

end Proofs
end TV.Publisher
