import TV.Proofs.PublisherInvB
/-! Publication LTS — the callbacks ledger part of the invariant. -/
namespace TV.Publisher.Proofs

/-- the callbacks ledger. -/
structure InvE (st : List Static) (cb : List (Bool × Nat × Nat × Nat)) (out : List (Nat × Nat × Outcome))
    (pub : List (Nat × Nat)) : Prop where
  cbNodup : (cb.map (fun c => (c.1, c.2.1, c.2.2.1))).Nodup
  cbSound : ∀ c ∈ cb, (c.2.2.1, c.2.2.2) ∈ pub ∧ (c.2.2.1, c.2.1, if c.1 then Outcome.timedOut else Outcome.filtered) ∈ out ∧
    ∃ t ∈ st, t.id = c.2.1 ∧ (if c.1 then t.cbTimeout else t.cbFiltered) = true
  cbComplete : ∀ o ∈ out, ∀ t ∈ st, t.id = o.2.1 → ∀ m, (o.1, m) ∈ pub →
    (o.2.2 = .timedOut → t.cbTimeout = true → (true, o.2.1, o.1, m) ∈ cb) ∧
    (o.2.2 = .filtered → t.cbFiltered = true → (false, o.2.1, o.1, m) ∈ cb)

theorem InvE.subscribe {st cb out pub} (h : InvE st cb out pub) (t : Static) (ht : ∀ o ∈ out, o.2.1 ≠ t.id) :
    InvE (st ++ [t]) cb out pub := by
  obtain ⟨h1, h2, h3⟩ := h
  refine ⟨h1, ?_, ?_⟩
  · intro c hc
    obtain ⟨a, b, t', ht', e⟩ := h2 c hc
    exact ⟨a, b, t', List.mem_append_left _ ht', e⟩
  · intro o ho t' ht' hid
    simp only [List.mem_append, List.mem_singleton] at ht'
    rcases ht' with ht' | rfl
    · exact h3 o ho t' ht' hid
    · exact absurd hid.symm (ht o ho)

theorem InvE.finish_other {st cb out pub} (h : InvE st cb out pub) (uid sub : Nat) (o : Outcome)
    (ho1 : o ≠ .timedOut) (ho2 : o ≠ .filtered) :
    InvE st cb (out ++ [(uid, sub, o)]) pub := by
  obtain ⟨h1, h2, h3⟩ := h
  refine ⟨h1, ?_, ?_⟩
  · intro c hc
    obtain ⟨a, b, e⟩ := h2 c hc
    exact ⟨a, List.mem_append_left _ b, e⟩
  · intro o' ho' t' ht' hid
    simp only [List.mem_append, List.mem_singleton] at ho'
    rcases ho' with ho' | rfl
    · exact h3 o' ho' t' ht' hid
    · intro m hm
      exact ⟨fun e => absurd e ho1, fun e => absurd e ho2⟩

theorem InvE.timeout {st cb out pub pk nu c} (h : InvE st cb out pub) (hA : InvA st c) (hB : InvB st pk out pub nu)
    {uid sub msg : Nat} (hp : (uid, sub, msg) ∈ pk) {t : Static} (ht : t ∈ st) (hts : t.id = sub) :
    InvE st (if t.cbTimeout then cb ++ [(true, sub, uid, msg)] else cb) (out ++ [(uid, sub, .timedOut)]) pub := by
  obtain ⟨h1, h2, h3⟩ := h
  have hnot : ∀ o', (uid, sub, o') ∉ out := by
    intro o' ho'
    have := hB.pairsNodup
    rw [List.nodup_append] at this
    exact this.2.2 (uid, sub) (List.mem_map.2 ⟨_, ho', rfl⟩) (uid, sub) (List.mem_map.2 ⟨_, hp, rfl⟩) rfl
  have hpub := hB.pendPub _ hp
  refine ⟨?_, ?_, ?_⟩
  · split
    · simp only [List.map_append, List.map_cons, List.map_nil]
      rw [List.nodup_append]
      refine ⟨h1, by simp, ?_⟩
      intro a ha b hb
      simp only [List.mem_singleton] at hb
      subst hb
      simp only [List.mem_map] at ha
      obtain ⟨c, hc, rfl⟩ := ha
      intro e
      have := (h2 c hc).2.1
      simp only [Prod.mk.injEq] at e
      obtain ⟨e1, e2, e3⟩ := e
      rw [e1, e2, e3] at this
      exact hnot _ this
    · exact h1
  · intro c hc
    have key : c ∈ cb ∨ (t.cbTimeout = true ∧ c = (true, sub, uid, msg)) := by
      split at hc
      · simp only [List.mem_append, List.mem_singleton] at hc
        rcases hc with hc | hc
        · exact Or.inl hc
        · exact Or.inr ⟨by assumption, hc⟩
      · exact Or.inl hc
    rcases key with hc | ⟨hcb, rfl⟩
    · obtain ⟨a, b, c⟩ := h2 c hc
      exact ⟨a, by simp [b], c⟩
    · exact ⟨hpub, by simp, t, ht, hts, by simpa using hcb⟩
  · intro o ho t' ht' hid m hm
    simp only [List.mem_append, List.mem_singleton] at ho
    rcases ho with ho | rfl
    · obtain ⟨a, b⟩ := h3 o ho t' ht' hid m hm
      refine ⟨fun e1 e2 => ?_, fun e1 e2 => ?_⟩
      · have := a e1 e2
        split
        · exact List.mem_append_left _ this
        · exact this
      · have := b e1 e2
        split
        · exact List.mem_append_left _ this
        · exact this
    · simp only at hid hm ⊢
      have : t' = t := hA.uniq ht' ht (by omega)
      subst this
      have : m = msg := hB.pubUniq hm hpub
      subst this
      simp
      intro hcb
      simp [hcb]

theorem InvE.publish {subs : List Sub} {c pk out pub nu cb} (hA : InvA (subs.map Sub.static) c)
    (hB : InvB (subs.map Sub.static) pk out pub nu) (h : InvE (subs.map Sub.static) cb out pub) (msg : Nat) :
    InvE (subs.map Sub.static)
      (cb ++ (subs.filter (fun x => x.registered && !x.filter.accepts msg && x.cbFiltered)).map (fun x => (false, x.id, nu, msg)))
      (out ++ (subs.filter (fun x => x.registered && !x.filter.accepts msg)).map (fun x => (nu, x.id, Outcome.filtered)))
      (pub ++ [(nu, msg)]) := by
  obtain ⟨h1, h2, h3⟩ := h
  have hids : (subs.map (·.id)).Nodup := by simpa [Sub.static, Function.comp_def] using hA.idsNodup
  have holt : ∀ o ∈ out, o.1 < nu := by
    intro o ho
    obtain ⟨m, hm⟩ := hB.outPub o ho
    exact hB.pubLt (o.1, m) hm
  have hnu : ∀ m, (nu, m) ∉ pub := by
    intro m hm
    have := hB.pubLt _ hm
    simp at this
  refine ⟨?_, ?_, ?_⟩
  · simp only [List.map_append, List.map_map]
    rw [List.nodup_append]
    refine ⟨h1, ?_, ?_⟩
    · have : (subs.map ((fun c : Bool × Nat × Nat × Nat => (c.1, c.2.1, c.2.2.1)) ∘ fun x => (false, x.id, nu, msg))).Nodup := by
        have e : subs.map ((fun c : Bool × Nat × Nat × Nat => (c.1, c.2.1, c.2.2.1)) ∘ fun x => (false, x.id, nu, msg))
            = (subs.map (·.id)).map (fun i => (false, i, nu)) := by simp [Function.comp_def]
        rw [e]
        exact List.Pairwise.map _ (fun a b hab => by simpa using hab) hids
      exact filter_map_nodup this _
    · intro a ha b hb e
      subst e
      simp only [List.mem_map, List.mem_filter, Function.comp] at ha hb
      obtain ⟨c, hc, rfl⟩ := ha
      obtain ⟨x, hx, e⟩ := hb
      have := holt _ (h2 c hc).2.1
      simp only [Prod.mk.injEq] at e
      omega
  · intro c hc
    simp only [List.mem_append, List.mem_map, List.mem_filter] at hc
    rcases hc with hc | ⟨x, ⟨hx, hx2⟩, rfl⟩
    · obtain ⟨a, b, e⟩ := h2 c hc
      exact ⟨List.mem_append_left _ a, List.mem_append_left _ b, e⟩
    · simp only [Bool.and_eq_true, Bool.not_eq_eq_eq_not, Bool.not_true] at hx2
      refine ⟨by simp, ?_, x.static, List.mem_map_of_mem hx, rfl, by simpa [Sub.static] using hx2.2⟩
      apply List.mem_append_right
      simp only [List.mem_map, List.mem_filter]
      exact ⟨x, ⟨hx, by simp [hx2.1]⟩, rfl⟩
  · intro o ho t ht hid m hm
    simp only [List.mem_append, List.mem_map, List.mem_filter, List.mem_singleton] at ho hm
    rcases ho with ho | ⟨x, ⟨hx, hx2⟩, rfl⟩
    · have hlt := holt o ho
      rcases hm with hm | hm
      · obtain ⟨a, b⟩ := h3 o ho t ht hid m hm
        exact ⟨fun e1 e2 => List.mem_append_left _ (a e1 e2), fun e1 e2 => List.mem_append_left _ (b e1 e2)⟩
      · simp only [Prod.mk.injEq] at hm
        omega
    · simp only at hid hm ⊢
      rcases hm with hm | hm
      · exact absurd hm (hnu m)
      · simp only [Prod.mk.injEq, true_and] at hm
        subst hm
        have : t = x.static := hA.uniq ht (List.mem_map_of_mem hx) (by simpa [Sub.static] using hid)
        subst this
        refine ⟨by simp, fun _ hcb => ?_⟩
        apply List.mem_append_right
        simp only [List.mem_map, List.mem_filter]
        exact ⟨x, ⟨hx, by simp_all [Sub.static]⟩, rfl⟩
end TV.Publisher.Proofs
