import TV.Proofs.FifoCache
/-!
`Clear` leaves a cache that is observationally equal to a new one (`C13_clear_like_new`).

`fresh n pc` and `init n pc` are different states (the former already owns the empty partition 1),
and with `n = 0` (nothing in the statement excludes it) a sweep even makes the partition ids of the
two runs differ by one for ever.  So the proof is a bisimulation: the two caches are equal, or are
the two start states, or are equal up to a shift `δ` of all partition ids.
-/
namespace TV.FifoCache
set_option linter.unusedSectionVars false

variable {K V : Type} [DecidableEq K] [Inhabited V]

def shiftPart (δ : Nat) (p : Part K V) : Part K V := ⟨p.id + δ, p.kv⟩
def shiftIdx (δ : Nat) (m : AL K Nat) : AL K Nat := m.map (fun e => (e.1, e.2 + δ))

theorem mem_of_alGet? {α β : Type} [DecidableEq α] {m : AL α β} {k : α} {v : β}
    (h : alGet? m k = some v) : (k, v) ∈ m := by
  induction m with
  | nil => simp [alGet?] at h
  | cons a r ih =>
    simp only [alGet?] at h
    split at h
    · next hk => cases a; simp_all
    · simp [ih h]

theorem mem_alSet {α β : Type} [DecidableEq α] {m : AL α β} {k : α} {v : β} {e : α × β}
    (h : e ∈ alSet m k v) : e ∈ m ∨ e = (k, v) := by
  induction m with
  | nil => simp_all [alSet]
  | cons a r ih =>
    simp only [alSet] at h
    split at h
    · simp only [List.mem_cons] at h ⊢; grind
    · simp only [List.mem_cons] at h ⊢; grind

theorem alGet?_shiftIdx (δ : Nat) (m : AL K Nat) (k : K) :
    alGet? (shiftIdx δ m) k = (alGet? m k).map (· + δ) := by
  induction m with
  | nil => rfl
  | cons a r ih =>
    simp only [shiftIdx, List.map_cons, alGet?] at ih ⊢
    split <;> simp_all

theorem alSet_shiftIdx (δ : Nat) (m : AL K Nat) (k : K) (i : Nat) :
    alSet (shiftIdx δ m) k (i + δ) = shiftIdx δ (alSet m k i) := by
  induction m with
  | nil => rfl
  | cons a r ih =>
    simp only [shiftIdx, List.map_cons, alSet] at ih ⊢
    split <;> simp_all

theorem alErase_shiftIdx (δ : Nat) (m : AL K Nat) (k : K) :
    alErase (shiftIdx δ m) k = shiftIdx δ (alErase m k) := by
  induction m with
  | nil => rfl
  | cons a r ih =>
    simp only [shiftIdx, List.map_cons, alErase] at ih ⊢
    split <;> simp_all

theorem peek_shift (δ : Nat) (ps : List (Part K V)) (id : Nat) :
    peek (ps.map (shiftPart δ)) (id + δ) = (peek ps id).map (shiftPart δ) := by
  induction ps with
  | nil => rfl
  | cons q r ih =>
    simp only [List.map_cons, peek]
    by_cases h : q.id = id
    · simp [h, shiftPart]
    · simp [h, ih, shiftPart]

theorem updPart_shift (δ : Nat) (ps : List (Part K V)) (id : Nat) (f : AL K V → AL K V) :
    updPart (ps.map (shiftPart δ)) (id + δ) f = (updPart ps id f).map (shiftPart δ) := by
  induction ps with
  | nil => rfl
  | cons q r ih =>
    simp only [List.map_cons, updPart]
    by_cases h : q.id = id
    · simp [h, shiftPart]
    · simp [h, ih, shiftPart]

/-- `c1` is `c2` with all partition ids shifted by `δ`. -/
structure Shift (δ : Nat) (c1 c2 : Cache K V) : Prop where
  hn : c1.n = c2.n
  hpc : c1.pc = c2.pc
  hnext : c1.nextId = c2.nextId + δ
  hcur : c1.cur = c2.cur + δ
  hparts : c1.parts = c2.parts.map (shiftPart δ)
  hindex : c1.index = shiftIdx δ c2.index
  hpos : ∀ i ∈ c2.parts.map (·.id), 0 < i
  hipos : ∀ e ∈ c2.index, 0 < e.2

variable {δ : Nat} {c1 c2 : Cache K V}

theorem Shift.livePart_eq (s : Shift δ c1 c2) (k : K) :
    livePart c1 k = (livePart c2 k).map (shiftPart δ) := by
  unfold FifoCache.livePart
  rw [s.hindex, alGet?_shiftIdx, s.hparts]
  cases hi : alGet? c2.index k with
  | none => rfl
  | some pid =>
    have : 0 < pid := s.hipos _ (mem_of_alGet? hi)
    have h2 : 0 < pid + δ := by omega
    simp only [Option.map_some, this, h2, if_true, peek_shift]

theorem Shift.get_eq (s : Shift δ c1 c2) (k : K) : get c1 k = get c2 k := by
  unfold FifoCache.get
  rw [s.livePart_eq]
  cases livePart c2 k <;> simp [shiftPart]

theorem Shift.contains_eq (s : Shift δ c1 c2) (k : K) : contains c1 k = contains c2 k := by
  unfold FifoCache.contains
  rw [s.livePart_eq]
  cases livePart c2 k <;> simp [shiftPart]

theorem Shift.keys_eq (s : Shift δ c1 c2) : keys c1 = keys c2 := by
  simp [FifoCache.keys, s.hparts, List.flatMap_map, shiftPart]

theorem Shift.values_eq (s : Shift δ c1 c2) : values c1 = values c2 := by
  simp [FifoCache.values, s.hparts, List.flatMap_map, shiftPart]

theorem Shift.openPart_sh (s : Shift δ c1 c2) : Shift δ (openPart c1) (openPart c2) := by
  constructor
  · exact s.hn
  · exact s.hpc
  · simp only [FifoCache.openPart, s.hnext]; omega
  · simp only [FifoCache.openPart, s.hnext]; omega
  · simp only [FifoCache.openPart, s.hparts, s.hnext, List.map_append, List.map_cons, List.map_nil,
      shiftPart]
    congr 3; omega
  · exact s.hindex
  · intro i hi
    simp only [FifoCache.openPart, List.map_append, List.map_cons, List.map_nil, List.mem_append,
      List.mem_singleton] at hi
    rcases hi with hi | rfl
    · exact s.hpos i hi
    · omega
  · exact s.hipos

theorem Shift.curPart_sh (s : Shift δ c1 c2) : Shift δ (curPart c1) (curPart c2) ∧ 0 < (curPart c2).cur := by
  unfold FifoCache.curPart
  rw [s.hparts, s.hcur, peek_shift, s.hpc]
  cases hp : peek c2.parts c2.cur with
  | none => exact ⟨s.openPart_sh, by simp [FifoCache.openPart]⟩
  | some p =>
    simp only [Option.map_some, shiftPart]
    split
    · obtain ⟨hp1, hp2⟩ := peek_some hp
      exact ⟨s, hp2 ▸ s.hpos _ (List.mem_map.2 ⟨p, hp1, rfl⟩)⟩
    · exact ⟨s.openPart_sh, by simp [FifoCache.openPart]⟩

theorem Shift.insertCur_sh (s : Shift δ c1 c2) (hc : 0 < c2.cur) (k : K) (v : V) :
    Shift δ (insertCur c1 k v) (insertCur c2 k v) := by
  constructor
  · exact s.hn
  · exact s.hpc
  · exact s.hnext
  · exact s.hcur
  · simp only [FifoCache.insertCur, s.hparts, s.hcur, updPart_shift]
  · simp only [FifoCache.insertCur, s.hindex, s.hcur, alSet_shiftIdx]
  · simpa [FifoCache.insertCur] using s.hpos
  · intro e he
    rcases mem_alSet he with he | rfl
    · exact s.hipos e he
    · exact hc

theorem Shift.set_sh (s : Shift δ c1 c2) (k : K) (v : V) : Shift δ (set c1 k v) (set c2 k v) := by
  have hl := s.livePart_eq k
  cases hl2 : livePart c2 k with
  | some p =>
    rw [hl2] at hl
    rw [set_of_live hl2, set_of_live hl]
    constructor
    · exact s.hn
    · exact s.hpc
    · exact s.hnext
    · exact s.hcur
    · simp only [shiftPart, s.hparts, updPart_shift]
    · exact s.hindex
    · simpa using s.hpos
    · exact s.hipos
  | none =>
    rw [hl2] at hl
    rw [set_of_absent hl2, set_of_absent hl]
    exact s.curPart_sh.1.insertCur_sh s.curPart_sh.2 k v

theorem Shift.delete_sh (s : Shift δ c1 c2) (k : K) : Shift δ (delete c1 k) (delete c2 k) := by
  unfold FifoCache.delete
  rw [s.hindex, alGet?_shiftIdx]
  cases hi : alGet? c2.index k with
  | none => exact s
  | some pid =>
    have : 0 < pid := s.hipos _ (mem_of_alGet? hi)
    have h2 : 0 < pid + δ := by omega
    simp only [Option.map_some, this, h2, if_true]
    constructor
    · exact s.hn
    · exact s.hpc
    · exact s.hnext
    · exact s.hcur
    · simp only [s.hparts, updPart_shift]
    · simp only [alErase_shiftIdx]
    · simpa using s.hpos
    · exact fun e he => s.hipos e ((alErase_sublist _ _).subset he)

theorem Shift.sweep_sh (s : Shift δ c1 c2) : Shift δ (sweep c1) (sweep c2) := by
  constructor
  · exact s.hn
  · exact s.hpc
  · exact s.hnext
  · exact s.hcur
  · simp only [FifoCache.sweep, s.hparts, s.hn, List.length_map, List.map_drop]
  · exact s.hindex
  · intro i hi
    simp only [FifoCache.sweep, List.map_drop] at hi
    exact s.hpos i (List.mem_of_mem_drop hi)
  · exact s.hipos

theorem resize_congr {c1 c2 : Cache K V} (hn : c1.n = c2.n) (hpc : c1.pc = c2.pc)
    (hg : ∀ k, get c1 k = get c2 k) (n' pc' : Nat) (o : List (List K))
    (hch : n' ≠ c2.n ∨ pc' ≠ c2.pc) : resize c1 n' pc' o = resize c2 n' pc' o := by
  have : replayPart c1 = replayPart c2 := by
    funext c ks
    unfold replayPart
    congr 2
    funext c k
    rw [hg]
  unfold resize
  rw [hn, hpc, if_pos hch, if_pos hch, this]

theorem resize_same {c : Cache K V} (n' pc' : Nat) (o : List (List K))
    (hch : ¬ (n' ≠ c.n ∨ pc' ≠ c.pc)) : resize c n' pc' o = c := by
  unfold resize; rw [if_neg hch]

/-- the bisimulation. -/
def Sim (c1 c2 : Cache K V) : Prop :=
  c1 = c2 ∨ (∃ n pc, 1 ≤ pc ∧ c1 = fresh n pc ∧ c2 = init n pc) ∨ ∃ δ, Shift δ c1 c2

theorem get_init (n pc : Nat) (k : K) : get (init n pc : Cache K V) k = default := by
  simp [get, livePart, init, alGet?]

theorem get_fresh (n pc : Nat) (k : K) : get (fresh n pc : Cache K V) k = default := by
  simp [get, livePart, fresh, alGet?]

theorem set_fresh_eq_set_init (n pc : Nat) (hpc : 1 ≤ pc) (k : K) (v : V) :
    set (fresh n pc : Cache K V) k v = set (init n pc) k v := by
  have : 0 < pc := hpc
  simp [set, livePart, fresh, init, alGet?, curPart, peek, openPart, updPart, alSet, this]

theorem sim_step {c1 c2 : Cache K V} (h : Sim c1 c2) (o : Op K V) :
    (step c1 o).2 = (step c2 o).2 ∧ Sim (step c1 o).1 (step c2 o).1 := by
  rcases h with rfl | ⟨n, pc, hpc, rfl, rfl⟩ | ⟨δ, s⟩
  · exact ⟨rfl, .inl rfl⟩
  · cases o with
    | set k v => exact ⟨rfl, .inl (set_fresh_eq_set_init n pc hpc k v)⟩
    | get k => exact ⟨by simp only [step, get_init, get_fresh], .inr (.inl ⟨n, pc, hpc, rfl, rfl⟩)⟩
    | contains k =>
      exact ⟨by simp [step, contains, livePart, init, fresh, alGet?], .inr (.inl ⟨n, pc, hpc, rfl, rfl⟩)⟩
    | delete k =>
      exact ⟨rfl, .inr (.inl ⟨n, pc, hpc, by simp [step, delete, fresh, alGet?],
        by simp [step, delete, init, alGet?]⟩)⟩
    | len => exact ⟨by simp [step, len, keys, init, fresh], .inr (.inl ⟨n, pc, hpc, rfl, rfl⟩)⟩
    | keys => exact ⟨by simp [step, keys, init, fresh], .inr (.inl ⟨n, pc, hpc, rfl, rfl⟩)⟩
    | values => exact ⟨by simp [step, values, init, fresh], .inr (.inl ⟨n, pc, hpc, rfl, rfl⟩)⟩
    | capacity => exact ⟨rfl, .inr (.inl ⟨n, pc, hpc, rfl, rfl⟩)⟩
    | clear => exact ⟨rfl, .inl rfl⟩
    | sweep =>
      refine ⟨rfl, ?_⟩
      by_cases hn : 1 ≤ n
      · refine .inr (.inl ⟨n, pc, hpc, ?_, ?_⟩)
        · simp [step, sweep, fresh, Nat.sub_eq_zero_of_le hn]
        · simp [step, sweep, init]
      · have hn0 : n = 0 := by omega
        subst hn0
        refine .inr (.inr ⟨1, ?_⟩)
        constructor <;> simp [step, sweep, fresh, init, shiftIdx]
    | resize n' pc' ord =>
      refine ⟨rfl, ?_⟩
      by_cases hch : n' ≠ n ∨ pc' ≠ pc
      · exact .inl (resize_congr (c1 := fresh n pc) (c2 := init n pc) rfl rfl
          (fun k => by rw [get_init, get_fresh]) n' pc' ord hch)
      · refine .inr (.inl ⟨n, pc, hpc, ?_, ?_⟩)
        · exact resize_same (c := fresh n pc) n' pc' ord hch
        · exact resize_same (c := init n pc) n' pc' ord hch
  · cases o with
    | set k v => exact ⟨rfl, .inr (.inr ⟨δ, s.set_sh k v⟩)⟩
    | get k => exact ⟨by simp only [step, s.get_eq], .inr (.inr ⟨δ, s⟩)⟩
    | contains k => exact ⟨by simp only [step, s.contains_eq], .inr (.inr ⟨δ, s⟩)⟩
    | delete k => exact ⟨rfl, .inr (.inr ⟨δ, s.delete_sh k⟩)⟩
    | len => exact ⟨by simp only [step, len, s.keys_eq], .inr (.inr ⟨δ, s⟩)⟩
    | keys => exact ⟨by simp only [step, s.keys_eq], .inr (.inr ⟨δ, s⟩)⟩
    | values => exact ⟨by simp only [step, s.values_eq], .inr (.inr ⟨δ, s⟩)⟩
    | capacity => exact ⟨by simp only [step, capacity, s.hn, s.hpc], .inr (.inr ⟨δ, s⟩)⟩
    | clear => exact ⟨rfl, .inl (by simp only [step, clear, s.hn, s.hpc])⟩
    | sweep => exact ⟨rfl, .inr (.inr ⟨δ, s.sweep_sh⟩)⟩
    | resize n' pc' ord =>
      refine ⟨rfl, ?_⟩
      by_cases hch : n' ≠ c2.n ∨ pc' ≠ c2.pc
      · exact .inl (resize_congr s.hn s.hpc s.get_eq n' pc' ord hch)
      · refine .inr (.inr ⟨δ, ?_⟩)
        simp only [step]
        rw [resize_same (c := c2) n' pc' ord hch, resize_same (c := c1) n' pc' ord (by rw [s.hn, s.hpc]; exact hch)]
        exact s

theorem sim_outs (ops : List (Op K V)) : ∀ {c1 c2 : Cache K V}, Sim c1 c2 → outs c1 ops = outs c2 ops := by
  induction ops with
  | nil => intros; rfl
  | cons o r ih =>
    intro c1 c2 h
    have := sim_step h o
    simp only [outs, this.1, ih this.2]

theorem clear_like_new (c : Cache K V) (hpc : 1 ≤ c.pc) (ops : List (Op K V)) :
    outs (clear c) ops = outs (init c.n c.pc : Cache K V) ops :=
  sim_outs ops (.inr (.inl ⟨c.n, c.pc, hpc, rfl, rfl⟩))

end TV.FifoCache
