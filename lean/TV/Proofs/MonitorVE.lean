import TV.Proofs.ValidationError
import TV.Monitor.ValidationError
/-! The C20 monitors decide exactly the conclusions of the C20 theorems (core-only). -/
namespace TV.VE.Mon
open TV.VE

theorem flatFaithful_iff (warn : Bool) (tree : VE) (m : SMap) :
    flatFaithful warn tree m = true ↔ (pairs m).Perm (supplied warn "" tree) := by
  simp [flatFaithful, List.isPerm_iff]

theorem errorOnce_iff (tree : VE) (ls : List String) :
    errorOnce tree ls = true ↔
      ls.Perm (((supplied false "" tree).map (fun p => "ERROR:" ++ p.2)) ++
               ((supplied true "" tree).map (fun p => "WARNING:" ++ p.2))) := by
  simp [errorOnce, List.isPerm_iff]

theorem subMultiset_iff (a b : List (String × String)) :
    subMultiset a b = true ↔ ∀ x, a.count x ≤ b.count x := by
  simp only [subMultiset, List.all_eq_true, decide_eq_true_eq]
  constructor
  · intro h x
    by_cases hx : x ∈ a
    · exact h x hx
    · rw [List.count_eq_zero_of_not_mem hx]; exact Nat.zero_le _
  · intro h x _; exact h x

theorem addContainsBoth_iff (warn : Bool) (e1 e2 : Err) (res : SMap) :
    addContainsBoth warn e1 e2 res = true ↔
      ∀ x, (suppliedErr warn e1 ++ suppliedErr warn e2).count x ≤ (pairs res).count x := by
  simp [addContainsBoth, subMultiset_iff]

end TV.VE.Mon
