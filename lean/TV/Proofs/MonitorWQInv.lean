import TV.Proofs.WorkQueueSafetyReach
/-!
# The WorkQueue ledger without side conditions

`Inv` (TV/Proofs/WorkQueueSafetyInv.lean) is established under `1 ≤ W`, `1 ≤ L`.  The part of it that the monitor
clauses need — the per-id ledger, the error ledger, the capacity bounds — holds for every `W`, `L` (with `L = 0`
the dispatcher can panic, which loses no item).  `GInv` is that part; the step proofs are those of
WorkQueueSafetyInv/StepA/StepB/StepC with the fields `wpos lpos tokCap noPanic pipe room fwHeap` dropped
(the two "pop cannot fail" branches of `tok` become ordinary branches).
-/
namespace TV.WorkQueue.MonSound
open TV.WorkQueue TV.GoHeap

structure GInv (W : Nat) (s : St) : Prop where
  hW : s.W = W
  lmax : s.L ≤ s.Lmax
  chanCap : s.chan.length ≤ W
  wrkCap : s.running.length + s.errSend.length + s.tokPend + s.exitedW ≤ W
  phase : s.ctxDone = false → s.chanClosed = false ∧ s.exitedW = 0 ∧ s.disp.live = true
  heapMax : s.ctxDone = false → s.heap.length + s.disp.hoSome ≤ s.Lmax
  loc : ∀ id, Loc s id
  monOK : MonOK s.inbox s.errored s.mon

theorem ginv_init (W L : Nat) : GInv W (init W L) := by
  constructor
  case monOK => constructor <;> intros <;> simp_all [init]
  all_goals (try simp [init, Disp.live, Disp.hoSome, Loc, held]) <;> try omega

set_option hygiene false in
/-- open the invariant of the pre-state and make the state a constructor application -/
macro "open_ginv" : tactic => `(tactic| (
  obtain ⟨hW, lmax, chanCap, wrkCap, phase, heapMax, loc, monOK⟩ := h
  obtain ⟨W0, L0, nextId, blocked, heap, chan, chanClosed, running, errSend, tokPend, tokens, exitedW, disp, mon,
    monDone, subs, adjVals, limbo, stopped, breaked, ctxDone, panicked, accepted, rejected, started, finished,
    dequeued, failed, Lmax, inbox, errored⟩ := s))

set_option hygiene false in
macro "close_ginv" x:term : tactic => `(tactic| (
  constructor
  case loc =>
    intro id
    have h1 := loc id
    have h2 := loc $x
    simp only [wqs] at h1 h2 ⊢
    grind
  case monOK => exact monOK
  all_goals (clear loc; (try dsimp only); (try simp only [wqs] at *); grind)))

theorem ginv_take {W : Nat} {s s' : St} (h : GInv W s) (hs : step? s .take = some s') : GInv W s' := by
  open_ginv
  simp only [step?] at hs
  split at hs
  · next _ it rest =>
    split at hs
    · next hfree =>
      injection hs with hs; subst hs
      simp only [freeWorkers] at hfree
      dsimp only at *
      close_ginv it.id
    · cases hs
  · cases hs

theorem ginv_enqueue {W : Nat} {s s' : St} {p : Int} {name : Nat} {adj : Bool} (h : GInv W s)
    (hs : step? s (.enqueue p name adj) = some s') : GInv W s' := by
  open_ginv
  simp only [step?] at hs
  split at hs
  · injection hs with hs; subst hs
    dsimp only at *
    close_ginv 0
  · injection hs with hs; subst hs
    dsimp only at *
    close_ginv 0

theorem ginv_tokSendDone {W : Nat} {s s' : St} (h : GInv W s) (hs : step? s .tokSendDone = some s') : GInv W s' := by
  open_ginv
  simp only [step?] at hs
  split at hs
  · injection hs with hs; subst hs
    dsimp only at *
    close_ginv 0
  · cases hs

theorem ginv_stop {W : Nat} {s s' : St} (h : GInv W s) (hs : step? s .stop = some s') : GInv W s' := by
  open_ginv
  simp only [step?] at hs
  injection hs with hs; subst hs
  dsimp only at *
  close_ginv 0

theorem ginv_break {W : Nat} {s s' : St} (h : GInv W s) (hs : step? s .break_ = some s') : GInv W s' := by
  open_ginv
  simp only [step?] at hs
  injection hs with hs; subst hs
  dsimp only at *
  close_ginv 0

theorem ginv_setAdj {W : Nat} {s s' : St} {id : Nat} {v : Int} (h : GInv W s) (hs : step? s (.setAdj id v) = some s') : GInv W s' := by
  open_ginv
  simp only [step?] at hs
  injection hs with hs; subst hs
  dsimp only at *
  close_ginv 0

theorem ginv_subscribe {W : Nat} {s s' : St} (h : GInv W s) (hs : step? s .subscribe = some s') : GInv W s' := by
  open_ginv
  simp only [step?] at hs
  injection hs with hs; subst hs
  dsimp only at *
  close_ginv 0

theorem ginv_resizeLen {W : Nat} {s s' : St} {L' : Nat} (h : GInv W s)
    (hs : step? s (.resizeLen L') = some s') : GInv W s' := by
  open_ginv
  simp only [step?] at hs
  injection hs with hs; subst hs
  dsimp only at *
  close_ginv 0

theorem ginv_recv {W : Nat} {s s' : St} {id : Nat} (h : GInv W s) (hs : step? s (.recv id) = some s') : GInv W s' := by
  open_ginv
  simp only [step?, toDrain] at hs
  split at hs
  · next _ _ it hf =>
    have hpos := cnt_pos_of_mem (findId_some hf).1
    rw [(findId_some hf).2] at hpos
    have hid := (findId_some hf).2
    dsimp only at *
    split at hs
    · split at hs
      · injection hs with hs; subst hs
        close_ginv id
      · injection hs with hs; subst hs
        close_ginv id
    · split at hs
      · injection hs with hs; subst hs
        close_ginv id
      · split at hs
        · injection hs with hs; subst hs
          close_ginv id
        · injection hs with hs; subst hs
          close_ginv id
  · cases hs

theorem ginv_finish {W : Nat} {s s' : St} {id : Nat} {err : Bool} (h : GInv W s) (hs : step? s (.finish id err) = some s') : GInv W s' := by
  open_ginv
  simp only [step?] at hs
  split at hs
  · next _ it hf =>
    try dsimp only at hf
    have hpos := cnt_pos_of_mem (findId_some hf).1
    rw [(findId_some hf).2] at hpos
    have hid := (findId_some hf).2
    have h0 := loc id
    simp only [wqs] at h0
    have hlen := length_removeId running id
    dsimp only at *
    split at hs
    · injection hs with hs; subst hs
      close_ginv id
    · injection hs with hs; subst hs
      close_ginv id
  · cases hs

theorem ginv_giveUp {W : Nat} {s s' : St} {id : Nat} (h : GInv W s) (hs : step? s (.giveUp id) = some s') : GInv W s' := by
  open_ginv
  simp only [step?] at hs
  split at hs
  · next _ it hf =>
    try dsimp only at hf
    have hpos := cnt_pos_of_mem (findId_some hf).1
    rw [(findId_some hf).2] at hpos
    dsimp only at *
    split at hs
    · injection hs with hs; subst hs
      close_ginv id
    · cases hs
  · cases hs

theorem ginv_tok {W : Nat} {s s' : St} (h : GInv W s) (hs : step? s .tok = some s') : GInv W s' := by
  open_ginv
  simp only [step?, toDrain, popOrPanic] at hs
  split at hs
  · cases hs
  · split at hs
    · -- idle
      dsimp only at *
      split at hs
      · split at hs
        · injection hs with hs; subst hs
          close_ginv 0
        · injection hs with hs; subst hs
          close_ginv 0
      · split at hs
        · injection hs with hs; subst hs
          close_ginv 0
        · split at hs
          · next _ m rest hp =>
            injection hs with hs; subst hs
            have hc := cnt_pop hp
            have hl := length_pop hp
            simp only [wqs] at hc hl
            close_ginv m.id
          · injection hs with hs; subst hs
            close_ginv 0
    · -- fullWait
      next _ it =>
      dsimp only at *
      split at hs
      · split at hs
        · injection hs with hs; subst hs
          close_ginv it.id
        · injection hs with hs; subst hs
          close_ginv it.id
      · split at hs
        · next _ m rest hp =>
          injection hs with hs; subst hs
          have hc := cnt_pop hp
          have hl := length_pop hp
          simp only [wqs] at hc hl
          close_ginv m.id
        · injection hs with hs; subst hs
          close_ginv 0
    · cases hs


theorem ginv_handOffDone {W : Nat} {s s' : St} (h : GInv W s) (hs : step? s .handOffDone = some s') : GInv W s' := by
  open_ginv
  simp only [step?] at hs
  split at hs
  · next _ m hd =>
    dsimp only at *
    split at hs
    · injection hs with hs; subst hs
      cases hd
      · close_ginv m.id
      · next it => close_ginv it.id
    · cases hs
  · cases hs

theorem ginv_ctxExit {W : Nat} {s s' : St} (h : GInv W s) (hs : step? s .ctxExit = some s') : GInv W s' := by
  open_ginv
  simp only [step?, toDrain] at hs
  split at hs
  · dsimp only at *
    split at hs
    · split at hs
      · injection hs with hs; subst hs
        close_ginv 0
      · injection hs with hs; subst hs
        close_ginv 0
    · cases hs
  · next _ it =>
    dsimp only at *
    split at hs
    · split at hs
      · injection hs with hs; subst hs
        close_ginv it.id
      · injection hs with hs; subst hs
        close_ginv it.id
    · cases hs
  · cases hs

theorem ginv_drainSend {W : Nat} {s s' : St} (h : GInv W s) (hs : step? s .drainSend = some s') : GInv W s' := by
  open_ginv
  simp only [step?] at hs
  split at hs
  · next _ it rest =>
    dsimp only at *
    split at hs
    · split at hs
      · injection hs with hs; subst hs
        close_ginv it.id
      · injection hs with hs; subst hs
        close_ginv it.id
    · cases hs
  · cases hs

theorem ginv_drainTok {W : Nat} {s s' : St} (h : GInv W s) (hs : step? s .drainTok = some s') : GInv W s' := by
  open_ginv
  simp only [step?] at hs
  split at hs
  · dsimp only at *
    split at hs
    · injection hs with hs; subst hs
      close_ginv 0
    · cases hs
  · cases hs

theorem ginv_closeChan {W : Nat} {s s' : St} (h : GInv W s) (hs : step? s .closeChan = some s') : GInv W s' := by
  open_ginv
  simp only [step?] at hs
  split at hs
  · dsimp only at *
    injection hs with hs; subst hs
    close_ginv 0
  · cases hs

theorem ginv_awaitTok {W : Nat} {s s' : St} (h : GInv W s) (hs : step? s .awaitTok = some s') : GInv W s' := by
  open_ginv
  simp only [step?] at hs
  split at hs
  · dsimp only at *
    split at hs
    · injection hs with hs; subst hs
      close_ginv 0
    · cases hs
  · cases hs

theorem ginv_workerExit {W : Nat} {s s' : St} (h : GInv W s) (hs : step? s .workerExit = some s') : GInv W s' := by
  open_ginv
  simp only [step?] at hs
  split at hs
  · next hc =>
    simp only [freeWorkers] at hc
    dsimp only at *
    injection hs with hs; subst hs
    close_ginv 0
  · cases hs

theorem ginv_allDone {W : Nat} {s s' : St} (h : GInv W s) (hs : step? s .allDone = some s') : GInv W s' := by
  open_ginv
  simp only [step?] at hs
  split at hs
  · dsimp only at *
    split at hs
    · injection hs with hs; subst hs
      close_ginv 0
    · cases hs
  · cases hs


theorem ginv_dequeue {W : Nat} {s s' : St} {id : Nat} (h : GInv W s) (hd : s.disp = .idle)
    (hs : step? s (.dequeue id) = some s') : GInv W s' := by
  open_ginv
  dsimp only at hd
  subst hd
  simp only [step?] at hs
  split at hs
  · next _ i hi =>
    dsimp only at *
    obtain ⟨hlt, hid⟩ := idxOf_some hi
    split at hs
    · next _ x rest hr =>
      injection hs with hs; subst hs
      have hx := (remove_some less heap i x rest hr).1
      have hxid : x.id = id := by
        rw [List.getElem?_eq_getElem hlt] at hx
        injection hx with hx; rw [← hx]; exact hid
      have hc := cnt_remove hr
      have hl := length_remove hr
      close_ginv id
    · next _ hr =>
      exfalso
      have := remove_isSome less heap i hlt
      rw [hr] at this
      cases this
  · injection hs with hs; subst hs
    close_ginv 0


theorem ginv_setPrio {W : Nat} {s s' : St} {id : Nat} {p : Int} (h : GInv W s) (hd : s.disp = .idle)
    (hs : step? s (.setPrio id p) = some s') : GInv W s' := by
  open_ginv
  dsimp only at hd
  subst hd
  simp only [step?] at hs
  split at hs
  · injection hs with hs; subst hs
    close_ginv 0
  · split at hs
    · next _ i hi =>
      dsimp only at *
      split at hs
      · next _ it hit =>
        injection hs with hs; subst hs
        have hc := cnt_fix_set heap i it p hit
        have hl := length_fix_set heap i { it with prio := p }
        close_ginv 0
      · injection hs with hs; subst hs
        close_ginv 0
    · injection hs with hs; subst hs
      dsimp only at *
      close_ginv 0


set_option hygiene false in
/-- like `close_ginv`, with the new error ledger `hmon` supplied -/
macro "close_ginv_mon" x:term : tactic => `(tactic| (
  constructor
  case loc =>
    intro id
    have h1 := loc id
    have h2 := loc $x
    simp only [wqs] at h1 h2 ⊢
    grind
  case monOK => exact hmon
  all_goals (clear loc; (try dsimp only); (try simp only [wqs] at *); grind)))

theorem ginv_errRecv {W : Nat} {s s' : St} {id : Nat} (h : GInv W s) (hs : step? s (.errRecv id) = some s') : GInv W s' := by
  open_ginv
  simp only [step?] at hs
  split at hs
  · next _ _ it hf =>
    have hpos := cnt_pos_of_mem (findId_some hf).1
    rw [(findId_some hf).2] at hpos
    have h0 := loc id
    simp only [wqs] at h0
    have hlen := length_removeId errSend id
    dsimp only at *
    injection hs with hs; subst hs
    have hmon := monOK_errRecv (id := id) (subs := subs) monOK (by omega)
    close_ginv_mon id
  · cases hs

theorem ginv_subRecv {W : Nat} {s s' : St} {sub : Nat} (h : GInv W s) (hs : step? s (.subRecv sub) = some s') : GInv W s' := by
  open_ginv
  simp only [step?] at hs
  split at hs
  · next _ e x rest =>
    dsimp only at *
    split at hs
    · next hx =>
      subst hx
      injection hs with hs; subst hs
      have hmon := monOK_subRecv monOK (fun id => by have := loc id; simp only [wqs] at this; omega)
      close_ginv_mon 0
    · cases hs
  · cases hs

theorem ginv_monExit {W : Nat} {s s' : St} (h : GInv W s) (hs : step? s .monExit = some s') : GInv W s' := by
  open_ginv
  simp only [step?] at hs
  split at hs
  · dsimp only at *
    split at hs
    · injection hs with hs; subst hs
      have hmon := monOK_monExit monOK
      close_ginv_mon 0
    · cases hs
  · cases hs


theorem ginv_step {W : Nat} {s s' : St} {a : Act} (h : GInv W s) (hok : actOK s a) (hs : step? s a = some s') :
    GInv W s' := by
  cases a with
  | enqueue p n adj => exact ginv_enqueue h hs
  | finish id err => exact ginv_finish h hs
  | setAdj id v => exact ginv_setAdj h hs
  | subscribe => exact ginv_subscribe h hs
  | subRecv sub => exact ginv_subRecv h hs
  | resizeLen L' => exact ginv_resizeLen h hs
  | dequeue id => exact ginv_dequeue h hok hs
  | setPrio id p => exact ginv_setPrio h hok hs
  | stop => exact ginv_stop h hs
  | break_ => exact ginv_break h hs
  | recv id => exact ginv_recv h hs
  | tok => exact ginv_tok h hs
  | handOffDone => exact ginv_handOffDone h hs
  | take => exact ginv_take h hs
  | errRecv id => exact ginv_errRecv h hs
  | tokSendDone => exact ginv_tokSendDone h hs
  | giveUp id => exact ginv_giveUp h hs
  | ctxExit => exact ginv_ctxExit h hs
  | drainSend => exact ginv_drainSend h hs
  | drainTok => exact ginv_drainTok h hs
  | closeChan => exact ginv_closeChan h hs
  | awaitTok => exact ginv_awaitTok h hs
  | workerExit => exact ginv_workerExit h hs
  | allDone => exact ginv_allDone h hs
  | monExit => exact ginv_monExit h hs

/-- the ledger holds in every reachable state, whatever `W` and `L`. -/
theorem ginv_reach {W L : Nat} {s : St} (hr : Reach W L s) : GInv W s := by
  induction hr with
  | init => exact ginv_init W L
  | step a _ hok hs ih => exact ginv_step ih hok hs

end TV.WorkQueue.MonSound
