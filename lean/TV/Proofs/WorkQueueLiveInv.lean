import TV.Proofs.WorkQueueLiveIds
/-! WorkQueue LTS — the counter / phase invariant behind the no-deadlock theorems. -/
namespace TV.WorkQueue.Live
open TV.GoHeap

theorem length_push (l : List Item) (x : Item) : (GoHeap.push less l x).length = l.length + 1 := by
  simp [GoHeap.push]

theorem length_initLoop {α : Type} (less : α → α → Bool) (k : Nat) (l : List α) :
    (GoHeap.initLoop less k l).length = l.length := by
  induction k generalizing l with
  | zero => rfl
  | succ k ih => simp [GoHeap.initLoop, ih]

theorem length_init {α : Type} (less : α → α → Bool) (l : List α) : (GoHeap.init less l).length = l.length := by
  simp [GoHeap.init, length_initLoop]

theorem length_adjustAll (s : St) (h : List Item) : (adjustAll s h).length = h.length := by
  unfold adjustAll; simp only []; split <;> simp [length_init]

theorem length_pop {l : List Item} {m : Item} {rest : List Item} (h : GoHeap.pop less l = some (m, rest)) :
    rest.length + 1 = l.length := by
  unfold GoHeap.pop at h
  split at h
  · simp at h
  · rename_i hne
    simp only [] at h
    split at h
    · simp only [Option.some.injEq, Prod.mk.injEq] at h
      obtain ⟨-, rfl⟩ := h
      have : 0 < l.length := by
        cases l with
        | nil => simp at hne
        | cons a t => simp
      simp; omega
    · simp at h

theorem pop_ne_none {l : List Item} (hl : 0 < l.length) : GoHeap.pop less l ≠ none := by
  unfold GoHeap.pop
  split
  · rename_i he; cases l <;> simp at he hl
  · simp only []
    split
    · simp
    · rename_i hn
      rw [List.getLast?_eq_none_iff] at hn
      have := congrArg List.length hn
      simp only [length_down, length_swap, List.length_nil] at this; omega

theorem removeId_lt {l : List Item} {id : Nat} {it : Item} (h : findId l id = some it) :
    (removeId l id).length + 1 ≤ l.length := by
  have h1 := (findId_some h).2
  have h4 := length_removeId l id
  omega

/-! ### the invariant -/

def dHand : Disp → Nat
  | .handOff _ _ => 1
  | _ => 0
def dHold : Disp → Bool
  | .fullWait _ => true
  | .handOff _ (some _) => true
  | _ => false
def dLoop : Disp → Bool
  | .idle => true
  | .fullWait _ => true
  | .handOff _ _ => true
  | _ => false
def dClosed : Disp → Bool
  | .await => true
  | .exited => true
  | _ => false
def dFW : Disp → Bool
  | .fullWait _ => true
  | _ => false

/-- number of work items / completion tokens inside the worker pool pipeline. -/
def pipeN (s : St) : Nat := s.chan.length + s.running.length + s.errSend.length + s.tokPend + s.tokens

structure CInv (W : Nat) (s : St) : Prop where
  hW : s.W = W
  wpos : 1 ≤ W
  lpos : 1 ≤ s.L
  capC : s.chan.length ≤ W
  capT : s.tokens ≤ W
  capW : s.running.length + s.errSend.length + s.tokPend + s.exitedW ≤ W
  phase : s.ctxDone = false → dLoop s.disp = true
  closed : s.chanClosed = dClosed s.disp
  mdone : s.monDone = true → s.disp = .exited
  mexit : s.mon = .exited → s.monDone = true
  exited0 : s.chanClosed = false → s.exitedW = 0
  fwHeap : dFW s.disp = true → 0 < s.heap.length
  pipe : s.ctxDone = false → (0 < s.heap.length ∨ dHold s.disp = true) → W ≤ pipeN s + dHand s.disp
  room : pipeN s + dHand s.disp ≤ 3 * W

theorem CInv_init {W L : Nat} (hW : 1 ≤ W) (hL : 1 ≤ L) : CInv W (init W L) := by
  constructor <;> (try simp [init, dLoop, dClosed, dFW, dHold, dHand, pipeN]) <;> omega

theorem toDrain_CInv {W : Nat} {s : St} (hc : s.ctxDone = true) (hd : dLoop s.disp = true) (hh : dHand s.disp = 0)
    (inv : CInv W s) : CInv W (toDrain s) := by
  obtain ⟨hW, wpos, lpos, capC, capT, capW, phase, closed, mdone, mexit, exited0, fwHeap, pipe, room⟩ := inv
  have hcl : dClosed s.disp = false := by cases hdd : s.disp <;> simp_all [dLoop, dClosed]
  have hne : s.disp ≠ .exited := by intro e; simp [e, dLoop] at hd
  unfold toDrain
  split <;> constructor <;> simp_all [dLoop, dClosed, dFW, dHold, dHand, pipeN]

local macro "cinv_close" : tactic =>
  `(tactic| (constructor <;> grind [dLoop, dClosed, dFW, dHold, dHand, pipeN, length_push]))

local macro "cinv_open" inv:ident : tactic =>
  `(tactic| obtain ⟨hW, wpos, lpos, capC, capT, capW, phase, closed, mdone, mexit, exited0, fwHeap, pipe, room⟩ := $inv)

theorem CInv_tok {W : Nat} {s s' : St} (inv : CInv W s) (h : step? s .tok = some s') : CInv W s' := by
  simp only [step?] at h
  split at h
  · simp at h
  · rename_i htok
    split at h
    · rename_i hd
      split at h
      · simp only [Option.some.injEq] at h; subst h
        apply toDrain_CInv <;> try simp_all [dLoop, dHand]
        cinv_open inv
        cinv_close
      · split at h
        · simp only [Option.some.injEq] at h; subst h
          cinv_open inv
          cinv_close
        · rename_i hne
          have hpos : 0 < s.heap.length := by cases hh : s.heap <;> simp_all
          split at h
          · rename_i hp
            have hl := length_pop hp
            rw [length_adjustAll] at hl
            simp only [Option.some.injEq] at h; subst h
            cinv_open inv
            cinv_close
          · rename_i hp
            exact absurd hp (pop_ne_none (by rw [length_adjustAll]; exact hpos))
    · rename_i it hd
      split at h
      · simp only [Option.some.injEq] at h; subst h
        apply toDrain_CInv <;> try simp_all [dLoop, dHand]
        cinv_open inv
        cinv_close
      · have hpos : 0 < s.heap.length := inv.fwHeap (by simp [hd, dFW])
        split at h
        · rename_i hp
          have hl := length_pop hp
          rw [length_adjustAll] at hl
          simp only [Option.some.injEq] at h; subst h
          cinv_open inv
          cinv_close
        · rename_i hp
          exact absurd hp (pop_ne_none (by rw [length_adjustAll]; exact hpos))
    · simp at h

theorem CInv_recv {W : Nat} {s s' : St} {id : Nat} (inv : CInv W s) (h : step? s (.recv id) = some s') : CInv W s' := by
  simp only [step?] at h
  split at h
  · rename_i it hd hf
    have hlt := removeId_lt hf
    split at h
    · simp only [Option.some.injEq] at h; subst h
      apply toDrain_CInv <;> try simp_all [dLoop, dHand]
      cinv_open inv
      cinv_close
    · split at h
      · simp only [Option.some.injEq] at h; subst h
        cinv_open inv
        cinv_close
      · rename_i hcond
        have hcase : 0 < s.heap.length ∨ s.W ≤ s.chan.length := by
          have := inv.closed
          cases hh : s.heap <;> simp_all [dClosed]
        split at h <;> (simp only [Option.some.injEq] at h; subst h; cinv_open inv; cinv_close)
  · simp at h

theorem CInv_handOffDone {W : Nat} {s s' : St} (inv : CInv W s) (h : step? s .handOffDone = some s') : CInv W s' := by
  simp only [step?] at h
  split at h
  · rename_i m held hd
    split at h
    · simp only [Option.some.injEq] at h; subst h
      cinv_open inv
      cases held <;> cinv_close
    · simp at h
  · simp at h

theorem CInv_take {W : Nat} {s s' : St} (inv : CInv W s) (h : step? s .take = some s') : CInv W s' := by
  simp only [step?] at h
  split at h
  · rename_i it rest hc
    split at h
    · rename_i hfree
      simp only [freeWorkers] at hfree
      simp only [Option.some.injEq] at h; subst h
      cinv_open inv
      cinv_close
    · simp at h
  · simp at h

theorem cnt_le_cntAll_running (s : St) (j : Nat) : cnt s.running j ≤ cntAll s j := by
  simp only [cntAll]; omega
theorem cnt_le_cntAll_errSend (s : St) (j : Nat) : cnt s.errSend j ≤ cntAll s j := by
  simp only [cntAll]; omega

theorem CInv_finish {W : Nat} {s s' : St} {id : Nat} {err : Bool} (ids : IdInv s) (inv : CInv W s)
    (h : step? s (.finish id err) = some s') : CInv W s' := by
  simp only [step?] at h
  split at h
  · rename_i it hf
    have hex := removeId_exact ids (cnt_le_cntAll_running s) hf
    split at h <;> (simp only [Option.some.injEq] at h; subst h; cinv_open inv; cinv_close)
  · simp at h

theorem CInv_errRecv {W : Nat} {s s' : St} {id : Nat} (ids : IdInv s) (inv : CInv W s)
    (h : step? s (.errRecv id) = some s') : CInv W s' := by
  simp only [step?] at h
  split at h
  · rename_i it hm hf
    have hex := removeId_exact ids (cnt_le_cntAll_errSend s) hf
    simp only [Option.some.injEq] at h; subst h; cinv_open inv; cinv_close
  · simp at h

theorem CInv_ctxExit {W : Nat} {s s' : St} (inv : CInv W s) (h : step? s .ctxExit = some s') : CInv W s' := by
  simp only [step?] at h
  split at h
  · rename_i hd
    split at h
    · simp only [Option.some.injEq] at h; subst h
      apply toDrain_CInv <;> simp_all [dLoop, dHand]
    · simp at h
  · rename_i it hd
    split at h
    · simp only [Option.some.injEq] at h; subst h
      apply toDrain_CInv <;> try simp_all [dLoop, dHand]
      cinv_open inv
      cinv_close
    · simp at h
  · simp at h

theorem CInv_enqueue {W : Nat} {s s' : St} {p : Int} {name : Nat} {adj : Bool} (inv : CInv W s)
    (h : step? s (.enqueue p name adj) = some s') : CInv W s' := by
  simp only [step?] at h
  split at h <;> (simp only [Option.some.injEq] at h; subst h; cinv_open inv; cinv_close)

theorem CInv_dequeue {W : Nat} {s s' : St} {id : Nat} (inv : CInv W s) (hok : s.disp = .idle)
    (h : step? s (.dequeue id) = some s') : CInv W s' := by
  simp only [step?] at h
  split at h
  · rename_i i hi
    have hpos := idxOf_some hi
    split at h <;> (simp only [Option.some.injEq] at h; subst h; cinv_open inv; cinv_close)
  · simp only [Option.some.injEq] at h; subst h; exact inv

theorem CInv_setPrio {W : Nat} {s s' : St} {id : Nat} {p : Int} (inv : CInv W s) (hok : s.disp = .idle)
    (h : step? s (.setPrio id p) = some s') : CInv W s' := by
  simp only [step?] at h
  split at h
  · simp only [Option.some.injEq] at h; subst h; exact inv
  · split at h
    · rename_i i hi
      have hpos := idxOf_some hi
      split at h
      · simp only [Option.some.injEq] at h; subst h; cinv_open inv; cinv_close
      · simp only [Option.some.injEq] at h; subst h; exact inv
    · simp only [Option.some.injEq, hok] at h; subst h; cinv_open inv
      have hla : (adjustAll s s.heap).length = s.heap.length := length_adjustAll s s.heap
      constructor <;> grind [dLoop, dClosed, dFW, dHold, dHand, pipeN, List.length_map]

theorem CInv_step {W : Nat} {s s' : St} {a : Act} (ids : IdInv s) (inv : CInv W s) (hok : actOK s a)
    (h : step? s a = some s') : CInv W s' := by
  cases a
  case enqueue => exact CInv_enqueue inv h
  case recv => exact CInv_recv inv h
  case tok => exact CInv_tok inv h
  case handOffDone => exact CInv_handOffDone inv h
  case take => exact CInv_take inv h
  case finish => exact CInv_finish ids inv h
  case errRecv => exact CInv_errRecv ids inv h
  case ctxExit => exact CInv_ctxExit inv h
  case dequeue => exact CInv_dequeue inv hok h
  case setPrio => exact CInv_setPrio inv hok h
  case workerExit =>
    simp only [step?] at h
    split at h
    · rename_i hc
      simp only [freeWorkers] at hc
      simp only [Option.some.injEq] at h; subst h; cinv_open inv; cinv_close
    · simp at h
  all_goals (
    simp only [step?] at h
    try simp only [actOK] at hok
    (repeat' split at h) <;> first | (simp at h; done) | (simp only [Option.some.injEq] at h; subst h; cinv_open inv; cinv_close))

theorem CInv_reach {W L : Nat} (hW : 1 ≤ W) (hL : 1 ≤ L) {s : St} (h : Reach W L s) : CInv W s := by
  induction h with
  | init => exact CInv_init hW hL
  | step a hr hok hs ih => exact CInv_step (IdInv_reach hr) ih hok hs

end TV.WorkQueue.Live
