import TV.Model.StopRetry
namespace TV.StopRetry

theorem sum_zero (n : Nat) (f : Nat → Nat) (h : ∀ i, i < n → f i = 0) : ((List.range n).map f).sum = 0 := by
  induction n with
  | zero => simp
  | succ m ih =>
    rw [List.range_succ, List.map_append, List.sum_append, ih (fun i hi => h i (by omega))]
    simp [h m (by omega)]

/-- invariant: an ample call in progress has met no error and has found every provider it passed idle; every finished
    ample call returned nil with nothing running. -/
def Inv (s : St) : Prop :=
  (∀ k e, s.stopping = some (k, true, e) → e = false ∧ ∀ i, i < k → i < s.n → s.inflight i = 0) ∧
  (∀ r ∈ s.returned, r.1 = true → r.2.1 = false ∧ r.2.2 = 0)

theorem inv_init (n f) : Inv (init n f) := by
  constructor
  · intro k e h; simp [init] at h
  · intro r h; simp [init] at h

theorem inv_step (s s' : St) (a : Act) (hi : Inv s) (hs : step? s a = some s') : Inv s' := by
  obtain ⟨h1, h2⟩ := hi
  cases a with
  | stopCall am =>
    simp only [step?] at hs
    split at hs
    · cases hs
      refine ⟨?_, h2⟩
      intro k e h
      simp at h
      obtain ⟨rfl, rfl, rfl⟩ := h
      exact ⟨rfl, fun i hi => by omega⟩
    · cases hs
  | provStop =>
    simp only [step?] at hs
    split at hs
    · cases hs
    · rename_i k am e hst
      split at hs
      · rename_i hk
        split at hs
        · rename_i hz
          cases hs
          refine ⟨?_, h2⟩
          intro k' e' h
          simp at h
          obtain ⟨rfl, rfl, rfl⟩ := h
          obtain ⟨he, hz'⟩ := h1 k e hst
          refine ⟨he, fun i hi hn => ?_⟩
          by_cases hik : i = k
          · subst hik; exact hz
          · exact hz' i (by omega) hn
        · split at hs
          · rename_i ha
            cases hs
            refine ⟨?_, h2⟩
            intro k' e' h
            simp at h
            obtain ⟨_, h', _⟩ := h
            subst ha
            cases h'
          · cases hs
      · rename_i hk
        cases hs
        refine ⟨by intro k' e' h; simp at h, ?_⟩
        intro r hr
        simp at hr
        rcases hr with rfl | hr
        · intro ha
          simp at ha
          subst ha
          obtain ⟨he, hz⟩ := h1 k e hst
          refine ⟨he, ?_⟩
          exact sum_zero s.n s.inflight (fun i hi => hz i (by omega) hi)
        · exact h2 r hr
  | finishReq i =>
    simp only [step?] at hs
    split at hs
    · rename_i hg
      cases hs
      refine ⟨?_, h2⟩
      intro k e h
      obtain ⟨he, hz⟩ := h1 k e h
      refine ⟨he, fun j hj hn => ?_⟩
      simp only
      split
      · rename_i hji; subst hji; have := hz j hj hn; omega
      · exact hz j hj hn
    · cases hs

theorem inv_reach (n f s) (h : Reach n f s) : Inv s := by
  induction h with
  | init => exact inv_init n f
  | step a _ hs ih => exact inv_step _ _ a ih hs

/-- every Stop call with an ample context — the first or a later one, whatever earlier calls gave up on — returns nil,
    and only when no request is running any more. -/
theorem retried_stop_waits (n : Nat) (f : Nat → Nat) (s : St) (h : Reach n f s) :
    ∀ r ∈ s.returned, r.1 = true → r.2.1 = false ∧ r.2.2 = 0 := (inv_reach n f s h).2

/-- a Stop call in progress is never stuck: it can move on, or it is waiting (ample context) for a running request of
    the provider it is at, and that request can complete. -/
theorem retried_stop_progress (n : Nat) (f : Nat → Nat) (s : St) (_h : Reach n f s) (k : Nat) (a e : Bool)
    (hs : s.stopping = some (k, a, e)) :
    (step? s .provStop).isSome = true ∨ (a = true ∧ k < s.n ∧ 0 < s.inflight k ∧ (step? s (.finishReq k)).isSome = true) := by
  by_cases hk : k < s.n
  · by_cases hz : s.inflight k = 0
    · left; simp [step?, hs, hk, hz]
    · cases a with
      | false => left; simp [step?, hs, hk, hz]
      | true => right; refine ⟨rfl, hk, by omega, ?_⟩; simp [step?, hk]; omega
  · left; simp [step?, hs, hk]

/-- a call that gave up leaves the requests running: an expired Stop never changes `inflight`. -/
theorem expired_stop_cuts_nothing (s s' : St) (hs : step? s .provStop = some s') : s'.inflight = s.inflight := by
  simp only [step?] at hs
  split at hs
  · cases hs
  · split at hs
    · split at hs
      · cases hs; rfl
      · split at hs
        · cases hs; rfl
        · cases hs
    · cases hs; rfl

/-! non-vacuity: two providers, two requests running on the first; a first Stop with an expired context gives up with an
    error and both still running; the second, ample one cannot return before both have completed, and returns nil. -/
example : ∃ s, runActs (init 2 (fun i => if i = 0 then 2 else 0))
    [.stopCall false, .provStop, .provStop, .provStop, .stopCall true] = some s ∧
    s.returned = [(false, true, 2)] ∧ (step? s .provStop).isNone = true := ⟨_, rfl, by decide, by decide⟩

example : ∃ s, runActs (init 2 (fun i => if i = 0 then 2 else 0))
    [.stopCall false, .provStop, .provStop, .provStop, .stopCall true, .finishReq 0, .finishReq 0, .provStop, .provStop, .provStop] = some s ∧
    s.returned = [(true, false, 0), (false, true, 2)] := ⟨_, rfl, by decide⟩

end TV.StopRetry
