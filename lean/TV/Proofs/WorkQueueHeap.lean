import TV.Model.WorkQueue
import TV.Proofs.GoHeap
import TV.Proofs.WorkQueueHeapLemmas
/-! WorkQueue LTS — Heap obligations. Each `theorem` below is re-exported verbatim by TV/Properties/Cxx.lean.
    The work is in TV/Proofs/WorkQueueHeapLemmas.lean. -/
namespace TV.WorkQueue
open TV.GoHeap

namespace Heap

theorem C05_less_is_lexicographic :
    StrictWeak less ∧ (∀ a b : Item, less a b = false → less b a = false → a.prio = b.prio ∧ a.id = b.id) ∧
    (∀ a b : Item, less a b = true ↔ (a.prio < b.prio ∨ (a.prio = b.prio ∧ a.id < b.id))) := by
  refine ⟨strictWeak_less, ?_, less_iff⟩
  intro a b h1 h2
  rw [less_false_iff] at h1 h2
  omega

theorem C05_heap_invariant :
    ∀ (W L : Nat) (_ : 1 ≤ W) (_ : 1 ≤ L) (s : St) (_ : Reach W L s), IsHeap less s.heap :=
  fun _ _ _ _ _ hr => heap_invariant hr

theorem C05_adjust_consults_all :
    ∀ (s : St) (h : List Item),
    (adjustAll s h).Perm (h.map (fun it => if it.adj then { it with prio := adjVal s it } else it)) ∧
    (IsHeap less h → IsHeap less (adjustAll s h)) :=
  fun s h => ⟨adjustAll_perm s h, adjustAll_isHeap s h⟩

theorem C05_pop_is_min :
    ∀ (W L : Nat) (_ : 1 ≤ W) (_ : 1 ≤ L) (s : St) (_ : Reach W L s) (s' : St) (m : Item) (held : Option Item), step? s .tok = some s' → s'.disp = .handOff m held →
    (∀ m0 h0, s.disp ≠ .handOff m0 h0) →
    (m :: s'.heap).Perm (adjustAll s s.heap) ∧ ∀ x ∈ adjustAll s s.heap, less x m = false :=
  fun _ _ _ _ _ hr s' m held hs hd hno => pop_is_min hr s' m held hs hd hno

theorem C05_direct_only_when_empty :
    ∀ (s s' : St) (id : Nat), step? s (.recv id) = some s' → s'.chan.length = s.chan.length + 1 → s.ctxDone = false → s.heap = [] :=
  direct_only_when_empty

theorem C16_dequeue_removes_exactly :
    ∀ (W L : Nat) (_ : 1 ≤ W) (_ : 1 ≤ L) (s : St) (_ : Reach W L s) (s' : St) (id : Nat), id ∈ s.heap.map (·.id) → step? s (.dequeue id) = some s' →
    s'.dequeued = s.dequeued ++ [id] ∧ (id :: s'.heap.map (·.id)).Perm (s.heap.map (·.id)) ∧ IsHeap less s'.heap ∧
    s'.chan = s.chan ∧ s'.running = s.running ∧ s'.blocked = s.blocked ∧ s'.started = s.started ∧ s'.panicked = s.panicked :=
  fun _ _ _ _ _ hr s' id hm hs => dequeue_removes_exactly hr s' id hm hs

theorem C16_setprio_waiting :
    ∀ (W L : Nat) (_ : 1 ≤ W) (_ : 1 ≤ L) (s : St) (_ : Reach W L s) (s' : St) (id : Nat) (p : Int), id ∈ s.heap.map (·.id) → (∀ x ∈ s.heap, x.adj = false) → inProgress s id = false →
    ((s.heap.map (·.id)).Nodup) → step? s (.setPrio id p) = some s' →
    s'.heap.Perm (s.heap.map (fun x => if x.id = id then { x with prio := p } else x)) ∧ IsHeap less s'.heap :=
  fun _ _ _ _ _ hr s' id p hm hna hip hn hs => setprio_waiting hr s' id p hm hna hip hn hs

end Heap
end TV.WorkQueue
