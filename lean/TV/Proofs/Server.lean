import TV.Model.Middleware
import TV.Model.ServerLifecycle
import TV.Proofs.ServerMw
import TV.Proofs.ServerLcFinal
import TV.Proofs.StopRetry
/-! Server — proof obligations, re-exported verbatim by TV/Properties/C17.lean and C18.lean. -/
namespace TV.Server
namespace Proofs

open TV.Middleware in
theorem C17_bundle_order :
    ∀ (ms : List Middleware) (h : Handler), bundle ms h = ms.foldr (fun m acc => m acc) h := MwProofs.bundle_order

open TV.Middleware in
theorem C17_recording_trace :
    ∀ (names : List String) (h : Handler) (r : Req),
    (bundle (names.map recording) h r).1 = names.map ("enter " ++ ·) ++ (h r).1 ++ names.reverse.map ("leave " ++ ·) ∧
    (bundle (names.map recording) h r).2 = (h r).2 := by
  intro names h r
  rw [MwProofs.bundle_order]
  exact MwProofs.recording_foldr names h r

open TV.Middleware in
theorem C17_log_transparent :
    ∀ (h : Handler) (r : Req), logRequest h r = h r ∧ logResponse h r = h r ∧ logRequest (logResponse h) r = h r := fun _ _ => ⟨rfl, rfl, rfl⟩

open TV.Middleware in
theorem C17_chain_transparent :
    ∀ (names : List String) (id : Nat) (r : Req), (bundle (names.map mwOf) (handlerOf id) r).2 = (handlerOf id r).2 ∧
    (bundle (names.map mwOf) (handlerOf id) r).1 =
      (names.filter (fun n => n != "LOGREQ" && n != "LOGRESP")).map ("enter " ++ ·) ++ (handlerOf id r).1 ++
      ((names.filter (fun n => n != "LOGREQ" && n != "LOGRESP")).reverse).map ("leave " ++ ·) := by
  intro names id r
  rw [MwProofs.bundle_order]
  exact MwProofs.chain_foldr names (handlerOf id) r

open TV.Middleware in
theorem C17_routes_served :
    ∀ (routes : List Route) (r : Route), r ∈ routes →
    (routes.map (fun x => (x.method, x.path))).Nodup → dispatch routes r.method r.path = .handler r.handler := by
  intro routes r hr hnd
  unfold dispatch
  rw [MwProofs.find_route routes r hr hnd]

open TV.Middleware in
theorem longest_none {l : List Route} (h : longest l = none) : l = [] := by
  cases l with
  | nil => rfl
  | cons a rest =>
    simp only [longest] at h
    split at h
    · split at h <;> cases h
    · cases h

open TV.Middleware in
theorem longest_spec : ∀ (l : List Route) (q : Route), longest l = some q → q ∈ l ∧ ∀ r ∈ l, r.path.length ≤ q.path.length := by
  intro l
  induction l with
  | nil => intro q h; cases h
  | cons a rest ih =>
    intro q h
    simp only [longest] at h
    cases hr : longest rest with
    | none =>
      rw [hr] at h
      simp only [Option.some.injEq] at h
      subst h
      have := longest_none hr
      subst this
      exact ⟨List.mem_cons_self, by intro r hr'; simp at hr'; subst hr'; exact Nat.le_refl _⟩
    | some q' =>
      rw [hr] at h
      obtain ⟨hq', hmax⟩ := ih q' hr
      by_cases hlt : a.path.length < q'.path.length
      · simp only [if_pos hlt, Option.some.injEq] at h
        subst h
        refine ⟨List.mem_cons_of_mem _ hq', ?_⟩
        intro r hr'
        rcases List.mem_cons.mp hr' with rfl | hr'
        · omega
        · exact hmax r hr'
      · simp only [if_neg hlt, Option.some.injEq] at h
        subst h
        refine ⟨List.mem_cons_self, ?_⟩
        intro r hr'
        rcases List.mem_cons.mp hr' with rfl | hr'
        · exact Nat.le_refl _
        · have := hmax r hr'; omega

open TV.Middleware in
theorem C17_others_rejected :
    ∀ (routes : List Route) (m p : String), (∀ r ∈ routes, ¬ (r.method = m ∧ patMatches r.path p = true)) →
    dispatch routes m p = (if routes.any (fun r => patMatches r.path p) then .methodNotAllowed else .notFound) := by
  intro routes m p hno
  unfold dispatch
  have h1 : routes.find? (fun r => r.method == m && r.path == p) = none := by
    rw [List.find?_eq_none]
    intro r hr
    have := hno r hr
    simp only [Bool.and_eq_true, beq_iff_eq, not_and]
    intro hm hp
    apply this
    exact ⟨hm, by simp [patMatches, hp]⟩
  have h2 : routes.filter (fun r => r.method == m && r.path.endsWith "/" && p.startsWith r.path) = [] := by
    rw [List.filter_eq_nil_iff]
    intro r hr
    have := hno r hr
    simp only [Bool.and_eq_true, beq_iff_eq]
    intro h
    obtain ⟨⟨hm, he⟩, hs⟩ := h
    apply this
    exact ⟨hm, by simp [patMatches, he, hs]⟩
  rw [h1, h2]
  rfl

open TV.Middleware in
theorem C17_subtree_served :
    ∀ (routes : List Route) (m p : String), (∀ r ∈ routes, ¬ (r.method = m ∧ r.path = p)) →
    ∀ q, longest (routes.filter (fun r => r.method == m && r.path.endsWith "/" && p.startsWith r.path)) = some q →
    dispatch routes m p = .handler q.handler ∧ q ∈ routes ∧ q.method = m ∧ p.startsWith q.path = true ∧
    ∀ r ∈ routes, r.method = m → r.path.endsWith "/" = true → p.startsWith r.path = true → r.path.length ≤ q.path.length := by
  intro routes m p hno q hq
  have h1 : routes.find? (fun r => r.method == m && r.path == p) = none := by
    rw [List.find?_eq_none]
    intro r hr
    simpa using hno r hr
  obtain ⟨hmem, hmax⟩ := longest_spec _ q hq
  rw [List.mem_filter] at hmem
  obtain ⟨hqr, hqc⟩ := hmem
  simp only [Bool.and_eq_true, beq_iff_eq] at hqc
  refine ⟨?_, hqr, hqc.1.1, hqc.2, ?_⟩
  · unfold dispatch
    rw [h1, hq]
  · intro r hr hm he hs
    apply hmax
    rw [List.mem_filter]
    exact ⟨hr, by simp [hm, he, hs]⟩

open TV.Middleware in
theorem C17_each_listener_has_its_router :
    ∀ (cfg : Config) (l : Listener) (m p : String), serve cfg l m p = (match l with | .http => cfg.httpRoutes | .https => cfg.httpsRoutes).map (fun rs => dispatch rs m p) := by
  intro cfg l m p
  cases l <;> rfl

open TV.ServerLifecycle in
theorem C18_wg_balanced :
    ∀ (n : Nat) (s : St), Reach n s → 0 ≤ s.stopWg ∧
    s.stopWg = ((s.provs.zipIdx.filter (fun (p, i) => (match s.caller with | .idle => false | .spawning k => decide (i < k) | _ => true) && p.pc != .returned)).length : Int) := fun _ _ hr => LcProofs.wg_balanced hr

open TV.ServerLifecycle in
theorem C18_no_deadlock :
    ∀ (n : Nat) (s : St), Reach n s → s.caller ≠ .idle → s.caller ≠ .startReturned → (∀ e, s.caller ≠ .stopReturned e) →
    ∃ a ∈ allActs s, (step? s a).isSome = true := fun _ _ hr h1 h2 h3 => LcProofs.no_deadlock hr h1 h2 h3

open TV.ServerLifecycle in
theorem C18_stop_complete :
    ∀ (n : Nat) (s : St) (err : Bool), Reach n s → s.caller = .stopReturned err →
    s.stopWg = 0 ∧ ∀ p ∈ s.provs, p.pc = .returned ∧ p.srv = .closed ∧ p.shutdownCalled = true := fun _ _ err hr hc => LcProofs.stop_complete err hr hc

open TV.ServerLifecycle in
theorem C18_waits_for_inflight :
    ∀ (n : Nat) (s : St), Reach n s → s.ctxAmple = true → s.aborted = 0 ∧ ((∃ e, s.caller = .stopReturned e) → ∀ p ∈ s.provs, p.inflight = 0) := fun _ _ hr hctx => LcProofs.waits_for_inflight hr hctx

open TV.ServerLifecycle in
theorem C18_start_signals_all :
    ∀ (n : Nat) (s : St), Reach n s → (s.caller = .startReturned ∨ (∃ k e, s.caller = .stopping k e) ∨ (∃ e, s.caller = .waitingStopWg e) ∨ (∃ e, s.caller = .stopReturned e)) →
    s.provs.length = n ∧ ∀ p ∈ s.provs, p.pc ≠ .notStarted := fun _ _ hr hc => LcProofs.start_signals_all hr hc

theorem C18_retried_stop_waits :
    ∀ (n : Nat) (f : Nat → Nat) (s : StopRetry.St), StopRetry.Reach n f s →
    ∀ r ∈ s.returned, r.1 = true → r.2.1 = false ∧ r.2.2 = 0 := StopRetry.retried_stop_waits

theorem C18_retried_stop_progress :
    ∀ (n : Nat) (f : Nat → Nat) (s : StopRetry.St), StopRetry.Reach n f s → ∀ (k : Nat) (a e : Bool), s.stopping = some (k, a, e) →
    (StopRetry.step? s .provStop).isSome = true ∨
    (a = true ∧ k < s.n ∧ 0 < s.inflight k ∧ (StopRetry.step? s (.finishReq k)).isSome = true) := StopRetry.retried_stop_progress

theorem C18_expired_stop_cuts_nothing :
    ∀ (s s' : StopRetry.St), StopRetry.step? s .provStop = some s' → s'.inflight = s.inflight := StopRetry.expired_stop_cuts_nothing

end Proofs
end TV.Server
