import TV.Proofs.PublisherInvB
/-! Publication LTS — the lock-protocol and buffer parts of the invariant, over views of the subscriber list. -/
namespace TV.Publisher.Proofs

/-- the lock-protocol part of a subscriber record. -/
structure Lock where
  id : Nat
  once : Bool
  done : Bool
  ch : Bool

def _root_.TV.Publisher.Sub.lock (x : Sub) : Lock := ⟨x.id, x.onceStarted, x.doneClosed, x.chClosed⟩

/-- lock protocol: `lk` the subscribers' lock views, `hs` the subscribers of the deliveries holding a read lock. -/
structure InvC (lk : List Lock) (hs : List Nat) (cl : List Nat) (pan : Bool) : Prop where
  idsNodup : (lk.map (·.id)).Nodup
  lock1 : ∀ l ∈ lk, l.once = l.done
  lock2 : ∀ l ∈ lk, l.ch = true → l.once = true
  holdOpen : ∀ k ∈ hs, ∀ l ∈ lk, l.id = k → l.ch = false
  noPanic : pan = false
  closesNodup : cl.Nodup
  closesIff : ∀ l ∈ lk, (l.id ∈ cl ↔ l.ch = true)
  closesSub : ∀ k ∈ cl, ∃ l ∈ lk, l.id = k

theorem InvC.hs_sub {lk hs hs' cl pan} (h : InvC lk hs cl pan)
    (hh : ∀ k ∈ hs', k ∈ hs ∨ ∀ l ∈ lk, l.id = k → l.ch = false) : InvC lk hs' cl pan := by
  obtain ⟨h0, h1, h2, h3, h4, h5, h6, h7⟩ := h
  exact ⟨h0, h1, h2, by grind, h4, h5, h6, h7⟩

theorem InvC.subscribe {lk hs cl pan} (h : InvC lk hs cl pan) (k : Nat) (hk : ∀ l ∈ lk, l.id ≠ k) :
    InvC (lk ++ [⟨k, false, false, false⟩]) hs cl pan := by
  obtain ⟨h0, h1, h2, h3, h4, h5, h6, h7⟩ := h
  refine ⟨?_, by grind, by grind, by grind, h4, h5, by grind, by grind⟩
  simp only [List.map_append, List.map_cons, List.map_nil]
  rw [List.nodup_append]
  exact ⟨h0, by simp, by grind⟩

def closeL (l : Lock) : Lock := if l.once then l else { l with once := true, done := true }

theorem InvC.beginClose {lk hs cl pan} (h : InvC lk hs cl pan) (k : Nat) :
    InvC (lk.map (fun l => if l.id == k then closeL l else l)) hs cl pan := by
  obtain ⟨h0, h1, h2, h3, h4, h5, h6, h7⟩ := h
  have hid : ∀ l : Lock, (if l.id == k then closeL l else l).id = l.id := by
    intro l; unfold closeL; split <;> (try split) <;> rfl
  have hch : ∀ l : Lock, (if l.id == k then closeL l else l).ch = l.ch := by
    intro l; unfold closeL; split <;> (try split) <;> rfl
  refine ⟨?_, ?_, ?_, ?_, h4, h5, ?_, ?_⟩
  · rw [List.map_map]
    have : ((fun x : Lock => x.id) ∘ fun l => if (l.id == k) = true then closeL l else l) = (fun x => x.id) := by
      funext l; exact hid l
    rw [this]; exact h0
  · intro l hl
    simp only [List.mem_map] at hl
    obtain ⟨l0, hl0, rfl⟩ := hl
    have := h1 l0 hl0
    unfold closeL
    split <;> (try split) <;> simp_all
  · intro l hl
    simp only [List.mem_map] at hl
    obtain ⟨l0, hl0, rfl⟩ := hl
    have := h2 l0 hl0
    rw [hch]
    unfold closeL
    split <;> (try split) <;> simp_all
  · intro k' hk' l hl
    simp only [List.mem_map] at hl
    obtain ⟨l0, hl0, rfl⟩ := hl
    rw [hid, hch]
    exact h3 k' hk' l0 hl0
  · intro l hl
    simp only [List.mem_map] at hl
    obtain ⟨l0, hl0, rfl⟩ := hl
    rw [hid, hch]
    exact h6 l0 hl0
  · intro k' hk'
    obtain ⟨l0, hl0, e⟩ := h7 k' hk'
    exact ⟨_, List.mem_map_of_mem hl0, by rw [hid]; exact e⟩

theorem InvC.closeFinish {lk hs cl pan} (h : InvC lk hs cl pan) (k : Nat) {l0 : Lock} (hl0 : l0 ∈ lk) (hk : l0.id = k)
    (ho : l0.once = true) (hc : l0.ch = false) (hkh : k ∉ hs) :
    InvC (lk.map (fun l => if l.id == k then { l with ch := true } else l)) hs (cl ++ [k]) pan := by
  obtain ⟨h0, h1, h2, h3, h4, h5, h6, h7⟩ := h
  have hid : ∀ l : Lock, (if l.id == k then { l with ch := true } else l).id = l.id := by
    intro l; split <;> rfl
  have huniq : ∀ l ∈ lk, l.id = k → l = l0 := fun l hl e => nodup_map_inj h0 hl hl0 (by omega)
  refine ⟨?_, ?_, ?_, ?_, h4, ?_, ?_, ?_⟩
  · rw [List.map_map]
    have : ((fun x : Lock => x.id) ∘ fun l => if (l.id == k) = true then { l with ch := true } else l) = (fun x => x.id) := by
      funext l; exact hid l
    rw [this]; exact h0
  · intro l hl
    simp only [List.mem_map] at hl
    obtain ⟨l1, hl1, rfl⟩ := hl
    have := h1 l1 hl1
    split <;> simp_all
  · intro l hl
    simp only [List.mem_map] at hl
    obtain ⟨l1, hl1, rfl⟩ := hl
    have := h2 l1 hl1
    split
    · next e => simp at e; rw [huniq l1 hl1 e]; simp [ho]
    · exact this
  · intro k' hk' l hl
    simp only [List.mem_map] at hl
    obtain ⟨l1, hl1, rfl⟩ := hl
    rw [hid]
    intro e
    have := h3 k' hk' l1 hl1 e
    split
    · next e' => simp at e'; exact absurd hk' (by rw [← e, e']; exact hkh)
    · exact this
  · rw [List.nodup_append]
    refine ⟨h5, by simp, ?_⟩
    intro a ha b hb e
    simp only [List.mem_singleton] at hb
    subst hb; subst e
    have := (h6 l0 hl0).1 (by rw [hk]; exact ha)
    simp [hc] at this
  · intro l hl
    simp only [List.mem_map] at hl
    obtain ⟨l1, hl1, rfl⟩ := hl
    rw [hid]
    have := h6 l1 hl1
    simp only [List.mem_append, List.mem_singleton]
    split
    · next e => simp at e; simp [e]
    · next e => simp at e; simp [e, this]
  · intro k' hk'
    simp only [List.mem_append, List.mem_singleton] at hk'
    rcases hk' with hk' | rfl
    · obtain ⟨l1, hl1, e⟩ := h7 k' hk'
      exact ⟨_, List.mem_map_of_mem hl1, by rw [hid]; exact e⟩
    · exact ⟨_, List.mem_map_of_mem hl0, by rw [hid]; exact hk⟩

/-- the buffer part of a subscriber record. -/
structure Buf where
  id : Nat
  cap : Nat
  buf : List Nat

def _root_.TV.Publisher.Sub.bufv (x : Sub) : Buf := ⟨x.id, x.cap, x.buf⟩

structure InvD (bv : List Buf) (recv : List (Nat × Nat)) (pub : List (Nat × Nat)) (out : List (Nat × Nat × Outcome)) : Prop where
  bufCap : ∀ b ∈ bv, b.buf.length ≤ b.cap
  bufSent : ∀ b ∈ bv, ∀ m ∈ b.buf, ∃ uid, (uid, m) ∈ pub ∧ (uid, b.id, Outcome.sent) ∈ out
  recvSent : ∀ r ∈ recv, ∃ uid, (uid, r.2) ∈ pub ∧ (uid, r.1, Outcome.sent) ∈ out

theorem InvD.mono {bv recv pub out pub' out'} (h : InvD bv recv pub out) (hp : ∀ p ∈ pub, p ∈ pub') (ho : ∀ o ∈ out, o ∈ out') :
    InvD bv recv pub' out' := by
  obtain ⟨h1, h2, h3⟩ := h
  refine ⟨h1, ?_, ?_⟩
  · intro b hb m hm
    obtain ⟨u, a, c⟩ := h2 b hb m hm
    exact ⟨u, hp _ a, ho _ c⟩
  · intro r hr
    obtain ⟨u, a, c⟩ := h3 r hr
    exact ⟨u, hp _ a, ho _ c⟩

theorem InvD.subscribe {bv recv pub out} (h : InvD bv recv pub out) (k cap : Nat) :
    InvD (bv ++ [⟨k, cap, []⟩]) recv pub out := by
  obtain ⟨h1, h2, h3⟩ := h
  refine ⟨?_, ?_, h3⟩
  · intro b hb
    simp only [List.mem_append, List.mem_singleton] at hb
    rcases hb with hb | rfl
    · exact h1 b hb
    · simp
  · intro b hb
    simp only [List.mem_append, List.mem_singleton] at hb
    rcases hb with hb | rfl
    · exact h2 b hb
    · simp

theorem InvD.rendezvous {bv recv pub out} (h : InvD bv recv pub out) {uid sub msg : Nat} (hp : (uid, msg) ∈ pub) :
    InvD bv (recv ++ [(sub, msg)]) pub (out ++ [(uid, sub, .sent)]) := by
  obtain ⟨h1, h2, h3⟩ := h.mono (pub' := pub) (out' := out ++ [(uid, sub, .sent)]) (fun _ h => h) (fun _ h => List.mem_append_left _ h)
  refine ⟨h1, h2, ?_⟩
  intro r hr
  simp only [List.mem_append, List.mem_singleton] at hr
  rcases hr with hr | rfl
  · exact h3 r hr
  · exact ⟨uid, hp, by simp⟩

theorem InvD.deliver {bv recv pub out} (h : InvD bv recv pub out) (hn : (bv.map (·.id)).Nodup) {uid sub msg : Nat}
    (hp : (uid, msg) ∈ pub) {b0 : Buf} (hb0 : b0 ∈ bv) (hid : b0.id = sub) (hroom : b0.buf.length < b0.cap) :
    InvD (bv.map (fun b => if b.id == sub then { b with buf := b.buf ++ [msg] } else b)) recv pub (out ++ [(uid, sub, .sent)]) := by
  obtain ⟨h1, h2, h3⟩ := h.mono (pub' := pub) (out' := out ++ [(uid, sub, .sent)]) (fun _ h => h) (fun _ h => List.mem_append_left _ h)
  have huniq : ∀ b ∈ bv, b.id = sub → b = b0 := fun b hb e => nodup_map_inj hn hb hb0 (by omega)
  refine ⟨?_, ?_, h3⟩
  · intro b hb
    simp only [List.mem_map] at hb
    obtain ⟨b1, hb1, rfl⟩ := hb
    split
    · next e => simp at e; rw [huniq b1 hb1 e]; simp; omega
    · exact h1 b1 hb1
  · intro b hb
    simp only [List.mem_map] at hb
    obtain ⟨b1, hb1, rfl⟩ := hb
    split
    · next e =>
      simp at e
      intro m hm
      simp only [List.mem_append, List.mem_singleton] at hm
      rcases hm with hm | rfl
      · exact h2 b1 hb1 m hm
      · exact ⟨uid, hp, by simp [e]⟩
    · exact h2 b1 hb1

theorem InvD.receive {bv recv pub out} (h : InvD bv recv pub out) (hn : (bv.map (·.id)).Nodup) {sub m : Nat} {rest : List Nat}
    {b0 : Buf} (hb0 : b0 ∈ bv) (hid : b0.id = sub) (hbuf : b0.buf = m :: rest) :
    InvD (bv.map (fun b => if b.id == sub then { b with buf := rest } else b)) (recv ++ [(sub, m)]) pub out := by
  obtain ⟨h1, h2, h3⟩ := h
  have huniq : ∀ b ∈ bv, b.id = sub → b = b0 := fun b hb e => nodup_map_inj hn hb hb0 (by omega)
  refine ⟨?_, ?_, ?_⟩
  · intro b hb
    simp only [List.mem_map] at hb
    obtain ⟨b1, hb1, rfl⟩ := hb
    split
    · next e => simp at e; rw [huniq b1 hb1 e]; have := h1 b0 hb0; simp [hbuf] at this ⊢; omega
    · exact h1 b1 hb1
  · intro b hb
    simp only [List.mem_map] at hb
    obtain ⟨b1, hb1, rfl⟩ := hb
    split
    · next e =>
      simp at e
      intro m' hm'
      have := huniq b1 hb1 e
      subst this
      exact h2 b1 hb1 m' (by rw [hbuf]; exact List.mem_cons_of_mem _ hm')
    · exact h2 b1 hb1
  · intro r hr
    simp only [List.mem_append, List.mem_singleton] at hr
    rcases hr with hr | rfl
    · exact h3 r hr
    · have := h2 b0 hb0 m (by rw [hbuf]; exact List.mem_cons_self)
      rw [hid] at this
      exact this

end TV.Publisher.Proofs
