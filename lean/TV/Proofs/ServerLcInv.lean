import TV.Proofs.ServerLc
/-! Server — the invariant of the Start/Stop hand-shake and its preservation (C18). -/
namespace TV.Server
namespace LcProofs
open TV.ServerLifecycle

/-- provider `i`'s goroutine exists (Start's loop has passed it). -/
def spawned (c : CallerPc) (i : Nat) : Bool :=
  match c with | .idle => false | .spawning k => decide (i < k) | _ => true

/-- number of spawned providers that have not yet signalled. -/
def fS (c : CallerPc) : Nat → Prov → Bool := fun i p => spawned c i && p.pc == .notStarted
/-- number of spawned providers whose serve call has not returned. -/
def fR (c : CallerPc) : Nat → Prov → Bool := fun i p => spawned c i && p.pc != .returned

/-- pc / stdlib-server coherence of one provider. -/
def Coh (p : Prov) : Prop :=
  (p.srv = .fresh ↔ (p.pc = .notStarted ∨ p.pc = .signalled)) ∧
  (p.srv = .serving → p.shutdownCalled = false) ∧
  (p.srv = .closed → p.shutdownCalled = true) ∧
  (p.pc = .returned → p.srv = .closed) ∧
  (p.shutdownCalled = true → p.inflight = 0)

/-- what the caller's phase says about provider `i`. -/
def Phase (c : CallerPc) (i : Nat) (p : Prov) : Prop :=
  match c with
  | .idle => p = {}
  | .spawning k => k ≤ i → p = {}
  | .waitingStartWg => False
  | .startReturned => p.pc ≠ .notStarted
  | .stopping k _ => p.pc ≠ .notStarted ∧ (i < k → p.shutdownCalled = true)
  | .waitingStopWg _ => p.pc ≠ .notStarted ∧ p.shutdownCalled = true
  | .stopReturned _ => p.pc = .returned

/-- facts about the caller and the context. -/
def Glob (n : Nat) (s : St) : Prop :=
  (match s.caller with
    | .spawning k => k ≤ n | .stopping k _ => k ≤ n | .waitingStartWg => False | _ => True) ∧
  (s.ctxAmple = true → s.aborted = 0) ∧
  (match s.caller with
    | .idle => s.aborted = 0 | .spawning _ => s.aborted = 0 | .startReturned => s.aborted = 0 | _ => True)

structure Inv (n : Nat) (s : St) : Prop where
  len : s.provs.length = n
  coh : ∀ (i : Nat) (p : Prov), s.provs[i]? = some p → Coh p
  phase : ∀ (i : Nat) (p : Prov), s.provs[i]? = some p → Phase s.caller i p
  startWg : s.startWg = cnt (fS s.caller) s.provs
  stopWg : s.stopWg = (cnt (fR s.caller) s.provs : Int)
  glob : Glob n s

theorem inv_init (n : Nat) : Inv n (init n) := by
  refine ⟨by simp [init], ?_, ?_, ?_, ?_, ?_⟩
  · intro i p hp
    have : p = {} := by
      simp only [init, List.getElem?_replicate] at hp
      split at hp <;> simp at hp; exact hp.symm
    subst this; simp [Coh]
  · intro i p hp
    have : p = {} := by
      simp only [init, List.getElem?_replicate] at hp
      split at hp <;> simp at hp; exact hp.symm
    subst this; simp [Phase, init]
  · show 0 = _
    rw [cnt_congr _ (fS (init n).caller) (fun _ _ => false) (by intros; simp [fS, spawned, init])]
    generalize (init n).provs = l
    induction l with
    | nil => rfl
    | cons a as ih => simp [cnt, ← ih]
  · show (0 : Int) = _
    rw [cnt_congr _ (fR (init n).caller) (fun _ _ => false) (by intros; simp [fR, spawned, init])]
    generalize (init n).provs = l
    induction l with
    | nil => rfl
    | cons a as ih => simp only [cnt]; simpa using ih
  · simp [Glob, init]

end LcProofs
end TV.Server
