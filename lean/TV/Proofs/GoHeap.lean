import TV.Model.GoHeap
/-!
# Correctness of the transcribed `container/heap` algorithms

For any `less` that is asymmetric and negatively transitive (`StrictWeak`), the fuel-bounded
`up` / `down` loops of TV/Model/GoHeap.lean restore the heap property; `length` is always enough
fuel.  Core-only.

Route: `swap` acts on `lessAt` as the transposition `tr` of the two indices, so every argument is
about `lessAt less l · ·` on a fixed list plus index arithmetic.  `Hole less m n l i` says "`l` is a
heap on the edges below `n` whose parent is `≥ m`, except for the edges touching `i`, and the
parent of `i` is `≤` the children of `i`".  `down` and `up` both maintain `Hole` while moving `i`.
-/
namespace TV.GoHeap
variable {α : Type}

structure StrictWeak (less : α → α → Bool) : Prop where
  asymm : ∀ a b, less a b = true → less b a = false
  ntrans : ∀ a b c, less a b = false → less b c = false → less a c = false

@[simp] theorem length_swap (l : List α) (i j : Nat) : (swap l i j).length = l.length := by
  unfold swap; split <;> simp

theorem getElem?_swap (l : List α) (i j k : Nat) (hi : i < l.length) (hj : j < l.length) :
    (swap l i j)[k]? = if k = j then l[i]? else if k = i then l[j]? else l[k]? := by
  unfold swap
  grind

theorem swap_perm (l : List α) (i j : Nat) : (swap l i j).Perm l := by
  unfold swap
  split
  · next a b ha hb =>
    have hi : i < l.length := by grind
    have hj : j < l.length := by grind
    have h1 : a = l[i] := by grind
    have h2 : b = l[j] := by grind
    subst h1 h2
    exact List.set_set_perm hi hj
  · exact .refl _

/-- the transposition of `i` and `j` -/
def tr (i j k : Nat) : Nat := if k = j then i else if k = i then j else k

theorem lessAt_swap (less : α → α → Bool) (l : List α) (i j a b : Nat) (hi : i < l.length) (hj : j < l.length) :
    lessAt less (swap l i j) a b = lessAt less l (tr i j a) (tr i j b) := by
  unfold lessAt tr
  rw [getElem?_swap l i j a hi hj, getElem?_swap l i j b hi hj]
  grind

theorem lessAt_asymm {less : α → α → Bool} (h : StrictWeak less) (l : List α) (a b : Nat) :
    lessAt less l a b = true → lessAt less l b a = false := by
  unfold lessAt
  have := h.asymm
  grind

theorem lessAt_irrefl {less : α → α → Bool} (h : StrictWeak less) (l : List α) (a : Nat) :
    lessAt less l a a = false := by
  have := lessAt_asymm h l a a
  grind

theorem lessAt_ntrans {less : α → α → Bool} (h : StrictWeak less) (l : List α) (a b c : Nat) (hb : b < l.length) :
    lessAt less l a b = false → lessAt less l b c = false → lessAt less l a c = false := by
  unfold lessAt
  have := h.ntrans
  grind


def HeapOn (less : α → α → Bool) (m n : Nat) (l : List α) : Prop :=
  ∀ k, 0 < k → k < n → m ≤ (k - 1) / 2 → lessAt less l k ((k - 1) / 2) = false

def Hole (less : α → α → Bool) (m n : Nat) (l : List α) (i : Nat) : Prop :=
  (∀ k, 0 < k → k < n → m ≤ (k - 1) / 2 → k ≠ i → (k - 1) / 2 ≠ i →
      lessAt less l k ((k - 1) / 2) = false) ∧
  (∀ k, 0 < k → k < n → (k - 1) / 2 = i → 0 < i → m ≤ (i - 1) / 2 →
      lessAt less l k ((i - 1) / 2) = false)

theorem down_step {less : α → α → Bool} (h : StrictWeak less) {m n : Nat} {l : List α} {i j : Nat}
    (hn : n ≤ l.length) (hj : j < n) (hji : (j - 1) / 2 = i) (hj0 : 0 < j) (hm : m ≤ i)
    (hH : Hole less m n l i) (hlt : lessAt less l j i = true)
    (hsib : ∀ k, 0 < k → k < n → (k - 1) / 2 = i → k ≠ j → lessAt less l k j = false) :
    Hole less m n (swap l i j) j ∧ lessAt less (swap l i j) j i = false := by
  have hij : i < j := by omega
  have hil : i < l.length := by omega
  have hjl : j < l.length := by omega
  obtain ⟨hA, hB⟩ := hH
  refine ⟨⟨?_, ?_⟩, ?_⟩
  · intro k hk0 hkn hmk hkj hpj
    rw [lessAt_swap less l i j _ _ hil hjl]
    by_cases hki : k = i
    · subst hki
      have hpi : (k - 1) / 2 ≠ k := by omega
      have hpj' : (k - 1) / 2 ≠ j := by omega
      simp only [tr, hkj, hpi, hpj', if_false, if_true]
      exact hB j hj0 hj hji hk0 hmk
    · by_cases hpi : (k - 1) / 2 = i
      · simp only [tr, hkj, hki, hpi, if_false, if_true]
        have : i ≠ j := by omega
        simp only [this, if_false]
        exact hsib k hk0 hkn hpi hkj
      · simp only [tr, hkj, hki, hpi, hpj, if_false]
        exact hA k hk0 hkn hmk hki hpi
  · intro k hk0 hkn hpk _ hmj
    rw [lessAt_swap less l i j _ _ hil hjl]
    have h1 : k ≠ j := by omega
    have h2 : k ≠ i := by omega
    have h3 : i ≠ j := by omega
    simp only [tr, h1, h2, hji, h3, if_false, if_true]
    have := hA k hk0 hkn (by omega) h2 (by omega)
    rw [hpk] at this; exact this
  · rw [lessAt_swap less l i j _ _ hil hjl]
    have h3 : i ≠ j := by omega
    simp only [tr, h3, if_true, if_false]
    exact lessAt_asymm h l j i hlt

theorem up_step {less : α → α → Bool} (h : StrictWeak less) {n : Nat} {l : List α} {i j : Nat}
    (hn : n ≤ l.length) (hj : j < n) (hji : (j - 1) / 2 = i) (hj0 : 0 < j)
    (hH : Hole less 0 n l j)
    (hlt : lessAt less l j i = true) :
    Hole less 0 n (swap l i j) i ∧
      ∀ k, 0 < k → k < n → (k - 1) / 2 = i → lessAt less (swap l i j) k i = false := by
  have hij : i < j := by omega
  have hil : i < l.length := by omega
  have hjl : j < l.length := by omega
  have h3 : i ≠ j := by omega
  obtain ⟨hA, hB⟩ := hH
  have hij' : lessAt less l i j = false := lessAt_asymm h l j i hlt
  refine ⟨⟨?_, ?_⟩, ?_⟩
  · intro k hk0 hkn _ hki hpi
    rw [lessAt_swap less l i j _ _ hil hjl]
    have hkj : k ≠ j := by omega
    by_cases hpj : (k - 1) / 2 = j
    · simp only [tr, hkj, hki, hpj, if_false, if_true]
      have := hB k hk0 hkn hpj hj0 (Nat.zero_le _)
      rw [hji] at this; exact this
    · simp only [tr, hkj, hki, hpj, hpi, if_false]
      exact hA k hk0 hkn (Nat.zero_le _) hkj hpj
  · intro k hk0 hkn hpk hi0 _
    rw [lessAt_swap less l i j _ _ hil hjl]
    have h1 : (i - 1) / 2 ≠ j := by omega
    have h2 : (i - 1) / 2 ≠ i := by omega
    have hi' : lessAt less l i ((i - 1) / 2) = false :=
      hA i hi0 (by omega) (Nat.zero_le _) h3 (by omega)
    by_cases hkj : k = j
    · simp only [tr, hkj, h1, h2, if_false, if_true]
      exact hi'
    · have hki : k ≠ i := by omega
      simp only [tr, hkj, hki, h1, h2, if_false]
      have := hA k hk0 hkn (Nat.zero_le _) hkj (by omega)
      rw [hpk] at this
      exact lessAt_ntrans h l _ i _ hil this hi'
  · intro k hk0 hkn hpk
    rw [lessAt_swap less l i j _ _ hil hjl]
    by_cases hkj : k = j
    · simp only [tr, hkj, h3, if_false, if_true]
      exact hij'
    · have hki : k ≠ i := by omega
      simp only [tr, hkj, hki, h3, if_false, if_true]
      have := hA k hk0 hkn (Nat.zero_le _) hkj (by omega)
      rw [hpk] at this
      exact lessAt_ntrans h l _ i _ hil this hij'

theorem heap_of_hole {less : α → α → Bool} {m n : Nat} {l : List α} {i : Nat}
    (hH : Hole less m n l i)
    (hi : 0 < i → i < n → m ≤ (i - 1) / 2 → lessAt less l i ((i - 1) / 2) = false)
    (hch : ∀ k, 0 < k → k < n → (k - 1) / 2 = i → lessAt less l k i = false) :
    HeapOn less m n l := by
  intro k hk0 hkn hmk
  by_cases hki : k = i
  · subst hki; exact hi hk0 hkn hmk
  · by_cases hpi : (k - 1) / 2 = i
    · rw [hpi]; exact hch k hk0 hkn hpi
    · exact hH.1 k hk0 hkn hmk hki hpi

theorem hole_of_heap {less : α → α → Bool} (h : StrictWeak less) {m n : Nat} {l : List α}
    (hn : n ≤ l.length) (hH : HeapOn less m n l) (i : Nat) : Hole less m n l i := by
  refine ⟨fun k hk0 hkn hmk _ _ => hH k hk0 hkn hmk, ?_⟩
  intro k hk0 hkn hpk hi0 hmi
  have h1 := hH k hk0 hkn (by omega)
  rw [hpk] at h1
  have h2 := hH i hi0 (by omega) hmi
  exact lessAt_ntrans h l _ i _ (by omega) h1 h2

theorem up_spec {less : α → α → Bool} (h : StrictWeak less) {n : Nat} :
    ∀ (fuel : Nat) (l : List α) (j : Nat), n ≤ l.length → j < n → j < fuel →
      Hole less 0 n l j →
      (∀ k, 0 < k → k < n → (k - 1) / 2 = j → lessAt less l k j = false) →
      HeapOn less 0 n (up less fuel l j) := by
  intro fuel
  induction fuel with
  | zero => intro l j _ _ hf; omega
  | succ fuel ih =>
    intro l j hn hj hf hH hch
    unfold up
    simp only []
    split
    · next hc =>
      refine heap_of_hole hH (fun hj0 _ _ => ?_) hch
      have : (j - 1) / 2 ≠ j := by omega
      simpa [this] using hc
    · next hc =>
      simp only [Bool.or_eq_true, beq_iff_eq, Bool.not_eq_true', not_or, Bool.not_eq_false] at hc
      have hj0 : 0 < j := by omega
      obtain ⟨h1, h2⟩ := up_step h hn hj rfl hj0 hH hc.2
      exact ih _ _ (by simpa using hn) (by omega) (by omega) h1 h2

/-- the child `down` compares with: the smaller of the (one or two) children of `i` below `n`. -/
def minChild (less : α → α → Bool) (l : List α) (i n : Nat) : Nat :=
  if 2 * i + 1 + 1 < n && lessAt less l (2 * i + 1 + 1) (2 * i + 1) then 2 * i + 1 + 1 else 2 * i + 1

theorem down_zero (less : α → α → Bool) (l : List α) (i n : Nat) : down less 0 l i n = (l, i) := rfl

theorem down_succ (less : α → α → Bool) (fuel : Nat) (l : List α) (i n : Nat) :
    down less (fuel + 1) l i n =
      if 2 * i + 1 ≥ n then (l, i)
      else if lessAt less l (minChild less l i n) i then
        down less fuel (swap l i (minChild less l i n)) (minChild less l i n) n
      else (l, i) := by
  rw [down]
  show (if 2 * i + 1 ≥ n then (l, i) else
      if !lessAt less l (minChild less l i n) i then (l, i)
      else down less fuel (swap l i (minChild less l i n)) (minChild less l i n) n) = _
  split
  · rfl
  · by_cases hx : lessAt less l (minChild less l i n) i = true <;> simp [hx]

theorem minChild_spec {less : α → α → Bool} (h : StrictWeak less) (l : List α) (i n : Nat)
    (hc : 2 * i + 1 < n) :
    minChild less l i n < n ∧ (minChild less l i n - 1) / 2 = i ∧ i < minChild less l i n ∧
    ∀ k, 0 < k → k < n → (k - 1) / 2 = i → k ≠ minChild less l i n →
      lessAt less l k (minChild less l i n) = false := by
  unfold minChild
  split
  · next hc3 =>
    simp only [Bool.and_eq_true, decide_eq_true_eq] at hc3
    refine ⟨by omega, by omega, by omega, fun k hk0 hkn hpk hkj => ?_⟩
    have : k = 2 * i + 1 := by omega
    subst this
    exact lessAt_asymm h l _ _ hc3.2
  · next hc3 =>
    simp only [Bool.and_eq_true, decide_eq_true_eq, not_and, Bool.not_eq_true] at hc3
    refine ⟨by omega, by omega, by omega, fun k hk0 hkn hpk hkj => ?_⟩
    have : k = 2 * i + 1 + 1 := by omega
    subst this
    exact hc3 hkn

theorem down_spec {less : α → α → Bool} (h : StrictWeak less) {m n : Nat} :
    ∀ (fuel : Nat) (l : List α) (i : Nat), n ≤ l.length → i < n → n ≤ fuel + i → m ≤ i →
      Hole less m n l i →
      (down less fuel l i n = (l, i) ∧
          ∀ k, 0 < k → k < n → (k - 1) / 2 = i → lessAt less l k i = false) ∨
        (i < (down less fuel l i n).2 ∧ HeapOn less m n (down less fuel l i n).1) := by
  intro fuel
  induction fuel with
  | zero => intro l i _ _ hf; omega
  | succ fuel ih =>
    intro l i hn hi hf hm hH
    rw [down_succ]
    split
    · next hc =>
      left
      refine ⟨rfl, fun k hk0 hkn hpk => ?_⟩
      omega
    · next hc =>
      obtain ⟨hjn, hji, hij, hsib⟩ := minChild_spec h l i n (by omega)
      generalize minChild less l i n = j at *
      split
      · next hc2 =>
        right
        obtain ⟨h1, h2⟩ := down_step h hn hjn hji (by omega) hm hH hc2 hsib
        have hlen : n ≤ (swap l i j).length := by simpa using hn
        rcases ih (swap l i j) j hlen hjn (by omega) (by omega) h1 with ⟨he, hch⟩ | ⟨hlt, hhp⟩
        · rw [he]
          refine ⟨hij, heap_of_hole h1 (fun _ _ _ => ?_) hch⟩
          rw [hji]; exact h2
        · exact ⟨by omega, hhp⟩
      · next hc2 =>
        left
        refine ⟨rfl, fun k hk0 hkn hpk => ?_⟩
        simp only [Bool.not_eq_true] at hc2
        by_cases hkj : k = j
        · subst hkj; exact hc2
        · exact lessAt_ntrans h l _ j _ (by omega) (hsib k hk0 hkn hpk hkj) hc2

/-! ### structural facts about `up` / `down` -/

theorem getElem?_swap_of_ne (l : List α) (i j k : Nat) (hki : k ≠ i) (hkj : k ≠ j) :
    (swap l i j)[k]? = l[k]? := by
  unfold swap; grind

@[simp] theorem length_up (less : α → α → Bool) (fuel : Nat) (l : List α) (j : Nat) :
    (up less fuel l j).length = l.length := by
  induction fuel generalizing l j with
  | zero => rfl
  | succ fuel ih => unfold up; simp only []; split <;> simp [ih]

theorem up_perm (less : α → α → Bool) (fuel : Nat) (l : List α) (j : Nat) :
    (up less fuel l j).Perm l := by
  induction fuel generalizing l j with
  | zero => exact .refl _
  | succ fuel ih =>
    unfold up; simp only []; split
    · exact .refl _
    · exact (ih _ _).trans (swap_perm _ _ _)

theorem getElem?_up_of_gt (less : α → α → Bool) (fuel : Nat) (l : List α) (j k : Nat) (hk : j < k) :
    (up less fuel l j)[k]? = l[k]? := by
  induction fuel generalizing l j with
  | zero => rfl
  | succ fuel ih =>
    unfold up; simp only []; split
    · rfl
    · rw [ih _ _ (by omega), getElem?_swap_of_ne _ _ _ _ (by omega) (by omega)]

@[simp] theorem length_down (less : α → α → Bool) (fuel : Nat) (l : List α) (i n : Nat) :
    (down less fuel l i n).1.length = l.length := by
  induction fuel generalizing l i with
  | zero => rfl
  | succ fuel ih =>
    rw [down_succ]; split
    · rfl
    · split <;> simp [ih]

theorem down_perm (less : α → α → Bool) (fuel : Nat) (l : List α) (i n : Nat) :
    (down less fuel l i n).1.Perm l := by
  induction fuel generalizing l i with
  | zero => exact .refl _
  | succ fuel ih =>
    rw [down_succ]; split
    · exact .refl _
    · split
      · exact (ih _ _).trans (swap_perm _ _ _)
      · exact .refl _

theorem minChild_lt (less : α → α → Bool) (l : List α) (i n : Nat) (hc : 2 * i + 1 < n) :
    minChild less l i n < n ∧ i < minChild less l i n := by
  unfold minChild; split
  · next hc3 => simp only [Bool.and_eq_true, decide_eq_true_eq] at hc3; omega
  · omega

theorem getElem?_down_of_ge (less : α → α → Bool) (fuel : Nat) (l : List α) (i n k : Nat) (hk : n ≤ k) :
    (down less fuel l i n).1[k]? = l[k]? := by
  induction fuel generalizing l i with
  | zero => rfl
  | succ fuel ih =>
    rw [down_succ]; split
    · rfl
    · split
      · have := minChild_lt less l i n (by omega)
        rw [ih, getElem?_swap_of_ne _ _ _ _ (by omega) (by omega)]
      · rfl

/-! ### the heap property -/

theorem isHeap_iff (less : α → α → Bool) (l : List α) : IsHeap less l ↔ HeapOn less 0 l.length l := by
  unfold IsHeap HeapOn
  exact ⟨fun hh k h0 hk _ => hh k h0 hk, fun hh k h0 hk => hh k h0 hk (Nat.zero_le _)⟩

theorem HeapOn.mono {less : α → α → Bool} {m n n' : Nat} {l : List α} (hh : HeapOn less m n l) (hn : n' ≤ n) :
    HeapOn less m n' l := fun k h0 hk hm => hh k h0 (by omega) hm

theorem lessAt_congr (less : α → α → Bool) (l l' : List α) (a b : Nat) (ha : l[a]? = l'[a]?) (hb : l[b]? = l'[b]?) :
    lessAt less l a b = lessAt less l' a b := by
  unfold lessAt; rw [ha, hb]

theorem HeapOn.congr {less : α → α → Bool} {m n : Nat} {l l' : List α} (hh : HeapOn less m n l)
    (he : ∀ k, k < n → l'[k]? = l[k]?) : HeapOn less m n l' := by
  intro k h0 hk hm
  rw [lessAt_congr less l' l _ _ (he k hk) (he _ (by omega))]
  exact hh k h0 hk hm

theorem Hole.congr {less : α → α → Bool} {m n : Nat} {l l' : List α} {i : Nat} (hh : Hole less m n l i)
    (he : ∀ k, k < n → k ≠ i → l'[k]? = l[k]?) : Hole less m n l' i := by
  refine ⟨fun k h0 hk hm hki hpi => ?_, fun k h0 hk hpk hi0 hmi => ?_⟩
  · rw [lessAt_congr less l' l _ _ (he k hk hki) (he _ (by omega) hpi)]
    exact hh.1 k h0 hk hm hki hpi
  · rw [lessAt_congr less l' l _ _ (he k hk (by omega)) (he _ (by omega) (by omega))]
    exact hh.2 k h0 hk hpk hi0 hmi

theorem root_min {less : α → α → Bool} (h : StrictWeak less) {n : Nat} {l : List α} (hn : n ≤ l.length)
    (hh : HeapOn less 0 n l) : ∀ k, k < n → lessAt less l k 0 = false := by
  intro k
  induction k using Nat.strongRecOn with
  | _ k ih =>
    intro hk
    rcases Nat.eq_zero_or_pos k with h0 | h0
    · subst h0; exact lessAt_irrefl h l 0
    · exact lessAt_ntrans h l k ((k - 1) / 2) 0 (by omega) (hh k h0 hk (Nat.zero_le _))
        (ih _ (by omega) (by omega))

theorem down_of_ge (less : α → α → Bool) (fuel : Nat) (l : List α) (i n : Nat) (hc : n ≤ 2 * i + 1) :
    down less fuel l i n = (l, i) := by
  cases fuel with
  | zero => rfl
  | succ fuel => rw [down_succ, if_pos hc]

/-- `down` repairs a hole whose parent edge is fine. -/
theorem down_heap {less : α → α → Bool} (h : StrictWeak less) {m n : Nat} (fuel : Nat) (l : List α) (i : Nat)
    (hn : n ≤ l.length) (hf : n ≤ fuel + i) (hm : m ≤ i) (hH : Hole less m n l i)
    (hedge : 0 < i → i < n → m ≤ (i - 1) / 2 → lessAt less l i ((i - 1) / 2) = false) :
    HeapOn less m n (down less fuel l i n).1 := by
  by_cases hi : i < n
  · rcases down_spec h fuel l i hn hi hf hm hH with ⟨he, hch⟩ | ⟨_, hh⟩
    · rw [he]; exact heap_of_hole hH hedge hch
    · exact hh
  · rw [down_of_ge _ _ _ _ _ (by omega)]
    exact heap_of_hole hH hedge (fun k h0 hk hpk => by omega)

theorem lessAt_append_left (less : α → α → Bool) (l r : List α) (a b : Nat) (ha : a < l.length)
    (hb : b < l.length) : lessAt less (l ++ r) a b = lessAt less l a b := by
  unfold lessAt; rw [List.getElem?_append_left ha, List.getElem?_append_left hb]

/-! ### Push -/

theorem push_isHeap {less : α → α → Bool} (h : StrictWeak less) (l : List α) (x : α) (hl : IsHeap less l) :
    IsHeap less (push less l x) := by
  rw [isHeap_iff] at hl ⊢
  unfold push
  simp only [length_up, List.length_append, List.length_cons, List.length_nil, Nat.zero_add,
    Nat.add_sub_cancel]
  refine up_spec h _ _ _ (by simp) (by omega) (by omega) ⟨?_, ?_⟩ ?_
  · intro k h0 hk _ hkl _
    rw [lessAt_append_left less l [x] _ _ (by omega) (by omega)]
    exact hl k h0 (by omega) (Nat.zero_le _)
  · intro k h0 hk hpk; omega
  · intro k h0 hk hpk; omega

theorem push_perm (less : α → α → Bool) (l : List α) (x : α) : (push less l x).Perm (x :: l) := by
  unfold push
  exact (up_perm _ _ _ _).trans (List.perm_append_singleton _ _)

/-! ### the common tail of Pop / Remove: `h.Pop()` removes the last slot -/

theorem last_spec {less : α → α → Bool} (l2 : List α) (n : Nat) (x : α) (hlen : l2.length = n + 1)
    (hx : l2[n]? = some x) (hh : HeapOn less 0 n l2) :
    l2.getLast? = some x ∧ IsHeap less l2.dropLast ∧ (x :: l2.dropLast).Perm l2 := by
  have hlast : l2.getLast? = some x := by
    rw [List.getLast?_eq_getElem?, hlen]; simpa using hx
  refine ⟨hlast, ?_, ?_⟩
  · rw [isHeap_iff]
    have hl' : l2.dropLast.length = n := by simp [hlen]
    rw [hl']
    refine hh.congr (fun k hk => ?_)
    rw [List.dropLast_eq_take, List.getElem?_take, if_pos (by omega)]
  · obtain ⟨ys, rfl⟩ := List.getLast?_eq_some_iff.mp hlast
    rw [List.dropLast_concat]
    exact (List.perm_append_singleton _ _).symm

/-! ### Pop -/

theorem pop_spec {less : α → α → Bool} (h : StrictWeak less) (l : List α) (hl : IsHeap less l)
    (hne : l ≠ []) :
    ∃ rest, pop less l = some (l[0]'(List.length_pos_iff.mpr hne), rest) ∧ IsHeap less rest ∧
      ((l[0]'(List.length_pos_iff.mpr hne)) :: rest).Perm l ∧
      ∀ x ∈ l, less x (l[0]'(List.length_pos_iff.mpr hne)) = false := by
  have hpos : 0 < l.length := List.length_pos_iff.mpr hne
  rw [isHeap_iff] at hl
  have hmin : ∀ x ∈ l, less x l[0] = false := by
    intro x hx
    obtain ⟨k, hk, rfl⟩ := List.getElem_of_mem hx
    have := root_min h (Nat.le_refl _) hl k hk
    unfold lessAt at this
    simpa [List.getElem?_eq_getElem hk, List.getElem?_eq_getElem hpos] using this
  generalize hn : l.length - 1 = n
  have hnl : n < l.length := by omega
  have hH : Hole less 0 n (swap l 0 n) 0 :=
    (hole_of_heap h (by omega) (hl.mono (by omega)) 0).congr
      (fun k hk hk0 => getElem?_swap_of_ne _ _ _ _ hk0 (by omega))
  have hheap := down_heap h (swap l 0 n).length (swap l 0 n) 0 (by simp; omega) (by simp; omega)
    (Nat.le_refl _) hH (fun h0 => by omega)
  have hx : (down less (swap l 0 n).length (swap l 0 n) 0 n).1[n]? = some l[0] := by
    rw [getElem?_down_of_ge _ _ _ _ _ _ (Nat.le_refl _), getElem?_swap _ _ _ _ hpos hnl, if_pos rfl,
      List.getElem?_eq_getElem hpos]
  obtain ⟨h1, h2, h3⟩ := last_spec _ n l[0] (by simp; omega) hx hheap
  refine ⟨_, ?_, h2, h3.trans ((down_perm _ _ _ _ _).trans (swap_perm _ _ _)), hmin⟩
  unfold pop
  have : l.isEmpty = false := by simpa using hne
  simp only [this, hn, h1]
  rfl

/-! ### Remove -/

theorem remove_spec {less : α → α → Bool} (h : StrictWeak less) (l : List α) (hl : IsHeap less l)
    (i : Nat) (hi : i < l.length) :
    ∃ rest, remove less l i = some (l[i], rest) ∧ IsHeap less rest ∧ (l[i] :: rest).Perm l := by
  rw [isHeap_iff] at hl
  generalize hn : l.length - 1 = n
  have hnl : n < l.length := by omega
  -- the list after the `if n != i` block
  suffices hs : ∃ l2 : List α, (if (n != i) = true then
        match down less (swap l i n).length (swap l i n) i n with
        | (ld, i') => if i' > i then ld else up less ld.length ld i
      else l) = l2 ∧ l2.length = n + 1 ∧ l2[n]? = some l[i] ∧ HeapOn less 0 n l2 ∧ l2.Perm l by
    obtain ⟨l2, he, hlen, hx, hh, hp⟩ := hs
    obtain ⟨h1, h2, h3⟩ := last_spec l2 n l[i] hlen hx hh
    refine ⟨_, ?_, h2, h3.trans hp⟩
    unfold remove
    rw [if_neg (by omega)]
    simp only [hn]
    rw [he]
    simp only [h1]
  by_cases hni : n = i
  · subst hni
    refine ⟨l, by simp, by omega, List.getElem?_eq_getElem hi, hl.mono (by omega), .refl _⟩
  · have hin : i < n := by omega
    rw [if_pos (by simpa using hni)]
    have hH : Hole less 0 n (swap l i n) i :=
      (hole_of_heap h (by omega) (hl.mono (by omega)) i).congr
        (fun k hk hki => getElem?_swap_of_ne _ _ _ _ hki (by omega))
    have hx : (swap l i n)[n]? = some l[i] := by
      rw [getElem?_swap _ _ _ _ hi hnl, if_pos rfl, List.getElem?_eq_getElem hi]
    rcases down_spec h (swap l i n).length (swap l i n) i (by simp; omega) hin (by simp; omega)
      (Nat.zero_le _) hH with ⟨he, hch⟩ | ⟨hlt, hh⟩
    · rw [he]
      simp only [Nat.lt_irrefl, if_false, gt_iff_lt]
      refine ⟨_, rfl, by simp; omega, ?_, ?_, (up_perm _ _ _ _).trans (swap_perm _ _ _)⟩
      · rw [getElem?_up_of_gt _ _ _ _ _ hin]; exact hx
      · exact up_spec h _ _ _ (by simp; omega) hin (by simp; omega) hH hch
    · generalize hd : down less (swap l i n).length (swap l i n) i n = r at hlt hh
      obtain ⟨ld, i'⟩ := r
      simp only [gt_iff_lt]
      simp only at hlt hh
      rw [if_pos hlt]
      have h1 : ld = (down less (swap l i n).length (swap l i n) i n).1 := by rw [hd]
      refine ⟨_, rfl, by rw [h1]; simp; omega, ?_, hh, ?_⟩
      · rw [h1, getElem?_down_of_ge _ _ _ _ _ _ (Nat.le_refl _)]; exact hx
      · rw [h1]; exact (down_perm _ _ _ _ _).trans (swap_perm _ _ _)

/-! ### Fix -/

theorem fix_spec {less : α → α → Bool} (h : StrictWeak less) (l : List α) (hl : IsHeap less l)
    (i : Nat) (hi : i < l.length) (x : α) :
    IsHeap less (fix less (l.set i x) i) ∧ (fix less (l.set i x) i).Perm (l.set i x) := by
  rw [isHeap_iff] at hl
  have hH : Hole less 0 l.length (l.set i x) i :=
    (hole_of_heap h (Nat.le_refl _) hl i).congr
      (fun k _ hki => by rw [List.getElem?_set_ne (Ne.symm hki)])
  generalize hl' : l.set i x = l' at hH ⊢
  have hlen : l'.length = l.length := by rw [← hl']; simp
  rw [isHeap_iff]
  unfold fix
  rcases down_spec h l'.length l' i (by omega) (by omega) (by omega) (Nat.zero_le _)
      (hlen ▸ hH) with ⟨he, hch⟩ | ⟨hlt, hh⟩
  · rw [he]
    simp only [Nat.lt_irrefl, if_false, gt_iff_lt]
    refine ⟨?_, up_perm _ _ _ _⟩
    rw [length_up]
    exact up_spec h _ _ _ (Nat.le_refl _) (by omega) (by omega) (hlen ▸ hH) hch
  · generalize hd : down less l'.length l' i l'.length = r at hlt hh
    obtain ⟨ld, i'⟩ := r
    simp only [gt_iff_lt]
    simp only at hlt hh
    rw [if_pos hlt]
    have h1 : ld = (down less l'.length l' i l'.length).1 := by rw [hd]
    refine ⟨?_, by rw [h1]; exact down_perm _ _ _ _ _⟩
    have : ld.length = l'.length := by rw [h1]; simp
    rw [this]; exact hh

/-! ### Init -/

theorem initLoop_spec {less : α → α → Bool} (h : StrictWeak less) (k : Nat) (l : List α)
    (hh : HeapOn less k l.length l) :
    (initLoop less k l).length = l.length ∧ HeapOn less 0 l.length (initLoop less k l) ∧
      (initLoop less k l).Perm l := by
  induction k generalizing l with
  | zero => exact ⟨rfl, hh, .refl _⟩
  | succ k ih =>
    unfold initLoop
    have hH : Hole less k l.length l k := by
      refine ⟨fun j h0 hj hm hjk hpk => hh j h0 hj (by omega), fun j h0 hj hpk hk0 hm => by omega⟩
    have h1 := down_heap h l.length l k (Nat.le_refl _) (by omega) (Nat.le_refl _) hH
      (fun _ _ _ => by omega)
    have hlen : (down less l.length l k l.length).1.length = l.length := by simp
    obtain ⟨i1, i2, i3⟩ := ih (down less l.length l k l.length).1 (by rw [hlen]; exact h1)
    rw [hlen] at i1 i2
    exact ⟨i1, i2, i3.trans (down_perm _ _ _ _ _)⟩

theorem init_spec {less : α → α → Bool} (h : StrictWeak less) (l : List α) :
    IsHeap less (init less l) ∧ (init less l).Perm l := by
  unfold init
  obtain ⟨h1, h2, h3⟩ := initLoop_spec h (l.length / 2) l (fun k h0 hk hm => by omega)
  rw [isHeap_iff, h1]
  exact ⟨h2, h3⟩

end TV.GoHeap
