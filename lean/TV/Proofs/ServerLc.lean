import TV.Model.ServerLifecycle
/-! Server — counting lemmas, `setAt` facts and the invariant of the Start/Stop hand-shake (C18). -/
namespace TV.Server
namespace LcProofs
open TV.ServerLifecycle

/-! ### `setAt` -/

theorem setAt_length (l : List Prov) (i : Nat) (g : Prov → Prov) : (setAt l i g).length = l.length := by
  simp [setAt]

theorem setAt_getElem? (l : List Prov) (i : Nat) (g : Prov → Prov) (j : Nat) :
    (setAt l i g)[j]? = if j = i then (l[j]?).map g else l[j]? := by
  simp only [setAt, List.getElem?_map, List.getElem?_zipIdx]
  cases h : l[j]? with
  | none => simp
  | some q => by_cases hji : j = i <;> simp [hji]

theorem setAt_get (l : List Prov) (i : Nat) (g : Prov → Prov) (j : Nat) (q : Prov) (h : l[j]? = some q) :
    (setAt l i g)[j]? = some (if j = i then g q else q) := by
  rw [setAt_getElem?, h]; by_cases hji : j = i <;> simp [hji]

theorem setAt_get_inv (l : List Prov) (i : Nat) (g : Prov → Prov) (j : Nat) (q' : Prov)
    (h : (setAt l i g)[j]? = some q') : ∃ q, l[j]? = some q ∧ q' = (if j = i then g q else q) := by
  rw [setAt_getElem?] at h
  cases hq : l[j]? with
  | none => rw [hq] at h; by_cases hji : j = i <;> simp [hji] at h
  | some q =>
    refine ⟨q, rfl, ?_⟩
    rw [hq] at h
    by_cases hji : j = i <;> simp [hji] at h ⊢ <;> exact h.symm

/-! ### counting -/

def cnt : (Nat → Prov → Bool) → List Prov → Nat
  | _, [] => 0
  | f, p :: ps => (f 0 p).toNat + cnt (fun j => f (j + 1)) ps

theorem cnt_congr2 : ∀ (l l' : List Prov) (f f' : Nat → Prov → Bool), l.length = l'.length →
    (∀ j q q', l[j]? = some q → l'[j]? = some q' → f j q = f' j q') → cnt f l = cnt f' l'
  | [], [], _, _, _, _ => rfl
  | [], _ :: _, _, _, h, _ => by simp at h
  | _ :: _, [], _, _, h, _ => by simp at h
  | a :: as, a' :: as', f, f', hl, h => by
    simp only [cnt]
    have h0 : f 0 a = f' 0 a' := h 0 a a' rfl rfl
    have ht := cnt_congr2 as as' (fun j => f (j + 1)) (fun j => f' (j + 1)) (by simpa using hl)
      (fun j q q' hq hq' => h (j + 1) q q' (by simpa using hq) (by simpa using hq'))
    rw [h0, ht]

theorem cnt_update2 : ∀ (l l' : List Prov) (f f' : Nat → Prov → Bool) (i : Nat) (p p' : Prov),
    l.length = l'.length → l[i]? = some p → l'[i]? = some p' →
    (∀ j q q', j ≠ i → l[j]? = some q → l'[j]? = some q' → f j q = f' j q') →
    cnt f l + (f' i p').toNat = cnt f' l' + (f i p).toNat
  | [], _, _, _, _, _, _, _, h, _, _ => by simp at h
  | _ :: _, [], _, _, _, _, _, h, _, _, _ => by simp at h
  | a :: as, a' :: as', f, f', 0, p, p', hl, hp, hp', h => by
    simp only [cnt]
    have e1 : a = p := by simpa using hp
    have e2 : a' = p' := by simpa using hp'
    subst e1 e2
    have ht := cnt_congr2 as as' (fun j => f (j + 1)) (fun j => f' (j + 1)) (by simpa using hl)
      (fun j q q' hq hq' => h (j + 1) q q' (by omega) (by simpa using hq) (by simpa using hq'))
    rw [ht]; omega
  | a :: as, a' :: as', f, f', i + 1, p, p', hl, hp, hp', h => by
    simp only [cnt]
    have h0 : f 0 a = f' 0 a' := h 0 a a' (by omega) rfl rfl
    have ht := cnt_update2 as as' (fun j => f (j + 1)) (fun j => f' (j + 1)) i p p' (by simpa using hl)
      (by simpa using hp) (by simpa using hp')
      (fun j q q' hj hq hq' => h (j + 1) q q' (by omega) (by simpa using hq) (by simpa using hq'))
    rw [h0]; omega

theorem cnt_congr (l : List Prov) (f f' : Nat → Prov → Bool)
    (h : ∀ j q, l[j]? = some q → f j q = f' j q) : cnt f l = cnt f' l :=
  cnt_congr2 l l f f' rfl (fun j q q' hq hq' => by
    rw [hq] at hq'; cases hq'; exact h j q hq)

theorem cnt_congr_setAt (l : List Prov) (i : Nat) (g : Prov → Prov) (f f' : Nat → Prov → Bool)
    (h : ∀ j q, l[j]? = some q → f j q = f' j (if j = i then g q else q)) :
    cnt f l = cnt f' (setAt l i g) :=
  cnt_congr2 l _ f f' (setAt_length l i g).symm (fun j q q' hq hq' => by
    rw [setAt_get l i g j q hq] at hq'; cases hq'; exact h j q hq)

theorem cnt_update (l : List Prov) (f f' : Nat → Prov → Bool) (i : Nat) (p : Prov)
    (hp : l[i]? = some p) (h : ∀ j q, j ≠ i → l[j]? = some q → f j q = f' j q) :
    cnt f l + (f' i p).toNat = cnt f' l + (f i p).toNat :=
  cnt_update2 l l f f' i p p rfl hp hp (fun j q q' hj hq hq' => by
    rw [hq] at hq'; cases hq'; exact h j q hj hq)

theorem cnt_update_setAt (l : List Prov) (i : Nat) (g : Prov → Prov) (f f' : Nat → Prov → Bool) (p : Prov)
    (hp : l[i]? = some p) (h : ∀ j q, j ≠ i → l[j]? = some q → f j q = f' j q) :
    cnt f l + (f' i (g p)).toNat = cnt f' (setAt l i g) + (f i p).toNat :=
  cnt_update2 l _ f f' i p (g p) (setAt_length l i g).symm hp
    (by rw [setAt_get l i g i p hp]; simp)
    (fun j q q' hj hq hq' => by
      rw [setAt_get l i g j q hq] at hq'; simp [hj] at hq'; subst hq'; exact h j q hj hq)

theorem cnt_pos : ∀ (l : List Prov) (f : Nat → Prov → Bool), 0 < cnt f l → ∃ i p, l[i]? = some p ∧ f i p = true
  | [], _, h => by simp [cnt] at h
  | a :: as, f, h => by
    simp only [cnt] at h
    by_cases h0 : f 0 a = true
    · exact ⟨0, a, rfl, h0⟩
    · have : 0 < cnt (fun j => f (j + 1)) as := by
        have : (f 0 a).toNat = 0 := by simp [h0]
        omega
      obtain ⟨i, p, hp, hf⟩ := cnt_pos as _ this
      exact ⟨i + 1, p, by simpa using hp, hf⟩

theorem cnt_zero : ∀ (l : List Prov) (f : Nat → Prov → Bool), cnt f l = 0 → ∀ i p, l[i]? = some p → f i p = false
  | [], _, _, i, p, hp => by simp at hp
  | a :: as, f, h, i, p, hp => by
    simp only [cnt] at h
    cases i with
    | zero =>
      have : a = p := by simpa using hp
      subst this
      cases hf : f 0 a with
      | false => rfl
      | true => rw [hf] at h; simp at h
    | succ i =>
      exact cnt_zero as (fun j => f (j + 1)) (by omega) i p (by simpa using hp)

theorem cnt_filter_zipIdx : ∀ (l : List Prov) (o : Nat) (f : Nat → Prov → Bool),
    ((l.zipIdx o).filter (fun x => f x.2 x.1)).length = cnt (fun j => f (o + j)) l
  | [], _, _ => rfl
  | a :: as, o, f => by
    rw [List.zipIdx_cons, List.filter_cons]
    have ih := cnt_filter_zipIdx as (o + 1) f
    have e : (fun j => f (o + 1 + j)) = (fun j => f (o + (j + 1))) := by
      funext j; congr 1; omega
    rw [e] at ih
    simp only [cnt, Nat.add_zero]
    cases hf : f o a with
    | false => simp [ih]
    | true => simp [ih]; omega

end LcProofs
end TV.Server
