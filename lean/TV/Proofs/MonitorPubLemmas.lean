import TV.Proofs.Publisher
/-!
# Invariants of the Publication model that the monitor-soundness theorems need

The ghost fields `subAt` / `closedAt` of a subscriber delimit its *window* of publish ordinals; the invariants
below tie the ledgers (`outcomes`, `pending`, `received`, `callbacks`) to those windows.  As in `PublisherInv*`,
each part is stated over plain lists (views of the state).  (Core-only.)
-/
namespace TV.Publisher

/-- no close is in progress: every close hand-shake that has begun has also finished. -/
def closesDone (s : St) : Prop := ∀ x ∈ s.subs, x.onceStarted = true → x.chClosed = true

/-- reachability under the gating of the test harness: a Publish is issued only when no close is in progress
    (the harness issues every operation at a quiescent point, and quiescence implies `closesDone`, see
    `Proofs.quiescent_closesDone`); all other steps are unrestricted. -/
inductive ReachG : St → Prop where
  | init : ReachG init
  | step {s s' : St} (a : Act) : ReachG s → (∀ m, a = .publish m → closesDone s) → step? s a = some s' → ReachG s'

theorem ReachG.reach {s : St} (h : ReachG s) : Reach s := by
  induction h with
  | init => exact .init
  | step a _ _ hs ih => exact .step a ih hs

end TV.Publisher

namespace TV.Publisher.Proofs

/-! ### the ghost view of a subscriber -/

structure Gh where
  id : Nat
  subAt : Nat
  closedAt : Option Nat
  once : Bool
  filter : Filter
  timeout : Nat
  cbT : Bool

def _root_.TV.Publisher.Sub.gh (x : Sub) : Gh := ⟨x.id, x.subAt, x.closedAt, x.onceStarted, x.filter, x.timeout, x.cbTimeout⟩

/-- registration view. -/
structure Rg where
  id : Nat
  once : Bool
  reg : Bool
  ch : Bool

def _root_.TV.Publisher.Sub.rg (x : Sub) : Rg := ⟨x.id, x.onceStarted, x.registered, x.chClosed⟩

def closeG (n : Nat) (g : Gh) : Gh := if g.once then g else { g with once := true, closedAt := some n }
def closeR (r : Rg) : Rg := if r.once then r else { r with once := true }

/-! ### subscriber k is the k-th subscriber; the ghost fields are consistent -/

structure InvG (gs : List Gh) (count publen : Nat) : Prop where
  seq : gs.map (·.id) = List.range' 1 gs.length
  cnt : count = gs.length
  subAtLe : ∀ g ∈ gs, g.subAt ≤ publen
  closedIff : ∀ g ∈ gs, g.closedAt.isSome = g.once
  closedLe : ∀ g ∈ gs, ∀ c, g.closedAt = some c → c ≤ publen

theorem InvG.subscribe {gs count publen} (h : InvG gs count publen) (g : Gh) (h1 : g.id = count + 1) (h2 : g.subAt = publen)
    (h3 : g.closedAt = none) (h4 : g.once = false) : InvG (gs ++ [g]) (count + 1) publen := by
  obtain ⟨a, b, c, d, e⟩ := h
  refine ⟨?_, by simp [b], by grind, by grind, by grind⟩
  simp only [List.map_append, List.map_cons, List.map_nil, List.length_append, List.length_cons, List.length_nil]
  rw [a, List.range'_concat, h1, b]
  simp; omega

theorem InvG.mono {gs count publen} (h : InvG gs count publen) : InvG gs count (publen + 1) := by
  obtain ⟨a, b, c, d, e⟩ := h
  exact ⟨a, b, fun g hg => Nat.le_succ_of_le (c g hg), d, fun g hg c' hc => Nat.le_succ_of_le (e g hg c' hc)⟩

theorem closeG_id (n k : Nat) (g : Gh) : (if g.id == k then closeG n g else g).id = g.id := by
  unfold closeG; split <;> (try split) <;> rfl

theorem InvG.beginClose {gs count publen} (h : InvG gs count publen) (k : Nat) :
    InvG (gs.map (fun g => if g.id == k then closeG publen g else g)) count publen := by
  obtain ⟨a, b, c, d, e⟩ := h
  refine ⟨?_, by simpa using b, ?_, ?_, ?_⟩
  · rw [List.map_map, List.length_map, ← a]
    congr 1
    funext g
    exact closeG_id _ _ g
  · intro g hg
    simp only [List.mem_map] at hg
    obtain ⟨g0, hg0, rfl⟩ := hg
    have := c g0 hg0
    unfold closeG
    split <;> (try split) <;> simp_all
  · intro g hg
    simp only [List.mem_map] at hg
    obtain ⟨g0, hg0, rfl⟩ := hg
    have := d g0 hg0
    unfold closeG
    split <;> (try split) <;> simp_all
  · intro g hg c' hc'
    simp only [List.mem_map] at hg
    obtain ⟨g0, hg0, rfl⟩ := hg
    have := e g0 hg0
    unfold closeG at hc'
    split at hc'
    · split at hc'
      · exact this _ hc'
      · simp at hc'; omega
    · exact this _ hc'

/-- open subscribers are registered, closed ones are not. -/
structure InvR (rs : List Rg) : Prop where
  reg : ∀ r ∈ rs, r.once = false → r.reg = true
  unreg : ∀ r ∈ rs, r.ch = true → r.reg = false

theorem InvR.subscribe {rs} (h : InvR rs) (k : Nat) : InvR (rs ++ [⟨k, false, true, false⟩]) := by
  obtain ⟨a, b⟩ := h
  exact ⟨by grind, by grind⟩

theorem InvR.beginClose {rs} (h : InvR rs) (k : Nat) : InvR (rs.map (fun r => if r.id == k then closeR r else r)) := by
  obtain ⟨a, b⟩ := h
  constructor
  · intro r hr
    simp only [List.mem_map] at hr
    obtain ⟨r0, hr0, rfl⟩ := hr
    have := a r0 hr0
    unfold closeR
    split <;> (try split) <;> simp_all
  · intro r hr
    simp only [List.mem_map] at hr
    obtain ⟨r0, hr0, rfl⟩ := hr
    have := b r0 hr0
    unfold closeR
    split <;> (try split) <;> simp_all

theorem InvR.closeFinish {rs} (h : InvR rs) (k : Nat) (hk : ∀ r ∈ rs, r.id = k → r.once = true) :
    InvR (rs.map (fun r => if r.id == k then { r with ch := true, reg := false } else r)) := by
  obtain ⟨a, b⟩ := h
  constructor
  · intro r hr
    simp only [List.mem_map] at hr
    obtain ⟨r0, hr0, rfl⟩ := hr
    have := a r0 hr0
    have := hk r0 hr0
    split <;> simp_all
  · intro r hr
    simp only [List.mem_map] at hr
    obtain ⟨r0, hr0, rfl⟩ := hr
    have := b r0 hr0
    split <;> simp_all

/-! ### publish ordinals are list positions -/

structure InvP (pub : List (Nat × Nat)) (nu : Nat) : Prop where
  idx : pub.map (·.1) = List.range pub.length
  nu : nu = pub.length

theorem InvP.publish {pub nu} (h : InvP pub nu) (m : Nat) : InvP (pub ++ [(nu, m)]) (nu + 1) := by
  obtain ⟨a, b⟩ := h
  refine ⟨?_, by simp [b]⟩
  simp only [List.map_append, List.map_cons, List.map_nil, List.length_append, List.length_cons, List.length_nil]
  rw [List.range_succ, a, b]

theorem InvP.getElem? {pub nu} (h : InvP pub nu) {u m : Nat} : (u, m) ∈ pub ↔ (pub.map (·.2))[u]? = some m := by
  obtain ⟨a, _⟩ := h
  constructor
  · intro hm
    obtain ⟨i, hi, e⟩ := List.getElem_of_mem hm
    have h1 : (pub.map (·.1))[i]? = some u := by simp [hi, e]
    rw [a] at h1
    have : i = u := by
      rw [List.getElem?_range hi] at h1
      simpa using h1
    subst this
    simp [hi, e]
  · intro hm
    rw [List.getElem?_map] at hm
    cases hp : pub[u]? with
    | none => simp [hp] at hm
    | some p =>
      simp [hp] at hm
      have hu : u < pub.length := by
        rcases Nat.lt_or_ge u pub.length with h | h
        · exact h
        · rw [List.getElem?_eq_none h] at hp; cases hp
      have h1 : (pub.map (·.1))[u]? = some p.1 := by simp [hp]
      rw [a, List.getElem?_range hu] at h1
      have h1 : u = p.1 := by simpa using h1
      have : p = (u, m) := by rw [h1, ← hm]
      rw [← this]
      exact List.mem_of_getElem? hp

/-! ### the ledgers respect the subscribers' windows -/

structure InvO (gs : List Gh) (pend : List Delivery) (out : List (Nat × Nat × Outcome)) (pub : List (Nat × Nat))
    (now : Nat) : Prop where
  lowO : ∀ o ∈ out, ∀ g ∈ gs, g.id = o.2.1 → g.subAt ≤ o.1
  lowP : ∀ d ∈ pend, ∀ g ∈ gs, g.id = d.sub → g.subAt ≤ d.uid
  hiP : ∀ d ∈ pend, d.stage = .holding → ∀ g ∈ gs, g.id = d.sub → ∀ c, g.closedAt = some c → d.uid < c
  hiO : ∀ o ∈ out, (o.2.2 = .sent ∨ o.2.2 = .timedOut) → ∀ g ∈ gs, g.id = o.2.1 → ∀ c, g.closedAt = some c → o.1 < c
  accO : ∀ o ∈ out, ∀ g ∈ gs, g.id = o.2.1 → ∀ m, (o.1, m) ∈ pub → (g.filter.accepts m = false ↔ o.2.2 = .filtered)
  filtAll : ∀ g ∈ gs, ∀ p ∈ pub, g.subAt ≤ p.1 → p.1 < g.closedAt.getD pub.length → g.filter.accepts p.2 = false →
    (p.1, g.id, Outcome.filtered) ∈ out
  canc : ∀ o ∈ out, o.2.2 = .cancelled → ∀ g ∈ gs, g.id = o.2.1 → g.once = true
  toNow : ∀ o ∈ out, o.2.2 = .timedOut → ∀ g ∈ gs, g.id = o.2.1 → g.timeout ≤ now
  dl : ∀ d ∈ pend, d.stage = .holding → ∀ g ∈ gs, g.id = d.sub → g.timeout ≤ d.deadline

theorem InvO.subscribe {gs pend out pub now} (h : InvO gs pend out pub now) (g : Gh)
    (h1 : ∀ o ∈ out, o.2.1 ≠ g.id) (h2 : ∀ d ∈ pend, d.sub ≠ g.id) (h3 : g.subAt = pub.length)
    (h4 : ∀ p ∈ pub, p.1 < pub.length) : InvO (gs ++ [g]) pend out pub now := by
  obtain ⟨a1, a2, a3, a4, a5, a6, a7, a8, a9⟩ := h
  refine ⟨by grind, by grind, by grind, by grind, ?_, ?_, by grind, by grind, by grind⟩
  · intro o ho g' hg' hid
    simp only [List.mem_append, List.mem_singleton] at hg'
    rcases hg' with hg' | rfl
    · exact a5 o ho g' hg' hid
    · exact absurd hid.symm (h1 o ho)
  intro g' hg' p hp
  simp only [List.mem_append, List.mem_singleton] at hg'
  rcases hg' with hg' | rfl
  · exact a6 g' hg' p hp
  · have := h4 p hp
    omega

theorem InvO.mono_now {gs pend out pub now} (h : InvO gs pend out pub now) : InvO gs pend out pub (now + 1) := by
  obtain ⟨a1, a2, a3, a4, a5, a6, a7, a8, a9⟩ := h
  exact ⟨a1, a2, a3, a4, a5, a6, a7, fun o ho e g hg hid => Nat.le_succ_of_le (a8 o ho e g hg hid), a9⟩

theorem InvO.finish {gs pend out pub now} (h : InvO gs pend out pub now) {d : Delivery} (hd : d ∈ pend) (o : Outcome)
    (p1 : o = .sent ∨ o = .timedOut → d.stage = .holding) (p2 : o = .timedOut → d.deadline ≤ now)
    (p3 : o = .cancelled → ∀ g ∈ gs, g.id = d.sub → g.once = true) (p4 : o ≠ .filtered)
    (p5 : ∀ g ∈ gs, g.id = d.sub → ∀ m, (d.uid, m) ∈ pub → g.filter.accepts m = true) :
    InvO gs (pend.filter (fun e => !(e.uid == d.uid && e.sub == d.sub))) (out ++ [(d.uid, d.sub, o)]) pub now := by
  obtain ⟨a1, a2, a3, a4, a5, a6, a7, a8, a9⟩ := h
  refine ⟨?_, by grind, by grind, ?_, ?_, by grind, ?_, ?_, by grind⟩
  · intro o' ho'
    simp only [List.mem_append, List.mem_singleton] at ho'
    rcases ho' with ho' | rfl
    · exact a1 o' ho'
    · exact a2 d hd
  · intro o' ho'
    simp only [List.mem_append, List.mem_singleton] at ho'
    rcases ho' with ho' | rfl
    · exact a4 o' ho'
    · intro e; exact a3 d hd (p1 e)
  · intro o' ho'
    simp only [List.mem_append, List.mem_singleton] at ho'
    rcases ho' with ho' | rfl
    · exact a5 o' ho'
    · intro g hg hid m hm
      have := p5 g hg hid m hm
      simp [this, p4]
  · intro o' ho'
    simp only [List.mem_append, List.mem_singleton] at ho'
    rcases ho' with ho' | rfl
    · exact a7 o' ho'
    · intro e; exact p3 e
  · intro o' ho'
    simp only [List.mem_append, List.mem_singleton] at ho'
    rcases ho' with ho' | rfl
    · exact a8 o' ho'
    · intro e g hg hid
      have := a9 d hd (p1 (Or.inr e)) g hg hid
      have := p2 e
      omega

theorem InvO.hold {gs pend out pub now} (h : InvO gs pend out pub now) (u k dln : Nat)
    (hopen : ∀ g ∈ gs, g.id = k → g.closedAt = none ∧ g.timeout ≤ dln) :
    InvO gs (pend.map (fun e => if e.uid == u && e.sub == k then { e with stage := .holding, deadline := dln } else e)) out pub now := by
  obtain ⟨a1, a2, a3, a4, a5, a6, a7, a8, a9⟩ := h
  refine ⟨a1, ?_, ?_, a4, a5, a6, a7, a8, ?_⟩
  · intro d hd
    simp only [List.mem_map] at hd
    obtain ⟨e, he, rfl⟩ := hd
    have := a2 e he
    split <;> simpa using this
  · intro d hd
    simp only [List.mem_map] at hd
    obtain ⟨e, he, rfl⟩ := hd
    have := a3 e he
    split
    · next hc =>
      simp only [Bool.and_eq_true, beq_iff_eq] at hc
      intro _ g hg hid c hcl
      have := (hopen g hg (by simpa [hc.2] using hid)).1
      rw [this] at hcl; cases hcl
    · exact this
  · intro d hd
    simp only [List.mem_map] at hd
    obtain ⟨e, he, rfl⟩ := hd
    have := a9 e he
    split
    · next hc =>
      simp only [Bool.and_eq_true, beq_iff_eq] at hc
      intro _ g hg hid
      exact (hopen g hg (by simpa [hc.2] using hid)).2
    · exact this

theorem InvO.beginClose {gs pend out pub now} (h : InvO gs pend out pub now) (k : Nat)
    (hpl : ∀ d ∈ pend, d.uid < pub.length) (hol : ∀ o ∈ out, o.1 < pub.length)
    (hci : ∀ g ∈ gs, g.closedAt.isSome = g.once) :
    InvO (gs.map (fun g => if g.id == k then closeG pub.length g else g)) pend out pub now := by
  obtain ⟨a1, a2, a3, a4, a5, a6, a7, a8, a9⟩ := h
  have key : ∀ g ∈ gs.map (fun g => if g.id == k then closeG pub.length g else g), ∃ g0 ∈ gs, g.id = g0.id ∧ g.subAt = g0.subAt ∧
      g.filter = g0.filter ∧ g.timeout = g0.timeout ∧ (g0.once = true → g.once = true) ∧
      (g.closedAt = g0.closedAt ∨ (g0.closedAt = none ∧ g.closedAt = some pub.length)) ∧
      g.closedAt.getD pub.length = g0.closedAt.getD pub.length := by
    intro g hg
    simp only [List.mem_map] at hg
    obtain ⟨g0, hg0, rfl⟩ := hg
    refine ⟨g0, hg0, ?_⟩
    unfold closeG
    split
    · split
      · simp
      · next ho =>
        have := hci g0 hg0
        cases hc : g0.closedAt <;> simp_all
    · simp
  refine ⟨?_, ?_, ?_, ?_, ?_, ?_, ?_, ?_, ?_⟩
  · intro o ho g hg hid
    obtain ⟨g0, hg0, e1, e2, e3, e4, e5, e6, e7⟩ := key g hg
    rw [e2]; exact a1 o ho g0 hg0 (by omega)
  · intro d hd g hg hid
    obtain ⟨g0, hg0, e1, e2, e3, e4, e5, e6, e7⟩ := key g hg
    rw [e2]; exact a2 d hd g0 hg0 (by omega)
  · intro d hd hst g hg hid c hc
    obtain ⟨g0, hg0, e1, e2, e3, e4, e5, e6, e7⟩ := key g hg
    rcases e6 with e6 | ⟨_, e6⟩
    · exact a3 d hd hst g0 hg0 (by omega) c (by rw [← e6]; exact hc)
    · rw [e6] at hc; cases hc; exact hpl d hd
  · intro o ho hk g hg hid c hc
    obtain ⟨g0, hg0, e1, e2, e3, e4, e5, e6, e7⟩ := key g hg
    rcases e6 with e6 | ⟨_, e6⟩
    · exact a4 o ho hk g0 hg0 (by omega) c (by rw [← e6]; exact hc)
    · rw [e6] at hc; cases hc; exact hol o ho
  · intro o ho g hg hid m hm
    obtain ⟨g0, hg0, e1, e2, e3, e4, e5, e6, e7⟩ := key g hg
    rw [e3]; exact a5 o ho g0 hg0 (by omega) m hm
  · intro g hg p hp h1 h2 h3
    obtain ⟨g0, hg0, e1, e2, e3, e4, e5, e6, e7⟩ := key g hg
    rw [e1]
    exact a6 g0 hg0 p hp (by omega) (by omega) (by rw [← e3]; exact h3)
  · intro o ho hk g hg hid
    obtain ⟨g0, hg0, e1, e2, e3, e4, e5, e6, e7⟩ := key g hg
    exact e5 (a7 o ho hk g0 hg0 (by omega))
  · intro o ho hk g hg hid
    obtain ⟨g0, hg0, e1, e2, e3, e4, e5, e6, e7⟩ := key g hg
    rw [e4]; exact a8 o ho hk g0 hg0 (by omega)
  · intro d hd hst g hg hid
    obtain ⟨g0, hg0, e1, e2, e3, e4, e5, e6, e7⟩ := key g hg
    rw [e4]; exact a9 d hd hst g0 hg0 (by omega)

theorem InvO.publish {subs : List Sub} {pend out pub now nu count}
    (h : InvO (subs.map Sub.gh) pend out pub now) (hG : InvG (subs.map Sub.gh) count pub.length) (hR : InvR (subs.map Sub.rg))
    (hnu : nu = pub.length) (hids : (subs.map (·.id)).Nodup) (holt : ∀ o ∈ out, o.1 < nu) (hplt : ∀ p ∈ pub, p.1 < nu) (msg : Nat) :
    InvO (subs.map Sub.gh)
      (pend ++ (subs.filter (fun x => x.registered && x.filter.accepts msg)).map (mkDel nu msg))
      (out ++ (subs.filter (fun x => x.registered && !x.filter.accepts msg)).map (fun x => (nu, x.id, Outcome.filtered)))
      (pub ++ [(nu, msg)]) now := by
  obtain ⟨a1, a2, a3, a4, a5, a6, a7, a8, a9⟩ := h
  have hsub : ∀ g ∈ subs.map Sub.gh, g.subAt ≤ nu := fun g hg => by rw [hnu]; exact hG.subAtLe g hg
  refine ⟨?_, ?_, ?_, ?_, ?_, ?_, ?_, ?_, ?_⟩
  · intro o ho g hg hid
    simp only [List.mem_append, List.mem_map, List.mem_filter] at ho
    rcases ho with ho | ⟨y, _, rfl⟩
    · exact a1 o ho g hg hid
    · exact hsub g hg
  · intro d hd g hg hid
    simp only [List.mem_append, List.mem_map, List.mem_filter] at hd
    rcases hd with hd | ⟨y, _, rfl⟩
    · exact a2 d hd g hg hid
    · exact hsub g hg
  · intro d hd hst
    simp only [List.mem_append, List.mem_map, List.mem_filter] at hd
    rcases hd with hd | ⟨y, _, rfl⟩
    · exact a3 d hd hst
    · simp [mkDel] at hst
  · intro o ho hk
    simp only [List.mem_append, List.mem_map, List.mem_filter] at ho
    rcases ho with ho | ⟨y, _, rfl⟩
    · exact a4 o ho hk
    · simp at hk
  · intro o ho g hg hid m hm
    simp only [List.mem_append, List.mem_map, List.mem_filter, List.mem_singleton] at ho hm
    rcases ho with ho | ⟨y, ⟨hy, hy2⟩, rfl⟩
    · rcases hm with hm | hm
      · exact a5 o ho g hg hid m hm
      · have := holt o ho
        simp only [Prod.mk.injEq] at hm
        omega
    · rcases hm with hm | hm
      · have := hplt _ hm
        simp at this
      · simp only [Prod.mk.injEq, true_and] at hm
        subst hm
        simp only [List.mem_map] at hg
        obtain ⟨x, hx, rfl⟩ := hg
        have : x = y := nodup_map_inj hids hx hy (by simpa [Sub.gh] using hid)
        subst this
        simp only [Bool.and_eq_true, Bool.not_eq_eq_eq_not, Bool.not_true] at hy2
        simp [Sub.gh, hy2.2]
  · intro g hg p hp h1 h2 h3
    simp only [List.mem_append, List.mem_singleton] at hp
    simp only [List.length_append, List.length_cons, List.length_nil] at h2
    rcases hp with hp | rfl
    · apply List.mem_append_left
      refine a6 g hg p hp h1 ?_ h3
      have := hplt p hp
      cases hc : g.closedAt with
      | none => simp; omega
      | some c => simpa [hc] using h2
    · apply List.mem_append_right
      simp only [List.mem_map] at hg
      obtain ⟨x, hx, rfl⟩ := hg
      have hopen : x.onceStarted = false := by
        have h4 := hG.closedIff _ (List.mem_map_of_mem hx)
        have h5 := hG.closedLe _ (List.mem_map_of_mem hx)
        simp only [Sub.gh] at h4 h5 h2
        cases hc : x.closedAt with
        | none => rw [hc] at h4; simpa using h4.symm
        | some c =>
          have := h5 c hc
          rw [hc] at h2
          simp at h2
          omega
      have hreg : x.registered = true := hR.reg _ (List.mem_map_of_mem hx) hopen
      simp only [List.mem_map, List.mem_filter]
      exact ⟨x, ⟨hx, by simpa [hreg, Sub.gh] using h3⟩, rfl⟩
  · intro o ho hk
    simp only [List.mem_append, List.mem_map, List.mem_filter] at ho
    rcases ho with ho | ⟨y, _, rfl⟩
    · exact a7 o ho hk
    · simp at hk
  · intro o ho hk
    simp only [List.mem_append, List.mem_map, List.mem_filter] at ho
    rcases ho with ho | ⟨y, _, rfl⟩
    · exact a8 o ho hk
    · simp at hk
  · intro d hd hst
    simp only [List.mem_append, List.mem_map, List.mem_filter] at hd
    rcases hd with hd | ⟨y, _, rfl⟩
    · exact a9 d hd hst
    · simp [mkDel] at hst

/-! ### what a subscriber has received or holds in its buffer is exactly what was sent to it, in that order -/

def msgOf (pub : List (Nat × Nat)) (u : Nat) : Nat :=
  match pub.find? (·.1 == u) with
  | some p => p.2
  | none => 0

theorem msgOf_mem {pub : List (Nat × Nat)} (hn : (pub.map (·.1)).Nodup) {u m : Nat} (h : (u, m) ∈ pub) : msgOf pub u = m := by
  unfold msgOf
  cases hf : pub.find? (·.1 == u) with
  | none =>
    rw [List.find?_eq_none] at hf
    have := hf _ h
    simp at this
  | some p =>
    have h1 := List.mem_of_find?_eq_some hf
    have h2 := List.find?_some hf
    simp only [beq_iff_eq] at h2
    have : p = (u, m) := nodup_map_inj hn h1 h h2
    rw [this]

theorem msgOf_append {pub l : List (Nat × Nat)} {u m : Nat} (h : (u, m) ∈ pub) : msgOf (pub ++ l) u = msgOf pub u := by
  unfold msgOf
  rw [List.find?_append]
  cases hf : pub.find? (·.1 == u) with
  | none =>
    rw [List.find?_eq_none] at hf
    have := hf _ h
    simp at this
  | some p => simp

def sentTo (k : Nat) (o : Nat × Nat × Outcome) : Bool := o.2.1 == k && o.2.2 == .sent

structure InvS (bv : List Buf) (recv : List (Nat × Nat)) (out : List (Nat × Nat × Outcome)) (pub : List (Nat × Nat)) : Prop where
  seq : ∀ b ∈ bv, (recv.filter (·.1 == b.id)).map (·.2) ++ b.buf = (out.filter (sentTo b.id)).map (fun o => msgOf pub o.1)

theorem InvS.subscribe {bv recv out pub} (h : InvS bv recv out pub) (k cap : Nat) (hr : ∀ r ∈ recv, r.1 ≠ k)
    (ho : ∀ o ∈ out, o.2.1 ≠ k) : InvS (bv ++ [⟨k, cap, []⟩]) recv out pub := by
  constructor
  intro b hb
  simp only [List.mem_append, List.mem_singleton] at hb
  rcases hb with hb | rfl
  · exact h.seq b hb
  · have e1 : recv.filter (·.1 == k) = [] := by
      rw [List.filter_eq_nil_iff]; intro r hr'; simpa using hr r hr'
    have e2 : out.filter (sentTo k) = [] := by
      rw [List.filter_eq_nil_iff]; intro o ho'; simp [sentTo, ho o ho']
    simp [e1, e2]

theorem InvS.out_other {bv recv out pub} (h : InvS bv recv out pub) (l : List (Nat × Nat × Outcome))
    (hl : ∀ o ∈ l, o.2.2 ≠ .sent) : InvS bv recv (out ++ l) pub := by
  constructor
  intro b hb
  have e : l.filter (sentTo b.id) = [] := by
    rw [List.filter_eq_nil_iff]; intro o ho; simp [sentTo, hl o ho]
  rw [List.filter_append, e, List.append_nil]
  exact h.seq b hb

theorem InvS.pub_append {bv recv out pub} (h : InvS bv recv out pub) (l : List (Nat × Nat))
    (ho : ∀ o ∈ out, ∃ m, (o.1, m) ∈ pub) : InvS bv recv out (pub ++ l) := by
  constructor
  intro b hb
  rw [h.seq b hb]
  apply List.map_congr_left
  intro o ho'
  obtain ⟨m, hm⟩ := ho o (List.mem_filter.1 ho').1
  exact (msgOf_append hm).symm

theorem InvS.deliver {bv recv out pub} (h : InvS bv recv out pub) (uid sub msg : Nat) (hm : msgOf pub uid = msg) :
    InvS (bv.map (fun b => if b.id == sub then { b with buf := b.buf ++ [msg] } else b)) recv (out ++ [(uid, sub, .sent)]) pub := by
  constructor
  intro b hb
  simp only [List.mem_map] at hb
  obtain ⟨b0, hb0, rfl⟩ := hb
  have := h.seq b0 hb0
  rw [List.filter_append, List.map_append]
  split
  · next e =>
    simp only [beq_iff_eq] at e
    simp only [← List.append_assoc, this]
    simp [sentTo, e, hm]
  · next e =>
    simp only [beq_iff_eq] at e
    rw [this]
    have : sentTo b0.id (uid, sub, Outcome.sent) = false := by
      simp [sentTo]; intro e'; exact absurd e'.symm e
    simp [this]

theorem InvS.rendezvous {bv recv out pub} (h : InvS bv recv out pub) (uid sub msg : Nat) (hm : msgOf pub uid = msg)
    (he : ∀ b ∈ bv, b.id = sub → b.buf = []) :
    InvS bv (recv ++ [(sub, msg)]) (out ++ [(uid, sub, .sent)]) pub := by
  constructor
  intro b hb
  have := h.seq b hb
  rw [List.filter_append, List.map_append, List.filter_append, List.map_append]
  by_cases e : b.id = sub
  · have hbuf := he b hb e
    rw [hbuf, List.append_nil] at this ⊢
    rw [this]
    simp [sentTo, e, hm]
  · have h1 : sentTo b.id (uid, sub, Outcome.sent) = false := by
      simp [sentTo]; intro e'; exact absurd e'.symm e
    have h2 : ((sub, msg).1 == b.id) = false := by simp; intro e'; exact e e'.symm
    rw [← this]
    simp [h1, h2]

theorem InvS.receive {bv recv out pub} (h : InvS bv recv out pub) (hn : (bv.map (·.id)).Nodup) {sub m : Nat} {rest : List Nat}
    {b0 : Buf} (hb0 : b0 ∈ bv) (hid : b0.id = sub) (hbuf : b0.buf = m :: rest) :
    InvS (bv.map (fun b => if b.id == sub then { b with buf := rest } else b)) (recv ++ [(sub, m)]) out pub := by
  have huniq : ∀ b ∈ bv, b.id = sub → b = b0 := fun b hb e => nodup_map_inj hn hb hb0 (by omega)
  constructor
  intro b hb
  simp only [List.mem_map] at hb
  obtain ⟨b1, hb1, rfl⟩ := hb
  have := h.seq b1 hb1
  rw [List.filter_append, List.map_append]
  split
  · next e =>
    simp only [beq_iff_eq] at e
    have e' := huniq b1 hb1 e
    subst e'
    rw [← this, hbuf]
    simp [e]
  · next e =>
    simp only [beq_iff_eq] at e
    have h2 : ((sub, m).1 == b1.id) = false := by simp; intro e'; exact e e'.symm
    rw [← this]
    simp [h2]

/-! ### counting: every accepted message of an open subscriber is pending or has a non-`filtered` outcome -/

def liveTo (k : Nat) (o : Nat × Nat × Outcome) : Bool := o.2.1 == k && o.2.2 != .filtered
def toTo (k : Nat) (o : Nat × Nat × Outcome) : Bool := o.2.1 == k && o.2.2 == .timedOut

theorem filter_drop_count {α β} [BEq β] [LawfulBEq β] (f : α → β) (p : α → Bool) (l : List α) (h : (l.map f).Nodup) {d : α} (hd : d ∈ l) :
    ((l.filter (fun e => !(f e == f d))).filter p).length + (if p d then 1 else 0) = (l.filter p).length := by
  induction l with
  | nil => cases hd
  | cons a l ih =>
    simp only [List.map_cons, List.nodup_cons, List.mem_map, not_exists, not_and] at h
    simp only [List.mem_cons] at hd
    by_cases e : f a = f d
    · have hall : ∀ x ∈ l, (!(f x == f d)) = true := by
        intro x hx
        have := h.1 x hx
        simp; intro e'; exact this (e'.trans e.symm)
      have had : d = a := by
        rcases hd with rfl | hd
        · rfl
        · exact absurd e.symm (h.1 d hd)
      subst had
      rw [List.filter_cons_of_neg (by simp), List.filter_eq_self.2 hall]
      by_cases hp : p d = true
      · rw [List.filter_cons_of_pos hp]; simp [hp]
      · rw [List.filter_cons_of_neg hp]; simp [hp]
    · have hd' : d ∈ l := by
        rcases hd with rfl | hd
        · exact absurd rfl e
        · exact hd
      rw [List.filter_cons_of_pos (by simp [e])]
      have := ih h.2 hd'
      by_cases hp : p a = true
      · rw [List.filter_cons_of_pos hp, List.filter_cons_of_pos hp]
        simp only [List.length_cons]; omega
      · rw [List.filter_cons_of_neg hp, List.filter_cons_of_neg hp]
        exact this

theorem new_dels_none (P : Sub → Bool) (F : Sub → Delivery) (hF : ∀ y, (F y).sub = y.id) (k : Nat) (l : List Sub)
    (h : ∀ y ∈ l, y.id ≠ k) : ((l.filter P).map F).filter (fun d => d.sub == k) = [] := by
  rw [List.filter_eq_nil_iff]
  intro d hd
  simp only [List.mem_map, List.mem_filter] at hd
  obtain ⟨y, ⟨hy, _⟩, rfl⟩ := hd
  simpa [hF] using h y hy

theorem new_dels_count (P : Sub → Bool) (F : Sub → Delivery) (hF : ∀ y, (F y).sub = y.id) (l : List Sub)
    (hn : (l.map (·.id)).Nodup) {x : Sub} (hx : x ∈ l) :
    (((l.filter P).map F).filter (fun d => d.sub == x.id)).length = if P x then 1 else 0 := by
  induction l with
  | nil => cases hx
  | cons a l ih =>
    simp only [List.map_cons, List.nodup_cons, List.mem_map, not_exists, not_and] at hn
    simp only [List.mem_cons] at hx
    by_cases e : a.id = x.id
    · have hxa : x = a := by
        rcases hx with rfl | hx
        · rfl
        · exact absurd e.symm (hn.1 x hx)
      subst hxa
      have hrest := new_dels_none P F hF x.id l (fun y hy e' => hn.1 y hy e')
      by_cases hp : P x = true
      · rw [List.filter_cons_of_pos hp, List.map_cons, List.filter_cons_of_pos (by simp [hF]), hrest]
        simp [hp]
      · rw [List.filter_cons_of_neg hp, hrest]
        simp [hp]
    · have hx' : x ∈ l := by
        rcases hx with rfl | hx
        · exact absurd rfl e
        · exact hx
      have := ih hn.2 hx'
      by_cases hp : P a = true
      · rw [List.filter_cons_of_pos hp, List.map_cons, List.filter_cons_of_neg (by simp [hF, e])]
        exact this
      · rw [List.filter_cons_of_neg hp]
        exact this

structure InvN (gs : List Gh) (pend : List Delivery) (out : List (Nat × Nat × Outcome)) (pub : List (Nat × Nat)) : Prop where
  cnt : ∀ g ∈ gs, g.once = false →
    (out.filter (liveTo g.id)).length + (pend.filter (fun d => d.sub == g.id)).length =
      (((pub.map (·.2)).drop g.subAt).filter g.filter.accepts).length

theorem InvN.subscribe {gs pend out pub} (h : InvN gs pend out pub) (g : Gh)
    (h1 : ∀ o ∈ out, o.2.1 ≠ g.id) (h2 : ∀ d ∈ pend, d.sub ≠ g.id) (h3 : g.subAt = pub.length) :
    InvN (gs ++ [g]) pend out pub := by
  constructor
  intro g' hg'
  simp only [List.mem_append, List.mem_singleton] at hg'
  rcases hg' with hg' | rfl
  · exact h.cnt g' hg'
  · intro _
    have e1 : out.filter (liveTo g'.id) = [] := by
      rw [List.filter_eq_nil_iff]; intro o ho; simp [liveTo, h1 o ho]
    have e2 : pend.filter (fun d => d.sub == g'.id) = [] := by
      rw [List.filter_eq_nil_iff]; intro d hd; simpa using h2 d hd
    rw [e1, e2, h3, List.drop_of_length_le (by simp)]
    rfl

theorem InvN.finish {gs pend out pub} (h : InvN gs pend out pub) (hn : (pend.map (fun d => (d.uid, d.sub))).Nodup)
    {d : Delivery} (hd : d ∈ pend) (o : Outcome) (ho : o ≠ .filtered) :
    InvN gs (pend.filter (fun e => !(e.uid == d.uid && e.sub == d.sub))) (out ++ [(d.uid, d.sub, o)]) pub := by
  constructor
  intro g hg hopen
  have := h.cnt g hg hopen
  have h1 := filter_drop_count (fun e : Delivery => (e.uid, e.sub)) (fun e => e.sub == g.id) pend hn hd
  have e : (pend.filter (fun e => !(e.uid == d.uid && e.sub == d.sub))) =
      pend.filter (fun e => !((e.uid, e.sub) == (d.uid, d.sub))) := by
    apply List.filter_congr
    intro e _
    rw [Bool.eq_iff_iff]
    simp
    omega
  rw [e, List.filter_append, List.length_append]
  by_cases hk : d.sub = g.id
  · have hl : liveTo g.id (d.uid, d.sub, o) = true := by simp [liveTo, hk, ho]
    have hb : (d.sub == g.id) = true := by simpa using hk
    simp only [hb, if_true] at h1
    rw [List.filter_cons_of_pos hl]
    simp only [List.filter_nil, List.length_cons, List.length_nil]
    omega
  · have hl : ¬ liveTo g.id (d.uid, d.sub, o) = true := by simp [liveTo, hk]
    have hb : (d.sub == g.id) = false := by simpa using hk
    simp only [hb, Bool.false_eq_true, if_false] at h1
    rw [List.filter_cons_of_neg hl]
    simp only [List.filter_nil, List.length_nil]
    omega

theorem InvN.hold {gs pend out pub} (h : InvN gs pend out pub) (u k dln : Nat) :
    InvN gs (pend.map (fun e => if e.uid == u && e.sub == k then { e with stage := .holding, deadline := dln } else e)) out pub := by
  constructor
  intro g hg hopen
  rw [← h.cnt g hg hopen, List.filter_map, List.length_map]
  congr 3
  funext e
  simp only [Function.comp]
  split <;> rfl

theorem InvN.beginClose {gs pend out pub} (h : InvN gs pend out pub) (k n : Nat) :
    InvN (gs.map (fun g => if g.id == k then closeG n g else g)) pend out pub := by
  constructor
  intro g hg hopen
  simp only [List.mem_map] at hg
  obtain ⟨g0, hg0, rfl⟩ := hg
  have : (if g0.id == k then closeG n g0 else g0) = g0 := by
    unfold closeG at hopen ⊢
    split
    · split
      · rfl
      · rw [if_pos (by assumption), if_neg (by assumption)] at hopen
        simp at hopen
    · rfl
  rw [this] at hopen ⊢
  exact h.cnt g0 hg0 hopen

theorem InvN.publish {subs : List Sub} {pend out pub count nu}
    (h : InvN (subs.map Sub.gh) pend out pub) (hG : InvG (subs.map Sub.gh) count pub.length) (hR : InvR (subs.map Sub.rg))
    (hids : (subs.map (·.id)).Nodup) (msg : Nat) :
    InvN (subs.map Sub.gh)
      (pend ++ (subs.filter (fun x => x.registered && x.filter.accepts msg)).map (mkDel nu msg))
      (out ++ (subs.filter (fun x => x.registered && !x.filter.accepts msg)).map (fun x => (nu, x.id, Outcome.filtered)))
      (pub ++ [(nu, msg)]) := by
  constructor
  intro g hg hopen
  have h0 := h.cnt g hg hopen
  simp only [List.mem_map] at hg
  obtain ⟨x, hx, rfl⟩ := hg
  have hreg : x.registered = true := hR.reg _ (List.mem_map_of_mem hx) hopen
  have hsub : x.subAt ≤ pub.length := hG.subAtLe _ (List.mem_map_of_mem hx)
  have e1 : ((subs.filter (fun x => x.registered && !x.filter.accepts msg)).map (fun x => (nu, x.id, Outcome.filtered))).filter (liveTo x.id) = [] := by
    rw [List.filter_eq_nil_iff]
    intro o ho
    simp only [List.mem_map] at ho
    obtain ⟨y, _, rfl⟩ := ho
    simp [liveTo]
  have e2 := new_dels_count (fun x => x.registered && x.filter.accepts msg) (mkDel nu msg) (fun _ => rfl) subs hids hx
  simp only [Sub.gh] at h0 ⊢
  rw [List.filter_append, e1, List.append_nil, List.filter_append, List.length_append, e2]
  simp only [List.map_append, List.map_cons, List.map_nil]
  rw [List.drop_append_of_le_length (by simpa using hsub), List.filter_append, List.length_append, ← h0]
  cases ha : x.filter.accepts msg <;> simp [hreg, ha] <;> omega

/-! ### counting: with OnTimeout set, one callback per timed-out delivery -/

def cbTo (k : Nat) (c : Bool × Nat × Nat × Nat) : Bool := c.1 && c.2.1 == k

structure InvT (gs : List Gh) (cb : List (Bool × Nat × Nat × Nat)) (out : List (Nat × Nat × Outcome)) : Prop where
  cnt : ∀ g ∈ gs, g.cbT = true → (cb.filter (cbTo g.id)).length = (out.filter (toTo g.id)).length

theorem InvT.subscribe {gs cb out} (h : InvT gs cb out) (g : Gh) (h1 : ∀ o ∈ out, o.2.1 ≠ g.id) (h2 : ∀ c ∈ cb, c.2.1 ≠ g.id) :
    InvT (gs ++ [g]) cb out := by
  constructor
  intro g' hg'
  simp only [List.mem_append, List.mem_singleton] at hg'
  rcases hg' with hg' | rfl
  · exact h.cnt g' hg'
  · intro _
    have e1 : out.filter (toTo g'.id) = [] := by
      rw [List.filter_eq_nil_iff]; intro o ho; simp [toTo, h1 o ho]
    have e2 : cb.filter (cbTo g'.id) = [] := by
      rw [List.filter_eq_nil_iff]; intro c hc; simp [cbTo, h2 c hc]
    rw [e1, e2]; rfl

theorem InvT.append_other {gs cb out} (h : InvT gs cb out) (lc : List (Bool × Nat × Nat × Nat)) (lo : List (Nat × Nat × Outcome))
    (h1 : ∀ c ∈ lc, c.1 = false) (h2 : ∀ o ∈ lo, o.2.2 ≠ .timedOut) : InvT gs (cb ++ lc) (out ++ lo) := by
  constructor
  intro g hg hcb
  have e1 : lo.filter (toTo g.id) = [] := by
    rw [List.filter_eq_nil_iff]; intro o ho; simp [toTo, h2 o ho]
  have e2 : lc.filter (cbTo g.id) = [] := by
    rw [List.filter_eq_nil_iff]; intro c hc; simp [cbTo, h1 c hc]
  rw [List.filter_append, List.filter_append, e1, e2, List.append_nil, List.append_nil]
  exact h.cnt g hg hcb

theorem InvT.timeout {gs cb out} (h : InvT gs cb out) (uid sub msg : Nat) (cbt : Bool) (hc : ∀ g ∈ gs, g.id = sub → g.cbT = cbt) :
    InvT gs (if cbt then cb ++ [(true, sub, uid, msg)] else cb) (out ++ [(uid, sub, .timedOut)]) := by
  constructor
  intro g hg hcb
  have := h.cnt g hg hcb
  by_cases e : g.id = sub
  · have hc' := hc g hg e
    rw [hcb] at hc'
    subst hc'
    have h1 : toTo g.id (uid, sub, Outcome.timedOut) = true := by simp [toTo, e]
    have h2 : cbTo g.id (true, sub, uid, msg) = true := by simp [cbTo, e]
    simp [List.filter_append, h1, h2, this]
  · have h1 : toTo g.id (uid, sub, Outcome.timedOut) = false := by
      simp [toTo]; intro e'; exact absurd e'.symm e
    have h2 : cbTo g.id (true, sub, uid, msg) = false := by
      simp [cbTo]; intro e'; exact absurd e'.symm e
    split <;> simp [List.filter_append, h1, h2, this]

theorem InvT.beginClose {gs cb out} (h : InvT gs cb out) (k n : Nat) :
    InvT (gs.map (fun g => if g.id == k then closeG n g else g)) cb out := by
  constructor
  intro g hg hcb
  simp only [List.mem_map] at hg
  obtain ⟨g0, hg0, rfl⟩ := hg
  rw [closeG_id]
  apply h.cnt g0 hg0
  unfold closeG at hcb
  split at hcb
  · split at hcb
    · exact hcb
    · exact hcb
  · exact hcb

/-! ### gated scripts: no OnFiltered once the close has begun -/

structure InvF (gs : List Gh) (out : List (Nat × Nat × Outcome)) : Prop where
  hiF : ∀ o ∈ out, o.2.2 = .filtered → ∀ g ∈ gs, g.id = o.2.1 → ∀ c, g.closedAt = some c → o.1 < c

theorem InvF.subscribe {gs out} (h : InvF gs out) (g : Gh) (h1 : g.closedAt = none) : InvF (gs ++ [g]) out := by
  constructor
  intro o ho hk g' hg' hid c hc
  simp only [List.mem_append, List.mem_singleton] at hg'
  rcases hg' with hg' | rfl
  · exact h.hiF o ho hk g' hg' hid c hc
  · rw [h1] at hc; cases hc

theorem InvF.out_other {gs out} (h : InvF gs out) (l : List (Nat × Nat × Outcome)) (hl : ∀ o ∈ l, o.2.2 ≠ .filtered) :
    InvF gs (out ++ l) := by
  constructor
  intro o ho hk
  simp only [List.mem_append] at ho
  rcases ho with ho | ho
  · exact h.hiF o ho hk
  · exact absurd hk (hl o ho)

theorem InvF.beginClose {gs out} (h : InvF gs out) (k n : Nat) (hol : ∀ o ∈ out, o.1 < n) :
    InvF (gs.map (fun g => if g.id == k then closeG n g else g)) out := by
  constructor
  intro o ho hk g hg hid c hc
  simp only [List.mem_map] at hg
  obtain ⟨g0, hg0, rfl⟩ := hg
  rw [closeG_id] at hid
  unfold closeG at hc
  split at hc
  · split at hc
    · exact h.hiF o ho hk g0 hg0 hid c hc
    · simp at hc; subst hc; exact hol o ho
  · exact h.hiF o ho hk g0 hg0 hid c hc

theorem InvF.publish {subs : List Sub} {out count publen} (h : InvF (subs.map Sub.gh) out) (hG : InvG (subs.map Sub.gh) count publen)
    (hR : InvR (subs.map Sub.rg)) (hids : (subs.map (·.id)).Nodup)
    (hcd : ∀ x ∈ subs, x.onceStarted = true → x.chClosed = true) (nu msg : Nat) :
    InvF (subs.map Sub.gh)
      (out ++ (subs.filter (fun x => x.registered && !x.filter.accepts msg)).map (fun x => (nu, x.id, Outcome.filtered))) := by
  constructor
  intro o ho hk g hg hid c hc
  simp only [List.mem_append, List.mem_map, List.mem_filter] at ho
  rcases ho with ho | ⟨y, ⟨hy, hy2⟩, rfl⟩
  · exact h.hiF o ho hk g hg hid c hc
  · exfalso
    simp only [List.mem_map] at hg
    obtain ⟨x, hx, rfl⟩ := hg
    have : x = y := nodup_map_inj hids hx hy (by simpa [Sub.gh] using hid)
    subst this
    have h4 := hG.closedIff _ (List.mem_map_of_mem hx)
    simp only [Sub.gh] at h4 hc
    rw [hc] at h4
    have hch := hcd x hx (by simpa using h4.symm)
    have := hR.unreg _ (List.mem_map_of_mem hx) hch
    simp only [Sub.rg] at this
    simp [this] at hy2

end TV.Publisher.Proofs
