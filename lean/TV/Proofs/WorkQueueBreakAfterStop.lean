import TV.Model.WorkQueue
import TV.Proofs.WorkQueueSafety
import TV.Proofs.MonitorWQLemmas
/-!
# WorkQueue — Break after Stop

The dispatcher's drain loop (`for _, work := range items { if !w.breaked { …send… } }`) reads `breaked` before every
item.  So a Break that arrives while the drain started by an earlier Stop is blocked on a send still lets the item
being handed over go to the workers, but skips everything behind it: those items move to `limbo` — exactly what
`toDrain` does with the whole priority queue when Break is already set as the dispatcher leaves its loop — and they
never start.
-/
namespace TV.WorkQueue
open TV.GoHeap

/-- the `drainSend` step with Break set: the item the dispatcher was blocked on is sent, the rest of the drain list
    goes to `limbo`, the drain is over. -/
theorem breakAfterStop_drainSend (s s' : St) (it : Item) (rest : List Item)
    (hd : s.disp = .drain (it :: rest)) (hb : s.breaked = true) (hs : step? s .drainSend = some s') :
    s'.chan = s.chan ++ [it] ∧ s'.disp = .drain [] ∧ s'.limbo = s.limbo ++ rest ∧ s'.heap = s.heap ∧
    s'.started = s.started := by
  simp only [step?, hd, hb, if_true] at hs
  split at hs
  · injection hs with hs; subst hs
    exact ⟨rfl, rfl, rfl, rfl, rfl⟩
  · cases hs

/-- nothing ever leaves `limbo` (SetPriority may rewrite the priority field, the id stays). -/
theorem limbo_step {s s' : St} {a : Act} (hs : step? s a = some s') (id : Nat)
    (h : id ∈ s.limbo.map (·.id)) : id ∈ s'.limbo.map (·.id) := by
  obtain ⟨x, hx, rfl⟩ := List.mem_map.mp h
  cases a with
  | setPrio i p =>
    simp only [step?] at hs
    split at hs
    · injection hs with hs; subst hs; exact List.mem_map.mpr ⟨x, hx, rfl⟩
    · split at hs
      · split at hs <;> (injection hs with hs; subst hs; exact List.mem_map.mpr ⟨x, hx, rfl⟩)
      · injection hs with hs; subst hs
        refine List.mem_map.mpr ⟨_, List.mem_map_of_mem
          (f := fun it : Item => if it.id == i then { it with prio := p } else it) hx, ?_⟩
        split <;> rfl
  | _ =>
    simp only [step?, toDrain, popOrPanic] at hs
    (repeat' split at hs) <;> first
      | (injection hs with hs; subst hs; first
          | exact List.mem_map.mpr ⟨x, hx, rfl⟩
          | exact List.mem_map.mpr ⟨x, List.mem_append_left _ hx, rfl⟩)
      | cases hs

theorem limbo_steps {s s' : St} (hs : MonSound.Steps s s') (id : Nat)
    (h : id ∈ s.limbo.map (·.id)) : id ∈ s'.limbo.map (·.id) := by
  induction hs with
  | refl => exact h
  | step a _ _ hst ih => exact limbo_step hst id ih

/-- Break after Stop: in any reachable state in which the drain is blocked on `it` with `rest` behind it and Break has
    been called, the next send hands over `it` only; whatever happens afterwards (`t`), the items of `rest` are in
    `limbo` and have not started. -/
theorem breakAfterStop_skips_rest (W L : Nat) (hW : 1 ≤ W) (hL : 1 ≤ L) (s s' t : St) (it : Item) (rest : List Item)
    (hr : Reach W L s) (hd : s.disp = .drain (it :: rest)) (hb : s.breaked = true)
    (hs : step? s .drainSend = some s') (hsteps : MonSound.Steps s' t) :
    s'.chan = s.chan ++ [it] ∧ s'.disp = .drain [] ∧
    ∀ x ∈ rest, x.id ∈ t.limbo.map (·.id) ∧ x.id ∉ t.started := by
  obtain ⟨hc, hd', hl, _, _⟩ := breakAfterStop_drainSend s s' it rest hd hb hs
  refine ⟨hc, hd', fun x hx => ?_⟩
  have hin : x.id ∈ t.limbo.map (·.id) :=
    limbo_steps hsteps x.id (List.mem_map.mpr ⟨x, by rw [hl]; exact List.mem_append_right _ hx, rfl⟩)
  refine ⟨hin, ?_⟩
  have ht : Reach W L t :=
    MonSound.reach_steps (Reach.step .drainSend hr trivial hs) hsteps
  obtain ⟨y, hy, hyid⟩ := List.mem_map.mp hin
  have := (Safety.C19_after_stop_never_run W L hW hL t ht).2 y hy
  rwa [hyid] at this

/-! ### the behaviour on a concrete run (one worker)

Item 0 is executing, item 1 fills the worker channel, items 2, 3, 4 wait in the priority queue.  Stop: the dispatcher
starts draining `[2, 3, 4]` and blocks on sending 2 (the channel is full).  Break.  When the worker takes item 1 the
dispatcher sends item 2 — and skips 3 and 4: they end in `limbo` and never start, although they had been accepted
before Stop.  The shutdown hand-shake runs to the end without panic. -/
example : ∃ s, runActs (init 1 3) [.enqueue 1 0 false, .recv 0, .take, .enqueue 1 1 false, .recv 1,
    .enqueue 1 2 false, .recv 2, .enqueue 1 3 false, .recv 3, .enqueue 1 4 false, .recv 4,
    .stop, .ctxExit] = some s ∧ s.disp = .drain [⟨2, 1, false, 2⟩, ⟨3, 1, false, 3⟩, ⟨4, 1, false, 4⟩] ∧
    s.limbo = [] ∧ (step? s .drainSend).isSome = false := by
  refine ⟨_, rfl, ?_⟩; decide

example : ∃ s, runActs (init 1 3) [.enqueue 1 0 false, .recv 0, .take, .enqueue 1 1 false, .recv 1,
    .enqueue 1 2 false, .recv 2, .enqueue 1 3 false, .recv 3, .enqueue 1 4 false, .recv 4,
    .stop, .ctxExit, .break_, .finish 0 false, .tokSendDone, .drainTok, .take, .drainSend, .closeChan,
    .finish 1 false, .tokSendDone, .awaitTok, .take, .finish 2 false, .tokSendDone, .awaitTok,
    .workerExit, .allDone, .monExit] = some s ∧
    s.disp = .exited ∧ s.panicked = false ∧ s.accepted = [0, 1, 2, 3, 4] ∧ s.started = [0, 1, 2] ∧
    s.limbo.map (·.id) = [3, 4] ∧ s.chan = [] ∧ s.heap = [] ∧ internalActs s = [] := by
  refine ⟨_, rfl, ?_⟩; decide

/-- the same run without Break: Stop alone hands every accepted item to the workers. -/
example : ∃ s, runActs (init 1 3) [.enqueue 1 0 false, .recv 0, .take, .enqueue 1 1 false, .recv 1,
    .enqueue 1 2 false, .recv 2, .enqueue 1 3 false, .recv 3, .enqueue 1 4 false, .recv 4,
    .stop, .ctxExit, .finish 0 false, .tokSendDone, .drainTok, .take, .drainSend,
    .finish 1 false, .tokSendDone, .drainTok, .take, .drainSend,
    .finish 2 false, .tokSendDone, .drainTok, .take, .drainSend, .closeChan,
    .finish 3 false, .tokSendDone, .awaitTok, .take, .finish 4 false, .tokSendDone, .awaitTok,
    .workerExit, .allDone, .monExit] = some s ∧
    s.disp = .exited ∧ s.panicked = false ∧ s.started = [0, 1, 2, 3, 4] ∧ s.limbo = [] := by
  refine ⟨_, rfl, ?_⟩; decide

end TV.WorkQueue
