import TV.Proofs.PublisherInv
/-! Publication LTS — every step preserves `Inv`; hence every reachable state satisfies it. -/
namespace TV.Publisher
namespace Proofs

theorem frame_A {s s' : St} (h : Inv s) (e1 : statics s' = statics s) (e2 : s'.count = s.count) : InvA (statics s') s'.count := by
  rw [e1, e2]; exact h.A

theorem frame_B {s s' : St} (h : Inv s) (e1 : statics s' = statics s) (e2 : pkeys s' = pkeys s) (e3 : s'.outcomes = s.outcomes)
    (e4 : s'.published = s.published) (e5 : s'.nextUid = s.nextUid) :
    InvB (statics s') (pkeys s') s'.outcomes s'.published s'.nextUid := by
  rw [e1, e2, e3, e4, e5]; exact h.B

theorem frame_B_finish {s s' : St} (h : Inv s) {d : Delivery} (hd : d ∈ s.pending) (o : Outcome)
    (e1 : statics s' = statics s)
    (e2 : s'.pending = s.pending.filter (fun e => !(e.uid == d.uid && e.sub == d.sub)))
    (e3 : s'.outcomes = s.outcomes ++ [(d.uid, d.sub, o)]) (e4 : s'.published = s.published) (e5 : s'.nextUid = s.nextUid) :
    InvB (statics s') (pkeys s') s'.outcomes s'.published s'.nextUid := by
  have : pkeys s' = (pkeys s).filter (fun p => !(p.1 == d.uid && p.2.1 == d.sub)) := by
    unfold pkeys
    rw [e2, List.filter_map]
    rfl
  rw [e1, this, e3, e4, e5]
  exact h.B.finish (mem_pkeys hd) o

theorem frame_C {s s' : St} (h : Inv s) (e1 : locks s' = locks s)
    (e2 : ∀ d ∈ s'.pending, d.stage = .holding → (∃ d' ∈ s.pending, d'.stage = .holding ∧ d'.sub = d.sub) ∨
       ∀ x ∈ s.subs, x.id = d.sub → x.chClosed = false)
    (e3 : s'.chCloses = s.chCloses) (e4 : s'.panicked = s.panicked) :
    InvC (locks s') (hsubs s') s'.chCloses s'.panicked := by
  rw [e1, e3, e4]
  apply h.C.hs_sub
  intro k hk
  rw [mem_hsubs] at hk
  obtain ⟨d, hd, hst, rfl⟩ := hk
  rcases e2 d hd hst with e | e
  · left; rw [mem_hsubs]; exact e
  · right
    intro l hl
    simp only [locks, List.mem_map] at hl
    obtain ⟨x, hx, rfl⟩ := hl
    exact e x hx

theorem frame_D {s s' : St} (h : Inv s) (e1 : bufs s' = bufs s) (e2 : s'.received = s.received) (e3 : s'.published = s.published)
    (e4 : ∀ o ∈ s.outcomes, o ∈ s'.outcomes) : InvD (bufs s') s'.received s'.published s'.outcomes := by
  rw [e1, e2, e3]
  exact h.D.mono (fun _ hp => hp) e4

theorem frame_E {s s' : St} (h : Inv s) (e1 : statics s' = statics s) (e2 : s'.callbacks = s.callbacks) (e3 : s'.outcomes = s.outcomes)
    (e4 : s'.published = s.published) : InvE (statics s') s'.callbacks s'.outcomes s'.published := by
  rw [e1, e2, e3, e4]; exact h.E

theorem frame_E_finish {s s' : St} (h : Inv s) (uid sub : Nat) (o : Outcome) (ho1 : o ≠ .timedOut) (ho2 : o ≠ .filtered)
    (e1 : statics s' = statics s) (e2 : s'.callbacks = s.callbacks) (e3 : s'.outcomes = s.outcomes ++ [(uid, sub, o)])
    (e4 : s'.published = s.published) : InvE (statics s') s'.callbacks s'.outcomes s'.published := by
  rw [e1, e2, e3, e4]; exact h.E.finish_other uid sub o ho1 ho2

theorem mem_filter_pending {l : List Delivery} {p : Delivery → Bool} {d : Delivery} (h : d ∈ l.filter p) : d ∈ l :=
  (List.mem_filter.1 h).1

/-- a plain `finish` with outcome `cancelled`. -/
theorem Inv_finish_cancelled {s : St} (h : Inv s) {d : Delivery} (hd : d ∈ s.pending) : Inv (finish s d .cancelled) := by
  constructor
  · exact frame_A h rfl rfl
  · exact frame_B_finish h hd .cancelled rfl rfl rfl rfl rfl
  · exact frame_C h rfl (fun e he hst => Or.inl ⟨e, mem_filter_pending he, hst, rfl⟩) rfl rfl
  · exact frame_D h rfl rfl rfl (fun o ho => List.mem_append_left _ ho)
  · exact frame_E_finish h d.uid d.sub .cancelled (by simp) (by simp) rfl rfl rfl rfl


theorem Inv.id_le {s : St} (h : Inv s) {x : Sub} (hx : x ∈ s.subs) : x.id ≤ s.count :=
  h.A.idsRange _ (mem_statics hx)

theorem Inv_subscribe {s s' : St} (h : Inv s) {cap f t cbF cbT} (hs : step? s (.subscribe cap f t cbF cbT) = some s') : Inv s' := by
  simp only [step?] at hs
  cases hs
  have e1 : ∀ new : Sub, statics { s with count := s.count + 1, subs := s.subs ++ [new] } = statics s ++ [new.static] := by
    intro new; simp [statics]
  constructor
  · rw [e1]; exact h.A.subscribe _ rfl
  · rw [e1]; exact h.B.mono_st (fun t ht => List.mem_append_left _ ht)
  · have : locks { s with count := s.count + 1, subs := s.subs ++ [{ id := s.count + 1, cap := cap, filter := f, timeout := t, cbFiltered := cbF, cbTimeout := cbT, subAt := s.published.length }] }
        = locks s ++ [⟨s.count + 1, false, false, false⟩] := by simp [locks, Sub.lock]
    rw [this]
    apply h.C.subscribe
    intro l hl
    simp only [locks, List.mem_map] at hl
    obtain ⟨x, hx, rfl⟩ := hl
    have := h.id_le hx
    simp only [Sub.lock]
    omega
  · have : bufs { s with count := s.count + 1, subs := s.subs ++ [{ id := s.count + 1, cap := cap, filter := f, timeout := t, cbFiltered := cbF, cbTimeout := cbT, subAt := s.published.length }] }
        = bufs s ++ [⟨s.count + 1, cap, []⟩] := by simp [bufs, Sub.bufv]
    rw [this]
    exact h.D.subscribe _ _
  · rw [e1]
    apply h.E.subscribe
    intro o ho
    obtain ⟨t, ht, e⟩ := h.B.outSub o ho
    have := h.A.idsRange t ht
    simp only [Sub.static]
    omega

theorem Inv_tick {s s' : St} (h : Inv s) (hs : step? s .tick = some s') : Inv s' := by
  simp only [step?] at hs
  cases hs
  exact ⟨h.A, h.B, h.C, h.D, h.E⟩

theorem Inv_publish {s s' : St} (h : Inv s) {msg} (hs : step? s (.publish msg) = some s') : Inv s' := by
  rw [step_publish, pubGo_fold] at hs
  cases hs
  constructor
  · exact h.A
  · have := h.B.publish h.A msg
    simpa [pkeys, statics, mkDel, Function.comp_def] using this
  · apply h.C.hs_sub
    intro k hk
    left
    rw [mem_hsubs] at hk ⊢
    obtain ⟨d, hd, hst, rfl⟩ := hk
    simp only [List.mem_append, List.mem_map] at hd
    rcases hd with hd | ⟨x, _, rfl⟩
    · exact ⟨d, hd, hst, rfl⟩
    · simp [mkDel] at hst
  · exact h.D.mono (fun p hp => List.mem_append_left _ hp) (fun o ho => List.mem_append_left _ ho)
  · exact h.E.publish h.A h.B msg


theorem Inv_acquireR {s s' : St} (h : Inv s) {uid sub} (hs : step? s (.acquireR uid sub) = some s') : Inv s' := by
  simp only [step?] at hs
  split at hs
  · next d x hd hx =>
    have hd' := findDel_some hd
    have hx' := getSub_some hx
    split at hs
    · cases hs
    · split at hs
      · cases hs
      · next hw =>
        split at hs
        · cases hs
          exact Inv_finish_cancelled h hd'.1
        · next hdone =>
          cases hs
          have hch : x.chClosed = false := by
            have l1 := h.C.lock1 _ (mem_locks hx'.1)
            have l2 := h.C.lock2 _ (mem_locks hx'.1)
            simp only [Sub.lock] at l1 l2
            cases hc : x.chClosed
            · rfl
            · have := l2 hc
              rw [l1] at this
              exact absurd this hdone
          constructor
          · exact frame_A h rfl rfl
          · refine frame_B h rfl ?_ rfl rfl rfl
            simp only [pkeys, List.map_map]
            congr 1
            funext e
            simp only [Function.comp]
            split <;> rfl
          · refine frame_C h rfl ?_ rfl rfl
            intro e he hst
            simp only [List.mem_map] at he
            obtain ⟨e0, he0, rfl⟩ := he
            split at hst
            · next hm =>
              right
              intro y hy hid
              simp only [Bool.and_eq_true, beq_iff_eq] at hm
              have : y = x := h.subUniq hy hx'.1 (by simp [hm] at hid; omega)
              rw [this]; exact hch
            · next hm =>
              left
              exact ⟨e0, he0, hst, by simp [hm]⟩
          · exact frame_D h rfl rfl rfl (fun o ho => ho)
          · exact frame_E h rfl rfl rfl rfl
  · cases hs

theorem Inv_cancel {s s' : St} (h : Inv s) {uid sub} (hs : step? s (.cancel uid sub) = some s') : Inv s' := by
  simp only [step?] at hs
  split at hs
  · next d x hd hx =>
    split at hs
    · cases hs
      exact Inv_finish_cancelled h (findDel_some hd).1
    · cases hs
  · cases hs


theorem Inv.held_open {s : St} (h : Inv s) {d : Delivery} {x : Sub} (hd : d ∈ s.pending) (hst : d.stage = .holding)
    (hx : x ∈ s.subs) (hid : x.id = d.sub) : x.chClosed = false :=
  h.C.holdOpen d.sub (mem_hsubs.2 ⟨d, hd, hst, rfl⟩) x.lock (mem_locks hx) hid

theorem Inv_deliver {s s' : St} (h : Inv s) {uid sub} (hs : step? s (.deliver uid sub) = some s') : Inv s' := by
  simp only [step?] at hs
  split at hs
  · next d x hd hx =>
    have hd' := findDel_some hd
    have hx' := getSub_some hx
    split at hs
    · cases hs
    · next hst =>
      have hst : d.stage = .holding := by simpa using hst
      have hch := h.held_open hd'.1 hst hx'.1 (by omega)
      split at hs
      · next hc => rw [hch] at hc; cases hc
      · split at hs
        · next hroom =>
          cases hs
          have eS : statics (updSub s sub fun y => { y with buf := y.buf ++ [d.msg] }) = statics s :=
            view_updSub_same Sub.static s sub _ (fun _ => rfl)
          have eL : locks (updSub s sub fun y => { y with buf := y.buf ++ [d.msg] }) = locks s :=
            view_updSub_same Sub.lock s sub _ (fun _ => rfl)
          constructor
          · exact frame_A h eS rfl
          · exact frame_B_finish h hd'.1 .sent eS rfl rfl rfl rfl
          · exact frame_C h eL (fun e he hst => Or.inl ⟨e, mem_filter_pending he, hst, rfl⟩) rfl rfl
          · have eB : bufs (updSub s sub fun y => { y with buf := y.buf ++ [d.msg] })
                = (bufs s).map (fun b => if b.id == sub then { b with buf := b.buf ++ [d.msg] } else b) :=
              view_updSub Sub.bufv Buf.id (fun _ => rfl) (fun b => { b with buf := b.buf ++ [d.msg] }) s sub _ (fun _ => rfl)
            show InvD (bufs (updSub s sub _)) s.received s.published (s.outcomes ++ [(d.uid, d.sub, Outcome.sent)])
            rw [eB, hd'.2.2]
            exact h.D.deliver (by rw [ids_bufs]; exact h.idsNodup) (h.B.pendPub _ (mem_pkeys hd'.1)) (mem_bufs hx'.1) hx'.2 hroom
          · exact frame_E_finish h d.uid d.sub .sent (by simp) (by simp) eS rfl rfl rfl
        · cases hs
  · cases hs

theorem Inv_rendezvous {s s' : St} (h : Inv s) {uid sub} (hs : step? s (.rendezvous sub uid) = some s') : Inv s' := by
  simp only [step?] at hs
  split at hs
  · next d x hd hx =>
    have hd' := findDel_some hd
    split at hs
    · cases hs
    · cases hs
      constructor
      · exact frame_A h rfl rfl
      · exact frame_B_finish h hd'.1 .sent rfl rfl rfl rfl rfl
      · exact frame_C h rfl (fun e he hst => Or.inl ⟨e, mem_filter_pending he, hst, rfl⟩) rfl rfl
      · show InvD (bufs s) (s.received ++ [(sub, d.msg)]) s.published (s.outcomes ++ [(d.uid, d.sub, Outcome.sent)])
        rw [hd'.2.2]
        exact h.D.rendezvous (h.B.pendPub _ (mem_pkeys hd'.1))
      · exact frame_E_finish h d.uid d.sub .sent (by simp) (by simp) rfl rfl rfl rfl
  · cases hs

theorem Inv_receive {s s' : St} (h : Inv s) {sub} (hs : step? s (.receive sub) = some s') : Inv s' := by
  simp only [step?] at hs
  split at hs
  · next x hx =>
    have hx' := getSub_some hx
    split at hs
    · next m rest hbuf =>
      cases hs
      have eS : statics (updSub s sub fun y => { y with buf := rest }) = statics s :=
        view_updSub_same Sub.static s sub _ (fun _ => rfl)
      have eL : locks (updSub s sub fun y => { y with buf := rest }) = locks s :=
        view_updSub_same Sub.lock s sub _ (fun _ => rfl)
      constructor
      · exact frame_A h eS rfl
      · exact frame_B h eS rfl rfl rfl rfl
      · exact frame_C h eL (fun e he hst => Or.inl ⟨e, he, hst, rfl⟩) rfl rfl
      · have eB : bufs (updSub s sub fun y => { y with buf := rest })
            = (bufs s).map (fun b => if b.id == sub then { b with buf := rest } else b) :=
          view_updSub Sub.bufv Buf.id (fun _ => rfl) (fun b => { b with buf := rest }) s sub _ (fun _ => rfl)
        show InvD (bufs (updSub s sub _)) (s.received ++ [(sub, m)]) s.published s.outcomes
        rw [eB]
        exact h.D.receive (by rw [ids_bufs]; exact h.idsNodup) (mem_bufs hx'.1) hx'.2 hbuf
      · exact frame_E h eS rfl rfl rfl
    · cases hs
  · cases hs

theorem Inv_timeout {s s' : St} (h : Inv s) {uid sub} (hs : step? s (.timeout uid sub) = some s') : Inv s' := by
  simp only [step?] at hs
  split at hs
  · next d x hd hx =>
    have hd' := findDel_some hd
    have hx' := getSub_some hx
    split at hs
    · cases hs
      constructor
      · exact frame_A h rfl rfl
      · exact frame_B_finish h hd'.1 .timedOut rfl rfl rfl rfl rfl
      · exact frame_C h rfl (fun e he hst => Or.inl ⟨e, mem_filter_pending he, hst, rfl⟩) rfl rfl
      · exact frame_D h rfl rfl rfl (fun o ho => List.mem_append_left _ ho)
      · have := h.E.timeout h.A h.B (mem_pkeys hd'.1) (mem_statics hx'.1) (by simp [Sub.static]; omega)
        obtain ⟨e1, e2⟩ := hd'.2
        subst e1; subst e2
        exact this
    · cases hs
  · cases hs


theorem Inv_beginClose {s : St} (h : Inv s) (k : Nat) : Inv (beginClose s k) := by
  unfold beginClose
  have eS : statics (updSub s k fun x => if x.onceStarted then x else { x with onceStarted := true, doneClosed := true, closedAt := some s.published.length }) = statics s :=
    view_updSub_same Sub.static s k _ (fun x => by split <;> rfl)
  have eB : bufs (updSub s k fun x => if x.onceStarted then x else { x with onceStarted := true, doneClosed := true, closedAt := some s.published.length }) = bufs s :=
    view_updSub_same Sub.bufv s k _ (fun x => by split <;> rfl)
  have eL : locks (updSub s k fun x => if x.onceStarted then x else { x with onceStarted := true, doneClosed := true, closedAt := some s.published.length })
      = (locks s).map (fun l => if l.id == k then closeL l else l) :=
    view_updSub Sub.lock Lock.id (fun _ => rfl) closeL s k _ (fun x => by unfold closeL; by_cases ho : x.onceStarted = true <;> simp [Sub.lock, ho])
  constructor
  · exact frame_A h eS rfl
  · exact frame_B h eS rfl rfl rfl rfl
  · rw [eL]
    exact h.C.beginClose k
  · exact frame_D h eB rfl rfl (fun o ho => ho)
  · exact frame_E h eS rfl rfl rfl

theorem Inv_closeSub {s s' : St} (h : Inv s) {sub} (hs : step? s (.closeSub sub) = some s') : Inv s' := by
  simp only [step?] at hs
  split at hs
  · split at hs
    · cases hs; exact Inv_beginClose h sub
    · cases hs; exact h
  · cases hs; exact h

theorem Inv_closePub {s s' : St} (h : Inv s) (hs : step? s .closePub = some s') : Inv s' := by
  simp only [step?] at hs
  cases hs
  suffices ∀ (l : List Sub) (acc : St), Inv acc → Inv (l.foldl (fun acc x => if x.registered then beginClose acc x.id else acc) acc) from
    this _ _ h
  intro l
  induction l with
  | nil => intro acc ha; exact ha
  | cons x l ih =>
    intro acc ha
    rw [List.foldl_cons]
    apply ih
    split
    · exact Inv_beginClose ha _
    · exact ha

theorem Inv_closeFinish {s s' : St} (h : Inv s) {sub} (hs : step? s (.closeFinish sub) = some s') : Inv s' := by
  simp only [step?] at hs
  split at hs
  · next x hx =>
    have hx' := getSub_some hx
    split at hs
    · next hc =>
      cases hs
      simp only [Bool.and_eq_true, Bool.not_eq_eq_eq_not, Bool.not_true, List.isEmpty_iff] at hc
      obtain ⟨⟨ho, hch⟩, hh⟩ := hc
      have eS : statics (updSub s sub fun y => { y with chClosed := true, registered := false }) = statics s :=
        view_updSub_same Sub.static s sub _ (fun _ => rfl)
      have eB : bufs (updSub s sub fun y => { y with chClosed := true, registered := false }) = bufs s :=
        view_updSub_same Sub.bufv s sub _ (fun _ => rfl)
      have eL : locks (updSub s sub fun y => { y with chClosed := true, registered := false })
          = (locks s).map (fun l => if l.id == sub then { l with ch := true } else l) :=
        view_updSub Sub.lock Lock.id (fun _ => rfl) (fun l => { l with ch := true }) s sub _ (fun _ => rfl)
      constructor
      · exact frame_A h eS rfl
      · exact frame_B h eS rfl rfl rfl rfl
      · show InvC (locks (updSub s sub _)) (hsubs s) (s.chCloses ++ [sub]) s.panicked
        rw [eL]
        refine h.C.closeFinish sub (mem_locks hx'.1) hx'.2 ho hch ?_
        intro hm
        rw [mem_hsubs] at hm
        obtain ⟨d, hd, hst, hsub⟩ := hm
        have : d ∈ holders s sub := by
          unfold holders
          simp only [List.mem_filter, Bool.and_eq_true, beq_iff_eq]
          exact ⟨hd, hsub, hst⟩
        rw [hh] at this
        cases this
      · exact frame_D h eB rfl rfl (fun o ho => ho)
      · exact frame_E h eS rfl rfl rfl
    · cases hs
  · cases hs


theorem Inv_step {s s' : St} (h : Inv s) (a : Act) (hs : step? s a = some s') : Inv s' := by
  cases a with
  | subscribe cap f t cbF cbT => exact Inv_subscribe h hs
  | publish msg => exact Inv_publish h hs
  | receive sub => exact Inv_receive h hs
  | rendezvous sub uid => exact Inv_rendezvous h hs
  | closeSub sub => exact Inv_closeSub h hs
  | closePub => exact Inv_closePub h hs
  | tick => exact Inv_tick h hs
  | acquireR uid sub => exact Inv_acquireR h hs
  | deliver uid sub => exact Inv_deliver h hs
  | timeout uid sub => exact Inv_timeout h hs
  | cancel uid sub => exact Inv_cancel h hs
  | closeFinish sub => exact Inv_closeFinish h hs

theorem Inv_of_Reach {s : St} (h : Reach s) : Inv s := by
  induction h with
  | init => exact Inv_init
  | step a _ hs ih => exact Inv_step ih a hs

end Proofs
end TV.Publisher
