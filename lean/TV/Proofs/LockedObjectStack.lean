import TV.Model.LockedObject
import TV.Model.StackConc
import TV.Proofs.GoHeap
import TV.Proofs.GenericStack
/-!
# The concurrent GenericStack: conservation invariant (C11c), core-only
-/
namespace TV.StackConc
open TV.LockedObject TV.GenericStack TV.GoHeap

/-! ### `heap.Pop` returns an element and the rest (no heap hypothesis needed) -/

theorem pop_perm {α : Type} (less : α → α → Bool) (l : List α) (x : α) (rest : List α)
    (h : GoHeap.pop less l = some (x, rest)) : (x :: rest).Perm l := by
  unfold GoHeap.pop at h
  split at h
  · cases h
  · dsimp only at h
    split at h
    · next y hy =>
      injection h with h
      injection h with h1 h2
      subst h1 h2
      obtain ⟨ys, hys⟩ := List.getLast?_eq_some_iff.mp hy
      rw [hys, List.dropLast_concat]
      have hp : (ys ++ [y]).Perm l := by
        rw [← hys]
        exact (down_perm _ _ _ _ _).trans (swap_perm _ _ _)
      exact (List.perm_append_singleton _ _).symm.trans hp
    · cases h

/-! ### ledger projections and append -/

theorem pushedVals_append (l1 l2 : List (LinEntry Op Ret)) :
    pushedVals (l1 ++ l2) = pushedVals l1 ++ pushedVals l2 := by
  induction l1 with
  | nil => rfl
  | cons e l ih => simp only [List.cons_append, pushedVals, ih, List.append_assoc]

theorem poppedVals_append (l1 l2 : List (LinEntry Op Ret)) :
    poppedVals (l1 ++ l2) = poppedVals l1 ++ poppedVals l2 := by
  induction l1 with
  | nil => rfl
  | cons e l ih => simp only [List.cons_append, poppedVals, ih, List.append_assoc]

theorem pushedIds_append (l1 l2 : List (LinEntry Op Ret)) :
    pushedIds (l1 ++ l2) = pushedIds l1 ++ pushedIds l2 := by
  induction l1 with
  | nil => rfl
  | cons e l ih => simp only [List.cons_append, pushedIds, ih, List.append_assoc]

/-! ### what the sections do -/

theorem secNext_cases {s s' : Stack Nat} {op : Op} {pc loc pc' loc' : Nat}
    (h : impl.sect s op pc loc = (s', .next pc' loc')) :
    ∃ v, op = .push v ∧ pc = 0 ∧ s' = { s with next := s.next + 1 } ∧ pc' = 1 ∧ loc' = s.next + 1 := by
  cases op with
  | push v =>
    cases pc with
    | zero =>
      simp only [impl, Prod.mk.injEq, Res.next.injEq] at h
      obtain ⟨h1, h2, h3⟩ := h
      exact ⟨v, rfl, rfl, h1.symm, h2.symm, h3.symm⟩
    | succ n => simp [impl] at h
  | pop =>
    simp only [impl] at h
    split at h <;> simp at h
  | peek id => simp [impl] at h
  | len => simp [impl] at h
  | values => simp [impl] at h

theorem secDone_cases {s s' : Stack Nat} {op : Op} {pc loc : Nat} {r : Ret}
    (h : impl.sect s op pc loc = (s', .done r)) :
    (∃ v, op = .push v ∧ pc ≠ 0 ∧
      s' = { s with entries := GoHeap.push lessId s.entries (loc, v) } ∧ r = .id loc) ∨
    (∃ e rest, op = .pop ∧ GoHeap.pop lessId s.entries = some (e, rest) ∧
      s' = { s with entries := rest } ∧ r = .popped (some e.2)) ∨
    (s' = s ∧ (∀ v, op ≠ .push v) ∧ (∀ n, r ≠ .id n) ∧ (∀ v, r ≠ .popped (some v))) := by
  cases op with
  | push v =>
    cases pc with
    | zero => simp [impl] at h
    | succ n =>
      simp only [impl, Prod.mk.injEq, Res.done.injEq] at h
      obtain ⟨h1, h2⟩ := h
      exact Or.inl ⟨v, rfl, Nat.succ_ne_zero _, h1.symm, h2.symm⟩
  | pop =>
    simp only [impl] at h
    split at h
    · next e rest hp =>
      simp only [Prod.mk.injEq, Res.done.injEq] at h
      obtain ⟨h1, h2⟩ := h
      exact Or.inr (Or.inl ⟨e, rest, rfl, hp, h1.symm, h2.symm⟩)
    · simp only [Prod.mk.injEq, Res.done.injEq] at h
      obtain ⟨h1, h2⟩ := h
      subst h1 h2
      exact Or.inr (Or.inr ⟨rfl, by intro v; exact Op.noConfusion, by intro n; exact Ret.noConfusion,
        by intro v hv; cases hv⟩)
  | peek id =>
    simp only [impl, Prod.mk.injEq, Res.done.injEq] at h
    obtain ⟨h1, h2⟩ := h
    subst h1 h2
    exact Or.inr (Or.inr ⟨rfl, by intro v; exact Op.noConfusion, by intro n; exact Ret.noConfusion,
      by intro v; exact Ret.noConfusion⟩)
  | len =>
    simp only [impl, Prod.mk.injEq, Res.done.injEq] at h
    obtain ⟨h1, h2⟩ := h
    subst h1 h2
    exact Or.inr (Or.inr ⟨rfl, by intro v; exact Op.noConfusion, by intro n; exact Ret.noConfusion,
      by intro v; exact Ret.noConfusion⟩)
  | values =>
    simp only [impl, Prod.mk.injEq, Res.done.injEq] at h
    obtain ⟨h1, h2⟩ := h
    subst h1 h2
    exact Or.inr (Or.inr ⟨rfl, by intro v; exact Op.noConfusion, by intro n; exact Ret.noConfusion,
      by intro v; exact Ret.noConfusion⟩)

/-! ### the invariant -/

/-- thread `t` holds the fetched id `loc` (it is between the two sections of `Push`). -/
def Held (thr : Nat → TStat Op Ret Nat) (t loc : Nat) : Prop :=
  ∃ v pc cpos, thr t = .running (.push v) pc loc cpos ∧ pc ≠ 0

theorem held_upd {thr : Nat → TStat Op Ret Nat} {t u loc : Nat} {X : TStat Op Ret Nat}
    (h : Held (upd thr t X) u loc) :
    (u = t ∧ ∃ v pc cpos, X = .running (.push v) pc loc cpos ∧ pc ≠ 0) ∨ (u ≠ t ∧ Held thr u loc) := by
  obtain ⟨v, pc, cpos, h1, h2⟩ := h
  by_cases hut : u = t
  · subst hut
    simp only [upd, if_true] at h1
    exact Or.inl ⟨rfl, v, pc, cpos, h1, h2⟩
  · simp only [upd, if_neg hut] at h1
    exact Or.inr ⟨hut, v, pc, cpos, h1, h2⟩

/-- Conservation invariant of the concurrent GenericStack. -/
structure SInv (c : CSt (Stack Nat) Op Ret Nat) : Prop where
  ent_nodup : (c.shared.entries.map (·.1)).Nodup
  ent_le : ∀ i ∈ c.shared.entries.map (·.1), i ≤ c.shared.next
  pid_nodup : (pushedIds c.lin).Nodup
  pid_le : ∀ i ∈ pushedIds c.lin, i ≤ c.shared.next
  held : ∀ t loc, Held c.thr t loc →
    loc ≤ c.shared.next ∧ loc ∉ c.shared.entries.map (·.1) ∧ loc ∉ pushedIds c.lin
  held_inj : ∀ t t' loc, Held c.thr t loc → Held c.thr t' loc → t = t'
  perm : (c.shared.entries.map (·.2) ++ poppedVals c.lin).Perm (pushedVals c.lin)

theorem sinv_init : SInv (cinit (GenericStack.new : Stack Nat) : CSt (Stack Nat) Op Ret Nat) := by
  have hnew : (GenericStack.new : Stack Nat) = { entries := [], next := 0 } := rfl
  constructor
  · simp [cinit, hnew]
  · simp [cinit, hnew]
  · simp [cinit, pushedIds]
  · simp [cinit, pushedIds]
  · intro t loc h
    obtain ⟨v, pc, cpos, h1, _⟩ := h
    simp [cinit] at h1
  · intro t t' loc h
    obtain ⟨v, pc, cpos, h1, _⟩ := h
    simp [cinit] at h1
  · simp [cinit, hnew, pushedVals, poppedVals]

theorem sinv_step {c c' : CSt (Stack Nat) Op Ret Nat} {a : CAct Op}
    (h : SInv c) (hs : CStep impl c a c') : SInv c' := by
  cases hs with
  | call t op hidle =>
    refine ⟨h.ent_nodup, h.ent_le, h.pid_nodup, h.pid_le, ?_, ?_, h.perm⟩
    · intro u loc hu
      rcases held_upd hu with ⟨_, v, pc, cpos, hX, hpc⟩ | ⟨_, hu'⟩
      · injection hX with e1 e2 e3 e4
        exact absurd e2.symm hpc
      · exact h.held u loc hu'
    · intro u u' loc hu hu'
      rcases held_upd hu with ⟨_, v, pc, cpos, hX, hpc⟩ | ⟨_, hu1⟩
      · injection hX with e1 e2 e3 e4
        exact absurd e2.symm hpc
      rcases held_upd hu' with ⟨_, v, pc, cpos, hX, hpc⟩ | ⟨_, hu2⟩
      · injection hX with e1 e2 e3 e4
        exact absurd e2.symm hpc
      exact h.held_inj u u' loc hu1 hu2
  | ret t op r li hfin =>
    refine ⟨h.ent_nodup, h.ent_le, h.pid_nodup, h.pid_le, ?_, ?_, h.perm⟩
    · intro u loc hu
      rcases held_upd hu with ⟨_, v, pc, cpos, hX, hpc⟩ | ⟨_, hu'⟩
      · cases hX
      · exact h.held u loc hu'
    · intro u u' loc hu hu'
      rcases held_upd hu with ⟨_, v, pc, cpos, hX, hpc⟩ | ⟨_, hu1⟩
      · cases hX
      rcases held_upd hu' with ⟨_, v, pc, cpos, hX, hpc⟩ | ⟨_, hu2⟩
      · cases hX
      exact h.held_inj u u' loc hu1 hu2
  | secNext t op pc loc cpos s' pc' loc' hrun hsect =>
    obtain ⟨v, rfl, rfl, rfl, rfl, rfl⟩ := secNext_cases hsect
    refine ⟨h.ent_nodup, ?_, h.pid_nodup, ?_, ?_, ?_, h.perm⟩
    · intro i hi
      exact Nat.le_succ_of_le (h.ent_le i hi)
    · intro i hi
      exact Nat.le_succ_of_le (h.pid_le i hi)
    · intro u l hu
      dsimp only
      rcases held_upd hu with ⟨_, v', pc, cpos', hX, hpc⟩ | ⟨_, hu'⟩
      · injection hX with e1 e2 e3 e4
        subst e3
        refine ⟨Nat.le_refl _, ?_, ?_⟩
        · intro hmem
          have := h.ent_le _ hmem
          omega
        · intro hmem
          have := h.pid_le _ hmem
          omega
      · obtain ⟨h1, h2, h3⟩ := h.held u l hu'
        exact ⟨Nat.le_succ_of_le h1, h2, h3⟩
    · intro u u' l hu hu'
      rcases held_upd hu with ⟨hut, v1, pc1, cpos1, hX, hpc⟩ | ⟨hut, hu1⟩
      · injection hX with e1 e2 e3 e4
        subst e3
        rcases held_upd hu' with ⟨hut', _⟩ | ⟨_, hu2⟩
        · rw [hut, hut']
        · have := (h.held u' _ hu2).1
          omega
      · rcases held_upd hu' with ⟨hut', v1, pc1, cpos1, hX, hpc⟩ | ⟨_, hu2⟩
        · injection hX with e1 e2 e3 e4
          subst e3
          have := (h.held u _ hu1).1
          omega
        · exact h.held_inj u u' l hu1 hu2
  | secDone t op pc loc cpos s' r hrun hsect =>
    -- thread statuses: `t` becomes `finished`, so holds nothing
    have hheld : ∀ u l, Held (upd c.thr t (.finished op r c.lin.length)) u l → u ≠ t ∧ Held c.thr u l := by
      intro u l hu
      rcases held_upd hu with ⟨_, v, pc, cpos, hX, hpc⟩ | hu'
      · cases hX
      · exact hu'
    have hinj : ∀ u u' l, Held (upd c.thr t (.finished op r c.lin.length)) u l →
        Held (upd c.thr t (.finished op r c.lin.length)) u' l → u = u' := by
      intro u u' l hu hu'
      exact h.held_inj u u' l (hheld u l hu).2 (hheld u' l hu').2
    rcases secDone_cases hsect with ⟨v, rfl, hpc, rfl, rfl⟩ | ⟨e, rest, rfl, hpop, rfl, rfl⟩ |
      ⟨rfl, hop, hr1, hr2⟩
    · -- Push, second section
      have hT : Held c.thr t loc := ⟨v, pc, cpos, hrun, hpc⟩
      obtain ⟨hl1, hl2, hl3⟩ := h.held t loc hT
      have hperm := GoHeap.push_perm lessId c.shared.entries (loc, v)
      have hids : ((GoHeap.push lessId c.shared.entries (loc, v)).map (·.1)).Perm
          (loc :: c.shared.entries.map (·.1)) := by
        simpa using hperm.map (·.1)
      have hvals : ((GoHeap.push lessId c.shared.entries (loc, v)).map (·.2)).Perm
          (v :: c.shared.entries.map (·.2)) := by
        simpa using hperm.map (·.2)
      have hpi : pushedIds (c.lin ++ [⟨t, .push v, .id loc, cpos, c.hist.length⟩]) =
          pushedIds c.lin ++ [loc] := by
        rw [pushedIds_append]; rfl
      have hpv : pushedVals (c.lin ++ [⟨t, .push v, .id loc, cpos, c.hist.length⟩]) =
          pushedVals c.lin ++ [v] := by
        rw [pushedVals_append]; rfl
      have hpp : poppedVals (c.lin ++ [⟨t, .push v, .id loc, cpos, c.hist.length⟩]) =
          poppedVals c.lin := by
        rw [poppedVals_append]; simp [poppedVals]
      constructor
      · dsimp only
        exact hids.nodup_iff.mpr (List.nodup_cons.mpr ⟨hl2, h.ent_nodup⟩)
      · dsimp only
        intro i hi
        rcases List.mem_cons.mp (hids.subset hi) with rfl | hi
        · exact hl1
        · exact h.ent_le i hi
      · dsimp only
        rw [hpi, List.nodup_append]
        refine ⟨h.pid_nodup, by simp, ?_⟩
        intro x hx y hy
        rw [List.mem_singleton] at hy; subst hy
        intro hxy; subst hxy
        exact hl3 hx
      · dsimp only
        rw [hpi]
        intro i hi
        rcases List.mem_append.mp hi with hi | hi
        · exact h.pid_le i hi
        · rw [List.mem_singleton] at hi; subst hi; exact hl1
      · dsimp only
        intro u l hu
        obtain ⟨hut, hu'⟩ := hheld u l hu
        obtain ⟨h1, h2, h3⟩ := h.held u l hu'
        have hne : l ≠ loc := by
          intro hll; subst hll
          exact hut (h.held_inj u t l hu' hT)
        refine ⟨h1, ?_, ?_⟩
        · intro hmem
          rcases List.mem_cons.mp (hids.subset hmem) with hm | hm
          · exact hne hm
          · exact h2 hm
        · rw [hpi]
          intro hmem
          rcases List.mem_append.mp hmem with hm | hm
          · exact h3 hm
          · rw [List.mem_singleton] at hm; exact hne hm
      · exact hinj
      · dsimp only
        rw [hpv, hpp]
        have h1 : ((GoHeap.push lessId c.shared.entries (loc, v)).map (·.2) ++ poppedVals c.lin).Perm
            (v :: (c.shared.entries.map (·.2) ++ poppedVals c.lin)) := by
          simpa using hvals.append_right (poppedVals c.lin)
        exact h1.trans ((List.Perm.cons v h.perm).trans (List.perm_append_singleton _ _).symm)
    · -- Pop of a non-empty heap
      have hperm := pop_perm _ _ _ _ hpop
      have hids : (e.1 :: rest.map (·.1)).Perm (c.shared.entries.map (·.1)) := by
        simpa using hperm.map (·.1)
      have hvals : (e.2 :: rest.map (·.2)).Perm (c.shared.entries.map (·.2)) := by
        simpa using hperm.map (·.2)
      have hsub : ∀ i, i ∈ rest.map (·.1) → i ∈ c.shared.entries.map (·.1) :=
        fun i hi => hids.subset (List.mem_cons_of_mem _ hi)
      have hpi : pushedIds (c.lin ++ [⟨t, .pop, .popped (some e.2), cpos, c.hist.length⟩]) =
          pushedIds c.lin := by
        rw [pushedIds_append]; simp [pushedIds]
      have hpv : pushedVals (c.lin ++ [⟨t, .pop, .popped (some e.2), cpos, c.hist.length⟩]) =
          pushedVals c.lin := by
        rw [pushedVals_append]; simp [pushedVals]
      have hpp : poppedVals (c.lin ++ [⟨t, .pop, .popped (some e.2), cpos, c.hist.length⟩]) =
          poppedVals c.lin ++ [e.2] := by
        rw [poppedVals_append]; rfl
      constructor
      · dsimp only
        exact (List.nodup_cons.mp (hids.nodup_iff.mpr h.ent_nodup)).2
      · dsimp only
        intro i hi
        exact h.ent_le i (hsub i hi)
      · dsimp only; rw [hpi]; exact h.pid_nodup
      · dsimp only; rw [hpi]; exact h.pid_le
      · dsimp only
        intro u l hu
        obtain ⟨_, hu'⟩ := hheld u l hu
        obtain ⟨h1, h2, h3⟩ := h.held u l hu'
        rw [hpi]
        exact ⟨h1, fun hm => h2 (hsub l hm), h3⟩
      · exact hinj
      · dsimp only
        rw [hpv, hpp]
        refine List.Perm.trans ?_ h.perm
        have h1 : (rest.map (·.2) ++ (poppedVals c.lin ++ [e.2])).Perm
            (e.2 :: (rest.map (·.2) ++ poppedVals c.lin)) := by
          rw [← List.append_assoc]
          exact List.perm_append_singleton _ _
        refine h1.trans ?_
        simpa using hvals.append_right (poppedVals c.lin)
    · -- a section that leaves the stack alone and reports neither an id nor a popped value
      have hpi : pushedIds (c.lin ++ [⟨t, op, r, cpos, c.hist.length⟩]) = pushedIds c.lin := by
        rw [pushedIds_append]
        cases r with
        | id n => exact absurd rfl (hr1 n)
        | _ => simp [pushedIds]
      have hpv : pushedVals (c.lin ++ [⟨t, op, r, cpos, c.hist.length⟩]) = pushedVals c.lin := by
        rw [pushedVals_append]
        cases op with
        | push v => exact absurd rfl (hop v)
        | _ => simp [pushedVals]
      have hpp : poppedVals (c.lin ++ [⟨t, op, r, cpos, c.hist.length⟩]) = poppedVals c.lin := by
        rw [poppedVals_append]
        cases r with
        | popped o =>
          cases o with
          | some v => exact absurd rfl (hr2 v)
          | none => simp [poppedVals]
        | _ => simp [poppedVals]
      constructor
      · exact h.ent_nodup
      · exact h.ent_le
      · dsimp only; rw [hpi]; exact h.pid_nodup
      · dsimp only; rw [hpi]; exact h.pid_le
      · dsimp only
        intro u l hu
        rw [hpi]
        exact h.held u l (hheld u l hu).2
      · exact hinj
      · dsimp only; rw [hpv, hpp]; exact h.perm

theorem sinv_reach {c : CSt (Stack Nat) Op Ret Nat}
    (h : CReach impl (GenericStack.new : Stack Nat) c) : SInv c := by
  induction h with
  | init => exact sinv_init
  | step a _ hs ih => exact sinv_step ih hs

/-! ### the heap order survives every interleaving (so sequential Pops afterwards come out in id order) -/

theorem heap_step {c c' : CSt (Stack Nat) Op Ret Nat} {a : CAct Op}
    (hh : IsHeap lessId c.shared.entries) (hs : CStep impl c a c') : IsHeap lessId c'.shared.entries := by
  cases hs with
  | call => exact hh
  | ret => exact hh
  | secNext t op pc loc cpos s' pc' loc' _ hsec =>
    obtain ⟨v, _, _, h3, _, _⟩ := secNext_cases hsec
    subst h3; exact hh
  | secDone t op pc loc cpos s' r _ hsec =>
    rcases secDone_cases hsec with ⟨v, _, _, h3, _⟩ | ⟨e, rest, _, hp, h3, _⟩ | ⟨h3, _⟩
    · subst h3; exact push_isHeap lessId_strictWeak _ _ hh
    · subst h3
      have hne : c.shared.entries ≠ [] := by intro h0; rw [h0] at hp; simp [GoHeap.pop] at hp
      obtain ⟨r', h1, h2, _, _⟩ := pop_spec lessId_strictWeak c.shared.entries hh hne
      rw [h1] at hp
      simp only [Option.some.injEq, Prod.mk.injEq] at hp
      obtain ⟨_, rfl⟩ := hp
      exact h2
    · subst h3; exact hh

theorem heap_reach {c : CSt (Stack Nat) Op Ret Nat}
    (h : CReach impl (GenericStack.new : Stack Nat) c) : IsHeap lessId c.shared.entries := by
  induction h with
  | init => intro i h0 hi; simp [cinit, GenericStack.new, GoHeap.init, initLoop] at hi
  | step a _ hs ih => exact heap_step ih hs

/-- whatever Pop removes in a reachable state carries the smallest id on the stack. -/
theorem pop_min_reach {c : CSt (Stack Nat) Op Ret Nat}
    (h : CReach impl (GenericStack.new : Stack Nat) c) {e : Nat × Nat} {rest : List (Nat × Nat)}
    (hp : GoHeap.pop lessId c.shared.entries = some (e, rest)) : ∀ x ∈ c.shared.entries, e.1 ≤ x.1 := by
  have hh := heap_reach h
  have hne : c.shared.entries ≠ [] := by intro h0; rw [h0] at hp; simp [GoHeap.pop] at hp
  obtain ⟨r', h1, _, _, h4⟩ := pop_spec lessId_strictWeak c.shared.entries hh hne
  rw [h1] at hp
  simp only [Option.some.injEq, Prod.mk.injEq] at hp
  obtain ⟨rfl, _⟩ := hp
  intro x hx
  have := h4 x hx
  simp only [lessId, decide_eq_false_iff_not, Nat.not_lt] at this
  exact this

end TV.StackConc
