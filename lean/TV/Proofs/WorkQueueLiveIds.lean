import TV.Model.WorkQueue
import TV.Proofs.GoHeap
/-! WorkQueue LTS — the ids of the items that are still on their way are pairwise distinct
(needed by the liveness proofs: `removeId` removes exactly one entry). -/
namespace TV.WorkQueue.Live
open TV.GoHeap

/-- number of entries of `l` carrying id `j`. -/
def cnt (l : List Item) (j : Nat) : Nat := l.countP (·.id == j)

@[simp] theorem cnt_nil (j : Nat) : cnt [] j = 0 := rfl
@[simp] theorem cnt_append (l l' : List Item) (j : Nat) : cnt (l ++ l') j = cnt l j + cnt l' j := by
  simp [cnt, List.countP_append]
theorem cnt_cons (a : Item) (l : List Item) (j : Nat) : cnt (a :: l) j = (if a.id = j then 1 else 0) + cnt l j := by
  simp [cnt, List.countP_cons]; omega
theorem cnt_single (a : Item) (j : Nat) : cnt [a] j = if a.id = j then 1 else 0 := by
  simp [cnt_cons]
theorem cnt_le_length (l : List Item) (j : Nat) : cnt l j ≤ l.length := List.countP_le_length

theorem cnt_perm {l l' : List Item} (h : l.Perm l') (j : Nat) : cnt l j = cnt l' j := h.countP_eq _

theorem cnt_push (l : List Item) (x : Item) (j : Nat) : cnt (GoHeap.push less l x) j = cnt l j + cnt [x] j := by
  rw [cnt_perm (push_perm less l x), cnt_cons, cnt_single]; omega

theorem cnt_last {l2 : List Item} {x : Item} (h : l2.getLast? = some x) (j : Nat) :
    cnt l2.dropLast j + cnt [x] j = cnt l2 j := by
  obtain ⟨ys, rfl⟩ := List.getLast?_eq_some_iff.mp h
  simp

theorem cnt_pop {l : List Item} {m : Item} {rest : List Item} (h : GoHeap.pop less l = some (m, rest)) (j : Nat) :
    cnt rest j + cnt [m] j = cnt l j := by
  unfold GoHeap.pop at h
  split at h
  · simp at h
  · simp only [] at h
    split at h
    · rename_i x hx
      simp only [Option.some.injEq, Prod.mk.injEq] at h
      obtain ⟨rfl, rfl⟩ := h
      rw [cnt_last hx, cnt_perm (down_perm _ _ _ _ _), cnt_perm (swap_perm _ _ _)]
    · simp at h

theorem cnt_initLoop (k : Nat) (l : List Item) (j : Nat) : cnt (GoHeap.initLoop less k l) j = cnt l j := by
  induction k generalizing l with
  | zero => rfl
  | succ k ih => simp only [GoHeap.initLoop]; rw [ih, cnt_perm (down_perm _ _ _ _ _)]

theorem cnt_map_id (u : Item → Item) (hu : ∀ x, (u x).id = x.id) (l : List Item) (j : Nat) :
    cnt (l.map u) j = cnt l j := by
  induction l with
  | nil => rfl
  | cons a t ih => simp only [List.map_cons, cnt_cons, ih, hu]

theorem cnt_adjustAll (s : St) (h : List Item) (j : Nat) : cnt (adjustAll s h) j = cnt h j := by
  unfold adjustAll; simp only []
  have hm : cnt (h.map (fun it => if it.adj then { it with prio := adjVal s it } else it)) j = cnt h j :=
    cnt_map_id _ (by intro x; split <;> rfl) h j
  split
  · rw [GoHeap.init, cnt_initLoop, hm]
  · exact hm

theorem cnt_fix (l : List Item) (i : Nat) (j : Nat) : cnt (GoHeap.fix less l i) j = cnt l j := by
  unfold GoHeap.fix
  split
  rename_i ld i' hd
  have hld : ld = (down less l.length l i l.length).1 := by rw [hd]
  split
  · rw [hld, cnt_perm (down_perm _ _ _ _ _)]
  · rw [cnt_perm (up_perm _ _ _ _), hld, cnt_perm (down_perm _ _ _ _ _)]

theorem cnt_remove {l : List Item} {i : Nat} {x : Item} {rest : List Item}
    (h : GoHeap.remove less l i = some (x, rest)) (j : Nat) : cnt rest j + cnt [x] j = cnt l j := by
  unfold GoHeap.remove at h
  split at h
  · simp at h
  · simp only [] at h
    split at h
    · rename_i y hy
      simp only [Option.some.injEq, Prod.mk.injEq] at h
      obtain ⟨rfl, rfl⟩ := h
      rw [cnt_last hy]
      split
      · split
        · rw [cnt_perm (down_perm _ _ _ _ _), cnt_perm (swap_perm _ _ _)]
        · rw [cnt_perm (up_perm _ _ _ _), cnt_perm (down_perm _ _ _ _ _), cnt_perm (swap_perm _ _ _)]
      · rfl
    · simp at h

theorem cnt_set {l : List Item} {i : Nat} {it it' : Item} (h : l[i]? = some it) (hid : it'.id = it.id) (j : Nat) :
    cnt (l.set i it') j = cnt l j := by
  induction l generalizing i with
  | nil => simp
  | cons a t ih =>
    cases i with
    | zero =>
      simp only [List.getElem?_cons_zero, Option.some.injEq] at h; subst h
      simp only [List.set_cons_zero, cnt_cons, hid]
    | succ i =>
      simp only [List.getElem?_cons_succ] at h
      simp only [List.set_cons_succ, cnt_cons, ih h]

theorem cnt_removeId (l : List Item) (id j : Nat) : cnt (removeId l id) j = if j = id then 0 else cnt l j := by
  induction l with
  | nil => simp [removeId]
  | cons a t ih =>
    simp only [removeId, List.filter_cons] at ih ⊢
    by_cases ha : a.id = id
    · have : (a.id != id) = false := by simp [ha]
      rw [this]; simp only [Bool.false_eq_true, if_false]; rw [ih, cnt_cons]
      by_cases hj : j = id
      · simp [hj]
      · have : ¬ a.id = j := by omega
        simp [hj, this]
    · have : (a.id != id) = true := by simp [ha]
      rw [this]; simp only [if_true]; rw [cnt_cons, ih, cnt_cons]
      by_cases hj : j = id
      · subst hj; simp [ha]
      · simp [hj]

theorem length_removeId (l : List Item) (id : Nat) : (removeId l id).length + cnt l id = l.length := by
  induction l with
  | nil => rfl
  | cons a t ih =>
    simp only [removeId, List.filter_cons] at ih ⊢
    rw [cnt_cons]
    by_cases ha : a.id = id
    · simp [ha]; omega
    · simp [ha]; omega

theorem findId_some {l : List Item} {id : Nat} {it : Item} (h : findId l id = some it) :
    it.id = id ∧ 1 ≤ cnt l id := by
  induction l with
  | nil => simp [findId] at h
  | cons a t ih =>
    simp only [findId, List.find?_cons] at h ih
    rw [cnt_cons]
    split at h
    · rename_i heq
      simp only [Option.some.injEq] at h; subst h
      have : a.id = id := by simpa using heq
      simp [this]
    · have := ih h
      exact ⟨this.1, by omega⟩

theorem idxOf_some {l : List Item} {id i : Nat} (h : idxOf l id = some i) : i < l.length := by
  unfold idxOf at h; simp only [] at h
  split at h
  · simp only [Option.some.injEq] at h; omega
  · simp at h

/-! ### the invariant -/

/-- the items the dispatcher holds. -/
def dispItems : Disp → List Item
  | .fullWait it => [it]
  | .handOff m (some it) => [m, it]
  | .handOff m none => [m]
  | .drain rest => rest
  | _ => []

/-- occurrences of id `j` among the items that can still move (everything stored except `limbo`). -/
def cntAll (s : St) (j : Nat) : Nat :=
  cnt s.blocked j + cnt (dispItems s.disp) j + cnt s.heap j + cnt s.chan j + cnt s.running j + cnt s.errSend j

/-- ids are pairwise distinct and below `nextId`. -/
def IdInv (s : St) : Prop := ∀ j, cntAll s j ≤ 1 ∧ (s.nextId ≤ j → cntAll s j = 0)

theorem IdInv_init (W L : Nat) : IdInv (init W L) := by
  intro j; simp [cntAll, init, dispItems]

theorem cnt_toDrain (s : St) (j : Nat) : cntAll (toDrain s) j ≤ cnt s.blocked j + cnt s.heap j + cnt s.chan j + cnt s.running j + cnt s.errSend j := by
  unfold toDrain; split <;> simp [cntAll, dispItems]

theorem nextId_toDrain (s : St) : (toDrain s).nextId = s.nextId := by
  unfold toDrain; split <;> rfl

theorem cnt_pair (a b : Item) (j : Nat) : cnt [a, b] j = cnt [a] j + cnt [b] j := by
  simp only [cnt_cons, cnt_nil]; omega

theorem cnt_cons_eq (a : Item) (l : List Item) (j : Nat) : cnt (a :: l) j = cnt [a] j + cnt l j := by
  rw [cnt_cons, cnt_single]

theorem single_fact (a : Item) (j : Nat) : (a.id = j → cnt [a] j = 1) ∧ (a.id ≠ j → cnt [a] j = 0) := by
  rw [cnt_single]; constructor <;> intro h <;> simp [h]

theorem removeId_fact (l : List Item) (id j : Nat) :
    (j = id → cnt (removeId l id) j = 0) ∧ (j ≠ id → cnt (removeId l id) j = cnt l j) := by
  rw [cnt_removeId]; constructor <;> intro h <;> simp [h]

theorem IdInv_toDrain {s : St} {j n : Nat} (h : cnt s.blocked j + cnt s.heap j + cnt s.chan j + cnt s.running j + cnt s.errSend j ≤ n) :
    cntAll (toDrain s) j ≤ n := Nat.le_trans (cnt_toDrain s j) h

theorem IdInv_step {s s' : St} {a : Act} (inv : IdInv s) (h : step? s a = some s') : IdInv s' := by
  intro j
  obtain ⟨h1, h2⟩ := inv j
  simp only [cntAll] at h1 h2
  cases a
  case enqueue p name adj =>
    simp only [step?] at h
    by_cases hj : s.nextId = j
    · split at h <;> (simp only [Option.some.injEq] at h; subst h; simp [cntAll, cnt_single, hj]; omega)
    · split at h <;> (simp only [Option.some.injEq] at h; subst h; simp [cntAll, cnt_single, hj]; omega)
  case recv id =>
    simp only [step?] at h
    split at h
    · rename_i it hd hf
      obtain ⟨hid, hc⟩ := findId_some hf
      have hr := cnt_removeId s.blocked id j
      simp only [hd, dispItems, cnt_nil] at h1 h2
      by_cases hj : id = j
      · subst hj
        simp only [if_true] at hr
        split at h
        · simp only [Option.some.injEq] at h; subst h
          refine ⟨Nat.le_trans (cnt_toDrain _ _) ?_, fun hn => Nat.eq_zero_of_le_zero (Nat.le_trans (cnt_toDrain _ _) ?_)⟩
          · simp [cnt_push, cnt_single, hid, hr]; omega
          · rw [nextId_toDrain] at hn; simp at hn; simp [cnt_push, cnt_single, hid, hr]; omega
        · split at h
          · simp only [Option.some.injEq] at h; subst h
            simp [cntAll, hd, dispItems, cnt_single, hid, hr]; omega
          · split at h <;> (simp only [Option.some.injEq] at h; subst h; simp [cntAll, hd, dispItems, cnt_single, cnt_push, hid, hr]; omega)
      · have hj' : ¬ j = id := fun e => hj e.symm
        simp only [hj', if_false] at hr
        split at h
        · simp only [Option.some.injEq] at h; subst h
          refine ⟨Nat.le_trans (cnt_toDrain _ _) ?_, fun hn => Nat.eq_zero_of_le_zero (Nat.le_trans (cnt_toDrain _ _) ?_)⟩
          · simp [cnt_push, cnt_single, hid, hr, hj]; omega
          · rw [nextId_toDrain] at hn; simp at hn; simp [cnt_push, cnt_single, hid, hr, hj]; omega
        · split at h
          · simp only [Option.some.injEq] at h; subst h
            simp [cntAll, hd, dispItems, cnt_single, hid, hr, hj]; omega
          · split at h <;> (simp only [Option.some.injEq] at h; subst h; simp [cntAll, hd, dispItems, cnt_single, cnt_push, hid, hr, hj]; omega)
    · simp at h
  case tok =>
    simp only [step?] at h
    split at h
    · simp at h
    · split at h
      · rename_i hd
        simp only [hd, dispItems, cnt_nil] at h1 h2
        split at h
        · simp only [Option.some.injEq] at h; subst h
          refine ⟨IdInv_toDrain ?_, fun hn => Nat.eq_zero_of_le_zero (IdInv_toDrain ?_)⟩
          · simp; omega
          · rw [nextId_toDrain] at hn; simp at hn; simp; omega
        · split at h
          · simp only [Option.some.injEq] at h; subst h
            simp [cntAll, hd, dispItems]; omega
          · split at h
            · rename_i hp
              have hl := cnt_pop hp j
              rw [cnt_adjustAll] at hl
              simp only [Option.some.injEq] at h; subst h
              simp [cntAll, dispItems]; omega
            · simp only [Option.some.injEq] at h; subst h
              simp [cntAll, hd, dispItems]; omega
      · rename_i it hd
        simp only [hd, dispItems] at h1 h2
        split at h
        · simp only [Option.some.injEq] at h; subst h
          refine ⟨IdInv_toDrain ?_, fun hn => Nat.eq_zero_of_le_zero (IdInv_toDrain ?_)⟩
          · simp [cnt_push]; omega
          · rw [nextId_toDrain] at hn; simp at hn; simp [cnt_push]; omega
        · split at h
          · rename_i hp
            have hl := cnt_pop hp j
            rw [cnt_adjustAll] at hl
            simp only [Option.some.injEq] at h; subst h
            simp [cntAll, dispItems, cnt_pair]; omega
          · simp only [Option.some.injEq] at h; subst h
            simp [cntAll, hd, dispItems]; omega
      · simp at h
  case handOffDone =>
    simp only [step?] at h
    split at h
    · rename_i m held hd
      split at h
      · simp only [Option.some.injEq] at h; subst h
        cases held <;> simp only [hd, dispItems, cnt_pair] at h1 h2 <;> simp [cntAll, dispItems, cnt_push] <;> omega
      · simp at h
    · simp at h
  case take =>
    simp only [step?] at h
    split at h
    · rename_i it rest hc
      rw [hc, cnt_cons_eq] at h1 h2
      split at h
      · simp only [Option.some.injEq] at h; subst h
        simp [cntAll]; omega
      · simp at h
    · simp at h
  case finish id err =>
    simp only [step?] at h
    split at h
    · rename_i it hf
      obtain ⟨hid, hc⟩ := findId_some hf
      have hr := removeId_fact s.running id j
      have hs := single_fact it j
      by_cases hj : j = id
      · subst hj
        split at h <;> (simp only [Option.some.injEq] at h; subst h; simp [cntAll]; omega)
      · split at h <;> (simp only [Option.some.injEq] at h; subst h; simp [cntAll]; omega)
    · simp at h
  case errRecv id =>
    simp only [step?] at h
    split at h
    · have hr := removeId_fact s.errSend id j
      simp only [Option.some.injEq] at h; subst h; simp [cntAll]; omega
    · simp at h
  case giveUp id =>
    simp only [step?] at h
    split at h
    · have hr := removeId_fact s.blocked id j
      split at h
      · simp only [Option.some.injEq] at h; subst h; simp [cntAll]; omega
      · simp at h
    · simp at h
  case ctxExit =>
    simp only [step?] at h
    split at h
    · rename_i hd
      simp only [hd, dispItems, cnt_nil] at h1 h2
      split at h
      · simp only [Option.some.injEq] at h; subst h
        refine ⟨IdInv_toDrain ?_, fun hn => Nat.eq_zero_of_le_zero (IdInv_toDrain ?_)⟩
        · omega
        · rw [nextId_toDrain] at hn; omega
      · simp at h
    · rename_i it hd
      simp only [hd, dispItems] at h1 h2
      split at h
      · simp only [Option.some.injEq] at h; subst h
        refine ⟨IdInv_toDrain ?_, fun hn => Nat.eq_zero_of_le_zero (IdInv_toDrain ?_)⟩
        · simp [cnt_push]; omega
        · rw [nextId_toDrain] at hn; simp at hn; simp [cnt_push]; omega
      · simp at h
    · simp at h
  case drainSend =>
    simp only [step?] at h
    split at h
    · rename_i it rest hd
      simp only [hd, dispItems] at h1 h2
      rw [cnt_cons_eq] at h1 h2
      split at h
      · split at h <;> (simp only [Option.some.injEq] at h; subst h; simp [cntAll, dispItems]; omega)
      · simp at h
    · simp at h
  case dequeue id =>
    simp only [step?] at h
    split at h
    · split at h
      · rename_i hrm
        have hl := cnt_remove hrm j
        simp only [Option.some.injEq] at h; subst h; simp [cntAll, cnt_adjustAll]; omega
      · simp only [Option.some.injEq] at h; subst h; simp [cntAll]; omega
    · simp only [Option.some.injEq] at h; subst h; simp [cntAll]; omega
  case setPrio id p =>
    simp only [step?] at h
    split at h
    · simp only [Option.some.injEq] at h; subst h; simp [cntAll]; omega
    · split at h
      · split at h
        · rename_i i hi it hit
          have hl := cnt_set (it' := { it with prio := p }) hit rfl j
          simp only [Option.some.injEq] at h; subst h; simp [cntAll, cnt_adjustAll, cnt_fix, hl]; omega
        · simp only [Option.some.injEq] at h; subst h; simp [cntAll]; omega
      · simp only [Option.some.injEq] at h; subst h
        have hu : ∀ x : Item, (if (x.id == id) = true then { x with prio := p } else x).id = x.id := by
          intro x; split <;> rfl
        simp only [cntAll, cnt_map_id _ hu, cnt_adjustAll]
        cases hd : s.disp with
        | handOff m held =>
          cases held <;> simp only [hd, dispItems, cnt_pair, cnt_single] at h1 h2 <;>
            simp only [dispItems, cnt_pair, cnt_single, hu, Option.map_some, Option.map_none] <;> exact ⟨h1, h2⟩
        | _ =>
          simp only [hd, dispItems, cnt_single] at h1 h2 <;>
            simp only [dispItems, cnt_single, hu, cnt_map_id _ hu] <;> exact ⟨h1, h2⟩
  all_goals (
    simp only [step?] at h
    (repeat' split at h) <;> first | (simp at h; done) | (simp only [Option.some.injEq] at h; subst h; simp_all [cntAll, dispItems]; try omega))


theorem IdInv_reach {W L : Nat} {s : St} (h : Reach W L s) : IdInv s := by
  induction h with
  | init => exact IdInv_init W L
  | step a _ _ hs ih => exact IdInv_step ih hs

/-- in a reachable state `removeId` removes exactly the entry `findId` found. -/
theorem removeId_exact {s : St} (inv : IdInv s) {l : List Item} {id : Nat} {it : Item}
    (hl : ∀ j, cnt l j ≤ cntAll s j) (hf : findId l id = some it) :
    (removeId l id).length + 1 = l.length := by
  have h1 := (findId_some hf).2
  have h2 := (inv id).1
  have h3 := hl id
  have h4 := length_removeId l id
  omega

end TV.WorkQueue.Live
