import TV.Proofs.WorkQueueSafetyInv
/-! Preservation of the invariant: the error monitor (errRecv, subRecv, monExit). -/
namespace TV.WorkQueue
open TV.GoHeap

theorem fst_unique {l : List (Nat × Nat)} (h : ∀ id, (l.map (·.1)).count id ≤ 1) {a b b' : Nat}
    (h1 : (a, b) ∈ l) (h2 : (a, b') ∈ l) : b = b' := by
  induction l with
  | nil => cases h1
  | cons x l ih =>
    have hl : ∀ id, (l.map (·.1)).count id ≤ 1 := by
      intro id; have := h id; simp only [List.map_cons, List.count_cons] at this; omega
    have hmem : ∀ c, (a, c) ∈ l → 0 < (l.map (·.1)).count a := by
      intro c hc
      rw [List.count_pos_iff]
      exact List.mem_map_of_mem (f := (·.1)) hc
    have ha := h a
    simp only [List.map_cons, List.count_cons] at ha
    rcases List.mem_cons.mp h1 with rfl | h1' <;> rcases List.mem_cons.mp h2 with h2' | h2'
    · cases h2'; rfl
    · have := hmem _ h2'; simp at ha; omega
    · subst h2'; have := hmem _ h1'; simp at ha; omega
    · exact ih hl h1' h2'

theorem monOK_errRecv {inbox errored : List (Nat × Nat)} {id subs : Nat} (h : MonOK inbox errored .idle)
    (hnew : (errored.map (·.1)).count id = 0) :
    MonOK inbox (errored ++ [(id, subs)]) (if subs = 0 then .idle else .fanout id (List.range subs)) := by
  obtain ⟨h1, h2, h3, h4⟩ := h
  have hno : ∀ n, (id, n) ∉ errored := by
    intro n hn
    have : 0 < (errored.map (·.1)).count id := by
      rw [List.count_pos_iff]; exact List.mem_map_of_mem (f := (·.1)) hn
    omega
  refine ⟨h1, ?_, ?_, ?_⟩
  · intro p hp
    obtain ⟨n, hn, hlt⟩ := h2 p hp
    exact ⟨n, List.mem_append_left _ hn, hlt⟩
  · intro e he hm sub hsub
    rcases List.mem_append.mp he with he | he
    · exact h3 e he (by intro r; simp) sub hsub
    · simp only [List.mem_singleton] at he
      subst he
      by_cases hs0 : subs = 0
      · simp only at hsub; omega
      · rw [if_neg hs0] at hm
        exact absurd rfl (hm _)
  · intro e r hm
    by_cases hs0 : subs = 0
    · rw [if_pos hs0] at hm; cases hm
    · rw [if_neg hs0] at hm
      injection hm with he hr
      subst he hr
      refine ⟨0, subs, by omega, by rw [List.range_eq_range'], by simp, ?_⟩
      intro sub
      constructor
      · intro hin
        obtain ⟨n, hn, _⟩ := h2 _ hin
        exact absurd hn (hno n)
      · intro hlt; omega

theorem monOK_subRecv {inbox errored : List (Nat × Nat)} {e x : Nat} {rest : List Nat}
    (h : MonOK inbox errored (.fanout e (x :: rest)))
    (hnd : ∀ id, (errored.map (·.1)).count id ≤ 1) :
    MonOK (inbox ++ [(x, e)]) errored (if rest.isEmpty then .idle else .fanout e rest) := by
  obtain ⟨h1, h2, h3, h4⟩ := h
  obtain ⟨k, m, hm, hr, hmem, hin⟩ := h4 e _ rfl
  obtain ⟨m', rfl⟩ : ∃ m', m = m' + 1 := ⟨m - 1, by omega⟩
  rw [List.range'_succ] at hr
  injection hr with hxk hrest
  subst hxk
  refine ⟨?_, ?_, ?_, ?_⟩
  · rw [List.nodup_append]
    refine ⟨h1, by simp, ?_⟩
    intro a ha b hb
    simp only [List.mem_singleton] at hb
    subst hb
    intro hab
    subst hab
    have := (hin x).mp ha
    omega
  · intro p hp
    rcases List.mem_append.mp hp with hp | hp
    · exact h2 p hp
    · simp only [List.mem_singleton] at hp
      subst hp
      exact ⟨_, hmem, by simp⟩
  · intro e' he' hm' sub hsub
    by_cases hee : e'.1 = e
    · obtain ⟨e1, e2⟩ := e'
      simp only at hee hsub hm' ⊢
      subst hee
      have h2e := fst_unique hnd he' hmem
      subst h2e
      have hre : rest = [] := by
        cases hr' : rest with
        | nil => rfl
        | cons a t =>
          rw [hr'] at hm'
          simp only [List.isEmpty_cons, Bool.false_eq_true, if_false] at hm'
          exact absurd rfl (hm' _)
      have hm0 : m' = 0 := by
        rw [hre] at hrest
        cases m' with
        | zero => rfl
        | succ n => rw [List.range'_succ] at hrest; cases hrest
      subst hm0
      by_cases hsx : sub = x
      · subst hsx; simp
      · exact List.mem_append_left _ ((hin sub).mpr (by omega))
    · have := h3 e' he' (by intro r hr'; injection hr' with hr' _; exact hee hr'.symm) sub hsub
      exact List.mem_append_left _ this
  · intro e' r' hm'
    cases hr' : rest with
    | nil => rw [hr'] at hm'; simp at hm'
    | cons a t =>
      rw [hr'] at hm'
      simp only [List.isEmpty_cons, Bool.false_eq_true, if_false] at hm'
      injection hm' with he' hr''
      subst he' hr''
      have hm0 : 0 < m' := by
        cases m' with
        | zero => rw [hr'] at hrest; simp at hrest
        | succ n => omega
      refine ⟨x + 1, m', hm0, by rw [← hr']; exact hrest, by rw [show x + 1 + m' = x + (m' + 1) by omega]; exact hmem, ?_⟩
      intro sub
      rw [List.mem_append, hin sub]
      simp only [List.mem_singleton, Prod.mk.injEq, and_true]
      omega

theorem monOK_monExit {inbox errored : List (Nat × Nat)} (h : MonOK inbox errored .idle) :
    MonOK inbox errored .exited := by
  obtain ⟨h1, h2, h3, h4⟩ := h
  refine ⟨h1, h2, ?_, ?_⟩
  · intro e he _ sub hsub
    exact h3 e he (by intro r; simp) sub hsub
  · intro e r hm; cases hm


set_option hygiene false in
/-- like `close_inv`, with the new error ledger `hmon` supplied -/
macro "close_inv_mon" x:term : tactic => `(tactic| (
  constructor
  case loc =>
    intro id
    have h1 := loc id
    have h2 := loc $x
    simp only [wqs] at h1 h2 ⊢
    grind
  case monOK => exact hmon
  all_goals (clear loc; (try dsimp only); (try simp only [wqs] at *); grind)))

theorem inv_errRecv {W : Nat} {s s' : St} {id : Nat} (h : Inv W s) (hs : step? s (.errRecv id) = some s') : Inv W s' := by
  open_inv
  simp only [step?] at hs
  split at hs
  · next _ _ it hf =>
    have hpos := cnt_pos_of_mem (findId_some hf).1
    rw [(findId_some hf).2] at hpos
    have h0 := loc id
    simp only [wqs] at h0
    have hlen := length_removeId errSend id
    dsimp only at *
    injection hs with hs; subst hs
    have hmon := monOK_errRecv (id := id) (subs := subs) monOK (by omega)
    close_inv_mon id
  · cases hs

theorem inv_subRecv {W : Nat} {s s' : St} {sub : Nat} (h : Inv W s) (hs : step? s (.subRecv sub) = some s') : Inv W s' := by
  open_inv
  simp only [step?] at hs
  split at hs
  · next _ e x rest =>
    dsimp only at *
    split at hs
    · next hx =>
      subst hx
      injection hs with hs; subst hs
      have hmon := monOK_subRecv monOK (fun id => by have := loc id; simp only [wqs] at this; omega)
      close_inv_mon 0
    · cases hs
  · cases hs

theorem inv_monExit {W : Nat} {s s' : St} (h : Inv W s) (hs : step? s .monExit = some s') : Inv W s' := by
  open_inv
  simp only [step?] at hs
  split at hs
  · dsimp only at *
    split at hs
    · injection hs with hs; subst hs
      have hmon := monOK_monExit monOK
      close_inv_mon 0
    · cases hs
  · cases hs

end TV.WorkQueue
