import TV.Model.LinCheck
/-!
# The linearizability decision procedure is sound and complete (core-only)

`linCheck` is what the driver runs on histories recorded from the real code (C07 concurrent clause).
It answers `true` exactly when a linearization exists: an ordering of the recorded operations that
(1) is a permutation of the history, (2) is legal for the sequential specification `apply` from `s0`
(every operation returns what the specification returns at its place), and (3) respects real time
(an operation that returned before another one was called precedes it).

Soundness holds for every history.  Completeness (and so the equivalence) needs the records to be
*well stamped* (`¬ (o.e < o.c)`: no record returns before it is called), which the recorder
guarantees (`c < e`, one global atomic counter): `minimal rem o` quantifies over all of `rem`,
`o` itself included, so a record with `e < c` is never chosen, while `IsLinearization` (a `Pairwise`
condition, which never compares a record with itself) does not exclude it.  Counterexample to the
unconditional statement: `h = l = [⟨0, op, (apply s0 op).2, 5, 3⟩]` is a linearization of itself
and `linCheck apply s0 h = false` (`linCheck_complete_needs_wellStamped` below).
-/
namespace TV.LinCheck
open TV.LockedObject

variable {σ Op Ret : Type} [DecidableEq Ret]

/-- a linearization of the recorded history `h`. -/
def IsLinearization (apply : σ → Op → σ × Ret) (s0 : σ) (h l : List (Rec Op Ret)) : Prop :=
  l.Perm h ∧
  seqOK apply s0 (l.map (fun o => (o.op, o.r))) = true ∧
  l.Pairwise (fun a b => ¬ (b.e < a.c))

/-! ### `removeNth` -/

theorem removeNth_perm {α : Type} : ∀ (l : List α) (i : Nat) (x : α), l[i]? = some x →
    l.Perm (x :: removeNth l i)
  | [], i, x, h => by simp at h
  | y :: ys, 0, x, h => by
    simp at h; subst h; exact List.Perm.refl _
  | y :: ys, i + 1, x, h => by
    simp at h
    have ih := removeNth_perm ys i x h
    show (y :: ys).Perm (x :: y :: removeNth ys i)
    exact (List.Perm.cons y ih).trans (List.Perm.swap x y _)

theorem removeNth_length {α : Type} (l : List α) (i : Nat) (x : α) (h : l[i]? = some x) :
    (removeNth l i).length + 1 = l.length := by
  have := (removeNth_perm l i x h).length_eq
  simpa using this.symm

/-! ### soundness -/

theorem search_sound (apply : σ → Op → σ × Ret) : ∀ (fuel : Nat) (s : σ) (rem : List (Rec Op Ret)),
    search apply fuel s rem = true →
    ∃ l : List (Rec Op Ret), l.Perm rem ∧
      seqOK apply s (l.map (fun o => (o.op, o.r))) = true ∧
      l.Pairwise (fun a b => ¬ (b.e < a.c)) := by
  intro fuel
  induction fuel with
  | zero =>
    intro s rem h
    have : rem = [] := by simpa [search] using h
    subst this
    exact ⟨[], List.Perm.refl _, rfl, List.Pairwise.nil⟩
  | succ fuel ih =>
    intro s rem h
    simp only [search, Bool.or_eq_true] at h
    rcases h with h | h
    · have : rem = [] := by simpa using h
      subst this
      exact ⟨[], List.Perm.refl _, rfl, List.Pairwise.nil⟩
    · rw [List.any_eq_true] at h
      obtain ⟨i, _, hi⟩ := h
      cases hget : rem[i]? with
      | none => rw [hget] at hi; simp at hi
      | some o =>
        rw [hget] at hi
        simp only [Bool.and_eq_true] at hi
        obtain ⟨⟨hmin, hret⟩, hrec⟩ := hi
        obtain ⟨l', hperm, hseq, hpw⟩ := ih _ _ hrec
        have hp := removeNth_perm rem i o hget
        refine ⟨o :: l', (List.Perm.cons o hperm).trans hp.symm, ?_, ?_⟩
        · simp only [List.map_cons, seqOK, Bool.and_eq_true]
          exact ⟨hret, hseq⟩
        · refine List.Pairwise.cons ?_ hpw
          intro b hb
          have hbrem : b ∈ rem := hp.symm.subset (List.mem_cons_of_mem _ (hperm.subset hb))
          have := (List.all_eq_true.mp hmin) b hbrem
          simpa using this

theorem linCheck_sound (apply : σ → Op → σ × Ret) (s0 : σ) (h : List (Rec Op Ret)) :
    linCheck apply s0 h = true → ∃ l, IsLinearization apply s0 h l :=
  fun hc => search_sound apply h.length s0 h hc

/-! ### completeness -/

theorem search_complete (apply : σ → Op → σ × Ret) : ∀ (fuel : Nat) (s : σ)
    (rem l : List (Rec Op Ret)), rem.length ≤ fuel → (∀ o ∈ rem, ¬ (o.e < o.c)) →
    l.Perm rem → seqOK apply s (l.map (fun o => (o.op, o.r))) = true →
    l.Pairwise (fun a b => ¬ (b.e < a.c)) → search apply fuel s rem = true := by
  intro fuel
  induction fuel with
  | zero =>
    intro s rem l hlen _ _ _ _
    have : rem = [] := List.eq_nil_of_length_eq_zero (Nat.le_zero.mp hlen)
    subst this
    simp [search]
  | succ fuel ih =>
    intro s rem l hlen hws hperm hseq hpw
    simp only [search, Bool.or_eq_true]
    cases l with
    | nil =>
      left
      have : rem = [] := List.Perm.nil_eq hperm |>.symm
      subst this; rfl
    | cons a l' =>
      right
      have ha : a ∈ rem := hperm.subset (List.mem_cons_self)
      obtain ⟨i, hi, hget⟩ := List.getElem_of_mem ha
      have hget? : rem[i]? = some a := by rw [List.getElem?_eq_getElem hi, hget]
      have hp := removeNth_perm rem i a hget?
      have hperm' : l'.Perm (removeNth rem i) := List.Perm.cons_inv (hperm.trans hp)
      simp only [List.map_cons, seqOK, Bool.and_eq_true] at hseq
      have hpw' := List.pairwise_cons.mp hpw
      rw [List.any_eq_true]
      refine ⟨i, List.mem_range.mpr hi, ?_⟩
      rw [hget?]
      simp only [Bool.and_eq_true]
      refine ⟨⟨?_, hseq.1⟩, ?_⟩
      · unfold minimal
        rw [List.all_eq_true]
        intro o' ho'
        have : o' ∈ a :: l' := hperm.symm.subset ho'
        rcases List.mem_cons.mp this with h | h
        · subst h; simpa using hws o' ho'
        · simpa using hpw'.1 o' h
      · refine ih _ _ l' ?_ ?_ hperm' hseq.2 hpw'.2
        · have := removeNth_length rem i a hget?
          omega
        · intro o ho
          exact hws o (hp.symm.subset (List.mem_cons_of_mem _ ho))

-- CHANGED: hypothesis `hws` (well-stamped records) added; without it the statement is false, see
-- `linCheck_complete_needs_wellStamped`.
theorem linCheck_complete (apply : σ → Op → σ × Ret) (s0 : σ) (h l : List (Rec Op Ret))
    (hws : ∀ o ∈ h, ¬ (o.e < o.c)) :
    IsLinearization apply s0 h l → linCheck apply s0 h = true :=
  fun ⟨hperm, hseq, hpw⟩ => search_complete apply h.length s0 h l (Nat.le_refl _) hws hperm hseq hpw

-- CHANGED: hypothesis `hws` (well-stamped records) added, as for `linCheck_complete`.
theorem linCheck_iff (apply : σ → Op → σ × Ret) (s0 : σ) (h : List (Rec Op Ret))
    (hws : ∀ o ∈ h, ¬ (o.e < o.c)) :
    linCheck apply s0 h = true ↔ ∃ l, IsLinearization apply s0 h l :=
  ⟨linCheck_sound apply s0 h, fun ⟨l, hl⟩ => linCheck_complete apply s0 h l hws hl⟩

/-- the counterexample to unconditional completeness: a single record stamped `e < c`, returning
    what the specification returns, is a linearization of itself and is rejected by `linCheck`. -/
theorem linCheck_complete_needs_wellStamped (apply : σ → Op → σ × Ret) (s0 : σ) (op : Op) :
    let h : List (Rec Op Ret) := [⟨0, op, (apply s0 op).2, 5, 3⟩]
    IsLinearization apply s0 h h ∧ linCheck apply s0 h = false := by
  refine ⟨⟨List.Perm.refl _, ?_, ?_⟩, ?_⟩
  · simp [seqOK]
  · simp
  · simp [linCheck, search, minimal, List.range, List.range.loop]

end TV.LinCheck
