import TV.Proofs.WorkQueueSafetyInv
/-! Preservation of the invariant: hand-off, shutdown, Dequeue, SetPriority. -/
namespace TV.WorkQueue
open TV.GoHeap

theorem inv_handOffDone {W : Nat} {s s' : St} (h : Inv W s) (hs : step? s .handOffDone = some s') : Inv W s' := by
  open_inv
  simp only [step?] at hs
  split at hs
  · next _ m hd =>
    dsimp only at *
    split at hs
    · injection hs with hs; subst hs
      cases hd
      · close_inv m.id
      · next it => close_inv it.id
    · cases hs
  · cases hs

theorem inv_ctxExit {W : Nat} {s s' : St} (h : Inv W s) (hs : step? s .ctxExit = some s') : Inv W s' := by
  open_inv
  simp only [step?, toDrain] at hs
  split at hs
  · dsimp only at *
    split at hs
    · split at hs
      · injection hs with hs; subst hs
        close_inv 0
      · injection hs with hs; subst hs
        close_inv 0
    · cases hs
  · next _ it =>
    dsimp only at *
    split at hs
    · split at hs
      · injection hs with hs; subst hs
        close_inv it.id
      · injection hs with hs; subst hs
        close_inv it.id
    · cases hs
  · cases hs

theorem inv_drainSend {W : Nat} {s s' : St} (h : Inv W s) (hs : step? s .drainSend = some s') : Inv W s' := by
  open_inv
  simp only [step?] at hs
  split at hs
  · next _ it rest =>
    dsimp only at *
    split at hs
    · split at hs
      · next hb =>
        injection hs with hs; subst hs
        close_inv it.id
      · injection hs with hs; subst hs
        close_inv it.id
    · cases hs
  · cases hs

theorem inv_drainTok {W : Nat} {s s' : St} (h : Inv W s) (hs : step? s .drainTok = some s') : Inv W s' := by
  open_inv
  simp only [step?] at hs
  split at hs
  · dsimp only at *
    split at hs
    · injection hs with hs; subst hs
      close_inv 0
    · cases hs
  · cases hs

theorem inv_closeChan {W : Nat} {s s' : St} (h : Inv W s) (hs : step? s .closeChan = some s') : Inv W s' := by
  open_inv
  simp only [step?] at hs
  split at hs
  · dsimp only at *
    injection hs with hs; subst hs
    close_inv 0
  · cases hs

theorem inv_awaitTok {W : Nat} {s s' : St} (h : Inv W s) (hs : step? s .awaitTok = some s') : Inv W s' := by
  open_inv
  simp only [step?] at hs
  split at hs
  · dsimp only at *
    split at hs
    · injection hs with hs; subst hs
      close_inv 0
    · cases hs
  · cases hs

theorem inv_workerExit {W : Nat} {s s' : St} (h : Inv W s) (hs : step? s .workerExit = some s') : Inv W s' := by
  open_inv
  simp only [step?] at hs
  split at hs
  · next hc =>
    simp only [freeWorkers] at hc
    dsimp only at *
    injection hs with hs; subst hs
    close_inv 0
  · cases hs

theorem inv_allDone {W : Nat} {s s' : St} (h : Inv W s) (hs : step? s .allDone = some s') : Inv W s' := by
  open_inv
  simp only [step?] at hs
  split at hs
  · dsimp only at *
    split at hs
    · injection hs with hs; subst hs
      close_inv 0
    · cases hs
  · cases hs


theorem inv_dequeue {W : Nat} {s s' : St} {id : Nat} (h : Inv W s) (hd : s.disp = .idle)
    (hs : step? s (.dequeue id) = some s') : Inv W s' := by
  open_inv
  dsimp only at hd
  subst hd
  simp only [step?] at hs
  split at hs
  · next _ i hi =>
    dsimp only at *
    obtain ⟨hlt, hid⟩ := idxOf_some hi
    split at hs
    · next _ x rest hr =>
      injection hs with hs; subst hs
      have hx := (remove_some less heap i x rest hr).1
      have hxid : x.id = id := by
        rw [List.getElem?_eq_getElem hlt] at hx
        injection hx with hx; rw [← hx]; exact hid
      have hc := cnt_remove hr
      have hl := length_remove hr
      close_inv id
    · next _ hr =>
      exfalso
      have := remove_isSome less heap i hlt
      rw [hr] at this
      cases this
  · injection hs with hs; subst hs
    close_inv 0

theorem cnt_map_setPrio (l : List Item) (id : Nat) (p : Int) (x : Nat) :
    cnt (l.map (fun it => if (it.id == id) = true then { it with prio := p } else it)) x = cnt l x :=
  cnt_map_congr _ _ (fun it => by split <;> rfl) x

theorem cnt_map_setPrio' (l : List Item) (id : Nat) (p : Int) (x : Nat) :
    cnt (l.map (fun it => if it.id = id then { it with prio := p } else it)) x = cnt l x :=
  cnt_map_congr _ _ (fun it => by split <;> rfl) x

attribute [wqs] cnt_map_setPrio cnt_map_setPrio' List.length_map

theorem inv_setPrio {W : Nat} {s s' : St} {id : Nat} {p : Int} (h : Inv W s) (hd : s.disp = .idle)
    (hs : step? s (.setPrio id p) = some s') : Inv W s' := by
  open_inv
  dsimp only at hd
  subst hd
  simp only [step?] at hs
  split at hs
  · injection hs with hs; subst hs
    close_inv 0
  · split at hs
    · next _ i hi =>
      dsimp only at *
      split at hs
      · next _ it hit =>
        injection hs with hs; subst hs
        have hc := cnt_fix_set heap i it p hit
        have hl := length_fix_set heap i { it with prio := p }
        close_inv 0
      · injection hs with hs; subst hs
        close_inv 0
    · injection hs with hs; subst hs
      dsimp only at *
      close_inv 0

end TV.WorkQueue
