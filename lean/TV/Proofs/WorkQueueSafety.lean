import TV.Model.WorkQueue
import TV.Proofs.WorkQueueSafetyReach
/-! WorkQueue LTS — Safety obligations. Each `theorem` below is re-exported verbatim by TV/Properties/Cxx.lean.

The proofs rest on the inductive invariant `Inv` of TV/Proofs/WorkQueueSafetyInv.lean
(`inv_reach : Reach W L s → Inv W s`, TV/Proofs/WorkQueueSafetyReach.lean). -/
namespace TV.WorkQueue
open TV.GoHeap

namespace Safety

/-! ### bridges between the counting form of the invariant and list membership -/

theorem mem_ids_iff (l : List Item) (id : Nat) : id ∈ l.map (·.id) ↔ 0 < cnt l id := (cnt_pos_iff l id).symm
theorem mem_iff_count (l : List Nat) (id : Nat) : id ∈ l ↔ 0 < l.count id := List.count_pos_iff.symm
theorem cnt_eq (l : List Item) (id : Nat) : (l.map (·.id)).count id = cnt l id := rfl

/-- the per-id ledger with `held`, `waiting`, `stored` spelled out as counts -/
theorem loc_of_reach {W L : Nat} (hW : 1 ≤ W) (hL : 1 ≤ L) {s : St} (hr : Reach W L s) (id : Nat) :
    Loc s id := (inv_reach hW hL hr).loc id

theorem cnt_stored (s : St) (id : Nat) : cnt (stored s) id =
    cnt s.blocked id + cnt (held s.disp) id + cnt s.heap id + cnt s.chan id + cnt s.running id + cnt s.errSend id
      + cnt s.limbo id := by
  rw [stored_eq]; simp only [cnt_append]

theorem cnt_waiting (s : St) (id : Nat) : cnt (waiting s) id =
    cnt (held s.disp) id + cnt s.heap id + cnt s.chan id := by
  rw [waiting_eq]; simp only [cnt_append]

theorem C04_at_most_once :
    ∀ (W L : Nat) (_ : 1 ≤ W) (_ : 1 ≤ L) (s : St) (_ : Reach W L s), s.started.Nodup := by
  intro W L hW hL s hr
  rw [List.nodup_iff_count]
  intro id
  have := loc_of_reach hW hL hr id
  simp only [Loc] at this
  omega

theorem C04_ids_distinct :
    ∀ (W L : Nat) (_ : 1 ≤ W) (_ : 1 ≤ L) (s : St) (_ : Reach W L s), ((stored s).map (·.id)).Nodup ∧ ∀ it ∈ stored s, it.id < s.nextId := by
  intro W L hW hL s hr
  constructor
  · rw [List.nodup_iff_count]
    intro id
    have := loc_of_reach hW hL hr id
    rw [cnt_eq, cnt_stored]
    simp only [Loc] at this
    omega
  · intro it hit
    have := loc_of_reach hW hL hr it.id
    have hp := cnt_pos_of_mem hit
    rw [cnt_stored] at hp
    simp only [Loc] at this
    omega

theorem C04_never_dropped :
    ∀ (W L : Nat) (_ : 1 ≤ W) (_ : 1 ≤ L) (s : St) (_ : Reach W L s) (id : Nat), id ∈ s.accepted →
    id ∈ s.started ∨ id ∈ s.dequeued ∨ id ∈ (waiting s).map (·.id) ∨ (s.breaked = true ∧ id ∈ s.limbo.map (·.id)) := by
  intro W L hW hL s hr id hid
  have := loc_of_reach hW hL hr id
  simp only [mem_iff_count, cnt_eq, cnt_waiting] at hid ⊢
  simp only [Loc] at this
  grind

theorem C04_started_were_accepted :
    ∀ (W L : Nat) (_ : 1 ≤ W) (_ : 1 ≤ L) (s : St) (_ : Reach W L s), (∀ id ∈ s.started, id ∈ s.accepted) ∧ (∀ id ∈ s.finished, id ∈ s.started) ∧
    (∀ it ∈ s.running ++ s.errSend, it.id ∈ s.started) := by
  intro W L hW hL s hr
  refine ⟨?_, ?_, ?_⟩
  · intro id hid
    have := loc_of_reach hW hL hr id
    simp only [mem_iff_count] at hid ⊢
    simp only [Loc] at this
    omega
  · intro id hid
    have := loc_of_reach hW hL hr id
    simp only [mem_iff_count] at hid ⊢
    simp only [Loc] at this
    omega
  · intro it hit
    have := loc_of_reach hW hL hr it.id
    have hp := cnt_pos_of_mem hit
    simp only [mem_iff_count, cnt_append] at hp ⊢
    simp only [Loc] at this
    omega

theorem C04_workitems_exact :
    ∀ (W L : Nat) (_ : 1 ≤ W) (_ : 1 ≤ L) (s : St) (_ : Reach W L s) (id : Nat), id ∈ s.accepted → id ∉ s.finished → id ∉ s.dequeued →
    (∃ it ∈ stored s, it.id = id) ∧ (inProgress s id = true ↔ id ∈ (s.running ++ s.errSend).map (·.id)) := by
  intro W L hW hL s hr id ha hf hd
  have := loc_of_reach hW hL hr id
  constructor
  · have hgoal : id ∈ (stored s).map (·.id) := by
      simp only [mem_iff_count, cnt_eq, cnt_stored] at ha hf hd ⊢
      simp only [Loc] at this
      grind
    simpa using hgoal
  · simp [inProgress]

theorem C09_running_le_workers :
    ∀ (W L : Nat) (_ : 1 ≤ W) (_ : 1 ≤ L) (s : St) (_ : Reach W L s), s.W = W ∧ s.running.length + s.errSend.length + s.tokPend + s.exitedW ≤ W ∧ s.chan.length ≤ W ∧ s.tokens ≤ W := by
  intro W L hW hL s hr
  have h := inv_reach hW hL hr
  exact ⟨h.hW, h.wrkCap, h.chanCap, h.tokCap⟩

theorem C09_pipeline_full :
    ∀ (W L : Nat) (_ : 1 ≤ W) (_ : 1 ≤ L) (s : St) (_ : Reach W L s), s.ctxDone = false →
    (s.heap ≠ [] ∨ (∃ it, s.disp = .fullWait it) ∨ (∃ m it, s.disp = .handOff m (some it))) →
    W ≤ s.chan.length + s.running.length + s.errSend.length + s.tokPend + s.tokens +
        (match s.disp with | .handOff _ _ => 1 | _ => 0) := by
  intro W L hW hL s hr hc hp
  have h := inv_reach hW hL hr
  have hpipe := h.pipe hc
  have hne : s.heap ≠ [] → 0 < s.heap.length := List.length_pos_iff.mpr
  rcases hd : s.disp with _ | it | ⟨m, _ | it⟩ | rest | _ | _ <;>
    simp only [hd, wqs, reduceCtorEq, exists_false, false_or, or_false, Disp.fullWait.injEq,
      Disp.handOff.injEq, exists_eq', exists_and_left, Option.some.injEq, and_false, and_true] at hpipe hp ⊢ <;>
    grind

theorem quiescent_none {s : St} (hq : quiescent s) :
    (∀ it ∈ s.blocked, step? s (.recv it.id) = none) ∧ step? s .tok = none ∧ step? s .handOffDone = none ∧
    step? s .take = none ∧ step? s .tokSendDone = none := by
  unfold quiescent internalActs at hq
  simp only [List.filter_eq_nil_iff] at hq
  have key : ∀ a, a ∈ (s.blocked.map (fun it => Act.recv it.id)) ++ [.tok, .handOffDone, .take] ++
      (s.errSend.map (fun it => Act.errRecv it.id)) ++ [.tokSendDone] ++
      (s.blocked.map (fun it => Act.giveUp it.id)) ++
      [.ctxExit, .drainSend, .drainTok, .closeChan, .awaitTok, .workerExit, .allDone, .monExit] →
      step? s a = none := by
    intro a ha
    have := hq a ha
    simpa using this
  refine ⟨?_, ?_, ?_, ?_, ?_⟩
  · intro it hit
    apply key
    simp only [List.mem_append, List.mem_map]
    exact Or.inl (Or.inl (Or.inl (Or.inl (Or.inl ⟨it, hit, rfl⟩))))
  all_goals (apply key; simp)

theorem C09_work_conserving :
    ∀ (W L : Nat) (_ : 1 ≤ W) (_ : 1 ≤ L) (s : St) (_ : Reach W L s), s.ctxDone = false → quiescent s →
    s.running.length = min ((waiting s).length + s.running.length) (W - s.errSend.length) := by
  intro W L hW hL s hr hc hq
  obtain ⟨_, htok, hho, htake, hts⟩ := quiescent_none hq
  have h := inv_reach hW hL hr
  obtain ⟨hW', wpos, lpos, lmax, chanCap, tokCap, wrkCap, noPanic, phase, pipe, room, fwHeap, heapMax, loc, monOK⟩ := h
  have hph := phase hc
  have hpipe := pipe hc
  have hroom := room hc
  have hfw := fwHeap hc
  rw [waiting_eq]
  simp only [step?, freeWorkers, popOrPanic, toDrain] at htok hho htake hts
  rcases hd : s.disp with _ | it | ⟨m, _ | it⟩ | rest | _ | _ <;>
    simp only [hd, wqs] at hph hpipe hroom hfw htok hho ⊢ <;>
    rcases hch : s.chan with _ | ⟨c, cs⟩ <;>
    simp only [hch, wqs] at * <;>
    grind

theorem C09_backpressure_upper :
    ∀ (W L : Nat) (_ : 1 ≤ W) (_ : 1 ≤ L) (s : St) (_ : Reach W L s), s.ctxDone = false →
    s.heap.length ≤ s.Lmax ∧ (waiting s).length + s.running.length ≤ s.Lmax + 2 * W + 1 := by
  intro W L hW hL s hr hc
  have h := inv_reach hW hL hr
  have hm := h.heapMax hc
  have h1 := h.chanCap
  have h2 := h.wrkCap
  have hph := (h.phase hc).2.2
  rw [waiting_eq]
  rcases hd : s.disp with _ | it | ⟨m, _ | it⟩ | rest | _ | _ <;>
    simp only [hd, wqs] at hm hph ⊢ <;> first | omega | cases hph

theorem C09_blocked_only_when_busy :
    ∀ (W L : Nat) (_ : 1 ≤ W) (_ : 1 ≤ L) (s : St) (_ : Reach W L s), s.ctxDone = false → quiescent s → s.blocked ≠ [] →
    (∃ it, s.disp = .fullWait it) ∨ (∃ m held, s.disp = .handOff m held) := by
  intro W L hW hL s hr hc hq hb
  obtain ⟨hrecv, _⟩ := quiescent_none hq
  have h := inv_reach hW hL hr
  have hph := (h.phase hc).2.2
  rcases hd : s.disp with _ | it | ⟨m, hh⟩ | rest | _ | _
  · exfalso
    obtain ⟨it, hit⟩ := List.exists_mem_of_ne_nil _ hb
    have hn := hrecv it hit
    have hsome := findId_isSome_of_mem hit
    obtain ⟨x, hx⟩ := Option.isSome_iff_exists.mp hsome
    simp only [step?, hd, hx, hc, toDrain] at hn
    repeat' split at hn
    all_goals first | cases hn | contradiction
  · exact Or.inl ⟨_, rfl⟩
  · exact Or.inr ⟨_, _, rfl⟩
  all_goals (rw [hd] at hph; simp [Disp.live] at hph)

theorem C09_full_branch_threshold :
    ∀ (s s' : St) (id : Nat) (it : Item), step? s (.recv id) = some s' → s'.disp = .fullWait it → s.ctxDone = false →
    (∀ x, s.disp ≠ .fullWait x) → s.L ≤ s.heap.length := by
  intro s s' id it hs hd hc hn
  simp only [step?, toDrain] at hs
  split at hs
  · next _ _ x hdi hf =>
    rw [if_neg (by simp [hc])] at hs
    split at hs
    · injection hs with hs; subst hs
      simp only [hdi] at hd
      cases hd
    · split at hs
      · injection hs with hs; subst hs
        simp only [hdi] at hd
        cases hd
      · omega
  · cases hs

theorem C09_resume :
    ∀ (s : St) (it : Item), s.disp = .fullWait it → 0 < s.tokens → (step? s .tok).isSome = true := by
  intro s it hd ht
  simp only [step?, hd]
  rw [if_neg (by omega)]
  split
  · simp [toDrain]
  · split <;> rfl


theorem C14_at_most_once :
    ∀ (W L : Nat) (_ : 1 ≤ W) (_ : 1 ≤ L) (s : St) (_ : Reach W L s), s.inbox.Nodup := by
  intro W L hW hL s hr
  exact (inv_reach hW hL hr).monOK.inboxNodup

theorem C14_only_failed :
    ∀ (W L : Nat) (_ : 1 ≤ W) (_ : 1 ≤ L) (s : St) (_ : Reach W L s), (∀ p ∈ s.inbox, ∃ n, (p.2, n) ∈ s.errored ∧ p.1 < n) ∧ (∀ e ∈ s.errored, e.1 ∈ s.failed) ∧
    (∀ id ∈ s.failed, id ∈ s.finished) := by
  intro W L hW hL s hr
  have h := inv_reach hW hL hr
  refine ⟨h.monOK.inboxErr, ?_, ?_⟩
  · intro e he
    have := h.loc e.1
    have hp : 0 < (s.errored.map (·.1)).count e.1 := by
      rw [List.count_pos_iff]; exact List.mem_map_of_mem (f := (·.1)) he
    simp only [mem_iff_count]
    simp only [Loc] at this
    omega
  · intro id hid
    have := h.loc id
    simp only [mem_iff_count] at hid ⊢
    simp only [Loc] at this
    omega

theorem C14_exactly_once_when_quiet :
    ∀ (W L : Nat) (_ : 1 ≤ W) (_ : 1 ≤ L) (s : St) (_ : Reach W L s), (s.mon = .idle ∨ s.mon = .exited) → ∀ e ∈ s.errored, ∀ sub, sub < e.2 → (sub, e.1) ∈ s.inbox := by
  intro W L hW hL s hr hm e he sub hsub
  have h := inv_reach hW hL hr
  refine h.monOK.deliv e he ?_ sub hsub
  intro r hr'
  rcases hm with hm | hm <;> rw [hm] at hr' <;> cases hr'

theorem C14_every_error_reported :
    ∀ (W L : Nat) (_ : 1 ≤ W) (_ : 1 ≤ L) (s : St) (_ : Reach W L s) (id : Nat), id ∈ s.failed →
    (id ∈ s.errSend.map (·.id) ∨ ∃ n, (id, n) ∈ s.errored) ∧ ¬ (id ∈ s.errSend.map (·.id) ∧ ∃ n, (id, n) ∈ s.errored) ∧
    (s.errored.map (·.1)).Nodup := by
  intro W L hW hL s hr id hid
  have h := inv_reach hW hL hr
  have hex : (∃ n, (id, n) ∈ s.errored) ↔ 0 < (s.errored.map (·.1)).count id := by
    rw [List.count_pos_iff, List.mem_map]
    constructor
    · rintro ⟨n, hn⟩; exact ⟨(id, n), hn, rfl⟩
    · rintro ⟨⟨a, n⟩, hn, rfl⟩; exact ⟨n, hn⟩
  have := h.loc id
  simp only [Loc] at this
  rw [hex]
  simp only [mem_iff_count, cnt_eq] at hid ⊢
  refine ⟨by omega, by omega, ?_⟩
  rw [List.nodup_iff_count]
  intro a
  have := h.loc a
  simp only [Loc] at this
  omega

theorem C14_subs_monotone :
    ∀ (s s' : St) (a : Act), step? s a = some s' → s.subs ≤ s'.subs := by
  intro s s' a hs
  cases a <;> simp only [step?, toDrain, popOrPanic] at hs <;> (repeat' split at hs) <;>
    first
    | (injection hs with hs; subst hs; first | exact Nat.le_refl _ | exact Nat.le_succ _)
    | cases hs

theorem C14_subscribe_anytime :
    ∀ (s : St), step? s .subscribe = some { s with subs := s.subs + 1 } := by
  intro s; rfl

theorem C16_dequeued_never_start :
    ∀ (W L : Nat) (_ : 1 ≤ W) (_ : 1 ≤ L) (s : St) (_ : Reach W L s), ∀ id ∈ s.dequeued, id ∉ s.started ∧ id ∉ (waiting s).map (·.id) ∧ id ∉ (s.running ++ s.errSend).map (·.id) := by
  intro W L hW hL s hr id hid
  have := loc_of_reach hW hL hr id
  simp only [mem_iff_count, cnt_eq, cnt_waiting, cnt_append] at hid ⊢
  simp only [Loc] at this
  omega

theorem idxOf_none_of_cnt {l : List Item} {id : Nat} (h : cnt l id = 0) : idxOf l id = none := by
  cases hi : idxOf l id with
  | none => rfl
  | some i =>
    obtain ⟨hlt, hid⟩ := idxOf_some hi
    have := cnt_pos_of_mem (List.getElem_mem hlt)
    rw [hid] at this
    omega

theorem C16_unknown_id_noop :
    ∀ (s : St) (id : Nat), findId (stored s) id = none →
    dequeueRet s id = .nil ∧ setPrioRet s id = .nil ∧ step? s (.dequeue id) = some s := by
  intro s id h
  refine ⟨by simp [dequeueRet, h], by simp [setPrioRet, h], ?_⟩
  have h0 := findId_eq_none h
  rw [cnt_stored] at h0
  have hidx : idxOf s.heap id = none := idxOf_none_of_cnt (by omega)
  simp only [step?, hidx]

/-- `C16_dequeue_error_noop` for states whose stored ids are distinct (every reachable state,
    `C04_ids_distinct`); without that hypothesis the statement is false, see the end of the file. -/
theorem C16_dequeue_error_noop_partial :
    ∀ (s : St) (id : Nat), ((stored s).map (·.id)).Nodup → dequeueRet s id = .error →
    step? s (.dequeue id) = some s := by
  intro s id hnd h
  have hcnt := List.nodup_iff_count.mp hnd id
  rw [cnt_eq, cnt_stored] at hcnt
  have hidx : idxOf s.heap id = none := by
    unfold dequeueRet at h
    split at h
    · cases h
    · split at h
      · next hip =>
        apply idxOf_none_of_cnt
        have : 0 < cnt (s.running ++ s.errSend) id := by
          rw [cnt_pos_iff]
          simp only [inProgress, List.any_eq_true, beq_iff_eq] at hip
          obtain ⟨x, hx, hxid⟩ := hip
          rw [← hxid]
          exact List.mem_map_of_mem hx
        rw [cnt_append] at this
        omega
      · split at h
        · cases h
        · next hn => simpa using hn
  simp only [step?, hidx]

/-- `C16_dequeue_error_noop` in every reachable state. -/
theorem C16_dequeue_error_noop_reach :
    ∀ (W L : Nat) (_ : 1 ≤ W) (_ : 1 ≤ L) (s : St) (_ : Reach W L s) (id : Nat), dequeueRet s id = .error →
    step? s (.dequeue id) = some s := by
  intro W L hW hL s hr id h
  exact C16_dequeue_error_noop_partial s id (C04_ids_distinct W L hW hL s hr).1 h

theorem C16_in_progress :
    ∀ (s : St) (id : Nat) (p : Int), inProgress s id = true → (findId (stored s) id).isSome = true →
    dequeueRet s id = .error ∧ setPrioRet s id = .error ∧ step? s (.setPrio id p) = some s := by
  intro s id p hip hf
  obtain ⟨x, hx⟩ := Option.isSome_iff_exists.mp hf
  refine ⟨by simp [dequeueRet, hx, hip], by simp [setPrioRet, hx, hip], by simp [step?, hip]⟩

theorem C19_no_panic :
    ∀ (W L : Nat) (_ : 1 ≤ W) (_ : 1 ≤ L) (s : St) (_ : Reach W L s), s.panicked = false := by
  intro W L hW hL s hr
  exact (inv_reach hW hL hr).noPanic

theorem C19_callers_return :
    ∀ (s : St), (step? s .stop).isSome = true ∧ (step? s .break_).isSome = true ∧
    (∀ p n a, (step? s (.enqueue p n a)).isSome = true) ∧
    (s.ctxDone = true → ∀ it ∈ s.blocked, (step? s (.giveUp it.id)).isSome = true) := by
  intro s
  refine ⟨rfl, rfl, ?_, ?_⟩
  · intro p n a
    simp only [step?]
    split <;> rfl
  · intro hc it hit
    obtain ⟨x, hx⟩ := Option.isSome_iff_exists.mp (findId_isSome_of_mem hit)
    simp [step?, hx, hc]

theorem C19_after_stop_never_run :
    ∀ (W L : Nat) (_ : 1 ≤ W) (_ : 1 ≤ L) (s : St) (_ : Reach W L s), (∀ id ∈ s.rejected, id ∉ s.started ∧ id ∉ s.accepted) ∧ (∀ it ∈ s.limbo, it.id ∉ s.started) := by
  intro W L hW hL s hr
  constructor
  · intro id hid
    have := loc_of_reach hW hL hr id
    simp only [mem_iff_count] at hid ⊢
    simp only [Loc] at this
    omega
  · intro it hit
    have := loc_of_reach hW hL hr it.id
    have hp := cnt_pos_of_mem hit
    simp only [mem_iff_count]
    simp only [Loc] at this
    omega

theorem C19_stop_keeps_accepted :
    ∀ (W L : Nat) (_ : 1 ≤ W) (_ : 1 ≤ L) (s : St) (_ : Reach W L s), s.breaked = false → ∀ id ∈ s.accepted, id ∈ s.started ∨ id ∈ s.dequeued ∨ id ∈ (waiting s).map (·.id) := by
  intro W L hW hL s hr hb id hid
  rcases C04_never_dropped W L hW hL s hr id hid with h | h | h | ⟨h, _⟩
  · exact Or.inl h
  · exact Or.inr (Or.inl h)
  · exact Or.inr (Or.inr h)
  · rw [hb] at h; cases h

theorem C19_break_skips_waiting :
    ∀ (W L : Nat) (_ : 1 ≤ W) (_ : 1 ≤ L) (s : St) (_ : Reach W L s) (s' : St), s.breaked = true → step? s .ctxExit = some s' →
    s'.heap = [] ∧ s'.disp = .drain [] ∧ ∀ it ∈ s.heap, it ∈ s'.limbo := by
  intro W L hW hL s hr s' hb hs
  simp only [step?, toDrain, hb] at hs
  split at hs
  · split at hs
    · injection hs with hs; subst hs
      exact ⟨rfl, rfl, fun it hit => List.mem_append_right _ hit⟩
    · cases hs
  · next _ x hd =>
    split at hs
    · injection hs with hs; subst hs
      refine ⟨rfl, rfl, fun it hit => List.mem_append_right _ ?_⟩
      exact (push_perm less s.heap x).mem_iff.mpr (List.mem_cons_of_mem _ hit)
    · cases hs
  · cases hs

end Safety
end TV.WorkQueue
