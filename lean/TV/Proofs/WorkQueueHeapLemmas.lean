import TV.Model.WorkQueue
import TV.Proofs.GoHeap
/-! Helper lemmas for TV/Proofs/WorkQueueHeap.lean -/
namespace TV.WorkQueue
open TV.GoHeap

namespace Heap

theorem less_iff (a b : Item) :
    less a b = true ↔ (a.prio < b.prio ∨ (a.prio = b.prio ∧ a.id < b.id)) := by
  simp [less]

theorem less_false_iff (a b : Item) :
    less a b = false ↔ ¬ (a.prio < b.prio ∨ (a.prio = b.prio ∧ a.id < b.id)) := by
  rw [← less_iff]; simp

theorem strictWeak_less : StrictWeak less := by
  constructor
  · intro a b h
    rw [less_false_iff]; rw [less_iff] at h; omega
  · intro a b c h1 h2
    rw [less_false_iff] at *; omega

theorem isHeap_nil : IsHeap less ([] : List Item) := by
  intro i _ hi; simp at hi

/-- the per-item effect of `AdjustPriorities`. -/
def adjF (s : St) (it : Item) : Item := if it.adj then { it with prio := adjVal s it } else it

theorem adjustAll_eq (s : St) (h : List Item) :
    adjustAll s h = if (h.map (adjF s) != h) = true then GoHeap.init less (h.map (adjF s)) else h.map (adjF s) := rfl

theorem adjF_id (s : St) (it : Item) : (adjF s it).id = it.id := by
  unfold adjF; split <;> rfl

theorem adjustAll_perm (s : St) (h : List Item) : (adjustAll s h).Perm (h.map (adjF s)) := by
  rw [adjustAll_eq]; split
  · exact (init_spec strictWeak_less _).2
  · exact .refl _

theorem adjustAll_isHeap (s : St) (h : List Item) (hh : IsHeap less h) : IsHeap less (adjustAll s h) := by
  rw [adjustAll_eq]; split
  · exact (init_spec strictWeak_less _).1
  · rename_i hne
    have : h.map (adjF s) = h := by simpa using hne
    rw [this]; exact hh

theorem adjustAll_ids (s : St) (h : List Item) : ((adjustAll s h).map (·.id)).Perm (h.map (·.id)) := by
  have := (adjustAll_perm s h).map (·.id)
  refine this.trans ?_
  rw [List.map_map]
  have : ((fun x : Item => x.id) ∘ adjF s) = (fun x : Item => x.id) := by
    funext x; simp [adjF_id]
  rw [this]

theorem adjustAll_noadj (s : St) (h : List Item) (hn : ∀ x ∈ h, x.adj = false) : adjustAll s h = h := by
  have : h.map (adjF s) = h := by
    conv => rhs; rw [← List.map_id h]
    apply List.map_congr_left
    intro x hx; simp [adjF, hn x hx]
  rw [adjustAll_eq, this]; simp

theorem toDrain_heap (s : St) : (toDrain s).heap = [] := by
  unfold toDrain; split <;> rfl

theorem toDrain_disp (s : St) : ∃ r, (toDrain s).disp = .drain r := by
  unfold toDrain; split <;> exact ⟨_, rfl⟩


theorem pop_isHeap {l : List Item} {m : Item} {rest : List Item} (hl : IsHeap less l)
    (hp : GoHeap.pop less l = some (m, rest)) :
    IsHeap less rest ∧ (m :: rest).Perm l ∧ ∀ x ∈ l, less x m = false := by
  have hne : l ≠ [] := by rintro rfl; simp [GoHeap.pop] at hp
  obtain ⟨r, h1, h2, h3, h4⟩ := pop_spec strictWeak_less l hl hne
  rw [h1] at hp
  simp only [Option.some.injEq, Prod.mk.injEq] at hp
  obtain ⟨rfl, rfl⟩ := hp
  exact ⟨h2, h3, h4⟩

theorem remove_some {l : List Item} {i : Nat} {m : Item} {rest : List Item} (hl : IsHeap less l)
    (hr : GoHeap.remove less l i = some (m, rest)) :
    ∃ hi : i < l.length, m = l[i] ∧ IsHeap less rest ∧ (m :: rest).Perm l := by
  have hi : i < l.length := by
    apply Classical.byContradiction; intro hn
    have : i ≥ l.length := by omega
    simp [GoHeap.remove, this] at hr
  obtain ⟨r, h1, h2, h3⟩ := remove_spec strictWeak_less l hl i hi
  rw [h1] at hr
  simp only [Option.some.injEq, Prod.mk.injEq] at hr
  obtain ⟨rfl, rfl⟩ := hr
  exact ⟨hi, rfl, h2, h3⟩

theorem idxOf_some {l : List Item} {id i : Nat} (h : idxOf l id = some i) :
    ∃ hi : i < l.length, l[i].id = id := by
  unfold idxOf at h
  simp only at h
  split at h
  · rename_i hlt
    injection h with h; subst h
    refine ⟨hlt, ?_⟩
    have := List.findIdx_getElem (w := hlt)
    simpa using this
  · contradiction

theorem idxOf_of_mem {l : List Item} {id : Nat} (h : id ∈ l.map (·.id)) : ∃ i, idxOf l id = some i := by
  unfold idxOf
  simp only
  have : l.findIdx (·.id == id) < l.length := by
    apply List.findIdx_lt_length_of_exists
    simp only [List.mem_map] at h
    obtain ⟨x, hx, rfl⟩ := h
    exact ⟨x, hx, by simp⟩
  rw [if_pos this]; exact ⟨_, rfl⟩

theorem step_isHeap {s s' : St} (a : Act) (hh : IsHeap less s.heap) (hs : step? s a = some s') :
    IsHeap less s'.heap := by
  have hpush : ∀ x, IsHeap less (GoHeap.push less s.heap x) := fun x => push_isHeap strictWeak_less _ x hh
  cases a <;> simp only [step?] at hs
  all_goals (repeat' split at hs)
  all_goals first
    | contradiction
    | (injection hs with hs; subst hs
       first
        | exact hh
        | exact hpush _
        | exact isHeap_nil
        | (rw [toDrain_heap]; exact isHeap_nil)
        | exact adjustAll_isHeap s _ hh
        | exact (pop_isHeap (adjustAll_isHeap s _ hh) ‹_›).1
        | (obtain ⟨hi, _⟩ := idxOf_some ‹_›; exact adjustAll_isHeap s _ (fix_spec strictWeak_less _ hh _ hi _).1)
        | (obtain ⟨_, _, h3, _⟩ := remove_some hh ‹_›; exact adjustAll_isHeap s _ h3))

theorem heap_invariant {W L : Nat} {s : St} (h : Reach W L s) : IsHeap less s.heap := by
  induction h with
  | init => exact isHeap_nil
  | step a _ _ hs ih => exact step_isHeap a ih hs

theorem pop_is_min {W L : Nat} {s : St} (hr : Reach W L s) (s' : St) (m : Item) (held : Option Item)
    (hs : step? s .tok = some s') (hd : s'.disp = .handOff m held) (hno : ∀ m0 h0, s.disp ≠ .handOff m0 h0) :
    (m :: s'.heap).Perm (adjustAll s s.heap) ∧ ∀ x ∈ adjustAll s s.heap, less x m = false := by
  have hh := adjustAll_isHeap s _ (heap_invariant hr)
  simp only [step?, popOrPanic] at hs
  repeat' split at hs
  all_goals first
    | contradiction
    | (injection hs with hs; subst hs
       first
        | (obtain ⟨r, hr⟩ := toDrain_disp _; rw [hr] at hd; contradiction)
        | (simp only at hd
           first
            | (exact absurd hd (hno _ _))
            | (simp_all; done)
            | (injection hd with h1 h2; subst h1
               exact (pop_isHeap hh ‹_›).2)))
  all_goals trace_state

theorem direct_only_when_empty (s s' : St) (id : Nat) (hs : step? s (.recv id) = some s')
    (hc : s'.chan.length = s.chan.length + 1) (hctx : s.ctxDone = false) : s.heap = [] := by
  simp only [step?, hctx, Bool.false_eq_true, if_false] at hs
  repeat' split at hs
  all_goals first
    | contradiction
    | (injection hs with hs; subst hs
       first
        | (simp only at hc; omega)
        | (rename_i h; simp only [Bool.and_eq_true, List.isEmpty_iff] at h; exact h.1.1))
  all_goals trace_state

theorem nodup_ids_ne {l : List Item} (hn : (l.map (·.id)).Nodup) {i j : Nat} (hi : i < l.length)
    (hj : j < l.length) (hij : i ≠ j) : l[j].id ≠ l[i].id := by
  rw [List.nodup_iff_pairwise_ne, List.pairwise_iff_getElem] at hn
  simp only [List.length_map, List.getElem_map] at hn
  rcases Nat.lt_or_gt_of_ne hij with h | h
  · exact (hn i j hi hj h).symm
  · exact hn j i hj hi h

theorem set_eq_map {l : List Item} (hn : (l.map (·.id)).Nodup) {i : Nat} (hi : i < l.length) {id : Nat}
    (hid : l[i].id = id) (g : Item → Item) :
    l.set i (g l[i]) = l.map (fun x => if x.id = id then g x else x) := by
  subst hid
  apply List.ext_getElem
  · simp
  · intro j h1 h2
    rw [List.getElem_set, List.getElem_map]
    have hj : j < l.length := by simpa using h1
    by_cases hij : i = j
    · subst hij; simp
    · rw [if_neg hij, if_neg (nodup_ids_ne hn hi hj hij)]

theorem dequeue_removes_exactly {W L : Nat} {s : St} (hr : Reach W L s) (s' : St) (id : Nat)
    (hm : id ∈ s.heap.map (·.id)) (hs : step? s (.dequeue id) = some s') :
    s'.dequeued = s.dequeued ++ [id] ∧ (id :: s'.heap.map (·.id)).Perm (s.heap.map (·.id)) ∧ IsHeap less s'.heap ∧
    s'.chan = s.chan ∧ s'.running = s.running ∧ s'.blocked = s.blocked ∧ s'.started = s.started ∧ s'.panicked = s.panicked := by
  have hh := heap_invariant hr
  obtain ⟨i, hi⟩ := idxOf_of_mem hm
  obtain ⟨hlt, hid⟩ := idxOf_some hi
  obtain ⟨rest, h1, h2, h3⟩ := remove_spec strictWeak_less s.heap hh i hlt
  simp only [step?, hi, h1] at hs
  injection hs with hs; subst hs
  refine ⟨rfl, ?_, adjustAll_isHeap s _ h2, rfl, rfl, rfl, rfl, rfl⟩
  have h4 := h3.map (·.id)
  simp only [List.map_cons, hid] at h4
  exact (List.Perm.cons id (adjustAll_ids s rest)).trans h4

theorem setprio_waiting {W L : Nat} {s : St} (hr : Reach W L s) (s' : St) (id : Nat) (p : Int)
    (hm : id ∈ s.heap.map (·.id)) (hnadj : ∀ x ∈ s.heap, x.adj = false) (hip : inProgress s id = false)
    (hn : (s.heap.map (·.id)).Nodup) (hs : step? s (.setPrio id p) = some s') :
    s'.heap.Perm (s.heap.map (fun x => if x.id = id then { x with prio := p } else x)) ∧ IsHeap less s'.heap := by
  have hh := heap_invariant hr
  obtain ⟨i, hi⟩ := idxOf_of_mem hm
  obtain ⟨hlt, hid⟩ := idxOf_some hi
  have hget : s.heap[i]? = some s.heap[i] := List.getElem?_eq_getElem hlt
  simp only [step?, hip, hi, hget, Bool.false_eq_true, if_false] at hs
  injection hs with hs; subst hs
  obtain ⟨f1, f2⟩ := fix_spec strictWeak_less s.heap hh i hlt { s.heap[i] with prio := p }
  have hna : ∀ x ∈ GoHeap.fix less (s.heap.set i { s.heap[i] with prio := p }) i, x.adj = false := by
    intro x hx
    rcases List.mem_or_eq_of_mem_set (f2.mem_iff.mp hx) with h | rfl
    · exact hnadj x h
    · exact hnadj s.heap[i] (List.getElem_mem hlt)
  simp only
  rw [adjustAll_noadj s _ hna]
  refine ⟨f2.trans ?_, f1⟩
  have := set_eq_map hn hlt hid (fun x => { x with prio := p })
  exact List.Perm.of_eq this

end Heap
end TV.WorkQueue
