import TV.Model.LockedObject
import TV.Model.SafeMap
import TV.Model.StackConc
import TV.Proofs.FifoCache
import TV.Proofs.GoHeap
import TV.Proofs.LockedObjectInv
import TV.Proofs.LockedObjectStack
/-! Lock-protected objects — proof obligations, re-exported verbatim by TV/Properties/C07, C08, C11c. -/
namespace TV.LockedObject
namespace Proofs
open TV.FifoCache TV.GenericStack


/-! ### helpers -/

theorem seqFinal_eq_run {K V : Type} [DecidableEq K] [Inhabited V]
    (l : List (LinEntry (FifoCache.Op K V) (FifoCache.Out K V))) (s : Cache K V) :
    seqFinal FifoCache.step s (l.map (fun e => (e.op, e.r))) = FifoCache.run s (l.map (·.op)) := by
  induction l generalizing s with
  | nil => rfl
  | cons e l ih => exact ih _

theorem seqOK_split {σ Op Ret : Type} [DecidableEq Ret] (apply : σ → Op → σ × Ret) (s : σ)
    (l1 : List (Op × Ret)) (x : Op × Ret) (l2 : List (Op × Ret))
    (h : seqOK apply s (l1 ++ x :: l2) = true) : (apply (seqFinal apply s l1) x.1).2 = x.2 := by
  induction l1 generalizing s with
  | nil =>
    obtain ⟨o, r⟩ := x
    simp only [List.nil_append, seqOK, Bool.and_eq_true, beq_iff_eq] at h
    exact h.1
  | cons y l1 ih =>
    obtain ⟨o, r⟩ := y
    simp only [List.cons_append, seqOK, Bool.and_eq_true] at h
    exact ih _ h.2

theorem opsOK_prefix {K V : Type} [DecidableEq K] [Inhabited V] (l1 l2 : List (FifoCache.Op K V))
    (s : Cache K V) (h : OpsOK s (l1 ++ l2)) : OpsOK s l1 := by
  induction l1 generalizing s with
  | nil => trivial
  | cons o l1 ih => exact ⟨h.1, ih _ h.2⟩

theorem lastWrite_set {K V : Type} [DecidableEq K] [Inhabited V] (k : K) (v : V)
    (ops : List (FifoCache.Op K V)) (acc : Option (Option V))
    (h : ops.foldl (fun acc o => lastWriteStep acc k o) acc = some (some v)) :
    acc = some (some v) ∨ .set k v ∈ ops := by
  induction ops generalizing acc with
  | nil => exact Or.inl h
  | cons o ops ih =>
    rcases ih _ h with h1 | h1
    · cases o with
      | set k' v' =>
        simp only [lastWriteStep] at h1
        split at h1
        · next hk =>
          subst hk
          injection h1 with h1; injection h1 with h1; subst h1
          exact Or.inr (List.mem_cons_self)
        · exact Or.inl h1
      | delete k' =>
        simp only [lastWriteStep] at h1
        split at h1
        · cases h1
        · exact Or.inl h1
      | clear => simp [lastWriteStep] at h1
      | _ => exact Or.inl h1
    · exact Or.inr (List.mem_cons_of_mem _ h1)

theorem C07_linearizable_of_sound {σ Op Ret Loc : Type} [DecidableEq Ret] :
    ∀ (I : Impl σ Op Ret Loc) (apply : σ → Op → σ × Ret) (s0 : σ), Sound I apply → ∀ c, CReach I s0 c →
    Linearizable apply s0 c.hist ∧ seqFinal apply s0 (c.lin.map (fun e => (e.op, e.r))) = c.shared ∧
    seqOK apply s0 (c.lin.map (fun e => (e.op, e.r))) = true := by
  intro I apply s0 hS c hc
  obtain ⟨h1, h2⟩ := sinv_reach hS hc
  exact ⟨linearizable_of_inv (inv_reach hc) h2, h1, h2⟩

theorem C07_real_time_order {σ Op Ret Loc : Type} [DecidableEq Ret] :
    ∀ (I : Impl σ Op Ret Loc) (s0 : σ) (c : CSt σ Op Ret Loc), CReach I s0 c →
    ∀ q ∈ c.retOf, ∀ j e, c.lin[j]? = some e → q.1 < e.cpos → q.2 < j := by
  intro I s0 c hc
  exact real_time_of_inv (inv_reach hc)

theorem C07_single_section_sound {σ Op Ret : Type} :
    ∀ (apply : σ → Op → σ × Ret), Sound (single apply : Impl σ Op Ret Unit) apply := by
  intro apply
  constructor
  · intro s op pc loc s' pc' loc' h
    simp [single] at h
  · intro s op pc loc s' r h
    simp only [single, Prod.mk.injEq, Res.done.injEq] at h
    obtain ⟨h1, h2⟩ := h
    subst h1 h2
    rfl

theorem C07_safemap_sound {K V : Type} [DecidableEq K] [DecidableEq V] [Inhabited V] :
    Sound (SafeMap.impl : Impl (AL K V) (SafeMap.Op K V) (SafeMap.Ret K V) Unit) SafeMap.apply := by
  constructor
  · intro s op pc loc s' pc' loc' h
    simp only [SafeMap.impl] at h
    split at h
    · split at h
      · simp at h
      · simp only [Prod.mk.injEq] at h; exact h.1.symm
    · simp at h
  · intro s op pc loc s' r h
    simp only [SafeMap.impl] at h
    split at h
    · next k v =>
      split at h
      · next x hx =>
        simp only [Prod.mk.injEq, Res.done.injEq] at h
        obtain ⟨h1, h2⟩ := h
        subst h1 h2
        simp only [SafeMap.apply, hx]
      · simp at h
    · simp only [Prod.mk.injEq, Res.done.injEq] at h
      obtain ⟨h1, h2⟩ := h
      subst h1 h2
      rfl

theorem C07_safemap_linearizable {K V : Type} [DecidableEq K] [DecidableEq V] [Inhabited V] :
    ∀ (c : CSt (AL K V) (SafeMap.Op K V) (SafeMap.Ret K V) Unit), CReach SafeMap.impl ([] : AL K V) c →
    Linearizable SafeMap.apply ([] : AL K V) c.hist := by
  intro c hc
  exact (C07_linearizable_of_sound SafeMap.impl SafeMap.apply [] C07_safemap_sound c hc).1

theorem C07_getOrAdd_one_winner {K V : Type} [DecidableEq K] [DecidableEq V] [Inhabited V] :
    ∀ (m : AL K V) (k : K) (v : V),
    (∀ x, alGet? m k = some x → SafeMap.apply m (.getOrAdd k v) = (m, .val x) ∧ SafeMap.apply m (.loadOrStore k v) = (m, .valOk x true)) ∧
    (alGet? m k = none → SafeMap.apply m (.getOrAdd k v) = (alSet m k v, .val v) ∧ SafeMap.apply m (.loadOrStore k v) = (alSet m k v, .valOk v false) ∧
        alGet? (alSet m k v) k = some v) := by
  intro m k v
  refine ⟨fun x hx => ?_, fun hn => ?_⟩
  · simp only [SafeMap.apply, hx, and_self]
  · simp only [SafeMap.apply, hn, alGet?_alSet_self, and_self]

theorem C07_miss_is_zero {K V : Type} [DecidableEq K] [DecidableEq V] [Inhabited V] :
    ∀ (m : AL K V) (k : K), alGet? m k = none →
    SafeMap.apply m (.get k) = (m, .val default) ∧ SafeMap.apply m (.load k) = (m, .valOk default false) ∧
    (SafeMap.apply m (.loadAndDelete k)).2 = .valOk default false ∧ (∀ v, (SafeMap.apply m (.swap k v)).2 = .valOk default false) ∧
    SafeMap.apply m (.contains k) = (m, .bool false) := by
  intro m k hn
  simp [SafeMap.apply, hn, alHas]

theorem C07_atomic_read_modify_write {K V : Type} [DecidableEq K] [DecidableEq V] [Inhabited V] :
    ∀ (m : AL K V) (k : K) (old new : V),
    (SafeMap.apply m (.compareAndSwap k old new) = if alGet? m k = some old then (alSet m k new, .bool true) else (m, .bool false)) ∧
    (SafeMap.apply m (.compareAndDelete k old) = if alGet? m k = some old then (alErase m k, .bool true) else (m, .bool false)) ∧
    (SafeMap.apply m (.swap k new)).1 = alSet m k new ∧ (SafeMap.apply m (.loadAndDelete k)).1 = alErase m k := by
  intro m k old new
  simp only [SafeMap.apply, and_self]

theorem C07_syncmap_type_faithful {W : Type} :
    ∀ (x : SafeMap.IVal W), SafeMap.unbox (SafeMap.box x) = some x := by
  intro x
  cases x <;> rfl

theorem C08_linearizable_to_C01_model {K V : Type} [DecidableEq K] [DecidableEq V] [Inhabited V] :
    ∀ (n pc : Nat) (c : CSt (Cache K V) (FifoCache.Op K V) (FifoCache.Out K V) Unit),
    CReach (single FifoCache.step) (FifoCache.init n pc) c →
    Linearizable FifoCache.step (FifoCache.init n pc : Cache K V) c.hist ∧
    c.shared = FifoCache.run (FifoCache.init n pc) (c.lin.map (·.op)) := by
  intro n pc c hc
  obtain ⟨h1, h2, _⟩ := C07_linearizable_of_sound (single FifoCache.step) FifoCache.step
    (FifoCache.init n pc) (C07_single_section_sound _) c hc
  exact ⟨h1, by rw [← h2, seqFinal_eq_run]⟩

theorem C08_get_was_set {K V : Type} [DecidableEq K] [DecidableEq V] [Inhabited V] :
    ∀ (n pc : Nat) (_ : 1 ≤ n) (_ : 1 ≤ pc) (c : CSt (Cache K V) (FifoCache.Op K V) (FifoCache.Out K V) Unit),
    CReach (single FifoCache.step) (FifoCache.init n pc) c → OpsOK (FifoCache.init n pc) (c.lin.map (·.op)) →
    ∀ (l1 l2 : List (LinEntry (FifoCache.Op K V) (FifoCache.Out K V))) (e : LinEntry (FifoCache.Op K V) (FifoCache.Out K V)) (k : K) (v : V),
      c.lin = l1 ++ e :: l2 → e.op = .get k → e.r = .val v → v ≠ default → ∃ e' ∈ l1, e'.op = .set k v := by
  intro n pc hn hpc c hc hok l1 l2 e k v hl hop hr hv
  obtain ⟨_, _, h3⟩ := C07_linearizable_of_sound (single FifoCache.step) FifoCache.step
    (FifoCache.init n pc) (C07_single_section_sound _) c hc
  rw [hl, List.map_append, List.map_cons] at h3
  have h4 := seqOK_split _ _ _ _ _ h3
  rw [seqFinal_eq_run] at h4
  simp only [hop, hr, FifoCache.step, FifoCache.Out.val.injEq] at h4
  rw [hl, List.map_append] at hok
  have hok1 := opsOK_prefix _ _ _ hok
  have hcont : contains (run (FifoCache.init n pc : Cache K V) (l1.map (·.op))) k = true := by
    cases hcc : contains (run (FifoCache.init n pc : Cache K V) (l1.map (·.op))) k with
    | true => rfl
    | false => exact absurd ((get_absent _ k hcc).symm.trans h4).symm hv
  have hlw := present_latest_gen k (l1.map (·.op)) (FifoCache.init n pc) none (wf_init n pc hn hpc) hok1
    (fun hc0 => by simp [contains, livePart, FifoCache.init, alGet?] at hc0) hcont
  rw [h4] at hlw
  rcases lastWrite_set k v _ _ hlw with h5 | h5
  · cases h5
  · rw [List.mem_map] at h5
    obtain ⟨e', he', heq⟩ := h5
    exact ⟨e', he', heq⟩

theorem C08_views_consistent {K V : Type} [DecidableEq K] [DecidableEq V] [Inhabited V] :
    ∀ (n pc : Nat) (_ : 1 ≤ n) (_ : 1 ≤ pc) (c : CSt (Cache K V) (FifoCache.Op K V) (FifoCache.Out K V) Unit),
    CReach (single FifoCache.step) (FifoCache.init n pc) c → OpsOK (FifoCache.init n pc) (c.lin.map (·.op)) →
    WF c.shared ∧ (keys c.shared).Nodup ∧ (∀ k, contains c.shared k = true ↔ k ∈ keys c.shared) ∧
    len (sweep c.shared) ≤ capacity (sweep c.shared) := by
  intro n pc hn hpc c hc hok
  have hsh := (C08_linearizable_to_C01_model n pc c hc).2
  have hwf : WF c.shared := by
    rw [hsh]; exact wf_run (wf_init n pc hn hpc) _ hok
  exact ⟨hwf, hwf.nodup_keys, hwf.contains_iff_mem_keys, (wf_sweep hwf).len_le (length_sweep_le _)⟩

theorem C11_concurrent_conservation  :
    ∀ (c : CSt (Stack Nat) StackConc.Op StackConc.Ret Nat), CReach StackConc.impl (GenericStack.new : Stack Nat) c →
    ((c.shared.entries.map (·.2)) ++ StackConc.poppedVals c.lin).Perm (StackConc.pushedVals c.lin) ∧
    (StackConc.pushedIds c.lin).Nodup ∧ (c.shared.entries.map (·.1)).Nodup := by
  intro c hc
  have h := StackConc.sinv_reach hc
  exact ⟨h.perm, h.pid_nodup, h.ent_nodup⟩

theorem C11_concurrent_heap_order  :
    ∀ (c : CSt (Stack Nat) StackConc.Op StackConc.Ret Nat), CReach StackConc.impl (GenericStack.new : Stack Nat) c →
    TV.GoHeap.IsHeap lessId c.shared.entries ∧
    ∀ e rest, TV.GoHeap.pop lessId c.shared.entries = some (e, rest) → ∀ x ∈ c.shared.entries, e.1 ≤ x.1 := by
  intro c hc
  exact ⟨StackConc.heap_reach hc, fun e rest hp => StackConc.pop_min_reach hc hp⟩

end Proofs
end TV.LockedObject
