import Driver.WQ
import TV.Proofs.WorkQueueSafety
import TV.Proofs.WorkQueueLive
import TV.Proofs.MonitorWQInv
import TV.Proofs.MonitorWQLemmas
import TV.Proofs.WorkQueueBreakAfterStop
/-!
# The model passes the WorkQueue monitors

The driver evaluates the clauses of `TV.WorkQueue.Mon` on the *implementation's* observations, with a
bookkeeping record (`MSt`) it computes from the script.  This file shows that an implementation that behaves
like the model can never fail them: for every reachable state `s` of the model, the clauses hold of the
model's own observation `obsOf s` and of the bookkeeping `mstOf s` that corresponds to the model's ghost logs.
(Core-only.)

All clauses but one hold for every `W` and `L` (they rest on `GInv`, TV/Proofs/MonitorWQInv.lean, the part of the
safety invariant that needs no side condition).  `workConserving_sound` needs `1 ≤ L`: with `L = 0` the
dispatcher panics and the item it holds is stranded (counterexample at the theorem).
-/
namespace TV.WorkQueue.MonSound
open TV.WorkQueue TV.WorkQueue.Mon Driver.WQ TV.WorkQueue.Safety

/-- the bookkeeping that corresponds to a model state: what the driver has recorded from the script when
    the implementation has answered like the model. -/
def mstOf (s : St) : MSt :=
  { W := s.W, Lmin := s.L, Lmax := s.Lmax,
    released := s.finished.map (fun i => (i, s.failed.contains i)),
    deqNil := s.dequeued,
    stopAt := if s.stopped then some (sortN (s.accepted ++ s.rejected), s.nextId) else none,
    broke := s.breaked, subs := s.subs }

/-! ### helper lemmas -/

theorem released_any (s : St) (i : Nat) :
    (mstOf s).released.any (·.1 == i) = s.finished.contains i := by
  simp only [mstOf, List.any_map, Function.comp_def]
  induction s.finished with
  | nil => rfl
  | cons x xs ih => simp only [List.any_cons, List.contains_cons, ih]; rw [Bool.beq_comm]

/-- before Stop/Break, the items the monitor counts as outstanding are the waiting and the running ones. -/
theorem outstanding_eq {W L : Nat} {s : St} (h : Reach W L s) (hs : s.stopped = false) :
    outstanding (mstOf s) (obsOf s) = (waiting s).length + s.running.length := by
  have aux := aux_reach h
  have hrej := aux.rej hs
  have hbrk : s.breaked = false := by
    cases hb : s.breaked with
    | false => rfl
    | true => have := aux.brk hb; rw [hs] at this; cases this
  have hstop : (mstOf s).stopAt = none := by simp [mstOf, hs]
  unfold outstanding
  simp only [released_any, hstop]
  simp only [mstOf, obsOf, hrej, List.append_nil, Bool.and_true]
  rw [((sortN_perm s.accepted).filter _).length_eq]
  have hp : (s.accepted.filter fun i => !s.finished.contains i && !s.dequeued.contains i).Perm
      ((waiting s ++ s.running).map (·.id)) := by
    rw [List.perm_iff_count]
    intro a
    have hl := (ginv_reach h).loc a
    have ha := aux.ar a
    simp only [Loc, hbrk] at hl
    rw [cnt_eq, cnt_append, cnt_waiting]
    have hf : s.finished.contains a = true ↔ 0 < s.finished.count a := by
      rw [List.contains_iff_mem, mem_iff_count]
    have hd : s.dequeued.contains a = true ↔ 0 < s.dequeued.count a := by
      rw [List.contains_iff_mem, mem_iff_count]
    by_cases hP : (!s.finished.contains a && !s.dequeued.contains a) = true
    · rw [List.count_filter (l := s.accepted) (p := fun i => !s.finished.contains i && !s.dequeued.contains i)
        (a := a) hP]
      simp only [Bool.and_eq_true, Bool.not_eq_true', ← Bool.not_eq_true, hf, hd] at hP
      grind
    · have h0 : List.count a (s.accepted.filter fun i => !s.finished.contains i && !s.dequeued.contains i) = 0 := by
        rw [List.count_eq_zero, List.mem_filter]
        exact fun hh => hP hh.2
      rw [h0]
      simp only [Bool.and_eq_true, Bool.not_eq_true', ← Bool.not_eq_true, hf, hd] at hP
      grind
  rw [hp.length_eq]
  simp

/-- `C09_work_conserving` with the workers that still hold a completion token counted as busy (as the monitor's
    `wsend` does): at quiescence no worker holds one unless the pipeline is full. -/
theorem work_conserving_tok {W L : Nat} (hW : 1 ≤ W) (hL : 1 ≤ L) {s : St} (hr : Reach W L s)
    (hc : s.ctxDone = false) (hq : quiescent s) :
    s.running.length = min ((waiting s).length + s.running.length) (W - (s.errSend.length + s.tokPend)) := by
  obtain ⟨_, htok, hho, htake, hts⟩ := quiescent_none hq
  have h := inv_reach hW hL hr
  obtain ⟨hW', wpos, lpos, lmax, chanCap, tokCap, wrkCap, noPanic, phase, pipe, room, fwHeap, heapMax, loc, monOK⟩ := h
  have hph := phase hc
  have hpipe := pipe hc
  have hroom := room hc
  have hfw := fwHeap hc
  rw [waiting_eq]
  simp only [step?, freeWorkers, popOrPanic, toDrain] at htok hho htake hts
  rcases hd : s.disp with _ | it | ⟨m, _ | it⟩ | rest | _ | _ <;>
    simp only [hd, wqs] at hph hpipe hroom hfw htok hho ⊢ <;>
    rcases hch : s.chan with _ | ⟨c, cs⟩ <;>
    simp only [hch, wqs] at * <;>
    grind

/-! ### the clauses -/

/-- C04: nothing runs twice. -/
theorem atMostOnce_sound {W L : Nat} {s : St} (h : Reach W L s) : atMostOnce (obsOf s) = true := by
  simp only [atMostOnce, obsOf, nodupB_iff]
  rw [List.nodup_iff_count]
  intro id
  have := (ginv_reach h).loc id
  simp only [Loc] at this
  omega

/-- C09: never more than W executing, and the worker accounting adds up. -/
theorem workersOK_sound {W L : Nat} {s : St} (h : Reach W L s) : workersOK (mstOf s) (obsOf s) = true := by
  have hW := (ginv_reach h).hW
  have hc := (ginv_reach h).wrkCap
  simp only [workersOK, mstOf, obsOf, freeWorkers, Bool.and_eq_true]
  refine ⟨decide_eq_true ?_, decide_eq_true ?_⟩ <;> omega

-- CHANGED: hypothesis `1 ≤ L` added.  As written (any `L`) the statement is false for `L = 0`: from `init 1 0` the run
--   enqueue; recv 0; take; enqueue; recv 1; enqueue; recv 2; finish 0; tokSendDone; tok; take; finish 1; tokSendDone; tok
-- ends in a quiescent, not stopped state whose dispatcher sits in `fullWait 2` with an empty priority queue (`tok`
-- found nothing to pop: the Go code panics there), no worker runs, `wsend = 0`, and item 2 is outstanding:
-- `wrun = 0 ≠ 1 = min 1 (1 - 0)`.  `1 ≤ L` is the standing side condition of C09 (`actOK` imposes it on `resizeLen`);
-- no condition on `W` is needed.  After Stop/Break the clause is vacuous (as in the driver), so the way `mstOf`
-- computes `stopAt` does not matter here.
/-- C09: work conserving at quiescence (queue length `≥ 1`). -/
theorem workConserving_sound {W L : Nat} (hL : 1 ≤ L) {s : St} (h : Reach W L s) (hq : quiescent s) :
    workConserving (mstOf s) (obsOf s) = true := by
  cases hs : s.stopped with
  | true => simp [workConserving, mstOf, hs]
  | false =>
    have hW' := (ginv_reach h).hW
    have hcap := (ginv_reach h).wrkCap
    simp only [workConserving, outstanding_eq h hs]
    simp only [mstOf, obsOf, hs, hW']
    rcases Nat.eq_zero_or_pos W with h0 | hW
    · -- no workers: nothing runs
      have hr : s.running.length = 0 := by omega
      simp [hr, h0]
    · have hc : s.ctxDone = false := by rw [(aux_reach h).ctx, hs]
      rw [← work_conserving_tok hW hL h hc hq]
      simp

/-- C09: back-pressure, upper bound. -/
theorem backPressureUpper_sound {W L : Nat} {s : St} (h : Reach W L s) (hs : s.stopped = false) :
    outstanding (mstOf s) (obsOf s) ≤ (mstOf s).Lmax + 2 * (mstOf s).W + 1 := by
  have hc : s.ctxDone = false := by rw [(aux_reach h).ctx, hs]
  rw [outstanding_eq h hs]
  have g := ginv_reach h
  have hm := g.heapMax hc
  have h1 := g.chanCap
  have h2 := g.wrkCap
  have hph := (g.phase hc).2.2
  have hW' := g.hW
  simp only [mstOf, hW']
  rw [waiting_eq]
  rcases hd : s.disp with _ | it | ⟨m, _ | it⟩ | rest | _ | _ <;>
    simp only [hd, wqs] at hm hph ⊢ <;> first | omega | cases hph

/-- C14: at most once per (item, subscriber), only for items whose work function returned an error. -/
theorem errorsOK_sound {W L : Nat} {s : St} (h : Reach W L s) : errorsOK (mstOf s) (obsOf s) = true := by
  have g := ginv_reach h
  have hnd := g.monOK.inboxNodup
  simp only [errorsOK, obsOf, mstOf, List.all_eq_true, List.mem_map, List.mem_range, Bool.and_eq_true, nodupB_iff]
  rintro l ⟨k, _, rfl⟩
  constructor
  · rw [List.Nodup, List.pairwise_map]
    have hf : (s.inbox.filter (·.1 == k)).Nodup := hnd.filter _
    refine List.Pairwise.imp_of_mem ?_ hf
    intro a b ha hb hab heq
    simp only [List.mem_filter, beq_iff_eq] at ha hb
    exact hab (Prod.ext (ha.2.trans hb.2.symm) heq)
  · intro e he
    simp only [List.mem_map, List.mem_filter] at he
    obtain ⟨p, ⟨hp, _⟩, rfl⟩ := he
    obtain ⟨n, hn, _⟩ := g.monOK.inboxErr p hp
    have hl := g.loc p.2
    have hpos : 0 < (s.errored.map (·.1)).count p.2 := by
      rw [List.count_pos_iff]; exact List.mem_map_of_mem (f := (·.1)) hn
    simp only [Loc] at hl
    have hfail : p.2 ∈ s.failed := by rw [mem_iff_count]; omega
    have hfin : p.2 ∈ s.finished := by rw [mem_iff_count]; omega
    simp only [List.contains_eq_mem, List.mem_map, decide_eq_true_eq]
    exact ⟨p.2, hfin, by simp [hfail]⟩

/-- C16: an item removed by Dequeue never starts afterwards. -/
theorem dequeuedNeverStart_sound {W L : Nat} {s : St} (h : Reach W L s) :
    dequeuedNeverStart (mstOf s) (obsOf s) [] = true := by
  simp only [dequeuedNeverStart, mstOf, obsOf, List.all_eq_true]
  intro i hi
  have hl := (ginv_reach h).loc i
  have : i ∉ s.started := by
    simp only [mem_iff_count] at hi ⊢
    simp only [Loc] at hl
    omega
  simp [this]

/-- C19: nothing submitted after Stop/Break ever runs.

True as stated, but weaker than what the driver checks: `mstOf` reads `stopAt` off the *current* state, so the
bound is the current `s.nextId` and the statement only says that every started ordinal has been issued.  The
driver records `stopAt` at the moment of the call; `afterStop_at_stop_sound` below is the statement with that
bound. -/
theorem afterStop_sound {W L : Nat} {s : St} (h : Reach W L s) :
    match (mstOf s).stopAt with
    | none => True
    | some (_, n) => (obsOf s).started.all (· < n) = true := by
  simp only [mstOf]
  split
  · trivial
  · next n heq =>
    split at heq
    · injection heq with heq
      injection heq with _ hn
      subst hn
      simp only [obsOf, List.all_eq_true, decide_eq_true_eq]
      intro i hi
      have hl := (ginv_reach h).loc i
      simp only [mem_iff_count] at hi
      simp only [Loc] at hl
      omega
    · cases heq

/-- C19 with the bound the driver records: if Stop or Break is called in the reachable state `s0` (already stopped
    or not), then in every state `s` of every continuation all started ordinals are below `s0.nextId`, the number of
    ordinals issued when the call was made — the second component of the driver's `stopAt`. -/
theorem afterStop_at_stop_sound {W L : Nat} {s0 s1 s : St} (h0 : Reach W L s0) {a : Act}
    (ha : a = .stop ∨ a = .break_) (h1 : step? s0 a = some s1) (hsteps : Steps s1 s) :
    (obsOf s).started.all (· < s0.nextId) = true := by
  have hok : actOK s0 a := by rcases ha with rfl | rfl <;> trivial
  have hr : Reach W L s := reach_steps (Reach.step a h0 hok h1) hsteps
  obtain ⟨_, hlate⟩ := late_steps (late_of_stop ha h1) hsteps
  simp only [obsOf, List.all_eq_true, decide_eq_true_eq]
  intro i hi
  have hl := (ginv_reach hr).loc i
  simp only [mem_iff_count] at hi
  simp only [Loc] at hl
  have hacc : 0 < s.accepted.count i := by omega
  have hlt : i < s.nextId := by omega
  have hnr : s.rejected.count i = 0 := by omega
  refine Nat.lt_of_not_le fun hge => ?_
  have := hlate i hge hlt
  rw [mem_iff_count] at this
  omega

end TV.WorkQueue.MonSound
