import TV.Model.WorkQueue
import TV.Proofs.GoHeap
import TV.Proofs.WorkQueueLiveInv
/-! WorkQueue LTS — Live obligations. Each `theorem` below is re-exported verbatim by TV/Properties/Cxx.lean. -/
namespace TV.WorkQueue
open TV.GoHeap

/-! ### the progress measure -/

/-- weight of the dispatcher: its phase plus the items it holds. -/
def phiDisp : Disp → Nat
  | .idle => 3
  | .fullWait _ => 3 + 6
  | .handOff _ none => 3 + 3
  | .handOff _ (some _) => 3 + 3 + 5
  | .drain rest => 2 + 2 * rest.length
  | .await => 1
  | .exited => 0

def phiMon : Mon → Nat
  | .exited => 0
  | _ => 1

/-- the progress measure: every internal step decreases it. -/
def phi (s : St) : Nat :=
  7 * s.blocked.length + phiDisp s.disp + 4 * s.heap.length + s.chan.length + 3 * s.errSend.length +
    2 * s.tokPend + s.tokens + (s.W - s.exitedW) + phiMon s.mon

namespace Live

/-! ### quiescent states -/

/-- what `internalActs s = []` says, action by action. -/
structure QF (s : St) : Prop where
  recv : s.disp = .idle → s.blocked.length = 0
  tok : (s.disp = .idle ∨ ∃ it, s.disp = .fullWait it) → s.tokens = 0
  hand : ∀ m h, s.disp = .handOff m h → s.W ≤ s.chan.length
  take : s.chan.length = 0 ∨ freeWorkers s = 0
  err : s.mon = .idle → s.errSend.length = 0
  tsd : s.tokPend = 0 ∨ s.W ≤ s.tokens
  ctx : (s.disp = .idle ∨ ∃ it, s.disp = .fullWait it) → s.ctxDone = false
  dsend : ∀ it rest, s.disp = .drain (it :: rest) → s.W ≤ s.chan.length
  dtok : ∀ it rest, s.disp = .drain (it :: rest) → s.tokens = 0
  close : s.disp ≠ .drain []
  atok : s.disp = .await → s.tokens = 0
  wexit : s.chanClosed = true → s.chan.length = 0 → freeWorkers s = 0
  done : s.disp = .await → s.exitedW ≠ s.W

theorem QF_of_quiescent {s : St} (hq : internalActs s = []) : QF s := by
  simp only [internalActs, List.filter_eq_nil_iff] at hq
  have fixed : ∀ a, a ∈ [Act.tok, .handOffDone, .take, .tokSendDone, .ctxExit, .drainSend, .drainTok, .closeChan,
      .awaitTok, .workerExit, .allDone, .monExit] → step? s a = none := by
    intro a ha
    have := hq a (by simp at ha; rcases ha with rfl | rfl | rfl | rfl | rfl | rfl | rfl | rfl | rfl | rfl | rfl | rfl <;> simp)
    simpa using this
  constructor
  · intro hd
    cases hb : s.blocked with
    | nil => rfl
    | cons it rest =>
      exfalso
      refine hq (.recv it.id) (by simp [hb]) ?_
      simp only [step?, hd, hb, findId, List.find?_cons, beq_self_eq_true]
      split <;> (try split) <;> (try split) <;> simp
  · intro hd
    have := fixed .tok (by simp)
    simp only [step?] at this
    split at this
    · assumption
    · rcases hd with hd | ⟨it, hd⟩ <;> simp only [hd] at this <;> exfalso <;> revert this <;>
        (repeat' split) <;> simp
  · intro m h hd
    have := fixed .handOffDone (by simp)
    simp only [step?, hd] at this
    split at this
    · simp at this
    · omega
  · have := fixed .take (by simp)
    simp only [step?] at this
    split at this
    · split at this
      · simp at this
      · right; omega
    · rename_i hc; left; simp [hc]
  · intro hm
    cases hb : s.errSend with
    | nil => rfl
    | cons it rest =>
      exfalso
      refine hq (.errRecv it.id) (by simp [hb]) ?_
      simp [step?, hm, hb, findId]
  · have := fixed .tokSendDone (by simp)
    simp only [step?] at this
    split at this
    · simp at this
    · omega
  · intro hd
    have := fixed .ctxExit (by simp)
    simp only [step?] at this
    rcases hd with hd | ⟨it, hd⟩ <;> simp only [hd] at this <;> split at this <;> simp_all
  · intro it rest hd
    have := fixed .drainSend (by simp)
    simp only [step?, hd] at this
    split at this
    · split at this <;> simp at this
    · omega
  · intro it rest hd
    have := fixed .drainTok (by simp)
    simp only [step?, hd] at this
    split at this
    · simp at this
    · omega
  · intro hd
    have := fixed .closeChan (by simp)
    simp [step?, hd] at this
  · intro hd
    have := fixed .awaitTok (by simp)
    simp only [step?, hd] at this
    split at this
    · simp at this
    · omega
  · intro hc hl
    have := fixed .workerExit (by simp)
    simp only [step?] at this
    split at this
    · simp at this
    · rename_i hn
      have : s.chan.isEmpty = true := by cases hh : s.chan <;> simp_all
      simp_all
  · intro hd
    have := fixed .allDone (by simp)
    simp only [step?, hd] at this
    split at this
    · simp at this
    · assumption


theorem no_deadlock_core {W : Nat} {s : St} (inv : CInv W s) (hne : s.disp ≠ .exited)
    (hwork : s.ctxDone = false → 0 < (waiting s).length + s.errSend.length + s.blocked.length) :
    internalActs s ≠ [] ∨ s.running ≠ [] ∨ (∃ e r, s.mon = .fanout e r) := by
  by_cases hq : internalActs s = []
  case neg => exact Or.inl hq
  by_cases hrun : s.running = []
  case neg => exact Or.inr (Or.inl hrun)
  right; right
  cases hmon : s.mon with
  | fanout e r => exact ⟨e, r, rfl⟩
  | exited =>
    exact absurd (inv.mdone (inv.mexit hmon)) hne
  | idle =>
    exfalso
    have q := QF_of_quiescent hq
    obtain ⟨qrecv, qtok, qhand, qtake, qerr, qtsd, qctx, qdsend, qdtok, qclose, qatok, qwexit, qdone⟩ := q
    have qerr := qerr hmon
    obtain ⟨hW, wpos, lpos, capC, capT, capW, phase, closed, mdone, mexit, exited0, fwHeap, pipe, room⟩ := inv
    have hrl : s.running.length = 0 := by simp [hrun]
    simp only [freeWorkers] at qtake qwexit
    simp only [waiting] at hwork
    cases hd : s.disp with
    | idle =>
      have h1 := qrecv hd
      have h2 := qtok (Or.inl hd)
      have h3 := qctx (Or.inl hd)
      simp only [hd, dClosed, dHold, dHand, pipeN, List.nil_append, List.length_append] at *
      have h4 := exited0 closed
      have h5 := hwork h3
      have h6 := pipe h3
      simp at h6
      omega
    | fullWait it =>
      have h2 := qtok (Or.inr ⟨it, hd⟩)
      have h3 := qctx (Or.inr ⟨it, hd⟩)
      simp only [hd, dClosed, dHold, dHand, pipeN] at *
      have h4 := exited0 closed
      have h6 := pipe h3 (Or.inr trivial)
      omega
    | handOff m held =>
      have h2 := qhand m held hd
      simp only [hd, dClosed, dHold, dHand, pipeN] at *
      have h4 := exited0 closed
      omega
    | drain rest =>
      cases rest with
      | nil => exact qclose hd
      | cons it rest =>
        have h1 := qdsend it rest hd
        have h2 := qdtok it rest hd
        simp only [hd, dClosed, dHold, dHand, pipeN] at *
        have h4 := exited0 closed
        omega
    | await =>
      have h1 := qatok hd
      have h2 := qdone hd
      simp only [hd, dClosed, dHold, dHand, pipeN] at *
      have h3 := qwexit closed
      omega
    | exited => exact hne hd


theorem C04_internal_steps_terminate :
    ∀ (s s' : St) (a : Act), isInternal a = true → step? s a = some s' → phi s' < phi s := by
  intro s s' a hint h
  cases a <;> simp only [isInternal, Bool.false_eq_true] at hint
  case recv id =>
    simp only [step?] at h
    split at h
    · rename_i it hd hf
      have hlt := removeId_lt hf
      split at h
      · simp only [Option.some.injEq] at h; subst h
        simp only [toDrain]; split <;> simp [phi, phiDisp, hd, length_push] <;> omega
      · split at h
        · simp only [Option.some.injEq] at h; subst h
          simp [phi, phiDisp, hd]; omega
        · split at h <;> (simp only [Option.some.injEq] at h; subst h; simp [phi, phiDisp, hd, length_push]; omega)
    · simp at h
  case tok =>
    simp only [step?] at h
    split at h
    · simp at h
    · rename_i htok
      split at h
      · rename_i hd
        split at h
        · simp only [Option.some.injEq] at h; subst h
          simp only [toDrain]; split <;> simp [phi, phiDisp, hd] <;> omega
        · split at h
          · simp only [Option.some.injEq] at h; subst h
            simp [phi, phiDisp, hd]; omega
          · split at h
            · rename_i hp
              have hl := length_pop hp
              rw [length_adjustAll] at hl
              simp only [Option.some.injEq] at h; subst h
              simp [phi, phiDisp, hd]; omega
            · simp only [Option.some.injEq] at h; subst h
              simp [phi, phiDisp, hd]; omega
      · rename_i it hd
        split at h
        · simp only [Option.some.injEq] at h; subst h
          simp only [toDrain]; split <;> simp [phi, phiDisp, hd, length_push] <;> omega
        · split at h
          · rename_i hp
            have hl := length_pop hp
            rw [length_adjustAll] at hl
            simp only [Option.some.injEq] at h; subst h
            simp [phi, phiDisp, hd]; omega
          · simp only [Option.some.injEq] at h; subst h
            simp [phi, phiDisp, hd]; omega
      · simp at h
  case handOffDone =>
    simp only [step?] at h
    split at h
    · rename_i m held hd
      split at h
      · simp only [Option.some.injEq] at h; subst h
        cases held <;> simp [phi, phiDisp, hd, length_push] <;> omega
      · simp at h
    · simp at h
  case take =>
    simp only [step?] at h
    split at h
    · rename_i it rest hc
      split at h
      · simp only [Option.some.injEq] at h; subst h
        simp [phi, hc]
      · simp at h
    · simp at h
  case errRecv id =>
    simp only [step?] at h
    split at h
    · rename_i it hm hf
      have hlt := removeId_lt hf
      simp only [Option.some.injEq] at h; subst h
      have : phiMon (if s.subs = 0 then Mon.idle else Mon.fanout id (List.range s.subs)) = 1 := by
        split <;> rfl
      simp [phi, hm, this, show phiMon Mon.idle = 1 from rfl]; omega
    · simp at h
  case tokSendDone =>
    simp only [step?] at h
    split at h
    · simp only [Option.some.injEq] at h; subst h
      simp [phi]; omega
    · simp at h
  case giveUp id =>
    simp only [step?] at h
    split at h
    · rename_i it hf
      have hlt := removeId_lt hf
      split at h
      · simp only [Option.some.injEq] at h; subst h
        simp [phi]; omega
      · simp at h
    · simp at h
  case ctxExit =>
    simp only [step?] at h
    split at h
    · rename_i hd
      split at h
      · simp only [Option.some.injEq] at h; subst h
        simp only [toDrain]; split <;> simp [phi, phiDisp, hd] <;> omega
      · simp at h
    · rename_i it hd
      split at h
      · simp only [Option.some.injEq] at h; subst h
        simp only [toDrain]; split <;> simp [phi, phiDisp, hd, length_push] <;> omega
      · simp at h
    · simp at h
  case drainSend =>
    simp only [step?] at h
    split at h
    · rename_i it rest hd
      split at h
      · split at h <;> (simp only [Option.some.injEq] at h; subst h; simp [phi, phiDisp, hd]; omega)
      · simp at h
    · simp at h
  case drainTok =>
    simp only [step?] at h
    split at h
    · split at h
      · simp only [Option.some.injEq] at h; subst h
        simp [phi]; omega
      · simp at h
    · simp at h
  case closeChan =>
    simp only [step?] at h
    split at h
    · rename_i hd
      simp only [Option.some.injEq] at h; subst h
      simp [phi, phiDisp, hd]
    · simp at h
  case awaitTok =>
    simp only [step?] at h
    split at h
    · split at h
      · simp only [Option.some.injEq] at h; subst h
        simp [phi]; omega
      · simp at h
    · simp at h
  case workerExit =>
    simp only [step?] at h
    split at h
    · rename_i hc
      simp only [Option.some.injEq] at h; subst h
      simp only [freeWorkers] at hc
      simp [phi]; omega
    · simp at h
  case allDone =>
    simp only [step?] at h
    split at h
    · rename_i hd
      split at h
      · simp only [Option.some.injEq] at h; subst h
        simp [phi, phiDisp, hd]
      · simp at h
    · simp at h
  case monExit =>
    simp only [step?] at h
    split at h
    · rename_i hm
      split at h
      · simp only [Option.some.injEq] at h; subst h
        simp [phi, phiMon, hm]
      · simp at h
    · simp at h

theorem C04_no_deadlock :
    ∀ (W L : Nat) (_ : 1 ≤ W) (_ : 1 ≤ L) (s : St) (_ : Reach W L s), s.ctxDone = false → (waiting s ≠ [] ∨ s.errSend ≠ [] ∨ s.blocked ≠ []) →
    internalActs s ≠ [] ∨ s.running ≠ [] ∨ (∃ e r, s.mon = .fanout e r) := by
  intro W L hW hL s hr hc hwork
  have inv := CInv_reach hW hL hr
  refine no_deadlock_core inv ?_ ?_
  · intro hd
    have := inv.phase hc
    simp [hd, dLoop] at this
  · intro _
    rcases hwork with h | h | h
    · have := List.length_pos_iff.mpr h; omega
    · have := List.length_pos_iff.mpr h; omega
    · have := List.length_pos_iff.mpr h; omega

theorem C19_shutdown_no_deadlock :
    ∀ (W L : Nat) (_ : 1 ≤ W) (_ : 1 ≤ L) (s : St) (_ : Reach W L s), s.ctxDone = true → s.disp ≠ .exited →
    internalActs s ≠ [] ∨ s.running ≠ [] ∨ (∃ e r, s.mon = .fanout e r) := by
  intro W L hW hL s hr hc hne
  refine no_deadlock_core (CInv_reach hW hL hr) hne ?_
  intro h; rw [hc] at h; cases h

end Live

end TV.WorkQueue
