import TV.Model.Middleware
/-! Server — helper lemmas and proofs for the middleware model (C17). -/
namespace TV.Server
namespace MwProofs
open TV.Middleware

theorem bundleLoop_eq (ms : List Middleware) :
    ∀ (k : Nat), k ≤ ms.length → ∀ h : Handler,
      bundleLoop ms k h = (ms.take k).foldr (fun m acc => m acc) h := by
  intro k
  induction k with
  | zero => intro _ h; simp [bundleLoop]
  | succ k ih =>
    intro hk h
    have hlt : k < ms.length := hk
    have hget : ms[k]? = some ms[k] := List.getElem?_eq_getElem hlt
    rw [bundleLoop, hget]
    simp only
    rw [ih (Nat.le_of_lt hlt), List.take_add_one, hget, Option.toList_some, List.foldr_append]
    rfl

theorem bundle_order (ms : List Middleware) (h : Handler) :
    bundle ms h = ms.foldr (fun m acc => m acc) h := by
  unfold bundle
  split
  · next h0 =>
    have : ms = [] := List.eq_nil_of_length_eq_zero h0
    subst this; rfl
  · rw [bundleLoop_eq ms ms.length (Nat.le_refl _), List.take_length]

theorem recording_foldr (names : List String) (h : Handler) (r : Req) :
    ((names.map recording).foldr (fun m acc => m acc) h r).1
        = names.map ("enter " ++ ·) ++ (h r).1 ++ names.reverse.map ("leave " ++ ·) ∧
    ((names.map recording).foldr (fun m acc => m acc) h r).2 = (h r).2 := by
  induction names with
  | nil => simp
  | cons n ns ih =>
    obtain ⟨ih1, ih2⟩ := ih
    simp only [List.map_cons, List.foldr_cons]
    constructor
    · show (recording n _ r).1 = _
      simp only [recording]
      rw [ih1]
      simp [List.append_assoc]
    · show (recording n _ r).2 = _
      simp only [recording]
      exact ih2

theorem logRequest_eq (h : Handler) (r : Req) : logRequest h r = h r := rfl
theorem logResponse_eq (h : Handler) (r : Req) : logResponse h r = h r := rfl

theorem chain_foldr (names : List String) (h : Handler) (r : Req) :
    ((names.map mwOf).foldr (fun m acc => m acc) h r).2 = (h r).2 ∧
    ((names.map mwOf).foldr (fun m acc => m acc) h r).1
        = (names.filter (fun n => n != "LOGREQ" && n != "LOGRESP")).map ("enter " ++ ·) ++ (h r).1 ++
          ((names.filter (fun n => n != "LOGREQ" && n != "LOGRESP")).reverse).map ("leave " ++ ·) := by
  induction names with
  | nil => simp
  | cons n ns ih =>
    obtain ⟨ih2, ih1⟩ := ih
    simp only [List.map_cons, List.foldr_cons]
    by_cases h1 : n = "LOGREQ"
    · have : mwOf n = logRequest := by simp [mwOf, h1]
      rw [this, logRequest_eq]
      refine ⟨ih2, ?_⟩
      rw [ih1]; simp [h1]
    · by_cases h2 : n = "LOGRESP"
      · have : mwOf n = logResponse := by simp [mwOf, h2]
        rw [this, logResponse_eq]
        refine ⟨ih2, ?_⟩
        rw [ih1]; simp [h2]
      · have : mwOf n = recording n := by simp [mwOf, h1, h2]
        rw [this]
        constructor
        · show (recording n _ r).2 = _
          simp only [recording]; exact ih2
        · show (recording n _ r).1 = _
          simp only [recording]
          rw [ih1]
          simp [h1, h2, List.append_assoc]

theorem find_route (routes : List Route) (r : Route) (hr : r ∈ routes)
    (hnd : (routes.map (fun x => (x.method, x.path))).Nodup) :
    routes.find? (fun x => x.method == r.method && x.path == r.path) = some r := by
  induction routes with
  | nil => cases hr
  | cons a as ih =>
    rw [List.map_cons, List.nodup_cons] at hnd
    obtain ⟨hna, hnd'⟩ := hnd
    rcases List.mem_cons.mp hr with rfl | hmem
    · simp
    · have hne : ¬ (a.method = r.method ∧ a.path = r.path) := by
        rintro ⟨e1, e2⟩
        apply hna
        rw [List.mem_map]
        exact ⟨r, hmem, by rw [e1, e2]⟩
      rw [List.find?_cons]
      have : (a.method == r.method && a.path == r.path) = false := by
        simpa using hne
      rw [this]
      exact ih hmem hnd'

end MwProofs
end TV.Server
