import TV.Proofs.PublisherBasic
/-! Publication LTS — the ledger part of the invariant, stated over plain lists (views of the state). -/
namespace TV.Publisher
namespace Proofs

theorem nodup_map_inj {α β} {f : α → β} {l : List α} (h : (l.map f).Nodup) {a b : α} (h1 : a ∈ l) (h2 : b ∈ l)
    (e : f a = f b) : a = b := by
  induction l with
  | nil => cases h1
  | cons x l ih =>
    simp only [List.map_cons, List.nodup_cons, List.mem_map, not_exists, not_and] at h
    simp only [List.mem_cons] at h1 h2
    grind

/-- the part of a subscriber record that never changes. -/
structure Static where
  id : Nat
  cap : Nat
  filter : Filter
  cbFiltered : Bool
  cbTimeout : Bool

/-- subscriber ids are pairwise distinct and at most `count`. -/
structure InvA (st : List Static) (count : Nat) : Prop where
  idsNodup : (st.map (·.id)).Nodup
  idsRange : ∀ t ∈ st, t.id ≤ count

theorem InvA.uniq {st : List Static} {c : Nat} (h : InvA st c) {t t' : Static} (h1 : t ∈ st) (h2 : t' ∈ st)
    (e : t.id = t'.id) : t = t' := by
  exact nodup_map_inj h.idsNodup h1 h2 e

theorem InvA.subscribe {st : List Static} {c : Nat} (h : InvA st c) (t : Static) (ht : t.id = c + 1) :
    InvA (st ++ [t]) (c + 1) := by
  obtain ⟨h1, h2⟩ := h
  constructor
  · simp only [List.map_append, List.map_cons, List.map_nil]
    rw [List.nodup_append]
    refine ⟨h1, by simp, ?_⟩
    intro a ha b hb
    simp only [List.mem_map] at ha
    simp only [List.mem_singleton] at hb
    obtain ⟨t', ht', rfl⟩ := ha
    have := h2 t' ht'
    omega
  · intro t' ht'
    simp only [List.mem_append, List.mem_singleton] at ht'
    rcases ht' with ht' | rfl
    · have := h2 t' ht'; omega
    · omega

/-- pending deliveries (as keys `(uid, sub, msg)`), outcomes and the published ledger. -/
structure InvB (st : List Static) (pk : List (Nat × Nat × Nat)) (out : List (Nat × Nat × Outcome))
    (pub : List (Nat × Nat)) (nu : Nat) : Prop where
  pendSub : ∀ p ∈ pk, ∃ t ∈ st, t.id = p.2.1 ∧ t.filter.accepts p.2.2 = true
  pendPub : ∀ p ∈ pk, (p.1, p.2.2) ∈ pub
  pubLt : ∀ p ∈ pub, p.1 < nu
  pubNodup : (pub.map (·.1)).Nodup
  pairsNodup : (out.map (fun o => (o.1, o.2.1)) ++ pk.map (fun p => (p.1, p.2.1))).Nodup
  outPub : ∀ o ∈ out, ∃ m, (o.1, m) ∈ pub
  outSub : ∀ o ∈ out, ∃ t ∈ st, t.id = o.2.1
  sentAcc : ∀ o ∈ out, o.2.2 = .sent → ∃ m, (o.1, m) ∈ pub ∧ ∃ t ∈ st, t.id = o.2.1 ∧ t.filter.accepts m = true

theorem InvB.pubUniq {st pk out pub nu} (h : InvB st pk out pub nu) {u m m' : Nat} (h1 : (u, m) ∈ pub) (h2 : (u, m') ∈ pub) :
    m = m' := by
  have := nodup_map_inj h.pubNodup h1 h2 rfl
  grind

theorem InvB.mono_st {st st' pk out pub nu} (h : InvB st pk out pub nu) (hs : ∀ t ∈ st, t ∈ st') : InvB st' pk out pub nu := by
  obtain ⟨h1, h2, h3, h4, h5, h6, h7, h8⟩ := h
  exact ⟨by grind, h2, h3, h4, h5, h6, by grind, by grind⟩

theorem InvB.finish {st pk out pub nu} (h : InvB st pk out pub nu) {uid sub msg : Nat} (hp : (uid, sub, msg) ∈ pk) (o : Outcome) :
    InvB st (pk.filter (fun p => !(p.1 == uid && p.2.1 == sub))) (out ++ [(uid, sub, o)]) pub nu := by
  obtain ⟨h1, h2, h3, h4, h5, h6, h7, h8⟩ := h
  exact ⟨by grind, by grind, h3, h4, by grind, by grind, by grind, by grind⟩

def _root_.TV.Publisher.Sub.static (x : Sub) : Static := ⟨x.id, x.cap, x.filter, x.cbFiltered, x.cbTimeout⟩

theorem filter_map_nodup {α β} {f : α → β} {l : List α} (h : (l.map f).Nodup) (p : α → Bool) : ((l.filter p).map f).Nodup := by
  have : ((l.filter p).map f).Sublist (l.map f) := List.Sublist.map f List.filter_sublist
  exact this.nodup h

theorem new_pairs_nodup {subs : List Sub} (h : (subs.map (·.id)).Nodup) (nu : Nat) (p1 p2 : Sub → Bool) (hd : ∀ x, p1 x = true → p2 x = true → False) :
   ((subs.filter p2).map (fun x => (nu, x.id)) ++ (subs.filter p1).map (fun x => (nu, x.id))).Nodup := by
  have hn : (subs.map (fun x => (nu, x.id))).Nodup := by
    have : subs.map (fun x => (nu, x.id)) = (subs.map (·.id)).map (fun i => (nu, i)) := by simp
    rw [this]
    exact List.Pairwise.map _ (fun a b hab => by simpa using hab) h
  rw [List.nodup_append]
  refine ⟨filter_map_nodup hn _, filter_map_nodup hn _, ?_⟩
  intro a ha b hb e
  simp only [List.mem_map, List.mem_filter] at ha hb
  obtain ⟨x, ⟨hx, hx2⟩, rfl⟩ := ha
  obtain ⟨y, ⟨hy, hy2⟩, rfl⟩ := hb
  have : x = y := nodup_map_inj h hx hy (by simpa using e)
  subst this
  exact hd _ hy2 hx2

theorem nodup_interleave {nu : Nat} (A N2 P N1 : List (Nat×Nat)) (h : (A++P).Nodup) (hN : (N2 ++ N1).Nodup) (hlt : ∀ a ∈ A ++ P, a.1 < nu) (heq : ∀ a ∈ N2 ++ N1, a.1 = nu) : ((A ++ N2) ++ (P ++ N1)).Nodup := by
  simp only [List.nodup_append, List.mem_append] at *
  grind

theorem InvB.publish {subs : List Sub} {c pk out pub nu} (hA : InvA (subs.map Sub.static) c) (h : InvB (subs.map Sub.static) pk out pub nu) (msg : Nat) :
    InvB (subs.map Sub.static)
      (pk ++ (subs.filter (fun x => x.registered && x.filter.accepts msg)).map (fun x => (nu, x.id, msg)))
      (out ++ (subs.filter (fun x => x.registered && !x.filter.accepts msg)).map (fun x => (nu, x.id, Outcome.filtered)))
      (pub ++ [(nu, msg)]) (nu + 1) := by
  obtain ⟨h1, h2, h3, h4, h5, h6, h7, h8⟩ := h
  refine ⟨?_, ?_, ?_, ?_, ?_, ?_, ?_, ?_⟩
  · intro p hp
    simp only [List.mem_append, List.mem_map, List.mem_filter] at hp
    rcases hp with hp | ⟨x, ⟨hx, hx2⟩, rfl⟩
    · exact h1 p hp
    · exact ⟨x.static, List.mem_map_of_mem hx, rfl, by simp_all [Sub.static]⟩
  · grind
  · grind
  · grind
  · simp only [List.map_append, List.map_map]
    apply nodup_interleave (nu := nu) _ _ _ _ h5
    · exact new_pairs_nodup (by simpa [Sub.static, Function.comp_def] using hA.idsNodup) nu _ _ (by intro x; simp; grind)
    · intro a ha
      simp only [List.mem_append, List.mem_map] at ha
      rcases ha with ⟨o, ho, rfl⟩ | ⟨p, hp, rfl⟩
      · obtain ⟨m, hm⟩ := h6 o ho
        exact h3 (o.1, m) hm
      · exact h3 (p.1, p.2.2) (h2 p hp)
    · intro a ha
      simp only [List.mem_append, List.mem_map, Function.comp] at ha
      rcases ha with ⟨o, ho, rfl⟩ | ⟨p, hp, rfl⟩ <;> rfl
  · grind
  · intro o ho
    simp only [List.mem_append, List.mem_map, List.mem_filter] at ho
    rcases ho with ho | ⟨x, ⟨hx, hx2⟩, rfl⟩
    · exact h7 o ho
    · exact ⟨x.static, List.mem_map_of_mem hx, rfl⟩
  · grind

end Proofs
end TV.Publisher
