import TV.Model.WorkQueue
import TV.Proofs.GoHeap
/-! Helper lemmas for the WorkQueue safety proofs: hypothesis-free permutation facts about the
`container/heap` algorithms, and the id-counting function `cnt`. -/
namespace TV.GoHeap
variable {α : Type}

theorem getLast?_dropLast_perm (l2 : List α) (x : α) (h : l2.getLast? = some x) :
    (x :: l2.dropLast).Perm l2 := by
  obtain ⟨ys, rfl⟩ := List.getLast?_eq_some_iff.mp h
  rw [List.dropLast_concat]
  exact (List.perm_append_singleton _ _).symm

theorem pop_some_perm (less : α → α → Bool) (l : List α) (m : α) (rest : List α)
    (h : pop less l = some (m, rest)) : (m :: rest).Perm l := by
  unfold pop at h
  split at h
  · cases h
  · simp only [] at h
    split at h
    · next x hx =>
      injection h with h; injection h with h1 h2; subst h1 h2
      exact (getLast?_dropLast_perm _ _ hx).trans ((down_perm _ _ _ _ _).trans (swap_perm _ _ _))
    · cases h

theorem pop_isSome (less : α → α → Bool) (l : List α) (hne : l ≠ []) : (pop less l).isSome = true := by
  unfold pop
  have : l.isEmpty = false := by simpa using hne
  simp only [this]
  have hpos : 0 < l.length := List.length_pos_iff.mpr hne
  have hl : (down less (swap l 0 (l.length - 1)).length (swap l 0 (l.length - 1)) 0 (l.length - 1)).1 ≠ [] := by
    intro h
    have := congrArg List.length h
    rw [length_down, length_swap] at this; simp only [List.length_nil] at this; omega

  generalize (down less (swap l 0 (l.length - 1)).length (swap l 0 (l.length - 1)) 0 (l.length - 1)).1 = l2 at hl
  cases h : l2.getLast? with
  | none => simp at h; exact absurd h hl
  | some x => simp

/-- the list `heap.Remove` works on just before `h.Pop()` -/
theorem remove_core (less : α → α → Bool) (l : List α) (i : Nat) (hi : i < l.length) :
    ∃ l2 : List α, l2.Perm l ∧ l2.length = l.length ∧ l2[l.length - 1]? = l[i]? ∧
      remove less l i = (match l2.getLast? with | some x => some (x, l2.dropLast) | none => none) := by
  generalize hn : l.length - 1 = n
  have hnl : n < l.length := by omega
  by_cases hni : n = i
  · subst hni
    refine ⟨l, .refl _, rfl, rfl, ?_⟩
    unfold remove
    rw [if_neg (by omega)]
    simp [hn]
    rfl
  · have hin : i < n := by omega
    have hx : (swap l i n)[n]? = l[i]? := by
      rw [getElem?_swap _ _ _ _ hi hnl, if_pos rfl]
    generalize hd : down less (swap l i n).length (swap l i n) i n = r
    obtain ⟨ld, i'⟩ := r
    have h1 : ld = (down less (swap l i n).length (swap l i n) i n).1 := by rw [hd]
    have hld : ld.Perm l := by rw [h1]; exact (down_perm _ _ _ _ _).trans (swap_perm _ _ _)
    have hldn : ld[n]? = l[i]? := by rw [h1, getElem?_down_of_ge _ _ _ _ _ _ (Nat.le_refl _)]; exact hx
    have hlen : ld.length = l.length := by rw [h1]; simp
    refine ⟨if i' > i then ld else up less ld.length ld i, ?_, ?_, ?_, ?_⟩
    · split
      · exact hld
      · exact (up_perm _ _ _ _).trans hld
    · split <;> simp [hlen]
    · split
      · exact hldn
      · rw [getElem?_up_of_gt _ _ _ _ _ hin]; exact hldn
    · unfold remove
      rw [if_neg (by omega)]
      simp only [hn]
      rw [if_pos (by simpa using hni), hd]
      rfl

theorem remove_some (less : α → α → Bool) (l : List α) (i : Nat) (x : α) (rest : List α)
    (h : remove less l i = some (x, rest)) : l[i]? = some x ∧ (x :: rest).Perm l := by
  have hi : i < l.length := by
    unfold remove at h
    split at h
    · cases h
    · omega
  obtain ⟨l2, hp, hlen, hx, he⟩ := remove_core less l i hi
  rw [he] at h
  split at h
  · next y hy =>
    injection h with h; injection h with h1 h2; subst h1 h2
    refine ⟨?_, (getLast?_dropLast_perm _ _ hy).trans hp⟩
    rw [← hx, ← hy, List.getLast?_eq_getElem?, hlen]
  · cases h

theorem remove_isSome (less : α → α → Bool) (l : List α) (i : Nat) (hi : i < l.length) :
    (remove less l i).isSome = true := by
  obtain ⟨l2, hp, hlen, hx, he⟩ := remove_core less l i hi
  rw [he]
  cases h : l2.getLast? with
  | none => simp at h; subst h; simp at hlen; omega
  | some x => simp

theorem fix_perm (less : α → α → Bool) (l : List α) (i : Nat) : (fix less l i).Perm l := by
  unfold fix
  generalize hd : down less l.length l i l.length = r
  obtain ⟨ld, i'⟩ := r
  have h1 : ld = (down less l.length l i l.length).1 := by rw [hd]
  simp only []
  split
  · rw [h1]; exact down_perm _ _ _ _ _
  · exact (up_perm _ _ _ _).trans (by rw [h1]; exact down_perm _ _ _ _ _)

theorem initLoop_perm (less : α → α → Bool) (k : Nat) (l : List α) : (initLoop less k l).Perm l := by
  induction k generalizing l with
  | zero => exact .refl _
  | succ k ih => unfold initLoop; exact (ih _).trans (down_perm _ _ _ _ _)

theorem init_perm (less : α → α → Bool) (l : List α) : (init less l).Perm l := initLoop_perm _ _ _

end TV.GoHeap

namespace TV.WorkQueue
open TV.GoHeap

/-- number of items of `l` carrying the id `id` -/
def cnt (l : List Item) (id : Nat) : Nat := (l.map (·.id)).count id

/-- the items the dispatcher holds in its hand -/
def held : Disp → List Item
  | .fullWait it => [it]
  | .handOff m (some it) => [m, it]
  | .handOff m none => [m]
  | .drain rest => rest
  | _ => []

theorem stored_eq (s : St) :
    stored s = s.blocked ++ held s.disp ++ s.heap ++ s.chan ++ s.running ++ s.errSend ++ s.limbo := by
  rcases hd : s.disp with _ | _ | ⟨m, _ | _⟩ | _ | _ | _ <;> simp [stored, held, hd]

theorem waiting_eq (s : St) : waiting s = held s.disp ++ s.heap ++ s.chan := by
  rcases hd : s.disp with _ | _ | ⟨m, _ | _⟩ | _ | _ | _ <;> simp [waiting, held, hd]

@[simp] theorem cnt_nil (id : Nat) : cnt [] id = 0 := rfl
@[simp] theorem cnt_cons (it : Item) (l : List Item) (id : Nat) :
    cnt (it :: l) id = cnt l id + (if it.id = id then 1 else 0) := by
  simp [cnt, List.count_cons]
@[simp] theorem cnt_append (l l' : List Item) (id : Nat) : cnt (l ++ l') id = cnt l id + cnt l' id := by
  simp [cnt]

theorem cnt_perm {l l' : List Item} (h : l.Perm l') (id : Nat) : cnt l id = cnt l' id :=
  (h.map _).count_eq id

@[simp] theorem cnt_push (l : List Item) (it : Item) (id : Nat) :
    cnt (GoHeap.push less l it) id = cnt l id + (if it.id = id then 1 else 0) := by
  rw [cnt_perm (push_perm less l it), cnt_cons]

theorem cnt_pop {l : List Item} {m : Item} {rest : List Item} (h : GoHeap.pop less l = some (m, rest))
    (id : Nat) : cnt l id = cnt rest id + (if m.id = id then 1 else 0) := by
  rw [← cnt_perm (pop_some_perm less l m rest h), cnt_cons]

theorem cnt_remove {l : List Item} {i : Nat} {x : Item} {rest : List Item}
    (h : GoHeap.remove less l i = some (x, rest)) (id : Nat) :
    cnt l id = cnt rest id + (if x.id = id then 1 else 0) := by
  rw [← cnt_perm (remove_some less l i x rest h).2, cnt_cons]

@[simp] theorem length_push (l : List Item) (it : Item) : (GoHeap.push less l it).length = l.length + 1 := by
  rw [(push_perm less l it).length_eq]; simp

theorem length_pop {l : List Item} {m : Item} {rest : List Item} (h : GoHeap.pop less l = some (m, rest)) :
    l.length = rest.length + 1 := by
  rw [← (pop_some_perm less l m rest h).length_eq]; simp

theorem length_remove {l : List Item} {i : Nat} {x : Item} {rest : List Item}
    (h : GoHeap.remove less l i = some (x, rest)) : l.length = rest.length + 1 := by
  rw [← (remove_some less l i x rest h).2.length_eq]; simp

theorem isEmpty_eq_decide_length (l : List Item) : l.isEmpty = decide (l.length = 0) := by
  cases l <;> simp

theorem cnt_pos_iff (l : List Item) (id : Nat) : 0 < cnt l id ↔ id ∈ l.map (·.id) := by
  simp [cnt, List.count_pos_iff]

theorem cnt_pos_of_mem {l : List Item} {it : Item} (h : it ∈ l) : 0 < cnt l it.id := by
  rw [cnt_pos_iff]; exact List.mem_map_of_mem h

@[simp] theorem cnt_removeId (l : List Item) (x id : Nat) :
    cnt (removeId l x) id = if id = x then 0 else cnt l id := by
  induction l with
  | nil => simp [removeId]
  | cons a l ih =>
    simp only [removeId] at ih
    simp only [removeId, List.filter_cons]
    by_cases ha : a.id = x
    · simp [ha, ih]; grind
    · simp [ha, ih]; grind

theorem length_removeId (l : List Item) (x : Nat) : (removeId l x).length + cnt l x = l.length := by
  induction l with
  | nil => simp [removeId]
  | cons a l ih =>
    simp only [removeId] at ih
    simp only [removeId, List.filter_cons]
    by_cases ha : a.id = x
    · simp [ha]; omega
    · simp [ha]; omega

theorem findId_some {l : List Item} {x : Nat} {it : Item} (h : findId l x = some it) :
    it ∈ l ∧ it.id = x := by
  unfold findId at h
  have h1 := List.mem_of_find?_eq_some h
  have h2 := List.find?_some h
  simp at h2
  exact ⟨h1, h2⟩

theorem findId_isSome_of_mem {l : List Item} {it : Item} (h : it ∈ l) : (findId l it.id).isSome = true := by
  unfold findId
  rw [List.find?_isSome]
  exact ⟨it, h, by simp⟩

theorem findId_eq_none {l : List Item} {x : Nat} (h : findId l x = none) : cnt l x = 0 := by
  unfold findId at h
  rw [List.find?_eq_none] at h
  cases hc : cnt l x with
  | zero => rfl
  | succ n =>
    have : 0 < cnt l x := by omega
    rw [cnt_pos_iff] at this
    simp at this
    obtain ⟨a, ha, hax⟩ := this
    have := h a ha
    simp [hax] at this

theorem idxOf_some {l : List Item} {x i : Nat} (h : idxOf l x = some i) :
    ∃ hi : i < l.length, l[i].id = x := by
  unfold idxOf at h
  simp only [] at h
  split at h
  · next hlt =>
    injection h with h; subst h
    refine ⟨hlt, ?_⟩
    have := List.findIdx_getElem (w := hlt)
    simpa using this
  · cases h

theorem idxOf_none {l : List Item} {x : Nat} (h : idxOf l x = none) : cnt l x = 0 := by
  unfold idxOf at h
  simp only [] at h
  split at h
  · cases h
  · next hlt =>
    have hge : l.length ≤ l.findIdx (·.id == x) := by omega
    have := List.findIdx_le_length (xs := l) (p := (·.id == x))
    have he : l.findIdx (·.id == x) = l.length := by omega
    rw [List.findIdx_eq_length] at he
    cases hc : cnt l x with
    | zero => rfl
    | succ n =>
      have : 0 < cnt l x := by omega
      rw [cnt_pos_iff] at this
      simp at this
      obtain ⟨a, ha, hax⟩ := this
      have := he a ha
      simp [hax] at this

theorem cnt_map_congr (l : List Item) (u : Item → Item) (hu : ∀ it, (u it).id = it.id) (id : Nat) :
    cnt (l.map u) id = cnt l id := by
  simp [cnt, List.map_map, Function.comp_def, hu]

@[simp] theorem length_adjustAll (s : St) (h : List Item) : (adjustAll s h).length = h.length := by
  unfold adjustAll
  simp only []
  split
  · rw [(init_perm _ _).length_eq]; simp
  · simp

@[simp] theorem cnt_adjustAll (s : St) (h : List Item) (id : Nat) : cnt (adjustAll s h) id = cnt h id := by
  unfold adjustAll
  simp only []
  have hm : cnt (h.map (fun it => if it.adj then { it with prio := adjVal s it } else it)) id = cnt h id :=
    cnt_map_congr _ _ (fun it => by split <;> rfl) id
  split
  · rw [cnt_perm (init_perm _ _), hm]
  · exact hm

theorem cnt_fix_set (l : List Item) (i : Nat) (it : Item) (p : Int) (h : l[i]? = some it) (id : Nat) :
    cnt (GoHeap.fix less (l.set i { it with prio := p }) i) id = cnt l id := by
  rw [cnt_perm (fix_perm _ _ _)]
  unfold cnt
  rw [List.map_set]
  congr 1
  have : (l.map (·.id))[i]? = some it.id := by simp [h]
  apply List.ext_getElem?
  intro j
  grind

theorem length_fix_set (l : List Item) (i : Nat) (x : Item) :
    (GoHeap.fix less (l.set i x) i).length = l.length := by
  rw [(fix_perm _ _ _).length_eq]; simp

end TV.WorkQueue
