import TV.Model.SliceOps
/-! Helper lemmas for the sliceOps model. -/
namespace TV.SliceOps
variable {α : Type} [DecidableEq α]

/-! ### distinctAux / differenceAux -/

theorem nodup_reverse_of_nodup {l : List α} (h : l.Nodup) : l.reverse.Nodup := by
  unfold List.Nodup at *
  rw [List.pairwise_reverse]
  exact h.imp (fun h => Ne.symm h)

/-- Spec of the "seen-map" loop shared by Distinct/Union/Difference. -/
theorem distinctAux_spec (s seen acc : List α) (hn : acc.Nodup) (hsub : ∀ x, x ∈ acc → x ∈ seen) :
    (distinctAux s seen acc).Nodup ∧
    ∀ x, x ∈ distinctAux s seen acc ↔ x ∈ acc ∨ (x ∈ s ∧ x ∉ seen) := by
  induction s generalizing seen acc with
  | nil =>
    simp only [distinctAux, List.mem_reverse]
    exact ⟨nodup_reverse_of_nodup hn, by simp⟩
  | cons y ys ih =>
    unfold distinctAux
    split
    · have := ih seen acc hn hsub
      refine ⟨this.1, fun x => ?_⟩
      rw [this.2]; grind
    · have := ih (y :: seen) (y :: acc) (by grind) (by grind)
      refine ⟨this.1, fun x => ?_⟩
      rw [this.2]; grind

theorem differenceAux_eq (s seen acc : List α) :
    differenceAux s seen acc = distinctAux s seen acc := by
  induction s generalizing seen acc with
  | nil => simp [differenceAux, distinctAux]
  | cons y ys ih => unfold differenceAux distinctAux; split <;> simp [ih]

theorem distinct_nodup (s : List α) : (distinct s).Nodup :=
  (distinctAux_spec s [] [] (by simp) (by simp)).1

theorem mem_distinct (s : List α) (x : α) : x ∈ distinct s ↔ x ∈ s := by
  simpa [distinct] using (distinctAux_spec s [] [] (by simp) (by simp)).2 x

theorem union_nodup (ss : List (List α)) : (union ss).Nodup :=
  (distinctAux_spec ss.flatten [] [] (by simp) (by simp)).1

theorem mem_union (ss : List (List α)) (x : α) : x ∈ union ss ↔ ∃ s ∈ ss, x ∈ s := by
  have := (distinctAux_spec ss.flatten [] [] (by simp) (by simp)).2 x
  simp only [union]; rw [this]; simp [List.mem_flatten]

theorem difference_nodup (s1 s2 : List α) : (difference s1 s2).Nodup := by
  unfold difference; rw [differenceAux_eq]
  exact (distinctAux_spec s1 s2 [] (by simp) (by simp)).1

theorem mem_difference (s1 s2 : List α) (x : α) : x ∈ difference s1 s2 ↔ x ∈ s1 ∧ x ∉ s2 := by
  unfold difference; rw [differenceAux_eq]
  simpa using (distinctAux_spec s1 s2 [] (by simp) (by simp)).2 x

/-! ### counting map -/

def keysNodup (m : List (α × Nat)) : Prop := (m.map (·.1)).Nodup

theorem bump_keys (m : List (α × Nat)) (x y : α) :
    y ∈ (bump m x).map (·.1) ↔ y = x ∨ y ∈ m.map (·.1) := by
  induction m with
  | nil => simp [bump]
  | cons p rest ih =>
    obtain ⟨k, n⟩ := p
    unfold bump; split
    · simp; grind
    · simp only [List.map_cons, List.mem_cons]; rw [ih]; grind

theorem bump_nodup (m : List (α × Nat)) (x : α) (h : keysNodup m) : keysNodup (bump m x) := by
  induction m with
  | nil => simp [bump, keysNodup]
  | cons p rest ih =>
    obtain ⟨k, n⟩ := p
    unfold bump; split
    · simpa [keysNodup] using h
    · simp only [keysNodup, List.map_cons, List.nodup_cons] at h ⊢
      refine ⟨?_, ih h.2⟩
      intro hk
      rw [bump_keys] at hk
      grind

/-- the count stored for `y` (0 if absent). -/
def cnt : List (α × Nat) → α → Nat
  | [], _ => 0
  | (k, n) :: rest, y => if k = y then n else cnt rest y

theorem cnt_bump (m : List (α × Nat)) (x y : α) :
    cnt (bump m x) y = cnt m y + (if y = x then 1 else 0) := by
  induction m with
  | nil => simp only [bump, cnt]; split <;> split <;> simp_all
  | cons p rest ih =>
    obtain ⟨k, n⟩ := p
    unfold bump; split
    · subst_vars; simp only [cnt]; grind
    · simp only [cnt, ih]; grind

theorem cnt_foldl_bump (l : List α) (m : List (α × Nat)) (y : α) :
    cnt (l.foldl bump m) y = cnt m y + l.count y := by
  induction l generalizing m with
  | nil => simp
  | cons a rest ih =>
    simp only [List.foldl_cons]; rw [ih, cnt_bump, List.count_cons]
    by_cases h : y = a
    · subst h; simp; omega
    · have : (a == y) = false := by simp; exact fun h2 => h h2.symm
      simp [h, this]

theorem foldl_bump_nodup (l : List α) (m : List (α × Nat)) (h : keysNodup m) :
    keysNodup (l.foldl bump m) := by
  induction l generalizing m with
  | nil => simpa
  | cons a rest ih => exact ih _ (bump_nodup m a h)

theorem bump_pos (m : List (α × Nat)) (x : α) (h : ∀ p ∈ m, 0 < p.2) : ∀ p ∈ bump m x, 0 < p.2 := by
  induction m with
  | nil => simp [bump]
  | cons q rest ih =>
    obtain ⟨k, n⟩ := q
    unfold bump; split
    · intro p hp
      rcases List.mem_cons.mp hp with rfl | hp
      · simp
      · exact h p (List.mem_cons_of_mem _ hp)
    · intro p hp
      rcases List.mem_cons.mp hp with rfl | hp
      · exact h _ (List.mem_cons_self)
      · exact ih (fun p hp => h p (List.mem_cons_of_mem _ hp)) p hp

theorem foldl_bump_pos (l : List α) (m : List (α × Nat)) (h : ∀ p ∈ m, 0 < p.2) :
    ∀ p ∈ l.foldl bump m, 0 < p.2 := by
  induction l generalizing m with
  | nil => exact h
  | cons a rest ih => exact ih _ (bump_pos m a h)

theorem mem_of_keysNodup_cnt (m : List (α × Nat)) (h : keysNodup m) (p : α × Nat) (hp : p ∈ m) :
    cnt m p.1 = p.2 := by
  induction m with
  | nil => simp at hp
  | cons q rest ih =>
    obtain ⟨k, n⟩ := q
    simp only [keysNodup, List.map_cons, List.nodup_cons] at h
    simp only [cnt]
    rcases List.mem_cons.mp hp with rfl | hp'
    · simp
    · have hne : k ≠ p.1 := by
        intro he; apply h.1; rw [he]; exact List.mem_map_of_mem hp'
      simp only [hne, if_false]
      exact ih h.2 hp'

theorem cnt_pos_mem (m : List (α × Nat)) (y : α) (h : 0 < cnt m y) : (y, cnt m y) ∈ m := by
  induction m with
  | nil => simp [cnt] at h
  | cons q rest ih =>
    obtain ⟨k, n⟩ := q
    simp only [cnt] at h ⊢
    by_cases he : k = y
    · subst he; simp
    · simp only [he, if_false] at h ⊢
      exact List.mem_cons_of_mem _ (ih h)

/-- number of slices containing `x`. -/
def occ (ss : List (List α)) (x : α) : Nat := (ss.filter (fun s => decide (x ∈ s))).length

theorem count_flatten_distinct (ss : List (List α)) (x : α) :
    (ss.map distinct).flatten.count x = occ ss x := by
  induction ss with
  | nil => simp [occ]
  | cons s rest ih =>
    simp only [List.map_cons, List.flatten_cons, List.count_append, ih, occ, List.filter_cons]
    by_cases h : x ∈ s
    · have h1 : (distinct s).count x = 1 := by
        rw [(distinct_nodup s).count]; simp [mem_distinct, h]
      simp [h, h1]; omega
    · have h1 : (distinct s).count x = 0 := by
        rw [List.count_eq_zero]; rw [mem_distinct]; exact h
      simp [h, h1]

theorem occ_le (ss : List (List α)) (x : α) : occ ss x ≤ ss.length := by
  unfold occ; exact List.length_filter_le _ _

theorem occ_eq_length (ss : List (List α)) (x : α) : occ ss x = ss.length ↔ ∀ s ∈ ss, x ∈ s := by
  induction ss with
  | nil => simp [occ]
  | cons s rest ih =>
    simp only [occ, List.filter_cons, List.length_cons, List.mem_cons, forall_eq_or_imp] at ih ⊢
    by_cases h : x ∈ s
    · simp [h]; try exact ih
    · simp [h]
      have := List.length_filter_le (fun s => decide (x ∈ s)) rest
      omega

theorem intersection_nodup (ss : List (List α)) : (intersection ss).Nodup := by
  unfold intersection
  have hk : keysNodup ((ss.map distinct).flatten.foldl bump []) :=
    foldl_bump_nodup _ [] (by simp [keysNodup])
  unfold keysNodup at hk
  simp only
  generalize ((ss.map distinct).flatten.foldl bump []) = m at hk
  induction m with
  | nil => simp
  | cons p rest ih =>
    simp only [List.map_cons, List.nodup_cons] at hk
    simp only [List.filter_cons]
    split
    · simp only [List.map_cons, List.nodup_cons]
      refine ⟨?_, ih hk.2⟩
      intro hmem
      apply hk.1
      simp only [List.mem_map, List.mem_filter] at hmem ⊢
      obtain ⟨q, ⟨hq, _⟩, hq2⟩ := hmem
      exact ⟨q, hq, hq2⟩
    · exact ih hk.2

theorem mem_intersection (ss : List (List α)) (x : α) :
    x ∈ intersection ss ↔ ss ≠ [] ∧ ∀ s ∈ ss, x ∈ s := by
  unfold intersection
  have hk : keysNodup ((ss.map distinct).flatten.foldl bump []) :=
    foldl_bump_nodup _ [] (by simp [keysNodup])
  have hpos := foldl_bump_pos (ss.map distinct).flatten ([] : List (α × Nat)) (by simp)
  have hc := cnt_foldl_bump (ss.map distinct).flatten ([] : List (α × Nat)) x
  rw [count_flatten_distinct] at hc
  simp only [cnt, Nat.zero_add] at hc
  generalize ((ss.map distinct).flatten.foldl bump []) = m at hk hpos hc
  simp only [List.mem_map, List.mem_filter, beq_iff_eq]
  constructor
  · rintro ⟨p, ⟨hp, hlen⟩, rfl⟩
    have h1 := mem_of_keysNodup_cnt m hk p hp
    have h2 := hpos p hp
    have hc' : cnt m p.1 = occ ss p.1 := hc
    refine ⟨?_, (occ_eq_length ss p.1).1 (by omega)⟩
    intro he; subst he; simp at hlen; omega
  · rintro ⟨hne, hall⟩
    have h1 := (occ_eq_length ss x).2 hall
    have hc' : cnt m x = occ ss x := hc
    have hlen : 0 < ss.length := List.length_pos_iff.mpr hne
    have := cnt_pos_mem m x (by omega)
    exact ⟨(x, cnt m x), ⟨this, by simp; omega⟩, rfl⟩

/-! ### disjoin -/

/-- the loop invariant of `Disjoin`: `result` = seen in exactly one slice,
    `removed` = seen in at least two. -/
def DisjInv (seen : List (List α)) (st : List α × List α) : Prop :=
  st.1.Nodup ∧ (∀ x, x ∈ st.1 ↔ occ seen x = 1) ∧ (∀ x, x ∈ st.2 ↔ 2 ≤ occ seen x)

theorem occ_append_single (seen : List (List α)) (s : List α) (x : α) :
    occ (seen ++ [s]) x = occ seen x + (if x ∈ s then 1 else 0) := by
  simp only [occ, List.filter_append, List.length_append, List.filter_cons, List.filter_nil]
  by_cases h : x ∈ s <;> simp [h]

theorem disjoinStep_inv (seen : List (List α)) (st : List α × List α) (s : List α)
    (h : DisjInv seen st) : DisjInv (seen ++ [s]) (disjoinStep st s) := by
  obtain ⟨result, removed⟩ := st
  obtain ⟨_, hres, hrem⟩ := h
  simp only at hres hrem
  refine ⟨?_, ?_, ?_⟩
  · simp only [disjoinStep]; exact difference_nodup _ _
  · intro x
    have h1 := hres x; have h2 := hrem x
    simp only [disjoinStep, mem_difference, mem_union, List.mem_append, mem_distinct,
      List.mem_cons, List.not_mem_nil, or_false, exists_eq_or_imp, exists_eq_left]
    rw [occ_append_single]
    by_cases hs : x ∈ s <;> by_cases hr : x ∈ result <;> by_cases hm : x ∈ removed <;>
      simp only [hs, hr, hm, true_iff, false_iff] at h1 h2 <;> simp [hs, hr, hm] <;> omega
  · intro x
    have h1 := hres x; have h2 := hrem x
    simp only [disjoinStep, mem_difference, mem_union, List.mem_append, mem_distinct,
      List.mem_cons, List.not_mem_nil, or_false, exists_eq_or_imp, exists_eq_left]
    rw [occ_append_single]
    by_cases hs : x ∈ s <;> by_cases hr : x ∈ result <;> by_cases hm : x ∈ removed <;>
      simp only [hs, hr, hm, true_iff, false_iff] at h1 h2 <;> simp [hs, hr, hm] <;> omega

theorem foldl_disjoinStep_inv (rest seen : List (List α)) (st : List α × List α)
    (h : DisjInv seen st) : DisjInv (seen ++ rest) (rest.foldl disjoinStep st) := by
  induction rest generalizing seen st with
  | nil => simpa
  | cons s rest ih =>
    have := ih (seen ++ [s]) (disjoinStep st s) (disjoinStep_inv seen st s h)
    simpa using this

theorem disjoin_inv (ss : List (List α)) :
    (disjoin ss).Nodup ∧ ∀ x, x ∈ disjoin ss ↔ occ ss x = 1 := by
  cases ss with
  | nil => simp [disjoin, occ]
  | cons s0 rest =>
    have h0 : DisjInv [s0] (distinct s0, []) := by
      refine ⟨distinct_nodup s0, ?_, ?_⟩
      · intro x; simp only [mem_distinct, occ, List.filter_cons, List.filter_nil]
        by_cases h : x ∈ s0 <;> simp [h]
      · intro x; simp only [occ, List.filter_cons, List.filter_nil]
        by_cases h : x ∈ s0 <;> simp [h]
    have := foldl_disjoinStep_inv rest [s0] _ h0
    simp only [List.singleton_append] at this
    exact ⟨this.1, this.2.1⟩

end TV.SliceOps

namespace TV.SliceOps
variable {α : Type} [DecidableEq α] [Inhabited α]

/-! ### in-place functions -/

theorem remove_spec (s : Slice α) (i j : Nat) (hij : i ≤ j) (hj : j ≤ s.len) (hwf : s.wf) :
    ∃ s', remove s i j = some s' ∧
      s'.visible = s.visible.take i ++ s.visible.drop j ∧
      s'.arr = (s.visible.take i ++ s.visible.drop j) ++ List.replicate (j - i) default
                 ++ s.arr.drop s.len ∧
      s'.len = s.len - (j - i) := by
  unfold Slice.wf at hwf
  obtain ⟨arr, n⟩ := s
  simp only at hij hj hwf
  have hvis : (List.take n arr).take i ++ (List.take n arr).drop j
      = arr.take i ++ (arr.drop j).take (n - j) := by
    rw [List.take_take, List.drop_take, Nat.min_eq_left (by omega)]
  have hP : (arr.take i ++ (arr.drop j).take (n - j)).length = n - j + i := by
    simp only [List.length_append, List.length_take, List.length_drop]; omega
  have ha2 : zeroRange (copyWithin arr i j n) (n - j + i) n
      = (arr.take i ++ (arr.drop j).take (n - j)) ++ List.replicate (j - i) default ++ arr.drop n := by
    simp only [copyWithin, zeroRange]
    rw [List.take_left' hP]
    have hdrop : ∀ (X : List α), X.drop n = (X.drop (n - j + i)).drop (j - i) := by
      intro X; rw [List.drop_drop]; congr 1; omega
    rw [hdrop, List.drop_left' hP, List.drop_drop]
    have h2 : i + (n - j) + (j - i) = n := by omega
    have h3 : n - (n - j + i) = j - i := by omega
    rw [h2, h3]
  refine ⟨⟨zeroRange (copyWithin arr i j n) (n - j + i) n, n - j + i⟩, ?_, ?_, ?_, ?_⟩
  · simp only [remove]; rw [if_pos ⟨hij, hj, hwf⟩]
  · simp only [Slice.visible]; rw [hvis, ha2, List.append_assoc, List.take_left' hP]
  · simp only [Slice.visible]; rw [hvis, ha2]
  · simp only; omega

theorem filterLoop_spec (keep : α → Bool) (v : List α) :
    ∀ (fuel : Nat) (a : List α) (idx i : Nat), a.length = v.length → i ≤ idx → idx ≤ v.length →
      a.take i = (v.take idx).filter keep → a.drop idx = v.drop idx → fuel = v.length - idx →
      (filterLoop keep fuel a idx i).1.length = v.length ∧
      (filterLoop keep fuel a idx i).1.take (filterLoop keep fuel a idx i).2 = v.filter keep ∧
      (filterLoop keep fuel a idx i).2 ≤ v.length := by
  intro fuel
  induction fuel with
  | zero =>
    intro a idx i hlen hi hidx hpre hsuf hfuel
    have : idx = v.length := by omega
    subst this
    simp only [filterLoop]
    rw [List.take_length] at hpre
    exact ⟨hlen, hpre, by omega⟩
  | succ fuel ih =>
    intro a idx i hlen hi hidx hpre hsuf hfuel
    have hlt : idx < v.length := by omega
    have hlta : idx < a.length := by omega
    have he : a[idx] = v[idx] := by
      have h1 : (a.drop idx)[0]? = (v.drop idx)[0]? := by rw [hsuf]
      simpa [List.getElem?_drop, hlt, hlta] using h1
    have htk : v.take (idx + 1) = v.take idx ++ [v[idx]] := by
      rw [List.take_succ_eq_append_getElem hlt]
    have hsuf' : ∀ b : List α, b.length = a.length → b.drop (idx + 1) = a.drop (idx + 1) →
        b.drop (idx + 1) = v.drop (idx + 1) := by
      intro b _ hb
      rw [hb]
      have : a.drop (idx + 1) = (a.drop idx).drop 1 := by rw [List.drop_drop]
      rw [this, hsuf, List.drop_drop]
    simp only [filterLoop, List.getElem?_eq_getElem hlta]
    split
    · rename_i hk
      apply ih (a.set i a[idx]) (idx + 1) (i + 1) (by simp [hlen]) (by omega) (by omega)
      · rw [htk, List.filter_append, ← hpre]
        have hia : i < a.length := by omega
        rw [List.take_succ_eq_append_getElem (by simp; omega)]
        simp only [List.take_set_of_le (Nat.le_refl i), List.getElem_set_self]
        rw [he] at hk ⊢
        simp [List.filter, hk]
      · apply hsuf' _ (by simp)
        rw [List.drop_set_of_lt (by omega)]
      · omega
    · rename_i hk
      apply ih a (idx + 1) i hlen (by omega) (by omega)
      · rw [htk, List.filter_append, ← hpre]
        rw [he] at hk
        simp [List.filter, hk]
      · exact hsuf' a rfl rfl
      · omega

theorem filterInPlace_spec (s : Slice α) (keep : α → Bool) (hwf : s.wf) :
    (filterInPlace s keep).visible = s.visible.filter keep ∧
    (filterInPlace s keep).arr = s.visible.filter keep
        ++ List.replicate (s.visible.length - (s.visible.filter keep).length) default
        ++ s.arr.drop s.len ∧
    (filterInPlace s keep).len = (s.visible.filter keep).length := by
  have h := filterLoop_spec keep s.visible s.visible.length s.visible 0 0 rfl (Nat.le_refl 0)
    (Nat.zero_le _) (by simp) (by simp) (by simp)
  obtain ⟨h1, h2, h3⟩ := h
  generalize hr : filterLoop keep s.visible.length s.visible 0 0 = r at h1 h2 h3
  obtain ⟨a, i⟩ := r
  simp only at h1 h2 h3
  have hi : i = (s.visible.filter keep).length := by
    rw [← h2]; simp; omega
  have harr : (filterInPlace s keep).arr = s.visible.filter keep
        ++ List.replicate (s.visible.length - (s.visible.filter keep).length) default
        ++ s.arr.drop s.len := by
    simp only [filterInPlace, hr, zeroRange]
    rw [h2, ← h1, List.drop_length, List.append_nil, h1, hi]
  refine ⟨?_, harr, ?_⟩
  · simp only [Slice.visible] at harr ⊢
    rw [harr]
    have : (filterInPlace s keep).len = (List.filter keep (List.take s.len s.arr)).length := by
      simp only [filterInPlace, hr]; exact hi
    rw [this, List.append_assoc, List.take_left' rfl]
  · simp only [filterInPlace, hr]; exact hi

theorem insert_spec (s : List α) (i : Nat) (v : List α) (h : i ≤ s.length) :
    insert s i v = some (s.take i ++ v ++ s.drop i) := by
  simp [insert, h]

theorem pop_spec_nonempty (s : Slice α) (h : 0 < s.len) (hwf : s.wf) :
    ∃ s', pop s = (s.visible.headD default, some s') ∧ s'.visible = s.visible.tail ∧
      s'.arr = s.visible.tail ++ [default] ++ s.arr.drop s.len := by
  obtain ⟨s', h1, h2, h3, _⟩ := remove_spec s 0 1 (by omega) (by omega) hwf
  refine ⟨s', ?_, ?_, ?_⟩
  · simp only [pop]; rw [if_neg (by omega), h1]
  · rw [h2]; simp
  · rw [h3]; simp

theorem pop_spec_empty (s : Slice α) (h : s.len = 0) : pop s = (default, some s) := by
  simp [pop, h]

end TV.SliceOps
