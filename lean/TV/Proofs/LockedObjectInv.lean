import TV.Model.LockedObject
/-!
# Lock-protected objects: the generic invariant behind C07 (core-only)

`Inv c` is the order/position part (no `Sound` needed); `SInv apply s0 c` is the legality part
(needs `Sound`).  Both are preserved by every `CStep`, hence hold on `CReach`.
-/
namespace TV.LockedObject
variable {σ Op Ret Loc : Type}

theorem lt_of_getElem?_some {α : Type} {l : List α} {p : Nat} {x : α} (h : l[p]? = some x) :
    p < l.length := (List.getElem?_eq_some_iff.mp h).1

theorem getElem?_append_of_some {α : Type} {l : List α} {p : Nat} {x : α} (r : List α)
    (h : l[p]? = some x) : (l ++ r)[p]? = some x := by
  rw [List.getElem?_append_left (lt_of_getElem?_some h)]; exact h

theorem mem_of_getElem?_some {α : Type} {l : List α} {p : Nat} {x : α} (h : l[p]? = some x) :
    x ∈ l := List.mem_of_getElem? h

/-- The order/position invariant of the concurrent system (independent of `Sound`). -/
structure Inv (c : CSt σ Op Ret Loc) : Prop where
  lin_call : ∀ e ∈ c.lin, c.hist[e.cpos]? = some (.call e.t e.op) ∧ e.cpos < e.ltime ∧
    e.ltime ≤ c.hist.length
  lin_sorted : c.lin.Pairwise (fun a b => a.ltime ≤ b.ltime)
  lin_nodup : (c.lin.map (·.cpos)).Nodup
  run_call : ∀ t op pc loc cpos, c.thr t = .running op pc loc cpos →
    c.hist[cpos]? = some (.call t op) ∧ ∀ e ∈ c.lin, e.cpos ≠ cpos
  fin_own : ∀ t op r li, c.thr t = .finished op r li →
    (∃ e, c.lin[li]? = some e ∧ e.t = t ∧ e.r = r) ∧ ∀ q ∈ c.retOf, q.2 ≠ li
  ret_cov : ∀ p t r, c.hist[p]? = some (.ret t r) → ∃ i, (p, i) ∈ c.retOf
  retOf_ok : ∀ q ∈ c.retOf, ∃ e, c.lin[q.2]? = some e ∧ c.hist[q.1]? = some (.ret e.t e.r) ∧
    e.ltime ≤ q.1
  retOf_nodup : (c.retOf.map (·.2)).Nodup

theorem inv_init (s0 : σ) : Inv (cinit s0 : CSt σ Op Ret Loc) := by
  constructor <;> simp [cinit]

theorem inv_step {I : Impl σ Op Ret Loc} {c c' : CSt σ Op Ret Loc} {a : CAct Op}
    (h : Inv c) (hs : CStep I c a c') : Inv c' := by
  cases hs with
  | call t op hidle =>
    constructor
    · intro e he
      obtain ⟨h1, h2, h3⟩ := h.lin_call e he
      refine ⟨getElem?_append_of_some _ h1, h2, ?_⟩
      simp only [List.length_append, List.length_singleton]; omega
    · exact h.lin_sorted
    · exact h.lin_nodup
    · intro u op' pc loc cpos hu
      by_cases hut : u = t
      · subst hut
        simp only [upd, if_true] at hu
        injection hu with e1 e2 e3 e4
        subst e1 e4
        refine ⟨by simp, ?_⟩
        intro e he
        obtain ⟨_, h2, h3⟩ := h.lin_call e he
        omega
      · simp only [upd, if_neg hut] at hu
        obtain ⟨h1, h2⟩ := h.run_call u op' pc loc cpos hu
        exact ⟨getElem?_append_of_some _ h1, h2⟩
    · intro u op' r li hu
      by_cases hut : u = t
      · subst hut; simp [upd] at hu
      · simp only [upd, if_neg hut] at hu
        exact h.fin_own u op' r li hu
    · intro p u r hp
      have hp' : p < c.hist.length := by
        have := lt_of_getElem?_some hp
        simp only [List.length_append, List.length_singleton] at this
        rcases Nat.lt_or_ge p c.hist.length with hlt | hge
        · exact hlt
        · have : p = c.hist.length := by omega
          subst this
          simp at hp
      rw [List.getElem?_append_left hp'] at hp
      exact h.ret_cov p u r hp
    · intro q hq
      obtain ⟨e, h1, h2, h3⟩ := h.retOf_ok q hq
      exact ⟨e, h1, getElem?_append_of_some _ h2, h3⟩
    · exact h.retOf_nodup
  | secNext t op pc loc cpos s' pc' loc' hrun hsect =>
    constructor
    · exact h.lin_call
    · exact h.lin_sorted
    · exact h.lin_nodup
    · intro u op' pc'' loc'' cpos' hu
      by_cases hut : u = t
      · subst hut
        simp only [upd, if_true] at hu
        injection hu with e1 e2 e3 e4
        subst e1 e4
        exact h.run_call u op pc loc cpos hrun
      · simp only [upd, if_neg hut] at hu
        exact h.run_call u op' pc'' loc'' cpos' hu
    · intro u op' r li hu
      by_cases hut : u = t
      · subst hut; simp [upd] at hu
      · simp only [upd, if_neg hut] at hu
        exact h.fin_own u op' r li hu
    · exact h.ret_cov
    · exact h.retOf_ok
    · exact h.retOf_nodup
  | secDone t op pc loc cpos s' r hrun hsect =>
    obtain ⟨hc1, hc2⟩ := h.run_call t op pc loc cpos hrun
    have hcl : cpos < c.hist.length := lt_of_getElem?_some hc1
    constructor
    · intro e he
      rcases List.mem_append.mp he with he | he
      · exact h.lin_call e he
      · rw [List.mem_singleton] at he; subst he
        exact ⟨hc1, hcl, Nat.le_refl _⟩
    · refine List.pairwise_append.mpr ⟨h.lin_sorted, List.pairwise_singleton _ _, ?_⟩
      intro a ha b hb
      rw [List.mem_singleton] at hb; subst hb
      exact (h.lin_call a ha).2.2
    · show ((c.lin ++ [_]).map LinEntry.cpos).Nodup
      rw [List.map_append, List.nodup_append]
      refine ⟨h.lin_nodup, by simp, ?_⟩
      intro x hx y hy
      rw [List.mem_map] at hx
      obtain ⟨e, he, rfl⟩ := hx
      simp only [List.map_cons, List.map_nil, List.mem_singleton] at hy
      subst hy
      exact hc2 e he
    · intro u op' pc'' loc'' cpos' hu
      by_cases hut : u = t
      · subst hut; simp [upd] at hu
      · simp only [upd, if_neg hut] at hu
        obtain ⟨h1, h2⟩ := h.run_call u op' pc'' loc'' cpos' hu
        refine ⟨h1, ?_⟩
        intro e he
        rcases List.mem_append.mp he with he | he
        · exact h2 e he
        · rw [List.mem_singleton] at he; subst he
          intro heq
          simp only at heq
          subst heq
          rw [hc1] at h1
          injection h1 with h1
          injection h1 with h1
          exact hut h1.symm
    · intro u op' r' li hu
      by_cases hut : u = t
      · subst hut
        simp only [upd, if_true] at hu
        injection hu with e1 e2 e3
        subst e1 e2 e3
        refine ⟨⟨_, List.getElem?_concat_length, rfl, rfl⟩, ?_⟩
        intro q hq
        obtain ⟨e, h1, _, _⟩ := h.retOf_ok q hq
        exact Nat.ne_of_lt (lt_of_getElem?_some h1)
      · simp only [upd, if_neg hut] at hu
        obtain ⟨⟨e, h1, h2, h3⟩, h4⟩ := h.fin_own u op' r' li hu
        exact ⟨⟨e, getElem?_append_of_some _ h1, h2, h3⟩, h4⟩
    · exact h.ret_cov
    · intro q hq
      obtain ⟨e, h1, h2, h3⟩ := h.retOf_ok q hq
      exact ⟨e, getElem?_append_of_some _ h1, h2, h3⟩
    · exact h.retOf_nodup
  | ret t op r li hfin =>
    obtain ⟨⟨e0, hf1, hf2, hf3⟩, hf4⟩ := h.fin_own t op r li hfin
    constructor
    · intro e he
      obtain ⟨h1, h2, h3⟩ := h.lin_call e he
      refine ⟨getElem?_append_of_some _ h1, h2, ?_⟩
      simp only [List.length_append, List.length_singleton]; omega
    · exact h.lin_sorted
    · exact h.lin_nodup
    · intro u op' pc loc cpos hu
      by_cases hut : u = t
      · subst hut; simp [upd] at hu
      · simp only [upd, if_neg hut] at hu
        obtain ⟨h1, h2⟩ := h.run_call u op' pc loc cpos hu
        exact ⟨getElem?_append_of_some _ h1, h2⟩
    · intro u op' r' li' hu
      by_cases hut : u = t
      · subst hut; simp [upd] at hu
      · simp only [upd, if_neg hut] at hu
        obtain ⟨⟨e, h1, h2, h3⟩, h4⟩ := h.fin_own u op' r' li' hu
        refine ⟨⟨e, h1, h2, h3⟩, ?_⟩
        intro q hq
        rcases List.mem_append.mp hq with hq | hq
        · exact h4 q hq
        · rw [List.mem_singleton] at hq; subst hq
          intro heq
          simp only at heq
          subst heq
          rw [hf1] at h1
          injection h1 with h1
          subst h1
          exact hut (h2.symm.trans hf2)
    · intro p u r' hp
      rcases Nat.lt_or_ge p c.hist.length with hlt | hge
      · rw [List.getElem?_append_left hlt] at hp
        obtain ⟨i, hi⟩ := h.ret_cov p u r' hp
        exact ⟨i, List.mem_append_left _ hi⟩
      · have := lt_of_getElem?_some hp
        simp only [List.length_append, List.length_singleton] at this
        have : p = c.hist.length := by omega
        subst this
        exact ⟨li, List.mem_append_right _ (List.mem_singleton.mpr rfl)⟩
    · intro q hq
      rcases List.mem_append.mp hq with hq | hq
      · obtain ⟨e, h1, h2, h3⟩ := h.retOf_ok q hq
        exact ⟨e, h1, getElem?_append_of_some _ h2, h3⟩
      · rw [List.mem_singleton] at hq; subst hq
        refine ⟨e0, hf1, ?_, (h.lin_call e0 (mem_of_getElem?_some hf1)).2.2⟩
        subst hf2 hf3
        exact List.getElem?_concat_length
    · show ((c.retOf ++ [_]).map Prod.snd).Nodup
      rw [List.map_append, List.nodup_append]
      refine ⟨h.retOf_nodup, by simp, ?_⟩
      intro x hx y hy
      rw [List.mem_map] at hx
      obtain ⟨q, hq, rfl⟩ := hx
      simp only [List.map_cons, List.map_nil, List.mem_singleton] at hy
      subst hy
      exact hf4 q hq

theorem inv_reach {I : Impl σ Op Ret Loc} {s0 : σ} {c : CSt σ Op Ret Loc} (h : CReach I s0 c) :
    Inv c := by
  induction h with
  | init => exact inv_init s0
  | step a _ hs ih => exact inv_step ih hs

/-! ### the legality part -/

theorem seqFinal_append (apply : σ → Op → σ × Ret) (s : σ) (l : List (Op × Ret)) (op : Op) (r : Ret) :
    seqFinal apply s (l ++ [(op, r)]) = (apply (seqFinal apply s l) op).1 := by
  induction l generalizing s with
  | nil => rfl
  | cons x l ih => obtain ⟨o, r'⟩ := x; exact ih _

theorem seqOK_append [DecidableEq Ret] (apply : σ → Op → σ × Ret) (s : σ) (l : List (Op × Ret))
    (op : Op) (r : Ret) :
    seqOK apply s (l ++ [(op, r)]) =
      (seqOK apply s l && ((apply (seqFinal apply s l) op).2 == r)) := by
  induction l generalizing s with
  | nil => simp [seqOK, seqFinal]
  | cons x l ih =>
    obtain ⟨o, r'⟩ := x
    simp only [List.cons_append, seqOK, seqFinal, ih, Bool.and_assoc]

theorem sinv_reach [DecidableEq Ret] {I : Impl σ Op Ret Loc} {apply : σ → Op → σ × Ret} {s0 : σ}
    (hS : Sound I apply) {c : CSt σ Op Ret Loc} (h : CReach I s0 c) :
    seqFinal apply s0 (c.lin.map (fun e => (e.op, e.r))) = c.shared ∧
    seqOK apply s0 (c.lin.map (fun e => (e.op, e.r))) = true := by
  induction h with
  | init => exact ⟨rfl, rfl⟩
  | step a _ hs ih =>
    obtain ⟨ih1, ih2⟩ := ih
    cases hs with
    | call t op hidle => exact ⟨ih1, ih2⟩
    | secNext t op pc loc cpos s' pc' loc' hrun hsect =>
      have := hS.silent _ _ _ _ _ _ _ hsect
      subst this
      exact ⟨ih1, ih2⟩
    | secDone t op pc loc cpos s' r hrun hsect =>
      have := hS.complete _ _ _ _ _ _ hsect
      constructor
      · dsimp only
        rw [List.map_append, List.map_singleton, seqFinal_append, ih1, this]
      · dsimp only
        rw [List.map_append, List.map_singleton, seqOK_append, ih1, ih2, this]
        simp
    | ret t op r li hfin => exact ⟨ih1, ih2⟩

theorem linearizable_of_inv [DecidableEq Ret] {apply : σ → Op → σ × Ret} {s0 : σ}
    {c : CSt σ Op Ret Loc} (h : Inv c)
    (hok : seqOK apply s0 (c.lin.map (fun e => (e.op, e.r))) = true) :
    Linearizable apply s0 c.hist :=
  ⟨c.lin, c.retOf, hok, fun e he => ⟨(h.lin_call e he).1, (h.lin_call e he).2.1⟩, h.lin_sorted,
    h.lin_nodup, h.ret_cov, h.retOf_ok, h.retOf_nodup⟩

theorem real_time_of_inv {c : CSt σ Op Ret Loc} (h : Inv c) :
    ∀ q ∈ c.retOf, ∀ j e, c.lin[j]? = some e → q.1 < e.cpos → q.2 < j := by
  intro q hq j e hj hlt
  obtain ⟨e', h1, _, h3⟩ := h.retOf_ok q hq
  have hcl := (h.lin_call e (mem_of_getElem?_some hj)).2.1
  rcases Nat.lt_trichotomy j q.2 with hjq | hjq | hjq
  · exfalso
    have hj' := lt_of_getElem?_some hj
    have hq' := lt_of_getElem?_some h1
    have := (List.pairwise_iff_getElem.mp h.lin_sorted) j q.2 hj' hq' hjq
    rw [List.getElem?_eq_getElem hj'] at hj
    rw [List.getElem?_eq_getElem hq'] at h1
    injection hj with hj; injection h1 with h1
    rw [hj, h1] at this
    omega
  · exfalso
    subst hjq
    rw [hj] at h1
    injection h1 with h1
    subst h1
    omega
  · exact hjq

end TV.LockedObject
