import TV.Proofs.FifoCache
import TV.Proofs.FifoCacheSim
/-! Ghost invariant of the stamp-instrumented cache `GCache` (FIFO clauses of C03 / C13). -/
namespace TV.FifoCache
set_option linter.unusedSectionVars false

variable {K V : Type} [DecidableEq K] [Inhabited V]

/-- `o` is not a `Resize` (used by `C03_no_eviction_until_full`; the model file does not define it). -/
def noResize : Op K V → Bool
  | .resize _ _ _ => false
  | _ => true

/-! ### erasure: ghost fields never influence the real cache -/

theorem gset_c (g : GCache K V) (k : K) (v : V) : (gset g k v).c = set g.c k v := by
  unfold gset; split <;> rfl

/-- induction principle for the ghost replay. -/
theorem greplay_induct (P : GCache K V → Prop) (old : Cache K V)
    (hset : ∀ g k, P g → P (gset g k (get old k))) (hsweep : ∀ g, P g → P (gsweep g)) :
    ∀ (order : List (List K)) (g : GCache K V), P g →
      P (order.foldl (fun g' ks => gsweep (ks.foldl (fun g'' k => gset g'' k (get old k)) g')) g) := by
  have inner : ∀ (ks : List K) (g : GCache K V), P g →
      P (ks.foldl (fun g'' k => gset g'' k (get old k)) g) := by
    intro ks
    induction ks with
    | nil => exact fun g h => h
    | cons k r ih => exact fun g h => ih _ (hset g k h)
  intro order
  induction order with
  | nil => exact fun g h => h
  | cons ks r ih => exact fun g h => ih _ (hsweep _ (inner ks g h))

theorem greplay_c (old : Cache K V) (order : List (List K)) (g : GCache K V) :
    (order.foldl (fun g' ks => gsweep (ks.foldl (fun g'' k => gset g'' k (get old k)) g')) g).c =
      order.foldl (replayPart old) g.c := by
  induction order generalizing g with
  | nil => rfl
  | cons ks r ih =>
    simp only [List.foldl_cons]
    rw [ih]
    congr 1
    unfold replayPart gsweep
    simp only
    congr 1
    induction ks generalizing g with
    | nil => rfl
    | cons k r' ih' => simp only [List.foldl_cons]; rw [ih', gset_c]

theorem gresize_c (g : GCache K V) (n' pc' : Nat) (o : List (List K)) :
    (gresize g n' pc' o).c = resize g.c n' pc' o := by
  unfold gresize resize
  split
  · rw [greplay_c]
  · rfl

theorem gstep_c (g : GCache K V) (o : Op K V) : (gstep g o).c = (step g.c o).1 := by
  cases o with
  | set k v => exact gset_c g k v
  | resize n' pc' ord => exact gresize_c g n' pc' ord
  | _ => rfl

/-! ### stamps are older than the clock (needs no well-formedness) -/

def ClockInv (g : GCache K V) : Prop := ∀ k t p, alGet? g.stamps k = some (t, p) → t < g.clock

theorem clockInv_gset {g : GCache K V} (h : ClockInv g) (k : K) (v : V) : ClockInv (gset g k v) := by
  unfold gset
  split
  · exact h
  · intro k2 t p hs
    simp only at hs ⊢
    by_cases hkk : k2 = k
    · subst hkk
      rw [alGet?_alSet_self] at hs
      simp only [Option.some.injEq, Prod.mk.injEq] at hs
      omega
    · rw [alGet?_alSet_ne _ _ _ _ hkk] at hs
      have := h k2 t p hs
      omega

theorem clockInv_gresize {g : GCache K V} (h : ClockInv g) (n' pc' : Nat) (o : List (List K)) :
    ClockInv (gresize g n' pc' o) := by
  unfold gresize
  split
  · apply greplay_induct ClockInv g.c (fun g k hg => clockInv_gset hg k _) (fun g hg => hg)
    intro k t p hs
    simp [alGet?] at hs
  · exact h

/-! ### the ghost invariant -/

/-- Ghost invariant: the real cache is well-formed; every stamp is older than the clock; stamps
    are monotone (a later insertion went into the same or a newer partition); a stamped key's
    recorded partition id is positive, was issued, and is what the index says (hence, by `WF`'s
    I2, the key lies in that partition as long as the partition is live, and by I1 it lies nowhere
    else); stamp keys are distinct; at least `Fill`-many insertions were counted. -/
structure GInv (g : GCache K V) : Prop where
  wf : WF g.c
  hclock : ClockInv g
  hmono : ∀ j k tj pj tk pk, alGet? g.stamps j = some (tj, pj) → alGet? g.stamps k = some (tk, pk) →
    tj < tk → pj ≤ pk
  hle : ∀ k t p, alGet? g.stamps k = some (t, p) → 0 < p ∧ p ≤ g.c.nextId
  hloc : ∀ k t p, alGet? g.stamps k = some (t, p) → alGet? g.c.index k = some p
  hsnd : (alKeys g.stamps).Nodup
  hfill : Fill g.c g.ins

theorem ginv_ginit (n pc : Nat) (hn : 1 ≤ n) (hpc : 1 ≤ pc) : GInv (ginit n pc : GCache K V) := by
  constructor
  · exact wf_init n pc hn hpc
  all_goals simp [ginit, ClockInv, alGet?, fill_init]

theorem ginv_fresh (n pc clock : Nat) (hn : 1 ≤ n) (hpc : 1 ≤ pc) :
    GInv ({ c := fresh n pc, stamps := [], clock := clock, ins := 0 } : GCache K V) := by
  constructor
  · exact wf_fresh n pc hn hpc
  all_goals simp [ClockInv, alGet?, fill_fresh]

theorem ginv_gsweep {g : GCache K V} (h : GInv g) : GInv (gsweep g) :=
  ⟨wf_sweep h.wf, h.hclock, h.hmono, h.hle, h.hloc, h.hsnd, fill_sweep h.hfill⟩

theorem nextId_set_live {c : Cache K V} {k : K} {p : Part K V} (hl : livePart c k = some p) (v : V) :
    (set c k v).nextId = c.nextId ∧ (set c k v).index = c.index := by
  rw [set_of_live hl]; exact ⟨rfl, rfl⟩

theorem set_absent_facts {c : Cache K V} (h : WF c) {k : K} (hl : livePart c k = none) (v : V) :
    (set c k v).index = alSet c.index k (set c k v).nextId ∧ c.nextId ≤ (set c k v).nextId ∧
      0 < (set c k v).nextId := by
  have hw := wf_curPart h
  obtain ⟨q, hq, hqid, _⟩ := room_curPart h
  have hb := hw.id_bounds hq
  rw [hqid, hw.hcur] at hb
  rw [set_of_absent hl]
  simp only [insertCur]
  rcases curPart_cases h with ⟨e, _⟩ | ⟨e, _⟩ <;> rw [e] at hw hb ⊢
  · exact ⟨by rw [hw.hcur], Nat.le_refl _, hb.1⟩
  · exact ⟨rfl, by simp [openPart], by simp [openPart]⟩

theorem ginv_gset {g : GCache K V} (h : GInv g) (k : K) (v : V) : GInv (gset g k v) := by
  unfold gset
  split
  · next hc =>
    obtain ⟨p, hp, hk⟩ := (h.wf.contains_iff k).1 hc
    have hl := h.wf.livePart_iff.2 ⟨hp, hk⟩
    have hf := nextId_set_live hl v
    exact ⟨wf_set h.wf k v, h.hclock, h.hmono, fun k t p hs => hf.1 ▸ h.hle k t p hs,
      fun k t p hs => hf.2 ▸ h.hloc k t p hs, h.hsnd, fill_set_live h.wf h.hfill hl v⟩
  · next hc =>
    have hl := h.wf.livePart_none_of_not_contains (by simpa using hc)
    obtain ⟨hidx, hN, hpos⟩ := set_absent_facts h.wf hl v
    have hst : (alGet? (set g.c k v).index k).getD 0 = (set g.c k v).nextId := by
      rw [hidx, alGet?_alSet_self]; rfl
    simp only [hst]
    constructor
    · exact wf_set h.wf k v
    · have := clockInv_gset h.hclock k v
      unfold gset at this
      rw [if_neg hc] at this
      simpa only [hst] using this
    · intro j k2 tj pj tk pk hj hk2 hlt
      simp only at hj hk2
      by_cases hjk : j = k
      · subst hjk
        rw [alGet?_alSet_self] at hj
        simp only [Option.some.injEq, Prod.mk.injEq] at hj
        by_cases hkk : k2 = j
        · subst hkk
          rw [alGet?_alSet_self] at hk2
          simp only [Option.some.injEq, Prod.mk.injEq] at hk2
          omega
        · rw [alGet?_alSet_ne _ _ _ _ hkk] at hk2
          have := h.hclock k2 tk pk hk2
          omega
      · rw [alGet?_alSet_ne _ _ _ _ hjk] at hj
        by_cases hkk : k2 = k
        · subst hkk
          rw [alGet?_alSet_self] at hk2
          simp only [Option.some.injEq, Prod.mk.injEq] at hk2
          have := (h.hle j tj pj hj).2
          omega
        · rw [alGet?_alSet_ne _ _ _ _ hkk] at hk2
          exact h.hmono j k2 tj pj tk pk hj hk2 hlt
    · intro k2 t p hs
      simp only at hs ⊢
      by_cases hkk : k2 = k
      · subst hkk
        rw [alGet?_alSet_self] at hs
        simp only [Option.some.injEq, Prod.mk.injEq] at hs
        omega
      · rw [alGet?_alSet_ne _ _ _ _ hkk] at hs
        have := h.hle k2 t p hs
        omega
    · intro k2 t p hs
      simp only at hs ⊢
      rw [hidx]
      by_cases hkk : k2 = k
      · subst hkk
        rw [alGet?_alSet_self] at hs ⊢
        simp only [Option.some.injEq, Prod.mk.injEq] at hs
        rw [hs.2]
      · rw [alGet?_alSet_ne _ _ _ _ hkk] at hs ⊢
        exact h.hloc k2 t p hs
    · exact nodup_alKeys_alSet _ _ h.hsnd
    · exact fill_set_absent h.wf h.hfill hl v

theorem delete_facts (c : Cache K V) (k : K) :
    (delete c k).nextId = c.nextId ∧ ∀ j, j ≠ k → alGet? (delete c k).index j = alGet? c.index j := by
  unfold delete
  split
  · split
    · exact ⟨rfl, fun j hj => alGet?_alErase_ne _ _ _ hj⟩
    · exact ⟨rfl, fun _ _ => rfl⟩
  · exact ⟨rfl, fun _ _ => rfl⟩

theorem ginv_delete {g : GCache K V} (h : GInv g) (k : K) :
    GInv { g with c := delete g.c k, stamps := alErase g.stamps k } := by
  have hk : alGet? (alErase g.stamps k) k = none := alGet?_alErase_self k h.hsnd
  have hold : ∀ j x, alGet? (alErase g.stamps k) j = some x → j ≠ k ∧ alGet? g.stamps j = some x := by
    intro j x hj
    have hjk : j ≠ k := by rintro rfl; rw [hk] at hj; simp at hj
    exact ⟨hjk, by rwa [alGet?_alErase_ne _ _ _ hjk] at hj⟩
  obtain ⟨hN, hidx⟩ := delete_facts g.c k
  constructor
  · exact wf_delete h.wf k
  · exact fun j t p hs => h.hclock j t p (hold _ _ hs).2
  · exact fun j k2 tj pj tk pk hj hk2 => h.hmono j k2 tj pj tk pk (hold _ _ hj).2 (hold _ _ hk2).2
  · exact fun j t p hs => hN ▸ h.hle j t p (hold _ _ hs).2
  · intro j t p hs
    obtain ⟨hjk, hs'⟩ := hold _ _ hs
    show alGet? (delete g.c k).index j = some p
    rw [hidx j hjk]; exact h.hloc j t p hs'
  · exact nodup_alKeys_alErase k h.hsnd
  · exact fill_delete h.wf h.hfill k

theorem ginv_gresize {g : GCache K V} (h : GInv g) (n' pc' : Nat) (hn : 1 ≤ n') (hpc : 1 ≤ pc')
    (o : List (List K)) : GInv (gresize g n' pc' o) := by
  unfold gresize
  split
  · exact greplay_induct GInv g.c (fun g k hg => ginv_gset hg k _) (fun g hg => ginv_gsweep hg) o _
      (ginv_fresh n' pc' g.clock hn hpc)
  · exact h

theorem ginv_gstep {g : GCache K V} (h : GInv g) (o : Op K V) (hok : opOK g.c o) : GInv (gstep g o) := by
  cases o with
  | set k v => exact ginv_gset h k v
  | delete k => exact ginv_delete h k
  | sweep => exact ginv_gsweep h
  | clear =>
    have := ginv_fresh (K := K) (V := V) g.c.n g.c.pc g.clock h.wf.hn h.wf.hpc
    exact this
  | resize n' pc' ord => exact ginv_gresize h n' pc' hok.1 hok.2.1 ord
  | _ => exact h

theorem ginv_grun {g : GCache K V} (h : GInv g) (ops : List (Op K V)) (hok : OpsOK g.c ops) :
    GInv (grun g ops) := by
  induction ops generalizing g with
  | nil => exact h
  | cons o r ih =>
    have h2 := hok.2
    rw [← gstep_c] at h2
    exact ih (ginv_gstep h o hok.1) h2

/-- FIFO: of two stamped keys, the one stamped later is present whenever the earlier one is. -/
theorem GInv.fifo {g : GCache K V} (h : GInv g) {a b : K} {ta pa tb pb : Nat}
    (ha : alGet? g.stamps a = some (ta, pa)) (hb : alGet? g.stamps b = some (tb, pb)) (hlt : ta < tb)
    (hc : contains g.c a = true) : contains g.c b = true := by
  obtain ⟨q, hq, hqa⟩ := (h.wf.contains_iff a).1 hc
  have h1 := h.wf.hI1 q hq a hqa
  rw [h.hloc a ta pa ha] at h1
  have hqid : q.id = pa := by simpa using h1.symm
  have hlive := (h.wf.live_iff pa).1 ⟨q, hq, hqid⟩
  have hle := h.hmono a b ta pa tb pb ha hb hlt
  have hb2 := (h.hle b tb pb hb).2
  obtain ⟨q', hq', hq'id⟩ := (h.wf.live_iff pb).2 ⟨by omega, hb2⟩
  have := h.wf.hI2 q' hq' b (by rw [hq'id]; exact h.hloc b tb pb hb)
  exact (h.wf.contains_iff b).2 ⟨q', hq', this⟩

theorem overflow_one {c : Cache K V} (h : WF c) (hs : c.parts.length ≤ c.n) (k : K) (v : V) :
    (sweep (set c k v)).parts = (set c k v).parts ∨
    ∃ p, (set c k v).parts = p :: (sweep (set c k v)).parts ∧ p.kv.length ≤ c.pc := by
  have hw := wf_set h k v
  have hL := length_set_le c k v
  have hn := (n_set c k v).1
  have hpc := (n_set c k v).2
  by_cases hle : (set c k v).parts.length ≤ (set c k v).n
  · left; rw [sweep_eq_self hle]
  · right
    have h1 : (set c k v).parts.length - (set c k v).n = 1 := by omega
    cases hp : (set c k v).parts with
    | nil => rw [hp] at hle; simp at hle
    | cons p tl =>
      refine ⟨p, ?_, ?_⟩
      · rw [hp] at h1
        simp only [sweep, hp]
        rw [h1]; rfl
      · rw [← hpc]; exact hw.hcap p (by rw [hp]; simp)

end TV.FifoCache
