import TV.Model.ValidationError
/-! Helper lemmas for the ValidationError model (C20). -/
namespace TV.VE
open List

/-! ### pairs -/

@[simp] theorem pairs_nil : pairs [] = [] := rfl

theorem pairs_cons (k : String) (v : List String) (r : SMap) :
    pairs ((k, v) :: r) = v.map (fun x => (k, x)) ++ pairs r := by
  simp [pairs]

theorem pairs_append (a b : SMap) : pairs (a ++ b) = pairs a ++ pairs b := by
  simp [pairs]

theorem prefixKeys_empty (m : SMap) : prefixKeys m "" = m := by
  induction m with
  | nil => rfl
  | cons p r ih =>
    simp only [prefixKeys, List.map_cons] at ih ⊢
    rw [ih]; simp

/-! ### addMsgs / mergeInto -/

theorem pairs_addMsgs (m : SMap) (k : String) (ms : List String) :
    (pairs (addMsgs m k ms)).Perm (pairs m ++ ms.map (fun x => (k, x))) := by
  induction m with
  | nil => simp [addMsgs, pairs_cons]
  | cons p r ih =>
    obtain ⟨k', v⟩ := p
    simp only [addMsgs]
    split
    · rename_i h
      subst h
      simp only [pairs_cons, List.map_append, List.append_assoc]
      exact (perm_append_comm).append_left _
    · simp only [pairs_cons, List.append_assoc]
      exact ih.append_left _

theorem pairs_mergeInto (dst src : SMap) :
    (pairs (mergeInto dst src)).Perm (pairs dst ++ pairs src) := by
  unfold mergeInto
  induction src generalizing dst with
  | nil => simp
  | cons p r ih =>
    obtain ⟨k, v⟩ := p
    simp only [List.foldl_cons]
    refine (ih _).trans ?_
    rw [pairs_cons, ← List.append_assoc]
    exact (pairs_addMsgs dst k v).append_right _

/-! ### flatten ~ supplied -/

mutual
theorem pairs_flatten (warn : Bool) (key : String) (e : VE) :
    (pairs (flatten warn key e)).Perm (supplied warn (key ++ ".") e) := by
  cases e with
  | mk errs warns kn kids =>
    simp only [flatten, supplied]
    exact pairs_flattenKids warn key _ kids
theorem pairs_flattenKids (warn : Bool) (key : String) (acc : SMap) (cs : List (String × VE)) :
    (pairs (flattenKids warn key acc cs)).Perm (pairs acc ++ suppliedKids warn (key ++ ".") cs) := by
  cases cs with
  | nil => simp [flattenKids, suppliedKids]
  | cons p rest =>
    obtain ⟨ck, c⟩ := p
    simp only [flattenKids, suppliedKids]
    refine (pairs_flattenKids warn key _ rest).trans ?_
    rw [← List.append_assoc]
    refine Perm.append_right _ ?_
    refine (pairs_mergeInto _ _).trans ?_
    exact (pairs_flatten warn (key ++ "." ++ ck) c).append_left _
end

theorem pairs_kidsFlat (warn : Bool) (acc : SMap) (kids : List (String × VE)) :
    (pairs (kidsFlat warn acc kids)).Perm (pairs acc ++ suppliedKids warn "" kids) := by
  induction kids generalizing acc with
  | nil => simp [kidsFlat, suppliedKids]
  | cons p rest ih =>
    obtain ⟨k, c⟩ := p
    simp only [kidsFlat, suppliedKids]
    refine (ih _).trans ?_
    rw [← List.append_assoc]
    refine Perm.append_right _ ?_
    refine (pairs_mergeInto _ _).trans ?_
    have := pairs_flatten warn k c
    rw [String.empty_append]
    exact this.append_left _

theorem supplied_eq (warn : Bool) (e : VE) :
    supplied warn "" e = pairs ((e.sel warn).getD []) ++ suppliedKids warn "" e.kids := by
  cases e with
  | mk errs warns kn kids =>
    simp only [supplied, prefixKeys_empty, VE.sel, VE.warns, VE.errs, VE.kids]

theorem pairs_getFlat (warn : Bool) (e : VE) :
    (pairs (getFlat warn e).1).Perm (supplied warn "" e) := by
  rw [supplied_eq]
  exact pairs_kidsFlat warn _ _

/-! ### addKids -/

theorem addKids_eq_append (acc ks : List (String × VE)) : ∃ t, addKids acc ks = acc ++ t := by
  induction ks generalizing acc with
  | nil => exact ⟨[], by simp [addKids]⟩
  | cons p rest ih =>
    obtain ⟨k, c⟩ := p
    simp only [addKids]
    split
    · exact ih acc
    · obtain ⟨t, ht⟩ := ih (acc ++ [(k, c)])
      exact ⟨(k, c) :: t, by rw [ht]; simp⟩

theorem suppliedKids_append (warn : Bool) (pre : String) (a b : List (String × VE)) :
    suppliedKids warn pre (a ++ b) = suppliedKids warn pre a ++ suppliedKids warn pre b := by
  induction a with
  | nil => simp [suppliedKids]
  | cons p r ih =>
    obtain ⟨k, c⟩ := p
    simp only [List.cons_append, suppliedKids, ih, List.append_assoc]

theorem count_suppliedKids_addKids (warn : Bool) (acc ks : List (String × VE)) (x : String × String) :
    (suppliedKids warn "" acc).count x ≤ (suppliedKids warn "" (addKids acc ks)).count x := by
  obtain ⟨t, ht⟩ := addKids_eq_append acc ks
  rw [ht, suppliedKids_append, List.count_append]
  omega

/-! ### addErr -/

theorem supplied_newVE_plain (warn : Bool) (m : String) :
    supplied warn "" (newVE "" m false) = suppliedErr warn (.plain m) := by
  cases warn <;> simp [newVE, supplied, suppliedKids, suppliedErr, prefixKeys, pairs]

/-- the result of the `plain` branch of `addErr`. -/
theorem count_supplied_addPlain (warn : Bool) (a : VE) (m : String) (x : String × String) :
    (supplied warn "" (.mk (some (addMsgs (a.errs.getD []) "" [m])) (some (a.warns.getD [])) false a.kids)).count x
      = (supplied warn "" a ++ suppliedErr warn (.plain m)).count x := by
  cases a with
  | mk errs warns kn kids =>
    cases warn
    · simp only [supplied_eq, VE.sel, VE.errs, VE.warns, VE.kids, suppliedErr, Bool.false_eq_true,
        if_false, Option.getD_some]
      have h := (pairs_addMsgs (errs.getD []) "" [m]).count_eq x
      simp only [List.count_append] at h ⊢
      rw [h]; simp; omega
    · simp [supplied_eq, VE.sel, VE.errs, VE.warns, VE.kids, suppliedErr]

theorem count_supplied_mergeVE (warn : Bool) (a b : VE) (x : String × String) :
    (supplied warn "" a ++ supplied warn "" b).count x ≤ (supplied warn "" (mergeVE a b)).count x := by
  have hm : ∀ m : SMap, (pairs (mergeInto m (getFlat warn b).1)).count x
      = (pairs m).count x + (supplied warn "" b).count x := by
    intro m
    rw [(pairs_mergeInto _ _).count_eq, List.count_append, (pairs_getFlat warn b).count_eq]
  have hk := count_suppliedKids_addKids warn a.kids b.kids x
  cases a with
  | mk errs warns kn kids =>
    cases warn <;>
    · simp only [mergeVE, supplied_eq, VE.sel, VE.errs, VE.warns, VE.kids, Bool.false_eq_true,
        if_false, if_true, Option.getD_some, List.count_append, hm] at hk ⊢
      omega

theorem addErr_contains_both (warn : Bool) (e1 e2 : Err) (x : String × String) :
    match addErr e1 e2 with
    | some r => (suppliedErr warn e1 ++ suppliedErr warn e2).count x ≤ (supplied warn "" r).count x
    | none => suppliedErr warn e1 = [] ∧ suppliedErr warn e2 = [] := by
  have hp : ∀ m : String, (if warn = true then [] else [("", m)]) = supplied warn "" (newVE "" m false) := by
    intro m; rw [supplied_newVE_plain]; rfl
  cases e1 <;> cases e2 <;>
    simp only [addErr, veOf, msgOf, suppliedErr, List.append_nil, List.nil_append, and_self,
      Nat.le_refl, count_supplied_addPlain] <;>
    first
      | (rw [hp]; exact Nat.le_refl _)
      | (rw [hp]; exact count_supplied_mergeVE _ _ _ _)
      | exact count_supplied_mergeVE _ _ _ _

end TV.VE
