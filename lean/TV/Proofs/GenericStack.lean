import TV.Proofs.GoHeap
import TV.Model.GenericStack
/-!
# GenericStack refines the FIFO-by-id queue

`R s sp`: the entries are a `lessId`-heap, a permutation of the spec queue, which is strictly
ascending in id with every id `≤ next`.  Popping the heap minimum is removing the head of the
queue; `find?` by id and the id-sort agree on permutations with distinct ids.  Core-only.
-/
namespace TV.GenericStack
open TV.GoHeap
variable {α : Type}

theorem lessId_strictWeak : StrictWeak (lessId : Nat × α → Nat × α → Bool) where
  asymm a b := by simp only [lessId, decide_eq_true_eq, decide_eq_false_iff_not]; omega
  ntrans a b c := by simp only [lessId, decide_eq_false_iff_not]; omega

/-- strictly ascending ids -/
def Asc (q : List (Nat × α)) : Prop := q.Pairwise (fun a b => a.1 < b.1)

theorem Asc.uniq {q : List (Nat × α)} (hq : Asc q) {a b : Nat × α} (ha : a ∈ q) (hb : b ∈ q)
    (hab : a.1 = b.1) : a = b := by
  induction q with
  | nil => cases ha
  | cons y r ih =>
    rw [Asc, List.pairwise_cons] at hq
    rcases List.mem_cons.mp ha with rfl | ha' <;> rcases List.mem_cons.mp hb with rfl | hb'
    · rfl
    · have := hq.1 _ hb'; omega
    · have := hq.1 _ ha'; omega
    · exact ih hq.2 ha' hb'

theorem insertById_append (x : Nat × α) (q1 q2 : List (Nat × α)) (h1 : ∀ y ∈ q1, y.1 < x.1)
    (h2 : ∀ y ∈ q2, x.1 < y.1) : insertById x (q1 ++ q2) = q1 ++ x :: q2 := by
  induction q1 with
  | nil =>
    cases q2 with
    | nil => rfl
    | cons y r => simp [insertById, h2 y (List.mem_cons_self ..)]
  | cons y q1 ih =>
    have hy := h1 y (List.mem_cons_self ..)
    have : ¬ x.1 < y.1 := by omega
    simp only [List.cons_append, insertById, this, if_false]
    rw [ih (fun z hz => h1 z (List.mem_cons_of_mem _ hz))]

theorem sortById_eq_of_perm {l q : List (Nat × α)} (hp : l.Perm q) (hq : Asc q) : sortById l = q := by
  induction l generalizing q with
  | nil => exact hp.nil_eq
  | cons x l ih =>
    have hx : x ∈ q := hp.mem_iff.mp (List.mem_cons_self ..)
    obtain ⟨q1, q2, rfl⟩ := List.append_of_mem hx
    have hp' : l.Perm (q1 ++ q2) := (hp.trans List.perm_middle).cons_inv
    rw [Asc, List.pairwise_append, List.pairwise_cons] at hq
    have hq' : Asc (q1 ++ q2) :=
      List.pairwise_append.mpr ⟨hq.1, hq.2.1.2, fun a ha b hb => hq.2.2 a ha b (List.mem_cons_of_mem _ hb)⟩
    show insertById x (sortById l) = _
    rw [ih hp' hq']
    exact insertById_append x q1 q2 (fun y hy => hq.2.2 y hy x (List.mem_cons_self ..)) hq.2.1.1

theorem find?_eq_of_perm {l q : List (Nat × α)} (hp : l.Perm q) (hq : Asc q) (id : Nat) :
    l.find? (·.1 == id) = q.find? (·.1 == id) := by
  cases hf : q.find? (·.1 == id) with
  | none =>
    rw [List.find?_eq_none] at hf ⊢
    exact fun x hx => hf x (hp.mem_iff.mp hx)
  | some e =>
    have he : e ∈ q := List.mem_of_find?_eq_some hf
    have hpe := List.find?_some hf
    cases hf' : l.find? (·.1 == id) with
    | none =>
      rw [List.find?_eq_none] at hf'
      exact absurd hpe (hf' e (hp.mem_iff.mpr he))
    | some e' =>
      have he' : e' ∈ q := hp.mem_iff.mp (List.mem_of_find?_eq_some hf')
      have hpe' := List.find?_some hf'
      simp only [beq_iff_eq] at hpe hpe'
      rw [hq.uniq he' he (by omega)]

/-! ### the simulation -/

/-- the refinement relation between the heap array and the id-ordered queue. -/
structure R (s : Stack α) (sp : Spec α) : Prop where
  heap : IsHeap lessId s.entries
  next : s.next = sp.next
  perm : s.entries.Perm sp.q
  asc : Asc sp.q
  bound : ∀ e ∈ sp.q, e.1 ≤ sp.next

theorem R_new : R (new : Stack α) (Spec.new : Spec α) where
  heap := by intro i h0 hi; simp [new, GoHeap.init, initLoop] at hi
  next := rfl
  perm := by simp [new, GoHeap.init, initLoop, Spec.new]
  asc := by simp [Asc, Spec.new]
  bound := by simp [Spec.new]

theorem R_push {s : Stack α} {sp : Spec α} (hR : R s sp) (v : α) :
    (push s v).2 = sp.next + 1 ∧
      R (push s v).1 { q := sp.q ++ [(sp.next + 1, v)], next := sp.next + 1 } := by
  refine ⟨by simp [push, hR.next], ?_⟩
  constructor
  · exact push_isHeap lessId_strictWeak _ _ hR.heap
  · simp [push, hR.next]
  · show (GoHeap.push lessId s.entries (s.next + 1, v)).Perm _
    rw [hR.next]
    exact (push_perm _ _ _).trans ((hR.perm.cons _).trans (List.perm_append_singleton _ _).symm)
  · show Asc (sp.q ++ [(sp.next + 1, v)])
    rw [Asc, List.pairwise_append]
    refine ⟨hR.asc, by simp, fun a ha b hb => ?_⟩
    have := hR.bound a ha
    simp only [List.mem_singleton] at hb
    subst hb; show a.1 < sp.next + 1; omega
  · intro e he
    show e.1 ≤ sp.next + 1
    rcases List.mem_append.mp he with he | he
    · have := hR.bound e he; omega
    · simp only [List.mem_singleton] at he; subst he; exact Nat.le_refl _

variable [Inhabited α]

theorem R_pop {s : Stack α} {sp : Spec α} (hR : R s sp) :
    (pop s).2 = (match sp.q with | [] => default | (_, v) :: _ => v) ∧
      R (pop s).1 { sp with q := sp.q.tail } := by
  by_cases hne : s.entries = []
  · have hq : sp.q = [] := by have := hR.perm; rw [hne] at this; exact this.nil_eq.symm
    have hp : pop s = (s, default) := by
      simp [pop, hne, GoHeap.pop]
    rw [hp, hq]
    refine ⟨rfl, ?_⟩
    exact { heap := hR.heap, next := hR.next, perm := by simpa [hq] using hR.perm,
            asc := by simp [Asc], bound := by simp }
  · obtain ⟨rest, h1, h2, h3, h4⟩ := pop_spec lessId_strictWeak s.entries hR.heap hne
    generalize s.entries[0]'(List.length_pos_iff.mpr hne) = m at h1 h3 h4
    have hp : pop s = ({ s with entries := rest }, m.2) := by simp [pop, h1]
    rw [hp]
    have hperm : (m :: rest).Perm sp.q := h3.trans hR.perm
    cases hq : sp.q with
    | nil => rw [hq] at hperm; exact absurd hperm.eq_nil (by simp)
    | cons e r =>
      have hasc := hR.asc
      rw [hq] at hperm
      rw [hq, Asc, List.pairwise_cons] at hasc
      have hme : m = e := by
        have hm : m ∈ e :: r := hperm.mem_iff.mp (List.mem_cons_self ..)
        have he : e ∈ s.entries := by
          apply hR.perm.mem_iff.mpr; rw [hq]; exact List.mem_cons_self ..
        have hle := h4 e he
        simp only [lessId, decide_eq_false_iff_not] at hle
        rcases List.mem_cons.mp hm with rfl | hm'
        · rfl
        · have := hasc.1 m hm'; omega
      subst hme
      refine ⟨rfl, ?_⟩
      exact { heap := h2, next := hR.next, perm := hperm.cons_inv, asc := hasc.2,
              bound := fun x hx => hR.bound x (by rw [hq]; exact List.mem_cons_of_mem _ hx) }

theorem step_sim {s : Stack α} {sp : Spec α} (hR : R s sp) (o : Op α) :
    (step s o).2 = (Spec.step sp o).2 ∧ R (step s o).1 (Spec.step sp o).1 := by
  cases o with
  | push v =>
    obtain ⟨h1, h2⟩ := R_push hR v
    exact ⟨by simp [step, Spec.step, h1], h2⟩
  | pop =>
    obtain ⟨h1, h2⟩ := R_pop hR
    obtain ⟨q, nx⟩ := sp
    cases q with
    | nil => exact ⟨by simp only [step, Spec.step, h1], h2⟩
    | cons e r =>
      obtain ⟨i, v⟩ := e
      exact ⟨by simp only [step, Spec.step, h1], h2⟩
  | peek id =>
    refine ⟨?_, hR⟩
    simp only [step, Spec.step, peek, find?_eq_of_perm hR.perm hR.asc id]
    cases sp.q.find? (·.1 == id) <;> rfl
  | len => exact ⟨by simp [step, Spec.step, len, hR.perm.length_eq], hR⟩
  | values =>
    exact ⟨by simp [step, Spec.step, values, sortById_eq_of_perm hR.perm hR.asc], hR⟩

theorem outs_sim {s : Stack α} {sp : Spec α} (hR : R s sp) (ops : List (Op α)) :
    outs s ops = Spec.outs sp ops := by
  induction ops generalizing s sp with
  | nil => rfl
  | cons o r ih =>
    obtain ⟨h1, h2⟩ := step_sim hR o
    simp only [outs, Spec.outs, h1, ih h2]

theorem refines_fifo (ops : List (Op α)) :
    outs (new : Stack α) ops = Spec.outs (Spec.new : Spec α) ops := outs_sim R_new ops

end TV.GenericStack
