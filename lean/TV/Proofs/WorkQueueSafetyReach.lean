import TV.Proofs.WorkQueueSafetyStepA
import TV.Proofs.WorkQueueSafetyStepB
import TV.Proofs.WorkQueueSafetyStepC
/-! The invariant holds in every reachable state. -/
namespace TV.WorkQueue
open TV.GoHeap

theorem inv_step {W : Nat} {s s' : St} {a : Act} (h : Inv W s) (hok : actOK s a) (hs : step? s a = some s') :
    Inv W s' := by
  cases a with
  | enqueue p n adj => exact inv_enqueue h hs
  | finish id err => exact inv_finish h hs
  | setAdj id v => exact inv_setAdj h hs
  | subscribe => exact inv_subscribe h hs
  | subRecv sub => exact inv_subRecv h hs
  | resizeLen L' => exact inv_resizeLen h hok hs
  | dequeue id => exact inv_dequeue h hok hs
  | setPrio id p => exact inv_setPrio h hok hs
  | stop => exact inv_stop h hs
  | break_ => exact inv_break h hs
  | recv id => exact inv_recv h hs
  | tok => exact inv_tok h hs
  | handOffDone => exact inv_handOffDone h hs
  | take => exact inv_take h hs
  | errRecv id => exact inv_errRecv h hs
  | tokSendDone => exact inv_tokSendDone h hs
  | giveUp id => exact inv_giveUp h hs
  | ctxExit => exact inv_ctxExit h hs
  | drainSend => exact inv_drainSend h hs
  | drainTok => exact inv_drainTok h hs
  | closeChan => exact inv_closeChan h hs
  | awaitTok => exact inv_awaitTok h hs
  | workerExit => exact inv_workerExit h hs
  | allDone => exact inv_allDone h hs
  | monExit => exact inv_monExit h hs

theorem inv_reach {W L : Nat} (hW : 1 ≤ W) (hL : 1 ≤ L) {s : St} (hr : Reach W L s) : Inv W s := by
  induction hr with
  | init => exact inv_init W L hW hL
  | step a _ hok hs ih => exact inv_step ih hok hs

end TV.WorkQueue
