import TV.Monitor.FifoCache
/-! The C01 view monitor decides exactly the view-consistency conclusion (core-only). -/
namespace TV.FifoCache.Mon

theorem nodupB_iff (l : List Nat) : nodupB l = true ↔ l.Nodup := by
  induction l with
  | nil => simp [nodupB]
  | cons x xs ih => simp [nodupB, ih, List.nodup_cons]

theorem sortL_perm (l : List Nat) : (sortL l).Perm l := List.mergeSort_perm l _

theorem sortL_sorted (l : List Nat) : (sortL l).Pairwise (fun a b => decide (a ≤ b) = true) :=
  List.pairwise_mergeSort (le := fun a b => decide (a ≤ b))
    (by intro a b c h1 h2; simp only [decide_eq_true_eq] at *; omega)
    (by intro a b; simp only [Bool.or_eq_true, decide_eq_true_eq]; omega) l

/-- sorted copies are equal exactly when the lists are permutations of each other. -/
theorem sortL_eq_iff (a b : List Nat) : sortL a = sortL b ↔ a.Perm b := by
  constructor
  · intro h
    exact (sortL_perm a).symm.trans (h ▸ sortL_perm b)
  · intro h
    have hp : (sortL a).Perm (sortL b) := (sortL_perm a).trans (h.trans (sortL_perm b).symm)
    exact List.Perm.eq_of_pairwise (le := fun a b => decide (a ≤ b) = true)
      (by intro x y _ _ h1 h2; simp only [decide_eq_true_eq] at h1 h2; omega)
      (sortL_sorted a) (sortL_sorted b) hp

/-- `viewsAgree` is C01's view-consistency statement about one observation. -/
theorem viewsAgree_iff (v : View) :
    viewsAgree v = true ↔
      v.keys.Nodup ∧ (∀ a, a < v.ph.length → (v.has a = true ↔ a ∈ v.keys)) ∧ (∀ k ∈ v.keys, k < v.ph.length) ∧
      v.vals.Perm (v.keys.map v.get) ∧ v.len = v.keys.length := by
  simp only [viewsAgree, Bool.and_eq_true, nodupB_iff, List.all_eq_true, View.alpha, List.mem_range,
    beq_iff_eq, decide_eq_true_eq, List.contains_eq_mem, sortL_eq_iff]
  constructor
  · rintro ⟨⟨⟨⟨h1, h2⟩, h3⟩, h4⟩, h5⟩
    refine ⟨h1, fun a ha => ?_, h3, h4, h5⟩
    have := h2 a ha
    rw [this]; simp
  · rintro ⟨h1, h2, h3, h4, h5⟩
    refine ⟨⟨⟨⟨h1, fun a ha => ?_⟩, h3⟩, h4⟩, h5⟩
    have := h2 a ha
    cases hh : v.has a <;> simp [hh] at this ⊢ <;> exact this

end TV.FifoCache.Mon
