import TV.Proofs.MonitorPubLemmas
/-!
# The monitor invariant `MInv` holds in every reachable state of the Publication model

`MInv` collects the list-level parts of `MonitorPubLemmas`; `MInv_step` shows that every step preserves it (given
the protocol invariant `Inv` of `PublisherInv`).  The additional part `InvF` (no `filtered` outcome after the close
began) needs the gating of the harness: a Publish is only issued when no close is in progress (`ReachG`).  (Core-only.)
-/
namespace TV.Publisher.Proofs

def ghs (s : St) : List Gh := s.subs.map Sub.gh
def rgs (s : St) : List Rg := s.subs.map Sub.rg

structure MInv (s : St) : Prop where
  G : InvG (ghs s) s.count s.published.length
  R : InvR (rgs s)
  P : InvP s.published s.nextUid
  O : InvO (ghs s) s.pending s.outcomes s.published s.now
  S : InvS (bufs s) s.received s.outcomes s.published
  N : InvN (ghs s) s.pending s.outcomes s.published
  T : InvT (ghs s) s.callbacks s.outcomes

theorem MInv_init : MInv init := by
  constructor
  · constructor <;> simp [ghs, init]
  · constructor <;> simp [rgs, init]
  · constructor <;> simp [init]
  · constructor <;> simp [ghs, init]
  · constructor; simp [bufs, init]
  · constructor; simp [ghs, init]
  · constructor; simp [ghs, init]

/-! ### facts from the protocol invariant -/

theorem Inv.out_lt {s : St} (h : Inv s) : ∀ o ∈ s.outcomes, o.1 < s.nextUid := by
  intro o ho
  obtain ⟨m, hm⟩ := h.B.outPub o ho
  exact h.B.pubLt _ hm

theorem Inv.pend_lt {s : St} (h : Inv s) : ∀ d ∈ s.pending, d.uid < s.nextUid := by
  intro d hd
  exact h.B.pubLt _ (h.B.pendPub _ (mem_pkeys hd))

theorem Inv.keysNodup {s : St} (h : Inv s) : (s.pending.map (fun d => (d.uid, d.sub))).Nodup := by
  have hn := h.B.pairsNodup
  rw [List.nodup_append] at hn
  have hn := hn.2.1
  unfold pkeys at hn
  rw [List.map_map] at hn
  exact hn

theorem mem_ghs {s : St} {g : Gh} (hg : g ∈ ghs s) : ∃ x ∈ s.subs, x.gh = g := by
  simpa [ghs] using hg

theorem Inv.pend_acc {s : St} (h : Inv s) {d : Delivery} (hd : d ∈ s.pending) :
    ∀ g ∈ ghs s, g.id = d.sub → ∀ m, (d.uid, m) ∈ s.published → g.filter.accepts m = true := by
  intro g hg hid m hm
  obtain ⟨x, hx, rfl⟩ := mem_ghs hg
  obtain ⟨t, ht, htid, hacc⟩ := h.B.pendSub _ (mem_pkeys hd)
  simp only [statics, List.mem_map] at ht
  obtain ⟨y, hy, rfl⟩ := ht
  have : x = y := h.subUniq hx hy (by simp only [Sub.gh, Sub.static] at hid htid; omega)
  subst this
  have : m = d.msg := h.B.pubUniq hm (h.B.pendPub _ (mem_pkeys hd))
  subst this
  exact hacc

theorem Inv.msgOf_pend {s : St} (h : Inv s) {d : Delivery} (hd : d ∈ s.pending) : msgOf s.published d.uid = d.msg :=
  msgOf_mem h.B.pubNodup (h.B.pendPub _ (mem_pkeys hd))

theorem Inv.out_sub_le {s : St} (h : Inv s) : ∀ o ∈ s.outcomes, o.2.1 ≤ s.count := by
  intro o ho
  obtain ⟨t, ht, e⟩ := h.B.outSub o ho
  have := h.A.idsRange t ht
  omega

theorem Inv.pend_sub_le {s : St} (h : Inv s) : ∀ d ∈ s.pending, d.sub ≤ s.count := by
  intro d hd
  obtain ⟨t, ht, e, _⟩ := h.B.pendSub _ (mem_pkeys hd)
  have := h.A.idsRange t ht
  simp only at e
  omega

theorem Inv.recv_sub_le {s : St} (h : Inv s) : ∀ r ∈ s.received, r.1 ≤ s.count := by
  intro r hr
  obtain ⟨u, _, ho⟩ := h.D.recvSent r hr
  exact h.out_sub_le _ ho

theorem Inv.cb_sub_le {s : St} (h : Inv s) : ∀ c ∈ s.callbacks, c.2.1 ≤ s.count := by
  intro c hc
  obtain ⟨_, _, t, ht, e, _⟩ := h.E.cbSound c hc
  have := h.A.idsRange t ht
  omega

theorem Inv.gh_uniq {s : St} (h : Inv s) {x : Sub} (hx : x ∈ s.subs) : ∀ g ∈ ghs s, g.id = x.id → g = x.gh := by
  intro g hg hid
  obtain ⟨y, hy, rfl⟩ := mem_ghs hg
  rw [h.subUniq hy hx hid]

theorem InvT.out_other {gs cb out} (h : InvT gs cb out) (lo : List (Nat × Nat × Outcome)) (h2 : ∀ o ∈ lo, o.2.2 ≠ .timedOut) :
    InvT gs cb (out ++ lo) := by
  have := h.append_other [] lo (by simp) h2
  simpa using this

/-! ### the steps -/

theorem MInv_subscribe {s s' : St} (hI : Inv s) (h : MInv s) {cap f t cbF cbT} (hs : step? s (.subscribe cap f t cbF cbT) = some s') :
    MInv s' := by
  simp only [step?] at hs
  cases hs
  have e1 : ∀ new : Sub, ghs { s with count := s.count + 1, subs := s.subs ++ [new] } = ghs s ++ [new.gh] := by
    intro new; simp [ghs]
  have f1 : ∀ o ∈ s.outcomes, o.2.1 ≠ s.count + 1 := fun o ho => by have := hI.out_sub_le o ho; omega
  have f2 : ∀ d ∈ s.pending, d.sub ≠ s.count + 1 := fun d hd => by have := hI.pend_sub_le d hd; omega
  have f3 : ∀ r ∈ s.received, r.1 ≠ s.count + 1 := fun r hr => by have := hI.recv_sub_le r hr; omega
  have f4 : ∀ c ∈ s.callbacks, c.2.1 ≠ s.count + 1 := fun c hc => by have := hI.cb_sub_le c hc; omega
  constructor
  · rw [e1]; exact h.G.subscribe _ rfl rfl rfl rfl
  · have : rgs { s with count := s.count + 1, subs := s.subs ++ [{ id := s.count + 1, cap := cap, filter := f, timeout := t, cbFiltered := cbF, cbTimeout := cbT, subAt := s.published.length }] }
        = rgs s ++ [⟨s.count + 1, false, true, false⟩] := by simp [rgs, Sub.rg]
    rw [this]
    exact h.R.subscribe _
  · exact h.P
  · rw [e1]
    refine h.O.subscribe _ f1 f2 rfl ?_
    intro p hp
    have := hI.B.pubLt p hp
    have := h.P.nu
    omega
  · have : bufs { s with count := s.count + 1, subs := s.subs ++ [{ id := s.count + 1, cap := cap, filter := f, timeout := t, cbFiltered := cbF, cbTimeout := cbT, subAt := s.published.length }] }
        = bufs s ++ [⟨s.count + 1, cap, []⟩] := by simp [bufs, Sub.bufv]
    rw [this]
    exact h.S.subscribe _ _ f3 f1
  · rw [e1]; exact h.N.subscribe _ f1 f2 rfl
  · rw [e1]; exact h.T.subscribe _ f1 f4

theorem MInv_tick {s s' : St} (h : MInv s) (hs : step? s .tick = some s') : MInv s' := by
  simp only [step?] at hs
  cases hs
  exact ⟨h.G, h.R, h.P, h.O.mono_now, h.S, h.N, h.T⟩

theorem MInv_publish {s s' : St} (hI : Inv s) (h : MInv s) {msg} (hs : step? s (.publish msg) = some s') : MInv s' := by
  rw [step_publish, pubGo_fold] at hs
  cases hs
  have hnu := h.P.nu
  constructor
  · show InvG (ghs s) s.count (s.published ++ [(s.nextUid, msg)]).length
    rw [List.length_append]; exact h.G.mono
  · exact h.R
  · exact h.P.publish msg
  · exact h.O.publish h.G h.R hnu hI.idsNodup hI.out_lt hI.B.pubLt msg
  · refine (h.S.pub_append _ hI.B.outPub).out_other _ ?_
    intro o ho
    simp only [List.mem_map] at ho
    obtain ⟨y, _, rfl⟩ := ho
    simp
  · exact h.N.publish h.G h.R hI.idsNodup msg
  · refine h.T.append_other _ _ ?_ ?_
    · intro c hc
      simp only [List.mem_map] at hc
      obtain ⟨y, _, rfl⟩ := hc
      rfl
    · intro o ho
      simp only [List.mem_map] at ho
      obtain ⟨y, _, rfl⟩ := ho
      simp

theorem Inv.once_of_done {s : St} (hI : Inv s) {x : Sub} (hx : x ∈ s.subs) {k : Nat} (hid : x.id = k) (hdone : x.doneClosed = true) :
    ∀ g ∈ ghs s, g.id = k → g.once = true := by
  intro g hg e
  rw [hI.gh_uniq hx g hg (by omega)]
  simp only [Sub.gh]
  rw [hI.once_done hx]; exact hdone

theorem MInv_finish_cancelled {s : St} (hI : Inv s) (h : MInv s) {d : Delivery} (hd : d ∈ s.pending) {x : Sub} (hx : x ∈ s.subs)
    (hid : x.id = d.sub) (hdone : x.doneClosed = true) : MInv (finish s d .cancelled) := by
  constructor
  · exact h.G
  · exact h.R
  · exact h.P
  · exact h.O.finish hd .cancelled (by simp) (by simp) (fun _ => hI.once_of_done hx hid hdone) (by simp) (hI.pend_acc hd)
  · exact h.S.out_other _ (by simp)
  · exact h.N.finish hI.keysNodup hd .cancelled (by simp)
  · exact h.T.out_other _ (by simp)

theorem MInv_acquireR {s s' : St} (hI : Inv s) (h : MInv s) {uid sub} (hs : step? s (.acquireR uid sub) = some s') : MInv s' := by
  simp only [step?] at hs
  split at hs
  · next d x hd hx =>
    have hd' := findDel_some hd
    have hx' := getSub_some hx
    split at hs
    · cases hs
    · split at hs
      · cases hs
      · next hw =>
        split at hs
        · next hdone =>
          cases hs
          exact MInv_finish_cancelled hI h hd'.1 hx'.1 (by omega) hdone
        · next hdone =>
          cases hs
          have hopen : ∀ g ∈ ghs s, g.id = sub → g.closedAt = none ∧ g.timeout ≤ s.now + x.timeout := by
            intro g hg e
            have hgx := hI.gh_uniq hx'.1 g hg (by omega)
            subst hgx
            have h1 := h.G.closedIff _ hg
            have h2 := hI.once_done hx'.1
            simp only [Sub.gh] at h1 ⊢
            refine ⟨?_, by omega⟩
            cases hc : x.closedAt with
            | none => rfl
            | some c =>
              rw [hc] at h1
              rw [← h2] at hdone
              simp at h1
              exact absurd h1 hdone
          exact ⟨h.G, h.R, h.P, h.O.hold uid sub _ hopen, h.S, h.N.hold uid sub _, h.T⟩
  · cases hs

theorem MInv_cancel {s s' : St} (hI : Inv s) (h : MInv s) {uid sub} (hs : step? s (.cancel uid sub) = some s') : MInv s' := by
  simp only [step?] at hs
  split at hs
  · next d x hd hx =>
    have hd' := findDel_some hd
    have hx' := getSub_some hx
    split at hs
    · next hc =>
      cases hs
      simp only [Bool.and_eq_true, beq_iff_eq] at hc
      exact MInv_finish_cancelled hI h hd'.1 hx'.1 (by omega) hc.2
    · cases hs
  · cases hs

theorem MInv_deliver {s s' : St} (hI : Inv s) (h : MInv s) {uid sub} (hs : step? s (.deliver uid sub) = some s') : MInv s' := by
  simp only [step?] at hs
  split at hs
  · next d x hd hx =>
    have hd' := findDel_some hd
    have hx' := getSub_some hx
    split at hs
    · cases hs
    · next hst =>
      have hst : d.stage = .holding := by simpa using hst
      have hch := hI.held_open hd'.1 hst hx'.1 (by omega)
      split at hs
      · next hc => rw [hch] at hc; cases hc
      · split at hs
        · next hroom =>
          cases hs
          have eG : ghs (updSub s sub fun y => { y with buf := y.buf ++ [d.msg] }) = ghs s :=
            view_updSub_same Sub.gh s sub _ (fun _ => rfl)
          have eR : rgs (updSub s sub fun y => { y with buf := y.buf ++ [d.msg] }) = rgs s :=
            view_updSub_same Sub.rg s sub _ (fun _ => rfl)
          have eB : bufs (updSub s sub fun y => { y with buf := y.buf ++ [d.msg] })
              = (bufs s).map (fun b => if b.id == sub then { b with buf := b.buf ++ [d.msg] } else b) :=
            view_updSub Sub.bufv Buf.id (fun _ => rfl) (fun b => { b with buf := b.buf ++ [d.msg] }) s sub _ (fun _ => rfl)
          constructor
          · show InvG (ghs (updSub s sub _)) s.count s.published.length
            rw [eG]; exact h.G
          · show InvR (rgs (updSub s sub _))
            rw [eR]; exact h.R
          · exact h.P
          · show InvO (ghs (updSub s sub _)) (s.pending.filter _) (s.outcomes ++ [(d.uid, d.sub, Outcome.sent)]) s.published s.now
            rw [eG]
            exact h.O.finish hd'.1 .sent (fun _ => hst) (by simp) (by simp) (by simp) (hI.pend_acc hd'.1)
          · show InvS (bufs (updSub s sub _)) s.received (s.outcomes ++ [(d.uid, d.sub, Outcome.sent)]) s.published
            rw [eB, hd'.2.2]
            exact h.S.deliver _ _ _ (hI.msgOf_pend hd'.1)
          · show InvN (ghs (updSub s sub _)) (s.pending.filter _) (s.outcomes ++ [(d.uid, d.sub, Outcome.sent)]) s.published
            rw [eG]
            exact h.N.finish hI.keysNodup hd'.1 .sent (by simp)
          · show InvT (ghs (updSub s sub _)) s.callbacks (s.outcomes ++ [(d.uid, d.sub, Outcome.sent)])
            rw [eG]
            exact h.T.out_other _ (by simp)
        · cases hs
  · cases hs

theorem MInv_rendezvous {s s' : St} (hI : Inv s) (h : MInv s) {uid sub} (hs : step? s (.rendezvous sub uid) = some s') : MInv s' := by
  simp only [step?] at hs
  split at hs
  · next d x hd hx =>
    have hd' := findDel_some hd
    have hx' := getSub_some hx
    split at hs
    · cases hs
    · next hc =>
      cases hs
      simp only [Bool.or_eq_true, bne_iff_ne, ne_eq, Bool.not_eq_true', not_or, Bool.not_eq_false, Decidable.not_not] at hc
      have hst : d.stage = .holding := by
        cases hst : d.stage <;> simp_all
      have hemp : x.buf = [] := by
        have := hc.2
        simpa using this
      constructor
      · exact h.G
      · exact h.R
      · exact h.P
      · exact h.O.finish hd'.1 .sent (fun _ => hst) (by simp) (by simp) (by simp) (hI.pend_acc hd'.1)
      · show InvS (bufs s) (s.received ++ [(sub, d.msg)]) (s.outcomes ++ [(d.uid, d.sub, Outcome.sent)]) s.published
        rw [hd'.2.2]
        refine h.S.rendezvous _ _ _ (hI.msgOf_pend hd'.1) ?_
        intro b hb hid
        simp only [bufs, List.mem_map] at hb
        obtain ⟨y, hy, rfl⟩ := hb
        have : y = x := hI.subUniq hy hx'.1 (by simp only [Sub.bufv] at hid; omega)
        subst this
        exact hemp
      · exact h.N.finish hI.keysNodup hd'.1 .sent (by simp)
      · exact h.T.out_other _ (by simp)
  · cases hs

theorem MInv_receive {s s' : St} (hI : Inv s) (h : MInv s) {sub} (hs : step? s (.receive sub) = some s') : MInv s' := by
  simp only [step?] at hs
  split at hs
  · next x hx =>
    have hx' := getSub_some hx
    split at hs
    · next m rest hbuf =>
      cases hs
      have eG : ghs (updSub s sub fun y => { y with buf := rest }) = ghs s :=
        view_updSub_same Sub.gh s sub _ (fun _ => rfl)
      have eR : rgs (updSub s sub fun y => { y with buf := rest }) = rgs s :=
        view_updSub_same Sub.rg s sub _ (fun _ => rfl)
      have eB : bufs (updSub s sub fun y => { y with buf := rest })
          = (bufs s).map (fun b => if b.id == sub then { b with buf := rest } else b) :=
        view_updSub Sub.bufv Buf.id (fun _ => rfl) (fun b => { b with buf := rest }) s sub _ (fun _ => rfl)
      constructor
      · show InvG (ghs (updSub s sub _)) s.count s.published.length
        rw [eG]; exact h.G
      · show InvR (rgs (updSub s sub _))
        rw [eR]; exact h.R
      · exact h.P
      · show InvO (ghs (updSub s sub _)) s.pending s.outcomes s.published s.now
        rw [eG]; exact h.O
      · show InvS (bufs (updSub s sub _)) (s.received ++ [(sub, m)]) s.outcomes s.published
        rw [eB]
        exact h.S.receive (by rw [ids_bufs]; exact hI.idsNodup) (mem_bufs hx'.1) hx'.2 hbuf
      · show InvN (ghs (updSub s sub _)) s.pending s.outcomes s.published
        rw [eG]; exact h.N
      · show InvT (ghs (updSub s sub _)) s.callbacks s.outcomes
        rw [eG]; exact h.T
    · cases hs
  · cases hs

theorem MInv_timeout {s s' : St} (hI : Inv s) (h : MInv s) {uid sub} (hs : step? s (.timeout uid sub) = some s') : MInv s' := by
  simp only [step?] at hs
  split at hs
  · next d x hd hx =>
    have hd' := findDel_some hd
    have hx' := getSub_some hx
    split at hs
    · next hc =>
      cases hs
      simp only [Bool.and_eq_true, beq_iff_eq, decide_eq_true_eq] at hc
      constructor
      · exact h.G
      · exact h.R
      · exact h.P
      · exact h.O.finish hd'.1 .timedOut (fun _ => hc.1) (fun _ => hc.2) (by simp) (by simp) (hI.pend_acc hd'.1)
      · exact h.S.out_other _ (by simp)
      · exact h.N.finish hI.keysNodup hd'.1 .timedOut (by simp)
      · have := h.T.timeout d.uid d.sub d.msg x.cbTimeout (by
          intro g hg e
          rw [hI.gh_uniq hx'.1 g hg (by omega)]
          rfl)
        obtain ⟨e1, e2⟩ := hd'.2
        subst e1; subst e2
        exact this
    · cases hs
  · cases hs

theorem beginClose_published (s : St) (k : Nat) : (beginClose s k).published = s.published := rfl

theorem ghs_beginClose (s : St) (k : Nat) :
    ghs (beginClose s k) = (ghs s).map (fun g => if g.id == k then closeG s.published.length g else g) :=
  view_updSub Sub.gh Gh.id (fun _ => rfl) (closeG s.published.length) s k _
    (fun x => by unfold closeG; by_cases ho : x.onceStarted = true <;> simp [Sub.gh, ho])

theorem rgs_beginClose (s : St) (k : Nat) :
    rgs (beginClose s k) = (rgs s).map (fun r => if r.id == k then closeR r else r) :=
  view_updSub Sub.rg Rg.id (fun _ => rfl) closeR s k _
    (fun x => by unfold closeR; by_cases ho : x.onceStarted = true <;> simp [Sub.rg, ho])

theorem bufs_beginClose (s : St) (k : Nat) : bufs (beginClose s k) = bufs s :=
  view_updSub_same Sub.bufv s k _ (fun x => by split <;> rfl)

theorem MInv_beginClose {s : St} (hI : Inv s) (h : MInv s) (k : Nat) : MInv (beginClose s k) := by
  have hnu := h.P.nu
  constructor
  · rw [ghs_beginClose]; exact h.G.beginClose k
  · rw [rgs_beginClose]; exact h.R.beginClose k
  · exact h.P
  · rw [ghs_beginClose]
    exact h.O.beginClose k (fun d hd => by have := hI.pend_lt d hd; omega) (fun o ho => by have := hI.out_lt o ho; omega)
      h.G.closedIff
  · rw [bufs_beginClose]; exact h.S
  · rw [ghs_beginClose]; exact h.N.beginClose k _
  · rw [ghs_beginClose]; exact h.T.beginClose k _

theorem MInv_closeSub {s s' : St} (hI : Inv s) (h : MInv s) {sub} (hs : step? s (.closeSub sub) = some s') : MInv s' := by
  simp only [step?] at hs
  split at hs
  · split at hs
    · cases hs; exact MInv_beginClose hI h sub
    · cases hs; exact h
  · cases hs; exact h

theorem MInv_closePub {s s' : St} (hI : Inv s) (h : MInv s) (hs : step? s .closePub = some s') : MInv s' := by
  simp only [step?] at hs
  cases hs
  suffices ∀ (l : List Sub) (acc : St), Inv acc → MInv acc →
      MInv (l.foldl (fun acc x => if x.registered then beginClose acc x.id else acc) acc) from this _ _ hI h
  intro l
  induction l with
  | nil => intro acc _ ha; exact ha
  | cons x l ih =>
    intro acc hIa ha
    rw [List.foldl_cons]
    split
    · exact ih _ (Inv_beginClose hIa _) (MInv_beginClose hIa ha _)
    · exact ih _ hIa ha

theorem MInv_closeFinish {s s' : St} (hI : Inv s) (h : MInv s) {sub} (hs : step? s (.closeFinish sub) = some s') : MInv s' := by
  simp only [step?] at hs
  split at hs
  · next x hx =>
    have hx' := getSub_some hx
    split at hs
    · next hc =>
      cases hs
      simp only [Bool.and_eq_true, Bool.not_eq_eq_eq_not, Bool.not_true, List.isEmpty_iff] at hc
      obtain ⟨⟨ho, hch⟩, hh⟩ := hc
      have eG : ghs (updSub s sub fun y => { y with chClosed := true, registered := false }) = ghs s :=
        view_updSub_same Sub.gh s sub _ (fun _ => rfl)
      have eB : bufs (updSub s sub fun y => { y with chClosed := true, registered := false }) = bufs s :=
        view_updSub_same Sub.bufv s sub _ (fun _ => rfl)
      have eR : rgs (updSub s sub fun y => { y with chClosed := true, registered := false })
          = (rgs s).map (fun r => if r.id == sub then { r with ch := true, reg := false } else r) :=
        view_updSub Sub.rg Rg.id (fun _ => rfl) (fun r => { r with ch := true, reg := false }) s sub _ (fun _ => rfl)
      constructor
      · show InvG (ghs (updSub s sub _)) s.count s.published.length
        rw [eG]; exact h.G
      · show InvR (rgs (updSub s sub _))
        rw [eR]
        apply h.R.closeFinish
        intro r hr hid
        simp only [rgs, List.mem_map] at hr
        obtain ⟨y, hy, rfl⟩ := hr
        have : y = x := hI.subUniq hy hx'.1 (by simp only [Sub.rg] at hid; omega)
        subst this
        exact ho
      · exact h.P
      · show InvO (ghs (updSub s sub _)) s.pending s.outcomes s.published s.now
        rw [eG]; exact h.O
      · show InvS (bufs (updSub s sub _)) s.received s.outcomes s.published
        rw [eB]; exact h.S
      · show InvN (ghs (updSub s sub _)) s.pending s.outcomes s.published
        rw [eG]; exact h.N
      · show InvT (ghs (updSub s sub _)) s.callbacks s.outcomes
        rw [eG]; exact h.T
    · cases hs
  · cases hs

theorem MInv_step {s s' : St} (hI : Inv s) (h : MInv s) (a : Act) (hs : step? s a = some s') : MInv s' := by
  cases a with
  | subscribe cap f t cbF cbT => exact MInv_subscribe hI h hs
  | publish msg => exact MInv_publish hI h hs
  | receive sub => exact MInv_receive hI h hs
  | rendezvous sub uid => exact MInv_rendezvous hI h hs
  | closeSub sub => exact MInv_closeSub hI h hs
  | closePub => exact MInv_closePub hI h hs
  | tick => exact MInv_tick h hs
  | acquireR uid sub => exact MInv_acquireR hI h hs
  | deliver uid sub => exact MInv_deliver hI h hs
  | timeout uid sub => exact MInv_timeout hI h hs
  | cancel uid sub => exact MInv_cancel hI h hs
  | closeFinish sub => exact MInv_closeFinish hI h hs

theorem MInv_of_Reach {s : St} (h : Reach s) : MInv s := by
  induction h with
  | init => exact MInv_init
  | step a hr hs ih => exact MInv_step (Inv_of_Reach hr) ih a hs

/-! ### the gated part -/

def FInv (s : St) : Prop := InvF (ghs s) s.outcomes

theorem FInv_finish {s : St} (hF : FInv s) (d : Delivery) (o : Outcome) (ho : o ≠ .filtered) : FInv (finish s d o) :=
  InvF.out_other hF _ (by simpa using ho)

theorem FInv_step {s s' : St} (hI : Inv s) (h : MInv s) (hF : FInv s) (a : Act) (hg : ∀ m, a = .publish m → closesDone s)
    (hs : step? s a = some s') : FInv s' := by
  cases a with
  | subscribe cap f t cbF cbT =>
    simp only [step?] at hs
    cases hs
    have e1 : ∀ new : Sub, ghs { s with count := s.count + 1, subs := s.subs ++ [new] } = ghs s ++ [new.gh] := by
      intro new; simp [ghs]
    unfold FInv
    rw [e1]
    exact InvF.subscribe hF _ rfl
  | publish msg =>
    rw [step_publish, pubGo_fold] at hs
    cases hs
    exact InvF.publish hF h.G h.R hI.idsNodup (hg msg rfl) _ msg
  | receive sub =>
    simp only [step?] at hs
    split at hs
    · split at hs
      · cases hs
        have eG : ∀ rest, ghs (updSub s sub fun y => { y with buf := rest }) = ghs s :=
          fun rest => view_updSub_same Sub.gh s sub _ (fun _ => rfl)
        unfold FInv
        show InvF (ghs (updSub s sub _)) s.outcomes
        rw [eG]; exact hF
      · cases hs
    · cases hs
  | rendezvous sub uid =>
    simp only [step?] at hs
    split at hs
    · next d x hd hx =>
      split at hs
      · cases hs
      · cases hs
        exact FInv_finish hF d .sent (by simp)
    · cases hs
  | closeSub sub =>
    simp only [step?] at hs
    have hb : FInv (beginClose s sub) := by
      unfold FInv
      rw [ghs_beginClose]
      exact InvF.beginClose hF _ _ (fun o ho => by have := hI.out_lt o ho; have := h.P.nu; omega)
    split at hs
    · split at hs
      · cases hs; exact hb
      · cases hs; exact hF
    · cases hs; exact hF
  | closePub =>
    simp only [step?] at hs
    cases hs
    suffices ∀ (l : List Sub) (acc : St), Inv acc → MInv acc → FInv acc →
        FInv (l.foldl (fun acc x => if x.registered then beginClose acc x.id else acc) acc) from this _ _ hI h hF
    intro l
    induction l with
    | nil => intro acc _ _ ha; exact ha
    | cons x l ih =>
      intro acc hIa ha hFa
      rw [List.foldl_cons]
      split
      · refine ih _ (Inv_beginClose hIa _) (MInv_beginClose hIa ha _) ?_
        unfold FInv
        rw [ghs_beginClose]
        exact InvF.beginClose hFa _ _ (fun o ho => by have := hIa.out_lt o ho; have := ha.P.nu; omega)
      · exact ih _ hIa ha hFa
  | tick =>
    simp only [step?] at hs
    cases hs
    exact hF
  | acquireR uid sub =>
    simp only [step?] at hs
    split at hs
    · next d x hd hx =>
      split at hs
      · cases hs
      · split at hs
        · cases hs
        · split at hs
          · cases hs; exact FInv_finish hF d .cancelled (by simp)
          · cases hs; exact hF
    · cases hs
  | deliver uid sub =>
    simp only [step?] at hs
    split at hs
    · next d x hd hx =>
      have hd' := findDel_some hd
      have hx' := getSub_some hx
      split at hs
      · cases hs
      · next hst =>
        have hst : d.stage = .holding := by simpa using hst
        have hch := hI.held_open hd'.1 hst hx'.1 (by omega)
        split at hs
        · next hc => rw [hch] at hc; cases hc
        · split at hs
          · cases hs
            have eG : ghs (updSub s sub fun y => { y with buf := y.buf ++ [d.msg] }) = ghs s :=
              view_updSub_same Sub.gh s sub _ (fun _ => rfl)
            unfold FInv
            show InvF (ghs (updSub s sub _)) (s.outcomes ++ [(d.uid, d.sub, Outcome.sent)])
            rw [eG]
            exact InvF.out_other hF _ (by simp)
          · cases hs
    · cases hs
  | timeout uid sub =>
    simp only [step?] at hs
    split at hs
    · next d x hd hx =>
      split at hs
      · cases hs
        exact FInv_finish hF d .timedOut (by simp)
      · cases hs
    · cases hs
  | cancel uid sub =>
    simp only [step?] at hs
    split at hs
    · next d x hd hx =>
      split at hs
      · cases hs; exact FInv_finish hF d .cancelled (by simp)
      · cases hs
    · cases hs
  | closeFinish sub =>
    simp only [step?] at hs
    split at hs
    · split at hs
      · cases hs
        have eG : ghs (updSub s sub fun y => { y with chClosed := true, registered := false }) = ghs s :=
          view_updSub_same Sub.gh s sub _ (fun _ => rfl)
        unfold FInv
        show InvF (ghs (updSub s sub _)) s.outcomes
        rw [eG]; exact hF
      · cases hs
    · cases hs

theorem FInv_of_ReachG {s : St} (h : ReachG s) : FInv s := by
  induction h with
  | init => exact ⟨by simp [init]⟩
  | step a hr hg hs ih => exact FInv_step (Inv_of_Reach hr.reach) (MInv_of_Reach hr.reach) ih a hg hs

/-- the gating the harness provides: at a quiescent point no close is in progress. -/
theorem quiescent_closesDone {s : St} (hr : Reach s) (hq : quiescent s) : closesDone s := by
  intro x hx ho
  have h := Inv_of_Reach hr
  cases hch : x.chClosed with
  | true => rfl
  | false =>
    exfalso
    have hgs := h.getSub_of_mem hx
    have q5 := quiescent_sub hq hx
    simp only [step?, hgs, ho, hch] at q5
    cases hh : holders s x.id with
    | nil => simp [hh] at q5
    | cons e rest =>
      have he : e ∈ holders s x.id := by rw [hh]; exact List.mem_cons_self
      rw [mem_holders] at he
      obtain ⟨_, _, _, q6⟩ := quiescent_del hq he.1
      have hfe := h.findDel_of_mem he.1
      have hdone : x.doneClosed = true := by rw [← h.once_done hx]; exact ho
      rw [he.2.1] at hfe q6
      simp [step?, hfe, hgs, he.2.2, hdone] at q6

/-- the harness's discipline in full: every operation of the script (any non-internal action) is issued at a quiescent
    point; internal steps happen at any time. -/
inductive ReachQ : St → Prop where
  | init : ReachQ init
  | ext {s s' : St} (a : Act) : ReachQ s → quiescent s → isInternal a = false → step? s a = some s' → ReachQ s'
  | int {s s' : St} (a : Act) : ReachQ s → isInternal a = true → step? s a = some s' → ReachQ s'

/-- gated scripts in the harness's sense are gated in the (weaker) sense of `ReachG`. -/
theorem ReachQ.reachG {s : St} (h : ReachQ s) : ReachG s := by
  induction h with
  | init => exact .init
  | ext a _ hq _ hs ih => exact .step a ih (fun _ _ => quiescent_closesDone ih.reach hq) hs
  | int a _ hi hs ih => exact .step a ih (fun m e => by subst e; cases hi) hs

end TV.Publisher.Proofs
