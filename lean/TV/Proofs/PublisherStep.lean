import TV.Proofs.PublisherBasic
/-! Publication LTS — the state-independent step lemmas. -/
namespace TV.Publisher
namespace Proofs

theorem C06_delivered_if_room' :
    ∀ (s : St) (d : Delivery) (x : Sub), findDel s d.uid d.sub = some d → getSub s d.sub = some x → d.stage = .holding →
    x.chClosed = false → x.buf.length < x.cap → (step? s (.deliver d.uid d.sub)).isSome = true := by
  intro s d x hd hx hst hc hb
  simp [step?, hd, hx, hst, hc, hb]

theorem C06_publish_reaches_every_subscriber' :
    ∀ (s s' : St) (m : Nat), step? s (.publish m) = some s' → ∀ x ∈ s.subs, x.registered = true →
    (x.filter.accepts m = true ∧ ∃ d ∈ s'.pending, d.uid = s.nextUid ∧ d.sub = x.id ∧ d.msg = m) ∨
    (x.filter.accepts m = false ∧ (s.nextUid, x.id, Outcome.filtered) ∈ s'.outcomes) := by
  intro s s' m h x hx hr
  rw [step_publish, pubGo_fold] at h
  cases h
  cases ha : x.filter.accepts m
  · right
    simp
    right
    exact ⟨x, ⟨hx, by simp [hr, ha]⟩, rfl⟩
  · left
    simp
    exact ⟨mkDel s.nextUid m x, Or.inr ⟨x, ⟨hx, hr, ha⟩, rfl⟩, rfl, rfl, rfl⟩

theorem C15_publish_never_blocks' :
    ∀ (s : St) (m : Nat), (step? s (.publish m)).isSome = true := by
  intro s m; rw [step_publish]; rfl

theorem C15_timeout_not_early :
    (∀ (s s' : St) (uid sub : Nat), step? s (.timeout uid sub) = some s' → ∃ d, findDel s uid sub = some d ∧ d.deadline ≤ s.now) := by
  intro s s' uid sub h
  simp only [step?] at h
  split at h
  · next d x hd hx =>
    split at h
    · next hc => exact ⟨d, hd, by simp at hc; exact hc.2⟩
    · cases h
  · cases h

theorem closeF_id (n : Nat) (x : Sub) :
    (if x.onceStarted then x else { x with onceStarted := true, doneClosed := true, closedAt := some n }).id = x.id := by
  split <;> rfl

theorem C10_others_unaffected' :
    ∀ (s s' : St) (k : Nat) (a : Act), (a = .closeSub k ∨ a = .closeFinish k) → step? s a = some s' →
    (∀ j, j ≠ k → getSub s' j = getSub s j) ∧ s'.pending = s.pending ∧ s'.outcomes = s.outcomes ∧ s'.received = s.received := by
  intro s s' k a ha h
  rcases ha with rfl | rfl
  · simp only [step?] at h
    split at h
    · split at h
      · cases h
        refine ⟨fun j hj => getSub_updSub_ne _ _ _ _ (closeF_id _) hj, rfl, rfl, rfl⟩
      · cases h; simp
    · cases h; simp
  · simp only [step?] at h
    split at h
    · split at h
      · cases h
        refine ⟨fun j hj => getSub_updSub_ne s _ _ _ (fun _ => rfl) hj, rfl, rfl, rfl⟩
      · cases h
    · cases h


theorem C10_buffered_stay_readable' :
    (∀ (s : St) (x : Sub) (m : Nat) (rest : List Nat), getSub s x.id = some x → x.buf = m :: rest → (step? s (.receive x.id)).isSome = true) ∧
    (∀ (s s' : St) (k : Nat), step? s (.closeFinish k) = some s' → ∀ x ∈ s.subs, ∃ y ∈ s'.subs, y.id = x.id ∧ y.buf = x.buf) ∧
    (∀ (s s' : St) (k : Nat), step? s (.closeSub k) = some s' → ∀ x ∈ s.subs, ∃ y ∈ s'.subs, y.id = x.id ∧ y.buf = x.buf) := by
  refine ⟨?_, ?_, ?_⟩
  · intro s x m rest hx hb
    simp [step?, hx, hb]
  · intro s s' k h x hx
    simp only [step?] at h
    split at h
    · split at h
      · cases h
        refine ⟨_, mem_updSub_of_mem (k := k) hx, ?_⟩
        split <;> simp
      · cases h
    · cases h
  · intro s s' k h x hx
    simp only [step?] at h
    split at h
    · split at h
      · cases h
        refine ⟨_, mem_updSub_of_mem (k := k) hx, ?_⟩
        split
        · split <;> simp
        · simp
      · cases h; exact ⟨x, hx, rfl, rfl⟩
    · cases h; exact ⟨x, hx, rfl, rfl⟩

theorem C15_timeout_own :
    (∀ (s s' : St) (uid sub : Nat) (x : Sub), step? s (.acquireR uid sub) = some s' → getSub s sub = some x →
      ∀ d, findDel s' uid sub = some d → d.stage = .holding → d.deadline = s.now + x.timeout) := by
  intro s s' uid sub x h hx d hd hst
  simp only [step?] at h
  split at h
  · next d0 x0 hd0 hx0 =>
    rw [hx] at hx0; cases hx0
    split at h
    · cases h
    · split at h
      · cases h
      · split at h
        · cases h
          have := findDel_some hd
          simp [finish, dropDel] at this
          have h0 := findDel_some hd0
          omega
        · cases h
          rw [findDel_map _ _ _ _ (by intro e; split <;> simp_all)] at hd
          rw [hd0] at hd
          have h0 := findDel_some hd0
          simp [h0] at hd
          rw [← hd]
  · cases h

/-! The unrestricted form of `C15_one_outcome_each` (no `Reach s`) is false: on an unreachable state whose `pending`
holds the same delivery twice, `cancel` drops both copies. -/
example :
    let d : Delivery := { uid := 0, msg := 0, sub := 1, stage := .holding, deadline := 0 }
    let s : St := { subs := [{ id := 1, cap := 0, filter := .none, timeout := 0, cbFiltered := false, cbTimeout := false,
                               onceStarted := true, doneClosed := true }],
                    count := 1, pending := [d, d], nextUid := 1, published := [(0, 0)] }
    ∃ s', isInternal (.cancel 0 1) = true ∧ step? s (.cancel 0 1) = some s' ∧
      ¬ ((s'.pending = s.pending ∧ s'.outcomes = s.outcomes) ∨ (s'.pending.length = s.pending.length ∧ s'.outcomes = s.outcomes) ∨
        (s'.pending.length + 1 = s.pending.length ∧ s'.outcomes.length = s.outcomes.length + 1) ∨ s'.panicked = true) := by
  refine ⟨_, rfl, rfl, ?_⟩; decide

end Proofs
end TV.Publisher
