import TV.Proofs.PublisherInvC
import TV.Proofs.PublisherInvE
/-! Publication LTS — the inductive invariant `Inv` and its views. -/
namespace TV.Publisher
namespace Proofs

def statics (s : St) : List Static := s.subs.map Sub.static
def pkeys (s : St) : List (Nat × Nat × Nat) := s.pending.map (fun d => (d.uid, d.sub, d.msg))
def locks (s : St) : List Lock := s.subs.map Sub.lock
def hsubs (s : St) : List Nat := (s.pending.filter (fun d => d.stage == .holding)).map (·.sub)
def bufs (s : St) : List Buf := s.subs.map Sub.bufv

/-- the inductive invariant of the Publication LTS. -/
structure Inv (s : St) : Prop where
  A : InvA (statics s) s.count
  B : InvB (statics s) (pkeys s) s.outcomes s.published s.nextUid
  C : InvC (locks s) (hsubs s) s.chCloses s.panicked
  D : InvD (bufs s) s.received s.published s.outcomes
  E : InvE (statics s) s.callbacks s.outcomes s.published

/-! ### views of `updSub` -/

theorem view_updSub_same {V} (v : Sub → V) (s : St) (k : Nat) (f : Sub → Sub) (hf : ∀ x, v (f x) = v x) :
    (updSub s k f).subs.map v = s.subs.map v := by
  unfold updSub
  simp only [List.map_map]
  congr 1
  funext x
  simp only [Function.comp]
  split <;> simp [hf]

theorem view_updSub {V} (v : Sub → V) (vid : V → Nat) (hv : ∀ x, vid (v x) = x.id) (g : V → V) (s : St) (k : Nat) (f : Sub → Sub)
    (hf : ∀ x, v (f x) = g (v x)) :
    (updSub s k f).subs.map v = (s.subs.map v).map (fun l => if vid l == k then g l else l) := by
  unfold updSub
  simp only [List.map_map]
  congr 1
  funext x
  simp only [Function.comp, hv]
  split <;> simp [hf]

/-! ### membership bridges -/

theorem mem_statics {s : St} {x : Sub} (h : x ∈ s.subs) : x.static ∈ statics s := List.mem_map_of_mem h
theorem mem_locks {s : St} {x : Sub} (h : x ∈ s.subs) : x.lock ∈ locks s := List.mem_map_of_mem h
theorem mem_bufs {s : St} {x : Sub} (h : x ∈ s.subs) : x.bufv ∈ bufs s := List.mem_map_of_mem h

theorem mem_pkeys {s : St} {d : Delivery} (h : d ∈ s.pending) : (d.uid, d.sub, d.msg) ∈ pkeys s :=
  List.mem_map.2 ⟨d, h, rfl⟩

theorem mem_hsubs {s : St} {k : Nat} : k ∈ hsubs s ↔ ∃ d ∈ s.pending, d.stage = .holding ∧ d.sub = k := by
  unfold hsubs
  simp only [List.mem_map, List.mem_filter, beq_iff_eq]
  constructor
  · rintro ⟨d, ⟨h1, h2⟩, h3⟩; exact ⟨d, h1, h2, h3⟩
  · rintro ⟨d, h1, h2, h3⟩; exact ⟨d, ⟨h1, h2⟩, h3⟩

theorem ids_statics (s : St) : (statics s).map (·.id) = s.subs.map (·.id) := by
  simp [statics, Sub.static, Function.comp_def]
theorem ids_locks (s : St) : (locks s).map (·.id) = s.subs.map (·.id) := by
  simp [locks, Sub.lock, Function.comp_def]
theorem ids_bufs (s : St) : (bufs s).map (·.id) = s.subs.map (·.id) := by
  simp [bufs, Sub.bufv, Function.comp_def]

theorem Inv.idsNodup {s : St} (h : Inv s) : (s.subs.map (·.id)).Nodup := by
  rw [← ids_statics]; exact h.A.idsNodup

theorem Inv.subUniq {s : St} (h : Inv s) {x y : Sub} (hx : x ∈ s.subs) (hy : y ∈ s.subs) (e : x.id = y.id) : x = y :=
  nodup_map_inj h.idsNodup hx hy e

theorem Inv.getSub_of_mem {s : St} (h : Inv s) {x : Sub} (hx : x ∈ s.subs) : getSub s x.id = some x := by
  cases hg : getSub s x.id with
  | none =>
    unfold getSub at hg
    rw [List.find?_eq_none] at hg
    have := hg x hx
    simp at this
  | some y =>
    have := getSub_some hg
    rw [h.subUniq this.1 hx this.2]

theorem Inv.findDel_of_mem {s : St} (h : Inv s) {d : Delivery} (hd : d ∈ s.pending) : findDel s d.uid d.sub = some d := by
  cases hg : findDel s d.uid d.sub with
  | none =>
    unfold findDel at hg
    rw [List.find?_eq_none] at hg
    have := hg d hd
    simp at this
  | some e =>
    have he := findDel_some hg
    have hn := h.B.pairsNodup
    rw [List.nodup_append] at hn
    have hn := hn.2.1
    unfold pkeys at hn
    rw [List.map_map] at hn
    rw [nodup_map_inj hn he.1 hd (by simp [he.2.1, he.2.2])]

theorem Inv_init : Inv init := by
  constructor
  · exact ⟨by simp [statics, init], by simp [statics, init]⟩
  · constructor <;> simp [statics, init, pkeys]
  · constructor <;> simp [locks, init, hsubs]
  · constructor <;> simp [bufs, init]
  · constructor <;> simp [statics, init]

end Proofs
end TV.Publisher
