import TV.Proofs.ServerLcInv
/-! Server — preservation of the invariant by every action (C18). -/
namespace TV.Server
namespace LcProofs
open TV.ServerLifecycle

variable {n : Nat} {s s' : St}

theorem inv_startCall (h : Inv n s) (hs : step? s .startCall = some s') : Inv n s' := by
  simp only [step?] at hs
  split at hs
  · next hc =>
    cases hs
    have hg := h.glob
    refine ⟨h.len, h.coh, ?_, ?_, ?_, ?_⟩
    · intro i p hp
      have := h.phase i p hp
      rw [hc] at this
      simpa [Phase] using this
    · show s.startWg = cnt (fS (.spawning 0)) s.provs
      rw [h.startWg]; apply cnt_congr; intros; simp [fS, spawned, hc]
    · show s.stopWg = (cnt (fR (.spawning 0)) s.provs : Int)
      rw [h.stopWg]; congr 1; apply cnt_congr; intros; simp [fR, spawned, hc]
    · simp only [Glob, hc] at hg ⊢
      simpa using hg
  · simp at hs

theorem inv_spawn (h : Inv n s) (hs : step? s .spawn = some s') : Inv n s' := by
  simp only [step?] at hs
  split at hs
  · next k hc =>
    split at hs
    · next hk =>
      cases hs
      have hg := h.glob
      obtain ⟨p, hp⟩ : ∃ p, s.provs[k]? = some p := ⟨s.provs[k], List.getElem?_eq_getElem hk⟩
      have hph := h.phase k p hp
      rw [hc] at hph
      have hp0 : p = {} := hph (Nat.le_refl k)
      refine ⟨h.len, h.coh, ?_, ?_, ?_, ?_⟩
      · intro i q hq
        have := h.phase i q hq
        rw [hc] at this
        show Phase (.spawning (k + 1)) i q
        simp only [Phase] at this ⊢
        intro hle; exact this (by omega)
      · show s.startWg + 1 = cnt (fS (.spawning (k + 1))) s.provs
        have := cnt_update s.provs (fS (.spawning k)) (fS (.spawning (k + 1))) k p hp
          (by intro j q hj _; simp only [fS, spawned]; congr 1; simp; omega)
        rw [h.startWg, hc]
        subst hp0
        simp [fS, spawned] at this
        omega
      · show s.stopWg + 1 = (cnt (fR (.spawning (k + 1))) s.provs : Int)
        have := cnt_update s.provs (fR (.spawning k)) (fR (.spawning (k + 1))) k p hp
          (by intro j q hj _; simp only [fR, spawned]; congr 1; simp; omega)
        rw [h.stopWg, hc]
        subst hp0
        simp [fR, spawned, show (PPc.notStarted != PPc.returned) = true from by decide] at this
        omega
      · simp only [Glob, hc] at hg ⊢
        have := h.len
        refine ⟨by omega, hg.2.1, hg.2.2⟩
    · simp at hs
  · simp at hs

theorem lt_of_get {l : List Prov} {i : Nat} {p : Prov} (h : l[i]? = some p) : i < l.length := by
  rcases List.getElem?_eq_some_iff.mp h with ⟨hl, _⟩; exact hl

theorem inv_startWgDone (h : Inv n s) (hs : step? s .startWgDone = some s') : Inv n s' := by
  simp only [step?] at hs
  split at hs
  · next k hc =>
    split at hs
    · next hcond =>
      cases hs
      have hg := h.glob
      simp only [Bool.and_eq_true, decide_eq_true_eq] at hcond
      obtain ⟨hk, hw⟩ := hcond
      refine ⟨h.len, h.coh, ?_, ?_, ?_, ?_⟩
      · intro i p hp
        show Phase .startReturned i p
        have hz := cnt_zero s.provs (fS s.caller) (by rw [← h.startWg]; exact hw) i p hp
        have hi := lt_of_get hp
        simp only [Phase]
        intro hpc
        simp [fS, spawned, hc, hpc, hk, hi] at hz
      · show s.startWg = cnt (fS .startReturned) s.provs
        rw [h.startWg]; apply cnt_congr; intro j q hq
        have hi := lt_of_get hq
        simp [fS, spawned, hc, hk, hi]
      · show s.stopWg = (cnt (fR .startReturned) s.provs : Int)
        rw [h.stopWg]; congr 1; apply cnt_congr; intro j q hq
        have hi := lt_of_get hq
        simp [fR, spawned, hc, hk, hi]
      · simp only [Glob, hc] at hg ⊢
        exact ⟨trivial, hg.2.1, hg.2.2⟩
    · simp at hs
  · simp at hs

theorem inv_stopCall (ample : Bool) (h : Inv n s) (hs : step? s (.stopCall ample) = some s') : Inv n s' := by
  simp only [step?] at hs
  split at hs
  · next hc =>
    cases hs
    have hg := h.glob
    refine ⟨h.len, h.coh, ?_, ?_, ?_, ?_⟩
    · intro i p hp
      have := h.phase i p hp
      rw [hc] at this
      show Phase (.stopping 0 false) i p
      simp only [Phase] at this ⊢
      exact ⟨this, by omega⟩
    · show s.startWg = cnt (fS (.stopping 0 false)) s.provs
      rw [h.startWg, hc]; rfl
    · show s.stopWg = (cnt (fR (.stopping 0 false)) s.provs : Int)
      rw [h.stopWg, hc]; rfl
    · simp only [Glob, hc] at hg ⊢
      exact ⟨Nat.zero_le _, fun _ => hg.2.2, trivial⟩
  · simp at hs

theorem inv_stopWgDone (h : Inv n s) (hs : step? s .stopWgDone = some s') : Inv n s' := by
  simp only [step?] at hs
  split at hs
  · next err hc =>
    split at hs
    · next hw =>
      cases hs
      have hg := h.glob
      refine ⟨h.len, h.coh, ?_, ?_, ?_, ?_⟩
      · intro i p hp
        show Phase (.stopReturned err) i p
        have hz := cnt_zero s.provs (fR s.caller) (by have := h.stopWg; omega) i p hp
        simp only [Phase]
        simpa [fR, spawned, hc] using hz
      · show s.startWg = cnt (fS (.stopReturned err)) s.provs
        rw [h.startWg, hc]; rfl
      · show s.stopWg = (cnt (fR (.stopReturned err)) s.provs : Int)
        rw [h.stopWg, hc]; rfl
      · simp only [Glob, hc] at hg ⊢
        exact ⟨trivial, hg.2.1, trivial⟩
    · simp at hs
  · simp at hs

theorem pw_setAt {P : Nat → Prov → Prop} {l : List Prov} {i : Nat} {g : Prov → Prov}
    (h : ∀ j q, l[j]? = some q → P j q) (hi : ∀ q, l[i]? = some q → P i (g q)) :
    ∀ j q', (setAt l i g)[j]? = some q' → P j q' := by
  intro j q' hq'
  obtain ⟨q, hq, rfl⟩ := setAt_get_inv l i g j q' hq'
  by_cases hji : j = i
  · subst hji; simpa using hi q hq
  · simpa [hji] using h j q hq

@[simp] theorem bne_ns_ret : (PPc.notStarted != PPc.returned) = true := by decide
@[simp] theorem bne_sig_ret : (PPc.signalled != PPc.returned) = true := by decide
@[simp] theorem bne_srv_ret : (PPc.serving != PPc.returned) = true := by decide
@[simp] theorem bne_ret_ret : (PPc.returned != PPc.returned) = false := by decide
@[simp] theorem beq_sig_ns : (PPc.signalled == PPc.notStarted) = false := by decide
@[simp] theorem beq_srv_ns : (PPc.serving == PPc.notStarted) = false := by decide
@[simp] theorem beq_ret_ns : (PPc.returned == PPc.notStarted) = false := by decide

theorem inv_provSignal (i : Nat) (h : Inv n s) (hs : step? s (.provSignal i) = some s') : Inv n s' := by
  simp only [step?] at hs
  split at hs
  · next _ _ p hp =>
    simp only [Option.ite_none_right_eq_some, Option.some.injEq] at hs
    obtain ⟨hcond, rfl⟩ := hs
    · have hsp : spawned s.caller i = true ∧ p.pc = .notStarted := by
        revert hcond; cases s.caller <;> simp [spawned]
      obtain ⟨hsp, hpc⟩ := hsp
      have hcohp := h.coh i p hp
      have hphp := h.phase i p hp
      refine ⟨by simpa [setAt_length] using h.len, ?_, ?_, ?_, ?_, h.glob⟩
      · dsimp only
        apply pw_setAt (P := fun _ q => Coh q) h.coh
        intro q hq; rw [hp] at hq; cases hq
        obtain ⟨pc, srv, sd, infl⟩ := p
        simp only at hpc; subst hpc
        simp only [Coh] at hcohp ⊢
        simp_all
      · dsimp only
        apply pw_setAt (P := fun j q => Phase s.caller j q) h.phase
        intro q hq; rw [hp] at hq; cases hq
        revert hphp hsp
        cases s.caller <;> simp [Phase, spawned, hpc]
        omega
      · dsimp only
        have := cnt_update_setAt s.provs i (fun p => { p with pc := .signalled }) (fS s.caller) (fS s.caller) p hp
          (fun _ _ _ _ => rfl)
        simp [fS, hsp, hpc] at this
        rw [h.startWg]; omega
      · dsimp only
        rw [h.stopWg]; congr 1
        apply cnt_congr_setAt
        intro j q hq
        by_cases hji : j = i
        · subst hji; rw [hp] at hq; cases hq
          simp [fR, hpc]
        · simp [hji]
  · simp at hs

theorem inv_setAt (h : Inv n s) (i : Nat) (p : Prov) (g : Prov → Prov) (sw : Nat) (tw : Int) (cp : Nat)
    (hp : s.provs[i]? = some p)
    (hcoh : Coh (g p)) (hph : Phase s.caller i (g p))
    (hS : sw + (fS s.caller i p).toNat = s.startWg + (fS s.caller i (g p)).toNat)
    (hR : tw + ((fR s.caller i p).toNat : Int) = s.stopWg + ((fR s.caller i (g p)).toNat : Int)) :
    Inv n { s with provs := setAt s.provs i g, startWg := sw, stopWg := tw, completed := cp } := by
  refine ⟨by simpa [setAt_length] using h.len, ?_, ?_, ?_, ?_, h.glob⟩
  · dsimp only
    apply pw_setAt (P := fun _ q => Coh q) h.coh
    intro q hq; rw [hp] at hq; cases hq; exact hcoh
  · dsimp only
    apply pw_setAt (P := fun j q => Phase s.caller j q) h.phase
    intro q hq; rw [hp] at hq; cases hq; exact hph
  · dsimp only
    have := cnt_update_setAt s.provs i g (fS s.caller) (fS s.caller) p hp (fun _ _ _ _ => rfl)
    have := h.startWg
    omega
  · dsimp only
    have := cnt_update_setAt s.provs i g (fR s.caller) (fR s.caller) p hp (fun _ _ _ _ => rfl)
    have := h.stopWg
    omega

theorem spawned_of_ne {c : CallerPc} {i : Nat} {p : Prov} (h : Phase c i p) (hne : p ≠ {}) :
    spawned c i = true := by
  cases c with
  | idle => exact absurd h hne
  | spawning k =>
    simp only [Phase] at h
    simp only [spawned, decide_eq_true_eq]
    apply Nat.lt_of_not_le
    intro hle; exact hne (h hle)
  | waitingStartWg => exact absurd h (by simp [Phase])
  | _ => rfl

theorem inv_provServe (i : Nat) (h : Inv n s) (hs : step? s (.provServe i) = some s') : Inv n s' := by
  simp only [step?] at hs
  split at hs
  · next p hp =>
    have hcohp := h.coh i p hp
    have hphp := h.phase i p hp
    by_cases hpc : p.pc = .signalled
    · rw [if_pos hpc] at hs
      have hne : p ≠ {} := by intro e; rw [e] at hpc; cases hpc
      have hsp := spawned_of_ne hphp hne
      by_cases hsd : p.shutdownCalled = true
      · rw [if_pos hsd] at hs
        obtain rfl := Option.some.inj hs
        apply inv_setAt h i p _ _ _ _ hp
        · obtain ⟨pc, srv, sd, infl⟩ := p
          simp only [Coh] at hcohp ⊢
          simp_all
        · revert hphp hsp
          cases s.caller <;> simp [Phase, spawned, hpc] <;> omega
        · simp [fS, hpc]
        · simp [fR, hpc]
      · rw [if_neg hsd] at hs
        obtain rfl := Option.some.inj hs
        apply inv_setAt h i p _ _ _ _ hp
        · obtain ⟨pc, srv, sd, infl⟩ := p
          simp only [Coh] at hcohp ⊢
          simp_all
        · revert hphp hsp
          cases s.caller <;> simp [Phase, spawned, hpc] <;> omega
        · simp [fS, hpc]
        · simp [fR, hpc]
    · rw [if_neg hpc] at hs; cases hs
  · simp at hs

theorem inv_provReturn (i : Nat) (h : Inv n s) (hs : step? s (.provReturn i) = some s') : Inv n s' := by
  simp only [step?] at hs
  split at hs
  · next p hp =>
    have hcohp := h.coh i p hp
    have hphp := h.phase i p hp
    simp only [Option.ite_none_right_eq_some, Option.some.injEq, Bool.and_eq_true, decide_eq_true_eq] at hs
    obtain ⟨⟨hpc, hsrv⟩, rfl⟩ := hs
    have hne : p ≠ {} := by intro e; rw [e] at hpc; cases hpc
    have hsp := spawned_of_ne hphp hne
    apply inv_setAt h i p _ _ _ _ hp
    · obtain ⟨pc, srv, sd, infl⟩ := p
      simp only [Coh] at hcohp ⊢
      simp_all
    · revert hphp hsp
      cases s.caller <;> simp [Phase, spawned, hpc] <;> omega
    · simp [fS, hpc]
    · simp [fR, hpc, hsp]
  · simp at hs

theorem inv_request (i : Nat) (h : Inv n s) (hs : step? s (.request i) = some s') : Inv n s' := by
  simp only [step?] at hs
  split at hs
  · next p hp =>
    have hcohp := h.coh i p hp
    have hphp := h.phase i p hp
    simp only [Option.ite_none_right_eq_some, Option.some.injEq, Bool.and_eq_true, decide_eq_true_eq,
      Bool.not_eq_true'] at hs
    obtain ⟨⟨hsrv, hsd⟩, rfl⟩ := hs
    have hne : p ≠ {} := by intro e; rw [e] at hsrv; cases hsrv
    have hsp := spawned_of_ne hphp hne
    apply inv_setAt h i p _ _ _ _ hp
    · obtain ⟨pc, srv, sd, infl⟩ := p
      simp only [Coh] at hcohp ⊢
      simp_all
    · revert hphp hsp
      cases s.caller <;> simp [Phase, spawned] <;> omega
    · simp [fS]
    · simp [fR]
  · simp at hs

theorem inv_finishReq (i : Nat) (h : Inv n s) (hs : step? s (.finishReq i) = some s') : Inv n s' := by
  simp only [step?] at hs
  split at hs
  · next p hp =>
    have hcohp := h.coh i p hp
    have hphp := h.phase i p hp
    simp only [Option.ite_none_right_eq_some, Option.some.injEq] at hs
    obtain ⟨hinf, rfl⟩ := hs
    have hne : p ≠ {} := by intro e; rw [e] at hinf; simp at hinf
    have hsp := spawned_of_ne hphp hne
    apply inv_setAt h i p _ _ _ _ hp
    · obtain ⟨pc, srv, sd, infl⟩ := p
      simp only [Coh] at hcohp ⊢
      simp_all
    · revert hphp hsp
      cases s.caller <;> simp [Phase, spawned] <;> omega
    · simp [fS]
    · simp [fR]
  · simp at hs

theorem pw_setAt' {P : Nat → Prov → Prop} {l : List Prov} {i : Nat} {g : Prov → Prov}
    (h : ∀ j q, j ≠ i → l[j]? = some q → P j q) (hi : ∀ q, l[i]? = some q → P i (g q)) :
    ∀ j q', (setAt l i g)[j]? = some q' → P j q' := by
  intro j q' hq'
  obtain ⟨q, hq, rfl⟩ := setAt_get_inv l i g j q' hq'
  by_cases hji : j = i
  · subst hji; simpa using hi q hq
  · simpa [hji] using h j q hji hq

theorem inv_provStop_some (h : Inv n s) (k : Nat) (err err' : Bool) (p : Prov) (g : Prov → Prov) (ab : Nat)
    (hc : s.caller = .stopping k err) (hp : s.provs[k]? = some p)
    (hg1 : (g p).pc = p.pc) (hg2 : (g p).shutdownCalled = true)
    (hg3 : (g p).srv = if p.srv = .serving then .closed else p.srv) (hg4 : (g p).inflight = 0)
    (hab : s.ctxAmple = true → ab = 0) :
    Inv n { s with provs := setAt s.provs k g, aborted := ab, caller := .stopping (k + 1) err' } := by
  have hcohp := h.coh k p hp
  have hphp := h.phase k p hp
  have hg := h.glob
  refine ⟨by simpa [setAt_length] using h.len, ?_, ?_, ?_, ?_, ?_⟩
  · dsimp only
    apply pw_setAt (P := fun _ q => Coh q) h.coh
    intro q hq; rw [hp] at hq; cases hq
    simp only [Coh, hg1, hg2, hg3, hg4] at hcohp ⊢
    obtain ⟨pc, srv, sd, inf⟩ := p
    cases srv <;> simp_all
  · dsimp only
    apply pw_setAt' (P := fun j q => Phase (.stopping (k + 1) err') j q)
    · intro j q hj hq
      have := h.phase j q hq
      rw [hc] at this
      simp only [Phase] at this ⊢
      exact ⟨this.1, fun hlt => this.2 (by omega)⟩
    · intro q hq; rw [hp] at hq; cases hq
      rw [hc] at hphp
      simp only [Phase] at hphp ⊢
      rw [hg1, hg2]
      exact ⟨hphp.1, by simp⟩
  · dsimp only
    rw [h.startWg, hc]
    apply cnt_congr_setAt
    intro j q hq
    by_cases hji : j = k
    · subst hji; rw [hp] at hq; cases hq; simp [fS, spawned, hg1]
    · simp [hji, fS, spawned]
  · dsimp only
    rw [h.stopWg, hc]; congr 1
    apply cnt_congr_setAt
    intro j q hq
    by_cases hji : j = k
    · subst hji; rw [hp] at hq; cases hq; simp [fR, spawned, hg1]
    · simp [hji, fR, spawned]
  · have hk := lt_of_get hp
    have hl := h.len
    simp only [Glob, hc] at hg ⊢
    exact ⟨by omega, hab, trivial⟩

theorem inv_provStop (h : Inv n s) (hs : step? s .provStop = some s') : Inv n s' := by
  simp only [step?] at hs
  split at hs
  · next k err hc =>
    split at hs
    · next p hp =>
      by_cases hinf : p.inflight = 0
      · rw [if_pos hinf] at hs
        obtain rfl := Option.some.inj hs
        exact inv_provStop_some h k err err p _ s.aborted hc hp rfl rfl rfl hinf h.glob.2.1
      · rw [if_neg hinf] at hs
        simp only [Option.ite_none_right_eq_some, Option.some.injEq, Bool.not_eq_true'] at hs
        obtain ⟨hctx, rfl⟩ := hs
        exact inv_provStop_some h k err true p _ (s.aborted + p.inflight) hc hp rfl rfl rfl rfl (by simp [hctx])
    · next hnone =>
      simp only [Option.ite_none_right_eq_some, Option.some.injEq] at hs
      obtain ⟨hk, rfl⟩ := hs
      have hg := h.glob
      refine ⟨h.len, h.coh, ?_, ?_, ?_, ?_⟩
      · intro i p hp
        have := h.phase i p hp
        have hi : i < s.provs.length := lt_of_get hp
        rw [hc] at this
        show Phase (.waitingStopWg err) i p
        simp only [Phase] at this ⊢
        exact ⟨this.1, this.2 (by omega)⟩
      · show s.startWg = cnt (fS (.waitingStopWg err)) s.provs
        rw [h.startWg, hc]; rfl
      · show s.stopWg = (cnt (fR (.waitingStopWg err)) s.provs : Int)
        rw [h.stopWg, hc]; rfl
      · simp only [Glob, hc] at hg ⊢
        exact ⟨trivial, hg.2.1, trivial⟩
  · simp at hs

theorem inv_step (a : Act) (h : Inv n s) (hs : step? s a = some s') : Inv n s' := by
  cases a with
  | startCall => exact inv_startCall h hs
  | spawn => exact inv_spawn h hs
  | startWgDone => exact inv_startWgDone h hs
  | provSignal i => exact inv_provSignal i h hs
  | provServe i => exact inv_provServe i h hs
  | provReturn i => exact inv_provReturn i h hs
  | request i => exact inv_request i h hs
  | finishReq i => exact inv_finishReq i h hs
  | stopCall a => exact inv_stopCall a h hs
  | provStop => exact inv_provStop h hs
  | stopWgDone => exact inv_stopWgDone h hs

theorem inv_reach {s : St} (hr : Reach n s) : Inv n s := by
  induction hr with
  | init => exact inv_init n
  | step a _ hs ih => exact inv_step a ih hs


end LcProofs
end TV.Server
