import Driver.Pub
import TV.Proofs.Publisher
import TV.Proofs.MonitorPubInv
import TV.Proofs.MonitorWQLemmas
/-!
# The model passes the Publication monitors

For every reachable state `s` of the Publication model, the clauses the driver evaluates on the
*implementation's* observations hold of the model's own observation `obsOf s` and of the bookkeeping
`mstOf s` that the driver would have recorded from the script.  (Core-only.)

The bookkeeping needs to know, per subscriber, how many messages had been published when it
subscribed and when it was closed; these are ghost fields `subAt` / `closedAt` of `Sub`.

The invariants behind the theorems are in `MonitorPubLemmas` (list level) and `MonitorPubInv` (state level);
`Array.qsort` (in `obsOf`) is handled through `TV.QSortPerm.qsort_perm` of `MonitorWQLemmas`.
-/
namespace TV.Publisher.MonSound
open TV.Publisher TV.Publisher.Mon Driver.Pub TV.Publisher.Proofs

/-- the bookkeeping that corresponds to a model state. -/
def mstOf (s : St) : MSt :=
  { subs := s.subs.map (fun x =>
      { cap := x.cap, filter := x.filter, short := x.timeout == 1, cbF := x.cbFiltered, cbT := x.cbTimeout,
        subAt := x.subAt, closedAt := x.closedAt }),
    pubs := s.published.map (·.2),
    slept := s.now != 0 }

/-! ### glue: positions, sorting, Boolean tests -/

def infoOf (x : Sub) : SubInfo :=
  { cap := x.cap, filter := x.filter, short := x.timeout == 1, cbF := x.cbFiltered, cbT := x.cbTimeout,
    subAt := x.subAt, closedAt := x.closedAt }

def recvOf (s : St) (x : Sub) : List Nat := (s.received.filter (·.1 == x.id)).map (·.2)

theorem nodupB_iff (l : List Nat) : nodupB l = true ↔ l.Nodup := by
  induction l with
  | nil => simp [nodupB]
  | cons x xs ih => simp [nodupB, ih, List.nodup_cons]

theorem subs_seq {s : St} (h : MInv s) : s.subs.map (·.id) = List.range' 1 s.subs.length := by
  have := h.G.seq
  simpa [ghs, Sub.gh, Function.comp_def] using this

/-- the `k`-th entry of the bookkeeping and of the observation belongs to the subscriber with id `k`. -/
theorem zip_spec {s : St} (h : MInv s) {p : Nat × SubInfo} (hp : p ∈ zipIdx1 (mstOf s).subs) :
    ∃ x ∈ s.subs, p.1 = x.id ∧ p.2 = infoOf x ∧ (obsOf s).recvd.getD (p.1 - 1) [] = recvOf s x ∧
      (obsOf s).bufs.getD (p.1 - 1) 0 = x.buf.length := by
  unfold zipIdx1 at hp
  simp only [List.mem_map] at hp
  obtain ⟨⟨a, i⟩, hai, rfl⟩ := hp
  rw [List.mem_zipIdx_iff_getElem?] at hai
  simp only [mstOf, List.getElem?_map] at hai
  cases hx : s.subs[i]? with
  | none => simp [hx] at hai
  | some x =>
    simp only [hx, Option.map_some, Option.some.injEq] at hai
    have hi : i < s.subs.length := by
      rcases Nat.lt_or_ge i s.subs.length with h | h
      · exact h
      · rw [List.getElem?_eq_none h] at hx; cases hx
    have hid : x.id = i + 1 := by
      have h1 : (s.subs.map (·.id))[i]? = some x.id := by simp [hx]
      rw [subs_seq h, List.getElem?_range' hi] at h1
      simp at h1; omega
    refine ⟨x, List.mem_of_getElem? hx, hid.symm, hai.symm, ?_, ?_⟩
    · simp [obsOf, List.getD_eq_getElem?_getD, hx, recvOf]
    · simp [obsOf, List.getD_eq_getElem?_getD, hx]

theorem cbs_perm (s : St) : ((obsOf s).cbs).Perm (s.callbacks.map (fun c => (c.1, c.2.1, c.2.2.2))) :=
  TV.QSortPerm.qsort_perm _ _

def gotF (s : St) (k : Nat) : List Nat := (s.callbacks.filter (fun c => !c.1 && c.2.1 == k)).map (·.2.2.2)
def gotT (s : St) (k : Nat) : List Nat := (s.callbacks.filter (cbTo k)).map (·.2.2.2)

theorem gotF_perm (s : St) (k : Nat) :
    (((obsOf s).cbs.filter (fun c => !c.1 && c.2.1 == k)).map (·.2.2)).Perm (gotF s k) := by
  refine (((cbs_perm s).filter _).map _).trans ?_
  rw [List.filter_map, List.map_map]
  exact .rfl

theorem gotT_perm (s : St) (k : Nat) :
    (((obsOf s).cbs.filter (fun c => c.1 && c.2.1 == k)).map (·.2.2)).Perm (gotT s k) := by
  refine (((cbs_perm s).filter _).map _).trans ?_
  rw [List.filter_map, List.map_map]
  exact .rfl

theorem mem_gotF {s : St} {k v : Nat} : v ∈ gotF s k ↔ ∃ u, (false, k, u, v) ∈ s.callbacks := by
  unfold gotF
  simp only [List.mem_map, List.mem_filter, Bool.and_eq_true, Bool.not_eq_eq_eq_not, Bool.not_true, beq_iff_eq]
  constructor
  · rintro ⟨⟨b, k', u, v'⟩, ⟨hc, hb, hk⟩, rfl⟩
    simp only at hb hk
    subst hb; subst hk
    exact ⟨u, hc⟩
  · rintro ⟨u, hc⟩
    exact ⟨_, ⟨hc, rfl, rfl⟩, rfl⟩

theorem mem_gotT {s : St} {k v : Nat} : v ∈ gotT s k ↔ ∃ u, (true, k, u, v) ∈ s.callbacks := by
  unfold gotT cbTo
  simp only [List.mem_map, List.mem_filter, Bool.and_eq_true, beq_iff_eq]
  constructor
  · rintro ⟨⟨b, k', u, v'⟩, ⟨hc, hb, hk⟩, rfl⟩
    simp only at hb hk
    subst hb; subst hk
    exact ⟨u, hc⟩
  · rintro ⟨u, hc⟩
    exact ⟨_, ⟨hc, rfl, rfl⟩, rfl⟩

theorem nodup_map_on {α β} {f : α → β} {l : List α} (hl : l.Nodup) (hinj : ∀ a ∈ l, ∀ b ∈ l, f a = f b → a = b) :
    (l.map f).Nodup := by
  unfold List.Nodup at hl ⊢
  rw [List.pairwise_map]
  exact hl.imp_of_mem (fun ha hb hne e => hne (hinj _ ha _ hb e))

/-- the published values are pairwise distinct (the harness publishes distinct values). -/
def distinctPubs (s : St) : Prop := (s.published.map (·.2)).Nodup

theorem uid_of_value {s : St} (hd : distinctPubs s) {u u' v : Nat} (h1 : (u, v) ∈ s.published) (h2 : (u', v) ∈ s.published) : u = u' := by
  have := nodup_map_inj hd h1 h2 rfl
  simpa using congrArg Prod.fst this

theorem nodup_got {s : St} (hI : Inv s) (hd : distinctPubs s) (p : (Bool × Nat × Nat × Nat) → Bool)
    (hp : ∀ c ∈ s.callbacks, ∀ c' ∈ s.callbacks, p c = true → p c' = true → c.1 = c'.1 ∧ c.2.1 = c'.2.1) :
    ((s.callbacks.filter p).map (·.2.2.2)).Nodup := by
  have hn : s.callbacks.Nodup := by
    have := hI.E.cbNodup
    unfold List.Nodup at this ⊢
    rw [List.pairwise_map] at this
    exact this.imp (fun hne e => hne (by rw [e]))
  apply nodup_map_on (hn.sublist List.filter_sublist)
  intro a ha b hb e
  rw [List.mem_filter] at ha hb
  have h1 := (hI.E.cbSound a ha.1).1
  have h2 := (hI.E.cbSound b hb.1).1
  rw [e] at h1
  have hu := uid_of_value hd h1 h2
  obtain ⟨e1, e2⟩ := hp a ha.1 b hb.1 ha.2 hb.2
  exact nodup_map_inj hI.E.cbNodup ha.1 hb.1 (by simp [e1, e2, hu])

/-! ### windows -/

theorem mem_window {s : St} (h : MInv s) {lo hi v : Nat} :
    v ∈ ((s.published.map (·.2)).take hi).drop lo ↔ ∃ u, lo ≤ u ∧ u < hi ∧ (u, v) ∈ s.published := by
  rw [List.mem_iff_getElem?]
  constructor
  · rintro ⟨i, hi'⟩
    rw [List.getElem?_drop, List.getElem?_take] at hi'
    split at hi'
    · exact ⟨lo + i, by omega, by assumption, h.P.getElem?.2 hi'⟩
    · cases hi'
  · rintro ⟨u, h1, h2, h3⟩
    refine ⟨u - lo, ?_⟩
    rw [List.getElem?_drop, List.getElem?_take, if_pos (by omega)]
    have : lo + (u - lo) = u := by omega
    rw [this]
    exact h.P.getElem?.1 h3

/-- the upper end of the window of `x`. -/
def hiOf (s : St) (x : Sub) : Nat := x.closedAt.getD (s.published.map (·.2)).length

theorem accepted_eq (s : St) (x : Sub) :
    accepted (mstOf s) (infoOf x) = (((s.published.map (·.2)).take (hiOf s x)).drop x.subAt).filter x.filter.accepts := rfl

/-- an outcome that is not `filtered` lies in the window of its subscriber and carries an accepted message. -/
theorem live_in_window {s : St} (hI : Inv s) (h : MInv s) {x : Sub} (hx : x ∈ s.subs) {u v : Nat} {o : Outcome}
    (ho : (u, x.id, o) ∈ s.outcomes) (hk : o = .sent ∨ o = .timedOut) (hv : (u, v) ∈ s.published) :
    v ∈ accepted (mstOf s) (infoOf x) := by
  have hg : x.gh ∈ ghs s := List.mem_map_of_mem hx
  rw [accepted_eq, List.mem_filter]
  constructor
  · rw [mem_window h]
    refine ⟨u, h.O.lowO _ ho _ hg rfl, ?_, hv⟩
    unfold hiOf
    cases hc : x.closedAt with
    | none =>
      have := hI.out_lt _ ho
      have := h.P.nu
      simp; omega
    | some c => exact h.O.hiO _ ho hk _ hg rfl c hc
  · have := h.O.accO _ ho _ hg rfl v hv
    simp only [Sub.gh] at this
    cases ha : x.filter.accepts v with
    | true => rfl
    | false =>
      have := this.1 ha
      rcases hk with rfl | rfl <;> cases this

/-! ### the four theorems -/

-- CHANGED: hypothesis `s.panicked = false` dropped (it holds in every reachable state, `C10_no_panic`), and
-- `distinctPubs s` added: `C06.at_most_once` compares the received *values*, so it needs the harness's guarantee that
-- the published values are distinct.  Counterexample without it (checked with `#eval`): after
-- `[.subscribe 2 .none 1000 false false, .publish 5, .publish 5, .acquireR 0 1, .deliver 0 1, .acquireR 1 1,
--   .deliver 1 1, .receive 1, .receive 1]` the subscriber has received `[5, 5]` and `deliveriesOK` reports
-- `C06.at_most_once`.
theorem deliveriesOK_sound {s : St} (h : Reach s) (hd : distinctPubs s) :
    deliveriesOK (mstOf s) (obsOf s) = [] := by
  have hI := Inv_of_Reach h
  have hM := MInv_of_Reach h
  unfold deliveriesOK
  rw [List.flatMap_eq_nil_iff]
  rintro ⟨k, si⟩ hp
  obtain ⟨x, hx, hk, hsi, hr, _⟩ := zip_spec hM hp
  simp only at hk hsi hr
  subst hk; subst hsi
  simp only [hr]
  have hg : x.gh ∈ ghs s := List.mem_map_of_mem hx
  -- every received value was sent to `x` under some ordinal
  have hrecv : ∀ v ∈ recvOf s x, ∃ u, (u, v) ∈ s.published ∧ (u, x.id, Outcome.sent) ∈ s.outcomes := by
    intro v hv
    simp only [recvOf, List.mem_map, List.mem_filter, beq_iff_eq] at hv
    obtain ⟨r, ⟨hr1, hr2⟩, rfl⟩ := hv
    obtain ⟨u, h1, h2⟩ := hI.D.recvSent r hr1
    exact ⟨u, h1, by rw [← hr2]; exact h2⟩
  have c1 : nodupB (recvOf s x) = true := by
    rw [nodupB_iff]
    have hseq := hM.S.seq _ (mem_bufs hx)
    simp only [Sub.bufv] at hseq
    have hn : ((s.outcomes.filter (sentTo x.id)).map (fun o => msgOf s.published o.1)).Nodup := by
      have hon : s.outcomes.Nodup := by
        have := hI.B.pairsNodup
        rw [List.nodup_append] at this
        have := this.1
        unfold List.Nodup at this ⊢
        rw [List.pairwise_map] at this
        exact this.imp (fun hne e => hne (by rw [e]))
      apply nodup_map_on (hon.sublist List.filter_sublist)
      intro a ha b hb e
      rw [List.mem_filter] at ha hb
      obtain ⟨ma, hma⟩ := hI.B.outPub a ha.1
      obtain ⟨mb, hmb⟩ := hI.B.outPub b hb.1
      rw [msgOf_mem hI.B.pubNodup hma, msgOf_mem hI.B.pubNodup hmb] at e
      subst e
      have hu := uid_of_value hd hma hmb
      have ha2 := ha.2
      have hb2 := hb.2
      simp only [sentTo, Bool.and_eq_true, beq_iff_eq] at ha2 hb2
      obtain ⟨a1, a2, a3⟩ := a
      obtain ⟨b1, b2, b3⟩ := b
      simp only at hu ha2 hb2
      rw [hu, ha2.1, ha2.2, hb2.1, hb2.2]
    rw [← hseq] at hn
    exact (List.nodup_append.1 hn).1
  have c2 : (recvOf s x).all (fun v => (mstOf s).pubs.contains v && (infoOf x).filter.accepts v) = true := by
    rw [List.all_eq_true]
    intro v hv
    obtain ⟨u, h1, h2⟩ := hrecv v hv
    have hmem : v ∈ (mstOf s).pubs := List.mem_map.2 ⟨_, h1, rfl⟩
    have hacc := (List.mem_filter.1 (live_in_window hI hM hx h2 (Or.inl rfl) h1)).2
    simp only [Bool.and_eq_true, List.contains_iff_mem]
    exact ⟨hmem, hacc⟩
  have c3 : (recvOf s x).all (fun v => (accepted (mstOf s) (infoOf x)).contains v) = true := by
    rw [List.all_eq_true]
    intro v hv
    obtain ⟨u, h1, h2⟩ := hrecv v hv
    simp only [List.contains_iff_mem]
    exact live_in_window hI hM hx h2 (Or.inl rfl) h1
  rw [if_pos c1, if_pos c2, if_pos c3]
  rfl

theorem buffersOK_sound {s : St} (h : Reach s) : buffersOK (mstOf s) (obsOf s) = [] := by
  have hI := Inv_of_Reach h
  have hM := MInv_of_Reach h
  unfold buffersOK
  rw [if_pos]
  rw [List.all_eq_true]
  rintro ⟨k, si⟩ hp
  obtain ⟨x, hx, hk, hsi, _, hb⟩ := zip_spec hM hp
  simp only at hk hsi hb
  subst hk; subst hsi
  simp only [hb, decide_eq_true_eq]
  exact hI.D.bufCap _ (mem_bufs hx)

/-- the harness uses two timeouts: the short one (1 tick) and a long one that never expires during a script. -/
def timeoutsOK (s : St) : Prop := ∀ x ∈ s.subs, x.timeout = 1 ∨ s.now < x.timeout

-- CHANGED: hypothesis `s.panicked = false` dropped (see above); three side conditions added, each guaranteed by the harness
-- (counterexamples checked with `#eval`):
-- * `distinctPubs s` — the clauses compare callback *values*: after `[.subscribe 2 .never 1000 true false, .publish 5,
--   .publish 5]` OnFiltered has reported `5` twice and `callbacksOK` reports `C15.on_filtered_exactly_once`;
-- * `timeoutsOK s` — the bookkeeping (`short`, `slept`) assumes that only the short timeout (1 tick) ever fires: after
--   `[.subscribe 0 .none 2 false true, .publish 5, .acquireR 0 1, .tick, .tick, .timeout 0 1]` a subscriber that is not
--   `short` has an OnTimeout callback and `callbacksOK` reports `C15.on_timeout_own_deadline_once`;
-- * `ReachG s` instead of `Reach s` — a Publish is issued only when no close is in progress (the harness issues every
--   operation at a quiescent point; `quiescent_closesDone`).  Between `close(done)` and `close(receiveCh)` the subscriber
--   is still registered, so a concurrent Publish still calls OnFiltered: after
--   `[.subscribe 0 .never 1000 true false, .closeSub 1, .publish 7]` OnFiltered has reported `7`, published after the
--   close began (`closedAt = some 0`), and `callbacksOK` reports `C15.on_filtered_exactly_once`.
theorem callbacksOK_sound {s : St} (h : ReachG s) (hd : distinctPubs s) (ht : timeoutsOK s) :
    callbacksOK (mstOf s) (obsOf s) = [] := by
  have hI := Inv_of_Reach h.reach
  have hM := MInv_of_Reach h.reach
  have hF := FInv_of_ReachG h
  have okF : ((zipIdx1 (mstOf s).subs).all fun (k, si) =>
      let expect := if si.cbF then (((mstOf s).pubs.take (si.closedAt.getD (mstOf s).pubs.length)).drop si.subAt).filter (fun v => !si.filter.accepts v) else []
      let got := ((obsOf s).cbs.filter (fun c => !c.1 && c.2.1 == k)).map (·.2.2)
      nodupB got && got.all expect.contains && expect.all got.contains) = true := by
    rw [List.all_eq_true]
    rintro ⟨k, si⟩ hp
    obtain ⟨x, hx, hk, hsi, _, _⟩ := zip_spec hM hp
    simp only at hk hsi
    subst hk; subst hsi
    have hg : x.gh ∈ ghs s := List.mem_map_of_mem hx
    have hperm := gotF_perm s x.id
    dsimp only
    simp only [Bool.and_eq_true, nodupB_iff, List.all_eq_true, List.contains_iff_mem, hperm.nodup_iff, hperm.mem_iff]
    have hwin : ∀ v, v ∈ List.filter (fun v => !(infoOf x).filter.accepts v)
          (List.drop (infoOf x).subAt (List.take ((infoOf x).closedAt.getD (mstOf s).pubs.length) (mstOf s).pubs)) ↔
        (∃ u, x.subAt ≤ u ∧ u < hiOf s x ∧ (u, v) ∈ s.published) ∧ x.filter.accepts v = false := by
      intro v
      rw [List.mem_filter]
      show v ∈ ((s.published.map (·.2)).take (hiOf s x)).drop x.subAt ∧ _ ↔ _
      rw [mem_window hM]
      simp [infoOf]
    refine ⟨⟨?_, ?_⟩, ?_⟩
    · apply nodup_got hI hd
      intro c _ c' _ h1 h2
      simp only [Bool.and_eq_true, Bool.not_eq_eq_eq_not, Bool.not_true, beq_iff_eq] at h1 h2
      exact ⟨by rw [h1.1, h2.1], by rw [h1.2, h2.2]⟩
    · intro v hv
      rw [mem_gotF] at hv
      obtain ⟨u, hc⟩ := hv
      obtain ⟨h1, h2, t, ht1, ht2, ht3⟩ := hI.E.cbSound _ hc
      simp only [Bool.false_eq_true, if_false] at h1 h2 ht2 ht3
      have : t = x.static := hI.A.uniq ht1 (mem_statics hx) (by simpa [Sub.static] using ht2)
      subst this
      have hcb : (infoOf x).cbF = true := ht3
      rw [if_pos hcb, hwin]
      refine ⟨⟨u, hM.O.lowO _ h2 _ hg rfl, ?_, h1⟩, ?_⟩
      · unfold hiOf
        cases hcl : x.closedAt with
        | none =>
          have := hI.out_lt _ h2
          have := hM.P.nu
          simp; omega
        | some c => exact hF.hiF _ h2 rfl _ hg rfl c hcl
      · exact (hM.O.accO _ h2 _ hg rfl v h1).2 rfl
    · intro v hv
      cases hcb : (infoOf x).cbF with
      | false => rw [hcb] at hv; simp at hv
      | true =>
        rw [hcb, if_pos rfl, hwin] at hv
        obtain ⟨⟨u, h1, h2, h3⟩, h4⟩ := hv
        have hfo := hM.O.filtAll _ hg (u, v) h3 h1 (by simpa [hiOf, Sub.gh] using h2) h4
        have := (hI.E.cbComplete _ hfo _ (mem_statics hx) rfl v h3).2 rfl hcb
        rw [mem_gotF]
        exact ⟨u, this⟩
  have okT : ((zipIdx1 (mstOf s).subs).all fun (k, si) =>
      let got := ((obsOf s).cbs.filter (fun c => c.1 && c.2.1 == k)).map (·.2.2)
      nodupB got && (got.isEmpty || (si.cbT && si.short && (mstOf s).slept)) && got.all (fun v => (accepted (mstOf s) si).contains v) &&
      got.all (fun v => !((obsOf s).recvd.getD (k - 1) []).contains v)) = true := by
    rw [List.all_eq_true]
    rintro ⟨k, si⟩ hp
    obtain ⟨x, hx, hk, hsi, hr, _⟩ := zip_spec hM hp
    simp only at hk hsi hr
    subst hk; subst hsi
    have hg : x.gh ∈ ghs s := List.mem_map_of_mem hx
    have hperm := gotT_perm s x.id
    dsimp only
    rw [hr]
    simp only [Bool.and_eq_true, nodupB_iff, List.all_eq_true, List.contains_iff_mem, hperm.nodup_iff, hperm.mem_iff,
      hperm.isEmpty_eq]
    -- a timeout callback for `x` reports a timed-out delivery of a published message
    have hcbT : ∀ v ∈ gotT s x.id, ∃ u, (u, v) ∈ s.published ∧ (u, x.id, Outcome.timedOut) ∈ s.outcomes ∧ x.cbTimeout = true := by
      intro v hv
      rw [mem_gotT] at hv
      obtain ⟨u, hc⟩ := hv
      obtain ⟨h1, h2, t, ht1, ht2, ht3⟩ := hI.E.cbSound _ hc
      simp only [if_true] at h1 h2 ht2 ht3
      have : t = x.static := hI.A.uniq ht1 (mem_statics hx) (by simpa [Sub.static] using ht2)
      subst this
      exact ⟨u, h1, h2, ht3⟩
    refine ⟨⟨⟨?_, ?_⟩, ?_⟩, ?_⟩
    · apply nodup_got hI hd
      intro c _ c' _ h1 h2
      simp only [cbTo, Bool.and_eq_true, beq_iff_eq] at h1 h2
      exact ⟨by rw [h1.1, h2.1], by rw [h1.2, h2.2]⟩
    · cases hgot : gotT s x.id with
      | nil => simp
      | cons v rest =>
        obtain ⟨u, h1, h2, h3⟩ := hcbT v (by rw [hgot]; exact List.mem_cons_self)
        have hto := hM.O.toNow _ h2 rfl _ hg rfl
        simp only [Sub.gh] at hto
        have h1t : x.timeout = 1 := by
          rcases ht x hx with e | e
          · exact e
          · omega
        have hnow : s.now ≠ 0 := by omega
        simp [infoOf, mstOf, h3, h1t, hnow]
    · intro v hv
      obtain ⟨u, h1, h2, _⟩ := hcbT v hv
      exact live_in_window hI hM hx h2 (Or.inr rfl) h1
    · intro v hv
      obtain ⟨u, h1, h2, _⟩ := hcbT v hv
      simp only [Bool.not_eq_eq_eq_not, Bool.not_true]
      cases hcon : (recvOf s x).contains v with
      | false => rfl
      | true =>
        exfalso
        rw [List.contains_iff_mem] at hcon
        simp only [recvOf, List.mem_map, List.mem_filter, beq_iff_eq] at hcon
        obtain ⟨r, ⟨hr1, hr2⟩, rfl⟩ := hcon
        obtain ⟨u', h3, h4⟩ := hI.D.recvSent r hr1
        rw [hr2] at h4
        have hu := uid_of_value hd h1 h3
        subst hu
        have hn := hI.B.pairsNodup
        rw [List.nodup_append] at hn
        have := nodup_map_inj hn.1 h2 h4 rfl
        simp at this
  unfold callbacksOK
  have key : ∀ (a b : Bool), a = true → b = true →
      ((if a then [] else ["C15.on_filtered_exactly_once"]) ++ (if b then [] else ["C15.on_timeout_own_deadline_once"]) : List String) = [] := by
    intro a b ha hb; subst ha; subst hb; rfl
  exact key _ _ okF okT

def cancTo (k : Nat) (o : Nat × Nat × Outcome) : Bool := o.2.1 == k && o.2.2 == .cancelled

theorem live_split (k : Nat) (l : List (Nat × Nat × Outcome)) :
    (l.filter (liveTo k)).length = (l.filter (sentTo k)).length + (l.filter (toTo k)).length + (l.filter (cancTo k)).length := by
  induction l with
  | nil => rfl
  | cons o l ih =>
    obtain ⟨u, j, oc⟩ := o
    simp only [List.filter_cons]
    by_cases e : j = k <;> cases oc <;> simp [liveTo, sentTo, toTo, cancTo, e, ih] <;> omega

theorem tcb_eq (s : St) (k : Nat) :
    ((obsOf s).cbs.filter (fun c => c.1 && c.2.1 == k)).length = (s.callbacks.filter (cbTo k)).length := by
  rw [((cbs_perm s).filter _).length_eq, List.filter_map, List.length_map]
  rfl

-- CHANGED: hypothesis `s.panicked = false` dropped (see above), `timeoutsOK s` added: for a subscriber that is not `short`
-- the clause demands that every accepted message has been received or is buffered, i.e. that the long timeout has not
-- fired.  Counterexample without it (checked with `#eval`): after `[.subscribe 0 .none 2 false true, .publish 5,
-- .acquireR 0 1, .tick, .tick, .timeout 0 1]` nothing is pending, the accepted message was dropped, and `ledgerOK` reports
-- `C06.exactly_once_if_receiving`.  (No quiescence hypothesis is needed: the clause's own guard `pend = 0 ∧ other = 0`
-- suffices.)
theorem ledgerOK_sound {s : St} (h : Reach s) (ht : timeoutsOK s) :
    ledgerOK (mstOf s) (obsOf s) = [] := by
  have hI := Inv_of_Reach h
  have hM := MInv_of_Reach h
  unfold ledgerOK
  split
  · rfl
  · next hguard =>
    simp only [Bool.or_eq_true, bne_iff_ne, ne_eq, not_or, Decidable.not_not] at hguard
    have hpend : s.pending = [] := by
      rw [List.eq_nil_iff_forall_not_mem]
      intro d hd
      have h1 : (s.pending.filter (·.stage == .holding)) = [] := List.length_eq_zero_iff.1 hguard.1
      have h2 : (s.pending.filter (·.stage != .holding)) = [] := List.length_eq_zero_iff.1 hguard.2
      rw [List.filter_eq_nil_iff] at h1 h2
      have a := h1 d hd
      have b := h2 d hd
      simp at a b
      exact a b
    rw [List.flatMap_eq_nil_iff]
    rintro ⟨k, si⟩ hp
    obtain ⟨x, hx, hk, hsi, hr, hb⟩ := zip_spec hM hp
    simp only at hk hsi hr hb
    subst hk; subst hsi
    have hg : x.gh ∈ ghs s := List.mem_map_of_mem hx
    dsimp only
    cases hcl : x.closedAt with
    | some c => simp [infoOf, hcl]
    | none =>
      have hcl' : (infoOf x).closedAt = none := hcl
      rw [hcl']
      simp only [Option.isSome_none, Bool.false_eq_true, if_false]
      have hopen : x.onceStarted = false := by
        have := hM.G.closedIff _ hg
        simp only [Sub.gh, hcl] at this
        simpa using this.symm
      -- the three counts
      have hacc : (accepted (mstOf s) (infoOf x)).length =
          (s.outcomes.filter (sentTo x.id)).length + (s.outcomes.filter (toTo x.id)).length := by
        have h1 := hM.N.cnt _ hg hopen
        simp only [Sub.gh, hpend, List.filter_nil, List.length_nil, Nat.add_zero] at h1
        have h2 : (s.outcomes.filter (cancTo x.id)).length = 0 := by
          rw [List.length_eq_zero_iff, List.filter_eq_nil_iff]
          intro o ho hc
          simp only [cancTo, Bool.and_eq_true, beq_iff_eq] at hc
          have := hM.O.canc o ho hc.2 _ hg hc.1.symm
          simp only [Sub.gh] at this
          rw [hopen] at this; cases this
        rw [accepted_eq]
        unfold hiOf
        rw [hcl, Option.getD_none, List.take_length, ← h1, live_split, h2]
        rfl
      have hhave : (recvOf s x).length + x.buf.length = (s.outcomes.filter (sentTo x.id)).length := by
        have := congrArg List.length (hM.S.seq _ (mem_bufs hx))
        simpa [Sub.bufv, recvOf] using this
      rw [hr, hb, tcb_eq, hacc, hhave]
      cases hshort : (infoOf x).short with
      | false =>
        have hne : x.timeout ≠ 1 := by simpa [infoOf] using hshort
        have hnow : s.now < x.timeout := by
          rcases ht x hx with e | e
          · exact absurd e hne
          · exact e
        have hto : (s.outcomes.filter (toTo x.id)).length = 0 := by
          rw [List.length_eq_zero_iff, List.filter_eq_nil_iff]
          intro o ho hc
          simp only [toTo, Bool.and_eq_true, beq_iff_eq] at hc
          have := hM.O.toNow o ho hc.2 _ hg hc.1.symm
          simp only [Sub.gh] at this
          omega
        simp [hto]
      | true =>
        cases hcbT : (infoOf x).cbT with
        | false => simp
        | true =>
          have := hM.T.cnt _ hg hcbT
          simp only [Sub.gh] at this
          simp [this]

/-! ### the side conditions are needed: reachable states on which the unrestricted statements fail -/

theorem reach_runActs {s s' : St} (h : Reach s) (l : List Act) (hr : runActs s l = some s') : Reach s' := by
  induction l generalizing s with
  | nil => simp only [runActs] at hr; cases hr; exact h
  | cons a l ih =>
    simp only [runActs] at hr
    split at hr
    · next s1 hs => exact ih (.step a h hs) hr
    · cases hr

/-- without `distinctPubs`: the same value published twice is received twice. -/
example : ∃ s, runActs init [.subscribe 2 .none 1000 false false, .publish 5, .publish 5, .acquireR 0 1, .deliver 0 1, .acquireR 1 1,
    .deliver 1 1, .receive 1, .receive 1] = some s ∧ deliveriesOK (mstOf s) (obsOf s) = ["C06.at_most_once"] := by
  refine ⟨_, rfl, ?_⟩; decide

/-- without `timeoutsOK`: a timeout other than the short one fires; nothing is pending, the published values are distinct. -/
example : ∃ s, runActs init [.subscribe 0 .none 2 false true, .publish 5, .acquireR 0 1, .tick, .tick, .timeout 0 1] = some s ∧
    (s.published.map (·.2)).Nodup ∧ ledgerOK (mstOf s) (obsOf s) = ["C06.exactly_once_if_receiving"] := by
  refine ⟨_, rfl, ?_, ?_⟩ <;> decide

/-- `callbacksOK` only looks at the callbacks and the received lists of the observation. -/
theorem callbacksOK_congr (m : MSt) (o o' : Obs) (h1 : o.cbs = o'.cbs) (h2 : o.recvd = o'.recvd) :
    callbacksOK m o = callbacksOK m o' := by
  unfold callbacksOK; rw [h1, h2]

def ceClose : St := (runActs init [.subscribe 0 .never 1000 true false, .closeSub 1, .publish 7]).getD init

/-- without the gating (`ReachG`): a Publish while a close is in progress (`close(done)` done, `close(receiveCh)` not yet)
    still calls OnFiltered; the state is reachable, its published values are distinct and its timeouts are fine. -/
example : Reach ceClose ∧ distinctPubs ceClose ∧ timeoutsOK ceClose ∧
    callbacksOK (mstOf ceClose) (obsOf ceClose) = ["C15.on_filtered_exactly_once"] := by
  refine ⟨reach_runActs .init [.subscribe 0 .never 1000 true false, .closeSub 1, .publish 7] rfl, ?_, ?_, ?_⟩
  · unfold distinctPubs; decide
  · unfold timeoutsOK; decide
  · have hc : (obsOf ceClose).cbs = [(false, 1, 7)] := List.perm_singleton.1 (cbs_perm ceClose)
    rw [callbacksOK_congr _ _ { obsOf ceClose with cbs := [(false, 1, 7)] } hc rfl]
    decide

end TV.Publisher.MonSound
