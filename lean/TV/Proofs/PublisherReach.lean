import TV.Proofs.PublisherInvStep
import TV.Proofs.PublisherStep
/-! Publication LTS — consequences of the invariant for reachable states. -/
namespace TV.Publisher
namespace Proofs

theorem Inv.getSub_of_static {s : St} (h : Inv s) {t : Static} (ht : t ∈ statics s) : ∃ x, getSub s t.id = some x ∧ x.static = t := by
  simp only [statics, List.mem_map] at ht
  obtain ⟨x, hx, rfl⟩ := ht
  exact ⟨x, h.getSub_of_mem hx, rfl⟩

theorem R_at_most_once :
    ∀ (s : St) (_ : Reach s), ((s.outcomes.map (fun o => (o.1, o.2.1))) ++ (s.pending.map (fun d => (d.uid, d.sub)))).Nodup := by
  intro s hr
  have := (Inv_of_Reach hr).B.pairsNodup
  simpa [pkeys, Function.comp_def] using this

theorem R_only_published_and_accepted :
    ∀ (s : St) (_ : Reach s), (∀ o ∈ s.outcomes, o.2.2 = .sent → ∃ m x, (o.1, m) ∈ s.published ∧ getSub s o.2.1 = some x ∧ x.filter.accepts m = true) ∧
    (∀ d ∈ s.pending, (d.uid, d.msg) ∈ s.published ∧ ∃ x, getSub s d.sub = some x ∧ x.filter.accepts d.msg = true) ∧
    (∀ r ∈ s.received, ∃ uid, (uid, r.2) ∈ s.published ∧ (uid, r.1, Outcome.sent) ∈ s.outcomes) := by
  intro s hr
  have h := Inv_of_Reach hr
  refine ⟨?_, ?_, h.D.recvSent⟩
  · intro o ho hs
    obtain ⟨m, hm, t, ht, hid, hacc⟩ := h.B.sentAcc o ho hs
    obtain ⟨x, hx, rfl⟩ := h.getSub_of_static ht
    exact ⟨m, x, hm, by rw [← hid]; exact hx, hacc⟩
  · intro d hd
    refine ⟨h.B.pendPub _ (mem_pkeys hd), ?_⟩
    obtain ⟨t, ht, hid, hacc⟩ := h.B.pendSub _ (mem_pkeys hd)
    obtain ⟨x, hx, rfl⟩ := h.getSub_of_static ht
    simp only at hid hacc
    exact ⟨x, by rw [← hid]; exact hx, hacc⟩

theorem R_buffer_holds_sent :
    ∀ (s : St) (_ : Reach s), ∀ x ∈ s.subs, ∀ m ∈ x.buf, ∃ uid, (uid, m) ∈ s.published ∧ (uid, x.id, Outcome.sent) ∈ s.outcomes := by
  intro s hr x hx
  exact (Inv_of_Reach hr).D.bufSent _ (mem_bufs hx)

theorem R_no_panic : ∀ (s : St) (_ : Reach s), s.panicked = false := fun _ hr => (Inv_of_Reach hr).C.noPanic

theorem R_closed_once :
    ∀ (s : St) (_ : Reach s), s.chCloses.Nodup ∧ ∀ x ∈ s.subs, (x.id ∈ s.chCloses ↔ x.chClosed = true) := by
  intro s hr
  have h := Inv_of_Reach hr
  exact ⟨h.C.closesNodup, fun x hx => h.C.closesIff _ (mem_locks hx)⟩

theorem mem_holders {s : St} {k : Nat} {d : Delivery} : d ∈ holders s k ↔ d ∈ s.pending ∧ d.sub = k ∧ d.stage = .holding := by
  unfold holders
  simp only [List.mem_filter, Bool.and_eq_true, beq_iff_eq]

theorem Inv.once_done {s : St} (h : Inv s) {x : Sub} (hx : x ∈ s.subs) : x.onceStarted = x.doneClosed :=
  h.C.lock1 _ (mem_locks hx)

theorem R_close_completes :
    ∀ (s : St) (_ : Reach s), ∀ x ∈ s.subs, x.onceStarted = true → x.chClosed = false →
    (step? s (.closeFinish x.id)).isSome = true ∨ ∀ d ∈ holders s x.id, (step? s (.cancel d.uid d.sub)).isSome = true := by
  intro s hr x hx ho hc
  have h := Inv_of_Reach hr
  right
  intro d hd
  rw [mem_holders] at hd
  have h1 := h.findDel_of_mem hd.1
  have h2 := h.getSub_of_mem hx
  rw [← hd.2.1] at h2
  have h3 : x.doneClosed = true := by rw [← h.once_done hx]; exact ho
  simp [step?, h1, h2, hd.2.2, h3]

theorem R_nothing_after_close :
    ∀ (s : St) (_ : Reach s), ∀ x ∈ s.subs, x.chClosed = true → (holders s x.id = [] ∧ x.doneClosed = true ∧ x.onceStarted = true) := by
  intro s hr x hx hc
  have h := Inv_of_Reach hr
  have ho : x.onceStarted = true := h.C.lock2 _ (mem_locks hx) hc
  refine ⟨?_, by rw [← h.once_done hx]; exact ho, ho⟩
  rw [List.eq_nil_iff_forall_not_mem]
  intro d hd
  rw [mem_holders] at hd
  have := h.held_open hd.1 hd.2.2 hx hd.2.1.symm
  rw [hc] at this
  cases this

theorem R_buffer_absorbs : ∀ (s : St) (_ : Reach s), ∀ x ∈ s.subs, x.buf.length ≤ x.cap :=
  fun _ hr _ hx => (Inv_of_Reach hr).D.bufCap _ (mem_bufs hx)

theorem R_callbacks_exactly_once :
    ∀ (s : St) (_ : Reach s), (s.callbacks.map (fun c => (c.1, c.2.1, c.2.2.1))).Nodup ∧
    (∀ c ∈ s.callbacks, (c.2.2.1, c.2.2.2) ∈ s.published ∧ (c.2.2.1, c.2.1, if c.1 then Outcome.timedOut else Outcome.filtered) ∈ s.outcomes ∧
        ∃ x, getSub s c.2.1 = some x ∧ (if c.1 then x.cbTimeout else x.cbFiltered) = true) ∧
    (∀ o ∈ s.outcomes, ∀ x m, getSub s o.2.1 = some x → (o.1, m) ∈ s.published →
        (o.2.2 = .timedOut → x.cbTimeout = true → (true, o.2.1, o.1, m) ∈ s.callbacks) ∧
        (o.2.2 = .filtered → x.cbFiltered = true → (false, o.2.1, o.1, m) ∈ s.callbacks)) := by
  intro s hr
  have h := Inv_of_Reach hr
  refine ⟨h.E.cbNodup, ?_, ?_⟩
  · intro c hc
    obtain ⟨a, b, t, ht, hid, hf⟩ := h.E.cbSound c hc
    obtain ⟨x, hx, rfl⟩ := h.getSub_of_static ht
    exact ⟨a, b, x, by rw [← hid]; exact hx, hf⟩
  · intro o ho x m hx hm
    have hx' := getSub_some hx
    exact h.E.cbComplete o ho _ (mem_statics hx'.1) hx'.2 m hm


theorem filter_drop_one {α β} [DecidableEq β] (f : α → β) (l : List α) (h : (l.map f).Nodup) {d : α} (hd : d ∈ l) :
    (l.filter (fun e => !(f e == f d))).length + 1 = l.length := by
  induction l with
  | nil => cases hd
  | cons a l ih =>
    simp only [List.map_cons, List.nodup_cons, List.mem_map, not_exists, not_and] at h
    simp only [List.mem_cons] at hd
    by_cases e : f a = f d
    · have hall : ∀ x ∈ l, (!(f x == f d)) = true := by
        intro x hx
        have := h.1 x hx
        simp; intro e'; exact this (e'.trans e.symm)
      rw [List.filter_cons_of_neg (by simp [e]), List.filter_eq_self.2 hall]
      simp
    · have hd' : d ∈ l := by
        rcases hd with rfl | hd
        · exact absurd rfl e
        · exact hd
      rw [List.filter_cons_of_pos (by simp [e])]
      simp only [List.length_cons]
      rw [ih h.2 hd']

theorem Inv.dropDel_length {s : St} (h : Inv s) {d : Delivery} (hd : d ∈ s.pending) :
    (s.pending.filter (fun e => !(e.uid == d.uid && e.sub == d.sub))).length + 1 = s.pending.length := by
  have hn := h.B.pairsNodup
  rw [List.nodup_append] at hn
  have hn := hn.2.1
  unfold pkeys at hn
  rw [List.map_map] at hn
  have := filter_drop_one _ _ hn hd
  rw [← this]
  congr 2
  apply List.filter_congr
  intro e _
  rw [Bool.eq_iff_iff]
  simp only [Bool.not_eq_true', Function.comp, beq_eq_false_iff_ne, ne_eq, Prod.mk.injEq, Bool.and_eq_false_imp, beq_iff_eq]
  grind

theorem R_one_outcome_each :
    ∀ (s : St) (_ : Reach s) (s' : St) (a : Act), isInternal a = true → step? s a = some s' →
    (s'.pending = s.pending ∧ s'.outcomes = s.outcomes) ∨ (s'.pending.length = s.pending.length ∧ s'.outcomes = s.outcomes) ∨
    (s'.pending.length + 1 = s.pending.length ∧ s'.outcomes.length = s.outcomes.length + 1) ∨ s'.panicked = true := by
  intro s hr s' a hi hs
  have h := Inv_of_Reach hr
  have fin : ∀ (s1 : St) (d : Delivery) (o : Outcome), d ∈ s.pending → s1.pending = s.pending → s1.outcomes = s.outcomes →
      (finish s1 d o).pending.length + 1 = s.pending.length ∧ (finish s1 d o).outcomes.length = s.outcomes.length + 1 := by
    intro s1 d o hd e1 e2
    simp only [finish, dropDel, e1, e2, List.length_append, List.length_cons, List.length_nil]
    exact ⟨h.dropDel_length hd, trivial⟩
  cases a with
  | subscribe _ _ _ _ _ => cases hi
  | publish _ => cases hi
  | receive _ => cases hi
  | rendezvous _ _ => cases hi
  | closeSub _ => cases hi
  | closePub => cases hi
  | tick => cases hi
  | acquireR uid sub =>
    simp only [step?] at hs
    split at hs
    · next d x hd hx =>
      have hd' := findDel_some hd
      split at hs
      · cases hs
      · split at hs
        · cases hs
        · split at hs
          · cases hs
            exact Or.inr (Or.inr (Or.inl (fin s d _ hd'.1 rfl rfl)))
          · cases hs
            exact Or.inr (Or.inl ⟨by simp, rfl⟩)
    · cases hs
  | deliver uid sub =>
    simp only [step?] at hs
    split at hs
    · next d x hd hx =>
      have hd' := findDel_some hd
      split at hs
      · cases hs
      · split at hs
        · cases hs
          exact Or.inr (Or.inr (Or.inr rfl))
        · split at hs
          · cases hs
            exact Or.inr (Or.inr (Or.inl (fin _ d _ hd'.1 rfl rfl)))
          · cases hs
    · cases hs
  | timeout uid sub =>
    simp only [step?] at hs
    split at hs
    · next d x hd hx =>
      have hd' := findDel_some hd
      split at hs
      · cases hs
        exact Or.inr (Or.inr (Or.inl (fin s d _ hd'.1 rfl rfl)))
      · cases hs
    · cases hs
  | cancel uid sub =>
    simp only [step?] at hs
    split at hs
    · next d x hd hx =>
      have hd' := findDel_some hd
      split at hs
      · cases hs
        exact Or.inr (Or.inr (Or.inl (fin s d _ hd'.1 rfl rfl)))
      · cases hs
    · cases hs
  | closeFinish sub =>
    simp only [step?] at hs
    split at hs
    · split at hs
      · cases hs
        exact Or.inl ⟨rfl, rfl⟩
      · cases hs
    · cases hs


theorem quiescent_del {s : St} (hq : quiescent s) {d : Delivery} (hd : d ∈ s.pending) :
    step? s (.acquireR d.uid d.sub) = none ∧ step? s (.deliver d.uid d.sub) = none ∧
    step? s (.timeout d.uid d.sub) = none ∧ step? s (.cancel d.uid d.sub) = none := by
  unfold quiescent internalActs at hq
  simp only [List.filter_eq_nil_iff, List.mem_append, List.mem_flatMap, List.mem_map] at hq
  have key : ∀ a ∈ [Act.acquireR d.uid d.sub, .deliver d.uid d.sub, .timeout d.uid d.sub, .cancel d.uid d.sub], step? s a = none := by
    intro a ha
    have := hq a (Or.inl ⟨d, hd, ha⟩)
    simpa using this
  exact ⟨key _ (by simp), key _ (by simp), key _ (by simp), key _ (by simp)⟩

theorem quiescent_sub {s : St} (hq : quiescent s) {x : Sub} (hx : x ∈ s.subs) : step? s (.closeFinish x.id) = none := by
  unfold quiescent internalActs at hq
  simp only [List.filter_eq_nil_iff, List.mem_append, List.mem_flatMap, List.mem_map] at hq
  have := hq (.closeFinish x.id) (Or.inr ⟨x, hx, rfl⟩)
  simpa using this

theorem R_no_goroutine_left :
    ∀ (s : St) (_ : Reach s), quiescent s → ∀ d ∈ s.pending, ∃ x, getSub s d.sub = some x ∧ d.stage = .holding ∧ s.now < d.deadline ∧
    x.cap ≤ x.buf.length ∧ x.doneClosed = false := by
  intro s hr hq d hd
  have h := Inv_of_Reach hr
  obtain ⟨t, ht, hid, _⟩ := h.B.pendSub _ (mem_pkeys hd)
  simp only [statics, List.mem_map] at ht
  obtain ⟨x, hx, rfl⟩ := ht
  have hid : x.id = d.sub := hid
  have hgs : getSub s d.sub = some x := by rw [← hid]; exact h.getSub_of_mem hx
  have hfd := h.findDel_of_mem hd
  obtain ⟨q1, q2, q3, q4⟩ := quiescent_del hq hd
  have hod := h.once_done hx
  -- the delivery holds the lock
  have hst : d.stage = .holding := by
    cases hst : d.stage with
    | holding => rfl
    | spawned =>
      exfalso
      simp only [step?, hfd, hgs, hst] at q1
      -- a writer must be waiting
      have hw : x.onceStarted = true ∧ x.chClosed = false := by
        by_cases hw : (x.onceStarted && !x.chClosed) = true
        · simpa using hw
        · simp [hw] at q1
          split at q1 <;> cases q1
      have q5 := quiescent_sub hq hx
      simp only [step?, hid, hgs, hw.1, hw.2] at q5
      -- so somebody holds the lock, and that one can cancel
      cases hh : holders s d.sub with
      | nil => simp [hh] at q5
      | cons e rest =>
        have he : e ∈ holders s d.sub := by rw [hh]; exact List.mem_cons_self
        rw [mem_holders] at he
        obtain ⟨_, _, _, q6⟩ := quiescent_del hq he.1
        have hfe := h.findDel_of_mem he.1
        have hdone : x.doneClosed = true := by rw [← hod]; exact hw.1
        rw [he.2.1] at hfe q6
        simp [step?, hfe, hgs, he.2.2, hdone] at q6
  have hch := h.held_open hd hst hx hid
  refine ⟨x, hgs, hst, ?_, ?_, ?_⟩
  · simp only [step?, hfd, hgs, hst] at q3
    by_cases hlt : s.now < d.deadline
    · exact hlt
    · have : d.deadline ≤ s.now := by omega
      simp [this] at q3
  · simp only [step?, hfd, hgs, hst, hch] at q2
    by_cases hroom : x.buf.length < x.cap
    · simp [hroom] at q2
    · omega
  · simp only [step?, hfd, hgs, hst] at q4
    cases hdone : x.doneClosed
    · rfl
    · simp [hdone] at q4

end Proofs
end TV.Publisher
