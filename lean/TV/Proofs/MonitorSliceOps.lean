import TV.Proofs.SliceOps
import TV.Monitor.SliceOps
/-! The C12 monitors decide exactly the conclusions of the C12 theorems (core-only). -/
namespace TV.SliceOps
variable {α : Type} [DecidableEq α]

theorem nodupB_iff (l : List α) : nodupB l = true ↔ l.Nodup := by
  induction l with
  | nil => simp [nodupB]
  | cons x xs ih => simp [nodupB, ih, List.nodup_cons]

/-- `setOK` is the set equation, provided `univ` covers the predicate. -/
theorem setOK_iff (univ out : List α) (P : α → Bool) (hu : ∀ x, P x = true → x ∈ univ) :
    setOK univ out P = true ↔ out.Nodup ∧ ∀ x, x ∈ out ↔ P x = true := by
  simp only [setOK, Bool.and_eq_true, nodupB_iff, List.all_eq_true, Bool.or_eq_true, Bool.not_eq_true',
    List.contains_eq_mem, decide_eq_true_eq]
  constructor
  · rintro ⟨⟨h1, h2⟩, h3⟩
    refine ⟨h1, fun x => ⟨h2 x, fun hp => ?_⟩⟩
    rcases h3 x (hu x hp) with h | h
    · rw [hp] at h; cases h
    · exact h
  · rintro ⟨h1, h2⟩
    refine ⟨⟨h1, fun x hx => (h2 x).1 hx⟩, fun x _ => ?_⟩
    by_cases hp : P x = true
    · exact Or.inr ((h2 x).2 hp)
    · exact Or.inl (by simpa using hp)

theorem monDistinct_iff (s out : List α) :
    monDistinct s out = true ↔ out.Nodup ∧ ∀ x, x ∈ out ↔ x ∈ s := by
  rw [monDistinct, setOK_iff _ _ _ (by simp)]
  simp

theorem inSome_iff (ss : List (List α)) (x : α) : inSome ss x = true ↔ ∃ s ∈ ss, x ∈ s := by
  simp [inSome]

theorem inAll_iff (ss : List (List α)) (x : α) : inAll ss x = true ↔ ss ≠ [] ∧ ∀ s ∈ ss, x ∈ s := by
  simp [inAll, List.isEmpty_iff]

theorem monUnion_iff (ss : List (List α)) (out : List α) :
    monUnion ss out = true ↔ out.Nodup ∧ ∀ x, x ∈ out ↔ ∃ s ∈ ss, x ∈ s := by
  rw [monUnion, setOK_iff _ _ _ (by intro x hx; rw [inSome_iff] at hx; simpa [List.mem_flatten] using hx)]
  simp [inSome_iff]

theorem monIntersection_iff (ss : List (List α)) (out : List α) :
    monIntersection ss out = true ↔ out.Nodup ∧ ∀ x, x ∈ out ↔ ss ≠ [] ∧ ∀ s ∈ ss, x ∈ s := by
  rw [monIntersection, setOK_iff _ _ _ (by
    intro x hx
    rw [inAll_iff] at hx
    obtain ⟨hne, hall⟩ := hx
    cases ss with
    | nil => exact absurd rfl hne
    | cons s rest => exact List.mem_flatten.mpr ⟨s, List.mem_cons_self, hall s List.mem_cons_self⟩)]
  simp [inAll_iff]

theorem monDifference_iff (s1 s2 out : List α) :
    monDifference s1 s2 out = true ↔ out.Nodup ∧ ∀ x, x ∈ out ↔ x ∈ s1 ∧ x ∉ s2 := by
  rw [monDifference, setOK_iff _ _ _ (by intro x hx; simp at hx; exact hx.1)]
  simp

theorem inExactlyOne_iff (ss : List (List α)) (x : α) : inExactlyOne ss x = true ↔ occ ss x = 1 := by
  have : (ss.filter (·.contains x)) = ss.filter (fun s => decide (x ∈ s)) := by
    congr 1; funext s; simp
  simp [inExactlyOne, occ, this]

theorem monDisjoin_iff (ss : List (List α)) (out : List α) :
    monDisjoin ss out = true ↔ out.Nodup ∧ ∀ x, x ∈ out ↔ occ ss x = 1 := by
  rw [monDisjoin, setOK_iff _ _ _ (by
    intro x hx
    rw [inExactlyOne_iff] at hx
    have hpos : 0 < (ss.filter (fun s => decide (x ∈ s))).length := by unfold occ at hx; omega
    obtain ⟨s, hs⟩ := List.exists_mem_of_length_pos hpos
    rw [List.mem_filter] at hs
    exact List.mem_flatten.mpr ⟨s, hs.1, by simpa using hs.2⟩)]
  simp [inExactlyOne_iff]

end TV.SliceOps
