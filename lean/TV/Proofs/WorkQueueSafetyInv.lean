import TV.Proofs.WorkQueueSafetyLemmas
import TV.Proofs.WorkQueueSafetyAttr
/-! The inductive invariant of the WorkQueue LTS. -/
namespace TV.WorkQueue
open TV.GoHeap

def Disp.isHO : Disp → Nat | .handOff _ _ => 1 | _ => 0
def Disp.isFW : Disp → Nat | .fullWait _ => 1 | _ => 0
def Disp.hoSome : Disp → Nat | .handOff _ (some _) => 1 | _ => 0
def Disp.live : Disp → Bool | .idle | .fullWait _ | .handOff _ _ => true | _ => false

/-- the per-id location ledger: where the item `id` is and which logs mention it -/
def Loc (s : St) (id : Nat) : Prop :=
  cnt s.blocked id + cnt (held s.disp) id + cnt s.heap id + cnt s.chan id + cnt s.running id + cnt s.limbo id
      + s.finished.count id + s.dequeued.count id ≤ 1 ∧
  cnt s.errSend id ≤ s.finished.count id ∧
  s.started.count id = cnt s.running id + s.finished.count id ∧
  s.failed.count id = cnt s.errSend id + (s.errored.map (·.1)).count id ∧
  s.failed.count id ≤ s.finished.count id ∧
  (0 < cnt s.blocked id + cnt (held s.disp) id + cnt s.heap id + cnt s.chan id + cnt s.running id + cnt s.limbo id
        + cnt s.errSend id + s.accepted.count id + s.rejected.count id + s.dequeued.count id → id < s.nextId) ∧
  (0 < cnt (held s.disp) id + cnt s.heap id + cnt s.chan id + s.started.count id → 0 < s.accepted.count id) ∧
  (0 < s.accepted.count id →
      0 < s.started.count id + s.dequeued.count id + cnt (held s.disp) id + cnt s.heap id + cnt s.chan id ∨
      (s.breaked = true ∧ 0 < cnt s.limbo id)) ∧
  (0 < s.rejected.count id + cnt s.blocked id → s.accepted.count id = 0) ∧
  (0 < cnt s.blocked id → s.rejected.count id = 0)

/-- the error ledger: who has been told about which failed item -/
structure MonOK (inbox : List (Nat × Nat)) (errored : List (Nat × Nat)) (mon : Mon) : Prop where
  inboxNodup : inbox.Nodup
  inboxErr : ∀ p ∈ inbox, ∃ n, (p.2, n) ∈ errored ∧ p.1 < n
  deliv : ∀ e ∈ errored, (∀ r, mon ≠ .fanout e.1 r) → ∀ sub, sub < e.2 → (sub, e.1) ∈ inbox
  fan : ∀ e r, mon = .fanout e r → ∃ k m, 0 < m ∧ r = List.range' k m ∧ (e, k + m) ∈ errored ∧
      ∀ sub, (sub, e) ∈ inbox ↔ sub < k

structure Inv (W : Nat) (s : St) : Prop where
  hW : s.W = W
  wpos : 1 ≤ W
  lpos : 1 ≤ s.L
  lmax : s.L ≤ s.Lmax
  chanCap : s.chan.length ≤ W
  tokCap : s.tokens ≤ W
  wrkCap : s.running.length + s.errSend.length + s.tokPend + s.exitedW ≤ W
  noPanic : s.panicked = false
  phase : s.ctxDone = false → s.chanClosed = false ∧ s.exitedW = 0 ∧ s.disp.live = true
  pipe : s.ctxDone = false → 0 < s.heap.length + s.disp.isFW + s.disp.hoSome →
    W ≤ s.chan.length + s.running.length + s.errSend.length + s.tokPend + s.tokens + s.disp.isHO
  room : s.ctxDone = false → 0 < s.disp.isHO →
    s.chan.length + s.running.length + s.errSend.length + s.tokPend + s.tokens + 1 ≤ 3 * W
  fwHeap : s.ctxDone = false → 0 < s.disp.isFW → 0 < s.heap.length
  heapMax : s.ctxDone = false → s.heap.length + s.disp.hoSome ≤ s.Lmax
  loc : ∀ id, Loc s id
  monOK : MonOK s.inbox s.errored s.mon

theorem isHO_idle : Disp.idle.isHO = 0 := rfl
theorem isHO_fullWait (it : Item) : (Disp.fullWait it).isHO = 0 := rfl
theorem isHO_handOffSome (m it : Item) : (Disp.handOff m (some it)).isHO = 1 := rfl
theorem isHO_handOffNone (m : Item) : (Disp.handOff m none).isHO = 1 := rfl
theorem isHO_drain (rest : List Item) : (Disp.drain rest).isHO = 0 := rfl
theorem isHO_await : Disp.await.isHO = 0 := rfl
theorem isHO_exited : Disp.exited.isHO = 0 := rfl
theorem isFW_idle : Disp.idle.isFW = 0 := rfl
theorem isFW_fullWait (it : Item) : (Disp.fullWait it).isFW = 1 := rfl
theorem isFW_handOffSome (m it : Item) : (Disp.handOff m (some it)).isFW = 0 := rfl
theorem isFW_handOffNone (m : Item) : (Disp.handOff m none).isFW = 0 := rfl
theorem isFW_drain (rest : List Item) : (Disp.drain rest).isFW = 0 := rfl
theorem isFW_await : Disp.await.isFW = 0 := rfl
theorem isFW_exited : Disp.exited.isFW = 0 := rfl
theorem hoSome_idle : Disp.idle.hoSome = 0 := rfl
theorem hoSome_fullWait (it : Item) : (Disp.fullWait it).hoSome = 0 := rfl
theorem hoSome_handOffSome (m it : Item) : (Disp.handOff m (some it)).hoSome = 1 := rfl
theorem hoSome_handOffNone (m : Item) : (Disp.handOff m none).hoSome = 0 := rfl
theorem hoSome_drain (rest : List Item) : (Disp.drain rest).hoSome = 0 := rfl
theorem hoSome_await : Disp.await.hoSome = 0 := rfl
theorem hoSome_exited : Disp.exited.hoSome = 0 := rfl
theorem live_idle : Disp.idle.live = true := rfl
theorem live_fullWait (it : Item) : (Disp.fullWait it).live = true := rfl
theorem live_handOffSome (m it : Item) : (Disp.handOff m (some it)).live = true := rfl
theorem live_handOffNone (m : Item) : (Disp.handOff m none).live = true := rfl
theorem live_drain (rest : List Item) : (Disp.drain rest).live = false := rfl
theorem live_await : Disp.await.live = false := rfl
theorem live_exited : Disp.exited.live = false := rfl
theorem held_idle : held Disp.idle = [] := rfl
theorem held_fullWait (it : Item) : held (Disp.fullWait it) = [it] := rfl
theorem held_handOffSome (m it : Item) : held (Disp.handOff m (some it)) = [m, it] := rfl
theorem held_handOffNone (m : Item) : held (Disp.handOff m none) = [m] := rfl
theorem held_drain (rest : List Item) : held (Disp.drain rest) = rest := rfl
theorem held_await : held Disp.await = [] := rfl
theorem held_exited : held Disp.exited = [] := rfl

attribute [wqs] isHO_idle isHO_fullWait isHO_handOffSome isHO_handOffNone isHO_drain isHO_await isHO_exited isFW_idle isFW_fullWait isFW_handOffSome isFW_handOffNone isFW_drain isFW_await isFW_exited hoSome_idle hoSome_fullWait hoSome_handOffSome hoSome_handOffNone hoSome_drain hoSome_await hoSome_exited live_idle live_fullWait live_handOffSome live_handOffNone live_drain live_await live_exited held_idle held_fullWait held_handOffSome held_handOffNone held_drain held_await held_exited

attribute [wqs] Loc cnt_cons cnt_append cnt_nil cnt_push cnt_removeId cnt_adjustAll
  List.count_append List.count_cons List.count_nil beq_iff_eq List.length_append List.length_cons
  List.length_nil List.map_append List.map_cons List.map_nil
  Nat.zero_add Nat.add_zero length_adjustAll

theorem inv_init (W L : Nat) (hW : 1 ≤ W) (hL : 1 ≤ L) : Inv W (init W L) := by
  constructor
  case monOK => constructor <;> intros <;> simp_all [init]
  all_goals (try simp [init, Disp.live, Disp.isFW, Disp.hoSome, Disp.isHO, Loc, held]) <;> try omega

attribute [wqs] length_push isEmpty_eq_decide_length Bool.and_eq_true decide_eq_true_eq Bool.not_eq_true'

set_option hygiene false in
/-- open the invariant of the pre-state and make the state a constructor application -/
macro "open_inv" : tactic => `(tactic| (
  obtain ⟨hW, wpos, lpos, lmax, chanCap, tokCap, wrkCap, noPanic, phase, pipe, room, fwHeap, heapMax, loc, monOK⟩ := h
  obtain ⟨W0, L0, nextId, blocked, heap, chan, chanClosed, running, errSend, tokPend, tokens, exitedW, disp, mon,
    monDone, subs, adjVals, limbo, stopped, breaked, ctxDone, panicked, accepted, rejected, started, finished,
    dequeued, failed, Lmax, inbox, errored⟩ := s))

set_option hygiene false in
/-- close `Inv W s'`: the per-id ledger by instantiating the old ledger at `id` and at the id the action
    is about, the error ledger unchanged, everything else by arithmetic -/
macro "close_inv" x:term : tactic => `(tactic| (
  constructor
  case loc =>
    intro id
    have h1 := loc id
    have h2 := loc $x
    simp only [wqs] at h1 h2 ⊢
    grind
  case monOK => exact monOK
  all_goals (clear loc; (try dsimp only); (try simp only [wqs] at *); grind)))

theorem inv_take {W : Nat} {s s' : St} (h : Inv W s) (hs : step? s .take = some s') : Inv W s' := by
  open_inv
  simp only [step?] at hs
  split at hs
  · next _ it rest =>
    split at hs
    · next hfree =>
      injection hs with hs; subst hs
      simp only [freeWorkers] at hfree
      dsimp only at *
      close_inv it.id
    · cases hs
  · cases hs

theorem inv_enqueue {W : Nat} {s s' : St} {p : Int} {name : Nat} {adj : Bool} (h : Inv W s)
    (hs : step? s (.enqueue p name adj) = some s') : Inv W s' := by
  open_inv
  simp only [step?] at hs
  split at hs
  · injection hs with hs; subst hs
    dsimp only at *
    close_inv 0
  · injection hs with hs; subst hs
    dsimp only at *
    close_inv 0

theorem inv_tokSendDone {W : Nat} {s s' : St} (h : Inv W s) (hs : step? s .tokSendDone = some s') : Inv W s' := by
  open_inv
  simp only [step?] at hs
  split at hs
  · injection hs with hs; subst hs
    dsimp only at *
    close_inv 0
  · cases hs

theorem inv_stop {W : Nat} {s s' : St} (h : Inv W s) (hs : step? s .stop = some s') : Inv W s' := by
  open_inv
  simp only [step?] at hs
  injection hs with hs; subst hs
  dsimp only at *
  close_inv 0

theorem inv_break {W : Nat} {s s' : St} (h : Inv W s) (hs : step? s .break_ = some s') : Inv W s' := by
  open_inv
  simp only [step?] at hs
  injection hs with hs; subst hs
  dsimp only at *
  close_inv 0

theorem inv_setAdj {W : Nat} {s s' : St} {id : Nat} {v : Int} (h : Inv W s) (hs : step? s (.setAdj id v) = some s') : Inv W s' := by
  open_inv
  simp only [step?] at hs
  injection hs with hs; subst hs
  dsimp only at *
  close_inv 0

theorem inv_subscribe {W : Nat} {s s' : St} (h : Inv W s) (hs : step? s .subscribe = some s') : Inv W s' := by
  open_inv
  simp only [step?] at hs
  injection hs with hs; subst hs
  dsimp only at *
  close_inv 0

theorem inv_resizeLen {W : Nat} {s s' : St} {L' : Nat} (h : Inv W s) (hL : 1 ≤ L')
    (hs : step? s (.resizeLen L') = some s') : Inv W s' := by
  open_inv
  simp only [step?] at hs
  injection hs with hs; subst hs
  dsimp only at *
  close_inv 0
