import TV.Proofs.WorkQueueSafetyInv
/-! Preservation of the invariant: dispatcher and worker steps. -/
namespace TV.WorkQueue
open TV.GoHeap

theorem inv_recv {W : Nat} {s s' : St} {id : Nat} (h : Inv W s) (hs : step? s (.recv id) = some s') : Inv W s' := by
  open_inv
  simp only [step?, toDrain] at hs
  split at hs
  · next _ _ it hf =>
    have hpos := cnt_pos_of_mem (findId_some hf).1
    rw [(findId_some hf).2] at hpos
    have hid := (findId_some hf).2
    dsimp only at *
    split at hs
    · split at hs
      · injection hs with hs; subst hs
        close_inv id
      · injection hs with hs; subst hs
        close_inv id
    · split at hs
      · injection hs with hs; subst hs
        close_inv id
      · split at hs
        · injection hs with hs; subst hs
          close_inv id
        · injection hs with hs; subst hs
          close_inv id
  · cases hs

theorem inv_finish {W : Nat} {s s' : St} {id : Nat} {err : Bool} (h : Inv W s) (hs : step? s (.finish id err) = some s') : Inv W s' := by
  open_inv
  simp only [step?] at hs
  split at hs
  · next _ it hf =>
    try dsimp only at hf
    have hpos := cnt_pos_of_mem (findId_some hf).1
    rw [(findId_some hf).2] at hpos
    have hid := (findId_some hf).2
    have h0 := loc id
    simp only [wqs] at h0
    have hlen := length_removeId running id
    dsimp only at *
    split at hs
    · injection hs with hs; subst hs
      close_inv id
    · injection hs with hs; subst hs
      close_inv id
  · cases hs

theorem inv_giveUp {W : Nat} {s s' : St} {id : Nat} (h : Inv W s) (hs : step? s (.giveUp id) = some s') : Inv W s' := by
  open_inv
  simp only [step?] at hs
  split at hs
  · next _ it hf =>
    try dsimp only at hf
    have hpos := cnt_pos_of_mem (findId_some hf).1
    rw [(findId_some hf).2] at hpos
    dsimp only at *
    split at hs
    · injection hs with hs; subst hs
      close_inv id
    · cases hs
  · cases hs

theorem inv_tok {W : Nat} {s s' : St} (h : Inv W s) (hs : step? s .tok = some s') : Inv W s' := by
  open_inv
  simp only [step?, toDrain, popOrPanic] at hs
  split at hs
  · cases hs
  · split at hs
    · -- idle
      dsimp only at *
      split at hs
      · split at hs
        · injection hs with hs; subst hs
          close_inv 0
        · injection hs with hs; subst hs
          close_inv 0
      · split at hs
        · injection hs with hs; subst hs
          close_inv 0
        · split at hs
          · next _ m rest hp =>
            injection hs with hs; subst hs
            have hc := cnt_pop hp
            have hl := length_pop hp
            simp only [wqs] at hc hl
            close_inv m.id
          · next _ hp =>
            exfalso
            have := pop_isSome less (adjustAll
              ⟨W0, L0, nextId, blocked, heap, chan, chanClosed, running, errSend, tokPend, tokens, exitedW, .idle, mon,
                monDone, subs, adjVals, limbo, stopped, breaked, ctxDone, panicked, accepted, rejected, started, finished,
                dequeued, failed, Lmax, inbox, errored⟩ heap) (by
                  intro h0
                  have := congrArg List.length h0
                  simp only [wqs] at *
                  grind)
            rw [hp] at this
            cases this
    · -- fullWait
      next _ it =>
      dsimp only at *
      split at hs
      · split at hs
        · injection hs with hs; subst hs
          close_inv it.id
        · injection hs with hs; subst hs
          close_inv it.id
      · split at hs
        · next _ m rest hp =>
          injection hs with hs; subst hs
          have hc := cnt_pop hp
          have hl := length_pop hp
          simp only [wqs] at hc hl
          close_inv m.id
        · next _ hp =>
          exfalso
          have := pop_isSome less (adjustAll
            ⟨W0, L0, nextId, blocked, heap, chan, chanClosed, running, errSend, tokPend, tokens, exitedW, .fullWait it, mon,
              monDone, subs, adjVals, limbo, stopped, breaked, ctxDone, panicked, accepted, rejected, started, finished,
              dequeued, failed, Lmax, inbox, errored⟩ heap) (by
                intro h0
                have := congrArg List.length h0
                simp only [wqs] at *
                grind)
          rw [hp] at this
          cases this
    · cases hs

end TV.WorkQueue
