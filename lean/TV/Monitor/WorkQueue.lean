import TV.Model.WorkQueue
/-!
Executable form of the conclusions of C04 C05 C09 C14 C16 C19, evaluated by the driver on the
*implementation's* observations at quiescent points.  Facts (what started and in which order,
which Enqueue calls returned, WorkItems(), errors received, goroutine wait states, crashes)
come from the implementation; where a clause speaks about *where* an item was ("waiting in the
queue" vs "handed to the worker pool") the location is read off the model state that has
matched every observation so far.  Core-only.
-/
namespace TV.WorkQueue.Mon

/-- one observation of the real queue at a quiescent point. -/
structure Obs where
  started : List Nat
  returned : List Nat
  items : List (Nat × Int × Bool)     -- (ordinal, priority, in-progress?) from WorkItems()
  errs : List (List Nat)              -- per subscriber: item ordinals whose error value arrived (999 = foreign value)
  disp : String
  mon : String
  wfree : Nat
  wrun : Nat
  wsend : Nat
  prod : Nat
deriving Repr, DecidableEq

/-- the monitor's bookkeeping over the script and the implementation's answers. -/
structure MSt where
  W : Nat := 1
  Lmin : Nat := 1
  Lmax : Nat := 1
  enq : List (Nat × Int × Bool × Nat) := []   -- (ordinal, priority given, has adjust fn, subscribers at enqueue)
  released : List (Nat × Bool) := []          -- (ordinal, err?)
  deqNil : List Nat := []                     -- Dequeue returned nil for these
  deqErr : List Nat := []                     -- Dequeue returned an error for these
  stopAt : Option (List Nat × Nat) := none    -- (Enqueue calls returned when Stop/Break was called, ordinals issued by then)
  broke : Bool := false
  skippable : List Nat := []                  -- waiting in the priority queue when Break was called (model location)
  subs : Nat := 0
deriving Repr

def nodupB : List Nat → Bool
  | [] => true
  | x :: xs => !(xs.contains x) && nodupB xs

/-- C04: nothing runs twice. -/
def atMostOnce (o : Obs) : Bool := nodupB o.started

/-- C04: WorkItems() lists the accepted unfinished items (items whose Enqueue has not returned may
    appear), in progress exactly when started and not finished. -/
def workItemsOK (m : MSt) (o : Obs) : Bool :=
  let ids := o.items.map (·.1)
  let finishedNil := (m.released.filter (!·.2)).map (·.1)
  let unfinishedAccepted := o.returned.filter fun i =>
    !(m.released.any (·.1 == i)) && !m.deqNil.contains i
  nodupB ids &&
  ids.all (fun i => m.enq.any (·.1 == i) && !finishedNil.contains i) &&
  (m.stopAt.isSome || unfinishedAccepted.all ids.contains) &&
  o.items.all (fun (i, _, p) => (!p || o.started.contains i) &&
                               (!(o.started.contains i && !(m.released.any (·.1 == i))) || p))

/-- C09: never more than W executing; work conserving at quiescence; back-pressure bounds. -/
def workersOK (m : MSt) (o : Obs) : Bool := o.wrun + o.wsend + o.wfree ≤ m.W && o.wrun ≤ m.W

def outstanding (m : MSt) (o : Obs) : Nat :=
  (o.returned.filter fun i => !(m.released.any (·.1 == i)) && !m.deqNil.contains i &&
    (match m.stopAt with | some (_, n) => i < n | none => true)).length

def workConserving (m : MSt) (o : Obs) : Bool :=
  m.stopAt.isSome || o.wrun == min (outstanding m o) (m.W - o.wsend)

def backPressure (m : MSt) (o : Obs) : Bool :=
  m.stopAt.isSome ||
  (outstanding m o ≤ m.Lmax + 2 * m.W + 1 &&
   (o.prod == 0 || outstanding m o + o.wsend ≥ m.W + m.Lmin))

/-- C14: at most once per (item, subscriber), only non-nil results, the same error value. -/
def errorsOK (m : MSt) (o : Obs) : Bool :=
  o.errs.all fun l => nodupB l && l.all fun e => m.released.contains (e, true)

/-- C14: once error reporting is quiescent, every subscriber registered before the item was
    enqueued has received its error exactly once. -/
def errorsComplete (m : MSt) (o : Obs) : Bool :=
  !(o.mon == "select" && o.wsend == 0) ||
  m.released.all fun (i, e) => !e ||
    match m.enq.find? (·.1 == i) with
    | some (_, _, _, nsubs) => (List.range nsubs).all fun s => ((o.errs.getD s []).count i) == 1
    | none => true

/-- C16: an item whose Dequeue returned nil never starts afterwards. -/
def dequeuedNeverStart (m : MSt) (o : Obs) (startedBefore : List Nat) : Bool :=
  m.deqNil.all fun i => startedBefore.contains i || !o.started.contains i

/-- C19: work submitted after Stop/Break never runs; after Break the waiting work is skipped. -/
def afterStopOK (m : MSt) (o : Obs) : Bool :=
  match m.stopAt with
  | none => true
  | some (_, n) => o.started.all (· < n) && (!m.broke || m.skippable.all (fun i => !o.started.contains i))

/-- final clauses.  They speak about a script that has released everything that could run; a script
    that leaves a started item gated, or an error report waiting for a subscriber that the script
    never lets receive (a shrunk or hand-written one), is not such a script: the queue is then
    waiting for its environment, and the clauses say nothing about it. -/
def finalOK (m : MSt) (o : Obs) : List String :=
  if !(o.started.all fun i => m.released.any (·.1 == i)) || o.wrun != 0 || o.wsend != 0 || o.mon == "send" then [] else
  let mustRun := match m.stopAt with
    | none => o.returned.filter (fun i => !m.deqNil.contains i)
    | some (ret, _) => if m.broke then [] else ret.filter (fun i => !m.deqNil.contains i)
  (if mustRun.all o.started.contains then [] else ["C04.never_dropped"]) ++
  (if m.deqErr.all (fun i => o.started.contains i || m.stopAt.isSome || !o.returned.contains i) then [] else ["C16.dequeue_error_unaffected"])

end TV.WorkQueue.Mon
