import TV.Model.SliceOps
/-! Executable (decidable) form of C12's conclusions, run by the driver on the
    *implementation's* outputs.  Core-only. -/
namespace TV.SliceOps
variable {α : Type} [DecidableEq α]

def nodupB : List α → Bool
  | [] => true
  | x :: xs => !(xs.contains x) && nodupB xs

/-- `out` is duplicate-free and, as a set, equals `{x | P x}`; `univ` must contain every `x` with `P x`. -/
def setOK (univ out : List α) (P : α → Bool) : Bool :=
  nodupB out && out.all P && univ.all (fun x => !(P x) || out.contains x)

def inAll (ss : List (List α)) (x : α) : Bool := !ss.isEmpty && ss.all (·.contains x)
def inSome (ss : List (List α)) (x : α) : Bool := ss.any (·.contains x)
def inExactlyOne (ss : List (List α)) (x : α) : Bool := (ss.filter (·.contains x)).length == 1

def monDistinct (s out : List α) : Bool := setOK s out (s.contains ·)
def monUnion (ss : List (List α)) (out : List α) : Bool := setOK ss.flatten out (inSome ss)
def monIntersection (ss : List (List α)) (out : List α) : Bool := setOK ss.flatten out (inAll ss)
def monDifference (s1 s2 out : List α) : Bool := setOK s1 out (fun x => s1.contains x && !(s2.contains x))
def monDisjoin (ss : List (List α)) (out : List α) : Bool := setOK ss.flatten out (inExactlyOne ss)

end TV.SliceOps
