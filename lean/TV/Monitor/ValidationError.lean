import TV.Model.ValidationError
/-! Executable form of C20's conclusions, applied by the driver to the implementation's answers. -/
namespace TV.VE.Mon

def sortS (l : List String) : List String := (l.toArray.qsort (· < ·)).toList
def sortP (l : List (String × String)) : List (String × String) :=
  (l.toArray.qsort (fun a b => a.1 < b.1 || (a.1 == b.1 && a.2 < b.2))).toList

/-- flat map = exactly the supplied messages, as a multiset of (flat key, message). -/
def flatFaithful (warn : Bool) (tree : VE) (implFlat : SMap) : Bool :=
  (pairs implFlat).isPerm (supplied warn "" tree)

/-- `Error()` renders every supplied message exactly once. -/
def errorOnce (tree : VE) (implLines : List String) : Bool :=
  implLines.isPerm (((supplied false "" tree).map (fun p => "ERROR:" ++ p.2)) ++
                    ((supplied true "" tree).map (fun p => "WARNING:" ++ p.2)))

/-- multiset inclusion. -/
def subMultiset (a b : List (String × String)) : Bool :=
  a.all fun x => a.count x ≤ b.count x

def addContainsBoth (warn : Bool) (e1 e2 : Err) (resFlat : SMap) : Bool :=
  subMultiset (suppliedErr warn e1 ++ suppliedErr warn e2) (pairs resFlat)

end TV.VE.Mon
