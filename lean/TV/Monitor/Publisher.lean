import TV.Model.Publisher
/-!
Executable form of the conclusions of C06 / C10 / C15, evaluated on the implementation's
observations at quiescent points of gated scripts.  Messages are unique within a script.
-/
namespace TV.Publisher.Mon
open TV.Publisher

structure Obs where
  bufs : List Nat
  recvd : List (List Nat)
  cbs : List (Bool × Nat × Nat)     -- (isTimeout, subscriber, message)
  pend : Nat
  other : Nat
  blocked : Bool
deriving Repr, DecidableEq

/-- what the script has done so far (subscriber k is the k-th Subscribe, 1-based). -/
structure SubInfo where
  cap : Nat
  filter : Filter
  short : Bool
  cbF : Bool
  cbT : Bool
  subAt : Nat            -- number of publishes before it subscribed
  closedAt : Option Nat := none   -- number of publishes before it was closed
  sawClosed : Bool := false
deriving Repr

structure MSt where
  subs : List SubInfo := []
  pubs : List Nat := []       -- published messages in order
  slept : Bool := false
deriving Repr

def nodupB : List Nat → Bool
  | [] => true
  | x :: xs => !(xs.contains x) && nodupB xs

/-- messages a subscriber should see: published while it was subscribed and accepted by its filter. -/
def accepted (m : MSt) (si : SubInfo) : List Nat :=
  let hi := si.closedAt.getD m.pubs.length
  ((m.pubs.take hi).drop si.subAt).filter si.filter.accepts

def zipIdx1 (l : List α) : List (Nat × α) := l.zipIdx.map (fun (a, i) => (i + 1, a))

/-- C06: at most once, only published-and-accepted values, nothing from before the subscription or after the close. -/
def deliveriesOK (m : MSt) (o : Obs) : List String :=
  (zipIdx1 m.subs).flatMap fun (k, si) =>
    let r := o.recvd.getD (k - 1) []
    (if nodupB r then [] else ["C06.at_most_once"]) ++
    (if r.all (fun v => m.pubs.contains v && si.filter.accepts v) then [] else ["C06.only_published_and_accepted"]) ++
    (if r.all (fun v => (accepted m si).contains v) then [] else
      [if si.closedAt.isSome then "C10.nothing_after_close" else "C06.only_while_subscribed"])

/-- C06 / C15: when no delivery is pending, every accepted message of an open subscriber has been
    received, is buffered, or (short timeout only) timed out; with OnTimeout set the callbacks count them. -/
def ledgerOK (m : MSt) (o : Obs) : List String :=
  if o.pend != 0 || o.other != 0 then [] else
  (zipIdx1 m.subs).flatMap fun (k, si) =>
    if si.closedAt.isSome then [] else
    let acc := (accepted m si).length
    let have_ := (o.recvd.getD (k - 1) []).length + o.bufs.getD (k - 1) 0
    let tcb := (o.cbs.filter (fun c => c.1 && c.2.1 == k)).length
    if !si.short then (if acc == have_ then [] else ["C06.exactly_once_if_receiving"])
    else if si.cbT then (if acc == have_ + tcb then [] else ["C15.trichotomy"])
    else (if have_ ≤ acc then [] else ["C15.trichotomy"])

/-- C15: callbacks exactly once, for the right subscriber and message, only for the outcome they report. -/
def callbacksOK (m : MSt) (o : Obs) : List String :=
  let okF := (zipIdx1 m.subs).all fun (k, si) =>
    let expect := if si.cbF then ((m.pubs.take (si.closedAt.getD m.pubs.length)).drop si.subAt).filter (fun v => !si.filter.accepts v) else []
    let got := (o.cbs.filter (fun c => !c.1 && c.2.1 == k)).map (·.2.2)
    nodupB got && got.all expect.contains && expect.all got.contains
  let okT := (zipIdx1 m.subs).all fun (k, si) =>
    let got := (o.cbs.filter (fun c => c.1 && c.2.1 == k)).map (·.2.2)
    nodupB got && (got.isEmpty || (si.cbT && si.short && m.slept)) && got.all (fun v => (accepted m si).contains v) &&
    got.all (fun v => !(o.recvd.getD (k - 1) []).contains v)
  (if okF then [] else ["C15.on_filtered_exactly_once"]) ++ (if okT then [] else ["C15.on_timeout_own_deadline_once"])

/-- C15: no delivery outlives its own timeout.  Evaluated right after a `sleep` (longer than the short
    timeout): what is still pending can only be addressed to open subscribers with the long timeout, whose
    buffer is full — at most one pending delivery per accepted message they have neither received nor buffered. -/
def timeoutsFire (m : MSt) (o : Obs) : List String :=
  let room := ((zipIdx1 m.subs).map fun (k, si) =>
    if si.closedAt.isSome || si.short then 0
    else (accepted m si).length - ((o.recvd.getD (k - 1) []).length + o.bufs.getD (k - 1) 0)).foldl (· + ·) 0
  if o.pend + o.other ≤ room then [] else ["C15.trichotomy_timeout_due"]

/-- C15: a subscriber's buffer absorbs up to its capacity with nobody receiving. -/
def buffersOK (m : MSt) (o : Obs) : List String :=
  if (zipIdx1 m.subs).all (fun (k, si) => o.bufs.getD (k - 1) 0 ≤ si.cap) then [] else ["C15.buffer_capacity"]

end TV.Publisher.Mon
