import TV.Model.FifoCache
/-!
Executable (decidable) form of the conclusions of C01 / C02 / C03 / C13, evaluated by the
driver on the *implementation's* observations (never on the model's).  Core-only.

An observation of the cache state (a "view") is what the public API shows: Keys(), Values(),
Len(), Capacity(), and Get/Contains of every key of the case's alphabet `0..alpha`.
-/
namespace TV.FifoCache.Mon

structure View where
  keys : List Nat
  vals : List Nat
  len : Nat
  cap : Nat
  pg : List Nat      -- Get(a) for a = 0..alpha
  ph : List Bool     -- Contains(a) for a = 0..alpha
deriving Repr

def sortL (l : List Nat) : List Nat := l.mergeSort (fun a b => decide (a ≤ b))

def nodupB : List Nat → Bool
  | [] => true
  | x :: xs => !(xs.contains x) && nodupB xs

def View.has (v : View) (a : Nat) : Bool := v.ph.getD a false
def View.get (v : View) (a : Nat) : Nat := v.pg.getD a 0
def View.alpha (v : View) : List Nat := List.range v.ph.length

/-- C01: Keys has no duplicates, Contains(k) holds exactly for the keys in Keys, Values is exactly
    the Get of each key (as multisets: Go map order), Len is their number. -/
def viewsAgree (v : View) : Bool :=
  nodupB v.keys &&
  v.alpha.all (fun a => v.has a == v.keys.contains a) &&
  v.keys.all (fun k => k < v.ph.length) &&
  sortL v.vals == sortL (v.keys.map v.get) &&
  v.len == v.keys.length

/-- the monitor's own bookkeeping over the op history and the implementation's answers. -/
structure St where
  lastW : List (Nat × Option Nat) := []   -- last write per key: some v = Set, none = Delete/Clear
  stamps : List (Nat × Nat) := []         -- ghost insertion stamps (impl-side: stamped when the impl said "absent")
  clock : Nat := 0
  ins : Nat := 0                          -- insertions since the last Clear / construction / Resize
  prev : Option View := none
deriving Repr

def lookup (m : List (Nat × β)) (k : Nat) : Option β := (m.find? (·.1 == k)).map (·.2)
def insertKV (m : List (Nat × β)) (k : Nat) (v : β) : List (Nat × β) := (k, v) :: m.filter (·.1 != k)

/-- C01: a present key shows its last write and that write was a Set; an absent key reads zero. -/
def latestOK (s : St) (v : View) : Bool :=
  v.alpha.all fun a =>
    if v.has a then lookup s.lastW a == some (some (v.get a)) else v.get a == 0

/-- C03: first-in-first-out by insertion stamp. -/
def fifoOK (s : St) (v : View) : Bool :=
  s.stamps.all fun (a, ta) => s.stamps.all fun (b, tb) => !(ta < tb && v.has a) || v.has b

/-- C03: nothing evicted while insertions since the last Clear do not exceed Capacity(). -/
def noEarlyEviction (s : St) (v : View) : Bool :=
  !(s.ins ≤ v.cap) || s.stamps.all (fun (a, _) => v.has a)

/-- keys present before and absent now. -/
def vanished (before after : View) : List Nat := before.alpha.filter (fun a => before.has a && !after.has a)

/-- bookkeeping for `Set(k, v)` given the view before it. -/
def St.onSet (s : St) (k v : Nat) : St :=
  let absent := match s.prev with | some p => !p.has k | none => true
  let s := { s with lastW := insertKV s.lastW k (some v) }
  if absent then { s with stamps := insertKV s.stamps k s.clock, clock := s.clock + 1, ins := s.ins + 1 } else s

def St.onDelete (s : St) (k : Nat) : St :=
  { s with lastW := insertKV s.lastW k none, stamps := s.stamps.filter (·.1 != k) }

def St.onClear (s : St) (alpha : List Nat) : St :=
  { s with lastW := alpha.map (fun a => (a, none)), stamps := [], ins := 0 }

/-- after a Resize the survivors are re-stamped in the (reconstructed) replay order. -/
def St.onResize (s : St) (order : List Nat) (after : View) : St :=
  let surv := order.filter after.has
  let st := surv.zipIdx.map (fun (k, i) => (k, s.clock + i))
  -- a Resize is a new cache into which every old entry is inserted once (the replay)
  { s with stamps := st, clock := s.clock + surv.length, ins := order.length }

/-- C13 at a Resize: survivors keep their values, nothing appears from nowhere, everything
    survives when it fits, Len ≤ Capacity, Capacity = what a new cache of that size reports, and
    survivors are the newest at (old) partition granularity (`partOf` = old partition of a key). -/
def resizeOK (before after : View) (freshcap : Nat) (partOf : Nat → Option Nat) : List String :=
  let c1 := if after.cap == freshcap then [] else ["C13.capacity"]
  let c2 := if after.alpha.all (fun a => !after.has a || (before.has a && after.get a == before.get a)) then [] else ["C13.survivors_keep_values"]
  let c3 := if !(before.len ≤ after.cap) || before.alpha.all (fun a => !before.has a || after.has a) then [] else ["C13.all_survive_if_fit"]
  let c4 := if after.len ≤ after.cap then [] else ["C13.len_le_capacity"]
  let c5 := if before.alpha.all (fun a => before.alpha.all fun b =>
              match partOf a, partOf b with
              | some pa, some pb => !(pa < pb && before.has a && before.has b && after.has a) || after.has b
              | _, _ => true) then [] else ["C13.survivors_are_newest"]
  c1 ++ c2 ++ c3 ++ c4 ++ c5

/-- C02's capacity clause for a fresh cache of requested capacity `c` built with `n` partitions. -/
def capacityOK (c n cap : Nat) (isDefault : Bool) : Bool :=
  1 ≤ n && n ≤ c && cap == n * (c / n) && cap ≤ c && c - cap < n && (!isDefault || n == Nat.sqrt c)

end TV.FifoCache.Mon
