import TV.Proofs.WorkQueueSafety
import TV.Proofs.MonitorWQ
/-!
# C14 — WorkQueue reports every work error to every error subscriber exactly once

Statements are over the labelled transition system of TV/Model/WorkQueue.lean: every worker count
`W ≥ 1`, queue length `L ≥ 1`, any number of producers, items and subscribers, any priorities,
every interleaving (`Reach`); Stop/Break/Dequeue/SetPriority injected at every position.
-/
namespace TV.C14
open TV.WorkQueue TV.GoHeap

/-- at most once per (subscriber, item). -/
theorem C14_at_most_once :
    ∀ (W L : Nat) (_ : 1 ≤ W) (_ : 1 ≤ L) (s : St) (_ : Reach W L s), s.inbox.Nodup := Safety.C14_at_most_once

/-- only non-nil results are delivered (a nil result produces no delivery); the ledger carries the item id, i.e. the value forwarded is the item's own error. -/
theorem C14_only_failed :
    ∀ (W L : Nat) (_ : 1 ≤ W) (_ : 1 ≤ L) (s : St) (_ : Reach W L s), (∀ p ∈ s.inbox, ∃ n, (p.2, n) ∈ s.errored ∧ p.1 < n) ∧ (∀ e ∈ s.errored, e.1 ∈ s.failed) ∧
    (∀ id ∈ s.failed, id ∈ s.finished) := Safety.C14_only_failed

/-- exactly once: when error reporting is quiet (the monitor is not in a fan-out), every fan-out has reached every subscriber that existed when it began. -/
theorem C14_exactly_once_when_quiet :
    ∀ (W L : Nat) (_ : 1 ≤ W) (_ : 1 ≤ L) (s : St) (_ : Reach W L s), (s.mon = .idle ∨ s.mon = .exited) → ∀ e ∈ s.errored, ∀ sub, sub < e.2 → (sub, e.1) ∈ s.inbox := Safety.C14_exactly_once_when_quiet

/-- every failed item is fanned out exactly once: it is either still with its worker or recorded in `errored`, never both, never twice. -/
theorem C14_every_error_reported :
    ∀ (W L : Nat) (_ : 1 ≤ W) (_ : 1 ≤ L) (s : St) (_ : Reach W L s) (id : Nat), id ∈ s.failed →
    (id ∈ s.errSend.map (·.id) ∨ ∃ n, (id, n) ∈ s.errored) ∧ ¬ (id ∈ s.errSend.map (·.id) ∧ ∃ n, (id, n) ∈ s.errored) ∧
    (s.errored.map (·.1)).Nodup := Safety.C14_every_error_reported

/-- subscribers registered before an item was enqueued are included in its fan-out: the subscriber count only grows. -/
theorem C14_subs_monotone :
    ∀ (s s' : St) (a : Act), step? s a = some s' → s.subs ≤ s'.subs := Safety.C14_subs_monotone

/-- obtaining a new channel from Errors() is possible in every state and changes nothing else. -/
theorem C14_subscribe_anytime :
    ∀ (s : St), step? s .subscribe = some { s with subs := s.subs + 1 } := Safety.C14_subscribe_anytime


/-! ### the model passes the monitor the driver applies to the implementation -/
theorem C14_model_passes_monitor (W L : Nat) (s : St) (h : Reach W L s) :
    Mon.errorsOK (MonSound.mstOf s) (Driver.WQ.obsOf s) = true := MonSound.errorsOK_sound h

end TV.C14
