import TV.Proofs.Server
/-!
# C18 — Server starts every listener and stops gracefully and completely
-/
namespace TV.C18
open TV.ServerLifecycle TV.Server TV

/-- the caller's WaitGroup counter equals the number of providers that have been started and whose serve call has not returned; it is never negative. -/
theorem C18_wg_balanced :
    ∀ (n : Nat) (s : St), Reach n s → 0 ≤ s.stopWg ∧
    s.stopWg = ((s.provs.zipIdx.filter (fun (p, i) => (match s.caller with | .idle => false | .spawning k => decide (i < k) | _ => true) && p.pc != .returned)).length : Int) := Proofs.C18_wg_balanced

/-- Start returns without blocking and Stop terminates, for every subset of providers and every interleaving (including Stop immediately after Start and an expired context): while a Start or Stop call is in progress some step of the system is enabled. -/
theorem C18_no_deadlock :
    ∀ (n : Nat) (s : St), Reach n s → s.caller ≠ .idle → s.caller ≠ .startReturned → (∀ e, s.caller ≠ .stopReturned e) →
    ∃ a ∈ allActs s, (step? s a).isSome = true := Proofs.C18_no_deadlock

/-- when Stop returns every listener has shut down (its serve call has returned, the server is closed) and the caller's WaitGroup is released. -/
theorem C18_stop_complete :
    ∀ (n : Nat) (s : St) (err : Bool), Reach n s → s.caller = .stopReturned err →
    s.stopWg = 0 ∧ ∀ p ∈ s.provs, p.pc = .returned ∧ p.srv = .closed ∧ p.shutdownCalled = true := Proofs.C18_stop_complete

/-- with an ample context Stop waits for the requests in flight: none is cut off, and when Stop returns none is left. -/
theorem C18_waits_for_inflight :
    ∀ (n : Nat) (s : St), Reach n s → s.ctxAmple = true → s.aborted = 0 ∧ ((∃ e, s.caller = .stopReturned e) → ∀ p ∈ s.provs, p.inflight = 0) := Proofs.C18_waits_for_inflight

/-- Start returns only after every provider goroutine has signalled that it is about to serve. -/
theorem C18_start_signals_all :
    ∀ (n : Nat) (s : St), Reach n s → (s.caller = .startReturned ∨ (∃ k e, s.caller = .stopping k e) ∨ (∃ e, s.caller = .waitingStopWg e) ∨ (∃ e, s.caller = .stopReturned e)) →
    s.provs.length = n ∧ ∀ p ∈ s.provs, p.pc ≠ .notStarted := Proofs.C18_start_signals_all

/-- Stop called again (model TV.StopRetry: any number of Stop calls on web providers, any contexts, any requests still running): every call with an ample context — whatever earlier calls gave up on — returns nil, and only when no request is running any more. -/
theorem C18_retried_stop_waits :
    ∀ (n : Nat) (f : Nat → Nat) (s : StopRetry.St), StopRetry.Reach n f s →
    ∀ r ∈ s.returned, r.1 = true → r.2.1 = false ∧ r.2.2 = 0 := Proofs.C18_retried_stop_waits

/-- a Stop call in progress is never stuck: it can move on, or it is waiting (ample context) for a running request of the provider it is at, and that request can complete. -/
theorem C18_retried_stop_progress :
    ∀ (n : Nat) (f : Nat → Nat) (s : StopRetry.St), StopRetry.Reach n f s → ∀ (k : Nat) (a e : Bool), s.stopping = some (k, a, e) →
    (StopRetry.step? s .provStop).isSome = true ∨
    (a = true ∧ k < s.n ∧ 0 < s.inflight k ∧ (StopRetry.step? s (.finishReq k)).isSome = true) := Proofs.C18_retried_stop_progress

/-- a Stop call never cuts a web request off, whatever its context: the walk over the providers leaves the running requests as they are (they end by completing). -/
theorem C18_expired_stop_cuts_nothing :
    ∀ (s s' : StopRetry.St), StopRetry.step? s .provStop = some s' → s'.inflight = s.inflight := Proofs.C18_expired_stop_cuts_nothing

/-! non-vacuity: two providers, Stop immediately after Start with one goroutine not yet serving -/
example : ∃ s, runActs (init 2) [.startCall, .spawn, .spawn, .provSignal 0, .provSignal 1, .startWgDone, .provServe 0, .stopCall true,
    .provStop, .provStop, .provStop, .provServe 1, .provReturn 0, .provReturn 1, .stopWgDone] = some s ∧
    s.caller = .stopReturned false ∧ s.stopWg = 0 := by
  refine ⟨_, rfl, ?_⟩; decide

/-! non-vacuity (retried Stop): two providers, two requests running on the first; the expired call gives up with an error and both
    still running; the ample one cannot move before both have completed, and returns nil -/
example : ∃ s, StopRetry.runActs (StopRetry.init 2 (fun i => if i = 0 then 2 else 0))
    [.stopCall false, .provStop, .provStop, .provStop, .stopCall true] = some s ∧
    s.returned = [(false, true, 2)] ∧ (StopRetry.step? s .provStop).isNone = true := ⟨_, rfl, by decide, by decide⟩
example : ∃ s, StopRetry.runActs (StopRetry.init 2 (fun i => if i = 0 then 2 else 0))
    [.stopCall false, .provStop, .provStop, .provStop, .stopCall true, .finishReq 0, .finishReq 0, .provStop, .provStop, .provStop] = some s ∧
    s.returned = [(true, false, 0), (false, true, 2)] := ⟨_, rfl, by decide⟩

end TV.C18
