import TV.Proofs.Publisher
import TV.Proofs.MonitorPub
/-!
# C15 — Publish never blocks and every undelivered message is accounted for

Statements are over the labelled transition system of TV/Model/Publisher.lean: any number of
publishers, subscribers (any buffer size, filter, timeout, callbacks), messages and closers, every
interleaving (`Reach`); closes are injected at every position because `Reach` quantifies over all
reachable states.
-/
namespace TV.C15
open TV.Publisher

/-- Publish is enabled in every state and is one step containing no wait: it only spawns deliveries / records filtered outcomes. -/
theorem C15_publish_never_blocks :
    ∀ (s : St) (m : Nat), (step? s (.publish m)).isSome = true := Proofs.C15_publish_never_blocks

/-- a subscriber's buffer never exceeds its capacity, and absorbs messages up to it with no receiver present (C06_delivered_if_room); buffered messages are received in order. -/
theorem C15_buffer_absorbs :
    ∀ (s : St) (_ : Reach s), ∀ x ∈ s.subs, x.buf.length ≤ x.cap := Proofs.C15_buffer_absorbs

/-- each (message, subscriber) pair ends in exactly one way: every internal step on a delivery removes it and records exactly one outcome for it. (Stated over reachable states: the unrestricted statement is false on unreachable states with a duplicated pending delivery — `dropDel` would remove both copies — as found by the proof attempt.) -/
theorem C15_one_outcome_each :
    ∀ (s : St) (_ : Reach s) (s' : St) (a : Act), isInternal a = true → step? s a = some s' →
    (s'.pending = s.pending ∧ s'.outcomes = s.outcomes) ∨ (s'.pending.length = s.pending.length ∧ s'.outcomes = s.outcomes) ∨
    (s'.pending.length + 1 = s.pending.length ∧ s'.outcomes.length = s.outcomes.length + 1) ∨ s'.panicked = true := Proofs.C15_one_outcome_each

/-- a delivery is dropped only once its own subscriber's timeout has expired: the timer is armed with that subscriber's timeout when the delivery enters its select, and `timeout` is enabled only at or after the deadline. -/
theorem C15_timeout_own_and_not_early :
    (∀ (s s' : St) (uid sub : Nat) (x : Sub), step? s (.acquireR uid sub) = some s' → getSub s sub = some x →
      ∀ d, findDel s' uid sub = some d → d.stage = .holding → d.deadline = s.now + x.timeout) ∧
    (∀ (s s' : St) (uid sub : Nat), step? s (.timeout uid sub) = some s' → ∃ d, findDel s uid sub = some d ∧ d.deadline ≤ s.now) := Proofs.C15_timeout_own_and_not_early

/-- OnFiltered / OnTimeout are invoked exactly once per filtered / timed-out outcome of a subscriber that set them, with that message, and never otherwise. -/
theorem C15_callbacks_exactly_once :
    ∀ (s : St) (_ : Reach s), (s.callbacks.map (fun c => (c.1, c.2.1, c.2.2.1))).Nodup ∧
    (∀ c ∈ s.callbacks, (c.2.2.1, c.2.2.2) ∈ s.published ∧ (c.2.2.1, c.2.1, if c.1 then Outcome.timedOut else Outcome.filtered) ∈ s.outcomes ∧
        ∃ x, getSub s c.2.1 = some x ∧ (if c.1 then x.cbTimeout else x.cbFiltered) = true) ∧
    (∀ o ∈ s.outcomes, ∀ x m, getSub s o.2.1 = some x → (o.1, m) ∈ s.published →
        (o.2.2 = .timedOut → x.cbTimeout = true → (true, o.2.1, o.1, m) ∈ s.callbacks) ∧
        (o.2.2 = .filtered → x.cbFiltered = true → (false, o.2.1, o.1, m) ∈ s.callbacks)) := Proofs.C15_callbacks_exactly_once

/-- afterwards no delivery goroutine remains: at a quiescent point every delivery still pending is legitimately waiting — it holds the lock, its own deadline has not passed, the buffer is full and the subscriber is not closing. -/
theorem C15_no_goroutine_left :
    ∀ (s : St) (_ : Reach s), quiescent s → ∀ d ∈ s.pending, ∃ x, getSub s d.sub = some x ∧ d.stage = .holding ∧ s.now < d.deadline ∧
    x.cap ≤ x.buf.length ∧ x.doneClosed = false := Proofs.C15_no_goroutine_left

/-! non-vacuity: buffer 1, two messages, nobody receives, the second one times out after a tick and the callback fires once -/
example : ∃ s, runActs init [.subscribe 1 .none 1 false true, .publish 7, .publish 8, .acquireR 0 1, .deliver 0 1, .acquireR 1 1,
    .tick, .timeout 1 1] = some s ∧ s.callbacks = [(true, 1, 1, 8)] ∧ s.pending = [] ∧ (s.subs.map (·.buf)) = [[7]] := by
  refine ⟨_, rfl, ?_⟩; decide

/-! ### the model passes the monitors the driver applies to the implementation

`ReachG`: Publish is issued only when no close is in progress, which holds at every quiescent point
(`quiescent_closesDone`): between `close(done)` and `close(receiveCh)` the subscriber is still registered and a racing
Publish still calls OnFiltered — the monitor's bookkeeping does not count that (witness in TV/Proofs/MonitorPub.lean). -/
theorem C15_model_passes_monitor_buffers (s : St) (h : Reach s) :
    Mon.buffersOK (MonSound.mstOf s) (Driver.Pub.obsOf s) = [] := MonSound.buffersOK_sound h

theorem C15_model_passes_monitor_callbacks (s : St) (h : ReachG s) (hd : MonSound.distinctPubs s) (ht : MonSound.timeoutsOK s) :
    Mon.callbacksOK (MonSound.mstOf s) (Driver.Pub.obsOf s) = [] := MonSound.callbacksOK_sound h hd ht

end TV.C15
