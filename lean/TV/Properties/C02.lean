import TV.Proofs.FifoCache
import Mathlib.Data.Nat.Sqrt
/-!
# C02 — FifoMapCache never holds more than Capacity() entries after a sweep
-/
namespace TV.C02
open TV.FifoCache
variable {K V : Type} [DecidableEq K] [Inhabited V]

/-- After a Sweep, `Len() ≤ Capacity()`, whatever mixture of inserts, updates, deletes,
    re-inserts, clears and resizes came before. -/
theorem C02_len_le_capacity (n pc : Nat) (hn : 1 ≤ n) (hpc : 1 ≤ pc) (ops : List (Op K V))
    (hok : OpsOK (init n pc) ops) :
    len (sweep (run (init n pc : Cache K V) ops)) ≤ capacity (sweep (run (init n pc : Cache K V) ops)) :=
  (wf_sweep (wf_run (wf_init n pc hn hpc) ops hok)).len_le (length_sweep_le _)

/-- `Capacity()` is the requested capacity rounded down to a whole number of equal partitions,
    for the partition count `n` of *any* calculator with `1 ≤ n ≤ c`: never more than requested
    and short of it by less than `n`. -/
theorem C02_capacity_round_down (n c : Nat) (hn : 1 ≤ n) (hc : n ≤ c) :
    n * (c / n) ≤ c ∧ c - n * (c / n) < n ∧ 1 ≤ c / n := by
  have h1 : n * (c / n) ≤ c := Nat.mul_div_le c n
  have h2 : c % n < n := Nat.mod_lt c hn
  have h3 : n * (c / n) + c % n = c := Nat.div_add_mod c n
  exact ⟨h1, by omega, Nat.div_pos hc hn⟩

/-- `Capacity()` of a new cache is `n * pc`, and only Resize changes it. -/
theorem C02_capacity_stable (c : Cache K V) (o : Op K V) (h : ∀ n' pc' ord, o ≠ .resize n' pc' ord) :
    capacity (step c o).1 = capacity c := by
  cases o with
  | set k v => simp only [step, capacity, n_set]
  | delete k => simp only [step, delete, capacity]; split <;> [split; skip] <;> rfl
  | resize n' pc' ord => exact absurd rfl (h n' pc' ord)
  | _ => rfl

/-- The integer square root is what the default calculator computes (validated against the
    float code by the harness for every capacity in range). -/
theorem C02_default_calculator (c : Nat) (hc : 1 ≤ c) :
    1 ≤ Nat.sqrt c ∧ Nat.sqrt c ≤ c :=
  ⟨Nat.sqrt_pos.2 hc, Nat.sqrt_le_self c⟩

/-! witness: the pinned `Delete` (index entry left behind) violates the property -/
theorem pinned_C02_witness :
    let s := sweep (runPinned (init 2 2 : Cache Nat Nat)
      [.set 1 1, .set 2 2, .set 3 3, .set 4 4, .delete 3, .set 5 5, .set 3 3])
    len s = 5 ∧ capacity s = 4 := by decide

example : len (sweep (run (init 2 2 : Cache Nat Nat)
      [.set 1 1, .set 2 2, .set 3 3, .set 4 4, .delete 3, .set 5 5, .set 3 3])) ≤ 4 := by decide

end TV.C02
