import TV.Proofs.FifoCacheGhost
/-!
# C03 — FifoMapCache evicts oldest-first and never before it is full

Insertion order is the ghost stamp of `GCache`: set on an absent key stamps it (re-inserting a
deleted or evicted key renews it), an update does not, Delete and Clear erase the stamp.
-/
namespace TV.C03
open TV.FifoCache
set_option linter.unusedSectionVars false
variable {K V : Type} [DecidableEq K] [Inhabited V]

/-- ghost fields never influence the real cache. -/
theorem C03_ghost_erasure (g : GCache K V) (o : Op K V) : (gstep g o).c = (step g.c o).1 :=
  gstep_c g o

/-- FIFO by insertion: if `a` was inserted before `b` and neither has been deleted since, then
    `a` present implies `b` present — in every reachable state of every legal history
    (Resize included: replayed keys are re-stamped in replay order). -/
theorem C03_fifo (n pc : Nat) (hn : 1 ≤ n) (hpc : 1 ≤ pc) (ops : List (Op K V))
    (hok : OpsOK (init n pc) ops) (a b : K) (ta pa tb pb : Nat) :
    let g := grun (ginit n pc : GCache K V) ops
    alGet? g.stamps a = some (ta, pa) → alGet? g.stamps b = some (tb, pb) → ta < tb →
    contains g.c a = true → contains g.c b = true := by
  intro g ha hb hlt hc
  exact (ginv_grun (ginv_ginit n pc hn hpc) ops hok).fifo ha hb hlt hc

/-- updating an existing key does not renew it ... -/
theorem C03_update_does_not_renew (g : GCache K V) (k : K) (v : V) (h : contains g.c k = true) :
    (gset g k v).stamps = g.stamps ∧ (gset g k v).clock = g.clock := by
  simp [gset, h]

/-- ... re-inserting an absent (never set / deleted / evicted) key does: it becomes the newest. -/
theorem C03_reinsert_renews (n pc : Nat) (hn : 1 ≤ n) (hpc : 1 ≤ pc) (ops : List (Op K V))
    (hok : OpsOK (init n pc) ops) (k : K) (v : V) :
    let g := grun (ginit n pc : GCache K V) ops
    contains g.c k = false →
      (∃ p, alGet? (gset g k v).stamps k = some (g.clock, p)) ∧
      ∀ k' t p, alGet? g.stamps k' = some (t, p) → t < g.clock := by
  intro g hc
  refine ⟨?_, (ginv_grun (ginv_ginit n pc hn hpc) ops hok).hclock⟩
  simp [gset, hc, alGet?_alSet_self]

/-- Nothing is evicted while the number of insertions since the last Clear does not exceed
    Capacity(): a sweep then removes nothing. -/
theorem C03_no_eviction_until_full (n pc : Nat) (hn : 1 ≤ n) (hpc : 1 ≤ pc) (ops : List (Op K V))
    (hok : OpsOK (init n pc) ops) (hnr : ∀ o ∈ ops, noResize o = true) :
    let g := grun (ginit n pc : GCache K V) ops
    g.ins ≤ capacity g.c → (sweep g.c).parts = g.c.parts := by
  intro g hins
  have _ := hnr
  have hg := ginv_grun (ginv_ginit n pc hn hpc) ops hok
  rw [sweep_eq_self (length_le_of_fill hg.wf hg.hfill hins)]

/-- Each overflow evicts at most one partition's worth (≤ pc = Capacity()/n entries) of the
    oldest entries. -/
theorem C03_overflow_evicts_at_most_one_partition (c : Cache K V) (h : WF c)
    (hs : c.parts.length ≤ c.n) (k : K) (v : V) :
    (sweep (set c k v)).parts = (set c k v).parts ∨
    ∃ p, (set c k v).parts = p :: (sweep (set c k v)).parts ∧ p.kv.length ≤ c.pc :=
  overflow_one h hs k v

/-! non-vacuity -/
example : let g := grun (ginit 2 2 : GCache Nat Nat) [.set 1 1, .set 2 2, .set 1 9, .set 3 3, .delete 2, .set 2 2, .sweep]
    alGet? g.stamps 1 = some (0, 1) ∧ alGet? g.stamps 3 = some (2, 2) ∧ alGet? g.stamps 2 = some (3, 2) := by decide

end TV.C03
