import TV.Proofs.WorkQueueSafety
import TV.Proofs.WorkQueueHeap
import TV.Proofs.MonitorWQ
/-!
# C16 — Dequeue and SetPriority act on exactly the identified work item

Statements are over the labelled transition system of TV/Model/WorkQueue.lean: every worker count
`W ≥ 1`, queue length `L ≥ 1`, any number of producers, items and subscribers, any priorities,
every interleaving (`Reach`); Stop/Break/Dequeue/SetPriority injected at every position.
-/
namespace TV.C16
open TV.WorkQueue TV.GoHeap

/-- if Dequeue(id) returned nil for an item the queue knew, the item has left the queue for good: it never starts. -/
theorem C16_dequeued_never_start :
    ∀ (W L : Nat) (_ : 1 ≤ W) (_ : 1 ≤ L) (s : St) (_ : Reach W L s), ∀ id ∈ s.dequeued, id ∉ s.started ∧ id ∉ (waiting s).map (·.id) ∧ id ∉ (s.running ++ s.errSend).map (·.id) := Safety.C16_dequeued_never_start

/-- if Dequeue returns an error (executing, or no longer / not yet in the priority queue) nothing changes. (Stated for reachable states: in an arbitrary state one id could sit in two places at once, where the statement is false — found by the proof attempt.) -/
theorem C16_dequeue_error_noop_reach :
    ∀ (W L : Nat) (_ : 1 ≤ W) (_ : 1 ≤ L) (s : St) (_ : Reach W L s) (id : Nat), dequeueRet s id = .error →
    step? s (.dequeue id) = some s := Safety.C16_dequeue_error_noop_reach

/-- an unknown id is a no-op for both calls. -/
theorem C16_unknown_id_noop :
    ∀ (s : St) (id : Nat), findId (stored s) id = none →
    dequeueRet s id = .nil ∧ setPrioRet s id = .nil ∧ step? s (.dequeue id) = some s := Safety.C16_unknown_id_noop

/-- for an executing item both calls return an error and change nothing. -/
theorem C16_in_progress :
    ∀ (s : St) (id : Nat) (p : Int), inProgress s id = true → (findId (stored s) id).isSome = true →
    dequeueRet s id = .error ∧ setPrioRet s id = .error ∧ step? s (.setPrio id p) = some s := Safety.C16_in_progress

/-- Dequeue returns nil for a waiting item, and exactly that item is removed: every other waiting item stays, the queue stays a heap, nothing else changes. -/
theorem C16_dequeue_removes_exactly :
    ∀ (W L : Nat) (_ : 1 ≤ W) (_ : 1 ≤ L) (s : St) (_ : Reach W L s) (s' : St) (id : Nat), id ∈ s.heap.map (·.id) → step? s (.dequeue id) = some s' →
    s'.dequeued = s.dequeued ++ [id] ∧ (id :: s'.heap.map (·.id)).Perm (s.heap.map (·.id)) ∧ IsHeap less s'.heap ∧
    s'.chan = s.chan ∧ s'.running = s.running ∧ s'.blocked = s.blocked ∧ s'.started = s.started ∧ s'.panicked = s.panicked := Heap.C16_dequeue_removes_exactly

/-- SetPriority(id, p) on a waiting item (no adjust functions around): it competes with priority p from then on, every other item keeps its priority, the queue stays a heap. -/
theorem C16_setprio_waiting :
    ∀ (W L : Nat) (_ : 1 ≤ W) (_ : 1 ≤ L) (s : St) (_ : Reach W L s) (s' : St) (id : Nat) (p : Int), id ∈ s.heap.map (·.id) → (∀ x ∈ s.heap, x.adj = false) → inProgress s id = false →
    ((s.heap.map (·.id)).Nodup) → step? s (.setPrio id p) = some s' →
    s'.heap.Perm (s.heap.map (fun x => if x.id = id then { x with prio := p } else x)) ∧ IsHeap less s'.heap := Heap.C16_setprio_waiting


/-! ### the model passes the monitor the driver applies to the implementation -/
theorem C16_model_passes_monitor (W L : Nat) (s : St) (h : Reach W L s) :
    Mon.dequeuedNeverStart (MonSound.mstOf s) (Driver.WQ.obsOf s) [] = true := MonSound.dequeuedNeverStart_sound h

end TV.C16
