import TV.Proofs.LockedObject
/-!
# C08 — FifoMapCache is safe under concurrent use

The concurrent systems are the labelled transition systems of TV/Model/LockedObject.lean: any number of
threads, any programs, every interleaving of the objects' critical sections (`CReach`).  Which code runs in
which section is tied to the source by the regenerated shape facts (TV/Generated/Shape.lean, TV/ShapeOK.lean).
-/
namespace TV.C08
open TV.LockedObject TV.FifoCache TV.GenericStack

/-- with every public method one section of the cache-wide lock (the repaired shape, regenerated from the source), the concurrent cache is linearizable to the sequential cache model of C01-C03/C13: any concurrent mix of operations from any number of goroutines behaves like some sequential history of `FifoCache.step`. -/
theorem C08_linearizable_to_C01_model {K V : Type} [DecidableEq K] [DecidableEq V] [Inhabited V] :
    ∀ (n pc : Nat) (c : CSt (Cache K V) (FifoCache.Op K V) (FifoCache.Out K V) Unit),
    CReach (single FifoCache.step) (FifoCache.init n pc) c →
    Linearizable FifoCache.step (FifoCache.init n pc : Cache K V) c.hist ∧
    c.shared = FifoCache.run (FifoCache.init n pc) (c.lin.map (·.op)) := Proofs.C08_linearizable_to_C01_model

/-- every value returned by Get was actually Set for that key: a completed Get(k) that returns a non-zero value is preceded in the linearization by a Set(k, that value) (for ledgers whose Resize arguments are legal). -/
theorem C08_get_was_set {K V : Type} [DecidableEq K] [DecidableEq V] [Inhabited V] :
    ∀ (n pc : Nat) (_ : 1 ≤ n) (_ : 1 ≤ pc) (c : CSt (Cache K V) (FifoCache.Op K V) (FifoCache.Out K V) Unit),
    CReach (single FifoCache.step) (FifoCache.init n pc) c → OpsOK (FifoCache.init n pc) (c.lin.map (·.op)) →
    ∀ (l1 l2 : List (LinEntry (FifoCache.Op K V) (FifoCache.Out K V))) (e : LinEntry (FifoCache.Op K V) (FifoCache.Out K V)) (k : K) (v : V),
      c.lin = l1 ++ e :: l2 → e.op = .get k → e.r = .val v → v ≠ default → ∃ e' ∈ l1, e'.op = .set k v := Proofs.C08_get_was_set

/-- once all calls have returned the state is a reachable state of the sequential model, so its views are mutually consistent (C01_views_agree) and after a Sweep it holds at most Capacity() entries. -/
theorem C08_views_consistent {K V : Type} [DecidableEq K] [DecidableEq V] [Inhabited V] :
    ∀ (n pc : Nat) (_ : 1 ≤ n) (_ : 1 ≤ pc) (c : CSt (Cache K V) (FifoCache.Op K V) (FifoCache.Out K V) Unit),
    CReach (single FifoCache.step) (FifoCache.init n pc) c → OpsOK (FifoCache.init n pc) (c.lin.map (·.op)) →
    WF c.shared ∧ (keys c.shared).Nodup ∧ (∀ k, contains c.shared k = true ↔ k ∈ keys c.shared) ∧
    len (sweep c.shared) ≤ capacity (sweep c.shared) := Proofs.C08_views_consistent


end TV.C08
