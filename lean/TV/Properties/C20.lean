import TV.Proofs.ValidationError
import TV.Monitor.ValidationError
import TV.Proofs.MonitorVE
/-!
# C20 — ValidationError flattening is faithful and reading it has no side effects
All statements are for every tree (any depth and fan-out, nil or non-nil maps at any node).
-/
namespace TV.C20
open TV.VE

/-- The flattened error / warning map contains exactly the messages that were supplied, each
    under its field name prefixed by the dot-separated path of child names, errors and warnings
    kept apart (`warn` selects which) — as multisets of (flat key, message), since two routes may
    legitimately produce the same flat key. -/
theorem C20_flat_faithful (warn : Bool) (e : VE) :
    (pairs (getFlat warn e).1).Perm (supplied warn "" e) := pairs_getFlat warn e

/-- `Error()` renders each supplied message exactly once (line order is map order). -/
theorem C20_error_renders_once (e : VE) :
    (errorLines e).1.Perm
      (((supplied false "" e).map (fun p => "ERROR: " ++ p.2)) ++
       ((supplied true "" e).map (fun p => "WARNING: " ++ p.2))) := by
  have key : ∀ (m : SMap) (t : String),
      (m.flatMap (·.2)).map (t ++ ·) = (pairs m).map (fun p => t ++ p.2) := by
    intro m t
    induction m with
    | nil => rfl
    | cons p r ih =>
      obtain ⟨k, v⟩ := p
      rw [pairs_cons, List.flatMap_cons, List.map_append, List.map_append, ih]
      simp
  simp only [errorLines, key]
  exact ((pairs_getFlat false e).map _).append ((pairs_getFlat true e).map _)

/-- Reading never changes the receiver (and never panics: the repaired reads are total). -/
theorem C20_reads_pure (e : VE) (warn : Bool) :
    (getFlat warn e).2 = e ∧ (errorLines e).2 = e := ⟨rfl, rfl⟩

/-- a read, as the harness issues them. -/
inductive Read | flat (warn : Bool) | error

def doRead (e : VE) : Read → (List (String × String) ⊕ List String) × VE
  | .flat w => (.inl (pairs (getFlat w e).1), (getFlat w e).2)
  | .error => (.inr (errorLines e).1, (errorLines e).2)

/-- every sequence of reads returns, call by call, what the first call of that kind returned:
    the receiver after any sequence of reads is the receiver before. -/
theorem C20_read_sequences (e : VE) (rs : List Read) :
    rs.foldl (fun e r => (doRead e r).2) e = e := by
  induction rs with
  | nil => rfl
  | cons r rs ih =>
    have h : (doRead e r).2 = e := by cases r <;> rfl
    rw [List.foldl_cons, h, ih]

/-- the result of AddErrorToValidation contains every message of both arguments (as a
    multiset), for every combination nil / plain / ValidationError / wrapped ValidationError;
    it returns nil only when neither argument supplies anything. -/
theorem C20_add_contains_both (warn : Bool) (e1 e2 : Err) (x : String × String) :
    match addErr e1 e2 with
    | some r => (suppliedErr warn e1 ++ suppliedErr warn e2).count x ≤ (pairs (getFlat warn r).1).count x
    | none => suppliedErr warn e1 = [] ∧ suppliedErr warn e2 = [] := by
  have h := addErr_contains_both warn e1 e2 x
  split <;> rename_i heq <;> rw [heq] at h
  · rw [(pairs_getFlat warn _).count_eq]; exact h
  · exact h

/-- the monitor the driver applies to the implementation accepts the model's own answers. -/
theorem C20_model_passes_monitor_perm (warn : Bool) (e : VE) :
    (pairs (getFlat warn e).1).Perm (supplied warn "" e) := C20_flat_faithful warn e

/-! ### the monitors the driver applies to the *implementation's* answers decide exactly these conclusions -/

theorem C20_monitor_flat (warn : Bool) (tree : VE) (implFlat : SMap) :
    Mon.flatFaithful warn tree implFlat = true ↔ (pairs implFlat).Perm (supplied warn "" tree) :=
  Mon.flatFaithful_iff warn tree implFlat

theorem C20_monitor_error (tree : VE) (implLines : List String) :
    Mon.errorOnce tree implLines = true ↔
      implLines.Perm (((supplied false "" tree).map (fun p => "ERROR:" ++ p.2)) ++
                      ((supplied true "" tree).map (fun p => "WARNING:" ++ p.2))) :=
  Mon.errorOnce_iff tree implLines

theorem C20_monitor_add (warn : Bool) (e1 e2 : Err) (resFlat : SMap) :
    Mon.addContainsBoth warn e1 e2 resFlat = true ↔
      ∀ x, (suppliedErr warn e1 ++ suppliedErr warn e2).count x ≤ (pairs resFlat).count x :=
  Mon.addContainsBoth_iff warn e1 e2 resFlat

/-- hence the model's own flat maps pass the monitor, for every tree. -/
theorem C20_model_passes_monitor (warn : Bool) (e : VE) :
    Mon.flatFaithful warn e (getFlat warn e).1 = true :=
  (Mon.flatFaithful_iff warn e _).2 (C20_flat_faithful warn e)

/-! non-vacuity and witnesses -/
def sampleTree : VE :=
  newVEs (some [("f", ["top"])]) (some [("addr", newVEsW (some [("zip", ["bad"])]) (some [("zip", ["odd"])])
    (some [("geo", newVE "lat" "range" false)]))])

example : (getFlat false sampleTree).1 = [("f", ["top"]), ("addr.zip", ["bad"]), ("addr.geo.lat", ["range"])] := by decide
example : (getFlat true sampleTree).1 = [("addr.zip", ["odd"])] := by decide

/-- pinned: the second flat read returns the child's message twice (the first read appended it to
    the receiver's own map). -/
theorem pinned_C20_read_grows :
    ∃ f1 e1 f2 e2, getFlatPinned false sampleTree = some (f1, e1) ∧ getFlatPinned false e1 = some (f2, e2) ∧
      f1 ≠ f2 := by
  refine ⟨_, _, _, _, rfl, rfl, ?_⟩; decide

/-- pinned: `NewValidationErrors` leaves the warning map nil; a child warning then panics. -/
theorem pinned_C20_nil_map_panics :
    getFlatPinned true (newVEs none (some [("c", newVE "f" "w" true)])) = none := by decide

end TV.C20
