import TV.Proofs.WorkQueueSafety
import TV.Proofs.WorkQueueLive
import TV.Proofs.MonitorWQ
/-!
# C19 — WorkQueue Stop and Break never crash, lose or resurrect work

Statements are over the labelled transition system of TV/Model/WorkQueue.lean: every worker count
`W ≥ 1`, queue length `L ≥ 1`, any number of producers, items and subscribers, any priorities,
every interleaving (`Reach`); Stop/Break/Dequeue/SetPriority injected at every position.
-/
namespace TV.C19
open TV.WorkQueue TV.GoHeap

/-- no panic in any reachable state: nobody sends on a closed channel (only the dispatcher closes workerCh, after its last send), heap.Pop never sees an empty heap. -/
theorem C19_no_panic :
    ∀ (W L : Nat) (_ : 1 ≤ W) (_ : 1 ≤ L) (s : St) (_ : Reach W L s), s.panicked = false := Safety.C19_no_panic

/-- Stop, Break and Enqueue can be called in every state (they never block the caller), and an Enqueue caught by Stop/Break has a way out. -/
theorem C19_callers_return :
    ∀ (s : St), (step? s .stop).isSome = true ∧ (step? s .break_).isSome = true ∧
    (∀ p n a, (step? s (.enqueue p n a)).isSome = true) ∧
    (s.ctxDone = true → ∀ it ∈ s.blocked, (step? s (.giveUp it.id)).isSome = true) := Safety.C19_callers_return

/-- work submitted after Stop/Break is never run: rejected items were never accepted and never start; nothing in limbo (submitted after Stop, or skipped by Break) ever starts. -/
theorem C19_after_stop_never_run :
    ∀ (W L : Nat) (_ : 1 ≤ W) (_ : 1 ≤ L) (s : St) (_ : Reach W L s), (∀ id ∈ s.rejected, id ∉ s.started ∧ id ∉ s.accepted) ∧ (∀ it ∈ s.limbo, it.id ∉ s.started) := Safety.C19_after_stop_never_run

/-- after Stop (without Break) accepted work is not lost: it started, was dequeued, or is still on its way to a worker. -/
theorem C19_stop_keeps_accepted :
    ∀ (W L : Nat) (_ : 1 ≤ W) (_ : 1 ≤ L) (s : St) (_ : Reach W L s), s.breaked = false → ∀ id ∈ s.accepted, id ∈ s.started ∨ id ∈ s.dequeued ∨ id ∈ (waiting s).map (·.id) := Safety.C19_stop_keeps_accepted

/-- after Break the waiting work is skipped: when the dispatcher leaves its loop with Break set, the priority queue is emptied into limbo (never to start). -/
theorem C19_break_skips_waiting :
    ∀ (W L : Nat) (_ : 1 ≤ W) (_ : 1 ≤ L) (s : St) (_ : Reach W L s) (s' : St), s.breaked = true → step? s .ctxExit = some s' →
    s'.heap = [] ∧ s'.disp = .drain [] ∧ ∀ it ∈ s.heap, it ∈ s'.limbo := Safety.C19_break_skips_waiting

/-- while stopping, the hand-over never deadlocks: until the dispatcher has exited, an internal step is enabled, or a work function is executing, or the monitor waits for a subscriber. -/
theorem C19_shutdown_no_deadlock :
    ∀ (W L : Nat) (_ : 1 ≤ W) (_ : 1 ≤ L) (s : St) (_ : Reach W L s), s.ctxDone = true → s.disp ≠ .exited →
    internalActs s ≠ [] ∨ s.running ≠ [] ∨ (∃ e r, s.mon = .fanout e r) := Live.C19_shutdown_no_deadlock

/-! non-vacuity: Stop with an item executing runs the shutdown hand-shake to the end without panic -/
example : ∃ s, runActs (init 1 1) [.enqueue 1 0 false, .recv 0, .take, .stop, .ctxExit, .closeChan, .finish 0 false,
    .tokSendDone, .awaitTok, .workerExit, .allDone, .monExit] = some s ∧ s.disp = .exited ∧ s.panicked = false ∧ s.started = [0] := by
  refine ⟨_, rfl, ?_⟩; decide

/-! ### the model passes the monitor the driver applies to the implementation: whatever starts after Stop or Break
    was submitted before it (`s0.nextId` = ordinals issued when Stop/Break was called, as the driver records it) -/
theorem C19_model_passes_monitor (W L : Nat) (s0 s1 s : St) (a : Act) (h0 : Reach W L s0) (ha : a = .stop ∨ a = .break_)
    (h1 : step? s0 a = some s1) (hsteps : MonSound.Steps s1 s) :
    (Driver.WQ.obsOf s).started.all (· < s0.nextId) = true := MonSound.afterStop_at_stop_sound h0 ha h1 hsteps

/-! ### Break after Stop: the drain loop reads `breaked` before every item -/

/-- once Break has been called while the dispatcher is handing the remaining work to the workers (after an earlier Stop),
    the item it is blocked on is still handed over, and everything behind it is skipped: it ends in `limbo` and never starts. -/
theorem C19_break_after_stop_skips_rest (W L : Nat) (hW : 1 ≤ W) (hL : 1 ≤ L) (s s' t : St) (it : Item) (rest : List Item)
    (hr : Reach W L s) (hd : s.disp = .drain (it :: rest)) (hb : s.breaked = true)
    (hs : step? s .drainSend = some s') (hsteps : MonSound.Steps s' t) :
    s'.chan = s.chan ++ [it] ∧ s'.disp = .drain [] ∧
    ∀ x ∈ rest, x.id ∈ t.limbo.map (·.id) ∧ x.id ∉ t.started :=
  breakAfterStop_skips_rest W L hW hL s s' t it rest hr hd hb hs hsteps

end TV.C19
