import TV.Proofs.Publisher
import TV.Proofs.MonitorPub
/-!
# C06 — Publication delivers each accepted message exactly once per subscriber

Statements are over the labelled transition system of TV/Model/Publisher.lean: any number of
publishers, subscribers (any buffer size, filter, timeout, callbacks), messages and closers, every
interleaving (`Reach`); closes are injected at every position because `Reach` quantifies over all
reachable states.
-/
namespace TV.C06
open TV.Publisher

/-- for every (Publish call, subscriber) pair there is at most one outcome, and a pair still pending has none: a message reaches a subscriber at most once. -/
theorem C06_at_most_once :
    ∀ (s : St) (_ : Reach s), ((s.outcomes.map (fun o => (o.1, o.2.1))) ++ (s.pending.map (fun d => (d.uid, d.sub)))).Nodup := Proofs.C06_at_most_once

/-- a subscriber only receives values that were published and that its filter accepts, through a delivery addressed to it (no cross-delivery, nothing invented). -/
theorem C06_only_published_and_accepted :
    ∀ (s : St) (_ : Reach s), (∀ o ∈ s.outcomes, o.2.2 = .sent → ∃ m x, (o.1, m) ∈ s.published ∧ getSub s o.2.1 = some x ∧ x.filter.accepts m = true) ∧
    (∀ d ∈ s.pending, (d.uid, d.msg) ∈ s.published ∧ ∃ x, getSub s d.sub = some x ∧ x.filter.accepts d.msg = true) ∧
    (∀ r ∈ s.received, ∃ uid, (uid, r.2) ∈ s.published ∧ (uid, r.1, Outcome.sent) ∈ s.outcomes) := Proofs.C06_only_published_and_accepted

/-- what is in a subscriber's buffer was sent to that subscriber. -/
theorem C06_buffer_holds_sent :
    ∀ (s : St) (_ : Reach s), ∀ x ∈ s.subs, ∀ m ∈ x.buf, ∃ uid, (uid, m) ∈ s.published ∧ (uid, x.id, Outcome.sent) ∈ s.outcomes := Proofs.C06_buffer_holds_sent

/-- exactly once if the subscriber keeps receiving: a delivery that holds the lock while the buffer has room can be sent at once (the scheduling/timer race with its deadline is a runtime truth the model cannot exhibit; see C15_timeout_own_and_not_early for the converse). -/
theorem C06_delivered_if_room :
    ∀ (s : St) (d : Delivery) (x : Sub), findDel s d.uid d.sub = some d → getSub s d.sub = some x → d.stage = .holding →
    x.chClosed = false → x.buf.length < x.cap → (step? s (.deliver d.uid d.sub)).isSome = true := Proofs.C06_delivered_if_room

/-- a Publish visits every registered subscriber: each gets a delivery goroutine or (filter rejects) a filtered outcome. -/
theorem C06_publish_reaches_every_subscriber :
    ∀ (s s' : St) (m : Nat), step? s (.publish m) = some s' → ∀ x ∈ s.subs, x.registered = true →
    (x.filter.accepts m = true ∧ ∃ d ∈ s'.pending, d.uid = s.nextUid ∧ d.sub = x.id ∧ d.msg = m) ∨
    (x.filter.accepts m = false ∧ (s.nextUid, x.id, Outcome.filtered) ∈ s'.outcomes) := Proofs.C06_publish_reaches_every_subscriber


/-! ### the model passes the monitors the driver applies to the implementation

`mstOf s` is the bookkeeping the driver has recorded from the script (`subAt` / `closedAt` are ghost fields of the model),
`obsOf s` the model's own observation.  Side conditions = what the harness guarantees: published values are pairwise
distinct (the clauses compare values), and only the short timeout (1 tick) can have fired. -/
theorem C06_model_passes_monitor_deliveries (s : St) (h : Reach s) (hd : MonSound.distinctPubs s) :
    Mon.deliveriesOK (MonSound.mstOf s) (Driver.Pub.obsOf s) = [] := MonSound.deliveriesOK_sound h hd

theorem C06_model_passes_monitor_ledger (s : St) (h : Reach s) (ht : MonSound.timeoutsOK s) :
    Mon.ledgerOK (MonSound.mstOf s) (Driver.Pub.obsOf s) = [] := MonSound.ledgerOK_sound h ht

end TV.C06
