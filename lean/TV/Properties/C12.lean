import TV.Proofs.SliceOps
import TV.Monitor.SliceOps
import TV.Proofs.MonitorSliceOps
/-!
# C12 — sliceOps functions equal their list and set specifications on all inputs

Only property theorems, their non-vacuity examples and the witnesses for the pinned
(unrepaired) variants live here.  All statements are for every element type with `==`
(`DecidableEq`) and a zero value (`Inhabited`), every list and every length.
-/
namespace TV.C12
open TV.SliceOps
variable {α : Type} [DecidableEq α] [Inhabited α]

/-- Remove(s,i,j) for every valid range: the visible result is `s[:i] ++ s[j:]`, the
    vacated tail of the backing array is zeroed, slots beyond `len` are untouched. -/
theorem C12_remove (s : Slice α) (i j : Nat) (hij : i ≤ j) (hj : j ≤ s.len) (hwf : s.wf) :
    ∃ s', remove s i j = some s' ∧
      s'.visible = s.visible.take i ++ s.visible.drop j ∧
      s'.arr = (s.visible.take i ++ s.visible.drop j) ++ List.replicate (j - i) default
                 ++ s.arr.drop s.len :=
  let ⟨s', h1, h2, h3, _⟩ := remove_spec s i j hij hj hwf
  ⟨s', h1, h2, h3⟩

/-- Outside the valid ranges the Go code panics; the model says so instead of defaulting. -/
theorem C12_remove_guard (s : Slice α) (i j : Nat) (h : ¬ (i ≤ j ∧ j ≤ s.len ∧ s.len ≤ s.arr.length)) :
    remove s i j = none := by simp [remove, h]

/-- Cut returns exactly `s[i:j]` and leaves what Remove leaves. -/
theorem C12_cut (s : Slice α) (i j : Nat) (hij : i ≤ j) (hj : j ≤ s.len) (hwf : s.wf) :
    ∃ s', cut s i j = some ((s.visible.drop i).take (j - i), s') ∧
      s'.visible = s.visible.take i ++ s.visible.drop j ∧
      s'.arr = (s.visible.take i ++ s.visible.drop j) ++ List.replicate (j - i) default
                 ++ s.arr.drop s.len := by
  obtain ⟨s', h1, h2, h3, _⟩ := remove_spec s i j hij hj hwf
  exact ⟨s', by simp [cut, h1], h2, h3⟩

theorem C12_insert (s : List α) (i : Nat) (v : List α) (h : i ≤ s.length) :
    insert s i v = some (s.take i ++ v ++ s.drop i) := insert_spec s i v h

/-- FilterInPlace keeps exactly the elements satisfying the predicate, in order, zeroes the
    vacated tail and leaves the array beyond `len` alone — for every predicate. -/
theorem C12_filterInPlace (s : Slice α) (keep : α → Bool) (hwf : s.wf) :
    (filterInPlace s keep).visible = s.visible.filter keep ∧
    (filterInPlace s keep).arr = s.visible.filter keep
        ++ List.replicate (s.visible.length - (s.visible.filter keep).length) default
        ++ s.arr.drop s.len :=
  let ⟨h1, h2, _⟩ := filterInPlace_spec s keep hwf
  ⟨h1, h2⟩

theorem C12_push (s v : List α) : push s v = v ++ s := rfl

theorem C12_pop_nonempty (s : Slice α) (h : 0 < s.len) (hwf : s.wf) :
    ∃ s', pop s = (s.visible.headD default, some s') ∧ s'.visible = s.visible.tail ∧
      s'.arr = s.visible.tail ++ [default] ++ s.arr.drop s.len := pop_spec_nonempty s h hwf

theorem C12_pop_empty (s : Slice α) (h : s.len = 0) : pop s = (default, some s) := pop_spec_empty s h

/-! set functions: duplicate-free and set-equal to the mathematical operation -/

theorem C12_distinct (s : List α) : (distinct s).Nodup ∧ ∀ x, x ∈ distinct s ↔ x ∈ s :=
  ⟨distinct_nodup s, mem_distinct s⟩

theorem C12_union (ss : List (List α)) : (union ss).Nodup ∧ ∀ x, x ∈ union ss ↔ ∃ s ∈ ss, x ∈ s :=
  ⟨union_nodup ss, mem_union ss⟩

/-- For zero arguments the code returns the empty slice; stated explicitly (`ss ≠ []`). -/
theorem C12_intersection (ss : List (List α)) :
    (intersection ss).Nodup ∧ ∀ x, x ∈ intersection ss ↔ ss ≠ [] ∧ ∀ s ∈ ss, x ∈ s :=
  ⟨intersection_nodup ss, mem_intersection ss⟩

theorem C12_difference (s1 s2 : List α) :
    (difference s1 s2).Nodup ∧ ∀ x, x ∈ difference s1 s2 ↔ x ∈ s1 ∧ x ∉ s2 :=
  ⟨difference_nodup s1 s2, mem_difference s1 s2⟩

/-- Disjoin = elements occurring in exactly one argument (`occ` counts the argument slices containing `x`). -/
theorem C12_disjoin (ss : List (List α)) :
    (disjoin ss).Nodup ∧ ∀ x, x ∈ disjoin ss ↔ occ ss x = 1 := disjoin_inv ss

/-! The set functions are pure in the model by construction (they take and return values);
    "never modify their inputs" is tied by the harness comparing the argument backing arrays. -/

/-! ### non-vacuity -/
example : ({ arr := [1, 2, 3, 4, 9], len := 4 } : Slice Nat).wf ∧ 1 ≤ 3 ∧ 3 ≤ 4 := by
  simp [Slice.wf]
example : remove ({ arr := [1, 2, 3, 4, 9], len := 4 } : Slice Nat) 1 3
    = some { arr := [1, 4, 0, 0, 9], len := 2 } := by decide
example : (filterInPlace ({ arr := [1, 2, 3, 4, 9], len := 4 } : Slice Nat) (· % 2 == 0))
    = { arr := [2, 4, 0, 0, 9], len := 2 } := by decide
example : intersection [[1, 1, 2], [2, 1, 1, 3], [1, 2]] = [1, 2] := by decide
example : disjoin [[1, 1, 2], [2, 3], [4, 3, 5]] = [1, 4, 5] := by decide

/-! ### the monitors the driver applies to the *implementation's* outputs decide exactly these conclusions

An output passes the monitor iff it is duplicate-free and set-equal to the mathematical operation — so a
`MONFAIL` on the implementation is a counterexample to the property, and no output that satisfies the
property is ever rejected. -/

theorem C12_monitor_distinct (s out : List α) :
    monDistinct s out = true ↔ out.Nodup ∧ ∀ x, x ∈ out ↔ x ∈ s := monDistinct_iff s out
theorem C12_monitor_union (ss : List (List α)) (out : List α) :
    monUnion ss out = true ↔ out.Nodup ∧ ∀ x, x ∈ out ↔ ∃ s ∈ ss, x ∈ s := monUnion_iff ss out
theorem C12_monitor_intersection (ss : List (List α)) (out : List α) :
    monIntersection ss out = true ↔ out.Nodup ∧ ∀ x, x ∈ out ↔ ss ≠ [] ∧ ∀ s ∈ ss, x ∈ s := monIntersection_iff ss out
theorem C12_monitor_difference (s1 s2 out : List α) :
    monDifference s1 s2 out = true ↔ out.Nodup ∧ ∀ x, x ∈ out ↔ x ∈ s1 ∧ x ∉ s2 := monDifference_iff s1 s2 out
theorem C12_monitor_disjoin (ss : List (List α)) (out : List α) :
    monDisjoin ss out = true ↔ out.Nodup ∧ ∀ x, x ∈ out ↔ occ ss x = 1 := monDisjoin_iff ss out

/-- hence the model passes every monitor, for all inputs. -/
theorem C12_model_passes_monitors (s s2 : List α) (ss : List (List α)) :
    monDistinct s (distinct s) = true ∧ monUnion ss (union ss) = true ∧
    monIntersection ss (intersection ss) = true ∧ monDifference s s2 (difference s s2) = true ∧
    monDisjoin ss (disjoin ss) = true :=
  ⟨(monDistinct_iff _ _).2 (C12_distinct s), (monUnion_iff _ _).2 (C12_union ss),
   (monIntersection_iff _ _).2 (C12_intersection ss), (monDifference_iff _ _ _).2 (C12_difference s s2),
   (monDisjoin_iff _ _).2 (C12_disjoin ss)⟩

example : monIntersection [[1, 1, 2], [2, 1, 1, 3]] (intersection [[1, 1, 2], [2, 1, 1, 3]]) = true := by decide

/-! ### witnesses: the pinned tree's variants violate the property -/
theorem pinned_C12_intersection_dup : intersectionPinned [[1, 1], [2, 3]] = [1] := by decide
theorem pinned_C12_intersection_miss : intersectionPinned [[1, 1, 1], [1]] = [] := by decide
theorem pinned_C12_difference_dup : differencePinned [1, 1] ([] : List Nat) = [1, 1] := by decide
theorem pinned_C12_disjoin_dup : disjoinPinned [[1, 1]] = [1, 1] := by decide

end TV.C12
