import TV.Proofs.WorkQueueSafety
import TV.Proofs.WorkQueueLive
import TV.Proofs.MonitorWQ
/-!
# C04 — WorkQueue runs every accepted work item exactly once

Statements are over the labelled transition system of TV/Model/WorkQueue.lean: every worker count
`W ≥ 1`, queue length `L ≥ 1`, any number of producers, items and subscribers, any priorities,
every interleaving (`Reach`); Stop/Break/Dequeue/SetPriority injected at every position.
-/
namespace TV.C04
open TV.WorkQueue TV.GoHeap

/-- never run twice. -/
theorem C04_at_most_once :
    ∀ (W L : Nat) (_ : 1 ≤ W) (_ : 1 ≤ L) (s : St) (_ : Reach W L s), s.started.Nodup := Safety.C04_at_most_once

/-- each Enqueue gets a distinct id (the ordinal stands for the uuid; freshness of uuid.New is trusted). -/
theorem C04_ids_distinct :
    ∀ (W L : Nat) (_ : 1 ≤ W) (_ : 1 ≤ L) (s : St) (_ : Reach W L s), ((stored s).map (·.id)).Nodup ∧ ∀ it ∈ stored s, it.id < s.nextId := Safety.C04_ids_distinct

/-- never dropped (safety half): an accepted item that has not started is still on its way — held by the dispatcher, in the priority queue, handed to the worker pool — unless it was dequeued or skipped by Break. -/
theorem C04_never_dropped :
    ∀ (W L : Nat) (_ : 1 ≤ W) (_ : 1 ≤ L) (s : St) (_ : Reach W L s) (id : Nat), id ∈ s.accepted →
    id ∈ s.started ∨ id ∈ s.dequeued ∨ id ∈ (waiting s).map (·.id) ∨ (s.breaked = true ∧ id ∈ s.limbo.map (·.id)) := Safety.C04_never_dropped

/-- only accepted work runs; what finished had started; what executes has started. -/
theorem C04_started_were_accepted :
    ∀ (W L : Nat) (_ : 1 ≤ W) (_ : 1 ≤ L) (s : St) (_ : Reach W L s), (∀ id ∈ s.started, id ∈ s.accepted) ∧ (∀ id ∈ s.finished, id ∈ s.started) ∧
    (∀ it ∈ s.running ++ s.errSend, it.id ∈ s.started) := Safety.C04_started_were_accepted

/-- WorkItems(): an accepted, unfinished, not dequeued item is listed (with the name and priority it has now), and an item is reported in progress exactly when its work function is executing or its error is being reported. -/
theorem C04_workitems_exact :
    ∀ (W L : Nat) (_ : 1 ≤ W) (_ : 1 ≤ L) (s : St) (_ : Reach W L s) (id : Nat), id ∈ s.accepted → id ∉ s.finished → id ∉ s.dequeued →
    (∃ it ∈ stored s, it.id = id) ∧ (inProgress s id = true ↔ id ∈ (s.running ++ s.errSend).map (·.id)) := Safety.C04_workitems_exact

/-- never dropped (liveness half, 1): no deadlock — while a running queue has accepted work that has not started, an error to report, or a producer waiting, an internal step is enabled, or a work function is executing (it terminates by assumption), or the monitor is waiting for a subscriber to receive. -/
theorem C04_no_deadlock :
    ∀ (W L : Nat) (_ : 1 ≤ W) (_ : 1 ≤ L) (s : St) (_ : Reach W L s), s.ctxDone = false → (waiting s ≠ [] ∨ s.errSend ≠ [] ∨ s.blocked ≠ []) →
    internalActs s ≠ [] ∨ s.running ≠ [] ∨ (∃ e r, s.mon = .fanout e r) := Live.C04_no_deadlock

/-- never dropped (liveness half, 2): every internal step strictly decreases the potential `phi`, so internal steps cannot go on for ever without a `finish` / `subRecv` / new `enqueue`; together with C04_no_deadlock every fair maximal run with terminating work functions and receiving subscribers starts every accepted item. -/
theorem C04_internal_steps_terminate :
    ∀ (s s' : St) (a : Act), isInternal a = true → step? s a = some s' → phi s' < phi s := Live.C04_internal_steps_terminate

/-! non-vacuity: a run with a full queue and a blocked producer -/
example : ∃ s, runActs (init 1 1) [.enqueue 1 0 false, .recv 0, .take, .enqueue 1 1 false, .recv 1,
    .enqueue 1 2 false, .recv 2, .enqueue 1 3 false, .recv 3, .enqueue 1 4 false] = some s ∧
    s.disp = .fullWait ⟨3, 1, false, 3⟩ ∧ s.blocked.length = 1 ∧ s.started = [0] := by
  refine ⟨_, rfl, ?_⟩; decide

/-! ### the model passes the monitor the driver applies to the implementation (no false alarm on a conforming implementation) -/
theorem C04_model_passes_monitor (W L : Nat) (s : St) (h : Reach W L s) :
    Mon.atMostOnce (Driver.WQ.obsOf s) = true := MonSound.atMostOnce_sound h

end TV.C04
