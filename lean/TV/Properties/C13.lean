import TV.Proofs.FifoCacheGhost
/-!
# C13 — Resize and Clear keep the newest data and the right capacity
`order` ranges over *all* valid replay orders (one permutation per old partition, oldest first).
-/
namespace TV.C13
open TV.FifoCache
set_option linter.unusedSectionVars false
variable {K V : Type} [DecidableEq K] [Inhabited V]

/-- Resize(n) makes Capacity() what the calculator returned (= what a new cache reports). -/
theorem C13_resize_capacity (c : Cache K V) (n' pc' : Nat) (o : List (List K)) :
    capacity (resize c n' pc' o) = n' * pc' ∧ capacity (init n' pc' : Cache K V) = n' * pc' := by
  simp only [capacity, n_resize]; exact ⟨trivial, rfl⟩

/-- every survivor keeps its value, no entry appears from nowhere. -/
theorem C13_survivors_keep_values (c : Cache K V) (h : WF c) (n' pc' : Nat) (hn : 1 ≤ n') (hpc : 1 ≤ pc')
    (o : List (List K)) (ho : validOrder c o) (k : K) :
    contains (resize c n' pc' o) k = true → contains c k = true ∧ get (resize c n' pc' o) k = get c k :=
  resize_survivors h n' pc' hn hpc o ho k

/-- all entries survive when they fit. -/
theorem C13_all_survive_if_fit (c : Cache K V) (h : WF c) (n' pc' : Nat) (hn : 1 ≤ n') (hpc : 1 ≤ pc')
    (o : List (List K)) (ho : validOrder c o) (hfit : len c ≤ n' * pc') (k : K) :
    contains c k = true → contains (resize c n' pc' o) k = true :=
  resize_all_survive h n' pc' hn hpc o ho hfit k

/-- otherwise the survivors are the most recently inserted ones: a suffix of the replay order
    (oldest partition first), and `Len() ≤ Capacity()`. -/
theorem C13_survivors_are_newest (c : Cache K V) (h : WF c) (n' pc' : Nat) (hn : 1 ≤ n') (hpc : 1 ≤ pc')
    (o : List (List K)) (ho : validOrder c o) (hch : n' ≠ c.n ∨ pc' ≠ c.pc) :
    (∃ d, keys (resize c n' pc' o) = o.flatten.drop d) ∧
    len (resize c n' pc' o) ≤ capacity (resize c n' pc' o) :=
  ⟨resize_keys_suffix h n' pc' hn hpc o ho hch, resize_len_le h n' pc' hn hpc o hch⟩

/-- Resize preserves the invariant, so all of C01–C03 continue to hold afterwards; in
    particular (C03_fifo over histories with Resize) entries inserted after a Resize are newer
    than all replayed ones for later eviction. -/
theorem C13_resize_wf (c : Cache K V) (h : WF c) (n' pc' : Nat) (hn : 1 ≤ n') (hpc : 1 ≤ pc')
    (o : List (List K)) (ho : validOrder c o) : WF (resize c n' pc' o) :=
  have _ := ho
  wf_resize h n' pc' hn hpc o

/-- after a Resize every replayed key carries a stamp older than the clock, i.e. older than
    anything inserted later. -/
theorem C13_post_resize_inserts_are_newer (g : GCache K V) (n' pc' : Nat) (o : List (List K)) (k : K) (t p : Nat) :
    alGet? (gresize g n' pc' o).stamps k = some (t, p) → (∀ k' t' p', alGet? g.stamps k' = some (t', p') → t' < g.clock) →
    t < (gresize g n' pc' o).clock :=
  fun hs hg => clockInv_gresize hg n' pc' o k t p hs

/-- Clear leaves an empty cache of unchanged capacity ... -/
theorem C13_clear_empty (c : Cache K V) : keys (clear c) = [] ∧ capacity (clear c) = capacity c :=
  ⟨rfl, rfl⟩

/-- ... that behaves like a new one: the same outputs for every subsequent history. -/
theorem C13_clear_like_new (c : Cache K V) (hpc : 1 ≤ c.pc) (ops : List (Op K V)) :
    outs (clear c) ops = outs (init c.n c.pc : Cache K V) ops :=
  clear_like_new c hpc ops

/-! non-vacuity: shrink 3x3 -> 2x2 keeps the newest four, grow keeps all -/
/- NOTE (repair): the original witness claimed `= [5,6,7,8]` here, which `decide` refutes: eviction is
   by whole partitions, the replay ends with partitions `[6,7]`, `[8]` (a suffix of the replay order,
   as `C13_survivors_are_newest` says, but only three keys).  With eight keys the newest four do
   survive (second example); growing keeps everything (third example). -/
example : keys (resize (run (init 3 3 : Cache Nat Nat) ((List.range 9).map (fun i => .set i i))) 2 2
    [[0,1,2],[3,4,5],[6,7,8]]) = [6,7,8] := by decide
example : keys (resize (run (init 3 3 : Cache Nat Nat) ((List.range 8).map (fun i => .set i i))) 2 2
    [[0,1,2],[3,4,5],[6,7]]) = [4,5,6,7] := by decide
example : keys (resize (run (init 3 3 : Cache Nat Nat) ((List.range 9).map (fun i => .set i i))) 4 3
    [[0,1,2],[3,4,5],[6,7,8]]) = [0,1,2,3,4,5,6,7,8] := by decide

end TV.C13
