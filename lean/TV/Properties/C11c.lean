import TV.Proofs.LockedObject
/-!
# C11c — GenericStack under concurrency (the concurrent clause of C11)

The concurrent systems are the labelled transition systems of TV/Model/LockedObject.lean: any number of
threads, any programs, every interleaving of the objects' critical sections (`CReach`).  Which code runs in
which section is tied to the source by the regenerated shape facts (TV/Generated/Shape.lean, TV/ShapeOK.lean).
-/
namespace TV.C11c
open TV.LockedObject TV.FifoCache TV.GenericStack

/-- under concurrent Push/Pop/Peek/Len/Values no value is lost, duplicated or invented: in every reachable state the values on the stack together with the values popped so far are exactly the values pushed so far (as multisets), and the ids handed out are pairwise distinct. -/
theorem C11_concurrent_conservation  :
    ∀ (c : CSt (Stack Nat) StackConc.Op StackConc.Ret Nat), CReach StackConc.impl (GenericStack.new : Stack Nat) c →
    ((c.shared.entries.map (·.2)) ++ StackConc.poppedVals c.lin).Perm (StackConc.pushedVals c.lin) ∧
    (StackConc.pushedIds c.lin).Nodup ∧ (c.shared.entries.map (·.1)).Nodup := Proofs.C11_concurrent_conservation

/-- the heap order on ids survives every interleaving: in every reachable state of the concurrent stack the entries form a heap for the id order, and whatever a Pop removes carries the smallest id present — so Pops that run after concurrent Pushes have completed return the values in the order of the ids Push returned. -/
theorem C11_concurrent_heap_order  :
    ∀ (c : CSt (Stack Nat) StackConc.Op StackConc.Ret Nat), CReach StackConc.impl (GenericStack.new : Stack Nat) c →
    TV.GoHeap.IsHeap lessId c.shared.entries ∧
    ∀ e rest, TV.GoHeap.pop lessId c.shared.entries = some (e, rest) → ∀ x ∈ c.shared.entries, e.1 ≤ x.1 := Proofs.C11_concurrent_heap_order

/-! witness: the pinned Pop (emptiness test outside the lock) lets two Pops on a one-element stack both pass the test; the second
    one indexes an empty slice. -/
theorem pinned_C11_two_pops_panic :
    let s0 : Stack Nat × Bool := (({ entries := [(1, 7)], next := 1 } : Stack Nat), false)
    let a := StackConc.implPinned.sect s0 .pop 0 0          -- T1: test passes
    let b := StackConc.implPinned.sect a.1 .pop 0 0         -- T2: test passes
    let c := StackConc.implPinned.sect b.1 .pop 1 0         -- T1 pops
    let d := StackConc.implPinned.sect c.1 .pop 1 0         -- T2 pops an empty heap
    d.1.2 = true := by decide

end TV.C11c
