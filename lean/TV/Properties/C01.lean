import TV.Proofs.FifoCache
import TV.Proofs.MonitorFifoCache
/-!
# C01 — FifoMapCache is a map that may forget: fresh values, consistent views
All theorems: every `n ≥ 1`, `pc ≥ 1`, every key/value type, every legal history.
-/
namespace TV.C01
open TV.FifoCache
variable {K V : Type} [DecidableEq K] [Inhabited V]

/-- the structural invariant holds in every reachable state. -/
theorem C01_wf (n pc : Nat) (hn : 1 ≤ n) (hpc : 1 ≤ pc) (ops : List (Op K V))
    (hok : OpsOK (init n pc) ops) : WF (run (init n pc : Cache K V) ops) :=
  wf_run (wf_init n pc hn hpc) ops hok

/-- Immediately after `Set(k, v)`, `Get(k)` returns `v` (and `k` is present). -/
theorem C01_get_after_set (c : Cache K V) (h : WF c) (k : K) (v : V) :
    get (set c k v) k = v ∧ contains (set c k v) k = true :=
  ⟨(wf_set h k v).get_of_holds (holds_set_self h k v),
   ((wf_set h k v).contains_iff_holds k).2 ⟨v, holds_set_self h k v⟩⟩

/-- ... also across the sweep that follows, from a swept state. -/
theorem C01_get_after_set_sweep (c : Cache K V) (h : WF c) (hs : c.parts.length ≤ c.n) (k : K) (v : V) :
    get (sweep (set c k v)) k = v ∧ contains (sweep (set c k v)) k = true :=
  have hw := wf_sweep (wf_set h k v)
  ⟨hw.get_of_holds (holds_sweep_set h hs k v), (hw.contains_iff_holds k).2 ⟨v, holds_sweep_set h hs k v⟩⟩

/-- `Set(k, _)` does not disturb any other key. -/
theorem C01_set_other (c : Cache K V) (h : WF c) (k k' : K) (v : V) (hne : k' ≠ k) :
    contains (set c k v) k' = contains c k' ∧ get (set c k v) k' = get c k' :=
  WF.same_of_holds h (wf_set h k v) k' (fun x => holds_set_ne h k k' v x hne)

/-- `Delete(k)` removes `k` and nothing else. -/
theorem C01_delete (c : Cache K V) (h : WF c) (k : K) :
    contains (delete c k) k = false ∧
    ∀ k', k' ≠ k → contains (delete c k) k' = contains c k' ∧ get (delete c k) k' = get c k' :=
  ⟨contains_delete_self h k, fun k' hne =>
    WF.same_of_holds h (wf_delete h k) k' (fun x => holds_delete_ne c k k' x hne)⟩

/-- Sweep, Clear and Resize only forget: what is present afterwards was present before with the
    same value. -/
theorem C01_forget_only (c : Cache K V) (h : WF c) (o : Op K V) (hok : opOK c o)
    (ho : o = .sweep ∨ o = .clear ∨ ∃ n' pc' ord, o = .resize n' pc' ord) (k : K) :
    contains (step c o).1 k = true → contains c k = true ∧ get (step c o).1 k = get c k :=
  forget_only h o hok ho k

/-- A key that is not present reads as the zero value. -/
theorem C01_get_absent (c : Cache K V) (k : K) (h : contains c k = false) : get c k = default :=
  get_absent c k h

/-- Get returns the value of the most recent Set or the zero value — never an earlier value,
    never another key's value; a key never set, deleted or cleared is absent until set again:
    whatever is present is the *last write* to that key and that write was a `Set`. -/
theorem C01_present_is_latest (n pc : Nat) (hn : 1 ≤ n) (hpc : 1 ≤ pc) (ops : List (Op K V))
    (hok : OpsOK (init n pc) ops) (k : K) :
    contains (run (init n pc : Cache K V) ops) k = true →
      lastWrite ops k = some (some (get (run (init n pc : Cache K V) ops) k)) :=
  present_latest_gen k ops (init n pc) none (wf_init n pc hn hpc) hok
    (fun hc => by simp [contains, livePart, init, alGet?] at hc)

/-- Contains / Keys / Values / Len describe one and the same set of entries. -/
theorem C01_views_agree (c : Cache K V) (h : WF c) :
    (keys c).Nodup ∧ (∀ k, contains c k = true ↔ k ∈ keys c) ∧
    values c = (keys c).map (get c) ∧ len c = (keys c).length :=
  ⟨h.nodup_keys, h.contains_iff_mem_keys, h.values_eq, rfl⟩

/-! non-vacuity: a history with update, delete, eviction and re-set -/
example : OpsOK (init 2 2 : Cache Nat Nat)
    [.set 1 10, .set 2 20, .set 1 11, .delete 2, .set 3 30, .set 4 40, .set 5 50, .sweep, .set 2 21] := by
  simp [OpsOK, opOK]
/- NOTE (repair): the original witness claimed `= [4, 5, 2]` for this history, which `decide` refutes:
   the last `set 2 21` opens a third partition and no sweep follows it, so the oldest partition
   `[1, 3]` is still there.  `[4, 5, 2]` is the content after the next sweep (second example). -/
example : keys (run (init 2 2 : Cache Nat Nat)
    [.set 1 10, .set 2 20, .set 1 11, .delete 2, .set 3 30, .set 4 40, .set 5 50, .sweep, .set 2 21]) = [1, 3, 4, 5, 2] := by
  decide
example : keys (run (init 2 2 : Cache Nat Nat)
    [.set 1 10, .set 2 20, .set 1 11, .delete 2, .set 3 30, .set 4 40, .set 5 50, .sweep, .set 2 21, .sweep]) = [4, 5, 2] := by
  decide

/-! ### the view monitor the driver applies to the *implementation's* observations decides exactly C01's view consistency

(`has`/`get` are the implementation's answers to Contains/Get over the case's key alphabet `0 .. ph.length-1`.) -/
theorem C01_monitor_views (v : Mon.View) :
    Mon.viewsAgree v = true ↔
      v.keys.Nodup ∧ (∀ a, a < v.ph.length → (v.has a = true ↔ a ∈ v.keys)) ∧ (∀ k ∈ v.keys, k < v.ph.length) ∧
      v.vals.Perm (v.keys.map v.get) ∧ v.len = v.keys.length := Mon.viewsAgree_iff v

end TV.C01
