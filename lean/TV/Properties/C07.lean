import TV.Proofs.LockedObject
import TV.Model.LinCheck
import TV.Proofs.LinCheck
/-!
# C07 — SafeMap and SyncMap are linearizable, type-faithful maps

The concurrent systems are the labelled transition systems of TV/Model/LockedObject.lean: any number of
threads, any programs, every interleaving of the objects' critical sections (`CReach`).  Which code runs in
which section is tied to the source by the regenerated shape facts (TV/Generated/Shape.lean, TV/ShapeOK.lean).
-/
namespace TV.C07
open TV.LockedObject TV.FifoCache TV.GenericStack

/-- the generic theorem: if every section that falls through is silent and every completing section is the specification (`Sound`), then every history of the concurrent system — any number of threads, any programs, every interleaving of sections — is linearizable, with the completing section as linearization point; and the shared state is the specification's state after the ledger. -/
theorem C07_linearizable_of_sound {σ Op Ret Loc : Type} [DecidableEq Ret] :
    ∀ (I : Impl σ Op Ret Loc) (apply : σ → Op → σ × Ret) (s0 : σ), Sound I apply → ∀ c, CReach I s0 c →
    Linearizable apply s0 c.hist ∧ seqFinal apply s0 (c.lin.map (fun e => (e.op, e.r))) = c.shared ∧
    seqOK apply s0 (c.lin.map (fun e => (e.op, e.r))) = true := Proofs.C07_linearizable_of_sound

/-- real-time order is respected: an operation that returned before another one was called precedes it in the linearization ledger. -/
theorem C07_real_time_order {σ Op Ret Loc : Type} [DecidableEq Ret] :
    ∀ (I : Impl σ Op Ret Loc) (s0 : σ) (c : CSt σ Op Ret Loc), CReach I s0 c →
    ∀ q ∈ c.retOf, ∀ j e, c.lin[j]? = some e → q.1 < e.cpos → q.2 < j := Proofs.C07_real_time_order

/-- an object whose every method is one critical section that computes the specification is `Sound`. -/
theorem C07_single_section_sound {σ Op Ret : Type} :
    ∀ (apply : σ → Op → σ × Ret), Sound (single apply : Impl σ Op Ret Unit) apply := Proofs.C07_single_section_sound

/-- SafeMap's section table (one section per method; GetOrAdd = read-locked lookup that completes on a hit, then write-locked re-check-and-insert) is `Sound` for the ordinary-map specification. -/
theorem C07_safemap_sound {K V : Type} [DecidableEq K] [DecidableEq V] [Inhabited V] :
    Sound (SafeMap.impl : Impl (AL K V) (SafeMap.Op K V) (SafeMap.Ret K V) Unit) SafeMap.apply := Proofs.C07_safemap_sound

/-- hence SafeMap is linearizable: under any concurrent mix of its operations each one takes effect atomically at one instant between its call and its return on an ordinary map. -/
theorem C07_safemap_linearizable {K V : Type} [DecidableEq K] [DecidableEq V] [Inhabited V] :
    ∀ (c : CSt (AL K V) (SafeMap.Op K V) (SafeMap.Ret K V) Unit), CReach SafeMap.impl ([] : AL K V) c →
    Linearizable SafeMap.apply ([] : AL K V) c.hist := Proofs.C07_safemap_linearizable

/-- GetOrAdd / LoadOrStore choose exactly one winner per key and every caller sees it: on the specification a present key returns the stored value and changes nothing, an absent key stores the given value and returns it (so by linearizability all calls between two deletions of the key return the same, stored, value). -/
theorem C07_getOrAdd_one_winner {K V : Type} [DecidableEq K] [DecidableEq V] [Inhabited V] :
    ∀ (m : AL K V) (k : K) (v : V),
    (∀ x, alGet? m k = some x → SafeMap.apply m (.getOrAdd k v) = (m, .val x) ∧ SafeMap.apply m (.loadOrStore k v) = (m, .valOk x true)) ∧
    (alGet? m k = none → SafeMap.apply m (.getOrAdd k v) = (alSet m k v, .val v) ∧ SafeMap.apply m (.loadOrStore k v) = (alSet m k v, .valOk v false) ∧
        alGet? (alSet m k v) k = some v) := Proofs.C07_getOrAdd_one_winner

/-- a miss yields the zero value (and ok = false where reported), for every value type. -/
theorem C07_miss_is_zero {K V : Type} [DecidableEq K] [DecidableEq V] [Inhabited V] :
    ∀ (m : AL K V) (k : K), alGet? m k = none →
    SafeMap.apply m (.get k) = (m, .val default) ∧ SafeMap.apply m (.load k) = (m, .valOk default false) ∧
    (SafeMap.apply m (.loadAndDelete k)).2 = .valOk default false ∧ (∀ v, (SafeMap.apply m (.swap k v)).2 = .valOk default false) ∧
    SafeMap.apply m (.contains k) = (m, .bool false) := Proofs.C07_miss_is_zero

/-- Swap, LoadAndDelete, CompareAndSwap and CompareAndDelete act atomically on the specification: the returned previous value / success flag and the new content are computed from one and the same state. -/
theorem C07_atomic_read_modify_write {K V : Type} [DecidableEq K] [DecidableEq V] [Inhabited V] :
    ∀ (m : AL K V) (k : K) (old new : V),
    (SafeMap.apply m (.compareAndSwap k old new) = if alGet? m k = some old then (alSet m k new, .bool true) else (m, .bool false)) ∧
    (SafeMap.apply m (.compareAndDelete k old) = if alGet? m k = some old then (alErase m k, .bool true) else (m, .bool false)) ∧
    (SafeMap.apply m (.swap k new)).1 = alSet m k new ∧ (SafeMap.apply m (.loadAndDelete k)).1 = alErase m k := Proofs.C07_atomic_read_modify_write

/-- SyncMap is type-faithful: converting what sync.Map hands back gives exactly the value that was stored, for every value including the nil interface value. -/
theorem C07_syncmap_type_faithful {W : Type} :
    ∀ (x : SafeMap.IVal W), SafeMap.unbox (SafeMap.box x) = some x := Proofs.C07_syncmap_type_faithful

/-! ### witnesses for the pinned tree -/

/-- pinned: `v.(V)` panics on a stored nil interface value. -/
theorem pinned_C07_nil_interface_panics : SafeMap.unboxPinned (SafeMap.box (SafeMap.IVal.nil : SafeMap.IVal Nat)) = none := rfl

/-- pinned `GetOrAdd` (Has; Get; ...) is not `Sound`: its second section answers with whatever is there later. -/
theorem pinned_C07_getOrAdd_not_sound :
    ¬ Sound (SafeMap.implPinned : Impl (AL Nat Nat) (SafeMap.Op Nat Nat) (SafeMap.Ret Nat Nat) Unit) SafeMap.apply := by
  intro h
  have := h.complete ([] : AL Nat Nat) (.getOrAdd 1 5) 1 () [] (.val 0) rfl
  revert this; decide

/-- the schedule of the property text: {k ↦ 7}; T1 GetOrAdd(k,5) sees the key, T2 Delete(k) runs, T1's Get returns 0.
    The recorded history is rejected by the linearizability decision procedure (a test of the procedure on the witness). -/
theorem pinned_C07_history_rejected :
    TV.LinCheck.linCheck (SafeMap.apply (K := Nat) (V := Nat)) [(1, 7)]
      [⟨1, .getOrAdd 1 5, .val 0, 1, 4⟩, ⟨2, .delete 1, .unit, 2, 3⟩] = false := by decide

example : TV.LinCheck.linCheck (SafeMap.apply (K := Nat) (V := Nat)) [(1, 7)]
      [⟨1, .getOrAdd 1 5, .val 5, 1, 4⟩, ⟨2, .delete 1, .unit, 2, 3⟩] = true := by decide

/-! ### the decision procedure the driver runs on recorded histories is sound and complete

`linCheck` answers `true` exactly when a linearization exists: a permutation of the recorded operations that is legal for
the sequential specification and respects real time.  (Completeness needs well-stamped records, `c ≤ e`, which the
recorder's single atomic counter guarantees; without it `linCheck_complete_needs_wellStamped` is a counterexample.) -/
theorem C07_lincheck_sound {σ Op Ret : Type} [DecidableEq Ret] (apply : σ → Op → σ × Ret) (s0 : σ) (h : List (TV.LinCheck.Rec Op Ret)) :
    TV.LinCheck.linCheck apply s0 h = true → ∃ l, TV.LinCheck.IsLinearization apply s0 h l :=
  TV.LinCheck.linCheck_sound apply s0 h

theorem C07_lincheck_iff {σ Op Ret : Type} [DecidableEq Ret] (apply : σ → Op → σ × Ret) (s0 : σ) (h : List (TV.LinCheck.Rec Op Ret))
    (hws : ∀ o ∈ h, ¬ (o.e < o.c)) :
    TV.LinCheck.linCheck apply s0 h = true ↔ ∃ l, TV.LinCheck.IsLinearization apply s0 h l :=
  TV.LinCheck.linCheck_iff apply s0 h hws

end TV.C07
