import TV.Proofs.WorkQueueSafety
import TV.Proofs.MonitorWQ
/-!
# C09 — WorkQueue honours its worker count and its queue length

Statements are over the labelled transition system of TV/Model/WorkQueue.lean: every worker count
`W ≥ 1`, queue length `L ≥ 1`, any number of producers, items and subscribers, any priorities,
every interleaving (`Reach`); Stop/Break/Dequeue/SetPriority injected at every position.
-/
namespace TV.C09
open TV.WorkQueue TV.GoHeap

/-- at no instant (= in no reachable state, between any two atomic steps) are more than `W` work functions executing; the channels never exceed their capacities. -/
theorem C09_running_le_workers :
    ∀ (W L : Nat) (_ : 1 ≤ W) (_ : 1 ≤ L) (s : St) (_ : Reach W L s), s.W = W ∧ s.running.length + s.errSend.length + s.tokPend + s.exitedW ≤ W ∧ s.chan.length ≤ W ∧ s.tokens ≤ W := Safety.C09_running_le_workers

/-- the pipeline invariant: whenever something waits in the queue (or the dispatcher holds an item), workers + their channel + the token semaphore account for at least `W` items — the next token is on its way. -/
theorem C09_pipeline_full :
    ∀ (W L : Nat) (_ : 1 ≤ W) (_ : 1 ≤ L) (s : St) (_ : Reach W L s), s.ctxDone = false →
    (s.heap ≠ [] ∨ (∃ it, s.disp = .fullWait it) ∨ (∃ m it, s.disp = .handOff m (some it))) →
    W ≤ s.chan.length + s.running.length + s.errSend.length + s.tokPend + s.tokens +
        (match s.disp with | .handOff _ _ => 1 | _ => 0) := Safety.C09_pipeline_full

/-- work conserving: at a quiescent point of a running queue, with k accepted items not yet finished executing, min k (W − workers busy reporting an error) of them are executing. -/
theorem C09_work_conserving :
    ∀ (W L : Nat) (_ : 1 ≤ W) (_ : 1 ≤ L) (s : St) (_ : Reach W L s), s.ctxDone = false → quiescent s →
    s.running.length = min ((waiting s).length + s.running.length) (W - s.errSend.length) := Safety.C09_work_conserving

/-- back-pressure, upper bound: never more than Lmax + 2W + 1 accepted items are outstanding (queue ≤ Lmax, channel ≤ W, executing ≤ W, one in the dispatcher's hand). -/
theorem C09_backpressure_upper :
    ∀ (W L : Nat) (_ : 1 ≤ W) (_ : 1 ≤ L) (s : St) (_ : Reach W L s), s.ctxDone = false →
    s.heap.length ≤ s.Lmax ∧ (waiting s).length + s.running.length ≤ s.Lmax + 2 * W + 1 := Safety.C09_backpressure_upper

/-- back-pressure, lower bound: a producer waits at a quiescent point only while the dispatcher is busy with a full queue or a hand-off — never while the queue has room. -/
theorem C09_blocked_only_when_busy :
    ∀ (W L : Nat) (_ : 1 ≤ W) (_ : 1 ≤ L) (s : St) (_ : Reach W L s), s.ctxDone = false → quiescent s → s.blocked ≠ [] →
    (∃ it, s.disp = .fullWait it) ∨ (∃ m held, s.disp = .handOff m held) := Safety.C09_blocked_only_when_busy

/-- the dispatcher enters the full-queue branch only when the queue holds at least L items (the L in force at that arrival: ResizeQueueLength moves the threshold for subsequent arrivals). -/
theorem C09_full_branch_threshold :
    ∀ (s s' : St) (id : Nat) (it : Item), step? s (.recv id) = some s' → s'.disp = .fullWait it → s.ctxDone = false →
    (∀ x, s.disp ≠ .fullWait x) → s.L ≤ s.heap.length := Safety.C09_full_branch_threshold

/-- blocked producers resume as work completes: in the full-queue state a completion token lets the dispatcher proceed. -/
theorem C09_resume :
    ∀ (s : St) (it : Item), s.disp = .fullWait it → 0 < s.tokens → (step? s .tok).isSome = true := Safety.C09_resume


/-! ### the model passes the monitors the driver applies to the implementation

`mstOf s` is the bookkeeping the driver has recorded from the script when the implementation has answered like
the model; `obsOf s` is the model's own observation. -/
theorem C09_model_passes_monitor_workers (W L : Nat) (s : St) (h : Reach W L s) :
    Mon.workersOK (MonSound.mstOf s) (Driver.WQ.obsOf s) = true := MonSound.workersOK_sound h

/-- (false for `L = 0`: the dispatcher then pops an empty queue — witness in TV/Proofs/MonitorWQ.lean.) -/
theorem C09_model_passes_monitor_work_conserving (W L : Nat) (s : St) (h : Reach W L s) (hL : 1 ≤ L) (hq : quiescent s) :
    Mon.workConserving (MonSound.mstOf s) (Driver.WQ.obsOf s) = true := MonSound.workConserving_sound hL h hq

theorem C09_model_passes_monitor_backpressure (W L : Nat) (s : St) (h : Reach W L s) (hs : s.stopped = false) :
    Mon.outstanding (MonSound.mstOf s) (Driver.WQ.obsOf s) ≤ (MonSound.mstOf s).Lmax + 2 * (MonSound.mstOf s).W + 1 :=
  MonSound.backPressureUpper_sound h hs

end TV.C09
