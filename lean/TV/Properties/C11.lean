import TV.Proofs.GenericStack
/-!
# C11 — GenericStack is a FIFO queue with stable ids (sequential layer)

The refinement is a statement about the *array algorithm* (`container/heap` transcribed in
TV/Model/GoHeap.lean), not about an idealised queue.
-/
namespace TV.C11
open TV.GenericStack TV.GoHeap
variable {α : Type} [Inhabited α]
-- the statements are kept exactly as designed, including the (unused) `[Inhabited α]` of the section
set_option linter.unusedSectionVars false

/-- For every sequence of Push/Pop/Peek/Len/Values the stack answers exactly like a FIFO queue
    keyed by id: Push returns 1, 2, 3, …; Pop returns the remaining value with the smallest id
    or the zero value when empty; Peek(id) finds the value pushed under `id` exactly while it is
    still there; Values/Len list what remains in id order. -/
theorem C11_refines_fifo (ops : List (Op α)) :
    outs (new : Stack α) ops = Spec.outs (Spec.new : Spec α) ops :=
  refines_fifo ops

/-- ids are unique and strictly increasing, starting at 1: the k-th Push returns k. -/
theorem C11_push_ids (s : Spec α) (v : α) : (Spec.step s (.push v)).2 = .id (s.next + 1) ∧
    (Spec.step s (.push v)).1.next = s.next + 1 := ⟨rfl, rfl⟩

/-! the `container/heap` facts the refinement rests on (for any strict weak order `less`);
`StrictWeak` (asymmetric and negatively transitive) is `TV.GoHeap.StrictWeak` from
TV/Proofs/GoHeap.lean, with the two fields
`asymm : ∀ a b, less a b = true → less b a = false` and
`ntrans : ∀ a b c, less a b = false → less b c = false → less a c = false`. -/

theorem C11_heap_push (less : α → α → Bool) (h : StrictWeak less) (l : List α) (x : α) (hl : IsHeap less l) :
    IsHeap less (GoHeap.push less l x) ∧ (GoHeap.push less l x).Perm (x :: l) :=
  ⟨push_isHeap h l x hl, push_perm less l x⟩

theorem C11_heap_pop (less : α → α → Bool) (h : StrictWeak less) (l : List α) (hl : IsHeap less l) (hne : l ≠ []) :
    ∃ m rest, GoHeap.pop less l = some (m, rest) ∧ IsHeap less rest ∧ (m :: rest).Perm l ∧
      ∀ x ∈ l, less x m = false :=
  let ⟨rest, hr⟩ := pop_spec h l hl hne
  ⟨_, rest, hr⟩

theorem C11_heap_pop_empty (less : α → α → Bool) : GoHeap.pop less ([] : List α) = none := rfl

theorem C11_heap_remove (less : α → α → Bool) (h : StrictWeak less) (l : List α) (hl : IsHeap less l)
    (i : Nat) (hi : i < l.length) :
    ∃ rest, GoHeap.remove less l i = some (l[i], rest) ∧ IsHeap less rest ∧ (l[i] :: rest).Perm l :=
  remove_spec h l hl i hi

theorem C11_heap_fix (less : α → α → Bool) (h : StrictWeak less) (l : List α) (hl : IsHeap less l)
    (i : Nat) (hi : i < l.length) (x : α) :
    IsHeap less (GoHeap.fix less (l.set i x) i) ∧ (GoHeap.fix less (l.set i x) i).Perm (l.set i x) :=
  fix_spec h l hl i hi x

theorem C11_heap_init (less : α → α → Bool) (h : StrictWeak less) (l : List α) :
    IsHeap less (GoHeap.init less l) ∧ (GoHeap.init less l).Perm l :=
  init_spec h l

/-! non-vacuity -/
example : outs (new : Stack Nat) [.push 7, .push 8, .push 9, .pop, .peek 1, .peek 2, .values, .pop, .pop, .pop, .len]
    = [.id 1, .id 2, .id 3, .val 7, .notFound, .found 8, .vals [8, 9], .val 8, .val 9, .val 0, .nat 0] := by decide

end TV.C11
