import TV.Proofs.WorkQueueHeap
/-!
# C05 — WorkQueue dispatches by priority, first-come-first-served among equals

Statements are over the labelled transition system of TV/Model/WorkQueue.lean: every worker count
`W ≥ 1`, queue length `L ≥ 1`, any number of producers, items and subscribers, any priorities,
every interleaving (`Reach`); Stop/Break/Dequeue/SetPriority injected at every position.
-/
namespace TV.C05
open TV.WorkQueue TV.GoHeap

/-- `Less` is the lexicographic order on (priority, arrival): a strict weak order in which two different items are never equivalent. -/
theorem C05_less_is_lexicographic :
    StrictWeak less ∧ (∀ a b : Item, less a b = false → less b a = false → a.prio = b.prio ∧ a.id = b.id) ∧
    (∀ a b : Item, less a b = true ↔ (a.prio < b.prio ∨ (a.prio = b.prio ∧ a.id < b.id))) := Heap.C05_less_is_lexicographic

/-- the priority queue is a heap in every reachable state (array level). -/
theorem C05_heap_invariant :
    ∀ (W L : Nat) (_ : 1 ≤ W) (_ : 1 ≤ L) (s : St) (_ : Reach W L s), IsHeap less s.heap := Heap.C05_heap_invariant

/-- every waiting item's adjust function is consulted for every decision: after AdjustPriorities each item with an adjust function carries the value the function returns now, every other item keeps its priority, no item is lost or duplicated, and the array is a heap again. -/
theorem C05_adjust_consults_all :
    ∀ (s : St) (h : List Item),
    (adjustAll s h).Perm (h.map (fun it => if it.adj then { it with prio := adjVal s it } else it)) ∧
    (IsHeap less h → IsHeap less (adjustAll s h)) := Heap.C05_adjust_consults_all

/-- whenever a waiting item m is handed to a worker (a token decision, idle or full-queue branch), no item waiting in the queue at that moment — with the priorities the adjust functions returned for this decision — has a smaller priority number, nor the same one and an earlier arrival; and the queue afterwards is exactly the rest. -/
theorem C05_pop_is_min :
    ∀ (W L : Nat) (_ : 1 ≤ W) (_ : 1 ≤ L) (s : St) (_ : Reach W L s) (s' : St) (m : Item) (held : Option Item), step? s .tok = some s' → s'.disp = .handOff m held →
    (∀ m0 h0, s.disp ≠ .handOff m0 h0) →
    (m :: s'.heap).Perm (adjustAll s s.heap) ∧ ∀ x ∈ adjustAll s s.heap, less x m = false := Heap.C05_pop_is_min

/-- items passed straight to a free worker because nothing was waiting are outside the comparison: a direct hand-off happens only when the priority queue is empty. -/
theorem C05_direct_only_when_empty :
    ∀ (s s' : St) (id : Nat), step? s (.recv id) = some s' → s'.chan.length = s.chan.length + 1 → s.ctxDone = false → s.heap = [] := Heap.C05_direct_only_when_empty

/-! witness: the pinned comparator (priority only) is not first-come-first-served: `container/heap`
    over it pops three equal-priority items out of arrival order -/
theorem pinned_C05_not_fifo :
    let a : Item := ⟨0, 5, false, 0⟩; let b : Item := ⟨1, 5, false, 1⟩; let c : Item := ⟨2, 5, false, 2⟩
    let h := GoHeap.push lessPinned (GoHeap.push lessPinned (GoHeap.push lessPinned [] a) b) c
    ∃ r1 r2 x, GoHeap.pop lessPinned h = some (a, r1) ∧ GoHeap.pop lessPinned r1 = some (x, r2) ∧ x = c := by
  refine ⟨_, _, _, rfl, rfl, ?_⟩; decide

/-! non-vacuity: priorities 5,5,5,4,3 then 1 with W=1, L=3 (the design's scenario) start in priority order -/
example : ∃ s, runActs (init 1 3) [.enqueue 5 0 false, .recv 0, .take, .enqueue 5 1 false, .recv 1, .enqueue 5 2 false, .recv 2,
    .enqueue 4 3 false, .recv 3, .enqueue 3 4 false, .recv 4, .enqueue 1 5 false, .recv 5, .finish 0 false, .tokSendDone, .tok] = some s ∧
    s.disp = .handOff ⟨4, 3, false, 4⟩ (some ⟨5, 1, false, 5⟩) := by
  refine ⟨_, rfl, ?_⟩; decide

end TV.C05
