import TV.Proofs.Publisher
/-!
# C10 — Closing a subscriber or publication is safe at any moment

Statements are over the labelled transition system of TV/Model/Publisher.lean: any number of
publishers, subscribers (any buffer size, filter, timeout, callbacks), messages and closers, every
interleaving (`Reach`); closes are injected at every position because `Reach` quantifies over all
reachable states.
-/
namespace TV.C10
open TV.Publisher

/-- closing at any moment never panics: no send on a closed channel, no double close — in every reachable state, closes injected at every position by any number of goroutines. -/
theorem C10_no_panic :
    ∀ (s : St) (_ : Reach s), s.panicked = false := Proofs.C10_no_panic

/-- the subscriber's channel is closed exactly once per close request, never twice. -/
theorem C10_closed_once :
    ∀ (s : St) (_ : Reach s), s.chCloses.Nodup ∧ ∀ x ∈ s.subs, (x.id ∈ s.chCloses ↔ x.chClosed = true) := Proofs.C10_closed_once

/-- no deadlock: a close that has begun can always complete — either no delivery holds the lock (the channel can be closed now) or every holder has its exit enabled. -/
theorem C10_close_completes :
    ∀ (s : St) (_ : Reach s), ∀ x ∈ s.subs, x.onceStarted = true → x.chClosed = false →
    (step? s (.closeFinish x.id)).isSome = true ∨ ∀ d ∈ holders s x.id, (step? s (.cancel d.uid d.sub)).isSome = true := Proofs.C10_close_completes

/-- messages already buffered remain readable after the close: receiving from a non-empty buffer is always enabled, and closing does not touch the buffer. -/
theorem C10_buffered_stay_readable :
    (∀ (s : St) (x : Sub) (m : Nat) (rest : List Nat), getSub s x.id = some x → x.buf = m :: rest → (step? s (.receive x.id)).isSome = true) ∧
    (∀ (s s' : St) (k : Nat), step? s (.closeFinish k) = some s' → ∀ x ∈ s.subs, ∃ y ∈ s'.subs, y.id = x.id ∧ y.buf = x.buf) ∧
    (∀ (s s' : St) (k : Nat), step? s (.closeSub k) = some s' → ∀ x ∈ s.subs, ∃ y ∈ s'.subs, y.id = x.id ∧ y.buf = x.buf) := Proofs.C10_buffered_stay_readable

/-- nothing is delivered after the close: once the channel is closed no delivery to that subscriber holds the lock, so none can send. -/
theorem C10_nothing_after_close :
    ∀ (s : St) (_ : Reach s), ∀ x ∈ s.subs, x.chClosed = true → (holders s x.id = [] ∧ x.doneClosed = true ∧ x.onceStarted = true) := Proofs.C10_nothing_after_close

/-- other subscribers are unaffected by a close: their record and their pending deliveries are unchanged by every step of somebody else's close. -/
theorem C10_others_unaffected :
    ∀ (s s' : St) (k : Nat) (a : Act), (a = .closeSub k ∨ a = .closeFinish k) → step? s a = some s' →
    (∀ j, j ≠ k → getSub s' j = getSub s j) ∧ s'.pending = s.pending ∧ s'.outcomes = s.outcomes ∧ s'.received = s.received := Proofs.C10_others_unaffected

/-! witness: the pinned close (close(receiveCh) at once, no hand-shake) lets a pending delivery send on a closed channel -/
theorem pinned_C10_send_on_closed :
    ∃ s1 s2, runActs init [.subscribe 0 .none 1000 false false, .publish 1, .acquireR 0 1] = some s1 ∧
      step? (closeSubPinned s1 1) (.deliver 0 1) = some s2 ∧ s2.panicked = true := by
  refine ⟨_, _, rfl, rfl, ?_⟩; decide

/-! non-vacuity: Subscribe(0); Publish; Close with the delivery pending; Close again — repaired protocol -/
example : ∃ s, runActs init [.subscribe 0 .none 1000 false false, .publish 1, .acquireR 0 1, .closeSub 1, .cancel 0 1,
    .closeFinish 1, .closeSub 1, .closePub] = some s ∧ s.panicked = false ∧ s.chCloses = [1] ∧ s.pending = [] := by
  refine ⟨_, rfl, ?_⟩; decide

end TV.C10
