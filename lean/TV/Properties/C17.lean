import TV.Proofs.Server
/-!
# C17 — Server serves every configured route and service through transparent middleware
-/
namespace TV.C17
open TV.Middleware TV.Server

/-- BundleMiddleware runs its members in declaration order, first is outermost: bundle [m1,…,mk] h = m1 (m2 (… (mk h))) for every k. -/
theorem C17_bundle_order :
    ∀ (ms : List Middleware) (h : Handler), bundle ms h = ms.foldr (fun m acc => m acc) h := Proofs.C17_bundle_order

/-- recording middlewares enter in declaration order and leave in reverse, around whatever the handler logs; the response is the handler's. -/
theorem C17_recording_trace :
    ∀ (names : List String) (h : Handler) (r : Req),
    (bundle (names.map recording) h r).1 = names.map ("enter " ++ ·) ++ (h r).1 ++ names.reverse.map ("leave " ++ ·) ∧
    (bundle (names.map recording) h r).2 = (h r).2 := Proofs.C17_recording_trace

/-- the supplied logging middleware is transparent: the handler receives the same method, URL, headers and (unread) body, and the client the same status, headers and body, as without it. -/
theorem C17_log_transparent :
    ∀ (h : Handler) (r : Req), logRequest h r = h r ∧ logResponse h r = h r ∧ logRequest (logResponse h) r = h r := Proofs.C17_log_transparent

/-- any chain of recording and logging middlewares hands the handler the request unchanged and the client the handler's response unchanged. -/
theorem C17_chain_transparent :
    ∀ (names : List String) (id : Nat) (r : Req), (bundle (names.map mwOf) (handlerOf id) r).2 = (handlerOf id r).2 ∧
    (bundle (names.map mwOf) (handlerOf id) r).1 =
      (names.filter (fun n => n != "LOGREQ" && n != "LOGRESP")).map ("enter " ++ ·) ++ (handlerOf id r).1 ++
      ((names.filter (fun n => n != "LOGREQ" && n != "LOGRESP")).reverse).map ("leave " ++ ·) := Proofs.C17_chain_transparent

/-- each registered route is served by exactly its handler (routes with pairwise different (method, path)). -/
theorem C17_routes_served :
    ∀ (routes : List Route) (r : Route), r ∈ routes →
    (routes.map (fun x => (x.method, x.path))).Nodup → dispatch routes r.method r.path = .handler r.handler := Proofs.C17_routes_served

/-- every other method/path combination is rejected by the router: 405 when only patterns of other methods match the path (exactly, or as a subtree pattern ending in "/"), 404 otherwise. -/
theorem C17_others_rejected :
    ∀ (routes : List Route) (m p : String), (∀ r ∈ routes, ¬ (r.method = m ∧ patMatches r.path p = true)) →
    dispatch routes m p = (if routes.any (fun r => patMatches r.path p) then .methodNotAllowed else .notFound) := Proofs.C17_others_rejected

/-- a route registered with a trailing slash serves the whole subtree below it: a path that is not itself registered for the method is answered by the handler of the longest registered subtree pattern of that method that contains it. -/
theorem C17_subtree_served :
    ∀ (routes : List Route) (m p : String), (∀ r ∈ routes, ¬ (r.method = m ∧ r.path = p)) →
    ∀ q, longest (routes.filter (fun r => r.method == m && r.path.endsWith "/" && p.startsWith r.path)) = some q →
    dispatch routes m p = .handler q.handler ∧ q ∈ routes ∧ q.method = m ∧ p.startsWith q.path = true ∧
    ∀ r ∈ routes, r.method = m → r.path.endsWith "/" = true → p.startsWith r.path = true → r.path.length ≤ q.path.length := Proofs.C17_subtree_served

/-- each configured listener installs the router built from its own routes (HTTP and HTTPS alike), and answers through it. -/
theorem C17_each_listener_has_its_router :
    ∀ (cfg : Config) (l : Listener) (m p : String), serve cfg l m p = (match l with | .http => cfg.httpRoutes | .https => cfg.httpsRoutes).map (fun rs => dispatch rs m p) := Proofs.C17_each_listener_has_its_router

/-! witnesses for the pinned tree -/

/-- pinned: the HTTPS provider never installs its router: a registered HTTPS route answers 404. -/
theorem pinned_C17_https_routes_404 :
    servePinned { httpRoutes := none, httpsRoutes := some [⟨"GET", "/a", 1⟩], httpMw := none } .https "GET" "/a" = some .notFound := by decide

/-- pinned: `LogRequest` hands the handler a drained body. -/
theorem pinned_C17_logrequest_drains_body :
    (logRequestPinned (handlerOf 1) ⟨"POST", "/a", [], [7, 8, 9]⟩).2.body = [1] ∧
    (logRequest (handlerOf 1) ⟨"POST", "/a", [], [7, 8, 9]⟩).2.body = [1, 7, 8, 9] := by decide

/-! non-vacuity -/
example : (answer { httpRoutes := some [⟨"GET", "/a", 1⟩, ⟨"POST", "/a", 2⟩], httpsRoutes := none, httpMw := some ["A", "LOGREQ", "B"] } .http
    ⟨"POST", "/a", [], [5]⟩).map (fun x => (x.1, x.2.1)) =
    some (.handler 2, ["enter A", "enter B", "handler 2 POST /a body=1", "leave B", "leave A"]) := by decide

end TV.C17
