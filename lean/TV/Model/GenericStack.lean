import TV.Model.GoHeap
/-
Model of /repo/storage/genericStack.go, sequential layer (core-only).  The stack is the slice of
`(id, value)` entries managed through `container/heap` with `Less = id <`; `currentKey` is the
atomic id counter.  (The concurrent layer — which sections hold which lock — is C07/C11's
LockedObject model.)
-/
namespace TV.GenericStack
open TV.GoHeap

variable {α : Type} [Inhabited α]

structure Stack (α : Type) where
  entries : List (Nat × α)   -- the heap array: (id, entry)
  next : Nat                 -- currentKey

def lessId (a b : Nat × α) : Bool := a.1 < b.1

def new : Stack α := { entries := GoHeap.init lessId [], next := 0 }

/-- `Push`: id := currentKey.Add(1); heap.Push -/
def push (s : Stack α) (v : α) : Stack α × Nat :=
  let id := s.next + 1
  ({ entries := GoHeap.push lessId s.entries (id, v), next := id }, id)

/-- `Pop`: the zero value when empty, else heap.Pop -/
def pop (s : Stack α) : Stack α × α :=
  match GoHeap.pop lessId s.entries with
  | some (e, rest) => ({ s with entries := rest }, e.2)
  | none => (s, default)

/-- `Peek(id)`: linear search of the entries; `none` = NotFound error. -/
def peek (s : Stack α) (id : Nat) : Option α := (s.entries.find? (·.1 == id)).map (·.2)

def len (s : Stack α) : Nat := s.entries.length

/-- insertion into an id-sorted list (the stable sort of `Values` on distinct ids). -/
def insertById (x : Nat × α) : List (Nat × α) → List (Nat × α)
  | [] => [x]
  | y :: r => if x.1 < y.1 then x :: y :: r else y :: insertById x r

def sortById (l : List (Nat × α)) : List (Nat × α) := l.foldr insertById []

/-- `Values`: copy, sort by id, project. -/
def values (s : Stack α) : List α := (sortById s.entries).map (·.2)

/-! ### operations / observations, and the FIFO-by-id queue specification -/

inductive Op (α : Type) where
  | push (v : α) | pop | peek (id : Nat) | len | values

inductive Out (α : Type) where
  | id (n : Nat) | val (v : α) | found (v : α) | notFound | nat (n : Nat) | vals (l : List α)
deriving DecidableEq

def step (s : Stack α) : Op α → Stack α × Out α
  | .push v => let (s', id) := push s v; (s', .id id)
  | .pop => let (s', v) := pop s; (s', .val v)
  | .peek id => (s, match peek s id with | some v => .found v | none => .notFound)
  | .len => (s, .nat (len s))
  | .values => (s, .vals (values s))

/-- the specification: a queue of `(id, value)` in ascending id order. -/
structure Spec (α : Type) where
  q : List (Nat × α)
  next : Nat

def Spec.new : Spec α := { q := [], next := 0 }

def Spec.step (s : Spec α) : Op α → Spec α × Out α
  | .push v => ({ q := s.q ++ [(s.next + 1, v)], next := s.next + 1 }, .id (s.next + 1))
  | .pop => match s.q with
    | [] => (s, .val default)
    | (_, v) :: r => ({ s with q := r }, .val v)
  | .peek id => (s, match s.q.find? (·.1 == id) with | some e => .found e.2 | none => .notFound)
  | .len => (s, .nat s.q.length)
  | .values => (s, .vals (s.q.map (·.2)))

def outs : Stack α → List (Op α) → List (Out α)
  | _, [] => []
  | s, o :: r => (step s o).2 :: outs (step s o).1 r

def Spec.outs : Spec α → List (Op α) → List (Out α)
  | _, [] => []
  | s, o :: r => (Spec.step s o).2 :: Spec.outs (Spec.step s o).1 r

end TV.GenericStack
