/-
Model of the HTTP side of /repo/server (core-only): middleware composition
(httpMiddleware/bundleMiddleware.go), the supplied logging middlewares (logRequest.go,
logResponse.go), route installation and dispatch (httpServer/httpProvider.go over the
literal-pattern fragment "METHOD /literal/path" of net/http.ServeMux), and which handler each
listener ends up with.

A request carries its *unread* body, so that consuming it is visible; a handler returns what it
observed (its trace) and what the client gets.
-/
namespace TV.Middleware

structure Req where
  method : String
  path : String
  headers : List (String × String)
  body : List Nat            -- bytes not yet read from r.Body
deriving DecidableEq, Repr

structure Resp where
  status : Nat
  headers : List (String × String)
  body : List Nat
deriving DecidableEq, Repr

abbrev Trace := List String
abbrev Handler := Req → Trace × Resp
abbrev Middleware := Handler → Handler

/-- `BundleMiddleware`: `wrapped := next; for i := len-1; i >= 0; i-- { wrapped = middleware[i](wrapped) }`.
    `loop k wrapped` has applied the members with index ≥ k. -/
def bundleLoop (ms : List Middleware) : Nat → Handler → Handler
  | 0, wrapped => wrapped
  | k + 1, wrapped => match ms[k]? with
    | some m => bundleLoop ms k (m wrapped)
    | none => bundleLoop ms k wrapped

def bundle (ms : List Middleware) : Middleware := fun next =>
  if ms.length = 0 then next else bundleLoop ms ms.length next

/-- a recording middleware: logs entering and leaving around the wrapped handler. -/
def recording (name : String) : Middleware := fun next r =>
  let (t, resp) := next r
  (("enter " ++ name) :: t ++ ["leave " ++ name], resp)

/-- `LogRequest` (repaired, F15): reads the whole body for the log record, then puts it back. -/
def logRequest : Middleware := fun next r =>
  let logged := r.body                     -- io.ReadAll(r.Body)
  next { r with body := logged }           -- r.Body = NopCloser(bytes.NewReader(bodyBytes))

/-- `LogRequest` as pinned: the handler gets the drained body. -/
def logRequestPinned : Middleware := fun next r => next { r with body := [] }

/-- `LogResponse`: a ResponseWriter wrapper that forwards Header/Write/WriteHeader and keeps a copy. -/
def logResponse : Middleware := fun next r =>
  let (t, resp) := next r
  let _copy := (resp.status, resp.body)    -- what is logged
  (t, resp)

/-! ### routing -/

structure Route where
  method : String
  path : String
  handler : Nat              -- handler identity
deriving DecidableEq, Repr

inductive Dispatch where
  | handler (id : Nat) | notFound | methodNotAllowed
deriving DecidableEq, Repr

/-- a pattern path that ends in "/" is a *subtree* pattern: it matches every path below it. -/
def patMatches (pat path : String) : Bool := pat == path || (pat.endsWith "/" && path.startsWith pat)

/-- the more specific (longer) of two subtree patterns wins. -/
def longest : List Route → Option Route
  | [] => none
  | r :: rest => match longest rest with
    | some q => if r.path.length < q.path.length then some q else some r
    | none => some r

/-- ServeMux restricted to literal "METHOD /path" and "METHOD /subtree/" patterns: an exact (method, path) match wins;
    otherwise the longest subtree pattern of that method that contains the path; a path that only patterns of other
    methods match answers 405; anything else 404.  (Not modelled: the 301 redirect from "/p" to a registered "/p/", path
    cleaning, wildcards, host patterns — the harness does not request such paths.) -/
def dispatch (routes : List Route) (method path : String) : Dispatch :=
  match routes.find? (fun r => r.method == method && r.path == path) with
  | some r => .handler r.handler
  | none =>
    match longest (routes.filter (fun r => r.method == method && r.path.endsWith "/" && path.startsWith r.path)) with
    | some r => .handler r.handler
    | none => if routes.any (fun r => patMatches r.path path) then .methodNotAllowed else .notFound

inductive Listener where | http | https
deriving DecidableEq, Repr

structure Config where
  httpRoutes : Option (List Route)      -- none = listener not configured
  httpsRoutes : Option (List Route)
  httpMw : Option (List String)         -- names of the HTTP listener's middleware chain (none = no middleware)
deriving Repr

/-- the router installed on a listener (repaired, F15: both listeners install theirs). -/
def installed (cfg : Config) : Listener → Option (List Route)
  | .http => cfg.httpRoutes
  | .https => cfg.httpsRoutes

/-- pinned: `NewHttpsProvider` builds the router but never assigns it — every HTTPS request falls
    through to the empty default mux. -/
def installedPinned (cfg : Config) : Listener → Option (List Route)
  | .http => cfg.httpRoutes
  | .https => cfg.httpsRoutes.map (fun _ => [])

/-- what a client gets from a listener for (method, path). -/
def serve (cfg : Config) (l : Listener) (method path : String) : Option Dispatch :=
  (installed cfg l).map (fun rs => dispatch rs method path)

def servePinned (cfg : Config) (l : Listener) (method path : String) : Option Dispatch :=
  (installedPinned cfg l).map (fun rs => dispatch rs method path)

/-- the middleware named in a chain: recording ones by name, the library's two by their names. -/
def mwOf (name : String) : Middleware :=
  if name == "LOGREQ" then logRequest else if name == "LOGRESP" then logResponse else recording name

/-- the handler with identity `id`: records what it saw, answers `210 + id` (clear of 204/205, which carry no body) with an echo. -/
def handlerOf (id : Nat) : Handler := fun r =>
  ([s!"handler {id} {r.method} {r.path} body={r.body.length}"], { status := 210 + id, headers := [("X-H", toString id)], body := id :: r.body })

/-- the full answer of the HTTP listener: routing, then the configured chain around the handler. -/
def answer (cfg : Config) (l : Listener) (r : Req) : Option (Dispatch × Trace × Option Resp) :=
  (serve cfg l r.method r.path).map fun d =>
    match d with
    | .handler id =>
      let h := handlerOf id
      let h' := match l, cfg.httpMw with
        | .http, some names => bundle (names.map mwOf) h
        | _, _ => h
      let (t, resp) := h' r
      (d, t, some resp)
    | d => (d, [], none)

end TV.Middleware
