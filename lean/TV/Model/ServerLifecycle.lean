/-
Model of the start/stop hand-shake of /repo/server/server.go with its providers (core-only).

Processes: the Start caller, one goroutine per configured provider, the Stop caller.  Each stdlib
server is a three-state machine `fresh → serving → closed` with its documented contract as the
transition rules: `ListenAndServe`/`Serve` return once `Shutdown`/`GracefulStop` has been called
(also when it was called first); `Shutdown(ctx)` returns when no request is in flight or `ctx` is
done; in-flight requests complete on their own.
-/
namespace TV.ServerLifecycle

inductive Srv where | fresh | serving | closed
deriving DecidableEq, Repr

/-- provider goroutine program counter. -/
inductive PPc where
  | notStarted      -- `go provider.Start` issued, goroutine not yet run
  | signalled       -- startWg.Done() done, about to call ListenAndServe / Serve
  | serving         -- inside the blocking serve call
  | returned        -- serve call returned, deferred stopWg.Done() executed
deriving DecidableEq, Repr

structure Prov where
  pc : PPc := .notStarted
  srv : Srv := .fresh
  shutdownCalled : Bool := false
  inflight : Nat := 0          -- requests being handled
deriving DecidableEq, Repr

/-- the Start / Stop callers. -/
inductive CallerPc where
  | idle | spawning (k : Nat) | waitingStartWg | startReturned
  | stopping (k : Nat) (err : Bool) | waitingStopWg (err : Bool) | stopReturned (err : Bool)
deriving DecidableEq, Repr

structure St where
  provs : List Prov
  startWg : Nat := 0
  stopWg : Int := 0            -- the caller's WaitGroup (a negative counter would be a panic)
  caller : CallerPc := .idle
  ctxAmple : Bool := true      -- Stop's context: ample or already expired
  completed : Nat := 0         -- in-flight requests that ran to completion
  aborted : Nat := 0           -- in-flight requests cut off (only with an expired context)
deriving DecidableEq, Repr

inductive Act where
  | startCall                       -- Server.Start begins
  | spawn                           -- one iteration of Start's loop: stopWg.Add(1); startWg.Add(1); go provider.Start
  | startWgDone                     -- startWg.Wait() returns
  | provSignal (i : Nat)            -- provider i: startWg.Done()
  | provServe (i : Nat)             -- provider i enters ListenAndServe / Serve
  | provReturn (i : Nat)            -- its serve call returns; deferred stopWg.Done()
  | request (i : Nat)               -- a client request arrives at provider i
  | finishReq (i : Nat)             -- its handler finishes
  | stopCall (ample : Bool)         -- Server.Stop begins
  | provStop                        -- one iteration of Stop's loop: provider.Stop(ctx) returns
  | stopWgDone                      -- stopProvidersWg.Wait() returns
deriving DecidableEq, Repr

def setAt (l : List Prov) (i : Nat) (f : Prov → Prov) : List Prov :=
  l.zipIdx.map (fun (p, j) => if j = i then f p else p)

def step? (s : St) : Act → Option St
  | .startCall => if s.caller = .idle then some { s with caller := .spawning 0 } else none
  | .spawn =>
    match s.caller with
    | .spawning k =>
      if k < s.provs.length then some { s with caller := .spawning (k + 1), startWg := s.startWg + 1, stopWg := s.stopWg + 1 }
      else none
    | _ => none
  | .provSignal i =>
    match s.provs[i]?, s.caller with
    | some p, c =>
      -- the goroutine exists once Start's loop has passed it
      let spawned := match c with | .spawning k => i < k | .idle => false | _ => true
      if spawned && p.pc = .notStarted then some { s with provs := setAt s.provs i (fun p => { p with pc := .signalled }), startWg := s.startWg - 1 } else none
    | none, _ => none
  | .startWgDone =>
    match s.caller with
    | .spawning k => if k = s.provs.length && s.startWg = 0 then some { s with caller := .startReturned } else none
    | _ => none
  | .provServe i =>
    match s.provs[i]? with
    | some p =>
      if p.pc = .signalled then
        -- serving after Shutdown/GracefulStop was called returns at once (ErrServerClosed)
        if p.shutdownCalled then some { s with provs := setAt s.provs i (fun p => { p with pc := .serving, srv := .closed }) }
        else some { s with provs := setAt s.provs i (fun p => { p with pc := .serving, srv := .serving }) }
      else none
    | none => none
  | .provReturn i =>
    match s.provs[i]? with
    | some p =>
      if p.pc = .serving && p.srv = .closed then some { s with provs := setAt s.provs i (fun p => { p with pc := .returned }), stopWg := s.stopWg - 1 } else none
    | none => none
  | .request i =>
    match s.provs[i]? with
    | some p => if p.srv = .serving && !p.shutdownCalled then some { s with provs := setAt s.provs i (fun p => { p with inflight := p.inflight + 1 }) } else none
    | none => none
  | .finishReq i =>
    match s.provs[i]? with
    | some p => if 0 < p.inflight then some { s with provs := setAt s.provs i (fun p => { p with inflight := p.inflight - 1 }), completed := s.completed + 1 } else none
    | none => none
  | .stopCall ample => if s.caller = .startReturned then some { s with caller := .stopping 0 false, ctxAmple := ample } else none
  | .provStop =>
    match s.caller with
    | .stopping k err =>
      match s.provs[k]? with
      | some p =>
        -- Shutdown(ctx) / GracefulStop: returns when nothing is in flight, or (expired ctx) at once with an error / forced stop
        if p.inflight = 0 then
          some { s with provs := setAt s.provs k (fun p => { p with shutdownCalled := true, srv := if p.srv = .serving then .closed else p.srv }), caller := .stopping (k + 1) err }
        else if !s.ctxAmple then
          some { s with provs := setAt s.provs k (fun p => { p with shutdownCalled := true, srv := if p.srv = .serving then .closed else p.srv, inflight := 0 }),
                        aborted := s.aborted + p.inflight, caller := .stopping (k + 1) true }
        else none
      | none => if k = s.provs.length then some { s with caller := .waitingStopWg err } else none
    | _ => none
  | .stopWgDone =>
    match s.caller with
    | .waitingStopWg err => if s.stopWg = 0 then some { s with caller := .stopReturned err } else none
    | _ => none

def init (n : Nat) : St := { provs := List.replicate n {} }

inductive Reach (n : Nat) : St → Prop where
  | init : Reach n (init n)
  | step {s s' : St} (a : Act) : Reach n s → step? s a = some s' → Reach n s'

def runActs : St → List Act → Option St
  | s, [] => some s
  | s, a :: r => match step? s a with | some s' => runActs s' r | none => none

/-- all actions with indices below the number of providers (candidates for "something is enabled"). -/
def allActs (s : St) : List Act :=
  [.startCall, .spawn, .startWgDone, .stopCall true, .stopCall false, .provStop, .stopWgDone] ++
  (List.range s.provs.length).flatMap (fun i => [Act.provSignal i, .provServe i, .provReturn i, .finishReq i])

end TV.ServerLifecycle
