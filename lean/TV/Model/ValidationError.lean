/-
Model of /repo/errors/validationError.go (core-only; linked into the driver).

A `map[string][]string` is an association list with unique keys (`SMap`); a nil map is `none`.
`children` is a Go map too: `kidsNil = true` stands for the nil map (then `kids = []`).
Every read is modelled *with its receiver effect*: it returns `(result, receiver')`, and a write
to a nil map is an explicit panic (`none`) — so "reading has no side effects" and "never panics"
are statements, not conventions.  `…Pinned` definitions transcribe the unrepaired code.
-/
namespace TV.VE

abbrev SMap := List (String × List String)

inductive VE where
  | mk (errs : Option SMap) (warns : Option SMap) (kidsNil : Bool) (kids : List (String × VE)) : VE

def VE.errs : VE → Option SMap | .mk e _ _ _ => e
def VE.warns : VE → Option SMap | .mk _ w _ _ => w
def VE.kidsNil : VE → Bool | .mk _ _ n _ => n
def VE.kids : VE → List (String × VE) | .mk _ _ _ k => k
def VE.sel (warn : Bool) (e : VE) : Option SMap := if warn then e.warns else e.errs

/-- `addMsgs(m, context, msg...)` on a non-nil map. -/
def addMsgs : SMap → String → List String → SMap
  | [], k, ms => [(k, ms)]
  | (k', v) :: r, k, ms => if k' = k then (k', v ++ ms) :: r else (k', v) :: addMsgs r k ms

def prefixKeys (m : SMap) (pre : String) : SMap := m.map (fun p => (pre ++ p.1, p.2))

/-- `for k, e := range src { addMsgs(dst, k, e...) }` -/
def mergeInto (dst src : SMap) : SMap := src.foldl (fun a p => addMsgs a p.1 p.2) dst

/- `getFlattenedMap(key, ve, getWarnings)` — builds fresh maps, never writes to `ve`. -/
mutual
def flatten (warn : Bool) (key : String) : VE → SMap
  | .mk errs warns _ kids =>
      flattenKids warn key (prefixKeys ((if warn then warns else errs).getD []) (key ++ ".")) kids
def flattenKids (warn : Bool) (key : String) (acc : SMap) : List (String × VE) → SMap
  | [] => acc
  | (ck, c) :: rest => flattenKids warn key (mergeInto acc (flatten warn (key ++ "." ++ ck) c)) rest
end

/-- the children's contribution to a top-level flat read. -/
def kidsFlat (warn : Bool) (acc : SMap) : List (String × VE) → SMap
  | [] => acc
  | (k, c) :: rest => kidsFlat warn (mergeInto acc (flatten warn k c)) rest

/-- `GetFlatErrorMap` / `GetFlatWarningMap` (repaired): flatten into a *fresh* copy.
    Returns the flat map and the receiver afterwards. -/
def getFlat (warn : Bool) (e : VE) : SMap × VE :=
  (kidsFlat warn ((e.sel warn).getD []) e.kids, e)

/-- pinned: the receiver's own map is the accumulator (`flatMap := e.errorMap`); a nil map
    panics as soon as a child contributes something. `none` = panic. -/
def getFlatPinned (warn : Bool) : VE → Option (SMap × VE)
  | .mk errs warns kn kids =>
    let own := if warn then warns else errs
    let contrib := kidsFlat warn [] kids
    match own with
    | none => if contrib.isEmpty then some ([], .mk errs warns kn kids) else none
    | some m =>
      let flat := kidsFlat warn m kids
      some (flat, if warn then .mk errs (some flat) kn kids else .mk (some flat) warns kn kids)

/-- lines of `Error()` (repaired), and the receiver afterwards. -/
def errorLines (e : VE) : List String × VE :=
  (((getFlat false e).1.flatMap (·.2)).map ("ERROR: " ++ ·) ++
   ((getFlat true e).1.flatMap (·.2)).map ("WARNING: " ++ ·), e)

def errorLinesPinned (e : VE) : Option (List String × VE) :=
  match getFlatPinned false e with
  | none => none
  | some (fe, e1) =>
    match getFlatPinned true e1 with
    | none => none
    | some (fw, e2) => some ((fe.flatMap (·.2)).map ("ERROR: " ++ ·) ++ (fw.flatMap (·.2)).map ("WARNING: " ++ ·), e2)

/-! ### what was supplied -/

def pairs (m : SMap) : List (String × String) := m.flatMap (fun p => p.2.map (fun x => (p.1, x)))

/- the messages supplied to a tree, each under its field name prefixed by the dot-separated
    path of child names (`pre` is the path so far, with its trailing dot). -/
mutual
def supplied (warn : Bool) (pre : String) : VE → List (String × String)
  | .mk errs warns _ kids =>
      pairs (prefixKeys ((if warn then warns else errs).getD []) pre) ++ suppliedKids warn pre kids
def suppliedKids (warn : Bool) (pre : String) : List (String × VE) → List (String × String)
  | [] => []
  | (ck, c) :: rest => supplied warn (pre ++ ck ++ ".") c ++ suppliedKids warn pre rest
end

/-! ### constructors -/

def newVE (context msg : String) (isWarning : Bool) : VE :=
  if isWarning then .mk (some []) (some [(context, [msg])]) true []
  else .mk (some [(context, [msg])]) (some []) true []

/-- `NewValidationErrors(errs, children)`; `kids = none` is a nil children map. -/
def newVEs (errs : Option SMap) (kids : Option (List (String × VE))) : VE :=
  .mk (some (errs.getD [])) none kids.isNone (kids.getD [])

def newVEsW (errs warns : Option SMap) (kids : Option (List (String × VE))) : VE :=
  if errs.isNone && warns.isNone then .mk (some []) none kids.isNone (kids.getD [])
  else .mk errs warns kids.isNone (kids.getD [])

/-! ### AddErrorToValidation (repaired) -/

inductive Err where
  | nil | plain (msg : String) | ve (e : VE) | wrapped (e : VE)

def veOf : Err → Option VE
  | .ve e => some e | .wrapped e => some e | _ => none
def msgOf : Err → String
  | .plain m => m | _ => ""

/-- children of `e2` are added unless a child of that name is already there (its messages are in
    the flat maps anyway). -/
def addKids (acc : List (String × VE)) : List (String × VE) → List (String × VE)
  | [] => acc
  | (k, c) :: rest => addKids (if acc.any (·.1 == k) then acc else acc ++ [(k, c)]) rest

def mergeVE (a b : VE) : VE :=
  .mk (some (mergeInto (a.errs.getD []) (getFlat false b).1))
      (some (mergeInto (a.warns.getD []) (getFlat true b).1))
      false (addKids a.kids b.kids)

/-- `none` = the function returns nil. -/
def addErr (e1 e2 : Err) : Option VE :=
  match e1, e2 with
  | .nil, .nil => none
  | .nil, .plain m => some (newVE "" m false)
  | .nil, .ve v => some v
  | .nil, .wrapped v => some v
  | e1, e2 =>
    let a := match veOf e1 with | some v => v | none => newVE "" (msgOf e1) false
    match e2 with
    | .nil => some a
    | .plain m => some (.mk (some (addMsgs (a.errs.getD []) "" [m])) (some (a.warns.getD [])) false a.kids)
    | .ve b => some (mergeVE a b)
    | .wrapped b => some (mergeVE a b)

/-- everything an `Err` supplies (a plain error is one error message under the empty field). -/
def suppliedErr (warn : Bool) : Err → List (String × String)
  | .nil => []
  | .plain m => if warn then [] else [("", m)]
  | .ve e => supplied warn "" e
  | .wrapped e => supplied warn "" e

end TV.VE
