import TV.Model.GoHeap
/-
Model of /repo/workqueue (queue.go, workHeap.go, models.go, options.go) as a labelled
transition system (core-only; linked into the driver).

One action = one atomic step of the Go code: a channel operation together with the
straight-line code up to the next blocking point.  Processes: any number of producers
(goroutines inside `Enqueue`), the dispatcher (`start`), `W` workers (`doWork`), the error
monitor, error subscribers, and the callers of Dequeue / SetPriority / Stop / Break.
Unbuffered channel = rendezvous; buffered channel = bounded FIFO / counter.
The priority queue is the *array-level* `container/heap` of TV/Model/GoHeap.lean with
`Less = (priority, arrival sequence)` — `heap.Push`, `heap.Pop`, `heap.Remove`, `heap.Fix`,
`heap.Init` are the transcribed algorithms, not an idealised priority queue.

Environment inputs: the work functions' results (`finish id err`), the values the adjust
callbacks return (`setAdj`), subscribers receiving (`subRecv`).
-/
namespace TV.WorkQueue
open TV.GoHeap

structure Item where
  id : Nat            -- ordinal of the Enqueue call: stands for the uuid and *is* the arrival sequence number
  prio : Int          -- the priority field (mutable: adjust functions, SetPriority)
  adj : Bool          -- has an adjust function
  name : Nat
deriving DecidableEq, Repr

/-- `workHeap.Less` (repaired, F4): priority, then first come first served. -/
def less (a b : Item) : Bool := a.prio < b.prio || (a.prio == b.prio && a.id < b.id)

/-- `workHeap.Less` as pinned: priority only. -/
def lessPinned (a b : Item) : Bool := a.prio < b.prio

inductive Disp where
  | idle                                  -- at the three-way select
  | fullWait (it : Item)                  -- queue full: blocked on `<-workerSemaphore`, holding `it`
  | handOff (m : Item) (held : Option Item)  -- blocked on `workerCh <- m` (then pushes `held`)
  | drain (rest : List Item)              -- after ctx.Done: handing the remaining items to the workers
  | await                                 -- workerCh closed; consuming tokens until all workers returned
  | exited
deriving DecidableEq, Repr

inductive Mon where
  | idle
  | fanout (e : Nat) (rest : List Nat)    -- delivering item `e`'s error to the subscribers in `rest`
  | exited
deriving DecidableEq, Repr

structure St where
  W : Nat
  L : Nat
  nextId : Nat := 0
  blocked : List Item := []     -- producers inside Enqueue, blocked sending on workChan
  heap : List Item := []        -- workQueue.items (heap array)
  chan : List Item := []        -- workerCh (capacity W), FIFO
  chanClosed : Bool := false
  running : List Item := []     -- work functions executing
  errSend : List Item := []     -- workers blocked sending an error on errChan
  tokPend : Nat := 0            -- workers blocked sending a completion token
  tokens : Nat := 0             -- workerSemaphore content (capacity W)
  exitedW : Nat := 0            -- workers that returned
  disp : Disp := .idle
  mon : Mon := .idle
  monDone : Bool := false       -- monitorDone closed
  subs : Nat := 0               -- channels handed out by Errors(): 0 .. subs-1
  adjVals : List (Nat × Int) := []   -- what each adjust function currently returns (environment)
  limbo : List Item := []       -- stored in workItems but never sent (Enqueue after Stop) or skipped by Break
  stopped : Bool := false
  breaked : Bool := false
  ctxDone : Bool := false
  panicked : Bool := false
  -- ghost logs
  accepted : List Nat := []     -- Enqueue handed the item to the dispatcher and returned
  rejected : List Nat := []     -- Enqueue returned without the item being accepted
  started : List Nat := []      -- work functions started, in start order
  finished : List Nat := []     -- work functions returned
  dequeued : List Nat := []
  failed : List Nat := []       -- work functions that returned a non-nil error
  Lmax : Nat := 0               -- largest queue length configured so far
  inbox : List (Nat × Nat) := []    -- (subscriber, item id) deliveries, in order
  errored : List (Nat × Nat) := []  -- (item id, number of subscribers at fan-out) for every non-nil result
deriving DecidableEq, Repr

def init (W L : Nat) : St := { W := W, L := L, Lmax := L }

inductive Act where
  -- environment / API calls
  | enqueue (prio : Int) (name : Nat) (adj : Bool)
  | finish (id : Nat) (err : Bool)
  | setAdj (id : Nat) (v : Int)
  | subscribe
  | subRecv (sub : Nat)
  | resizeLen (L' : Nat)
  | dequeue (id : Nat)
  | setPrio (id : Nat) (p : Int)
  | stop
  | break_
  -- internal steps of dispatcher, workers, monitor, producers
  | recv (id : Nat)
  | tok
  | handOffDone
  | take
  | errRecv (id : Nat)
  | tokSendDone
  | giveUp (id : Nat)
  | ctxExit
  | drainSend
  | drainTok
  | closeChan
  | awaitTok
  | workerExit
  | allDone
  | monExit
deriving DecidableEq, Repr

def adjVal (s : St) (it : Item) : Int := (s.adjVals.lookup it.id).getD it.prio

/-- `AdjustPriorities` (repaired, F5): consult *every* adjust function, then `heap.Init` once. -/
def adjustAll (s : St) (h : List Item) : List Item :=
  let h' := h.map (fun it => if it.adj then { it with prio := adjVal s it } else it)
  if h' != h then GoHeap.init less h' else h'

def freeWorkers (s : St) : Nat := s.W - (s.running.length + s.errSend.length + s.tokPend + s.exitedW)

def removeId (l : List Item) (id : Nat) : List Item := l.filter (·.id != id)
def findId (l : List Item) (id : Nat) : Option Item := l.find? (·.id == id)
def idxOf (l : List Item) (id : Nat) : Option Nat :=
  let i := l.findIdx (·.id == id)
  if i < l.length then some i else none

/-- ids currently stored in the `workItems` sync.Map, with the item as it is now. -/
def stored (s : St) : List Item :=
  s.blocked ++ (match s.disp with
    | .fullWait it => [it] | .handOff m (some it) => [m, it] | .handOff m none => [m]
    | .drain rest => rest | _ => []) ++
  s.heap ++ s.chan ++ s.running ++ s.errSend ++ s.limbo

def inProgress (s : St) (id : Nat) : Bool := (s.running ++ s.errSend).any (·.id == id)

/-- result of an API call that reports an error or nil. -/
inductive Ret | nil | error
deriving DecidableEq, Repr

/-- `heap.Pop` with the panic made explicit. -/
def popOrPanic (s : St) (h : List Item) : Option (Item × List Item) := GoHeap.pop less h

/-- the dispatcher leaves its loop (repaired, F16): with Break the waiting items are skipped,
    otherwise they are handed to the workers in array order. -/
def toDrain (s : St) : St :=
  if s.breaked then { s with disp := .drain [], limbo := s.limbo ++ s.heap, heap := [] }
  else { s with disp := .drain s.heap, heap := [] }

/-- one atomic step; `none` = the action is not enabled in `s`. -/
def step? (s : St) : Act → Option St
  | .enqueue p name adj =>
    let it : Item := { id := s.nextId, prio := p, adj := adj, name := name }
    -- a fresh adjust function returns `p` until the environment changes it
    let old : List (Nat × Int) := s.adjVals.filter (fun e => e.1 != s.nextId)
    let s := { s with adjVals := if adj then (s.nextId, p) :: old else old }
    if s.stopped then some { s with nextId := s.nextId + 1, limbo := s.limbo ++ [it], rejected := s.rejected ++ [it.id] }
    else some { s with nextId := s.nextId + 1, blocked := s.blocked ++ [it] }
  | .recv id =>
    match s.disp, findId s.blocked id with
    | .idle, some it =>
      let s := { s with blocked := removeId s.blocked id, accepted := s.accepted ++ [id] }
      -- stopping: no more dispatching, the item joins the queue and the drain deals with it
      if s.ctxDone then some (toDrain { s with heap := GoHeap.push less s.heap it }) else
      if s.heap.isEmpty && s.chan.length < s.W && !s.chanClosed then some { s with chan := s.chan ++ [it] }
      else if s.heap.length < s.L then some { s with heap := GoHeap.push less s.heap it }
      else some { s with disp := .fullWait it }
    | _, _ => none
  | .tok =>
    if s.tokens = 0 then none else
    match s.disp with
    | .idle =>
      if s.ctxDone then some (toDrain { s with tokens := s.tokens - 1 }) else
      if s.heap.isEmpty then some { s with tokens := s.tokens - 1 }
      else match popOrPanic s (adjustAll s s.heap) with
        | some (m, rest) => some { s with tokens := s.tokens - 1, heap := rest, disp := .handOff m none }
        | none => some { s with tokens := s.tokens - 1, panicked := true }
    | .fullWait it =>
      if s.ctxDone then some (toDrain { s with tokens := s.tokens - 1, heap := GoHeap.push less s.heap it }) else
      match popOrPanic s (adjustAll s s.heap) with
      | some (m, rest) => some { s with tokens := s.tokens - 1, heap := rest, disp := .handOff m (some it) }
      | none => some { s with tokens := s.tokens - 1, panicked := true }
    | _ => none
  | .handOffDone =>
    match s.disp with
    | .handOff m held =>
      if s.chan.length < s.W then
        some { s with chan := s.chan ++ [m], disp := .idle,
                      heap := match held with | some it => GoHeap.push less s.heap it | none => s.heap }
      else none
    | _ => none
  | .take =>
    match s.chan with
    | it :: rest => if 0 < freeWorkers s then some { s with chan := rest, running := s.running ++ [it], started := s.started ++ [it.id] } else none
    | [] => none
  | .finish id err =>
    match findId s.running id with
    | some it =>
      let s := { s with running := removeId s.running id, finished := s.finished ++ [id] }
      if err then some { s with errSend := s.errSend ++ [it], failed := s.failed ++ [id] } else some { s with tokPend := s.tokPend + 1 }
    | none => none
  | .errRecv id =>
    match s.mon, findId s.errSend id with
    | .idle, some _ =>
      some { s with errSend := removeId s.errSend id, tokPend := s.tokPend + 1, errored := s.errored ++ [(id, s.subs)],
                    mon := if s.subs = 0 then .idle else .fanout id (List.range s.subs) }
    | _, _ => none
  | .subRecv sub =>
    match s.mon with
    | .fanout e (x :: rest) =>
      if x = sub then some { s with inbox := s.inbox ++ [(sub, e)], mon := if rest.isEmpty then .idle else .fanout e rest } else none
    | _ => none
  | .tokSendDone =>
    if 0 < s.tokPend ∧ s.tokens < s.W then some { s with tokPend := s.tokPend - 1, tokens := s.tokens + 1 } else none
  | .giveUp id =>
    match findId s.blocked id with
    | some _ => if s.ctxDone then some { s with blocked := removeId s.blocked id, rejected := s.rejected ++ [id] } else none
    | none => none
  | .stop => some { s with stopped := true, ctxDone := true }
  | .break_ => some { s with breaked := true, stopped := true, ctxDone := true }
  | .ctxExit =>
    match s.disp with
    | .idle => if s.ctxDone then some (toDrain s) else none
    | .fullWait it => if s.ctxDone then some (toDrain { s with heap := GoHeap.push less s.heap it }) else none
    | _ => none
  | .drainSend =>
    match s.disp with
    -- the drain loop reads `breaked` before every item: the item it is blocked on is sent, but once Break has been
    -- called (possibly after a Stop) everything behind it is skipped
    | .drain (it :: rest) =>
      if s.chan.length < s.W then
        (if s.breaked then some { s with chan := s.chan ++ [it], disp := .drain [], limbo := s.limbo ++ rest }
         else some { s with chan := s.chan ++ [it], disp := .drain rest })
      else none
    | _ => none
  | .drainTok =>
    match s.disp with
    | .drain (_ :: _) => if 0 < s.tokens then some { s with tokens := s.tokens - 1 } else none
    | _ => none
  | .closeChan =>
    match s.disp with
    | .drain [] => some { s with chanClosed := true, disp := .await }
    | _ => none
  | .awaitTok =>
    match s.disp with
    | .await => if 0 < s.tokens then some { s with tokens := s.tokens - 1 } else none
    | _ => none
  | .workerExit =>
    if s.chanClosed ∧ s.chan.isEmpty ∧ 0 < freeWorkers s then some { s with exitedW := s.exitedW + 1 } else none
  | .allDone =>
    match s.disp with
    | .await => if s.exitedW = s.W then some { s with disp := .exited, monDone := true } else none
    | _ => none
  | .monExit =>
    match s.mon with
    | .idle => if s.monDone then some { s with mon := .exited } else none
    | _ => none
  | .setAdj id v => some { s with adjVals := (id, v) :: s.adjVals.filter (·.1 != id) }
  | .subscribe => some { s with subs := s.subs + 1 }
  | .resizeLen L' => some { s with L := L', Lmax := max s.Lmax L' }
  | .dequeue id =>
    -- the state-changing part of Dequeue; its return value is `dequeueRet`
    match idxOf s.heap id with
    | some i =>
      match GoHeap.remove less s.heap i with
      | some (_, rest) => some { s with heap := adjustAll s rest, dequeued := s.dequeued ++ [id] }
      | none => some { s with panicked := true }
    | none => some s
  | .setPrio id p =>
    if inProgress s id then some s else
    match idxOf s.heap id with
    | some i =>
      match s.heap[i]? with
      | some it => some { s with heap := adjustAll s (GoHeap.fix less (s.heap.set i { it with prio := p }) i) }
      | none => some s
    | none =>
      let u (it : Item) : Item := if it.id == id then { it with prio := p } else it
      let upd (l : List Item) := l.map u
      let disp' := match s.disp with
        | .fullWait it => .fullWait (u it)
        | .handOff m held => .handOff (u m) (held.map u)
        | .drain rest => .drain (upd rest)
        | d => d
      -- SetPriority consults the adjust functions of the waiting items whatever the target was
      some { s with blocked := upd s.blocked, chan := upd s.chan, limbo := upd s.limbo, disp := disp', heap := adjustAll s s.heap }

/-- what `Dequeue(id)` returns in state `s` (repaired, F14). -/
def dequeueRet (s : St) (id : Nat) : Ret :=
  match findId (stored s) id with
  | none => .nil
  | some _ => if inProgress s id then .error else if (idxOf s.heap id).isSome then .nil else .error

/-- what `SetPriority(id, p)` returns. -/
def setPrioRet (s : St) (id : Nat) : Ret :=
  match findId (stored s) id with
  | none => .nil
  | some _ => if inProgress s id then .error else .nil

/-- the internal (non-environment) actions enabled in `s`, with every possible choice. -/
def internalActs (s : St) : List Act :=
  let cands : List Act :=
    (s.blocked.map (fun it => Act.recv it.id)) ++ [.tok, .handOffDone, .take] ++
    (s.errSend.map (fun it => Act.errRecv it.id)) ++ [.tokSendDone] ++
    (s.blocked.map (fun it => Act.giveUp it.id)) ++
    [.ctxExit, .drainSend, .drainTok, .closeChan, .awaitTok, .workerExit, .allDone, .monExit]
  cands.filter (fun a => (step? s a).isSome)

def isInternal : Act → Bool
  | .recv _ | .tok | .handOffDone | .take | .errRecv _ | .tokSendDone | .giveUp _ | .ctxExit
  | .drainSend | .drainTok | .closeChan | .awaitTok | .workerExit | .allDone | .monExit => true
  | _ => false

/-- run a list of actions (`none` if one is not enabled). -/
def runActs : St → List Act → Option St
  | s, [] => some s
  | s, a :: r => match step? s a with | some s' => runActs s' r | none => none

/-- the side conditions under which the properties are stated: queue lengths are `≥ 1`, and
    Dequeue / SetPriority are called while the dispatcher is idle (C16). -/
def actOK (s : St) : Act → Prop
  | .resizeLen L' => 1 ≤ L'
  | .dequeue _ => s.disp = .idle
  | .setPrio _ _ => s.disp = .idle
  | _ => True

/-- reachability from `init W L` by legal actions (any interleaving of environment and internal steps). -/
inductive Reach (W L : Nat) : St → Prop where
  | init : Reach W L (init W L)
  | step {s s' : St} (a : Act) : Reach W L s → actOK s a → step? s a = some s' → Reach W L s'

/-- no internal step is enabled. -/
def quiescent (s : St) : Prop := internalActs s = []

/-- items accepted by the queue and not yet started (held by the dispatcher, in the priority
    queue, handed to the worker pool, or being drained). -/
def waiting (s : St) : List Item :=
  (match s.disp with
    | .fullWait it => [it] | .handOff m (some it) => [m, it] | .handOff m none => [m]
    | .drain rest => rest | _ => []) ++ s.heap ++ s.chan

end TV.WorkQueue
