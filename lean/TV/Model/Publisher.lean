/-
Model of /repo/publisher/publication.go as a labelled transition system (core-only).

Processes: any number of publishers, subscribers (receivers), closers, and one delivery
goroutine per (published message, accepting subscriber).  One action = one atomic step of the Go
code.  The repaired close protocol (F10) is transcribed: every subscriber has a `done` channel,
an RW mutex and a `sync.Once`; a delivery holds the mutex for reading while it may send and
selects on {send, its own timer, done}; close = once { close(done); take the mutex for writing
(all holders have left); close(receiveCh) }.

Time is a logical clock advanced by `tick`; a delivery's timer starts when it enters its select:
`deadline = now + timeout(subscriber)`.  A send on a closed channel is an explicit `panicked`.
-/
namespace TV.Publisher

/-- subscriber filters used by the harness (a filter is any predicate; these are the ones driven). -/
inductive Filter where
  | none | even | odd | never
deriving DecidableEq, Repr

def Filter.accepts : Filter → Nat → Bool
  | .none, _ => true
  | .even, m => m % 2 == 0
  | .odd, m => m % 2 == 1
  | .never, _ => false

structure Sub where
  id : Nat
  cap : Nat                  -- buffer size of receiveCh
  filter : Filter
  timeout : Nat              -- logical duration
  cbFiltered : Bool          -- OnFiltered set
  cbTimeout : Bool           -- OnTimeout set
  buf : List Nat := []       -- receiveCh content
  registered : Bool := true  -- present in the publication's SyncMap
  onceStarted : Bool := false   -- closeOnce has been entered
  doneClosed : Bool := false
  chClosed : Bool := false
  -- ghost (bookkeeping for the monitors; never read by `step?`)
  subAt : Nat := 0              -- number of messages published before it subscribed
  closedAt : Option Nat := none -- number of messages published when its close began
deriving DecidableEq, Repr

inductive Stage where
  | spawned     -- goroutine created, about to RLock
  | holding     -- holds the read lock, blocked in the inner select
deriving DecidableEq, Repr

structure Delivery where
  uid : Nat        -- which Publish call
  msg : Nat
  sub : Nat
  stage : Stage
  deadline : Nat   -- meaningful once `holding`
deriving DecidableEq, Repr

/-- how a (publish, subscriber) pair ended. -/
inductive Outcome where
  | sent | filtered | timedOut | cancelled
deriving DecidableEq, Repr

structure St where
  subs : List Sub := []
  count : Nat := 0                  -- subscriberCount
  pending : List Delivery := []
  now : Nat := 0
  nextUid : Nat := 0
  panicked : Bool := false
  -- ghost ledgers
  published : List (Nat × Nat) := []          -- (uid, msg)
  outcomes : List (Nat × Nat × Outcome) := [] -- (uid, sub, outcome)
  received : List (Nat × Nat) := []           -- (sub, msg) in receive order
  callbacks : List (Bool × Nat × Nat × Nat) := []   -- (isTimeout, sub, uid, msg)
  chCloses : List Nat := []                   -- subscriber ids, one entry per close(receiveCh)
deriving DecidableEq, Repr

inductive Act where
  -- API calls / environment
  | subscribe (cap : Nat) (filter : Filter) (timeout : Nat) (cbF cbT : Bool)
  | publish (msg : Nat)
  | receive (sub : Nat)              -- a receiver takes the head of the buffer
  | rendezvous (sub : Nat) (uid : Nat)   -- unbuffered / empty buffer: a receiver meets a blocked sender directly
  | closeSub (sub : Nat)             -- Subscriber.Close: the part up to close(done)
  | closePub                         -- Publication.Close: likewise for every registered subscriber
  | tick
  -- internal steps
  | acquireR (uid sub : Nat)         -- delivery takes the read lock (or sees `done` and gives up)
  | deliver (uid sub : Nat)          -- send into the buffer
  | timeout (uid sub : Nat)
  | cancel (uid sub : Nat)           -- `<-done` chosen
  | closeFinish (sub : Nat)          -- writer lock obtained: close(receiveCh)
deriving DecidableEq, Repr

def getSub (s : St) (id : Nat) : Option Sub := s.subs.find? (·.id == id)
def updSub (s : St) (id : Nat) (f : Sub → Sub) : St :=
  { s with subs := s.subs.map (fun x => if x.id == id then f x else x) }
def findDel (s : St) (uid sub : Nat) : Option Delivery := s.pending.find? (fun d => d.uid == uid && d.sub == sub)
def dropDel (s : St) (uid sub : Nat) : St :=
  { s with pending := s.pending.filter (fun d => !(d.uid == uid && d.sub == sub)) }
def holders (s : St) (sub : Nat) : List Delivery := s.pending.filter (fun d => d.sub == sub && d.stage == .holding)

/-- `closeChannel` up to and including `close(done)` (the `Once` lets only the first caller in). -/
def beginClose (s : St) (id : Nat) : St :=
  updSub s id (fun x => if x.onceStarted then x else
    { x with onceStarted := true, doneClosed := true, closedAt := some s.published.length })

def finish (s : St) (d : Delivery) (o : Outcome) : St :=
  let s := dropDel s d.uid d.sub
  { s with outcomes := s.outcomes ++ [(d.uid, d.sub, o)] }

def step? (s : St) : Act → Option St
  | .subscribe cap f t cbF cbT =>
    let id := s.count + 1
    some { s with count := id, subs := s.subs ++ [{ id := id, cap := cap, filter := f, timeout := t, cbFiltered := cbF, cbTimeout := cbT,
                                                        subAt := s.published.length }] }
  | .publish msg =>
    let uid := s.nextUid
    let go (acc : St) (x : Sub) : St :=
      if !x.registered then acc
      else if x.filter.accepts msg then
        { acc with pending := acc.pending ++ [{ uid := uid, msg := msg, sub := x.id, stage := .spawned, deadline := 0 }] }
      else
        { acc with outcomes := acc.outcomes ++ [(uid, x.id, .filtered)],
                   callbacks := if x.cbFiltered then acc.callbacks ++ [(false, x.id, uid, msg)] else acc.callbacks }
    some (s.subs.foldl go { s with nextUid := uid + 1, published := s.published ++ [(uid, msg)] })
  | .acquireR uid sub =>
    match findDel s uid sub, getSub s sub with
    | some d, some x =>
      if d.stage != .spawned then none
      -- a waiting writer blocks new readers
      else if x.onceStarted && !x.chClosed then none
      else if x.doneClosed then some (finish s d .cancelled)
      else some { s with pending := s.pending.map (fun e => if e.uid == uid && e.sub == sub then { e with stage := .holding, deadline := s.now + x.timeout } else e) }
    | _, _ => none
  | .deliver uid sub =>
    match findDel s uid sub, getSub s sub with
    | some d, some x =>
      if d.stage != .holding then none
      else if x.chClosed then some { s with panicked := true }   -- send on closed channel
      else if x.buf.length < x.cap then
        some (finish (updSub s sub (fun y => { y with buf := y.buf ++ [d.msg] })) d .sent)
      else none
    | _, _ => none
  | .rendezvous sub uid =>
    match findDel s uid sub, getSub s sub with
    | some d, some x =>
      if d.stage != .holding || x.chClosed || !x.buf.isEmpty then none
      else some { finish s d .sent with received := s.received ++ [(sub, d.msg)] }
    | _, _ => none
  | .receive sub =>
    match getSub s sub with
    | some x =>
      match x.buf with
      | m :: rest => some { updSub s sub (fun y => { y with buf := rest }) with received := s.received ++ [(sub, m)] }
      | [] => none
    | none => none
  | .timeout uid sub =>
    match findDel s uid sub, getSub s sub with
    | some d, some x =>
      if d.stage == .holding && d.deadline ≤ s.now then
        let s' := finish s d .timedOut
        some { s' with callbacks := if x.cbTimeout then s'.callbacks ++ [(true, sub, uid, d.msg)] else s'.callbacks }
      else none
    | _, _ => none
  | .cancel uid sub =>
    match findDel s uid sub, getSub s sub with
    | some d, some x => if d.stage == .holding && x.doneClosed then some (finish s d .cancelled) else none
    | _, _ => none
  | .closeSub sub =>
    match getSub s sub with
    | some x => if x.registered then some (beginClose s sub) else some s
    | none => some s
  | .closePub => some (s.subs.foldl (fun acc x => if x.registered then beginClose acc x.id else acc) s)
  | .closeFinish sub =>
    match getSub s sub with
    | some x =>
      if x.onceStarted && !x.chClosed && (holders s sub).isEmpty then
        some { updSub s sub (fun y => { y with chClosed := true, registered := false }) with chCloses := s.chCloses ++ [sub] }
      else none
    | none => none
  | .tick => some { s with now := s.now + 1 }

def internalActs (s : St) : List Act :=
  let cands : List Act :=
    s.pending.flatMap (fun d => [Act.acquireR d.uid d.sub, .deliver d.uid d.sub, .timeout d.uid d.sub, .cancel d.uid d.sub]) ++
    s.subs.map (fun x => Act.closeFinish x.id)
  cands.filter (fun a => (step? s a).isSome)

def isInternal : Act → Bool
  | .acquireR _ _ | .deliver _ _ | .timeout _ _ | .cancel _ _ | .closeFinish _ => true
  | _ => false

def init : St := {}

inductive Reach : St → Prop where
  | init : Reach init
  | step {s s' : St} (a : Act) : Reach s → step? s a = some s' → Reach s'

/-- no internal step is enabled. -/
def quiescent (s : St) : Prop := internalActs s = []

def runActs : St → List Act → Option St
  | s, [] => some s
  | s, a :: r => match step? s a with | some s' => runActs s' r | none => none

/-! ### the pinned close (for the witness): `close(receiveCh)` at once, no hand-shake -/

def closeSubPinned (s : St) (sub : Nat) : St :=
  match getSub s sub with
  | some x =>
    if x.registered then
      if x.chClosed then { s with panicked := true }     -- close of closed channel
      else { updSub s sub (fun y => { y with chClosed := true, registered := false, onceStarted := true }) with chCloses := s.chCloses ++ [sub] }
    else s
  | none => s

end TV.Publisher
