/-
Transcription of Go's `container/heap` (go1.23 src/container/heap/heap.go) over a list that
stands for the slice behind a `heap.Interface` whose `Swap` exchanges two elements and whose
`Less(i, j)` is `less a[i] a[j]`.  Core-only.

Loops become recursion on a fuel argument; `length` is always enough fuel (proved in
TV/Proofs/GoHeap.lean), so termination of `up`/`down` is a theorem, not an assumption.
-/
namespace TV.GoHeap

variable {α : Type}

/-- `h.Swap(i, j)`; out-of-range indices (a Go panic) leave the list unchanged — the callers
    below only ever pass in-range indices (a lemma). -/
def swap (l : List α) (i j : Nat) : List α :=
  match l[i]?, l[j]? with
  | some a, some b => (l.set i b).set j a
  | _, _ => l

/-- `h.Less(i, j)` -/
def lessAt (less : α → α → Bool) (l : List α) (i j : Nat) : Bool :=
  match l[i]?, l[j]? with
  | some a, some b => less a b
  | _, _ => false

/-- `up(h, j)`:  for { i := (j-1)/2; if i == j || !h.Less(j, i) { break }; h.Swap(i, j); j = i } -/
def up (less : α → α → Bool) : Nat → List α → Nat → List α
  | 0, l, _ => l
  | fuel + 1, l, j =>
    let i := (j - 1) / 2          -- Go: (0-1)/2 == 0, and Nat subtraction gives the same
    if i == j || !lessAt less l j i then l
    else up less fuel (swap l i j) i

/-- `down(h, i0, n)`; returns the list and the final index (Go returns `i > i0`). -/
def down (less : α → α → Bool) : Nat → List α → Nat → Nat → List α × Nat
  | 0, l, i, _ => (l, i)
  | fuel + 1, l, i, n =>
    let j1 := 2 * i + 1
    if j1 ≥ n then (l, i)
    else
      let j := if j1 + 1 < n && lessAt less l (j1 + 1) j1 then j1 + 1 else j1
      if !lessAt less l j i then (l, i)
      else down less fuel (swap l i j) j n

/-- `heap.Init`: for i := n/2 - 1; i >= 0; i-- { down(h, i, n) } -/
def initLoop (less : α → α → Bool) : Nat → List α → List α
  | 0, l => l
  | k + 1, l => initLoop less k (down less l.length l k l.length).1

def init (less : α → α → Bool) (l : List α) : List α := initLoop less (l.length / 2) l

/-- `heap.Push(h, x)`: h.Push(x) (append); up(h, h.Len()-1) -/
def push (less : α → α → Bool) (l : List α) (x : α) : List α :=
  let l' := l ++ [x]
  up less l'.length l' (l'.length - 1)

/-- `heap.Pop(h)`: n := h.Len()-1; h.Swap(0, n); down(h, 0, n); return h.Pop() (remove last).
    `none` on an empty heap (Go: index out of range panic). -/
def pop (less : α → α → Bool) (l : List α) : Option (α × List α) :=
  if l.isEmpty then none else
  let n := l.length - 1
  let l1 := swap l 0 n
  let l2 := (down less l1.length l1 0 n).1
  match l2.getLast? with
  | some x => some (x, l2.dropLast)
  | none => none

/-- `heap.Remove(h, i)`: n := h.Len()-1; if n != i { h.Swap(i, n); if !down(h, i, n) { up(h, i) } }; return h.Pop() -/
def remove (less : α → α → Bool) (l : List α) (i : Nat) : Option (α × List α) :=
  if i ≥ l.length then none else
  let n := l.length - 1
  let l2 :=
    if n != i then
      let l1 := swap l i n
      let (ld, i') := down less l1.length l1 i n
      if i' > i then ld else up less ld.length ld i
    else l
  match l2.getLast? with
  | some x => some (x, l2.dropLast)
  | none => none

/-- `heap.Fix(h, i)`: if !down(h, i, h.Len()) { up(h, i) } -/
def fix (less : α → α → Bool) (l : List α) (i : Nat) : List α :=
  let (ld, i') := down less l.length l i l.length
  if i' > i then ld else up less ld.length ld i

/-- the heap property `container/heap` maintains: no element is less than its parent. -/
def IsHeap (less : α → α → Bool) (l : List α) : Prop :=
  ∀ i, 0 < i → i < l.length → lessAt less l i ((i - 1) / 2) = false

end TV.GoHeap
