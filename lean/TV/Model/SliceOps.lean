/-
Model of /repo/sliceOps/sliceOps.go (core-only; linked into the driver).

A Go slice is a window `len` onto a backing array `arr` (`arr.length` = capacity seen from
the slice's start).  The in-place functions are written the way the Go code is: `copy`
(memmove), a zeroing loop, a reslice.  The set functions keep the accumulate-into-a-map
structure, a Go map being an association list with unique keys.
-/
namespace TV.SliceOps

variable {α : Type} [DecidableEq α] [Inhabited α]

/-- A Go slice header together with the part of the backing array it can reach. -/
structure Slice (α : Type) where
  arr : List α
  len : Nat
deriving Repr, DecidableEq

def Slice.wf (s : Slice α) : Prop := s.len ≤ s.arr.length
def Slice.visible (s : Slice α) : List α := s.arr.take s.len

/-- Go `copy(a[i:n], a[j:n])` on one array (memmove semantics): `n - j` elements move from `j` to `i`. -/
def copyWithin (a : List α) (i j n : Nat) : List α :=
  a.take i ++ (a.drop j).take (n - j) ++ a.drop (i + (n - j))

/-- `for k := lo; k < hi; k++ { a[k] = zero }` -/
def zeroRange : List α → Nat → Nat → List α
  | a, lo, hi => a.take lo ++ List.replicate (hi - lo) default ++ a.drop hi

/-- `Remove(s, i, j)`; Go panics unless `i ≤ j ≤ len` (guard made explicit: `none` = panic). -/
def remove (s : Slice α) (i j : Nat) : Option (Slice α) :=
  if i ≤ j ∧ j ≤ s.len ∧ s.len ≤ s.arr.length then
    let n := s.len
    let a1 := copyWithin s.arr i j n
    let a2 := zeroRange a1 (n - j + i) n
    some { arr := a2, len := n - j + i }
  else none

/-- `Cut(s, i, j)`: returns the removed window (fresh) and the new slice. -/
def cut (s : Slice α) (i j : Nat) : Option (List α × Slice α) :=
  match remove s i j with
  | some s' => some ((s.visible.drop i).take (j - i), s')
  | none => none

/-- `Insert(s, i, v...)` — the result list; whether the outer `append` reuses `s`'s array
    does not change the result (Go guarantees `append`'s value either way). -/
def insert (s : List α) (i : Nat) (v : List α) : Option (List α) :=
  if i ≤ s.length then some (s.take i ++ (v ++ s.drop i)) else none

/-- The loop of `FilterInPlace`: `idx` is the read position, `i` the write position;
    the element is read from the *current* array (Go's range re-reads the backing array). -/
def filterLoop (keep : α → Bool) : Nat → List α → Nat → Nat → List α × Nat
  | 0, a, _, i => (a, i)
  | fuel + 1, a, idx, i =>
    match a[idx]? with
    | none => (a, i)
    | some e =>
      if keep e then filterLoop keep fuel (a.set i e) (idx + 1) (i + 1)
      else filterLoop keep fuel a (idx + 1) i

def filterInPlace (s : Slice α) (keep : α → Bool) : Slice α :=
  let vis := s.visible
  let (a, i) := filterLoop keep vis.length vis 0 0
  let a' := zeroRange a i vis.length
  { arr := a' ++ s.arr.drop s.len, len := i }

/-- `Push(s, v...)`: `v` is put in front, in a fresh array. -/
def push (s : List α) (v : List α) : List α := v ++ s

/-- `Pop(s)`: first element or the zero value; the slice loses its head. -/
def pop (s : Slice α) : α × Option (Slice α) :=
  if s.len = 0 then (default, some s)
  else (s.visible.headD default, remove s 0 1)

/-! ### set functions (no `Inhabited` needed) -/

/-- `Distinct`: keep first occurrences; `seen` is the Go map. -/
def distinctAux : List α → List α → List α → List α
  | [], _, acc => acc.reverse
  | x :: xs, seen, acc =>
    if x ∈ seen then distinctAux xs seen acc else distinctAux xs (x :: seen) (x :: acc)

def distinct (s : List α) : List α := distinctAux s [] []

/-- `Union`: the nested loops visit the concatenation. -/
def union (ss : List (List α)) : List α := distinctAux ss.flatten [] []

/-- increment a counter in an association list (a Go `map[T]int`). -/
def bump : List (α × Nat) → α → List (α × Nat)
  | [], x => [(x, 1)]
  | (y, n) :: rest, x => if y = x then (y, n + 1) :: rest else (y, n) :: bump rest x

/-- `Intersection` (repaired): every slice is de-duplicated before it is counted. -/
def intersection (ss : List (List α)) : List α :=
  let counts := (ss.map distinct).flatten.foldl bump []
  (counts.filter (fun p => p.2 == ss.length)).map (·.1)

/-- `Intersection` as pinned: counts occurrences, not slices. -/
def intersectionPinned (ss : List (List α)) : List α :=
  let counts := ss.flatten.foldl bump []
  (counts.filter (fun p => p.2 == ss.length)).map (·.1)

/-- `Difference` (repaired): an element is recorded once it has been emitted. -/
def differenceAux : List α → List α → List α → List α
  | [], _, acc => acc.reverse
  | x :: xs, seen, acc =>
    if x ∈ seen then differenceAux xs seen acc else differenceAux xs (x :: seen) (x :: acc)

def difference (s1 s2 : List α) : List α := differenceAux s1 s2 []

/-- `Difference` as pinned: duplicates of `s1` survive. -/
def differencePinned (s1 s2 : List α) : List α := s1.filter (fun x => !(s2.contains x))

/-- One round of `Disjoin`'s loop. -/
def disjoinStep (st : List α × List α) (s : List α) : List α × List α :=
  let (result, removed) := st
  let r1 := difference result s
  let r2 := difference s result
  let result1 := union [r1, r2]
  let removed' := removed ++ distinct (difference s result1)
  (difference result1 removed', removed')

/-- `Disjoin` (repaired): starts from `Distinct(slices[0])`. -/
def disjoin : List (List α) → List α
  | [] => []
  | s0 :: rest => (rest.foldl disjoinStep (distinct s0, [])).1

def disjoinStepPinned (st : List α × List α) (s : List α) : List α × List α :=
  let (result, removed) := st
  let r1 := differencePinned result s
  let r2 := differencePinned s result
  let result1 := union [r1, r2]
  let removed' := removed ++ distinct (differencePinned s result1)
  (differencePinned result1 removed', removed')

/-- `Disjoin` as pinned: starts from `slices[0]` itself. -/
def disjoinPinned : List (List α) → List α
  | [] => []
  | s0 :: rest => (rest.foldl disjoinStepPinned (s0, [])).1

end TV.SliceOps
