import TV.Model.LockedObject
import TV.Model.GenericStack
/-
The concurrent layer of GenericStack (repaired, F8) as a lock-protected object (core-only):
`Push` = an atomic `currentKey.Add(1)` (its own step, outside the mutex) followed by one write
section `heap.Push`; `Pop`, `Peek`, `Len`, `Values` = one section each (emptiness test and length
read inside the section).
-/
namespace TV.StackConc
open TV.LockedObject TV.GenericStack TV.GoHeap

inductive Op where
  | push (v : Nat) | pop | peek (id : Nat) | len | values
deriving DecidableEq

inductive Ret where
  | id (n : Nat) | popped (v : Option Nat) | found (v : Option Nat) | nat (n : Nat) | vals (l : List Nat)
deriving DecidableEq

/-- sections of the repaired GenericStack. `loc` carries the id fetched by `Push`. -/
def impl : Impl (Stack Nat) Op Ret Nat where
  loc0 := 0
  sect s op pc loc :=
    match op, pc with
    | .push _, 0 => ({ s with next := s.next + 1 }, .next 1 (s.next + 1))          -- currentKey.Add(1)
    | .push v, _ => ({ s with entries := GoHeap.push lessId s.entries (loc, v) }, .done (.id loc))
    | .pop, _ => match GoHeap.pop lessId s.entries with
      | some (e, rest) => ({ s with entries := rest }, .done (.popped (some e.2)))
      | none => (s, .done (.popped none))
    | .peek id, _ => (s, .done (.found ((s.entries.find? (·.1 == id)).map (·.2))))
    | .len, _ => (s, .done (.nat s.entries.length))
    | .values, _ => (s, .done (.vals ((sortById s.entries).map (·.2))))

/-- pinned `Pop`: the emptiness test is a section of its own, *before* the lock; the locked section
    then pops unconditionally (`none` from `GoHeap.pop` = index out of range panic). -/
def implPinned : Impl (Stack Nat × Bool) Op Ret Nat where
  loc0 := 0
  sect sp op pc loc :=
    let s := sp.1
    match op, pc with
    | .pop, 0 => if s.entries.length = 0 then (sp, .done (.popped none)) else (sp, .next 1 0)
    | .pop, _ => match GoHeap.pop lessId s.entries with
      | some (e, rest) => (({ s with entries := rest }, sp.2), .done (.popped (some e.2)))
      | none => ((s, true), .done (.popped none))                                  -- panicked
    | .push _, 0 => (({ s with next := s.next + 1 }, sp.2), .next 1 (s.next + 1))
    | .push v, _ => (({ s with entries := GoHeap.push lessId s.entries (loc, v) }, sp.2), .done (.id loc))
    | _, _ => (sp, .done (.nat 0))

def pushedVals : List (LinEntry Op Ret) → List Nat
  | [] => []
  | e :: r => (match e.op with | .push v => [v] | _ => []) ++ pushedVals r

def poppedVals : List (LinEntry Op Ret) → List Nat
  | [] => []
  | e :: r => (match e.r with | .popped (some v) => [v] | _ => []) ++ poppedVals r

def pushedIds : List (LinEntry Op Ret) → List Nat
  | [] => []
  | e :: r => (match e.r with | .id n => [n] | _ => []) ++ pushedIds r

end TV.StackConc
