/-! Data types of the regenerated shape facts (see harness/cmd/shapegen). Core-only. -/
namespace TV.Shape

/-- lock mode held at an access: none, read, write. -/
inductive Mode where | N | R | W
deriving DecidableEq, Repr

/-- `read`/`write` of a tracked field; `call` of a method on a tracked field (`field.Method`);
    `self` call of a method on the same receiver; `spawn` = `go recv.Method()`; `send` = channel send on a tracked field. -/
inductive Kind where | read | write | call | self | spawn | send
deriving DecidableEq, Repr

structure Access where
  mode : Mode
  kind : Kind
  target : String
deriving DecidableEq, Repr

structure FnShape where
  name : String
  exported : Bool
  sections : List (List Access)
deriving DecidableEq, Repr

/-- every access of every function satisfies `ok`. -/
def allAccesses (fs : List FnShape) (ok : FnShape → Access → Bool) : Bool :=
  fs.all fun f => f.sections.all fun s => s.all (ok f)

def find (fs : List FnShape) (n : String) : Option FnShape := fs.find? (·.name == n)

/-- the lock modes of a function's sections. -/
def modesOf (f : FnShape) : List Mode := f.sections.map fun s => (s.head?.map (·.mode)).getD .N

def names (fs : List FnShape) : List String := fs.map (·.name)

end TV.Shape
