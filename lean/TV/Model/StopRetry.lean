/-
Model of repeated `Server.Stop` calls on web providers (core-only; linked into the driver).

`Server.Stop(ctx)` walks the providers and calls `http.Server.Shutdown(ctx)` on each.  `Shutdown` closes the listeners
(so no new request arrives after the first call), returns nil at once when no request is running, returns the context's
error when the context is done — the requests keep running, nothing is cut off — and otherwise waits.  Nothing in
`Server` remembers an earlier call: a later `Stop` does the same walk again.  The state records what every finished
call returned and how many requests were still running at that moment (ghost).
-/
namespace TV.StopRetry

structure St where
  n : Nat                                          -- providers
  inflight : Nat → Nat                             -- requests still running on provider i
  stopping : Option (Nat × Bool × Bool) := none    -- a Stop call in progress: next provider, context ample, error so far
  returned : List (Bool × Bool × Nat) := []        -- finished calls, newest first: (ample, error, requests running at return)

/-- requests still running, all providers together. -/
def running (s : St) : Nat := ((List.range s.n).map s.inflight).sum

inductive Act where
  | stopCall (ample : Bool)     -- Server.Stop(ctx) begins
  | provStop                    -- the call moves on: provider.Stop(ctx) returns, or (after the last provider) Stop returns
  | finishReq (i : Nat)         -- a running request on provider i completes
deriving DecidableEq, Repr

def step? (s : St) : Act → Option St
  | .stopCall a => if s.stopping.isNone then some { s with stopping := some (0, a, false) } else none
  | .provStop =>
    match s.stopping with
    | none => none
    | some (k, a, e) =>
      if k < s.n then
        if s.inflight k = 0 then some { s with stopping := some (k + 1, a, e) }
        else if a = false then some { s with stopping := some (k + 1, a, true) }   -- ctx done: Shutdown gives up, requests keep running
        else none                                                                    -- Shutdown(ctx) waits
      else some { s with stopping := none, returned := (a, e, running s) :: s.returned }
  | .finishReq i =>
    if i < s.n ∧ 0 < s.inflight i then
      some { s with inflight := fun j => if j = i then s.inflight j - 1 else s.inflight j }
    else none

def init (n : Nat) (f : Nat → Nat) : St := { n := n, inflight := f }

inductive Reach (n : Nat) (f : Nat → Nat) : St → Prop where
  | init : Reach n f (init n f)
  | step {s s' : St} (a : Act) : Reach n f s → step? s a = some s' → Reach n f s'

def runActs : St → List Act → Option St
  | s, [] => some s
  | s, a :: r => match step? s a with | some s' => runActs s' r | none => none

end TV.StopRetry
