import TV.Model.LockedObject
/-
An executable linearizability decision procedure for *recorded* concurrent histories (core-only):
every operation carries the stamps of its call and of its return, taken from one global atomic
counter.  The search is exhaustive over all orders compatible with real time — a definition by
finite enumeration, not a heuristic.  Used by the driver on histories recorded from the real code.
-/
namespace TV.LinCheck

structure Rec (Op Ret : Type) where
  t : Nat
  op : Op
  r : Ret
  c : Nat      -- call stamp
  e : Nat      -- return stamp (c < e)

variable {σ Op Ret : Type} [DecidableEq Ret]

def removeNth : List α → Nat → List α
  | [], _ => []
  | _ :: xs, 0 => xs
  | x :: xs, n + 1 => x :: removeNth xs n

/-- `o` may be linearized first among `rem`: nobody in `rem` returned before `o` was called. -/
def minimal (rem : List (Rec Op Ret)) (o : Rec Op Ret) : Bool := rem.all (fun o' => !(o'.e < o.c))

def search (apply : σ → Op → σ × Ret) : Nat → σ → List (Rec Op Ret) → Bool
  | 0, _, rem => rem.isEmpty
  | fuel + 1, s, rem =>
    rem.isEmpty ||
    (List.range rem.length).any fun i =>
      match rem[i]? with
      | some o =>
        minimal rem o && (apply s o.op).2 == o.r && search apply fuel (apply s o.op).1 (removeNth rem i)
      | none => false

def linCheck (apply : σ → Op → σ × Ret) (s0 : σ) (h : List (Rec Op Ret)) : Bool := search apply h.length s0 h

end TV.LinCheck
