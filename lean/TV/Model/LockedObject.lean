/-
Lock-protected objects as labelled transition systems (core-only).

An object has a sequential specification `apply : σ → Op → σ × Ret`.  Its implementation runs
every method as a sequence of *sections*; a section is what the code does while it holds the
object's lock once (justified by the regenerated shape facts: every access to the shared fields
sits inside such a section).  Any number of threads interleave their sections arbitrarily.

A section either *completes* the call with a return value, or *falls through* to the next section
carrying a thread-local value.
-/
namespace TV.LockedObject

inductive Res (Ret Loc : Type) where
  | done (r : Ret)
  | next (pc : Nat) (loc : Loc)

/-- implementation of one object: `sect σ op pc loc` = what the `pc`-th section of `op` does. -/
structure Impl (σ Op Ret Loc : Type) where
  sect : σ → Op → Nat → Loc → σ × Res Ret Loc
  loc0 : Loc

/-- status of a thread (`cpos` = position of its call event in the history, `li` = index of its
    entry in the linearization ledger). -/
inductive TStat (Op Ret Loc : Type) where
  | idle
  | running (op : Op) (pc : Nat) (loc : Loc) (cpos : Nat)
  | finished (op : Op) (r : Ret) (li : Nat)

/-- events visible to the client. -/
inductive Ev (Op Ret : Type) where
  | call (t : Nat) (op : Op)
  | ret (t : Nat) (r : Ret)

inductive CAct (Op : Type) where
  | call (t : Nat) (op : Op)
  | sec (t : Nat)              -- thread `t` executes its next section atomically
  | ret (t : Nat)

/-- one completed operation in the linearization ledger. -/
structure LinEntry (Op Ret : Type) where
  t : Nat
  op : Op
  r : Ret
  cpos : Nat       -- position of the call event in the history
  ltime : Nat      -- number of history events when the completing section ran

structure CSt (σ Op Ret Loc : Type) where
  shared : σ
  thr : Nat → TStat Op Ret Loc
  hist : List (Ev Op Ret)              -- client-visible history so far
  lin : List (LinEntry Op Ret)         -- ghost: completed operations, in the order their completing section ran
  retOf : List (Nat × Nat)             -- ghost: (position of a return event, index of its ledger entry)

variable {σ Op Ret Loc : Type}

def upd (f : Nat → TStat Op Ret Loc) (t : Nat) (v : TStat Op Ret Loc) : Nat → TStat Op Ret Loc :=
  fun u => if u = t then v else f u

inductive CStep (I : Impl σ Op Ret Loc) : CSt σ Op Ret Loc → CAct Op → CSt σ Op Ret Loc → Prop where
  | call (c : CSt σ Op Ret Loc) (t : Nat) (op : Op) : c.thr t = .idle →
      CStep I c (.call t op)
        { c with thr := upd c.thr t (.running op 0 I.loc0 c.hist.length), hist := c.hist ++ [.call t op] }
  | secNext (c : CSt σ Op Ret Loc) (t : Nat) (op : Op) (pc : Nat) (loc : Loc) (cpos : Nat) (s' : σ) (pc' : Nat) (loc' : Loc) :
      c.thr t = .running op pc loc cpos → I.sect c.shared op pc loc = (s', .next pc' loc') →
      CStep I c (.sec t) { c with shared := s', thr := upd c.thr t (.running op pc' loc' cpos) }
  | secDone (c : CSt σ Op Ret Loc) (t : Nat) (op : Op) (pc : Nat) (loc : Loc) (cpos : Nat) (s' : σ) (r : Ret) :
      c.thr t = .running op pc loc cpos → I.sect c.shared op pc loc = (s', .done r) →
      CStep I c (.sec t)
        { c with shared := s', thr := upd c.thr t (.finished op r c.lin.length),
                 lin := c.lin ++ [{ t := t, op := op, r := r, cpos := cpos, ltime := c.hist.length }] }
  | ret (c : CSt σ Op Ret Loc) (t : Nat) (op : Op) (r : Ret) (li : Nat) : c.thr t = .finished op r li →
      CStep I c (.ret t)
        { c with thr := upd c.thr t .idle, hist := c.hist ++ [.ret t r], retOf := c.retOf ++ [(c.hist.length, li)] }

def cinit (s0 : σ) : CSt σ Op Ret Loc :=
  { shared := s0, thr := fun _ => .idle, hist := [], lin := [], retOf := [] }

inductive CReach (I : Impl σ Op Ret Loc) (s0 : σ) : CSt σ Op Ret Loc → Prop where
  | init : CReach I s0 (cinit s0)
  | step {c c' : CSt σ Op Ret Loc} (a : CAct Op) : CReach I s0 c → CStep I c a c' → CReach I s0 c'

/-! ### linearizability -/

/-- run a sequential list of operations through the specification, checking the returns. -/
def seqOK (apply : σ → Op → σ × Ret) [DecidableEq Ret] : σ → List (Op × Ret) → Bool
  | _, [] => true
  | s, (op, r) :: rest => (apply s op).2 == r && seqOK apply (apply s op).1 rest

def seqFinal (apply : σ → Op → σ × Ret) : σ → List (Op × Ret) → σ
  | s, [] => s
  | s, (op, _) :: rest => seqFinal apply (apply s op).1 rest

/-- `h` is linearizable w.r.t. `apply` from `s0`: there is a ledger `lin` of operations, each
    tied to its call event, ordered by linearization time (which lies after the call and not after
    the return), legal for the sequential specification, such that every return event of `h` is the
    return of exactly one ledger entry.  (Operations that were called but have no ledger entry
    are pending and have not taken effect.) -/
def Linearizable (apply : σ → Op → σ × Ret) [DecidableEq Ret] (s0 : σ) (h : List (Ev Op Ret)) : Prop :=
  ∃ (lin : List (LinEntry Op Ret)) (retOf : List (Nat × Nat)),
    seqOK apply s0 (lin.map (fun e => (e.op, e.r))) = true ∧
    (∀ e ∈ lin, h[e.cpos]? = some (.call e.t e.op) ∧ e.cpos < e.ltime) ∧
    lin.Pairwise (fun a b => a.ltime ≤ b.ltime) ∧
    (lin.map (·.cpos)).Nodup ∧
    (∀ p t r, h[p]? = some (.ret t r) → ∃ i, (p, i) ∈ retOf) ∧
    (∀ q ∈ retOf, ∃ e, lin[q.2]? = some e ∧ h[q.1]? = some (.ret e.t e.r) ∧ e.ltime ≤ q.1) ∧
    (retOf.map (·.2)).Nodup

/-- the hypothesis under which an implementation is linearizable with its completing section as
    linearization point: a section that falls through leaves the shared state unchanged, and a
    section that completes does to the shared state, and returns, exactly what the specification
    does in the state it ran in. -/
structure Sound (I : Impl σ Op Ret Loc) (apply : σ → Op → σ × Ret) : Prop where
  silent : ∀ s op pc loc s' pc' loc', I.sect s op pc loc = (s', .next pc' loc') → s' = s
  complete : ∀ s op pc loc s' r, I.sect s op pc loc = (s', .done r) → apply s op = (s', r)

/-- single-section objects: every method is one critical section that is the specification. -/
def single (apply : σ → Op → σ × Ret) : Impl σ Op Ret Unit :=
  { sect := fun s op _ _ => ((apply s op).1, .done (apply s op).2), loc0 := () }

end TV.LockedObject
