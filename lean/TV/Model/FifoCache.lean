/-
Model of /repo/storage/fifoMapCache.go (core-only; linked into the driver).

* a `SafeMap` partition is an association list with unique keys (`AL`);
* the `GenericStack` of partitions is the list of live partitions in ascending id order,
  oldest first (C11 proves that the heap-backed stack refines exactly this);
* every public method is one atomic `step` (the repaired cache holds one cache-wide lock per
  method, C08); the asynchronous `go f.Sweep()` and the ticker are the explicit `sweep` op —
  theorems quantify over all op lists, hence over every placement of background sweeps;
* the float-based partition calculators are not modelled: their result `(n, pc)` is a
  parameter of `init` and of `resize` (validated by the harness, see C02).
-/
namespace TV.FifoCache

variable {K V : Type} [DecidableEq K] [Inhabited V]

/-! ### association lists (Go maps) -/

abbrev AL (K V : Type) := List (K × V)

def alGet? : AL K V → K → Option V
  | [], _ => none
  | (k', v) :: r, k => if k' = k then some v else alGet? r k

def alHas (m : AL K V) (k : K) : Bool := (alGet? m k).isSome

/-- `m[k] = v`: replace in place, or append. -/
def alSet : AL K V → K → V → AL K V
  | [], k, v => [(k, v)]
  | (k', v') :: r, k, v => if k' = k then (k, v) :: r else (k', v') :: alSet r k v

def alErase : AL K V → K → AL K V
  | [], _ => []
  | (k', v') :: r, k => if k' = k then r else (k', v') :: alErase r k

def alKeys (m : AL K V) : List K := m.map (·.1)
def alVals (m : AL K V) : List V := m.map (·.2)

/-! ### the cache -/

/-- one partition: its stack id and its SafeMap. -/
structure Part (K V : Type) where
  id : Nat
  kv : AL K V
deriving Repr

structure Cache (K V : Type) where
  parts  : List (Part K V)   -- GenericStack content, ascending id = oldest first
  nextId : Nat               -- GenericStack.currentKey
  cur    : Nat               -- currentPartitionId (0 = none yet)
  index  : AL K Nat          -- valuePartitionIndex
  n      : Nat               -- maxPartitions
  pc     : Nat               -- partitionCapacity
deriving Repr

def init (n pc : Nat) : Cache K V :=
  { parts := [], nextId := 0, cur := 0, index := [], n := n, pc := pc }

/-- `GenericStack.Peek(id)` -/
def peek : List (Part K V) → Nat → Option (Part K V)
  | [], _ => none
  | p :: r, id => if p.id = id then some p else peek r id

/-- apply `f` to the map of the partition with this id. -/
def updPart : List (Part K V) → Nat → (AL K V → AL K V) → List (Part K V)
  | [], _, _ => []
  | p :: r, id, f => if p.id = id then { p with kv := f p.kv } :: r else p :: updPart r id f

/-- the live partition the index points to for `k` (the common prefix of Get/Contains/Set/Delete). -/
def livePart (c : Cache K V) (k : K) : Option (Part K V) :=
  match alGet? c.index k with
  | some pid => if 0 < pid then peek c.parts pid else none
  | none => none

def get (c : Cache K V) (k : K) : V :=
  match livePart c k with
  | some p => (alGet? p.kv k).getD default
  | none => default

def contains (c : Cache K V) (k : K) : Bool :=
  match livePart c k with
  | some p => alHas p.kv k
  | none => false

def capacity (c : Cache K V) : Nat := c.n * c.pc

/-- push a fresh empty partition and make it current. -/
def openPart (c : Cache K V) : Cache K V :=
  { c with parts := c.parts ++ [⟨c.nextId + 1, []⟩], nextId := c.nextId + 1, cur := c.nextId + 1 }

/-- `getCurrentPartition`: the current partition if it exists and has room, else a fresh one. -/
def curPart (c : Cache K V) : Cache K V :=
  match peek c.parts c.cur with
  | some p => if p.kv.length < c.pc then c else openPart c
  | none => openPart c

def set (c : Cache K V) (k : K) (v : V) : Cache K V :=
  match livePart c k with
  | some p => { c with parts := updPart c.parts p.id (fun m => alSet m k v) }
  | none =>
    let c' := curPart c
    { c' with parts := updPart c'.parts c'.cur (fun m => alSet m k v),
              index := alSet c'.index k c'.cur }

/-- `Delete` (repaired, F1): the key leaves its partition *and* the index. -/
def delete (c : Cache K V) (k : K) : Cache K V :=
  match alGet? c.index k with
  | some pid =>
    if 0 < pid then
      { c with parts := updPart c.parts pid (fun m => alErase m k), index := alErase c.index k }
    else c
  | none => c

/-- `Delete` as pinned: the index entry stays behind. -/
def deletePinned (c : Cache K V) (k : K) : Cache K V :=
  match alGet? c.index k with
  | some pid => if 0 < pid then { c with parts := updPart c.parts pid (fun m => alErase m k) } else c
  | none => c

/-- `Sweep`: pop the oldest partitions beyond `n`. -/
def sweep (c : Cache K V) : Cache K V :=
  { c with parts := c.parts.drop (c.parts.length - c.n) }

def keys (c : Cache K V) : List K := c.parts.flatMap (fun p => alKeys p.kv)
def values (c : Cache K V) : List V := c.parts.flatMap (fun p => alVals p.kv)
def len (c : Cache K V) : Nat := (keys c).length

/-- the state `Clear` and `Resize` start from: a new stack with one empty partition. -/
def fresh (n pc : Nat) : Cache K V :=
  { parts := [⟨1, []⟩], nextId := 1, cur := 1, index := [], n := n, pc := pc }

def clear (c : Cache K V) : Cache K V := fresh c.n c.pc

/-- replay one old partition (keys in the order the Go map iteration produced), then sweep. -/
def replayPart (old : Cache K V) (c : Cache K V) (ks : List K) : Cache K V :=
  sweep (ks.foldl (fun c k => set c k (get old k)) c)

/-- `Resize` (repaired, F2): `(n', pc')` come from the configured calculator; `order` lists, for
    each old partition oldest first, its keys in the order the replay visited them. -/
def resize (c : Cache K V) (n' pc' : Nat) (order : List (List K)) : Cache K V :=
  if n' ≠ c.n ∨ pc' ≠ c.pc then
    order.foldl (replayPart c) (fresh n' pc')
  else c

/-- `order` is a legal replay order for `c`: one block per old partition, oldest first, each a
    permutation of that partition's keys. -/
def validOrderL : List (Part K V) → List (List K) → Prop
  | [], [] => True
  | p :: ps, ks :: r => ks.Perm (alKeys p.kv) ∧ validOrderL ps r
  | _, _ => False

def validOrder (c : Cache K V) (order : List (List K)) : Prop := validOrderL c.parts order

/-! ### operations and observations -/

inductive Op (K V : Type) where
  | set (k : K) (v : V) | get (k : K) | contains (k : K) | delete (k : K)
  | len | keys | values | capacity | sweep | clear
  | resize (n' pc' : Nat) (order : List (List K))

inductive Out (K V : Type) where
  | unit | val (v : V) | bool (b : Bool) | nat (n : Nat) | keys (ks : List K) | vals (vs : List V)
deriving DecidableEq

def step (c : Cache K V) : Op K V → Cache K V × Out K V
  | .set k v => (set c k v, .unit)
  | .get k => (c, .val (get c k))
  | .contains k => (c, .bool (contains c k))
  | .delete k => (delete c k, .unit)
  | .len => (c, .nat (len c))
  | .keys => (c, .keys (keys c))
  | .values => (c, .vals (values c))
  | .capacity => (c, .nat (capacity c))
  | .sweep => (sweep c, .unit)
  | .clear => (clear c, .unit)
  | .resize n' pc' o => (resize c n' pc' o, .unit)

def run (c : Cache K V) (ops : List (Op K V)) : Cache K V := ops.foldl (fun c o => (step c o).1) c

/-- outputs of a run, in order. -/
def outs : Cache K V → List (Op K V) → List (Out K V)
  | _, [] => []
  | c, o :: r => (step c o).2 :: outs (step c o).1 r

/-- a legal argument for `op` in state `c` (what the real code can produce): `Resize` gets
    `1 ≤ n'`, `1 ≤ pc'` from its calculator and replays a valid order. -/
def opOK (c : Cache K V) : Op K V → Prop
  | .resize n' pc' o => 1 ≤ n' ∧ 1 ≤ pc' ∧ validOrder c o
  | _ => True

/-- every op of the history is legal in the state it is applied to. -/
def OpsOK : Cache K V → List (Op K V) → Prop
  | _, [] => True
  | c, o :: r => opOK c o ∧ OpsOK (step c o).1 r

/-- the last write to `k` in a history: `none` = never written, `some none` = deleted or
    cleared last, `some (some v)` = `Set(k, v)` last. -/
def lastWriteStep (acc : Option (Option V)) (k : K) : Op K V → Option (Option V)
  | .set k' v => if k' = k then some (some v) else acc
  | .delete k' => if k' = k then some none else acc
  | .clear => some none
  | _ => acc

def lastWrite (ops : List (Op K V)) (k : K) : Option (Option V) :=
  ops.foldl (fun acc o => lastWriteStep acc k o) none

/-- the pinned variant of `step` (only `delete` differs), for the witnesses. -/
def stepPinned (c : Cache K V) : Op K V → Cache K V
  | .delete k => deletePinned c k
  | o => (step c o).1

def runPinned (c : Cache K V) (ops : List (Op K V)) : Cache K V := ops.foldl stepPinned c

/-! ### ghost instrumentation for the FIFO clauses (C03, C13)

`stamps k = (t, pid)`: `k` was last *inserted* (set while absent) at logical time `t`, into
partition `pid`; the entry is erased when `k` is deleted and when the cache is cleared.
Ghost fields never influence the real ones (`gstep_erase`). -/

structure GCache (K V : Type) where
  c : Cache K V
  stamps : AL K (Nat × Nat)
  clock : Nat
  ins : Nat        -- insertions since the last clear/new

def ginit (n pc : Nat) : GCache K V := { c := init n pc, stamps := [], clock := 0, ins := 0 }

def gset (g : GCache K V) (k : K) (v : V) : GCache K V :=
  if contains g.c k then { g with c := set g.c k v }
  else
    let c' := set g.c k v
    { c := c', stamps := alSet g.stamps k (g.clock, (alGet? c'.index k).getD 0),
      clock := g.clock + 1, ins := g.ins + 1 }

def gsweep (g : GCache K V) : GCache K V := { g with c := sweep g.c }

/-- ghost version of `resize`: the replayed keys are (re)stamped in replay order. -/
def gresize (g : GCache K V) (n' pc' : Nat) (order : List (List K)) : GCache K V :=
  if n' ≠ g.c.n ∨ pc' ≠ g.c.pc then
    order.foldl (fun g' ks => gsweep (ks.foldl (fun g'' k => gset g'' k (get g.c k)) g'))
      { c := fresh n' pc', stamps := [], clock := g.clock, ins := 0 }
  else g

def gstep (g : GCache K V) : Op K V → GCache K V
  | .set k v => gset g k v
  | .delete k => { g with c := delete g.c k, stamps := alErase g.stamps k }
  | .sweep => gsweep g
  | .clear => { g with c := clear g.c, stamps := [], ins := 0 }
  | .resize n' pc' o => gresize g n' pc' o
  | _ => g

def grun (g : GCache K V) (ops : List (Op K V)) : GCache K V := ops.foldl gstep g

end TV.FifoCache
