import TV.Model.LockedObject
import TV.Model.FifoCache
/-
Models of /repo/storage/safeMap.go and /repo/generic/syncmap.go (core-only).

* the sequential specification of both is an ordinary map (association list with unique keys);
* `SafeMap`'s methods are given as section tables (what runs under one acquisition of `mux`);
  the tables are tied to the source by the regenerated shape facts (TV/Generated/Shape.lean);
* `SyncMap` delegates to `sync.Map` (trusted: linearizable, documented semantics) through Go's
  boxing `V → any` and a conversion back; the conversion is what this file models.
-/
namespace TV.SafeMap
open TV.FifoCache TV.LockedObject

variable {K V : Type} [DecidableEq K] [DecidableEq V] [Inhabited V]

inductive Op (K V : Type) where
  | contains (k : K) | get (k : K) | getOrAdd (k : K) (v : V) | set (k : K) (v : V) | delete (k : K)
  | clear | has (k : K) | len | keys | values | copyToMap
  -- the sync.Map vocabulary
  | load (k : K) | store (k : K) (v : V) | swap (k : K) (v : V) | loadOrStore (k : K) (v : V)
  | loadAndDelete (k : K) | compareAndDelete (k : K) (old : V) | compareAndSwap (k : K) (old new : V)
deriving DecidableEq

inductive Ret (K V : Type) where
  | unit | bool (b : Bool) | val (v : V) | valOk (v : V) (ok : Bool) | nat (n : Nat)
  | keys (ks : List K) | vals (vs : List V) | map (m : List (K × V))
deriving DecidableEq

/-- the ordinary-map specification. A miss yields the zero value (`default`) and `ok = false`. -/
def apply (m : AL K V) : Op K V → AL K V × Ret K V
  | .contains k => (m, .bool (alHas m k))
  | .has k => (m, .bool (alHas m k))
  | .get k => (m, .val ((alGet? m k).getD default))
  | .getOrAdd k v => match alGet? m k with
    | some x => (m, .val x)
    | none => (alSet m k v, .val v)
  | .set k v => (alSet m k v, .unit)
  | .delete k => (alErase m k, .unit)
  | .clear => ([], .unit)
  | .len => (m, .nat m.length)
  | .keys => (m, .keys (alKeys m))
  | .values => (m, .vals (alVals m))
  | .copyToMap => (m, .map m)
  | .load k => (m, match alGet? m k with | some x => .valOk x true | none => .valOk default false)
  | .store k v => (alSet m k v, .unit)
  | .swap k v => (alSet m k v, match alGet? m k with | some x => .valOk x true | none => .valOk default false)
  | .loadOrStore k v => match alGet? m k with
    | some x => (m, .valOk x true)
    | none => (alSet m k v, .valOk v false)
  | .loadAndDelete k => (alErase m k, match alGet? m k with | some x => .valOk x true | none => .valOk default false)
  | .compareAndDelete k old => if alGet? m k = some old then (alErase m k, .bool true) else (m, .bool false)
  | .compareAndSwap k old new => if alGet? m k = some old then (alSet m k new, .bool true) else (m, .bool false)

/-- `SafeMap` (repaired, F6): every method is one section of `mux`, except `GetOrAdd` =
    a read-locked lookup that completes on a hit, then a write-locked re-check-and-insert. -/
def impl : Impl (AL K V) (Op K V) (Ret K V) Unit where
  loc0 := ()
  sect m op pc _ :=
    match op, pc with
    | .getOrAdd k _, 0 => match alGet? m k with
      | some x => (m, .done (.val x))
      | none => (m, .next 1 ())
    | op, _ => let (m', r) := apply m op; (m', .done r)

/-- `SafeMap.GetOrAdd` as pinned: `Has` (section 0), then `Get` (section 1) — which answers with
    whatever is there *later* — else the write-locked insert (section 2). -/
def implPinned : Impl (AL K V) (Op K V) (Ret K V) Unit where
  loc0 := ()
  sect m op pc _ :=
    match op, pc with
    | .getOrAdd k _, 0 => if alHas m k then (m, .next 1 ()) else (m, .next 2 ())
    | .getOrAdd k _, 1 => (m, .done (.val ((alGet? m k).getD default)))
    | op, _ => let (m', r) := apply m op; (m', .done r)

/-! ### SyncMap: boxing into `any` and back -/

/-- a value of an interface-typed `V` is either the nil interface or a concrete value. -/
inductive IVal (W : Type) where
  | nil | some (w : W)
deriving DecidableEq

/-- what `sync.Map` stores: an `any`. Storing a nil interface value stores a nil `any`. -/
inductive Any (W : Type) where
  | nilAny | boxed (w : W)
deriving DecidableEq

def box {W : Type} : IVal W → Any W
  | .nil => .nilAny
  | .some w => .boxed w

/-- the wrapper's conversion back (repaired, F7): `value, _ = v.(V)` — a nil `any` converts to the
    zero value of the interface type, i.e. the nil interface. `none` = panic. -/
def unbox {W : Type} : Any W → Option (IVal W)
  | .nilAny => some .nil
  | .boxed w => some (.some w)

/-- pinned: `v.(V)` panics on a nil `any`. -/
def unboxPinned {W : Type} : Any W → Option (IVal W)
  | .nilAny => none
  | .boxed w => some (.some w)

end TV.SafeMap
