import TV.Generated.Shape
/-!
Shape obligations for publisher/publication.go (C10): the close hand-shake the Publication model
transcribes — every send on a subscriber's channel happens while the subscriber's `sendMux` is
held for reading, the channel is closed only while it is held for writing, and nobody else
touches the channel except to hand it out (`Receive`).
-/
namespace TV.ShapeOK.Publisher
open TV.Shape TV.Generated

def disciplined (f : FnShape) (a : Access) : Bool :=
  match a.kind with
  | .send => a.mode == .R
  | .write => a.mode == .W        -- close(receiveCh)
  | .read => f.name == "Receive"  -- returning the channel to the subscriber
  | _ => false

theorem discipline : allAccesses subscriberChannel disciplined = true := by decide

/-- the three sites are present (an extractor that silently finds nothing must not pass). -/
theorem sites_present :
    subscriberChannel.map (fun f => (f.name, f.sections.map (fun s => s.map (·.kind)))) =
      [("Publish", [[.send]]), ("Receive", [[.read]]), ("closeChannel", [[.write]])] := by decide

end TV.ShapeOK.Publisher
