import TV.Generated.Shape
/-! Shape obligations for storage/genericStack.go (C11, concurrent clause). -/
namespace TV.ShapeOK.Stack
open TV.Shape TV.Generated

/-- every access to the heap-backed `stack` (including its length) holds `GenericStack.mux`;
    mutations hold it for writing. -/
def disciplined (_ : FnShape) (a : Access) : Bool :=
  match a.kind with
  | .read => a.mode != .N
  | .call => a.mode != .N
  | .write => a.mode == .W
  | .self => false
  | .spawn => false
  | .send => false

theorem discipline : allAccesses genericStack disciplined = true := by decide

/-- one section per method (the id counter is an atomic, not a tracked field). -/
theorem sections :
    genericStack.map (fun f => (f.name, modesOf f)) =
      [("Len", [.R]), ("Peek", [.R]), ("Pop", [.W]), ("Push", [.W]), ("Values", [.R])] := by decide

end TV.ShapeOK.Stack
