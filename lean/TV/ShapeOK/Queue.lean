import TV.Generated.Shape
/-! Shape obligations for workqueue/queue.go (C14): every access to `errorSubscribers` holds
    `errSubScriberMux` (for writing: it is a plain Mutex). -/
namespace TV.ShapeOK.Queue
open TV.Shape TV.Generated

def disciplined (_ : FnShape) (a : Access) : Bool :=
  match a.kind with
  | .read | .write | .call => a.mode == .W
  | _ => true

theorem discipline : allAccesses queue disciplined = true := by decide

/-- both sites are present (an extractor that silently extracts nothing must not pass). -/
theorem sites_present :
    (queue.filter (fun f => f.sections.any (fun s => s.any (fun a => a.target == "errorSubscribers")))).map (·.name) = ["Errors", "start"] := by decide

end TV.ShapeOK.Queue
