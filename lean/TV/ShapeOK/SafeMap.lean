import TV.Generated.Shape
/-!
Shape obligations for storage/safeMap.go (C07): the structural assumptions the SafeMap model is
built on, checked against the facts regenerated from the source on every run.
-/
namespace TV.ShapeOK.SafeMap
open TV.Shape TV.Generated

/-- the lock discipline: the map `m` is read under the read or write lock, written under the write
    lock only, and no method calls another (self-locking) method. -/
def disciplined (_ : FnShape) (a : Access) : Bool :=
  match a.kind with
  | .read => a.mode != .N
  | .write => a.mode == .W
  | .call => a.mode != .N
  | .self => false
  | .spawn => false
  | .send => false

theorem discipline : allAccesses safeMap disciplined = true := by decide

/-- the section table the model `TV.SafeMap.impl` encodes: every method is ONE section, except
    `GetOrAdd` = a read-locked section followed by a write-locked one. -/
theorem sections :
    safeMap.map (fun f => (f.name, modesOf f)) =
      [("Clear", [.W]), ("ClearAndResize", [.W]), ("Contains", [.R]), ("CopyToMap", [.R]), ("Delete", [.W]), ("Get", [.R]),
       ("GetOrAdd", [.R, .W]), ("Has", [.R]), ("Keys", [.R]), ("Len", [.R]), ("Set", [.W]), ("TranslateToMapOf", [.R]), ("Values", [.R])] := by decide

/-- `GetOrAdd`'s write section re-checks before it inserts (reads then writes `m`). -/
theorem getOrAdd_rechecks :
    (find safeMap "GetOrAdd").map (·.sections) =
      some [[⟨.R, .read, "m"⟩], [⟨.W, .read, "m"⟩, ⟨.W, .write, "m"⟩]] := by decide

end TV.ShapeOK.SafeMap
