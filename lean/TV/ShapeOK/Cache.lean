import TV.Generated.Shape
/-!
Shape obligations for storage/fifoMapCache.go (C08): one cache-wide RW discipline — every
exported method runs as ONE section of `currentPartitionMux` (observers for reading, mutators
for writing); unexported helpers run only inside such a section.
-/
namespace TV.ShapeOK.Cache
open TV.Shape TV.Generated

def mutatingCall (t : String) : Bool :=
  t == "partitions.Push" || t == "partitions.Pop" || t == "valuePartitionIndex.Set" || t == "valuePartitionIndex.Delete"

def isExported (n : String) : Bool := (fifoMapCache.find? (·.name == n)).any (·.exported)

/-- exported methods: fields are read under R/W, written (or mutated through a call) under W;
    an exported method calls unexported helpers only while holding the write lock and calls another
    exported (self-locking) method only while holding nothing.
    unexported helpers: never take the lock themselves (they run inside their caller's section). -/
def disciplined (f : FnShape) (a : Access) : Bool :=
  if f.exported then
    match a.kind with
    | .read => a.mode != .N
    | .write => a.mode == .W
    | .call => if mutatingCall a.target then a.mode == .W else a.mode != .N
    | .self => if isExported a.target then a.mode == .N else a.mode == .W
    | .spawn => false
    | .send => false
  else
    match a.kind with
    | .self => !(isExported a.target) && a.mode == .N
    | .spawn => isExported a.target && a.mode == .N
    | _ => a.mode == .N

theorem discipline : allAccesses fifoMapCache disciplined = true := by decide

/-- every exported method is one section of the cache-wide lock (`Len` delegates to `Keys`):
    the shape `C08_linearizable_to_C01_model` needs. -/
theorem one_section_each :
    (fifoMapCache.filter (·.exported)).map (fun f => (f.name, modesOf f)) =
      [("Capacity", [.R]), ("Clear", [.W]), ("Contains", [.R]), ("Delete", [.W]), ("Get", [.R]), ("Keys", [.R]), ("Len", [.N]),
       ("Resize", [.W]), ("Set", [.W]), ("Sweep", [.W]), ("Values", [.R])] := by decide

theorem len_delegates : (find fifoMapCache "Len").map (·.sections) = some [[⟨.N, .self, "Keys"⟩]] := by decide

end TV.ShapeOK.Cache
