import TV.Model.Publisher
import TV.Monitor.Publisher
import Driver.Proto
/-! Driver component for the Publication (C06 C10 C15): gated scripts at quiescent points, all
    interleavings of the model's internal steps explored per stimulus. -/
namespace Driver.Pub
open TV.Publisher TV.Publisher.Mon Driver

def okey (o : Nat × Nat × Outcome) : Nat := o.1 * 1000 + o.2.1
/-- the order of independent ledger entries is irrelevant: sort them so that interleavings collapse. -/
def canon (s : St) : St :=
  { s with outcomes := (s.outcomes.toArray.qsort (fun a b => okey a < okey b)).toList,
           callbacks := (s.callbacks.toArray.qsort (fun a b => (if a.1 then 1000000 else 0) + a.2.1 * 1000 + a.2.2.1 < (if b.1 then 1000000 else 0) + b.2.1 * 1000 + b.2.2.1)).toList }

/-- in *fifo* mode, of the deliveries blocked on the same subscriber only the one from the earliest Publish may
    send next: the Go runtime queues the blocked senders of a channel first-in-first-out, and the harness lets the
    deliveries of one Publish block before it issues the next operation.  A search order, not an assumption: when
    no candidate found in fifo mode matches an observation the case is replayed with every order (see `loop`). -/
def fifoActs (fifo : Bool) (s : St) (acts : List Act) : List Act :=
  if !fifo then acts else
  acts.filter fun a => match a with
    | .deliver u sub => !(acts.any fun b => match b with | .deliver u' sub' => sub' == sub && u' < u | _ => false)
    | _ => true

def quiesceAux (fifo : Bool) : Nat → List St → List St → List St → List St
  | 0, _, _, q => q
  | _ + 1, [], _, q => q
  | f + 1, s :: rest, seen, q =>
    if seen.contains s then quiesceAux fifo f rest seen q else
    let acts := fifoActs fifo s (internalActs s)
    if acts.isEmpty then quiesceAux fifo f rest (s :: seen) (s :: q)
    else
      -- partial-order reduction: taking the read lock, a timer firing, a cancellation and the end of a
      -- close commute with every other enabled internal step and never disable one (a delivery whose
      -- deadline has passed sits at a full buffer, else it would have been sent before the clock
      -- advanced), so one representative order suffices; only competing sends into a buffer branch.
      match acts.find? (fun a => match a with | .acquireR _ _ | .timeout _ _ | .cancel _ _ | .closeFinish _ => true | _ => false) with
      | some a => quiesceAux fifo f (((step? s a).toList).map canon ++ rest) (s :: seen) q
      | none => quiesceAux fifo f ((acts.filterMap (step? s)).map canon ++ rest) (s :: seen) q

def quiesce (fifo : Bool) (s : St) : List St := quiesceAux fifo 20000 [canon s] [] []

def cbKey (c : Bool × Nat × Nat) : Nat := (if c.1 then 1000000 else 0) + c.2.1 * 1000 + c.2.2
def sortCbs (l : List (Bool × Nat × Nat)) : List (Bool × Nat × Nat) :=
  (l.toArray.qsort (fun a b => cbKey a < cbKey b)).toList

def obsOf (s : St) : Obs :=
  { bufs := s.subs.map (·.buf.length),
    recvd := s.subs.map (fun x => (s.received.filter (·.1 == x.id)).map (·.2)),
    cbs := sortCbs (s.callbacks.map (fun c => (c.1, c.2.1, c.2.2.2))), pend := (s.pending.filter (·.stage == .holding)).length,
    other := (s.pending.filter (·.stage != .holding)).length, blocked := false }

def parseCbs (t : String) : Option (List (Bool × Nat × Nat)) :=
  if t == "none" then some [] else
  (t.splitOn ",").mapM fun e =>
    match e.splitOn ":" with
    | [k, s, m] => do
      let s ← s.toNat?
      let m ← m.toNat?
      some (k == "t", s, m)
    | _ => none

def parseObs (fs : List (String × String)) : Option Obs := do
  let bufs ← getList fs "bufs"
  let recvd ← (getF fs "recvd").bind (fun t => if t == "none" then some [] else (t.splitOn ";").mapM parseNatList)
  let cbs ← (getF fs "cbs").bind parseCbs
  let pend ← getNat fs "pend"
  let other ← getNat fs "other"
  return { bufs, recvd, cbs := sortCbs cbs, pend, other, blocked := getF fs "blocked" == some "1" }

def showObs (o : Obs) : String :=
  let recvd := if o.recvd.isEmpty then "none" else ";".intercalate (o.recvd.map showNatList)
  let cbs := if o.cbs.isEmpty then "none" else ",".intercalate (o.cbs.map fun (t, s, m) => s!"{if t then "t" else "f"}:{s}:{m}")
  s!"bufs={showNatList o.bufs} recvd={recvd} cbs={cbs} pend={o.pend} other={o.other}"

structure CaseSt where
  cands : List St := []
  m : MSt := {}
  dead : Bool := false
  unstable : Bool := false
  feats : List String := []
  text : String := ""
  fifo : Bool := true
  hist : List (String × String) := []

structure R where
  diffs : List String := []
  mon : List String := []
  branch : String := "?"
  model : String := ""

def advance (fifo : Bool) (cands : List St) (f : St → List St) : List St := (cands.flatMap f).flatMap (quiesce fifo) |>.eraseDups

def parseFilter : String → Filter
  | "even" => .even | "odd" => .odd | "never" => .never | _ => .none

def mkSub (fs : List (String × String)) (at_ : Nat) : SubInfo :=
  let isShort : Bool := getF fs "to" == some "short"
  let f : Filter := parseFilter ((getF fs "filter").getD "none")
  { cap := (getNat fs "cap").getD 0, filter := f, short := isShort,
    cbF := getF fs "cbf" == some "1", cbT := getF fs "cbt" == some "1", subAt := at_ }

def monAll (m : MSt) (o : Obs) : List String :=
  deliveriesOK m o ++ ledgerOK m o ++ callbacksOK m o ++ buffersOK m o ++ (if o.blocked then ["C15.publish_never_blocks"] else [])

def step (cs : CaseSt) (op obs : String) : CaseSt × R :=
  let toks := words op
  let fs := fieldsOf toks
  let ofs := fieldsOf (words obs)
  let kind := toks.headD "?"
  let crashed := obs.startsWith "crash:" || obs.startsWith "hang:" || (obs.splitOn "noquiesce").length > 1
  if crashed then
    if cs.feats.contains "crashed" then (cs, { branch := "after-crash" })
    else ({ cs with dead := true, feats := "crashed" :: cs.feats },
          { diffs := if cs.dead then [] else ["alive"], mon := ["C10.no_panic_no_deadlock", "C06.no_crash_no_hang", "C15.no_crash_no_hang"], branch := "crash", model := "alive" })
  else if cs.unstable then (cs, { branch := "timing-unstable-skipped" })
  else if getF ofs "unstable" == some "1" then ({ cs with unstable := true }, { branch := "timing-unstable-skipped" })
  else match parseObs ofs with
  | none => ({ cs with dead := true }, { diffs := ["protocol"], mon := ["protocol.unparsable"], branch := "bad" })
  | some o =>
    let got := getF ofs "got"
    -- bookkeeping of the script (model-free)
    let newSub : SubInfo := mkSub fs cs.m.pubs.length
    let m' : MSt := match kind with
      | "sub" => { cs.m with subs := cs.m.subs ++ [newSub] }
      | "pub" => { cs.m with pubs := cs.m.pubs ++ [(getNat fs "v").getD 0] }
      | "closesub" =>
        let k := (getNat fs "sub").getD 0
        { cs.m with subs := (zipIdx1 cs.m.subs).map fun (i, si) => if i == k && si.closedAt.isNone then { si with closedAt := some cs.m.pubs.length } else si }
      | "closepub" => { cs.m with subs := cs.m.subs.map fun si => if si.closedAt.isNone then { si with closedAt := some cs.m.pubs.length } else si }
      | "sleep" => { cs.m with slept := true }
      | "recv" =>
        let k := (getNat fs "sub").getD 0
        if got == some "closed" then { cs.m with subs := (zipIdx1 cs.m.subs).map fun (i, si) => if i == k then { si with sawClosed := true } else si } else cs.m
      | _ => cs.m
    let closeClauses : List String :=
      if kind == "recv" then
        let k := (getNat fs "sub").getD 0
        match cs.m.subs[k - 1]? with
        | some si =>
          (if got == some "closed" && si.closedAt.isNone then ["C10.closed_only_by_close"] else []) ++
          (if si.sawClosed && got != some "closed" then ["C10.nothing_after_close"] else [])
        | none => []
      else []
    let mon := monAll m' o ++ closeClauses ++ (if kind == "sleep" then timeoutsFire m' o else [])
    let feats := (if o.pend > 0 then ["pending"] else []) ++ (if kind == "closesub" || kind == "closepub" then ["close"] else []) ++
                 (if kind == "sleep" then ["sleep"] else []) ++ cs.feats
    if cs.dead then ({ cs with m := m', feats := feats }, { mon := mon, branch := "after-divergence" }) else
    -- model side
    let (cands', prefixOK) : List St × Bool :=
      match kind with
      | "new" => (quiesce cs.fifo init, true)
      | "sub" =>
        (advance cs.fifo cs.cands (fun s => (step? s (.subscribe ((getNat fs "cap").getD 0) (parseFilter ((getF fs "filter").getD "none"))
            (if getF fs "to" == some "short" then 1 else 1000) (getF fs "cbf" == some "1") (getF fs "cbt" == some "1"))).toList), true)
      | "pub" => (advance cs.fifo cs.cands (fun s => (step? s (.publish ((getNat fs "v").getD 0))).toList), true)
      | "recv" =>
        let k := (getNat fs "sub").getD 0
        -- each candidate may answer differently; keep (state, answer) pairs that agree with the implementation
        let answers (s : St) : List (St × String) :=
          match getSub s k with
          | none => [(s, "none")]
          | some x =>
            match x.buf with
            | v :: _ => (step? s (.receive k)).toList.map (fun s' => (s', toString v))
            | [] =>
              let hs0 := holders s k
              -- fifo mode: the receiver meets the sender that has been blocked longest
              let hs := if cs.fifo then (match hs0 with | [] => [] | d :: r => [r.foldl (fun m e => if e.uid < m.uid then e else m) d]) else hs0
              if !hs.isEmpty && !x.chClosed then hs.filterMap (fun d => (step? s (.rendezvous k d.uid)).map (fun s' => (s', toString d.msg)))
              else if x.chClosed then [(s, "closed")] else [(s, "none")]
        let pairs := cs.cands.flatMap answers
        let ok := pairs.filter (fun p => some p.2 == got)
        ((ok.map (·.1)).flatMap (quiesce cs.fifo) |>.eraseDups, !ok.isEmpty)
      | "closesub" => (advance cs.fifo cs.cands (fun s => (step? s (.closeSub ((getNat fs "sub").getD 0))).toList), true)
      | "closepub" => (advance cs.fifo cs.cands (fun s => (step? s .closePub).toList), true)
      | "sleep" => (advance cs.fifo cs.cands (fun s => (step? s .tick).toList), true)
      | "obs" | "final" => (advance cs.fifo cs.cands (fun s => [s]), true)
      | _ => ([], false)
    let matching := cands'.filter (fun s => { obsOf s with blocked := o.blocked } == o)
    let modelStr := match cands'.head? with | some s => showObs (obsOf s) | none => "no-candidate"
    let branch := s!"{kind}" ++ (if o.pend > 0 then ".pending" else "")
    if matching.isEmpty || !prefixOK then
      ({ cs with m := m', dead := true, feats := feats, text := cs.text ++ ";" ++ op },
       { diffs := [if !prefixOK then "got" else "obs"], mon := mon, branch := branch, model := s!"cands={cands'.length} " ++ modelStr })
    else
      ({ cs with m := m', cands := matching, feats := feats, text := cs.text ++ ";" ++ op }, { mon := mon, branch := branch, model := modelStr })

partial def loop (h : IO.FS.Stream) (st : Stats) (cs : CaseSt) (caseNo : String) (lineNo : Nat) : IO Stats := do
  let line ← h.getLine
  let fin (st : Stats) : Stats :=
    let st := if cs.unstable then st.bump "case.timing-unstable" else st
    if !cs.unstable && (cs.feats.contains "pending" || cs.feats.contains "close") then { st with nontrivial := st.nontrivial.insert (hash cs.text) } else st
  if line.isEmpty then return fin st
  let line := (line.dropEndWhile (· == '\n')).toString
  if line.startsWith "case " then
    loop h { fin st with cases := st.cases + 1 } {} ((words line).getD 1 "?") 0
  else if line.isEmpty then loop h st cs caseNo lineNo
  else
    let (op, obs) := splitTrace line
    let (cs1, r1) := step cs op obs
    -- fifo search found no matching candidate: replay the case so far with every order of competing senders
    let (cs', r, fellBack) :=
      if cs.fifo && !cs.dead && !cs.unstable && !r1.diffs.isEmpty && !(r1.diffs.contains "alive") then
        let full := cs.hist.reverse.foldl (fun acc (x : String × String) => (step acc x.1 x.2).1) ({ fifo := false } : CaseSt)
        if full.dead then (cs1, r1, false) else
        let (c2, r2) := step full op obs
        (c2, r2, true)
      else (cs1, r1, false)
    let cs' := { cs' with hist := (op, obs) :: cs.hist }
    let mut st := { st with ops := st.ops + 1 }
    st := st.bump r.branch
    if fellBack then st := st.bump "search.full-sender-orders"
    unless r.diffs.isEmpty do
      IO.println s!"DIFF case={caseNo} line={lineNo} fields={",".intercalate r.diffs} model=[{r.model}] impl=[{obs}] op=[{op}]"
      st := { st with diffs := st.diffs + 1 }
    for clause in r.mon.eraseDups do
      IO.println s!"MONFAIL case={caseNo} line={lineNo} clause={clause} impl=[{obs}] op=[{op}]"
      st := { st with monfails := st.monfails + 1 }
    loop h st cs' caseNo (lineNo + 1)

def main : IO Unit := do
  let st ← loop (← IO.getStdin) {} {} "?" 0
  -- a run in which most cases were discarded as timing-unstable has not established the tie
  let unstable := (st.branches.lookup "case.timing-unstable").getD 0
  if st.cases > 10 && unstable * 3 > st.cases then
    IO.println s!"TIE-NOT-ESTABLISHED {unstable} of {st.cases} cases were discarded as timing-unstable"
  st.print

/-- stress summaries: every counter must be zero. -/
partial def stressLoop (h : IO.FS.Stream) (st : Stats) (caseNo : String) (lineNo : Nat) : IO Stats := do
  let line ← h.getLine
  if line.isEmpty then return st
  let line := (line.dropEndWhile (· == '\n')).toString
  if line.startsWith "case " then stressLoop h { st with cases := st.cases + 1 } ((words line).getD 1 "?") 0
  else if line.isEmpty then stressLoop h st caseNo lineNo
  else
    let (op, obs) := splitTrace line
    let ofs := fieldsOf (words obs)
    let mut st := { st with ops := st.ops + 1, nontrivial := st.nontrivial.insert (hash op) }
    st := st.bump "stress"
    let crashed := obs.startsWith "crash:" || obs.startsWith "hang:"
    let clauses : List String :=
      if crashed then ["C10.no_panic_no_deadlock", "C06.no_crash_no_hang", "C15.no_crash_no_hang"] else
      (if getNat ofs "dup" == some 0 then [] else ["C06.at_most_once"]) ++
      (if getNat ofs "foreign" == some 0 then [] else ["C06.only_published_and_accepted"]) ++
      (if getNat ofs "rejected" == some 0 then [] else ["C06.only_published_and_accepted"]) ++
      (if getNat ofs "missing" == some 0 then [] else ["C06.exactly_once_if_receiving"]) ++
      (if getNat ofs "left" == some 0 then [] else ["C15.no_goroutine_left"]) ++
      (if (getNat ofs "unclosed").getD 0 == 0 then [] else ["C10.close_from_callback_completes"]) ++
      (if (getNat ofs "timeouts").getD 0 == 0 then [] else ["C15.timeout_is_the_subscribers_own", "C06.exactly_once_if_receiving"]) ++
      (if (getNat ofs "latedrop").getD 0 == 0 then [] else ["C15.timeout_is_the_subscribers_own"]) ++
      (if getNat ofs "races" == some 0 then [] else ["C10.no_data_race"])
    unless clauses.isEmpty do
      IO.println s!"DIFF case={caseNo} line={lineNo} fields=stress model=[dup=0 foreign=0 rejected=0 missing=0 left=0 races=0] impl=[{obs}] op=[{op}]"
      st := { st with diffs := st.diffs + 1 }
    for clause in clauses do
      IO.println s!"MONFAIL case={caseNo} line={lineNo} clause={clause} impl=[{obs}] op=[{op}]"
      st := { st with monfails := st.monfails + 1 }
    stressLoop h st caseNo (lineNo + 1)

def stressMain : IO Unit := do
  let st ← stressLoop (← IO.getStdin) {} "?" 0
  st.print

/-! ### self-test: the model as implementation (see Driver/WQ.lean `wqsim`)

`tvdriver pubsim <seed>` answers a script from the model, running the enabled internal steps in a
pseudo-random order (no partial-order reduction here: the driver's reduction has to cope with any order). -/

def lcg (x : Nat) : Nat := (x * 6364136223846793005 + 1442695040888963407) % 18446744073709551616

def settleRandom : Nat → Nat → St → Nat × St
  | 0, rng, s => (rng, s)
  | fuel + 1, rng, s =>
    let acts := internalActs s
    if acts.isEmpty then (rng, s) else
    let rng := lcg rng
    match acts[(rng / 65536) % acts.length]? >>= step? s with
    | some s' => settleRandom fuel rng s'
    | none => (rng, s)

def simStep (s : St) (rng : Nat) (op : String) : St × Nat × String :=
  let toks := words op
  let fs := fieldsOf toks
  let kind := toks.headD "?"
  let fin (s' : St) (pre : String) : St × Nat × String :=
    let (rng', q) := settleRandom 100000 rng s'
    (q, rng', pre ++ showObs (obsOf q) ++ " blocked=0")
  let orSame (x : Option St) : St := x.getD s
  match kind with
  | "new" => fin init ""
  | "sub" => fin (orSame (step? s (.subscribe ((getNat fs "cap").getD 0) (parseFilter ((getF fs "filter").getD "none"))
      (if getF fs "to" == some "short" then 1 else 1000) (getF fs "cbf" == some "1") (getF fs "cbt" == some "1")))) ""
  | "pub" => fin (orSame (step? s (.publish ((getNat fs "v").getD 0)))) ""
  | "recv" =>
    let k := (getNat fs "sub").getD 0
    match getSub s k with
    | none => fin s "got=none "
    | some x =>
      match x.buf with
      | v :: _ => fin (orSame (step? s (.receive k))) s!"got={v} "
      | [] =>
        let hs := holders s k
        if !hs.isEmpty && !x.chClosed then
          let rng' := lcg rng
          match hs[(rng' / 65536) % hs.length]? with
          | some d => (match step? s (.rendezvous k d.uid) with
              | some s' => let (q, r2, o) := simStep.finish s' rng' ; (q, r2, s!"got={d.msg} " ++ o)
              | none => fin s "got=none ")
          | none => fin s "got=none "
        else if x.chClosed then fin s "got=closed " else fin s "got=none "
  | "closesub" => fin (orSame (step? s (.closeSub ((getNat fs "sub").getD 0)))) ""
  | "closepub" => fin (orSame (step? s .closePub)) ""
  | "sleep" => fin (orSame (step? s .tick)) ""
  | _ => fin s ""
where finish (s' : St) (rng : Nat) : St × Nat × String :=
  let (rng', q) := settleRandom 100000 rng s'
  (q, rng', showObs (obsOf q) ++ " blocked=0")

partial def simLoop (h : IO.FS.Stream) (s : St) (rng : Nat) : IO Unit := do
  let line ← h.getLine
  if line.isEmpty then return ()
  let line := (line.dropEndWhile (· == '\n')).toString
  if line.startsWith "case " then
    IO.println line
    simLoop h init rng
  else if line.isEmpty then simLoop h s rng
  else
    let (s', rng', obs) := simStep s rng line
    IO.println s!"{line} => {obs}"
    simLoop h s' rng'

def simMain (seed : Nat) : IO Unit := do
  simLoop (← IO.getStdin) init (lcg (seed + 999))

end Driver.Pub
