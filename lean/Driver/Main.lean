import Driver.SliceOps
import Driver.Cache
import Driver.VE
import Driver.Stack
import Driver.WQ
import Driver.Pub
import Driver.Stress
import Driver.Maps
import Driver.Server

def main (args : List String) : IO UInt32 := do
  match args with
  | ["sliceops"] => Driver.SliceOps.main; return 0
  | ["cache"] => Driver.Cache.main; return 0
  | ["ve"] => Driver.VE.main; return 0
  | ["stack"] => Driver.Stack.main; return 0
  | ["stackconc"] => Driver.Stack.main; return 0
  | ["wq"] => Driver.WQ.main; return 0
  | ["pubsim", seed] => Driver.Pub.simMain (seed.toNat?.getD 1); return 0
  | ["wqsim", seed] => Driver.WQ.simMain (seed.toNat?.getD 1); return 0
  | ["pub"] => Driver.Pub.main; return 0
  | ["server"] => Driver.Server.main; return 0
  | ["lifecycle"] => Driver.Server.main; return 0
  | ["maps"] => Driver.Maps.main; return 0
  | ["mapsconc"] => Driver.Maps.main; return 0
  | ["wqstress"] => Driver.Stress.main Driver.Stress.wq; return 0
  | ["cacheconc"] => Driver.Stress.main Driver.Stress.cache; return 0
  | ["pubstress"] => Driver.Pub.stressMain; return 0
  | _ => IO.eprintln "usage: tvdriver <component> < trace"; return 2
