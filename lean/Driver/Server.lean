import TV.Model.Middleware
import TV.Model.ServerLifecycle
import TV.Model.StopRetry
import Driver.Proto
/-! Driver components for the server (C17: routes/middleware/services; C18: start/stop scenarios). -/
namespace Driver.Server
open TV.Middleware Driver

def parseRoutes (s : String) : Option (List Route) :=
  if s == "off" then none
  else if s == "none" then some []
  else some <| (s.splitOn ",").filterMap fun e =>
    match e.splitOn ":" with
    | [m, p, id] => id.toNat?.map (fun i => ⟨m, p, i⟩)
    | _ => none

def parseMw (s : String) : Option (List String) :=
  if s == "off" then none else if s == "none" then some [] else some (s.splitOn ",")

def fnv (b : List Nat) : String :=
  let h := b.foldl (fun (h : UInt32) c => (h ^^^ (UInt32.ofNat c)) * 16777619) 2166136261
  let hex := (Nat.toDigits 16 h.toNat)
  String.ofList (List.replicate (8 - hex.length) '0' ++ hex)

/-- the credential-style headers the harness adds to requests with an odd body length, as the handler must see them. -/
def credOf (n : Nat) : List Nat :=
  (if n % 2 == 1 then "Bearer s3cr3t-token|session=abc123|k-123|one,two" else "|||").toUTF8.toList.map (·.toNat)

def bodyOf (n : Nat) : List Nat := (List.range n).map (fun i => 97 + i % 23)

def traceStr (t : Trace) : String :=
  if t.isEmpty then "none" else
  ">".intercalate (t.map fun e =>
    if e.startsWith "enter " then "+" ++ (e.drop 6).toString
    else if e.startsWith "leave " then "-" ++ (e.drop 6).toString
    else match e.splitOn " " with
      | _ :: id :: _ => "h" ++ id
      | _ => e)

structure CaseSt where
  cfg : Config := { httpRoutes := none, httpsRoutes := none, httpMw := none }
  grpc : Bool := false
  text : String := ""
  feats : Nat := 0

def listeners (cs : CaseSt) : List String :=
  (if cs.grpc then ["grpc"] else []) ++ (if cs.cfg.httpRoutes.isSome then ["http"] else []) ++ (if cs.cfg.httpsRoutes.isSome then ["https"] else [])

def showL (l : List String) : String := if l.isEmpty then "-" else ",".intercalate l

structure R where
  model : String
  mon : List String := []
  branch : String

/-! ### C18: the lifecycle LTS explored for a scenario -/
open TV.ServerLifecycle in
def explore : Nat → List St → List St → List St → List St
  | 0, _, _, acc => acc
  | _ + 1, [], _, acc => acc
  | f + 1, s :: rest, seen, acc =>
    if seen.contains s then explore f rest seen acc else
    let acts := (allActs s).filter (fun a => match a with | .stopCall _ | .startCall => false | _ => true)
    let succs := acts.filterMap (step? s)
    if succs.isEmpty then explore f rest (s :: seen) (s :: acc) else explore f (succs ++ rest) (s :: seen) acc

open TV.ServerLifecycle in
/-- terminal states of: Start; (ready: every provider serving; `k` requests on provider 0); Stop(ctx). -/
def scenarioFinals (n k : Nat) (ample ready : Bool) : List St :=
  let pre : List Act := [.startCall] ++ List.replicate n .spawn ++ (List.range n).map .provSignal ++ [.startWgDone] ++
    (if ready then (List.range n).map .provServe ++ List.replicate k (.request 0) else [])
  match runActs (init n) (pre ++ [.stopCall ample]) with
  | some s => explore 100000 [s] [] []
  | none => []

open TV.StopRetry in
/-- the retried Stop according to TV.StopRetry: `started` requests run on provider 0; a first Stop with an expired context walks
    all providers and returns; then a Stop with an ample context.  Answer: (the second call cannot move while the requests run,
    the error flag it returns, nothing is running when it returns, the first call reported an error). -/
def retryPrediction (n started : Nat) : Option (Bool × Bool × Bool × Bool) :=
  let s0 := init n (fun i => if i = 0 then started else 0)
  match runActs s0 ([.stopCall false] ++ List.replicate (n + 1) .provStop ++ [.stopCall true]) with
  | none => none
  | some s1 =>
    let blocked := (step? s1 .provStop).isNone
    match runActs s1 (List.replicate started (.finishReq 0) ++ List.replicate (n + 1) .provStop) with
    | some s2 =>
      match s2.returned with
      | [(true, err, left), (false, err1, _)] => some (blocked, err, left == 0, err1)
      | _ => none
    | none => none

def step (cs : CaseSt) (op obs : String) : CaseSt × R :=
  let toks := words op
  let fs := fieldsOf toks
  let ofs := fieldsOf (words obs)
  if obs == "panic" then (cs, { model := "no-panic", mon := ["C17.no_panic"], branch := "panic" }) else
  match toks.headD "?" with
  | "serve" =>
    let cfg : Config := { httpRoutes := (getF fs "http").bind parseRoutes, httpsRoutes := (getF fs "https").bind parseRoutes,
                          httpMw := (getF fs "mw").bind parseMw }
    let cs' : CaseSt := { cfg := cfg, grpc := getF fs "grpc" == some "1", text := op }
    let m := s!"startret=1 reachable={showL (listeners cs')}"
    (cs', { model := m, mon := if obs == m then [] else ["C18.start_returns_and_reachable"], branch := s!"serve.{(listeners cs').length}" })
  | "req" =>
    let l := if getF fs "l" == some "https" then Listener.https else .http
    let n := (getNat fs "body").getD 0
    let r : Req := { method := (getF fs "m").getD "GET", path := (getF fs "p").getD "/", headers := [("X-Test", "same")], body := bodyOf n }
    match answer cs.cfg l r with
    | none => (cs, { model := "listener-not-configured", mon := ["protocol"], branch := "bad" })
    | some (d, t, resp) =>
      let (m, clause, br) : String × String × String := match d, resp with
        | .handler id, some rp =>
          -- handlers with id % 5 = 4 set no Content-Type and no status (implicit 200, type sniffed by net/http from the body's first bytes)
          (s!"status={if id % 5 == 4 then 200 else rp.status} xh={id} saw={id}:{r.method}:{r.path}:same:{n}:{fnv r.body}:{fnv (credOf n)} bodysum={fnv r.body} echo={if rp.body == id :: r.body then 1 else 0} trace={traceStr t} ct={if id % 5 == 4 then "text/html;_charset=utf-8" else "application/x-tv"}",
           if l == .https then "C17.https_routes_served" else "C17.routes_and_middleware", s!"req.{if l == .https then "https" else "http"}.hit")
        | .notFound, _ => (s!"status=404 xh=- saw=none bodysum={fnv r.body} echo=0 trace=none ct=text/plain;_charset=utf-8", "C17.others_rejected", "req.404")
        | .methodNotAllowed, _ => (s!"status=405 xh=- saw=none bodysum={fnv r.body} echo=0 trace=none ct=text/plain;_charset=utf-8", "C17.others_rejected", "req.405")
        | _, _ => ("?", "protocol", "bad")
      -- refine the clause: which part of the observation differs
      let o (k : String) := getF ofs k
      let mfs := fieldsOf (words m)
      let clause2 :=
        if o "saw" != getF mfs "saw" && o "status" == getF mfs "status" then "C17.handler_sees_same_request"
        else if o "trace" != getF mfs "trace" && o "status" == getF mfs "status" then "C17.bundle_order"
        else if (o "echo" != getF mfs "echo" || o "ct" != getF mfs "ct") && o "status" == getF mfs "status" then "C17.client_sees_same_response"
        else clause
      ({ cs with text := cs.text ++ ";" ++ op, feats := cs.feats + (if br == "req.404" then 0 else 1) },
       { model := m, mon := if obs == m then [] else [clause2], branch := br })
  | "grpc" =>
    let m := s!"reply=Hello,_{(getF fs "name").getD ""}"
    (cs, { model := m, mon := if obs == m then [] else ["C17.grpc_service_callable"], branch := "grpc" })
  | "stop" =>
    let m := s!"stopret=1 stoperr=0 wgreleased=1 portsfree={showL (listeners cs)}"
    (cs, { model := m, mon := if obs == m then [] else ["C18.stop_complete"], branch := "stop" })
  | "scenario" =>
    let ls := ((getF fs "listeners").getD "").splitOn ","
    let k := (getNat fs "inflight").getD 0
    let ample := getF fs "ctx" == some "ample" || getF fs "ctx" == some "tight" || getF fs "ctx" == some "retry" || getF fs "ctx" == some "runcancel"   -- runcancel: NewServer's running context is cancelled first, Stop's own context is ample; retry: the observed Stop follows one that gave up; tight: still enough for the request as a whole
    let ready := getF fs "timing" == some "ready"
    let web := ls.contains "http" || ls.contains "https"
    let started := if web && ready then k else 0
    -- the web listener with the in-flight requests is provider 0 of the model
    let finals := scenarioFinals ls.length started ample ready
    let errs := (finals.map (fun s => match s.caller with | .stopReturned e => some e | _ => none)).eraseDups
    let implErr := (getNat ofs "stoperr").getD 99 == 1
    -- every maximal run of the model ends with Stop returned, everything closed and the WaitGroup released; with an ample
    -- context nothing is cut off and no error is reported; the implementation's error flag is one the model can produce
    -- (with an expired context the model has runs with and without an error: a request may finish first)
    let ltsOK := !finals.isEmpty && finals.all (fun s => s.stopWg == 0 && s.provs.all (fun p => p.pc == .returned && p.srv == .closed)) &&
                 errs.all (·.isSome) && (!ample || (errs == [some false] && finals.all (fun s => s.aborted == 0 && s.completed == started))) &&
                 (errs.contains (some implErr) || (!ample && started == 0))
    let sorted := (ls.toArray.qsort (· < ·)).toList
    let g (key : String) := (getNat ofs key).getD 99
    -- a retried Stop: what TV.StopRetry predicts for the second call has to be what was observed
    let ltsOK := ltsOK && (getF fs "ctx" != some "retry" ||
      (match retryPrediction ls.length started with
       | some (blocked, err, idle, _) =>
         implErr == err && (!(blocked && started > 0) || g "stopearly" == 0) && (!idle || g "completed" == started) && (blocked == (started > 0))
       | none => false))
    let mon : List String :=
      (if g "startret" == 1 then [] else ["C18.start_returns"]) ++
      (if !ready || getF ofs "reachable" == some (showL sorted) then [] else ["C18.every_listener_reachable"]) ++
      (if g "inflightstarted" == started then [] else ["C18.harness_inflight"]) ++
      (if !ample || g "completed" == started then [] else ["C18.waits_for_inflight"]) ++
      (if !ample || started == 0 || g "stopearly" == 0 then [] else ["C18.waits_for_inflight"]) ++
      (if g "stopret" == 1 then [] else ["C18.stop_terminates"]) ++
      (if g "wgreleased" == 1 then [] else ["C18.waitgroup_released"]) ++
      (if getF ofs "portsfree" == some (showL sorted) then [] else ["C18.ports_free"]) ++
      (if !ample || g "stoperr" == 0 then [] else ["C18.stop_error_matches_contract"]) ++
      -- in-flight gRPC calls (model-free): with an ample context Stop waits for them and they complete; with an expired
      -- one Stop cuts them off by itself and returns
      (if !(ls.contains "grpc" && ready) || (getNat ofs "grpcinflight").getD k == (if getF fs "ctx" == some "retry" then 0 else k) then [] else ["C18.harness_inflight"]) ++
      (if !ample || (getNat ofs "grpcdone").getD 0 == (getNat ofs "grpcinflight").getD 0 then [] else ["C18.waits_for_inflight"]) ++
      (if (getNat ofs "stopprompt").getD 1 == 1 then [] else ["C18.stop_terminates"])
    let m := s!"lts={if ltsOK then "ok" else "MISMATCH"} startret=1 stopret=1 stoperr={if ample then "0" else "any"} wgreleased=1 portsfree={showL sorted} finals={finals.length}"
    ({ cs with text := op, feats := 1 },
     { model := m, mon := mon ++ (if ltsOK then [] else ["C18.model_prediction"]), branch := s!"scenario.n{ls.length}.k{started}.{if ample then "ample" else "expired"}.{if ready then "ready" else "immediate"}" })
  | _ => (cs, { model := "bad-op", mon := ["protocol"], branch := "bad" })

partial def loop (h : IO.FS.Stream) (st : Stats) (cs : CaseSt) (caseNo : String) (lineNo : Nat) : IO Stats := do
  let line ← h.getLine
  let fin (st : Stats) : Stats := if cs.feats > 0 then { st with nontrivial := st.nontrivial.insert (hash cs.text) } else st
  if line.isEmpty then return fin st
  let line := (line.dropEndWhile (· == '\n')).toString
  if line.startsWith "case " then
    loop h { fin st with cases := st.cases + 1 } {} ((words line).getD 1 "?") 0
  else if line.isEmpty || (line.splitOn " => ").length < 2 then loop h st cs caseNo lineNo
  else
    let (op, obs) := splitTrace line
    let (cs', r) := step cs op obs
    let mut st := { st with ops := st.ops + 1 }
    st := st.bump r.branch
    unless r.mon.isEmpty do
      IO.println s!"DIFF case={caseNo} line={lineNo} model=[{r.model}] impl=[{obs}] op=[{op}]"
      st := { st with diffs := st.diffs + 1 }
    for clause in r.mon.eraseDups do
      IO.println s!"MONFAIL case={caseNo} line={lineNo} clause={clause} impl=[{obs}] op=[{op}]"
      st := { st with monfails := st.monfails + 1 }
    loop h st cs' caseNo (lineNo + 1)

def main : IO Unit := do
  let st ← loop (← IO.getStdin) {} {} "?" 0
  st.print

end Driver.Server
