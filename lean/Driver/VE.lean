import TV.Model.ValidationError
import TV.Monitor.ValidationError
import Driver.Proto
/-! Driver component for ValidationError (C20). -/
namespace Driver.VE
open TV.VE TV.VE.Mon Driver

def decStr (s : String) : String := if s == "_" then "" else s
def encStr (s : String) : String := if s == "" then "_" else s

/-- parse `k:m,m;k:m` / `{}` / `~` -/
def parseMap (s : String) : Option SMap :=
  if s == "~" then none
  else if s == "{}" then some []
  else some <| (s.splitOn ";").map fun ent =>
    match ent.splitOn ":" with
    | [k, ms] => (decStr k, if ms == "!" then [] else (ms.splitOn ",").map decStr)
    | _ => (ent, [])

def showMap (m : SMap) : String :=
  if m.isEmpty then "{}" else
  let ents := m.map fun (k, ms) => (k, sortS ms)
  let ents := (ents.toArray.qsort (fun a b => a.1 < b.1)).toList
  ";".intercalate (ents.map fun (k, ms) => encStr k ++ ":" ++ (if ms.isEmpty then "!" else ",".intercalate (ms.map encStr)))

/-- recursive-descent parser for the tree text format (driver glue, not part of any proof). -/
partial def takeUntil (cs : List Char) (stop : List Char) : String × List Char :=
  let rec go (acc : List Char) : List Char → String × List Char
    | [] => (String.ofList acc.reverse, [])
    | c :: r => if stop.contains c then (String.ofList acc.reverse, c :: r) else go (c :: acc) r
  go [] cs

mutual
partial def parseNode : List Char → Option (VE × List Char)
  | 'N' :: '1' :: '(' :: r =>
    let (ctx, r) := takeUntil r [',']
    let (msg, r) := takeUntil (r.drop 1) [',']
    let (w, r) := takeUntil (r.drop 1) [')']
    some (newVE (decStr ctx) (decStr msg) (w == "1"), r.drop 1)
  | 'N' :: '2' :: '(' :: r =>
    let (m, r) := takeUntil r ['|']
    match parseKids (r.drop 1) with
    | some (kids, r) => some (newVEs (parseMap m) kids, r.drop 1)
    | none => none
  | 'N' :: '3' :: '(' :: r =>
    let (m, r) := takeUntil r ['|']
    let (w, r) := takeUntil (r.drop 1) ['|']
    match parseKids (r.drop 1) with
    | some (kids, r) => some (newVEsW (parseMap m) (parseMap w) kids, r.drop 1)
    | none => none
  | _ => none
partial def parseKids : List Char → Option (Option (List (String × VE)) × List Char)
  | '~' :: r => some (none, r)
  | '{' :: '}' :: r => some (some [], r)
  | cs =>
    let (name, r) := takeUntil cs ['=']
    match parseNode (r.drop 1) with
    | some (n, r) =>
      match r with
      | '&' :: r' =>
        match parseKids r' with
        | some (some rest, r'') => some (some ((name, n) :: rest), r'')
        | _ => none
      | _ => some (some [(name, n)], r)
    | none => none
end

def parseTree (s : String) : Option VE := (parseNode s.toList).map (·.1)

def parseErr (s : String) : Option Err :=
  if s == "nil" || s == "NP" then some .nil
  else if s.startsWith "P(" || s.startsWith "S(" then some (.plain (decStr ((s.drop 2).dropEnd 1).toString))
  else if s.startsWith "W(" then (parseTree ((s.drop 2).dropEnd 1).toString).map .wrapped
  else (parseTree s).map .ve

def showLines (l : List String) : String :=
  if l.isEmpty then "{}" else "/".intercalate (sortS (l.map (fun s => s.replace " " "")))

def kindOf : Err → String
  | .nil => "nil" | .plain _ => "plain" | .ve _ => "ve" | .wrapped _ => "wrapped"

def kidsShow (e : VE) : String :=
  if e.kids.isEmpty then "{}" else ",".intercalate (sortS (e.kids.map (·.1)))

structure CaseSt where
  tree : Option VE := none
  first : List (String × String) := []   -- first answer per read kind (reads must repeat identically)
  text : String := ""
  reads : Nat := 0

structure Out where
  model : String
  mon : List String := []
  branch : String

def step (s : CaseSt) (op obs : String) : CaseSt × Out :=
  let toks := words op
  let panicClause := if obs == "panic" then ["C20.no_panic"] else []
  match toks with
  | ["tree", t] =>
    match parseTree t with
    | some e => ({ tree := some e, text := op }, { model := "ok", mon := panicClause, branch := "tree" })
    | none => (s, { model := "unparsable", mon := ["protocol"], branch := "bad" })
  | ["read", kind] =>
    match s.tree with
    | none => (s, { model := "no-tree", mon := ["protocol"], branch := "bad" })
    | some e =>
      let (model, monOK) : String × Bool :=
        match kind with
        | "flatE" => (showMap (getFlat false e).1, match parseMap obs with | some m => flatFaithful false e m | none => false)
        | "flatW" => (showMap (getFlat true e).1, match parseMap obs with | some m => flatFaithful true e m | none => false)
        | "error" => (showLines (errorLines e).1, errorOnce e (if obs == "{}" then [] else obs.splitOn "/"))
        | "errMap" => (showMap (e.errs.getD []), obs == showMap (e.errs.getD []))
        | "warnMap" => (showMap (e.warns.getD []), obs == showMap (e.warns.getD []))
        | "kids" => (kidsShow e, obs == kidsShow e)
        | _ => ("bad-read", false)
      let firstAns := s.first.lookup kind
      let pure := match firstAns with | some a => a == obs | none => true
      let s' := { s with first := if firstAns.isNone then (kind, obs) :: s.first else s.first,
                         text := s.text ++ ";" ++ op, reads := s.reads + 1 }
      let clause := match kind with
        | "flatE" | "flatW" => "C20.flat_faithful"
        | "error" => "C20.error_renders_once"
        | _ => "C20.reads_pure"
      (s', { model := model,
             mon := panicClause ++ (if obs != "panic" && !monOK then [clause] else []) ++
                    (if obs != "panic" && !pure then ["C20.reads_pure"] else []),
             branch := "read." ++ kind ++ (if s.reads > 0 then ".repeat" else "") })
  | ["add", a, b] =>
    match parseErr a, parseErr b with
    | some e1, some e2 =>
      let res := addErr e1 e2
      let model := match res with
        | none => "nilresult"
        | some v => s!"flatE={showMap (getFlat false v).1} flatW={showMap (getFlat true v).1}"
      let fs := fieldsOf (words obs)
      let monOK :=
        if obs == "nilresult" then (suppliedErr false e1 ++ suppliedErr false e2 ++ suppliedErr true e1 ++ suppliedErr true e2).isEmpty
        else (match (getF fs "flatE").bind parseMap, (getF fs "flatW").bind parseMap with
          | some fe, some fw => addContainsBoth false e1 e2 fe && addContainsBoth true e1 e2 fw
          | _, _ => false)
      let s2 : CaseSt := { s with text := op }
      (s2, { model := model,
             mon := panicClause ++ (if obs != "panic" && !monOK then ["C20.add_contains_both"] else []),
             branch := s!"add.{kindOf e1}.{kindOf e2}" })
    | _, _ => (s, { model := "unparsable", mon := ["protocol"], branch := "bad" })
  | "fan" :: rest =>
    -- one error that grew message by message is merged into n others, each of which then gets its own message for the field
    let fs := fieldsOf rest
    let fld := decStr ((getF fs "f").getD "_")
    let k := ((getF fs "k").bind String.toNat?).getD 1
    let n := ((getF fs "n").bind String.toNat?).getD 2
    let w := getF fs "w" == some "1"
    let addV (a b : VE) : VE := (addErr (.ve a) (.ve b)).getD a
    let common := (List.range (k - 1)).foldl (fun c i => addV c (newVE fld s!"m{i + 1}" w)) (newVE fld "m0" w)
    let rs := (List.range n).map fun j =>
      addV (addV (newVE (if j % 2 == 1 then fld else "o") s!"o{j}" false) common) (newVE fld s!"own{j}" w)
    let parts := (rs.zipIdx.map fun (r, j) => s!"r{j}E={showMap (getFlat false r).1} r{j}W={showMap (getFlat true r).1}") ++
                 [s!"cE={showMap (getFlat false common).1} cW={showMap (getFlat true common).1}"]
    let ofs := fieldsOf (words obs)
    -- property clause: every result contains every message of everything that was added to it
    let contains := rs.zipIdx.all fun (_, j) =>
      match (getF ofs s!"r{j}E").bind parseMap, (getF ofs s!"r{j}W").bind parseMap with
      | some fe, some fw =>
        let want (warn : Bool) := (if warn then [] else [(if j % 2 == 1 then fld else "o", s!"o{j}")]) ++
          (if warn == w then (List.range k).map (fun i => (fld, s!"m{i}")) ++ [(fld, s!"own{j}")] else [])
        subMultiset (want false) (pairs fe) && subMultiset (want true) (pairs fw)
      | _, _ => false
    let s2 : CaseSt := { s with text := op }
    let modelStr : String := String.intercalate " " parts
    (s2, { model := modelStr,
           mon := panicClause ++ (if obs != "panic" && !contains then ["C20.add_contains_both"] else []),
           branch := s!"fan.k{min k 4}.n{n}" })
  | _ => (s, { model := "bad-op", mon := ["protocol"], branch := "bad" })

partial def loop (h : IO.FS.Stream) (st : Stats) (cs : CaseSt) (caseNo : String) (lineNo : Nat) : IO Stats := do
  let line ← h.getLine
  let fin (st : Stats) : Stats :=
    let nt := match cs.tree with
      | some e => !e.kids.isEmpty && cs.reads ≥ 2
      | none => cs.text.startsWith "add" || cs.text.startsWith "fan"
    if nt then { st with nontrivial := st.nontrivial.insert (hash cs.text) } else st
  if line.isEmpty then return fin st
  let line := (line.dropEndWhile (· == '\n')).toString
  if line.startsWith "case " then
    loop h { fin st with cases := st.cases + 1 } {} ((words line).getD 1 "?") 0
  else if line.isEmpty then loop h st cs caseNo lineNo
  else
    let (op, obs) := splitTrace line
    let (cs', r) := step cs op obs
    let mut st := { st with ops := st.ops + 1 }
    st := st.bump r.branch
    if r.model != obs then
      IO.println s!"DIFF case={caseNo} line={lineNo} model=[{r.model}] impl=[{obs}] op=[{op}]"
      st := { st with diffs := st.diffs + 1 }
    for clause in r.mon do
      IO.println s!"MONFAIL case={caseNo} line={lineNo} clause={clause} impl=[{obs}] op=[{op}]"
      st := { st with monfails := st.monfails + 1 }
    loop h st cs' caseNo (lineNo + 1)

def main : IO Unit := do
  let st ← loop (← IO.getStdin) {} {} "?" 0
  st.print

end Driver.VE
