import TV.Model.FifoCache
import TV.Monitor.FifoCache
import Driver.Proto
/-! Driver component for the FifoMapCache (C01 C02 C03 C13). -/
namespace Driver.Cache
open TV.FifoCache TV.FifoCache.Mon Driver

abbrev C := Cache Nat Nat

def parseView (fs : List (String × String)) : Option View := do
  let keys ← getList fs "keys"
  let vals ← getList fs "vals"
  let len ← getNat fs "len"
  let cap ← getNat fs "cap"
  let pg ← getList fs "pg"
  let ph ← getList fs "ph"
  return { keys, vals, len, cap, pg, ph := ph.map (· != 0) }

/-- cut `l` into consecutive segments of the given sizes (the rest, if any, is a last segment). -/
def cutSegs : List Nat → List Nat → List (List Nat)
  | l, [] => if l.isEmpty then [] else [l]
  | l, n :: r => l.take n :: cutSegs (l.drop n) r

def canonSegs (l : List Nat) (sizes : List Nat) : List (List Nat) := (cutSegs l sizes).map sortL

/-- fields of the view on which model and implementation differ. -/
def cmpView (c : C) (v : View) : List String :=
  let sizes := c.parts.map (·.kv.length)
  let mk := c.parts.map (fun p => sortL (alKeys p.kv))
  let mv := c.parts.map (fun p => sortL (alVals p.kv))
  let alpha := v.alpha
  (if canonSegs v.keys sizes == mk then [] else ["keys"]) ++
  (if canonSegs v.vals sizes == mv then [] else ["vals"]) ++
  (if v.len == len c then [] else ["len"]) ++
  (if v.cap == capacity c then [] else ["cap"]) ++
  (if alpha.all (fun a => v.get a == get c a) then [] else ["get"]) ++
  (if alpha.all (fun a => v.has a == contains c a) then [] else ["has"])

def showModelView (c : C) : String :=
  let segs := c.parts.map (fun p => showNatList (alKeys p.kv))
  s!"parts={"|".intercalate segs} len={len c} cap={capacity c}"

/-- replay order reconstructed from the observed survivors (DESIGN §3.3): per old partition,
    the keys that did not survive (model order) then the survivors in observed order. -/
def reconstructOrder (old : C) (obsKeys : List Nat) : List (List Nat) :=
  old.parts.map fun p =>
    let pk := alKeys p.kv
    pk.filter (fun k => !obsKeys.contains k) ++ obsKeys.filter (fun k => pk.contains k)

def partOf (c : C) (k : Nat) : Option Nat :=
  (c.parts.find? (fun p => (alKeys p.kv).contains k)).map (·.id)

structure CaseSt where
  c : C := init 1 1
  mon : St := {}
  alpha : Nat := 0
  afterSpecial : String := "none"   -- has a resize / clear happened in this case?
  flags : List String := []         -- non-default branches taken (for distinct_nontrivial)
  text : String := ""

structure Out where
  diffs : List String := []     -- field names
  monfails : List String := []  -- clause names
  branch : String := "?"
  model : String := ""

def monView (s : CaseSt) (v : View) (swept : Bool) : List String :=
  (if viewsAgree v then [] else ["C01.views_agree"]) ++
  (if latestOK s.mon v then [] else ["C01.latest_or_zero"]) ++
  (if !swept || v.len ≤ v.cap then [] else ["C02.len_le_capacity"]) ++
  (if fifoOK s.mon v then [] else ["C03.fifo"]) ++
  (if noEarlyEviction s.mon v then [] else ["C03.no_eviction_until_full"])

def step (s : CaseSt) (op obs : String) : CaseSt × Out :=
  let toks := words op
  let fs := fieldsOf toks
  let ofs := fieldsOf (words obs)
  let bad (why : String) : CaseSt × Out := (s, { diffs := ["protocol"], monfails := ["protocol." ++ why], branch := "bad" })
  if obs == "panic" then (s, { diffs := ["panic"], monfails := ["C01.no_panic"], branch := "panic", model := "no panic" }) else
  match toks with
  | "capcheck" :: _ =>
    match getNat fs "cap", getF fs "opt", getNat ofs "n", getNat ofs "cap" with
    | some c, some opt, some n, some cap =>
      let m : C := init n (c / n)
      let ok := capacityOK c n cap (opt == "default")
      (s, { diffs := if capacity m == cap then [] else ["cap"],
            monfails := if ok then [] else ["C02.capacity_round_down"],
            branch := if opt == "default" then "capcheck.default" else "capcheck.balanced",
            model := s!"cap={capacity m}" })
    | _, _, _, _ => bad "capcheck"
  | "new" :: _ =>
    match getNat fs "n", getNat fs "pc", getNat fs "alpha", getNat fs "cap", parseView ofs with
    | some n, some pc, some alpha, some cap, some v =>
      let c : C := init n pc
      let s' : CaseSt := { c := c, mon := { prev := some v }, alpha := alpha, text := op }
      let hintOK := 1 ≤ n && n ≤ cap && pc == cap / n
      (s', { diffs := cmpView c v ++ (if hintOK then [] else ["hint"]),
             monfails := monView s' v true ++ (if capacityOK cap n v.cap (getF fs "opt" == some "default") then [] else ["C02.capacity_round_down"]),
             branch := "new", model := showModelView c })
    | _, _, _, _, _ => bad "new"
  | ["set", ks, vs] =>
    match ks.toNat?, vs.toNat?, getNat ofs "got", parseView ofs with
    | some k, some v, some got, some view =>
      let wasLive := contains s.c k
      let c1 := set s.c k v
      let opened := c1.parts.length > s.c.parts.length
      let c2 := sweep c1
      let evicted := c2.parts.length < c1.parts.length
      let mon1 := s.mon.onSet k v
      let gone := match s.mon.prev with | some p => (vanished p view).length | none => 0
      let pcNow := if s.c.n == 0 then 0 else view.cap / s.c.n
      let s' := { s with c := c2, mon := { mon1 with prev := some view }, text := s.text ++ ";" ++ op,
                         flags := (if evicted then ["evict"] else []) ++ (if wasLive then ["update"] else []) ++ s.flags }
      let br := if wasLive then "set.update" else if evicted then "set.insert.newpart.evict" else if opened then "set.insert.newpart" else "set.insert.cur"
      (s', { diffs := cmpView c2 view ++ (if get c1 k == got then [] else ["got"]),
             monfails := (if got == v then [] else ["C01.get_after_set"]) ++ monView { s with mon := mon1 } view true ++
                         (if gone ≤ pcNow then [] else ["C03.overflow_evicts_at_most_one_partition"]),
             branch := br, model := showModelView c2 })
    | _, _, _, _ => bad "set"
  | ["delete", ks] =>
    match ks.toNat?, parseView ofs with
    | some k, some view =>
      let was := contains s.c k
      let c1 := delete s.c k
      let mon1 := s.mon.onDelete k
      let s' := { s with c := c1, mon := { mon1 with prev := some view }, text := s.text ++ ";" ++ op,
                         flags := (if was then ["delete"] else []) ++ s.flags }
      (s', { diffs := cmpView c1 view, monfails := monView { s with mon := mon1 } view true,
             branch := if was then "delete.present" else "delete.absent", model := showModelView c1 })
    | _, _ => bad "delete"
  | ["get", ks] =>
    match ks.toNat?, getNat ofs "val" with
    | some k, some val =>
      let ok := if contains s.c k then true else true
      let monok := match s.mon.prev with
        | some p => if p.has k then lookup s.mon.lastW k == some (some val) else val == 0
        | none => true
      (s, { diffs := if ok && get s.c k == val then [] else ["get"],
            monfails := if monok then [] else ["C01.latest_or_zero"],
            branch := if contains s.c k then "get.hit" else "get.miss", model := s!"val={get s.c k}" })
    | _, _ => bad "get"
  | ["contains", ks] =>
    match ks.toNat?, getNat ofs "b" with
    | some k, some b =>
      let monok := match s.mon.prev with | some p => p.has k == (b != 0) | none => true
      (s, { diffs := if contains s.c k == (b != 0) then [] else ["has"],
            monfails := if monok then [] else ["C01.views_agree"],
            branch := if contains s.c k then "contains.hit" else "contains.miss", model := s!"b={contains s.c k}" })
    | _, _ => bad "contains"
  | ["sweep"] | ["view"] =>
    match parseView ofs with
    | some view =>
      let c1 := if toks == ["sweep"] then sweep s.c else s.c
      let s' := { s with c := c1, mon := { s.mon with prev := some view } }
      (s', { diffs := cmpView c1 view, monfails := monView s view true,
             branch := toks.headD "?", model := showModelView c1 })
    | none => bad "sweep"
  | ["clear"] =>
    match parseView ofs with
    | some view =>
      let c1 := clear s.c
      let mon1 := s.mon.onClear view.alpha
      let capBefore := match s.mon.prev with | some p => p.cap | none => view.cap
      let s' := { s with c := c1, mon := { mon1 with prev := some view }, afterSpecial := "clear",
                         text := s.text ++ ";" ++ op, flags := "clear" :: s.flags }
      (s', { diffs := cmpView c1 view,
             monfails := monView { s with mon := mon1 } view true ++
                         (if view.keys.isEmpty && view.len == 0 && view.cap == capBefore then [] else ["C13.clear_empty_same_capacity"]),
             branch := "clear", model := showModelView c1 })
    | none => bad "clear"
  | "resize" :: _ =>
    match getNat fs "n", getNat fs "pc", getNat ofs "freshcap", parseView ofs with
    | some n', some pc', some freshcap, some view =>
      let order := reconstructOrder s.c view.keys
      let c1 := sweep (resize s.c n' pc' order)
      let changed := n' != s.c.n || pc' != s.c.pc
      let before := s.mon.prev
      let mon1 := if changed then s.mon.onResize order.flatten view else s.mon
      let old := s.c
      let rz := match before with
        | some b => resizeOK b view freshcap (partOf old)
        | none => []
      let shr := c1.parts.length > 0 && len c1 < len s.c
      let s' := { s with c := c1, mon := { mon1 with prev := some view }, afterSpecial := "resize",
                         text := s.text ++ ";" ++ op,
                         flags := (if shr then ["resize.evicts"] else ["resize"]) ++ s.flags }
      let br := if !changed then "resize.same" else if shr then "resize.evicts"
                else if n' == old.n then "resize.samecount" else "resize.keepsall"
      (s', { diffs := cmpView c1 view ++ (if freshcap == n' * pc' then [] else ["freshcap"]),
             monfails := rz ++ monView { s with mon := mon1 } view true,
             branch := br, model := showModelView c1 })
    | _, _, _, _ => bad "resize"
  | _ => bad "unknown-op"

def nontrivial (s : CaseSt) : Bool :=
  (s.flags.contains "evict" && (s.flags.contains "update" || s.flags.contains "delete")) ||
  s.flags.contains "resize.evicts" || (s.flags.contains "resize" && s.flags.contains "evict")

partial def loop (h : IO.FS.Stream) (st : Stats) (cs : CaseSt) (caseNo : String) (lineNo : Nat) : IO Stats := do
  let line ← h.getLine
  let fin (st : Stats) : Stats :=
    if nontrivial cs then { st with nontrivial := st.nontrivial.insert (hash cs.text) } else st
  if line.isEmpty then return fin st
  let line := (line.dropEndWhile (· == '\n')).toString
  if line.startsWith "case " then
    let c := ((words line).getD 1 "?")
    loop h { fin st with cases := st.cases + 1 } {} c 0
  else if line.isEmpty then loop h st cs caseNo lineNo
  else
    let (op, obs) := splitTrace line
    let (cs', r) := step cs op obs
    let mut st := { st with ops := st.ops + 1 }
    st := st.bump r.branch
    let mut cs' := cs'
    if op.startsWith "capcheck" then
      st := { st with nontrivial := st.nontrivial.insert (hash op) }
    unless r.diffs.isEmpty do
      IO.println s!"DIFF case={caseNo} line={lineNo} fields={",".intercalate r.diffs} after={cs.afterSpecial} model=[{r.model}] impl=[{obs}] op=[{op}]"
      st := { st with diffs := st.diffs + 1 }
    for clause in r.monfails do
      IO.println s!"MONFAIL case={caseNo} line={lineNo} clause={clause} impl=[{obs}] op=[{op}]"
      st := { st with monfails := st.monfails + 1 }
    loop h st cs' caseNo (lineNo + 1)

def main : IO Unit := do
  let st ← loop (← IO.getStdin) {} {} "?" 0
  st.print

end Driver.Cache
