import Driver.Proto
/-! Generic driver for ungated stress components: the model's prediction is "every anomaly
    counter is zero"; each non-zero counter is a monitor failure of the clause it belongs to. -/
namespace Driver.Stress
open Driver

structure Spec where
  counters : List (String × String)        -- observation field ↦ clause
  crashClause : String
  raceClause : String → String             -- racefns ↦ clause

partial def loop (sp : Spec) (h : IO.FS.Stream) (st : Stats) (caseNo : String) (lineNo : Nat) : IO Stats := do
  let line ← h.getLine
  if line.isEmpty then return st
  let line := (line.dropEndWhile (· == '\n')).toString
  if line.startsWith "case " then loop sp h { st with cases := st.cases + 1 } ((words line).getD 1 "?") 0
  else if line.isEmpty then loop sp h st caseNo lineNo
  else
    let (op, obs) := splitTrace line
    let ofs := fieldsOf (words obs)
    let mut st := { st with ops := st.ops + 1, nontrivial := st.nontrivial.insert (hash op) }
    st := st.bump ((words op).headD "?")
    let crashed := obs.startsWith "crash:" || obs.startsWith "hang:" || obs.startsWith "bad-op"
    let clauses : List String :=
      if crashed then [sp.crashClause] else
      (sp.counters.filterMap fun (f, c) => if getNat ofs f == some 0 then none else some c) ++
      (if getNat ofs "races" == some 0 then [] else [sp.raceClause ((getF ofs "racefns").getD "")])
    unless clauses.isEmpty do
      IO.println s!"DIFF case={caseNo} line={lineNo} fields=stress model=[all counters zero] impl=[{obs}] op=[{op}]"
      st := { st with diffs := st.diffs + 1 }
    for clause in clauses.eraseDups do
      IO.println s!"MONFAIL case={caseNo} line={lineNo} clause={clause} impl=[{obs}] op=[{op}]"
      st := { st with monfails := st.monfails + 1 }
    loop sp h st caseNo (lineNo + 1)

def main (sp : Spec) : IO Unit := do
  let st ← loop sp (← IO.getStdin) {} "?" 0
  st.print

def contains (s sub : String) : Bool := (s.splitOn sub).length > 1

def wq : Spec :=
  { counters := [("lost", "C04.exactly_once_stress"), ("dup", "C04.exactly_once_stress"), ("dupids", "C04.ids_distinct"),
                 ("over", "C09.running_le_workers"), ("errmissing", "C14.exactly_once"), ("errdup", "C14.at_most_once_same_value"),
                 ("foreign", "C14.at_most_once_same_value"), ("left", "C04.workitems_exact")],
    crashClause := "C04.no_crash_no_hang",
    raceClause := fun fns => if contains fns "Errors" then "C14.no_data_race" else "C04.no_data_race" }

def cache : Spec :=
  { counters := [("panics", "C08.no_panic"), ("badget", "C08.get_was_set"), ("viewbad", "C08.views_consistent_at_quiescence"),
                 ("swbad", "C08.single_writer_last_value_or_absent"), ("missing", "C08.nothing_missing_within_capacity"),
                 ("sweeperleft", "C08.cancel_ends_sweeper"), ("hang", "C08.no_deadlock"),
                 -- keys re-inserted right after their eviction (the background sweep may still be finishing) are present at rest
                 ("renewmissing", "C03.reinsert_renews")],
    crashClause := "C08.no_panic",
    raceClause := fun _ => "C08.no_data_race" }

end Driver.Stress
