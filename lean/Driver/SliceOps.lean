import TV.Model.SliceOps
import TV.Monitor.SliceOps
import Driver.Proto
/-! Driver component for sliceOps (C12). -/
namespace Driver.SliceOps
open TV.SliceOps Driver

def sentinel : Nat := 77777

/-- model observation + monitor verdict (on the implementation's observation) + branch + nontrivial? -/
structure Res where
  model : String
  mon : Option String := none   -- some clause = monitor failed
  branch : String
  nontrivial : Bool

def showSlice (s : Slice Nat) : String := s!"arr={showNatList s.arr} len={s.len}"

def hasDup (l : List Nat) : Bool := !(nodupB l)

def obsField (obs : String) (k : String) : Option String := getF (fieldsOf (words obs)) k

/-- the monitor for set functions: impl output duplicate-free, set-equal to spec, inputs untouched. -/
def monSet (obs : String) (ok : List Nat → Bool) : Option String :=
  if obs == "panic" then some "panic" else
  match (obsField obs "out").bind parseNatList, obsField obs "pure" with
  | some out, some p =>
    if !(ok out) then some "not-set-equal-or-duplicate"
    else if p != "1" then some "input-modified-or-aliased"
    else none
  | _, _ => some "unparsable"

def sortL (l : List Nat) : List Nat := (l.toArray.qsort (· < ·)).toList

def step (op obs : String) : Res :=
  let toks := words op
  let fs := fieldsOf toks
  let bad : Res := { model := "bad-op", mon := some "bad-op", branch := "bad-op", nontrivial := false }
  match toks.head? with
  | some "remove" =>
    match getList fs "A", getNat fs "n", getNat fs "i", getNat fs "j" with
    | some a, some n, some i, some j =>
      match remove { arr := a, len := n } i j with
      | some s' => { model := showSlice s', mon := if obs == showSlice s' then none else some "remove-result",
                     branch := if i < j then "remove.nonempty" else "remove.empty", nontrivial := i < j }
      | none => { model := "panic", mon := none, branch := "remove.panic", nontrivial := true }
    | _, _, _, _ => bad
  | some "cut" =>
    match getList fs "A", getNat fs "n", getNat fs "i", getNat fs "j" with
    | some a, some n, some i, some j =>
      match cut { arr := a, len := n } i j with
      | some (out, s') =>
        let m := s!"out={showNatList out} {showSlice s'}"
        { model := m, mon := if obs == m then none else some "cut-result",
          branch := if i < j then "cut.nonempty" else "cut.empty", nontrivial := i < j }
      | none => { model := "panic", branch := "cut.panic", nontrivial := true }
    | _, _, _, _ => bad
  | some "insert" =>
    match getList fs "s", getNat fs "i", getList fs "v" with
    | some s, some i, some v =>
      match insert s i v with
      | some out =>
        let m := s!"out={showNatList out}"
        { model := m, mon := if obs == m then none else some "insert-result",
          branch := if v.isEmpty then "insert.nothing" else "insert.some", nontrivial := !v.isEmpty }
      | none => { model := "panic", branch := "insert.panic", nontrivial := true }
    | _, _, _ => bad
  | some "filter" =>
    match getList fs "A", getNat fs "n", getList fs "keep" with
    | some a, some n, some keep =>
      let s' := filterInPlace { arr := a, len := n } (fun x => keep.contains x)
      let m := showSlice s'
      { model := m, mon := if obs == m then none else some "filter-result",
        branch := if s'.len < n then "filter.drops" else "filter.keepsall", nontrivial := s'.len < n && 0 < s'.len }
    | _, _, _ => bad
  | some "push" =>
    match getList fs "s", getList fs "v" with
    | some s, some v =>
      let m := s!"out={showNatList (push s v)}"
      { model := m, mon := if obs == m then none else some "push-result", branch := "push", nontrivial := !v.isEmpty && !s.isEmpty }
    | _, _ => bad
  | some "pop" =>
    match getList fs "A", getNat fs "n" with
    | some a, some n =>
      match pop { arr := a, len := n } with
      | (v, some s') =>
        let m := s!"val={v} {showSlice s'}"
        { model := m, mon := if obs == m then none else some "pop-result",
          branch := if n == 0 then "pop.empty" else "pop.nonempty", nontrivial := 1 < n }
      | (_, none) => { model := "panic", branch := "pop.panic", nontrivial := true }
    | _, _ => bad
  | some "distinct" =>
    match getList fs "s" with
    | some s =>
      let out := distinct s
      { model := s!"out={showNatList (sortL out)} pure=1", mon := monSet obs (monDistinct s),
        branch := if hasDup s then "distinct.dups" else "distinct.nodups", nontrivial := hasDup s }
    | _ => bad
  | some "union" =>
    match getLists fs "ss" with
    | some ss =>
      { model := s!"out={showNatList (sortL (union ss))} pure=1", mon := monSet obs (monUnion ss),
        branch := s!"union.k{min ss.length 3}", nontrivial := hasDup ss.flatten }
    | _ => bad
  | some "intersection" =>
    match getLists fs "ss" with
    | some ss =>
      { model := s!"out={showNatList (sortL (intersection ss))} pure=1", mon := monSet obs (monIntersection ss),
        branch := s!"intersection.k{min ss.length 3}" ++ (if ss.any hasDup then ".dups" else ""),
        nontrivial := hasDup ss.flatten }
    | _ => bad
  | some "disjoin" =>
    match getLists fs "ss" with
    | some ss =>
      { model := s!"out={showNatList (sortL (disjoin ss))} pure=1", mon := monSet obs (monDisjoin ss),
        branch := s!"disjoin.k{min ss.length 3}" ++ (if ss.any hasDup then ".dups" else ""),
        nontrivial := hasDup ss.flatten }
    | _ => bad
  | some "difference" =>
    match getLists fs "ss" with
    | some [s1, s2] =>
      { model := s!"out={showNatList (sortL (difference s1 s2))} pure=1", mon := monSet obs (monDifference s1 s2),
        branch := if hasDup s1 then "difference.dups" else "difference.nodups", nontrivial := hasDup (s1 ++ s2) }
    | _ => bad
  | _ => bad

/-- canonical form of the implementation's observation for the diff (set results sorted). -/
def canonImpl (op obs : String) : String :=
  match (words op).head? with
  | some "distinct" | some "union" | some "intersection" | some "disjoin" | some "difference" =>
    match (obsField obs "out").bind parseNatList, obsField obs "pure" with
    | some out, some p => s!"out={showNatList (sortL out)} pure={p}"
    | _, _ => obs
  | _ => obs

partial def loop (h : IO.FS.Stream) (st : Stats) (caseNo : String) (lineNo : Nat) : IO Stats := do
  let line ← h.getLine
  if line.isEmpty then return st
  let line := (line.dropEndWhile (· == '\n')).toString
  if line.startsWith "case " then
    let c := ((words line).getD 1 "?")
    loop h { st with cases := st.cases + 1 } c 0
  else if line.isEmpty then loop h st caseNo lineNo
  else
    let (op, obs) := splitTrace line
    let r := step op obs
    let mut st := { st with ops := st.ops + 1 }
    st := st.bump r.branch
    if r.nontrivial then st := { st with nontrivial := st.nontrivial.insert (hash op) }
    if canonImpl op obs != r.model then
      IO.println s!"DIFF case={caseNo} line={lineNo} model=[{r.model}] impl=[{obs}] op=[{op}]"
      st := { st with diffs := st.diffs + 1 }
    match r.mon with
    | some clause =>
      IO.println s!"MONFAIL case={caseNo} line={lineNo} clause={clause} impl=[{obs}] op=[{op}]"
      st := { st with monfails := st.monfails + 1 }
    | none => pure ()
    loop h st caseNo (lineNo + 1)

def main : IO Unit := do
  let st ← loop (← IO.getStdin) {} "?" 0
  st.print

end Driver.SliceOps
