import TV.Model.SafeMap
import TV.Model.LinCheck
import Driver.Proto
/-! Driver component for SafeMap / SyncMap (C07): sequential diff against the ordinary-map
    specification for every instantiation, and the linearizability decision procedure on
    concurrent histories recorded from the real code. -/
namespace Driver.Maps
open TV.SafeMap TV.LinCheck Driver
open TV.FifoCache (AL alHas)

abbrev M := AL Nat Nat

def sortN (l : List Nat) : List Nat := (l.toArray.qsort (· < ·)).toList

def showMap (m : M) : String :=
  let ps := (m.toArray.qsort (fun a b => a.1 < b.1)).toList
  if ps.isEmpty then "-" else ",".intercalate (ps.map fun (k, v) => s!"{k}:{v}")

def toOp (name : String) (k v w : Nat) : Option (Op Nat Nat) :=
  match name with
  | "contains" => some (.contains k) | "has" => some (.has k) | "get" => some (.get k)
  | "getoradd" => some (.getOrAdd k v) | "set" => some (.set k v) | "delete" => some (.delete k)
  | "clear" | "clearresize" => some .clear | "len" => some .len | "keys" => some .keys | "values" => some .values
  | "copy" | "translate" | "range" | "iterate" => some .copyToMap
  | "load" => some (.load k) | "store" => some (.store k v) | "swap" => some (.swap k v)
  | "loadorstore" => some (.loadOrStore k v) | "loadanddelete" => some (.loadAndDelete k)
  | "cad" => some (.compareAndDelete k v) | "cas" => some (.compareAndSwap k v w)
  | _ => none

def showRet (name : String) : Ret Nat Nat → String
  | .unit => "ok"
  | .bool b => s!"b={if b then 1 else 0}"
  | .val v => s!"v={v}"
  | .valOk v ok => s!"v={v} ok={if ok then 1 else 0}"
  | .nat n => s!"n={n}"
  | .keys ks => s!"keys={showNatList (sortN ks)}"
  | .vals vs => s!"vals={showNatList (sortN vs)}"
  | .map m => if name == "copy" || name == "translate" then s!"map={showMap m} alias=0" else s!"map={showMap m}"

def dotParts (s : String) : List String := ((s.drop 1).toString.splitOn ".").filter (· ≠ "")

/-- short return encoding used in recorded histories. -/
def parseShortRet (s : String) : Option (Ret Nat Nat) :=
  if s == "u" then some .unit
  else if s.startsWith "v" then (s.drop 1).toString.toNat?.map .val
  else if s.startsWith "b" then (s.drop 1).toString.toNat?.map (fun n => .bool (n != 0))
  else if s.startsWith "n" then (s.drop 1).toString.toNat?.map .nat
  else if s.startsWith "K" then (dotParts s).mapM String.toNat? |>.map .keys
  else if s.startsWith "V" then (dotParts s).mapM String.toNat? |>.map .vals
  else if s.startsWith "M" then
    ((dotParts s).mapM fun (e : String) =>
      match e.splitOn "_" with
      | [a, b] => do let a ← a.toNat?; let b ← b.toNat?; some (a, b)
      | _ => none) |>.map .map
  else if s.startsWith "o" then
    match (s.drop 1).toString.splitOn "." with
    | [a, b] => do let a ← a.toNat?; let b ← b.toNat?; some (.valOk a (b != 0))
    | _ => none
  else none

def parseRec (s : String) : Option (Rec (Op Nat Nat) (Ret Nat Nat)) :=
  match s.splitOn ":" with
  | [t, op, k, v, w, ret, c, e] => do
    let t ← t.toNat?; let k ← k.toNat?; let v ← v.toNat?; let w ← w.toNat?; let c ← c.toNat?; let e ← e.toNat?
    let o ← toOp op k v w
    let r ← parseShortRet ret
    some { t := t, op := o, r := r, c := c, e := e }
  | _ => none

structure R where
  model : String
  mon : List String := []
  branch : String

def contains (s sub : String) : Bool := (s.splitOn sub).length > 1

def step (m : M) (op obs : String) : M × R :=
  let toks := words op
  let fs := fieldsOf toks
  let ofs := fieldsOf (words obs)
  let name := toks.headD "?"
  if obs == "panic" then (m, { model := "no-panic", mon := ["C07.no_panic"], branch := name ++ ".panic" }) else
  match name with
  | "new" => ([], { model := "ok", branch := "new." ++ ((getF fs "kind").getD "?") })
  | "goadel" =>
    let z := getNat ofs "zero" == some 0
    let rc := getNat ofs "races" == some 0
    (m, { model := "zero=0 races=0", mon := (if z then [] else ["C07.getOrAdd_one_winner"]) ++ (if rc then [] else ["C07.no_data_race"]), branch := "goadel" })
  | "nilops" =>
    let ok := getNat ofs "panics" == some 0 && getNat ofs "wrong" == some 0
    (m, { model := "panics=0 wrong=0 which=-", mon := if ok then [] else ["C07.type_faithful_nil_interface"], branch := "nilops" })
  | "hist" =>
    let recs := ((getF ofs "ops").getD "").splitOn ";" |>.filterMap parseRec
    let n := ((getF ofs "ops").getD "").splitOn ";" |>.length
    -- Go maps have no order: snapshots are compared as sorted lists on both sides
    let canonRet : Ret Nat Nat → Ret Nat Nat
      | .keys ks => .keys (sortN ks)
      | .vals vs => .vals (sortN vs)
      | .map mm => .map ((mm.toArray.qsort (fun a b => a.1 < b.1)).toList)
      | r => r
    let applyCanon (mm : M) (o : Op Nat Nat) : M × Ret Nat Nat := let (m', r) := apply mm o; (m', canonRet r)
    let lin := recs.length == n && linCheck applyCanon ([] : M) recs
    let rc := getNat ofs "races" == some 0
    (m, { model := "linearizable races=0", mon := (if lin then [] else ["C07.linearizable"]) ++ (if rc then [] else ["C07.no_data_race"]),
          branch := s!"hist.{(getF fs "obj").getD "?"}.n{recs.length}" })
  | _ =>
    match toOp name ((getNat fs "k").getD 0) ((getNat fs "v").getD 0) ((getNat fs "w").getD 0) with
    | none => (m, { model := "bad-op", mon := ["protocol"], branch := "bad" })
    | some o =>
      let (m', r) := apply m o
      let ms := showRet name r
      let hit := match o with
        | .get k | .load k | .getOrAdd k _ | .loadOrStore k _ | .swap k _ | .loadAndDelete k | .contains k | .has k
        | .compareAndDelete k _ | .compareAndSwap k _ _ => if alHas m k then ".hit" else ".miss"
        | _ => ""
      let clause := if contains obs "alias=" && !(contains obs "alias=0") then ["C07.snapshots_do_not_alias"]
                    else if obs != ms then ["C07.ordinary_map_semantics"] else []
      (m', { model := ms, mon := clause, branch := name ++ hit })

def canon (op obs : String) : String :=
  match (words op).headD "?" with
  | "goadel" => let ofs := fieldsOf (words obs); s!"zero={(getNat ofs "zero").getD 99} races={(getNat ofs "races").getD 99}"
  | "hist" => "linearizable races=" ++ toString ((getNat (fieldsOf (words obs)) "races").getD 99)
  | _ => obs

partial def loop (h : IO.FS.Stream) (st : Stats) (m : M) (text : String) (caseNo : String) (lineNo : Nat) : IO Stats := do
  let line ← h.getLine
  let fin (st : Stats) : Stats := if text.length > 40 then { st with nontrivial := st.nontrivial.insert (hash text) } else st
  if line.isEmpty then return fin st
  let line := (line.dropEndWhile (· == '\n')).toString
  if line.startsWith "case " then
    loop h { fin st with cases := st.cases + 1 } [] "" ((words line).getD 1 "?") 0
  else if line.isEmpty then loop h st m text caseNo lineNo
  else
    let (op, obs) := splitTrace line
    let (m', r) := step m op obs
    let mut st := { st with ops := st.ops + 1 }
    st := st.bump r.branch
    let isHist := op.startsWith "hist"
    let differs := if isHist then !r.mon.isEmpty else r.model != canon op obs
    if differs then
      IO.println s!"DIFF case={caseNo} line={lineNo} model=[{r.model}] impl=[{obs.take 600}] op=[{op}]"
      st := { st with diffs := st.diffs + 1 }
    for clause in r.mon do
      IO.println s!"MONFAIL case={caseNo} line={lineNo} clause={clause} impl=[{obs.take 600}] op=[{op}]"
      st := { st with monfails := st.monfails + 1 }
    loop h st m' (text ++ ";" ++ op) caseNo (lineNo + 1)

def main : IO Unit := do
  let st ← loop (← IO.getStdin) {} [] "" "?" 0
  st.print

end Driver.Maps
