import Std.Data.HashSet
/-! Line-protocol helpers shared by all driver components (core-only). -/
namespace Driver

def parseNatList (s : String) : Option (List Nat) :=
  if s == "-" || s == "" then some []
  else (s.splitOn ",").mapM (·.toNat?)

def parseNatLists (s : String) : Option (List (List Nat)) :=
  if s == "none" then some []
  else (s.splitOn ";").mapM parseNatList

def showNatList (l : List Nat) : String :=
  if l.isEmpty then "-" else ",".intercalate (l.map toString)

def showNatLists (l : List (List Nat)) : String :=
  if l.isEmpty then "none" else ";".intercalate (l.map showNatList)

/-- `k=v` fields of an op line. -/
def fieldsOf (toks : List String) : List (String × String) :=
  toks.filterMap fun t =>
    match t.splitOn "=" with
    | [k, v] => some (k, v)
    | _ => none

def getF (fs : List (String × String)) (k : String) : Option String := fs.lookup k
def getNat (fs : List (String × String)) (k : String) : Option Nat := (fs.lookup k).bind (·.toNat?)
def getList (fs : List (String × String)) (k : String) : Option (List Nat) := (fs.lookup k).bind parseNatList
def getLists (fs : List (String × String)) (k : String) : Option (List (List Nat)) := (fs.lookup k).bind parseNatLists

/-- Running totals printed as STATS / BR lines at the end. -/
structure Stats where
  cases : Nat := 0
  ops : Nat := 0
  diffs : Nat := 0
  monfails : Nat := 0
  nontrivial : Std.HashSet UInt64 := {}
  branches : List (String × Nat) := []

def Stats.bump (s : Stats) (b : String) : Stats :=
  let rec go : List (String × Nat) → List (String × Nat)
    | [] => [(b, 1)]
    | (k, n) :: r => if k == b then (k, n + 1) :: r else (k, n) :: go r
  { s with branches := go s.branches }

def Stats.print (s : Stats) : IO Unit := do
  IO.println s!"STATS cases={s.cases} ops={s.ops} diffs={s.diffs} monfails={s.monfails} distinct_nontrivial={s.nontrivial.size}"
  for (k, n) in s.branches do
    IO.println s!"BR {k}={n}"

/-- split a trace line "op ... => obs" -/
def splitTrace (line : String) : String × String :=
  match line.splitOn " => " with
  | [a, b] => (a, b)
  | _ => (line, "")

def words (s : String) : List String := (s.splitOn " ").filter (· ≠ "")

end Driver
