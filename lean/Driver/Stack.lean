import TV.Model.GenericStack
import Driver.Proto
/-! Driver component for GenericStack (C11): sequential diff against the heap-based model, the
    FIFO-by-id specification as monitor; concurrent stress summaries checked against zero. -/
namespace Driver.Stack
open TV.GenericStack Driver

def showOut : Out Nat → String
  | .id n => s!"id={n}"
  | .val v => s!"val={v}"
  | .found v => s!"found={v}"
  | .notFound => "notfound"
  | .nat n => s!"n={n}"
  | .vals l => s!"vals={showNatList l}"

def parseOp (toks : List String) : Option (Op Nat) :=
  match toks with
  | ["push", v] => v.toNat?.map .push
  | ["pop"] => some .pop
  | ["peek", i] => i.toNat?.map .peek
  | ["len"] => some .len
  | ["values"] => some .values
  | _ => none

structure CaseSt where
  s : Stack Nat := new
  sp : Spec Nat := Spec.new
  pops : Nat := 0
  pushes : Nat := 0
  text : String := ""

structure R where
  model : String
  mon : List String := []
  branch : String

def zeroFields (obs : String) (ks : List String) : List String :=
  let fs := fieldsOf (words obs)
  ks.filter (fun k => getNat fs k != some 0)

def step (cs : CaseSt) (op obs : String) : CaseSt × R :=
  let toks := words op
  if obs == "panic" then (cs, { model := "no-panic", mon := ["C11.no_panic"], branch := "panic" }) else
  match toks.head? with
  | some "new" => ({}, { model := "ok", branch := "new" })
  | some "pushorder" =>
    let bad := zeroFields obs ["panics", "wrong", "races"]
    (cs, { model := "panics=0 wrong=0 races=0", mon := bad.map (fun k => if k == "wrong" then "C11.concurrent.pop_order_by_id" else "C11.concurrent." ++ k), branch := "pushorder" })
  | some "peeklive" =>
    let bad := zeroFields obs ["panics", "wrong", "races"]
    (cs, { model := "panics=0 wrong=0 races=0", mon := bad.map (fun k => if k == "wrong" then "C11.concurrent.peek_finds_live_id" else "C11.concurrent." ++ k), branch := "peeklive" })
  | some "twopop" =>
    let bad := zeroFields obs ["panics", "wrong", "races"]
    (cs, { model := "panics=0 wrong=0 races=0", mon := bad.map ("C11.concurrent." ++ ·), branch := "twopop" })
  | some "stress" =>
    let bad := zeroFields obs ["panics", "lost", "dup", "invented", "dupids", "peekbad", "races"]
    let fs := fieldsOf (words obs)
    let lenOK := getNat fs "len" == getNat fs "remaining"
    (cs, { model := "panics=0 lost=0 dup=0 invented=0 dupids=0 peekbad=0 races=0",
           mon := bad.map ("C11.concurrent." ++ ·) ++ (if lenOK then [] else ["C11.concurrent.len"]), branch := "stress" })
  | _ =>
    match parseOp toks with
    | none => (cs, { model := "bad-op", mon := ["protocol"], branch := "bad" })
    | some o =>
      let (s', out) := TV.GenericStack.step cs.s o
      let (sp', sout) := Spec.step cs.sp o
      let br := match o with
        | .push _ => "push"
        | .pop => if cs.sp.q.isEmpty then "pop.empty" else "pop.nonempty"
        | .peek id => if (cs.sp.q.find? (·.1 == id)).isSome then "peek.found" else if id ≤ cs.sp.next && 0 < id then "peek.popped" else "peek.never"
        | .len => "len"
        | .values => "values"
      let cs' := { cs with s := s', sp := sp', text := cs.text ++ ";" ++ op,
                           pops := cs.pops + (if br == "pop.nonempty" then 1 else 0),
                           pushes := cs.pushes + (if br == "push" then 1 else 0) }
      (cs', { model := showOut out, mon := if obs == showOut sout then [] else ["C11.fifo_spec"], branch := br })

def canonImpl (op obs : String) : String :=
  match (words op).head? with
  | some "twopop" | some "pushorder" | some "peeklive" => let fs := fieldsOf (words obs); s!"panics={(getNat fs "panics").getD 0} wrong={(getNat fs "wrong").getD 0} races={(getNat fs "races").getD 0}"
  | some "stress" =>
    let fs := fieldsOf (words obs)
    let g (k : String) := (getNat fs k).getD 0
    s!"panics={g "panics"} lost={g "lost"} dup={g "dup"} invented={g "invented"} dupids={g "dupids"} peekbad={g "peekbad"} races={g "races"}"
  | _ => obs

partial def loop (h : IO.FS.Stream) (st : Stats) (cs : CaseSt) (caseNo : String) (lineNo : Nat) : IO Stats := do
  let line ← h.getLine
  let fin (st : Stats) : Stats :=
    if cs.pops ≥ 2 && cs.pushes ≥ 3 then { st with nontrivial := st.nontrivial.insert (hash cs.text) } else st
  if line.isEmpty then return fin st
  let line := (line.dropEndWhile (· == '\n')).toString
  if line.startsWith "case " then
    loop h { fin st with cases := st.cases + 1 } {} ((words line).getD 1 "?") 0
  else if line.isEmpty then loop h st cs caseNo lineNo
  else
    let (op, obs) := splitTrace line
    let (cs', r) := step cs op obs
    let mut st := { st with ops := st.ops + 1 }
    st := st.bump r.branch
    if op.startsWith "stress" || op.startsWith "twopop" || op.startsWith "pushorder" || op.startsWith "peeklive" then
      st := { st with nontrivial := st.nontrivial.insert (hash op) }
    if r.model != canonImpl op obs then
      IO.println s!"DIFF case={caseNo} line={lineNo} model=[{r.model}] impl=[{obs}] op=[{op}]"
      st := { st with diffs := st.diffs + 1 }
    for clause in r.mon do
      IO.println s!"MONFAIL case={caseNo} line={lineNo} clause={clause} impl=[{obs}] op=[{op}]"
      st := { st with monfails := st.monfails + 1 }
    loop h st cs' caseNo (lineNo + 1)

def main : IO Unit := do
  let st ← loop (← IO.getStdin) {} {} "?" 0
  st.print

end Driver.Stack
