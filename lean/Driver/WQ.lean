import TV.Model.WorkQueue
import TV.Monitor.WorkQueue
import Driver.Proto
/-!
Driver component for the WorkQueue (C04 C05 C09 C14 C16 C19): gated scripts observed at
quiescent points.  For every stimulus the driver explores *all* interleavings of the model's
internal steps down to quiescence and keeps the quiescent successors whose observation equals
the implementation's (DESIGN §3.5).
-/
namespace Driver.WQ
open TV.WorkQueue TV.WorkQueue.Mon Driver

/-- in *fifo* mode blocked producers are admitted (or give up) in the order in which they blocked: the Go
    runtime queues blocked senders of a channel first-in-first-out, and the harness lets every producer block
    before it issues the next operation.  This is a search order, not an assumption: when no candidate found in
    fifo mode matches an observation, the whole case is replayed with every admission order (see `loop`). -/
def actsFor (fifo : Bool) (s : St) : List Act :=
  let acts := internalActs s
  if !fifo then acts else
  match s.blocked.head? with
  | none => acts
  | some h => acts.filter fun a => match a with
      | .recv id => id == h.id
      | .giveUp id => id == h.id
      | _ => true

/-- all quiescent states reachable from the states on the stack by internal steps. -/
def quiesceAux (fifo : Bool) : Nat → List St → List St → List St → List St
  | 0, _, _, q => q
  | _ + 1, [], _, q => q
  | f + 1, s :: rest, seen, q =>
    if seen.contains s then quiesceAux fifo f rest seen q else
    let acts := actsFor fifo s
    if acts.isEmpty then quiesceAux fifo f rest (s :: seen) (s :: q)
    else quiesceAux fifo f (acts.filterMap (step? s) ++ rest) (s :: seen) q

def quiesce (fifo : Bool) (s : St) : List St := quiesceAux fifo 20000 [s] [] []

def dispName : Disp → String
  | .idle => "select" | .fullWait _ => "wait" | .handOff _ _ => "wait"
  | .drain _ => "wait" | .await => "wait" | .exited => "gone"
def monName : Mon → String
  | .idle => "select" | .fanout _ _ => "send" | .exited => "gone"

def sortN (l : List Nat) : List Nat := (l.toArray.qsort (· < ·)).toList

/-- the model's observation record. -/
def obsOf (s : St) : Obs :=
  let st := stored s
  let items := (st.map fun it => (it.id, it.prio, inProgress s it.id))
  let items := (items.toArray.qsort (fun a b => a.1 < b.1)).toList
  { started := s.started, returned := sortN (s.accepted ++ s.rejected), items := items,
    errs := (List.range s.subs).map (fun k => (s.inbox.filter (·.1 == k)).map (·.2)),
    disp := dispName s.disp, mon := monName s.mon,
    wfree := freeWorkers s, wrun := s.running.length, wsend := s.errSend.length + s.tokPend, prod := s.blocked.length }

def parseItems (s : String) : Option (List (Nat × Int × Bool)) :=
  if s == "none" then some [] else
  (s.splitOn ";").mapM fun e =>
    match e.splitOn ":" with
    | [i, p, st] => do
      let i ← i.toNat?
      let p ← p.toInt?
      some (i, p, st == "P")
    | _ => none

def parseErrs (s : String) : Option (List (List Nat)) :=
  if s == "none" then some [] else (s.splitOn ";").mapM parseNatList

def parseObs (fs : List (String × String)) : Option Obs := do
  let started ← getList fs "started"
  let returned ← getList fs "returned"
  let items ← (getF fs "items").bind parseItems
  let errs ← (getF fs "errs").bind parseErrs
  let disp ← getF fs "disp"
  let mon ← getF fs "mon"
  let wfree ← getNat fs "wfree"
  let wrun ← getNat fs "wrun"
  let wsend ← getNat fs "wsend"
  let prod ← getNat fs "prod"
  return { started, returned, items, errs, disp, mon, wfree, wrun, wsend, prod }

def showObs (o : Obs) : String :=
  let items := if o.items.isEmpty then "none" else
    ";".intercalate (o.items.map fun (i, p, st) => s!"{i}:{p}:{if st then "P" else "Q"}")
  let errs := if o.errs.isEmpty then "none" else ";".intercalate (o.errs.map showNatList)
  s!"started={showNatList o.started} returned={showNatList o.returned} items={items} errs={errs} disp={o.disp} mon={o.mon} wfree={o.wfree} wrun={o.wrun} wsend={o.wsend} prod={o.prod}"

structure CaseSt where
  cands : List St := []
  m : MSt := {}
  dead : Bool := false        -- model and implementation diverged: the rest of the case is skipped
  feats : List String := []
  text : String := ""
  prevStarted : List Nat := []
  fifo : Bool := true         -- search mode (see `actsFor`)
  hist : List (String × String) := []   -- the case so far, newest first (for the replay in full mode)

structure R where
  diffs : List String := []
  mon : List String := []
  branch : String := "?"
  model : String := ""

/-- priorities the dispatcher compares at a decision: the adjust value where there is one. -/
def effPrio (s : St) (it : Item) : Int := if it.adj then adjVal s it else it.prio

/-- a crash or a hang of the queue is a violation of every property that promises that work runs, that the queue
    keeps its pace, that errors are reported and subscribing is safe, or that a call returns without panic. -/
def crashClauses : List String :=
  ["C19.no_crash_no_hang", "C04.no_crash_no_hang", "C09.no_crash_no_hang", "C14.no_crash_no_hang", "C16.no_crash_no_hang"]

/-- C05 (with the model's knowledge of who was waiting in the queue): if `m` was waiting and has
    now started, no item that was waiting with it and is still waiting comes before it. -/
def priorityOrderOK (before : St) (o : Obs) (newly : List Nat) : Bool :=
  newly.all fun mid =>
    match findId before.heap mid with
    | none => true        -- passed straight to a worker / already handed off: outside the comparison
    | some m =>
      before.heap.all fun x =>
        x.id == mid || o.started.contains x.id ||
        !(effPrio before x < effPrio before m || (effPrio before x == effPrio before m && x.id < m.id))

/-- apply an environment action to every candidate, explore to quiescence. -/
def advance (fifo : Bool) (cands : List St) (f : St → Option St) : List St :=
  (cands.filterMap f).flatMap (quiesce fifo) |>.eraseDups

/-- the error monitor has retired while a worker is still blocked handing it an error: nobody will ever receive it, the
    worker never returns its token and whatever waits behind it never runs. -/
def reportStuck (o : Obs) : List String :=
  if o.mon == "gone" && o.wsend > 0 then ["C19.no_crash_no_hang", "C14.reporting_does_not_block_work"] else []

def monAlways (cs : CaseSt) (o : Obs) : List String :=
  reportStuck o ++
  (if atMostOnce o then [] else ["C04.at_most_once"]) ++
  (if workItemsOK cs.m o then [] else ["C04.workitems_exact"]) ++
  (if workersOK cs.m o then [] else ["C09.running_le_workers"]) ++
  -- model-free count: a work function that has started and whose gate has not been released is executing, whichever
  -- goroutine it runs on; there are never more of them than workers
  (if (o.started.filter fun i => !(cs.m.released.any (·.1 == i))).length ≤ cs.m.W then [] else ["C09.running_le_workers"]) ++
  (if workConserving cs.m o then [] else ["C09.work_conserving"]) ++
  (if backPressure cs.m o then [] else ["C09.back_pressure"]) ++
  (if errorsOK cs.m o then [] else ["C14.at_most_once_same_value"]) ++
  (if errorsComplete cs.m o then [] else ["C14.exactly_once"]) ++
  (if dequeuedNeverStart cs.m o cs.prevStarted then [] else ["C16.dequeue_nil_never_starts"]) ++
  (if afterStopOK cs.m o then [] else ["C19.after_stop_never_run"])

def step (cs : CaseSt) (op obs : String) : CaseSt × R :=
  let toks := words op
  let fs := fieldsOf toks
  let ofs := fieldsOf (words obs)
  -- model-free storm summaries: every counter must be zero (a panic is observed as a crash below)
  if toks.headD "?" == "stopstorm" && !(obs.startsWith "crash:" || obs.startsWith "hang:") then
    let bad := ["hung", "notrun", "twice"].filter (fun k => getNat ofs k != some 0)
    (cs, { mon := bad.map (fun k => if k == "hung" then "C19.no_crash_no_hang" else "C19.stop_runs_accepted_once"),
           diffs := if bad.isEmpty then [] else ["storm"], branch := "stopstorm", model := "storm hung=0 notrun=0 twice=0" })
  else
  let crashed := obs.startsWith "crash:" || obs.startsWith "hang:" || (obs.splitOn "noquiesce").length > 1
  if cs.dead then
    -- model and implementation have diverged: only the clauses that need no model state are still evaluated
    if crashed then
      if cs.feats.contains "crashed" then (cs, { branch := "skipped-after-divergence" })
      else ({ cs with feats := "crashed" :: cs.feats }, { mon := crashClauses, branch := "crash" })
    else match parseObs ofs with
      | none => (cs, { branch := "skipped-after-divergence" })
      | some o =>
        let kind := toks.headD "?"
        let m' : MSt := match kind with
          | "rel" => (match (getF ofs "id").bind (·.toNat?) with
              | some id => { cs.m with released := cs.m.released ++ [(id, getF fs "err" == some "1")] } | none => cs.m)
          | "enq" => { cs.m with enq := cs.m.enq ++ [(cs.m.enq.length, ((getF fs "prio").bind (·.toInt?)).getD 1, getF fs "adj" == some "1", cs.m.subs)] }
          | "sub" => { cs.m with subs := cs.m.subs + 1 }
          | "resize" => let L := (getNat fs "L").getD 1; { cs.m with Lmin := min cs.m.Lmin L, Lmax := max cs.m.Lmax L }
          | "stop" | "brk" => { cs.m with stopAt := match cs.m.stopAt with | some x => some x | none => some (o.returned, cs.m.enq.length), broke := cs.m.broke || kind == "brk" }
          | "deq" =>
            let id := (getNat fs "id").getD 0
            -- model-free: Dequeue answered nil for an item that exists and has not started: it must never start
            if getF ofs "ret" == some "nil" then
              (if id < cs.m.enq.length && !o.started.contains id then { cs.m with deqNil := cs.m.deqNil ++ [id] } else cs.m)
            else if getF ofs "ret" == some "error" then { cs.m with deqErr := cs.m.deqErr ++ [id] } else cs.m
          | _ => cs.m
        let sawDeq := cs.feats.contains "deq" || kind == "deq"
        let cs1 := { cs with m := m', feats := if sawDeq && !cs.feats.contains "deq" then "deq" :: cs.feats else cs.feats }
        let free : List String :=
          (if atMostOnce o then [] else ["C04.at_most_once"]) ++
          (if workersOK m' o then [] else ["C09.running_le_workers"]) ++
          (if errorsOK m' o then [] else ["C14.at_most_once_same_value"]) ++
          (if dequeuedNeverStart m' o cs.prevStarted then [] else ["C16.dequeue_nil_never_starts"]) ++ reportStuck o ++
          (match m'.stopAt with | some (_, n) => if o.started.all (· < n) then [] else ["C19.after_stop_never_run"] | none => [])
        ({ cs1 with prevStarted := o.started },
         { mon := free ++ (if kind == "final" && !sawDeq then (finalOK m' o).map (fun c => if c == "C04.never_dropped" && m'.stopAt.isSome then "C19.stop_runs_accepted_once" else c) else []),
           branch := "after-divergence" })
  else
  if crashed then
    ({ cs with dead := true, feats := "crashed" :: cs.feats }, { diffs := ["alive"], mon := crashClauses, branch := "crash", model := "alive" }) else
  match parseObs ofs with
  | none => ({ cs with dead := true }, { diffs := ["protocol"], mon := ["protocol.unparsable"], branch := "bad" })
  | some o =>
    let kind := toks.headD "?"
    -- model side: the environment action and the expected prefix fields (id= / ret= / got=)
    let before := cs.cands.headD (init 1 1)
    -- per operation: the model action `f`, the test `pre` that a candidate is consistent with the value the
    -- implementation returned (id= / ret= / got=), and the monitor's bookkeeping.  Candidates differ only in what
    -- no observation has distinguished so far (e.g. the order in which blocked producers were admitted), so
    -- everything that depends on the model state is asked of the candidates that are consistent with the
    -- observation, never of an arbitrary one.
    let idF : St → Option St := some
    let (f, pre, mOf) : (St → Option St) × (St → Bool) × (List St → MSt) :=
      match kind with
      | "new" => (idF, fun _ => true, fun _ =>
          let W := (getNat fs "W").getD 1; let L := (getNat fs "L").getD 1
          { W := W, Lmin := L, Lmax := L })
      | "enq" =>
        let p := ((getF fs "prio").bind (·.toInt?)).getD 1
        let adj := getF fs "adj" == some "1"
        -- `av=`: the adjust function returns that value from the start (= the environment's `setAdj` right after the call)
        let av := (getF fs "av").bind (·.toInt?)
        (fun s => match step? s (.enqueue p ((getNat fs "name").getD 0) adj), av with
                  | some s', some v => step? s' (.setAdj s.nextId v)
                  | r, _ => r, fun _ => true,
         fun _ => { cs.m with enq := cs.m.enq ++ [(before.nextId, p, adj, cs.m.subs)] })
      | "rel" =>
        let pick := (getNat fs "pick").getD 0
        let err := getF fs "err" == some "1"
        let target (s : St) : Option Nat := if s.running.isEmpty then none else (s.running[pick % s.running.length]?).map (·.id)
        let implId := (getF ofs "id").bind (·.toNat?)
        (fun s => match target s with | some id => step? s (.finish id err) | none => some s,
         fun s => target s == implId,
         fun _ => match implId with | some id => { cs.m with released := cs.m.released ++ [(id, err)] } | none => cs.m)
      | "setadj" =>
        let id := (getNat fs "id").getD 0
        let v := ((getF fs "v").bind (·.toInt?)).getD 0
        (fun s => if id < s.nextId && (stored s ++ s.running).any (fun it => it.id == id && it.adj) || cs.m.enq.any (fun e => e.1 == id && e.2.2.1)
                  then step? s (.setAdj id v) else some s, fun _ => true, fun _ => cs.m)
      | "sub" => (fun s => step? s .subscribe, fun _ => true, fun _ => { cs.m with subs := cs.m.subs + 1 })
      | "recverr" =>
        let sub := (getNat fs "sub").getD 0
        let expect (s : St) : Option Nat := match s.mon with | .fanout e (x :: _) => if x == sub then some e else none | _ => none
        (fun s => match expect s with | some _ => step? s (.subRecv sub) | none => some s,
         fun s => (getF ofs "got").bind (·.toNat?) == expect s, fun _ => cs.m)
      | "resize" =>
        let L := (getNat fs "L").getD 1
        (fun s => step? s (.resizeLen L), fun _ => true, fun _ => { cs.m with Lmin := min cs.m.Lmin L, Lmax := max cs.m.Lmax L })
      | "deq" =>
        let id := (getNat fs "id").getD 0
        let implRet := getF ofs "ret"
        if implRet == some "skipped" then (idF, fun _ => true, fun _ => cs.m) else
        (fun s => if dequeueRet s id == .nil then step? s (.dequeue id) else some s,
         fun s => implRet == some (if dequeueRet s id == .nil then "nil" else "error"),
         fun ok =>
           if implRet == some "nil" && id < before.nextId && !o.started.contains id then { cs.m with deqNil := cs.m.deqNil ++ [id] }
           else if implRet == some "error" then { cs.m with deqErr := cs.m.deqErr ++ [id] } else cs.m)
      | "setprio" =>
        let id := (getNat fs "id").getD 0
        let p := ((getF fs "p").bind (·.toInt?)).getD 0
        if getF ofs "ret" == some "skipped" then (idF, fun _ => true, fun _ => cs.m) else
        (fun s => if setPrioRet s id == .nil && (findId (stored s) id).isSome then step? s (.setPrio id p) else some s,
         fun s => getF ofs "ret" == some (if setPrioRet s id == .nil then "nil" else "error"), fun _ => cs.m)
      | "stop" | "brk" =>
        let a := if kind == "stop" then Act.stop else Act.break_
        (fun s => step? s a, fun _ => true,
         fun ok =>
           -- skippable after Break: what waits in the heap in *every* candidate consistent with the observations
           -- (after an earlier Stop: what is queued behind the item the dispatcher is handing over)
           let skipOf (c : St) : List Nat := c.heap.map (·.id) ++ (match c.disp with | .drain (_ :: rest) => rest.map (·.id) | _ => [])
           let inAll := match ok with
             | [] => []
             | b :: rest => (skipOf b).filter (fun i => rest.all (fun c => (skipOf c).contains i))
           { cs.m with stopAt := match cs.m.stopAt with | some x => some x | none => some (sortN (before.accepted ++ before.rejected), before.nextId),
                       broke := cs.m.broke || kind == "brk",
                       skippable := if kind == "brk" && !cs.m.broke then inAll else cs.m.skippable })
      | "obs" | "final" | "otherq" => (idF, fun _ => true, fun _ => cs.m)   -- otherq: an unrelated queue is created or resized
      | _ => (fun _ => none, fun _ => false, fun _ => cs.m)
    let okBefore := if kind == "new" then [] else cs.cands.filter pre
    let prefixOK := kind == "new" || !okBefore.isEmpty
    let m' := mOf okBefore
    -- successors per candidate, so that a model-based clause can be asked of the right predecessor
    let succs : List (St × List St) :=
      if kind == "new" then
        let W := (getNat fs "W").getD 1; let L := (getNat fs "L").getD 1
        [(init W L, quiesce cs.fifo (init W L))]
      else okBefore.map (fun b => (b, advance cs.fifo [b] f))
    let cands' := (succs.flatMap (·.2)).eraseDups
    let okPairs := succs.filter (fun bs => bs.2.any (fun s => obsOf s == o))
    let matching := cands'.filter (fun s => obsOf s == o)
    let newly := o.started.filter (fun i => !cs.prevStarted.contains i)
    let cs1 := { cs with m := m' }
    let mon := monAlways cs1 o ++
      (if kind == "new" || m'.stopAt.isSome || (if okPairs.isEmpty then priorityOrderOK before o newly else okPairs.any (fun bs => priorityOrderOK bs.1 o newly)) then [] else
         -- after a SetPriority in this case the same failure also contradicts "competes with priority p from then on"
         ["C05.priority_then_fifo"] ++ (if cs.feats.contains "deq" then ["C16.setpriority_competes"] else [])) ++
      (if kind == "final" then (finalOK m' o).map (fun c => if c == "C04.never_dropped" && m'.stopAt.isSome then "C19.stop_runs_accepted_once" else c) else []) ++
      (if (kind == "deq" || kind == "setprio") && getF ofs "ret" == some "panic" then ["C16.no_panic"] else [])
    let feats := (if o.disp == "wait" then ["fullwait"] else []) ++ (if o.prod > 0 then ["blocked"] else []) ++
                 (if o.mon == "send" then ["fanout"] else []) ++ (if kind == "stop" || kind == "brk" then ["stop"] else []) ++
                 (if kind == "deq" || kind == "setprio" then ["deq"] else [])
    let branch := s!"{kind}.disp={o.disp}" ++ (if o.prod > 0 then ".blocked" else "")
    let modelStr := match cands'.head? with | some s => showObs (obsOf s) | none => "no-quiescent-successor"
    if matching.isEmpty || !prefixOK then
      ({ cs1 with dead := true, prevStarted := o.started, feats := feats ++ cs.feats, text := cs.text ++ ";" ++ op },
       { diffs := [if !prefixOK then "prefix" else "obs"], mon := mon, branch := branch,
         model := s!"cands={cands'.length} " ++ modelStr })
    else
      ({ cs1 with cands := matching, prevStarted := o.started, feats := feats ++ cs.feats, text := cs.text ++ ";" ++ op },
       { mon := mon, branch := branch, model := modelStr })

partial def loop (h : IO.FS.Stream) (st : Stats) (cs : CaseSt) (caseNo : String) (lineNo : Nat) : IO Stats := do
  let line ← h.getLine
  let fin (st : Stats) : Stats :=
    if cs.feats.contains "fullwait" || cs.feats.contains "stop" || cs.feats.contains "fanout" || cs.feats.contains "deq"
    then { st with nontrivial := st.nontrivial.insert (hash cs.text) } else st
  if line.isEmpty then return fin st
  let line := (line.dropEndWhile (· == '\n')).toString
  if line.startsWith "case " then
    loop h { fin st with cases := st.cases + 1 } {} ((words line).getD 1 "?") 0
  else if line.isEmpty then loop h st cs caseNo lineNo
  else
    let (op, obs) := splitTrace line
    let (cs1, r1) := step cs op obs
    -- fifo search found no matching candidate: replay the case so far with every admission order
    let (cs', r, fellBack) :=
      if cs.fifo && !cs.dead && !r1.diffs.isEmpty then
        let full := cs.hist.reverse.foldl (fun acc (x : String × String) => (step acc x.1 x.2).1) ({ fifo := false } : CaseSt)
        if full.dead then (cs1, r1, false) else
        let (c2, r2) := step full op obs
        (c2, r2, true)
      else (cs1, r1, false)
    let cs' := { cs' with hist := (op, obs) :: cs.hist }
    let mut st := { st with ops := st.ops + 1 }
    st := st.bump r.branch
    if fellBack then st := st.bump "search.full-admission-orders"
    unless r.diffs.isEmpty do
      IO.println s!"DIFF case={caseNo} line={lineNo} fields={",".intercalate r.diffs} model=[{r.model}] impl=[{obs}] op=[{op}]"
      st := { st with diffs := st.diffs + 1 }
    for clause in r.mon do
      IO.println s!"MONFAIL case={caseNo} line={lineNo} clause={clause} impl=[{obs}] op=[{op}]"
      st := { st with monfails := st.monfails + 1 }
    loop h st cs' caseNo (lineNo + 1)

def main : IO Unit := do
  let st ← loop (← IO.getStdin) {} {} "?" 0
  st.print


/-! ### self-test: the model as implementation

`tvdriver wqsim <seed>` reads a *script* (the operations the harness would apply to the real queue) and
answers every operation from the model itself, resolving each choice the model leaves open (which enabled
internal step runs next, in particular which blocked producer is admitted) pseudo-randomly.  The trace it
prints has the format of the harness's; fed to `tvdriver wq` it must produce no DIFF and no MONFAIL: every
behaviour the model allows — a superset of what the Go scheduler shows on one machine — has to pass the
monitors and the candidate search.  This tests the *machinery* for false alarms; it says nothing about the code. -/

def lcg (x : Nat) : Nat := (x * 6364136223846793005 + 1442695040888963407) % 18446744073709551616

/-- run internal steps, choosing pseudo-randomly, until none is enabled. -/
def settleRandom : Nat → Nat → St → Nat × St
  | 0, rng, s => (rng, s)
  | fuel + 1, rng, s =>
    let acts := internalActs s
    if acts.isEmpty then (rng, s) else
    let rng := lcg rng
    match acts[(rng / 65536) % acts.length]? >>= step? s with
    | some s' => settleRandom fuel rng s'
    | none => (rng, s)

structure SimSt where
  s : St := init 1 1
  rng : Nat := 1
  lastDisp : String := "select"
  lastProd : Nat := 0

def simStep (st : SimSt) (op : String) : SimSt × String :=
  let toks := words op
  let fs := fieldsOf toks
  let kind := toks.headD "?"
  let s := st.s
  let fin (s' : St) (pre : String) : SimSt × String :=
    let (rng, q) := settleRandom 100000 st.rng s'
    let o := obsOf q
    ({ s := q, rng := rng, lastDisp := o.disp, lastProd := o.prod }, pre ++ showObs o)
  let orSame (x : Option St) : St := x.getD s
  match kind with
  | "new" => fin (init ((getNat fs "W").getD 1) ((getNat fs "L").getD 1)) ""
  | "enq" =>
    let p := ((getF fs "prio").bind (·.toInt?)).getD 1
    let adj := getF fs "adj" == some "1"
    let av := (getF fs "av").bind (·.toInt?)
    let s1 := orSame (step? s (.enqueue p ((getNat fs "name").getD 0) adj))
    let s2 := match av with | some v => orSame' s1 (step? s1 (.setAdj s.nextId v)) | none => s1
    fin s2 ""
  | "rel" =>
    let pick := (getNat fs "pick").getD 0
    let err := getF fs "err" == some "1"
    if s.running.isEmpty then fin s "id=none " else
    match s.running[pick % s.running.length]? with
    | some it => fin (orSame (step? s (.finish it.id err))) s!"id={it.id} "
    | none => fin s "id=none "
  | "setadj" =>
    let id := (getNat fs "id").getD 0
    let v := ((getF fs "v").bind (·.toInt?)).getD 0
    -- the harness changes the value only of an item that was enqueued with an adjust function
    if id < s.nextId && ((stored s ++ s.running ++ s.blocked ++ s.limbo).any (fun it => it.id == id && it.adj) || (s.adjVals.any (·.1 == id)))
    then fin (orSame (step? s (.setAdj id v))) "" else fin s ""
  | "sub" => fin (orSame (step? s .subscribe)) ""
  | "recverr" =>
    let sub := (getNat fs "sub").getD 0
    match s.mon with
    | .fanout e (x :: _) => if x == sub then fin (orSame (step? s (.subRecv sub))) s!"got={e} " else fin s "got=none "
    | _ => fin s "got=none "
  | "resize" => fin (orSame (step? s (.resizeLen ((getNat fs "L").getD 1)))) ""
  | "deq" =>
    if st.lastDisp != "select" || st.lastProd != 0 then fin s "ret=skipped " else
    let id := (getNat fs "id").getD 0
    if dequeueRet s id == .nil then fin (orSame (step? s (.dequeue id))) "ret=nil " else fin s "ret=error "
  | "setprio" =>
    if st.lastDisp != "select" || st.lastProd != 0 then fin s "ret=skipped " else
    let id := (getNat fs "id").getD 0
    let p := ((getF fs "p").bind (·.toInt?)).getD 0
    if setPrioRet s id == .nil then
      (if (findId (stored s) id).isSome then fin (orSame (step? s (.setPrio id p))) "ret=nil " else fin s "ret=nil ")
    else fin s "ret=error "
  | "stopstorm" => (st, "storm hung=0 notrun=0 twice=0")   -- a model-free stimulus: nothing for the model to answer
  | "stop" => fin (orSame (step? s .stop)) ""
  | "brk" => fin (orSame (step? s .break_)) ""
  | _ => fin s ""
where orSame' (d : St) (x : Option St) : St := x.getD d

partial def simLoop (h : IO.FS.Stream) (st : SimSt) : IO Unit := do
  let line ← h.getLine
  if line.isEmpty then return ()
  let line := (line.dropEndWhile (· == '\n')).toString
  if line.startsWith "case " then
    IO.println line
    simLoop h { st with s := init 1 1, lastDisp := "select", lastProd := 0 }
  else if line.isEmpty then simLoop h st
  else
    let (st', obs) := simStep st line
    IO.println s!"{line} => {obs}"
    simLoop h st'

def simMain (seed : Nat) : IO Unit := do
  simLoop (← IO.getStdin) { rng := lcg (seed + 12345) }

end Driver.WQ
