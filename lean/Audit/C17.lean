import TV.Properties.C17
#print axioms TV.C17.C17_bundle_order
#print axioms TV.C17.C17_recording_trace
#print axioms TV.C17.C17_log_transparent
#print axioms TV.C17.C17_chain_transparent
#print axioms TV.C17.C17_routes_served
#print axioms TV.C17.C17_others_rejected
#print axioms TV.C17.C17_subtree_served
#print axioms TV.C17.C17_each_listener_has_its_router
#print axioms TV.C17.pinned_C17_https_routes_404
#print axioms TV.C17.pinned_C17_logrequest_drains_body
