import TV.Properties.C13
#print axioms TV.C13.C13_resize_capacity
#print axioms TV.C13.C13_survivors_keep_values
#print axioms TV.C13.C13_all_survive_if_fit
#print axioms TV.C13.C13_survivors_are_newest
#print axioms TV.C13.C13_resize_wf
#print axioms TV.C13.C13_post_resize_inserts_are_newer
#print axioms TV.C13.C13_clear_empty
#print axioms TV.C13.C13_clear_like_new
