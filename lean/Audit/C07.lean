import TV.Properties.C07
import TV.ShapeOK.SafeMap
#print axioms TV.C07.C07_linearizable_of_sound
#print axioms TV.C07.C07_real_time_order
#print axioms TV.C07.C07_single_section_sound
#print axioms TV.C07.C07_safemap_sound
#print axioms TV.C07.C07_safemap_linearizable
#print axioms TV.C07.C07_getOrAdd_one_winner
#print axioms TV.C07.C07_miss_is_zero
#print axioms TV.C07.C07_atomic_read_modify_write
#print axioms TV.C07.C07_syncmap_type_faithful
#print axioms TV.C07.pinned_C07_nil_interface_panics
#print axioms TV.C07.pinned_C07_getOrAdd_not_sound
#print axioms TV.C07.pinned_C07_history_rejected
#print axioms TV.C07.C07_lincheck_sound
#print axioms TV.C07.C07_lincheck_iff
#print axioms TV.ShapeOK.SafeMap.discipline
#print axioms TV.ShapeOK.SafeMap.sections
#print axioms TV.ShapeOK.SafeMap.getOrAdd_rechecks
