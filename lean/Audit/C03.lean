import TV.Properties.C03
#print axioms TV.C03.C03_ghost_erasure
#print axioms TV.C03.C03_fifo
#print axioms TV.C03.C03_update_does_not_renew
#print axioms TV.C03.C03_reinsert_renews
#print axioms TV.C03.C03_no_eviction_until_full
#print axioms TV.C03.C03_overflow_evicts_at_most_one_partition
