import TV.Properties.C18
#print axioms TV.C18.C18_wg_balanced
#print axioms TV.C18.C18_no_deadlock
#print axioms TV.C18.C18_stop_complete
#print axioms TV.C18.C18_waits_for_inflight
#print axioms TV.C18.C18_start_signals_all
#print axioms TV.C18.C18_retried_stop_waits
#print axioms TV.C18.C18_retried_stop_progress
#print axioms TV.C18.C18_expired_stop_cuts_nothing
