import TV.Properties.C05
#print axioms TV.C05.C05_less_is_lexicographic
#print axioms TV.C05.C05_heap_invariant
#print axioms TV.C05.C05_adjust_consults_all
#print axioms TV.C05.C05_pop_is_min
#print axioms TV.C05.C05_direct_only_when_empty
#print axioms TV.C05.pinned_C05_not_fifo
