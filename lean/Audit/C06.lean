import TV.Properties.C06
#print axioms TV.C06.C06_at_most_once
#print axioms TV.C06.C06_only_published_and_accepted
#print axioms TV.C06.C06_buffer_holds_sent
#print axioms TV.C06.C06_delivered_if_room
#print axioms TV.C06.C06_publish_reaches_every_subscriber
#print axioms TV.C06.C06_model_passes_monitor_deliveries
#print axioms TV.C06.C06_model_passes_monitor_ledger
