import TV.Properties.C01
#print axioms TV.C01.C01_wf
#print axioms TV.C01.C01_get_after_set
#print axioms TV.C01.C01_get_after_set_sweep
#print axioms TV.C01.C01_set_other
#print axioms TV.C01.C01_delete
#print axioms TV.C01.C01_forget_only
#print axioms TV.C01.C01_get_absent
#print axioms TV.C01.C01_present_is_latest
#print axioms TV.C01.C01_views_agree
#print axioms TV.C01.C01_monitor_views
