import TV.Properties.C15
#print axioms TV.C15.C15_publish_never_blocks
#print axioms TV.C15.C15_buffer_absorbs
#print axioms TV.C15.C15_one_outcome_each
#print axioms TV.C15.C15_timeout_own_and_not_early
#print axioms TV.C15.C15_callbacks_exactly_once
#print axioms TV.C15.C15_no_goroutine_left
#print axioms TV.C15.C15_model_passes_monitor_buffers
#print axioms TV.C15.C15_model_passes_monitor_callbacks
