import TV.Properties.C02
#print axioms TV.C02.C02_len_le_capacity
#print axioms TV.C02.C02_capacity_round_down
#print axioms TV.C02.C02_capacity_stable
#print axioms TV.C02.C02_default_calculator
#print axioms TV.C02.pinned_C02_witness
