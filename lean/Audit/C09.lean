import TV.Properties.C09
#print axioms TV.C09.C09_running_le_workers
#print axioms TV.C09.C09_pipeline_full
#print axioms TV.C09.C09_work_conserving
#print axioms TV.C09.C09_backpressure_upper
#print axioms TV.C09.C09_blocked_only_when_busy
#print axioms TV.C09.C09_full_branch_threshold
#print axioms TV.C09.C09_resume
#print axioms TV.C09.C09_model_passes_monitor_workers
#print axioms TV.C09.C09_model_passes_monitor_work_conserving
#print axioms TV.C09.C09_model_passes_monitor_backpressure
