import TV.Properties.C14
#print axioms TV.C14.C14_at_most_once
#print axioms TV.C14.C14_only_failed
#print axioms TV.C14.C14_exactly_once_when_quiet
#print axioms TV.C14.C14_every_error_reported
#print axioms TV.C14.C14_subs_monotone
#print axioms TV.C14.C14_subscribe_anytime
