import TV.Properties.C14
import TV.ShapeOK.Queue
#print axioms TV.C14.C14_at_most_once
#print axioms TV.C14.C14_only_failed
#print axioms TV.C14.C14_exactly_once_when_quiet
#print axioms TV.C14.C14_every_error_reported
#print axioms TV.C14.C14_subs_monotone
#print axioms TV.C14.C14_subscribe_anytime
#print axioms TV.C14.C14_model_passes_monitor
#print axioms TV.ShapeOK.Queue.discipline
#print axioms TV.ShapeOK.Queue.sites_present
