import TV.Properties.C12
#print axioms TV.C12.C12_remove
#print axioms TV.C12.C12_remove_guard
#print axioms TV.C12.C12_cut
#print axioms TV.C12.C12_insert
#print axioms TV.C12.C12_filterInPlace
#print axioms TV.C12.C12_push
#print axioms TV.C12.C12_pop_nonempty
#print axioms TV.C12.C12_pop_empty
#print axioms TV.C12.C12_distinct
#print axioms TV.C12.C12_union
#print axioms TV.C12.C12_intersection
#print axioms TV.C12.C12_difference
#print axioms TV.C12.C12_disjoin
#print axioms TV.C12.pinned_C12_intersection_dup
#print axioms TV.C12.pinned_C12_intersection_miss
#print axioms TV.C12.pinned_C12_difference_dup
#print axioms TV.C12.pinned_C12_disjoin_dup
