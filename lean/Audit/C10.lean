import TV.Properties.C10
import TV.ShapeOK.Publisher
#print axioms TV.C10.C10_no_panic
#print axioms TV.C10.C10_closed_once
#print axioms TV.C10.C10_close_completes
#print axioms TV.C10.C10_buffered_stay_readable
#print axioms TV.C10.C10_nothing_after_close
#print axioms TV.C10.C10_others_unaffected
#print axioms TV.C10.pinned_C10_send_on_closed
#print axioms TV.ShapeOK.Publisher.discipline
#print axioms TV.ShapeOK.Publisher.sites_present
