import TV.Properties.C16
#print axioms TV.C16.C16_dequeued_never_start
#print axioms TV.C16.C16_dequeue_error_noop_reach
#print axioms TV.C16.C16_unknown_id_noop
#print axioms TV.C16.C16_in_progress
#print axioms TV.C16.C16_dequeue_removes_exactly
#print axioms TV.C16.C16_setprio_waiting
#print axioms TV.C16.C16_model_passes_monitor
