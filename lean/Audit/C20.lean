import TV.Properties.C20
#print axioms TV.C20.C20_flat_faithful
#print axioms TV.C20.C20_error_renders_once
#print axioms TV.C20.C20_reads_pure
#print axioms TV.C20.C20_read_sequences
#print axioms TV.C20.C20_add_contains_both
#print axioms TV.C20.C20_model_passes_monitor_perm
#print axioms TV.C20.C20_monitor_flat
#print axioms TV.C20.C20_monitor_error
#print axioms TV.C20.C20_monitor_add
#print axioms TV.C20.C20_model_passes_monitor
#print axioms TV.C20.pinned_C20_read_grows
#print axioms TV.C20.pinned_C20_nil_map_panics
