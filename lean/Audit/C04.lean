import TV.Properties.C04
#print axioms TV.C04.C04_at_most_once
#print axioms TV.C04.C04_ids_distinct
#print axioms TV.C04.C04_never_dropped
#print axioms TV.C04.C04_started_were_accepted
#print axioms TV.C04.C04_workitems_exact
#print axioms TV.C04.C04_no_deadlock
#print axioms TV.C04.C04_internal_steps_terminate
#print axioms TV.C04.C04_model_passes_monitor
