import TV.Properties.C11
import TV.Properties.C11c
import TV.ShapeOK.Stack
#print axioms TV.C11.C11_refines_fifo
#print axioms TV.C11.C11_push_ids
#print axioms TV.C11.C11_heap_push
#print axioms TV.C11.C11_heap_pop
#print axioms TV.C11.C11_heap_pop_empty
#print axioms TV.C11.C11_heap_remove
#print axioms TV.C11.C11_heap_fix
#print axioms TV.C11.C11_heap_init
#print axioms TV.C11c.C11_concurrent_conservation
#print axioms TV.C11c.C11_concurrent_heap_order
#print axioms TV.C11c.pinned_C11_two_pops_panic
#print axioms TV.ShapeOK.Stack.discipline
#print axioms TV.ShapeOK.Stack.sections
