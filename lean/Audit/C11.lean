import TV.Properties.C11
#print axioms TV.C11.C11_refines_fifo
#print axioms TV.C11.C11_push_ids
#print axioms TV.C11.C11_heap_push
#print axioms TV.C11.C11_heap_pop
#print axioms TV.C11.C11_heap_pop_empty
#print axioms TV.C11.C11_heap_remove
#print axioms TV.C11.C11_heap_fix
#print axioms TV.C11.C11_heap_init
