import TV.Properties.C19
#print axioms TV.C19.C19_no_panic
#print axioms TV.C19.C19_callers_return
#print axioms TV.C19.C19_after_stop_never_run
#print axioms TV.C19.C19_stop_keeps_accepted
#print axioms TV.C19.C19_break_skips_waiting
#print axioms TV.C19.C19_shutdown_no_deadlock
#print axioms TV.C19.C19_model_passes_monitor
#print axioms TV.C19.C19_break_after_stop_skips_rest
