import TV.Properties.C08
import TV.ShapeOK.Cache
#print axioms TV.C08.C08_linearizable_to_C01_model
#print axioms TV.C08.C08_get_was_set
#print axioms TV.C08.C08_views_consistent
#print axioms TV.ShapeOK.Cache.discipline
#print axioms TV.ShapeOK.Cache.one_section_each
#print axioms TV.ShapeOK.Cache.len_delegates
