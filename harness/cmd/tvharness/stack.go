package main

import (
	"sync/atomic"
	"errors"
	"fmt"
	"os"
	"regexp"
	"sort"
	"strings"
	"sync"

	terrors "github.com/rbell/toolchest/errors"
	"github.com/rbell/toolchest/storage"
)

func init() {
	components["stack"] = &component{gen: genStack, exec: execStack}
	components["stackconc"] = &component{gen: genStackConc, exec: execStack}
}

func genStack(g *genCtx) {
	nCases := int(1500 * g.scale)
	maxOps := 120
	if !g.quick() {
		nCases = int(40000 * g.scale)
		maxOps = 250
	}
	for t := 0; t < nCases; t++ {
		g.newCase("kind=seq")
		r := g.rng
		g.op("new size=%d", []int{0, 0, 1, 2, 8, 64}[r.intn(6)])
		stream := r.intn(3) // 0 balanced, 1 push-heavy then drain, 2 pop-heavy (often empty)
		pushed := 0
		for i, iN := 0, r.rangeIn(1, maxOps); i < iN; i++ {
			x := r.intn(100)
			pp := []int{45, 65, 25}[stream]
			switch {
			case x < pp:
				pushed++
				g.op("push %d", 100+pushed)
			case x < pp+25:
				g.op("pop")
			case x < pp+40:
				g.op("peek %d", r.intn(pushed+3))
			case x < pp+48:
				g.op("len")
			default:
				g.op("values")
			}
		}
		if stream == 1 {
			for i := 0; i < pushed+1; i++ {
				g.op("pop")
			}
			g.op("values")
		}
	}
}

func genStackConc(g *genCtx) {
	rounds := int(60 * g.scale)
	trials := 20000
	if !g.quick() {
		rounds = int(1500 * g.scale)
		trials = 1000000
	}
	g.newCase("kind=twopop")
	g.op("new size=0")
	g.op("twopop trials=%d", trials)
	g.newCase("kind=pushorder")
	g.op("new size=0")
	g.op("pushorder trials=%d g=4", trials)
	g.newCase("kind=peeklive")
	g.op("new size=0")
	g.op("peeklive rounds=%d g=4 pinned=8", trials/200)
	for t := 0; t < rounds; t++ {
		g.newCase("kind=stress")
		r := g.rng
		g.op("new size=%d", []int{0, 1, 2, 64}[r.intn(4)])
		g.op("stress g=%d ops=%d init=%d seed=%d", []int{2, 4, 8}[r.intn(3)], r.rangeIn(20, 400), []int{0, 1, 2, 50}[r.intn(4)], r.intn(1<<30))
	}
}

// ---- race-report collection (the -race binary is run with GORACE=log_path=...) ----

var raceSeen int

var raceFn = regexp.MustCompile(`(?m)^  ([A-Za-z0-9_./*()\[\]\-]+)\(`)

// raceReports returns summaries ("fnA|fnB") of data-race reports written since the last call.
func raceReports() []string {
	lp := ""
	for _, kv := range strings.Fields(os.Getenv("GORACE")) {
		if strings.HasPrefix(kv, "log_path=") {
			lp = kv[len("log_path="):]
		}
	}
	if lp == "" {
		return nil
	}
	data, err := os.ReadFile(fmt.Sprintf("%s.%d", lp, os.Getpid()))
	if err != nil {
		return nil
	}
	reports := strings.Split(string(data), "WARNING: DATA RACE")[1:]
	out := []string{}
	for i, rep := range reports {
		if i < raceSeen {
			continue
		}
		// first frame of each of the two accesses
		parts := regexp.MustCompile(`(?m)^(Read|Write|Previous read|Previous write) at .*$`).Split(rep, -1)
		fns := []string{}
		for _, p := range parts[1:] {
			for _, m := range raceFn.FindAllStringSubmatch(p, -1) {
				fn := m[1]
				if strings.Contains(fn, "toolchest") {
					fn = fn[strings.LastIndex(fn, "/")+1:]
					fn = regexp.MustCompile(`\[[^\]]*\]`).ReplaceAllString(fn, "")
					fns = append(fns, fn)
					break
				}
			}
		}
		sort.Strings(fns)
		out = append(out, strings.Join(fns, "|"))
	}
	raceSeen = len(reports)
	return out
}

func raceObs() string {
	rs := raceReports()
	if len(rs) == 0 {
		return "races=0"
	}
	sort.Strings(rs)
	uniq := []string{}
	for i, r := range rs {
		if i == 0 || r != rs[i-1] {
			uniq = append(uniq, r)
		}
	}
	return fmt.Sprintf("races=%d racefns=%s", len(rs), strings.Join(uniq, ";"))
}

func execStack(x *execCtx) {
	var s *storage.GenericStack[int]
	for x.in.Scan() {
		line := x.in.Text()
		if strings.HasPrefix(line, "case ") || line == "" {
			fmt.Fprintln(x.w, line)
			continue
		}
		toks := strings.Fields(line)
		f := fields(toks[1:])
		obs := protect(func() string {
			switch toks[0] {
			case "new":
				s = storage.NewGenericStack[int](atoi(f["size"]))
				return "ok"
			case "push":
				return fmt.Sprintf("id=%d", s.Push(atoi(toks[1])))
			case "pop":
				return fmt.Sprintf("val=%d", s.Pop())
			case "peek":
				v, err := s.Peek(uint64(atoi(toks[1])))
				if err != nil {
					var nf *terrors.NotFound
					if errors.As(err, &nf) {
						return "notfound"
					}
					return "othererror"
				}
				return fmt.Sprintf("found=%d", v)
			case "len":
				return fmt.Sprintf("n=%d", s.Len())
			case "values":
				return "vals=" + encList(s.Values())
			case "twopop":
				trials := atoi(f["trials"])
				panics, wrong := 0, 0
				for t := 0; t < trials; t++ {
					st := storage.NewGenericStack[int](0)
					st.Push(7)
					var wg sync.WaitGroup
					var mu sync.Mutex
					got := []int{}
					for gI := 0; gI < 2; gI++ {
						wg.Add(1)
						go func() {
							defer wg.Done()
							defer func() {
								if r := recover(); r != nil {
									mu.Lock()
									panics++
									mu.Unlock()
								}
							}()
							v := st.Pop()
							mu.Lock()
							got = append(got, v)
							mu.Unlock()
						}()
					}
					wg.Wait()
					sort.Ints(got)
					if len(got) == 2 && !(got[0] == 0 && got[1] == 7) {
						wrong++
					}
				}
				return fmt.Sprintf("panics=%d wrong=%d %s", panics, wrong, raceObs())
			case "pushorder":
				// concurrent pushes onto a fresh stack, then a sequential drain: Pop must return the values in id order
				trials, G := atoi(f["trials"]), atoi(f["g"])
				bad, panics := 0, 0
				for t := 0; t < trials; t++ {
					st := storage.NewGenericStack[int](0)
					ids := make([]uint64, G)
					var wg sync.WaitGroup
					start := make(chan struct{})
					for gi := 0; gi < G; gi++ {
						wg.Add(1)
						go func(gi int) {
							defer wg.Done()
							<-start
							ids[gi] = st.Push(gi + 1)
						}(gi)
					}
					close(start)
					wg.Wait()
					byID := map[uint64]int{}
					for gi, id := range ids {
						byID[id] = gi + 1
					}
					func() {
						defer func() {
							if r := recover(); r != nil {
								panics++
							}
						}()
						for id := uint64(1); id <= uint64(G); id++ {
							if v := st.Pop(); v != byID[id] {
								bad++
								return
							}
						}
					}()
				}
				return fmt.Sprintf("panics=%d wrong=%d %s", panics, bad, raceObs())
			case "peeklive":
				// nothing is ever popped: while some goroutines push, Peek of an id whose Push has returned must find its value
				rounds, G, pinned := atoi(f["rounds"]), atoi(f["g"]), atoi(f["pinned"])
				var bad, panics atomic.Int64
				for t := 0; t < rounds; t++ {
					st := storage.NewGenericStack[int](0)
					ids := make([]uint64, pinned)
					for i := range ids {
						ids[i] = st.Push(1000 + i)
					}
					var wg sync.WaitGroup
					start := make(chan struct{})
					for gi := 0; gi < G; gi++ {
						wg.Add(2)
						go func(gi int) {
							defer wg.Done()
							defer func() {
								if r := recover(); r != nil {
									panics.Add(1)
								}
							}()
							<-start
							for i := 0; i < 40; i++ {
								st.Push(gi*100 + i)
							}
						}(gi)
						go func() {
							defer wg.Done()
							defer func() {
								if r := recover(); r != nil {
									panics.Add(1)
								}
							}()
							<-start
							for i := 0; i < 40; i++ {
								for k, id := range ids {
									if v, err := st.Peek(id); err != nil || v != 1000+k {
										bad.Add(1)
									}
								}
							}
						}()
					}
					close(start)
					wg.Wait()
				}
				return fmt.Sprintf("panics=%d wrong=%d %s", panics.Load(), bad.Load(), raceObs())
			case "stress":
				return stackStress(s, atoi(f["g"]), atoi(f["ops"]), atoi(f["init"]), uint64(atoi(f["seed"])))
			}
			return "bad-op"
		})
		x.out(line, obs)
	}
}

// stackStress: G goroutines push unique values / pop / peek / values concurrently; afterwards the
// pushed multiset must equal popped + remaining, ids must be distinct, nothing invented.
func stackStress(s *storage.GenericStack[int], G, ops, initN int, seed uint64) string {
	type pushRec struct {
		id uint64
		v  int
	}
	var mu sync.Mutex
	pushed := []pushRec{}
	popped := []int{}
	panics := 0
	peekBad := 0
	for i := 0; i < initN; i++ {
		v := 1000000 + i
		pushed = append(pushed, pushRec{s.Push(v), v})
	}
	var wg sync.WaitGroup
	for gi := 0; gi < G; gi++ {
		wg.Add(1)
		go func(gi int) {
			defer wg.Done()
			r := newRng(seed + uint64(gi)*7919)
			for i := 0; i < ops; i++ {
				func() {
					defer func() {
						if rec := recover(); rec != nil {
							mu.Lock()
							panics++
							mu.Unlock()
						}
					}()
					switch x := r.intn(100); {
					case x < 45:
						v := (gi+1)*10000 + i + 1
						id := s.Push(v)
						mu.Lock()
						pushed = append(pushed, pushRec{id, v})
						mu.Unlock()
					case x < 85:
						v := s.Pop()
						if v != 0 {
							mu.Lock()
							popped = append(popped, v)
							mu.Unlock()
						}
					case x < 93:
						// a value found by Peek must be the one pushed under that id (checked afterwards for own pushes)
						mu.Lock()
						var pr *pushRec
						if len(pushed) > 0 {
							p := pushed[r.intn(len(pushed))]
							pr = &p
						}
						mu.Unlock()
						if pr != nil {
							if v, err := s.Peek(pr.id); err == nil && v != pr.v {
								mu.Lock()
								peekBad++
								mu.Unlock()
							}
						}
					default:
						_ = s.Values()
						_ = s.Len()
					}
				}()
			}
		}(gi)
	}
	wg.Wait()
	remaining := s.Values()
	// at quiescence the stack is a FIFO-by-id queue again: a sequential drain returns the remaining values in id order
	idOf := map[int]uint64{}
	for _, p := range pushed {
		idOf[p.v] = p.id
	}
	var lastID uint64
	for range remaining {
		v := s.Pop()
		if idOf[v] <= lastID {
			peekBad++
		}
		lastID = idOf[v]
	}
	ids := map[uint64]bool{}
	dupIds := 0
	want := map[int]int{}
	for _, p := range pushed {
		if ids[p.id] {
			dupIds++
		}
		ids[p.id] = true
		want[p.v]++
	}
	have := map[int]int{}
	for _, v := range popped {
		have[v]++
	}
	for _, v := range remaining {
		have[v]++
	}
	lost, dup, invented := 0, 0, 0
	for v, n := range want {
		if have[v] < n {
			lost += n - have[v]
		}
		if have[v] > n {
			dup += have[v] - n
		}
	}
	for v, n := range have {
		if want[v] == 0 {
			invented += n
		}
	}
	sorted := sort.SliceIsSorted(remaining, func(i, j int) bool { return false }) // order is by id; values carry no order
	_ = sorted
	return fmt.Sprintf("panics=%d lost=%d dup=%d invented=%d dupids=%d peekbad=%d len=%d remaining=%d %s",
		panics, lost, dup, invented, dupIds, peekBad, len(remaining), len(remaining), raceObs())
}
